(** The executable parser [cparse] of spec/CGrammar.v against the derivation relation:
    soundness ([cparse ts = Some t -> Derives 0 ts t]), fuel monotonicity, completeness (every
    derivation is found with enough fuel) and hence DETERMINISM of the grammar: a token list derives
    at most one tree at a level.  "The C compiler parses it this way" is therefore not an existence
    claim. *)

From Coq Require Import ZArith Bool List String Lia.
From Flocq Require Import Core BinarySingleNaN.
From TV Require Import spec.Num gen.IRAst spec.CGrammar.
Import ListNotations.
Local Open Scope nat_scope.
Local Open Scope list_scope.

(** * Helpers *)

Lemma cast_start_some ts s r : cast_start ts = Some (s, r) -> ts = TLParen :: TTypeName s :: r.
Proof.
  destruct ts as [|a ts]; [discriminate |]. destruct a; try discriminate.
  destruct ts as [|b ts]; [discriminate |]. destruct b; try discriminate.
  simpl. intros H; inversion H; reflexivity.
Qed.

Lemma sizeof_arg_some ts s r :
  sizeof_arg ts = Some (s, r) -> ts = TLParen :: TTypeName s :: TRParen :: r.
Proof.
  destruct ts as [|a ts]; [discriminate |]. destruct a; try discriminate.
  destruct ts as [|b ts]; [discriminate |]. destruct b; try discriminate.
  destruct ts as [|c ts]; [discriminate |]. destruct c; try discriminate.
  simpl. intros H; inversion H; reflexivity.
Qed.

Lemma arrow_field_some ts f r : arrow_field ts = Some (f, r) -> ts = TId f :: r.
Proof.
  destruct ts as [|a ts]; [discriminate |]. destruct a; try discriminate.
  simpl. intros H; inversion H; reflexivity.
Qed.

Lemma expect_rparen_some ts r : expect_rparen ts = Some r -> ts = TRParen :: r.
Proof.
  destruct ts as [|a ts]; [discriminate |]. destruct a; try discriminate.
  simpl. intros H; inversion H; reflexivity.
Qed.

Lemma expect_rbrack_some ts r : expect_rbrack ts = Some r -> ts = TRBrack :: r.
Proof.
  destruct ts as [|a ts]; [discriminate |]. destruct a; try discriminate.
  simpl. intros H; inversion H; reflexivity.
Qed.

Lemma expect_comma_some ts r : expect_comma ts = Some r -> ts = TComma :: r.
Proof.
  destruct ts as [|a ts]; [discriminate |]. destruct a; try discriminate.
  simpl. intros H; inversion H; reflexivity.
Qed.

Lemma base_type_name s t : base_type s = Some t -> base_name t = Some s.
Proof.
  unfold base_type.
  repeat match goal with
         | |- context [String.eqb s ?k] =>
             destruct (String.eqb_spec s k); [subst; intros H; inversion H; reflexivity |]
         end.
  discriminate.
Qed.

Lemma base_name_type t s : base_name t = Some s -> base_type s = Some t.
Proof. destruct t; simpl; intros H; inversion H; reflexivity. Qed.

Lemma token_op_token o : token_op (op_token o) = Some o.
Proof. destruct o; reflexivity. Qed.

Lemma token_op_some tok o : token_op tok = Some o -> tok = op_token o.
Proof. destruct tok; simpl; intros H; inversion H; reflexivity. Qed.

Lemma op_level_le5 o : op_level o <= 5.
Proof. destruct o; simpl; lia. Qed.

Lemma derives_level_le9 l ts t : Derives l ts t -> l <= 9.
Proof. induction 1; try lia; destruct o; simpl; lia. Qed.

(** * Soundness *)

Definition sound_at (m : pmode) (ts : list ctoken) (t : cexpr) (rest : list ctoken) : Prop :=
  match m with
  | MExpr l => exists ts0, ts = ts0 ++ rest /\ Derives l ts0 t
  | MBin l acc =>
      forall pre, Derives l pre acc -> exists ts0, ts = ts0 ++ rest /\ Derives l (pre ++ ts0) t
  | MPost acc =>
      forall pre, Derives 8 pre acc -> exists ts0, ts = ts0 ++ rest /\ Derives 8 (pre ++ ts0) t
  end.

Ltac inv H := inversion H; subst; clear H.

Lemma cparse_step_sound rec :
  (forall m ts t rest, rec m ts = Some (t, rest) -> sound_at m ts t rest) ->
  forall m ts t rest, cparse_step rec m ts = Some (t, rest) -> sound_at m ts t rest.
Proof.
  intros IH m ts t rest H. destruct m as [l | l acc | acc]; unfold cparse_step in H.
  - (* MExpr l *)
    destruct (l <=? 5) eqn:E5.
    { apply Nat.leb_le in E5.
      destruct (rec (MExpr (S l)) ts) as [[a r]|] eqn:E1; [| discriminate].
      apply IH in E1. destruct E1 as (ts1 & -> & D1).
      apply IH in H. assert (Hlt : l < 9) by lia. specialize (H ts1 (D_sub l ts1 a Hlt D1)).
      destruct H as (ts0 & -> & D2). exists (ts1 ++ ts0). rewrite app_assoc. auto. }
    destruct (l =? 6) eqn:E6.
    { apply Nat.eqb_eq in E6. subst l.
      destruct (cast_start ts) as [[s r]|] eqn:Ec.
      - apply cast_start_some in Ec. subst ts.
        destruct (base_type s) as [ty|] eqn:Eb; [| discriminate].
        destruct (expect_rparen r) as [r1|] eqn:Er; [| discriminate].
        apply expect_rparen_some in Er. subst r.
        destruct (rec (MExpr 6) r1) as [[a r2]|] eqn:E1; [| discriminate].
        inv H. apply IH in E1. destruct E1 as (ts1 & -> & D1).
        exists (TLParen :: TTypeName s :: TRParen :: ts1). split; [reflexivity |].
        apply D_cast; [apply base_type_name; exact Eb | exact D1].
      - apply IH in H. destruct H as (ts0 & -> & D). exists ts0. split; [reflexivity |].
        apply D_sub; [lia | exact D]. }
    destruct (l =? 7) eqn:E7.
    { apply Nat.eqb_eq in E7. subst l.
      assert (Hfall : rec (MExpr 8) ts = Some (t, rest) -> sound_at (MExpr 7) ts t rest).
      { intros H8. apply IH in H8. destruct H8 as (ts0 & -> & D). exists ts0. split; [reflexivity |].
        apply D_sub; [lia | exact D]. }
      destruct ts as [|tok r]; [exact (Hfall H) |].
      destruct tok; try exact (Hfall H).
      - (* TMinus *)
        destruct (rec (MExpr 6) r) as [[a r1]|] eqn:E1; [| discriminate].
        inv H. apply IH in E1. destruct E1 as (ts1 & -> & D1).
        exists (TMinus :: ts1). split; [reflexivity |]. apply D_neg; exact D1.
      - (* TSizeof *)
        destruct (sizeof_arg r) as [[s r1]|] eqn:Es; [| discriminate].
        apply sizeof_arg_some in Es. subst r.
        destruct (base_type s) as [ty|] eqn:Eb; [| discriminate].
        inv H. exists [TSizeof; TLParen; TTypeName s; TRParen]. split; [reflexivity |].
        apply D_sizeof. apply base_type_name; exact Eb. }
    destruct (l =? 8) eqn:E8.
    { apply Nat.eqb_eq in E8. subst l.
      destruct (rec (MExpr 9) ts) as [[a r]|] eqn:E1; [| discriminate].
      apply IH in E1. destruct E1 as (ts1 & -> & D1).
      apply IH in H. assert (Hlt : 8 < 9) by lia. specialize (H ts1 (D_sub 8 ts1 a Hlt D1)).
      destruct H as (ts0 & -> & D2). exists (ts1 ++ ts0). rewrite app_assoc. auto. }
    destruct (l =? 9) eqn:E9; [| discriminate].
    apply Nat.eqb_eq in E9. subst l.
    destruct ts as [|tok r]; [discriminate |].
    destruct tok; try discriminate; try (inv H; eexists [_]; split;
      [reflexivity | first [apply D_id | apply D_int | apply D_float | apply D_true | apply D_false]]).
    (* TLParen *)
    destruct (rec (MExpr 0) r) as [[a r']|] eqn:E1; [| discriminate].
    destruct (expect_rparen r') as [r1|] eqn:Er; [| discriminate].
    apply expect_rparen_some in Er. subst r'. inv H.
    apply IH in E1. destruct E1 as (ts1 & -> & D1).
    exists (TLParen :: ts1 ++ [TRParen]). split; [simpl; rewrite <- app_assoc; reflexivity |].
    apply D_paren; exact D1.
  - (* MBin l acc *)
    intros pre Dacc.
    assert (Hstop : Some (acc, ts) = Some (t, rest) ->
                    exists ts0, ts = ts0 ++ rest /\ Derives l (pre ++ ts0) t).
    { intros E. inv E. exists []. rewrite app_nil_r. auto. }
    destruct ts as [|tok r]; [exact (Hstop H) |].
    destruct (token_op tok) as [o|] eqn:Eo; [| exact (Hstop H)].
    destruct (op_level o =? l) eqn:El; [| exact (Hstop H)].
    apply Nat.eqb_eq in El. subst l. apply token_op_some in Eo. subst tok.
    destruct (rec (MExpr (S (op_level o))) r) as [[b r1]|] eqn:E1; [| discriminate].
    apply IH in E1. destruct E1 as (ts1 & -> & D1).
    apply IH in H. specialize (H (pre ++ op_token o :: ts1) (D_bin _ _ _ _ _ Dacc D1)).
    destruct H as (ts0 & -> & D2).
    exists (op_token o :: ts1 ++ ts0). split; [simpl; rewrite <- app_assoc; reflexivity |].
    replace (pre ++ op_token o :: ts1 ++ ts0) with ((pre ++ op_token o :: ts1) ++ ts0)
      by (rewrite <- app_assoc; reflexivity).
    exact D2.
  - (* MPost acc *)
    intros pre Dacc.
    assert (Hstop : Some (acc, ts) = Some (t, rest) ->
                    exists ts0, ts = ts0 ++ rest /\ Derives 8 (pre ++ ts0) t).
    { intros E. inv E. exists []. rewrite app_nil_r. auto. }
    destruct ts as [|tok r]; [exact (Hstop H) |].
    destruct tok; try exact (Hstop H).
    + (* TLParen: call *)
      destruct (rec (MExpr 0) r) as [[a r']|] eqn:E1; [| discriminate].
      apply IH in E1. destruct E1 as (ts1 & -> & D1).
      destruct (expect_rparen r') as [r1|] eqn:Er.
      * apply expect_rparen_some in Er. subst r'.
        apply IH in H. specialize (H (pre ++ TLParen :: ts1 ++ [TRParen]) (D_call1 _ _ _ _ Dacc D1)).
        destruct H as (ts0 & -> & D2).
        exists (TLParen :: ts1 ++ TRParen :: ts0).
        split; [simpl; rewrite <- app_assoc; reflexivity |].
        replace (pre ++ TLParen :: ts1 ++ TRParen :: ts0)
          with ((pre ++ TLParen :: ts1 ++ [TRParen]) ++ ts0)
          by (rewrite <- !app_assoc; simpl; rewrite <- app_assoc; reflexivity).
        exact D2.
      * destruct (expect_comma r') as [r1|] eqn:Ec; [| discriminate].
        apply expect_comma_some in Ec. subst r'.
        destruct (rec (MExpr 0) r1) as [[b r'']|] eqn:E2; [| discriminate].
        apply IH in E2. destruct E2 as (ts2 & -> & D2).
        destruct (expect_rparen r'') as [r2|] eqn:Er2; [| discriminate].
        apply expect_rparen_some in Er2. subst r''.
        apply IH in H.
        specialize (H (pre ++ TLParen :: ts1 ++ TComma :: ts2 ++ [TRParen])
                      (D_call2 _ _ _ _ _ _ Dacc D1 D2)).
        destruct H as (ts0 & -> & D3).
        exists (TLParen :: ts1 ++ TComma :: ts2 ++ TRParen :: ts0).
        split; [simpl; rewrite <- !app_assoc; simpl; rewrite <- app_assoc; reflexivity |].
        replace (pre ++ TLParen :: ts1 ++ TComma :: ts2 ++ TRParen :: ts0)
          with ((pre ++ TLParen :: ts1 ++ TComma :: ts2 ++ [TRParen]) ++ ts0)
          by (rewrite <- !app_assoc; simpl; rewrite <- !app_assoc; simpl; rewrite <- app_assoc;
              reflexivity).
        exact D3.
    + (* TLBrack *)
      destruct (rec (MExpr 0) r) as [[i r']|] eqn:E1; [| discriminate].
      apply IH in E1. destruct E1 as (ts1 & -> & D1).
      destruct (expect_rbrack r') as [r1|] eqn:Er; [| discriminate].
      apply expect_rbrack_some in Er. subst r'.
      apply IH in H. specialize (H (pre ++ TLBrack :: ts1 ++ [TRBrack]) (D_index _ _ _ _ Dacc D1)).
      destruct H as (ts0 & -> & D2).
      exists (TLBrack :: ts1 ++ TRBrack :: ts0).
      split; [simpl; rewrite <- app_assoc; reflexivity |].
      replace (pre ++ TLBrack :: ts1 ++ TRBrack :: ts0)
        with ((pre ++ TLBrack :: ts1 ++ [TRBrack]) ++ ts0)
        by (rewrite <- !app_assoc; simpl; rewrite <- app_assoc; reflexivity).
      exact D2.
    + (* TArrow *)
      destruct (arrow_field r) as [[f r1]|] eqn:Ef; [| discriminate].
      apply arrow_field_some in Ef. subst r.
      apply IH in H. specialize (H (pre ++ [TArrow; TId f]) (D_arrow _ _ _ Dacc)).
      destruct H as (ts0 & -> & D2).
      exists (TArrow :: TId f :: ts0). split; [reflexivity |].
      replace (pre ++ TArrow :: TId f :: ts0) with ((pre ++ [TArrow; TId f]) ++ ts0)
        by (rewrite <- app_assoc; reflexivity).
      exact D2.
Qed.

Lemma cparse_m_sound :
  forall n m ts t rest, cparse_m n m ts = Some (t, rest) -> sound_at m ts t rest.
Proof.
  induction n; intros m ts t rest H; [discriminate |].
  simpl in H. eapply cparse_step_sound; eauto.
Qed.

Theorem cparse_sound : forall ts t, cparse ts = Some t -> Derives 0 ts t.
Proof.
  unfold cparse. intros ts t H.
  destruct (cparse_m (cparse_fuel ts) (MExpr 0) ts) as [[t' r]|] eqn:E; [| discriminate].
  destruct r; [| discriminate]. inv H.
  apply cparse_m_sound in E. destruct E as (ts0 & -> & D). rewrite app_nil_r. exact D.
Qed.

(** * Fuel monotonicity *)

Lemma cparse_step_mono rec rec' :
  (forall m ts r, rec m ts = Some r -> rec' m ts = Some r) ->
  forall m ts r, cparse_step rec m ts = Some r -> cparse_step rec' m ts = Some r.
Proof.
  intros Hm m ts r H. unfold cparse_step in *.
  repeat (match goal with
          | H : match rec ?m ?ts with _ => _ end = Some _ |- _ =>
              let E := fresh "E" in
              destruct (rec m ts) as [[? ?]|] eqn:E; [rewrite (Hm _ _ _ E) | discriminate H]
          | H : (if ?c then _ else _) = Some _ |- _ => destruct c
          | H : match ?x with _ => _ end = Some _ |- _ => destruct x; try discriminate H
          end);
    try assumption; try (apply Hm; assumption).
Qed.

Lemma cparse_m_mono1 : forall n m ts r, cparse_m n m ts = Some r -> cparse_m (S n) m ts = Some r.
Proof.
  induction n; intros m ts r H; [discriminate |].
  change (cparse_step (cparse_m (S n)) m ts = Some r).
  change (cparse_step (cparse_m n) m ts = Some r) in H.
  eapply cparse_step_mono; [| exact H]. exact IHn.
Qed.

Lemma cparse_m_mono : forall n n' m ts r, n <= n' -> cparse_m n m ts = Some r -> cparse_m n' m ts = Some r.
Proof.
  intros n n' m ts r Hle H. induction Hle; [exact H |]. apply cparse_m_mono1. exact IHHle.
Qed.

(** * Completeness *)

Definition ev (m : pmode) (ts : list ctoken) (res : cexpr * list ctoken) : Prop :=
  exists n, cparse_m n m ts = Some res.

Lemma ev_step m ts res n1 :
  (forall n, n1 <= n -> cparse_step (cparse_m n) m ts = Some res) -> ev m ts res.
Proof. intros H. exists (S n1). simpl. apply H. lia. Qed.

Definition is_post_start (tok : ctoken) : bool :=
  match tok with TLBrack | TArrow | TLParen => true | _ => false end.

(** the token after a level-[l] expression cannot continue it *)
Definition stopb (l : nat) (rest : list ctoken) : bool :=
  match rest with
  | [] => true
  | tok :: _ =>
      negb (is_post_start tok) &&
      match token_op tok with Some o => op_level o <? l | None => true end
  end.

Lemma stopb_mono l l' rest : l <= l' -> stopb l rest = true -> stopb l' rest = true.
Proof.
  unfold stopb. destruct rest as [|tok r]; [auto |]. intros Hle H.
  apply andb_prop in H. destruct H as (H1 & H2). rewrite H1. simpl.
  destruct (token_op tok); [| reflexivity]. apply Nat.ltb_lt in H2. apply Nat.ltb_lt. lia.
Qed.

Lemma stopb_high l l' rest : 6 <= l' -> stopb l rest = true -> stopb l' rest = true.
Proof.
  unfold stopb. destruct rest as [|tok r]; [auto |]. intros Hle H.
  apply andb_prop in H. destruct H as (H1 & H2). rewrite H1. simpl.
  destruct (token_op tok) as [o|]; [| reflexivity]. apply Nat.ltb_lt.
  pose proof (op_level_le5 o). lia.
Qed.

Lemma ev_bin_stop l acc rest : stopb l rest = true -> ev (MBin l acc) rest (acc, rest).
Proof.
  intros H. exists 1. simpl. destruct rest as [|tok r]; [reflexivity |].
  unfold stopb in H. apply andb_prop in H. destruct H as (_ & H2).
  destruct (token_op tok) as [o|]; [| reflexivity].
  apply Nat.ltb_lt in H2. destruct (op_level o =? l) eqn:E; [| reflexivity].
  apply Nat.eqb_eq in E. lia.
Qed.

Lemma ev_post_stop acc rest l : stopb l rest = true -> ev (MPost acc) rest (acc, rest).
Proof.
  intros H. exists 1. simpl. destruct rest as [|tok r]; [reflexivity |].
  unfold stopb in H. apply andb_prop in H. destruct H as (H1 & _).
  destruct tok; try reflexivity; discriminate H1.
Qed.

Lemma ev_expr_low l ts a r res :
  l <= 5 -> ev (MExpr (S l)) ts (a, r) -> ev (MBin l a) r res -> ev (MExpr l) ts res.
Proof.
  intros Hl (n1 & E1) (n2 & E2). apply (ev_step _ _ _ (max n1 n2)). intros n Hn.
  unfold cparse_step. replace (l <=? 5) with true by (symmetry; apply Nat.leb_le; exact Hl).
  rewrite (cparse_m_mono n1 n _ _ _ ltac:(lia) E1). exact (cparse_m_mono n2 n _ _ _ ltac:(lia) E2).
Qed.

Lemma ev_bin_continue o acc r b r1 res :
  ev (MExpr (S (op_level o))) r (b, r1) -> ev (MBin (op_level o) (CBin o acc b)) r1 res ->
  ev (MBin (op_level o) acc) (op_token o :: r) res.
Proof.
  intros (n1 & E1) (n2 & E2). apply (ev_step _ _ _ (max n1 n2)). intros n Hn.
  unfold cparse_step. rewrite token_op_token, Nat.eqb_refl.
  rewrite (cparse_m_mono n1 n _ _ _ ltac:(lia) E1). exact (cparse_m_mono n2 n _ _ _ ltac:(lia) E2).
Qed.

Lemma ev_expr8 ts a r res : ev (MExpr 9) ts (a, r) -> ev (MPost a) r res -> ev (MExpr 8) ts res.
Proof.
  intros (n1 & E1) (n2 & E2). apply (ev_step _ _ _ (max n1 n2)). intros n Hn.
  unfold cparse_step. simpl.
  rewrite (cparse_m_mono n1 n _ _ _ ltac:(lia) E1). exact (cparse_m_mono n2 n _ _ _ ltac:(lia) E2).
Qed.

Lemma ev_expr7_fall ts res :
  match ts with TMinus :: _ | TSizeof :: _ => False | _ => True end ->
  ev (MExpr 8) ts res -> ev (MExpr 7) ts res.
Proof.
  intros Hh (n1 & E1). apply (ev_step _ _ _ n1). intros n Hn.
  unfold cparse_step. simpl.
  pose proof (cparse_m_mono n1 n _ _ _ Hn E1) as E.
  destruct ts as [|tok r]; [exact E |]. destruct tok; try exact E; contradiction.
Qed.

Lemma ev_expr6_fall ts res :
  cast_start ts = None -> ev (MExpr 7) ts res -> ev (MExpr 6) ts res.
Proof.
  intros Hh (n1 & E1). apply (ev_step _ _ _ n1). intros n Hn.
  unfold cparse_step. simpl. rewrite Hh. exact (cparse_m_mono n1 n _ _ _ Hn E1).
Qed.

Lemma ev_cast t s ts a r :
  base_name t = Some s -> ev (MExpr 6) ts (a, r) ->
  ev (MExpr 6) (TLParen :: TTypeName s :: TRParen :: ts) (CCast t a, r).
Proof.
  intros Hb (n1 & E1). apply (ev_step _ _ _ n1). intros n Hn.
  unfold cparse_step. simpl. rewrite (base_name_type _ _ Hb).
  rewrite (cparse_m_mono n1 n _ _ _ Hn E1). reflexivity.
Qed.

Lemma ev_neg ts a r : ev (MExpr 6) ts (a, r) -> ev (MExpr 7) (TMinus :: ts) (CNeg a, r).
Proof.
  intros (n1 & E1). apply (ev_step _ _ _ n1). intros n Hn.
  unfold cparse_step. simpl. rewrite (cparse_m_mono n1 n _ _ _ Hn E1). reflexivity.
Qed.

Lemma ev_sizeof t s r :
  base_name t = Some s -> ev (MExpr 7) (TSizeof :: TLParen :: TTypeName s :: TRParen :: r) (CSizeof t, r).
Proof.
  intros Hb. exists 1. simpl. rewrite (base_name_type _ _ Hb). reflexivity.
Qed.

Lemma ev_paren ts a r : ev (MExpr 0) ts (a, TRParen :: r) -> ev (MExpr 9) (TLParen :: ts) (a, r).
Proof.
  intros (n1 & E1). apply (ev_step _ _ _ n1). intros n Hn.
  unfold cparse_step. simpl. rewrite (cparse_m_mono n1 n _ _ _ Hn E1). reflexivity.
Qed.

Lemma ev_post_index acc ts i r res :
  ev (MExpr 0) ts (i, TRBrack :: r) -> ev (MPost (CIndex acc i)) r res ->
  ev (MPost acc) (TLBrack :: ts) res.
Proof.
  intros (n1 & E1) (n2 & E2). apply (ev_step _ _ _ (max n1 n2)). intros n Hn.
  unfold cparse_step. rewrite (cparse_m_mono n1 n _ _ _ ltac:(lia) E1). simpl.
  exact (cparse_m_mono n2 n _ _ _ ltac:(lia) E2).
Qed.

Lemma ev_post_arrow acc f r res :
  ev (MPost (CArrow acc f)) r res -> ev (MPost acc) (TArrow :: TId f :: r) res.
Proof.
  intros (n1 & E1). apply (ev_step _ _ _ n1). intros n Hn.
  unfold cparse_step. simpl. exact (cparse_m_mono n1 n _ _ _ Hn E1).
Qed.

Lemma ev_post_call1 acc ts a r res :
  ev (MExpr 0) ts (a, TRParen :: r) -> ev (MPost (CCall1 acc a)) r res ->
  ev (MPost acc) (TLParen :: ts) res.
Proof.
  intros (n1 & E1) (n2 & E2). apply (ev_step _ _ _ (max n1 n2)). intros n Hn.
  unfold cparse_step. rewrite (cparse_m_mono n1 n _ _ _ ltac:(lia) E1). simpl.
  exact (cparse_m_mono n2 n _ _ _ ltac:(lia) E2).
Qed.

Lemma ev_post_call2 acc ts a ts2 b r res :
  ev (MExpr 0) ts (a, TComma :: ts2) -> ev (MExpr 0) ts2 (b, TRParen :: r) ->
  ev (MPost (CCall2 acc a b)) r res ->
  ev (MPost acc) (TLParen :: ts) res.
Proof.
  intros (n1 & E1) (n2 & E2) (n3 & E3). apply (ev_step _ _ _ (max n1 (max n2 n3))). intros n Hn.
  unfold cparse_step. rewrite (cparse_m_mono n1 n _ _ _ ltac:(lia) E1). simpl.
  rewrite (cparse_m_mono n2 n _ _ _ ltac:(lia) E2). simpl.
  exact (cparse_m_mono n3 n _ _ _ ltac:(lia) E3).
Qed.

(** ** First tokens of a derivation *)

Definition starter (tok : ctoken) : bool :=
  match tok with
  | TId _ | TInt _ | TFlt _ | TTrue | TFalse | TMinus | TSizeof | TLParen => true
  | _ => false
  end.

Lemma head_starter l ts t : Derives l ts t -> exists tok r, ts = tok :: r /\ starter tok = true.
Proof.
  induction 1;
    try (destruct IHDerives as (tok & r & -> & Hs));
    try (destruct IHDerives1 as (tok & r & -> & Hs));
    simpl; eauto.
Qed.

Lemma not_single_lparen l ts t : Derives l ts t -> ts <> [TLParen].
Proof.
  induction 1; try assumption; try discriminate;
    try (destruct (head_starter _ _ _ H) as (tok & r & -> & Hs); destruct r; discriminate).
Qed.

Lemma head_no_cast l ts t : Derives l ts t -> 7 <= l -> cast_start ts = None.
Proof.
  induction 1; intros Hl; try reflexivity;
    try (pose proof (op_level_le5 o); lia); try lia.
  - apply IHDerives; lia.
  - (* index *)
    specialize (IHDerives1 Hl). destruct (head_starter _ _ _ H) as (tok & r & -> & Hs).
    destruct tok; try reflexivity. destruct r as [|tok2 r]; [reflexivity |].
    destruct tok2; try reflexivity. discriminate IHDerives1.
  - (* arrow *)
    specialize (IHDerives Hl). destruct (head_starter _ _ _ H) as (tok & r & -> & Hs).
    destruct tok; try reflexivity. destruct r as [|tok2 r]; [reflexivity |].
    destruct tok2; try reflexivity. discriminate IHDerives.
  - (* call1 *)
    specialize (IHDerives1 Hl). destruct (head_starter _ _ _ H) as (tok & r & -> & Hs).
    destruct tok; try reflexivity. destruct r as [|tok2 r]; [reflexivity |].
    destruct tok2; try reflexivity. discriminate IHDerives1.
  - (* call2 *)
    specialize (IHDerives1 Hl). destruct (head_starter _ _ _ H) as (tok & r & -> & Hs).
    destruct tok; try reflexivity. destruct r as [|tok2 r]; [reflexivity |].
    destruct tok2; try reflexivity. discriminate IHDerives1.
  - (* paren *)
    destruct (head_starter _ _ _ H) as (tok & r & -> & Hs).
    destruct tok; try reflexivity; discriminate Hs.
Qed.

Lemma head_no_unary l ts t :
  Derives l ts t -> 8 <= l -> match ts with TMinus :: _ | TSizeof :: _ => False | _ => True end.
Proof.
  induction 1; intros Hl; try exact I;
    try (pose proof (op_level_le5 o); lia); try lia.
  - apply IHDerives; lia.
  - specialize (IHDerives1 Hl). destruct (head_starter _ _ _ H) as (tok & r & -> & Hs).
    destruct tok; try exact I; contradiction.
  - specialize (IHDerives Hl). destruct (head_starter _ _ _ H) as (tok & r & -> & Hs).
    destruct tok; try exact I; contradiction.
  - specialize (IHDerives1 Hl). destruct (head_starter _ _ _ H) as (tok & r & -> & Hs).
    destruct tok; try exact I; contradiction.
  - specialize (IHDerives1 Hl). destruct (head_starter _ _ _ H) as (tok & r & -> & Hs).
    destruct tok; try exact I; contradiction.
Qed.

(** ** The invariant, by level *)

Definition Q (l : nat) (ts : list ctoken) (t : cexpr) : Prop :=
  (l <= 5 -> forall rest res, stopb (S l) rest = true -> ev (MBin l t) rest res ->
             ev (MExpr l) (ts ++ rest) res) /\
  (l = 6 \/ l = 7 -> forall rest, stopb l rest = true -> ev (MExpr l) (ts ++ rest) (t, rest)) /\
  (l = 8 -> forall rest res, ev (MPost t) rest res -> ev (MExpr 8) (ts ++ rest) res) /\
  (l = 9 -> forall rest, ev (MExpr 9) (ts ++ rest) (t, rest)).

Lemma Q_plain l ts t :
  l <= 9 -> Q l ts t -> forall rest, stopb l rest = true -> ev (MExpr l) (ts ++ rest) (t, rest).
Proof.
  intros Hl (Q1 & Q2 & Q3 & Q4) rest Hs.
  destruct (le_gt_dec l 5).
  - apply Q1; [assumption | apply stopb_mono with (l := l); [lia | exact Hs] |].
    apply ev_bin_stop; exact Hs.
  - assert (l = 6 \/ l = 7 \/ l = 8 \/ l = 9) as [-> | [-> | [-> | ->]]] by lia.
    + apply Q2; auto.
    + apply Q2; auto.
    + apply Q3; [reflexivity |]. eapply ev_post_stop; exact Hs.
    + apply Q4; reflexivity.
Qed.

Lemma stopb_op l o r : op_level o < l -> stopb l (op_token o :: r) = true.
Proof.
  intros H. unfold stopb. rewrite token_op_token.
  replace (op_level o <? l) with true by (symmetry; apply Nat.ltb_lt; exact H).
  destruct o; reflexivity.
Qed.

Theorem derives_Q : forall l ts t, Derives l ts t -> Q l ts t.
Proof.
  induction 1.
  - (* sub *)
    pose proof (derives_level_le9 _ _ _ H0) as H9.
    destruct IHDerives as (Q1 & Q2 & Q3 & Q4).
    assert (HQ : Q (S l) ts t) by (repeat split; assumption).
    repeat split.
    + intros Hl rest res Hs Hev.
      apply ev_expr_low with (a := t) (r := rest); [exact Hl | | exact Hev].
      apply Q_plain; [lia | exact HQ | exact Hs].
    + intros [-> | ->] rest Hs.
      * apply ev_expr6_fall.
        -- destruct (head_starter _ _ _ H0) as (tok & r & -> & Hst).
           pose proof (head_no_cast _ _ _ H0 ltac:(lia)) as Hc.
           simpl. destruct tok; try reflexivity. destruct r as [|tok2 r].
           ++ exfalso. exact (not_single_lparen _ _ _ H0 eq_refl).
           ++ destruct tok2; try reflexivity. discriminate Hc.
        -- apply Q_plain; [lia | exact HQ | apply stopb_mono with (l := 6); [lia | exact Hs]].
      * apply ev_expr7_fall.
        -- destruct (head_starter _ _ _ H0) as (tok & r & -> & Hst).
           pose proof (head_no_unary _ _ _ H0 ltac:(lia)) as Hc. simpl.
           destruct tok; try exact I; contradiction.
        -- apply Q_plain; [lia | exact HQ | apply stopb_mono with (l := 7); [lia | exact Hs]].
    + intros -> rest res Hev.
      apply ev_expr8 with (a := t) (r := rest); [| exact Hev]. apply Q4. reflexivity.
    + intros ->. lia.
  - (* bin *)
    pose proof (op_level_le5 o) as H5.
    destruct IHDerives1 as (Q1 & _).
    repeat split; try lia.
    intros _ rest res Hs Hev. rewrite <- app_assoc. simpl.
    apply Q1; [exact H5 | apply stopb_op; lia |].
    apply ev_bin_continue with (b := b) (r1 := rest); [| exact Hev].
    apply Q_plain; [lia | exact IHDerives2 | exact Hs].
  - (* cast *)
    repeat split; try lia.
    intros _ rest Hs. simpl. apply ev_cast; [exact H |].
    apply Q_plain; [lia | exact IHDerives | exact Hs].
  - (* neg *)
    repeat split; try lia.
    intros _ rest Hs. simpl. apply ev_neg.
    apply Q_plain; [lia | exact IHDerives | apply stopb_high with (l := 7); [lia | exact Hs]].
  - (* sizeof *)
    repeat split; try lia. intros _ rest Hs. simpl. apply ev_sizeof; exact H.
  - (* index *)
    destruct IHDerives1 as (_ & _ & Q3 & _).
    repeat split; try lia.
    intros _ rest res Hev. rewrite <- app_assoc. simpl. rewrite <- app_assoc. simpl.
    apply Q3; [reflexivity |].
    apply ev_post_index with (i := i) (r := rest); [| exact Hev].
    apply Q_plain; [lia | exact IHDerives2 | reflexivity].
  - (* arrow *)
    destruct IHDerives as (_ & _ & Q3 & _).
    repeat split; try lia.
    intros _ rest res Hev. rewrite <- app_assoc. simpl.
    apply Q3; [reflexivity |]. apply ev_post_arrow; exact Hev.
  - (* call1 *)
    destruct IHDerives1 as (_ & _ & Q3 & _).
    repeat split; try lia.
    intros _ rest res Hev. rewrite <- app_assoc. simpl. rewrite <- app_assoc. simpl.
    apply Q3; [reflexivity |].
    apply ev_post_call1 with (a := a) (r := rest); [| exact Hev].
    apply Q_plain; [lia | exact IHDerives2 | reflexivity].
  - (* call2 *)
    destruct IHDerives1 as (_ & _ & Q3 & _).
    repeat split; try lia.
    intros _ rest res Hev. rewrite <- app_assoc. simpl. rewrite <- app_assoc. simpl.
    rewrite <- app_assoc. simpl.
    apply Q3; [reflexivity |].
    apply ev_post_call2 with (a := a) (ts2 := ts2 ++ TRParen :: rest) (b := b) (r := rest);
      [| | exact Hev].
    + apply Q_plain; [lia | exact IHDerives2 | reflexivity].
    + apply Q_plain; [lia | exact IHDerives3 | reflexivity].
  - (* paren *)
    repeat split; try lia.
    intros _ rest. simpl. rewrite <- app_assoc. simpl. apply ev_paren.
    apply Q_plain; [lia | exact IHDerives | reflexivity].
  - repeat split; try lia. intros _ rest. exists 1. reflexivity.
  - repeat split; try lia. intros _ rest. exists 1. reflexivity.
  - repeat split; try lia. intros _ rest. exists 1. reflexivity.
  - repeat split; try lia. intros _ rest. exists 1. reflexivity.
  - repeat split; try lia. intros _ rest. exists 1. reflexivity.
Qed.

Theorem cparse_m_complete :
  forall l ts t, Derives l ts t -> exists n, cparse_m n (MExpr l) ts = Some (t, []).
Proof.
  intros l ts t H. pose proof (derives_level_le9 _ _ _ H) as H9.
  pose proof (Q_plain l ts t H9 (derives_Q _ _ _ H) [] eq_refl) as E.
  rewrite app_nil_r in E. exact E.
Qed.

(** * Determinism *)

Theorem derives_unique : forall l ts t t', Derives l ts t -> Derives l ts t' -> t = t'.
Proof.
  intros l ts t t' H H'.
  destruct (cparse_m_complete _ _ _ H) as (n & E).
  destruct (cparse_m_complete _ _ _ H') as (n' & E').
  pose proof (cparse_m_mono n (max n n') _ _ _ ltac:(lia) E) as F.
  pose proof (cparse_m_mono n' (max n n') _ _ _ ltac:(lia) E') as F'.
  congruence.
Qed.

(** the parser finds the derived tree, given enough fuel *)
Theorem cparse_m_finds :
  forall ts t, Derives 0 ts t -> exists n, forall n', n <= n' -> cparse_m n' (MExpr 0) ts = Some (t, []).
Proof.
  intros ts t H. destruct (cparse_m_complete _ _ _ H) as (n & E).
  exists n. intros n' Hn. exact (cparse_m_mono n n' _ _ _ Hn E).
Qed.
