(** The unread-dimension certificate on the initial states of the harness (property C16):
    two lists of stored tensors that differ only in listed dimension entries (same level arrays,
    same values) give initial states related by [dims_differ], hence -- for a certified kernel --
    runs with the same loop-iteration count, the same heap (all output arrays) and the same result. *)

From Coq Require Import ZArith Bool List String Lia FMapPositive FinFun.
From TV Require Import spec.Num gen.IRAst spec.IRSem spec.IRRun proofs.Certs2Base proofs.Certs2Sim.
Import ListNotations.
Open Scope Z_scope.

Local Arguments add_block : simpl never.

(** entry [k] of the [i]-th tensor is listed *)
Definition dflag (DSi : list (nat * Z)) (i : nat) (k : Z) : bool :=
  existsb (fun p => Nat.eqb (fst p) i && Z.eqb k (snd p)) DSi.

Definition dims_ok (fl : Z -> bool) (l1 l2 : list Z) : Prop :=
  List.length l1 = List.length l2 /\
  forall k a b, nthZ_opt l1 k = Some a -> nthZ_opt l2 k = Some b ->
    a = b \/ (fl k = true /\ in_int32 a = true /\ in_int32 b = true).

(** same stored arrays, dimensions equal except for the listed entries (which fit in int32) *)
Fixpoint tins_sim (DSi : list (nat * Z)) (i : nat) (ts1 ts2 : list tin) {struct ts1} : Prop :=
  match ts1, ts2 with
  | [], [] => True
  | a :: r1, b :: r2 =>
      ti_levels a = ti_levels b /\ ti_vals a = ti_vals b /\ ti_output a = ti_output b /\
      dims_ok (dflag DSi i) (ti_dims a) (ti_dims b) /\ tins_sim DSi (S i) r1 r2
  | _, _ => False
  end.

Definition tensor_ids (i n : nat) : list positive := map Pos.of_succ_nat (seq i n).

Section INIT.
  Variable DSi : list (nat * Z).
  Variable ids : list positive.

  Definition base_sim (s1 s2 : state) : Prop :=
    env s1 = env s2 /\ heap s1 = heap s2 /\ next_blk s1 = next_blk s2 /\ iters s1 = iters s2 /\
    tensors_sim (Dsem ids DSi) (tensors s1) (tensors s2).

  Lemma add_block_sim s1 s2 fl n cells inp :
    base_sim s1 s2 ->
    base_sim (fst (add_block s1 fl n cells inp)) (fst (add_block s2 fl n cells inp)) /\
    snd (add_block s1 fl n cells inp) = snd (add_block s2 fl n cells inp).
  Proof.
    intros (E & H & N & I & T). unfold add_block. simpl. rewrite N, H.
    repeat split; auto.
  Qed.

  Lemma add_levels_sim lv : forall s1 s2,
    base_sim s1 s2 ->
    base_sim (fst (add_levels s1 lv)) (fst (add_levels s2 lv)) /\
    snd (add_levels s1 lv) = snd (add_levels s2 lv).
  Proof.
    induction lv as [|[[pos crd]|] r IH]; intros s1 s2 B; cbn [add_levels].
    - auto.
    - match goal with |- context [add_block s1 ?a1 ?a2 ?a3 ?a4] =>
        destruct (add_block_sim s1 s2 a1 a2 a3 a4 B) as [B1 P1];
        destruct (add_block s1 a1 a2 a3 a4) as [x1 p1]; destruct (add_block s2 a1 a2 a3 a4) as [y1 q1]
      end. simpl in B1, P1. subst q1.
      match goal with |- context [add_block x1 ?a1 ?a2 ?a3 ?a4] =>
        destruct (add_block_sim x1 y1 a1 a2 a3 a4 B1) as [B2 P2];
        destruct (add_block x1 a1 a2 a3 a4) as [x2 p2]; destruct (add_block y1 a1 a2 a3 a4) as [y2 q2]
      end. simpl in B2, P2. subst q2.
      destruct (IH x2 y2 B2) as [B3 P3].
      destruct (add_levels x2 r) as [x3 l3], (add_levels y2 r) as [y3 m3]. simpl in *. subst. auto.
    - destruct (IH s1 s2 B) as [B3 P3].
      destruct (add_levels s1 r) as [x3 l3], (add_levels s2 r) as [y3 m3]. simpl in *. subst. auto.
  Qed.

  Lemma tensors_sim_add' D m1 m2 t a b :
    tensors_sim D m1 m2 -> tensor_sim D t a b -> tensors_sim D (PM.add t a m1) (PM.add t b m2).
  Proof.
    intros H T t'. destruct (Pos.eq_dec t' t) as [->|N].
    - now rewrite !PM.gss.
    - rewrite !PM.gso by auto. apply H.
  Qed.

  Lemma add_tensor_sim s1 s2 id a b :
    base_sim s1 s2 ->
    ti_levels a = ti_levels b -> ti_vals a = ti_vals b -> ti_output a = ti_output b ->
    dims_sim (Dsem ids DSi) id (ti_dims a) (ti_dims b) ->
    base_sim (add_tensor s1 id a) (add_tensor s2 id b).
  Proof.
    intros B L V O DD. unfold add_tensor. rewrite <- O, <- L, <- V. destruct (ti_output a).
    - destruct B as (E & H & N & I & T). repeat split; simpl; auto.
      apply tensors_sim_add'; auto. repeat split; simpl; auto; apply DD.
    - destruct (add_levels_sim (ti_levels a) s1 s2 B) as [B1 P1].
      destruct (add_levels s1 (ti_levels a)) as [x1 idx1], (add_levels s2 (ti_levels a)) as [y1 idx2].
      simpl in B1, P1. subst idx2.
      match goal with |- context [add_block x1 ?a1 ?a2 ?a3 ?a4] =>
        destruct (add_block_sim x1 y1 a1 a2 a3 a4 B1) as [B2 P2];
        destruct (add_block x1 a1 a2 a3 a4) as [x2 p2]; destruct (add_block y1 a1 a2 a3 a4) as [y2 q2]
      end. simpl in B2, P2. subst q2.
      destruct B2 as (E & H & N & I & T). repeat split; simpl; auto.
      apply tensors_sim_add'; auto. repeat split; simpl; auto; apply DD.
  Qed.

  Lemma init_tensors_sim ts1 : forall ts2 s1 s2 i,
    base_sim s1 s2 -> tins_sim DSi i ts1 ts2 ->
    (forall j, (i <= j < i + List.length ts1)%nat -> nth_error ids j = Some (Pos.of_succ_nat j)) ->
    base_sim (fst (init_tensors s1 (Pos.of_succ_nat i) ts1)) (fst (init_tensors s2 (Pos.of_succ_nat i) ts2)) /\
    snd (init_tensors s1 (Pos.of_succ_nat i) ts1) = map VTensor (tensor_ids i (List.length ts1)) /\
    snd (init_tensors s2 (Pos.of_succ_nat i) ts2) = map VTensor (tensor_ids i (List.length ts1)).
  Proof.
    induction ts1 as [|a r1 IH]; intros ts2 s1 s2 i B TS ID; destruct ts2 as [|b r2]; simpl in TS; try tauto.
    destruct TS as (L & V & O & DO & TS). cbn [init_tensors].
    assert (DD : dims_sim (Dsem ids DSi) (Pos.of_succ_nat i) (ti_dims a) (ti_dims b)).
    { destruct DO as [LL N]. split; auto. intros k x y H1 H2.
        destruct (N k x y H1 H2) as [->|(F & Ia & Ib)]; auto. right. repeat split; auto.
        unfold Dsem. unfold dflag in F. apply existsb_exists in F. destruct F as [[i' k'] [IN Q]].
        simpl in Q. apply andb_prop in Q. destruct Q as [Q1 Q2]. apply Nat.eqb_eq in Q1. subst i'.
        apply existsb_exists. exists (i, k'). split; auto. simpl. rewrite Q2. simpl.
        rewrite (ID i) by (simpl; lia). apply Pos.eqb_refl. }
      pose proof (add_tensor_sim s1 s2 (Pos.of_succ_nat i) a b B L V O DD) as B1.
      assert (SUCC : Pos.succ (Pos.of_succ_nat i) = Pos.of_succ_nat (S i)) by reflexivity.
      rewrite SUCC.
      destruct (IH r2 _ _ (S i) B1 TS) as (B2 & A1 & A2).
      { intros j Hj. apply ID. simpl. lia. }
      destruct (init_tensors (add_tensor s1 (Pos.of_succ_nat i) a) (Pos.of_succ_nat (S i)) r1) as [x1 l1].
      destruct (init_tensors (add_tensor s2 (Pos.of_succ_nat i) b) (Pos.of_succ_nat (S i)) r2) as [x2 l2].
      simpl in *. subst. auto.
  Qed.
End INIT.

Lemma tensor_ids_nth n j : (j < n)%nat -> nth_error (tensor_ids 0 n) j = Some (Pos.of_succ_nat j).
Proof.
  intros H. unfold tensor_ids. rewrite nth_error_map.
  assert (Q : nth_error (seq 0 n) j = Some j).
  { rewrite (nth_error_nth' _ O) by (rewrite seq_length; lia). rewrite seq_nth by lia. reflexivity. }
  now rewrite Q.
Qed.

Lemma tensor_ids_NoDup n : NoDup (tensor_ids 0 n).
Proof.
  unfold tensor_ids. apply FinFun.Injective_map_NoDup; [|apply seq_NoDup].
  intros a b H. apply SuccNat2Pos.inj in H. exact H.
Qed.

(** the initial states of the harness are related, and the arguments are the same tensor handles *)
Theorem init_state_dims_differ DSi ts1 ts2 : tins_sim DSi 0 ts1 ts2 ->
  let ids := tensor_ids 0 (List.length ts1) in
  dims_differ ids DSi (fst (init_state ts1)) (fst (init_state ts2)) /\
  snd (init_state ts1) = map VTensor ids /\ snd (init_state ts2) = map VTensor ids.
Proof.
  intros TS ids. unfold init_state.
  destruct (init_tensors_sim DSi ids ts1 ts2 empty_state empty_state O) as (B & A1 & A2); auto.
  - repeat split; auto. intros t. simpl. rewrite PM.gempty. exact I.
  - intros j Hj. apply tensor_ids_nth. lia.
  - change (Pos.of_succ_nat 0) with 1%positive in *. destruct B as (_ & H & N & I & T).
    repeat split; auto.
Qed.

(** same loop-iteration count (what the C16 check measures), for ALL such pairs of inputs *)
Theorem dim_unread_runs f DSi : dim_unread_cert f DSi = true ->
  forall fuel ts1 ts2, tins_sim DSi 0 ts1 ts2 ->
    run_iters fuel f ts1 = run_iters fuel f ts2.
Proof.
  intros C fuel ts1 ts2 TS. destruct (init_state_dims_differ DSi ts1 ts2 TS) as (DD & A1 & A2).
  unfold run_iters. destruct (init_state ts1) as [s1 a1], (init_state ts2) as [s2 a2].
  simpl in DD, A1, A2. subst a1 a2.
  pose proof (dim_unread_sound f DSi C (fuel_of fuel) _ s1 s2 (tensor_ids_NoDup _) DD) as H.
  destruct (call (fuel_of fuel) f _ s1) as [x t1|x v t1|e1|],
           (call (fuel_of fuel) f _ s2) as [y t2|y w t2|e2|]; simpl in H; try tauto.
  destruct H as ((_ & _ & I & _) & -> & _). destruct w; auto. destruct z; auto. now rewrite I.
Qed.

(** ... and the same final heap: every output array is identical *)
Theorem dim_unread_runs_heap f DSi : dim_unread_cert f DSi = true ->
  forall fuel ts1 ts2, tins_sim DSi 0 ts1 ts2 ->
    match call fuel f (snd (init_state ts1)) (fst (init_state ts1)),
          call fuel f (snd (init_state ts2)) (fst (init_state ts2)) with
    | Returned a v _, Returned b w _ => heap a = heap b /\ iters a = iters b /\ v = w
    | Normal _ _, Normal _ _ => True
    | Fail x, Fail y => x = y
    | OutOfFuel, OutOfFuel => True
    | _, _ => False
    end.
Proof.
  intros C fuel ts1 ts2 TS. destruct (init_state_dims_differ DSi ts1 ts2 TS) as (DD & A1 & A2).
  rewrite A1, A2.
  pose proof (dim_unread_sound f DSi C fuel _ _ _ (tensor_ids_NoDup _) DD) as H.
  destruct (call fuel f _ (fst (init_state ts1))) as [x t1|x v t1|e1|],
           (call fuel f _ (fst (init_state ts2))) as [y t2|y w t2|e2|]; simpl in H; try tauto.
  destruct H as ((? & _ & ? & _) & ? & _). auto.
Qed.

(** the verdict of the C16 comparison can never be "iteration counts differ" for a certified kernel *)
Corollary dim_unread_same_iters f DSi : dim_unread_cert f DSi = true ->
  forall fuel ts1 ts2, tins_sim DSi 0 ts1 ts2 ->
    same_iters fuel f ts1 ts2 = VOk \/
    (run_iters fuel f ts1 = None /\ run_iters fuel f ts2 = None).
Proof.
  intros C fuel ts1 ts2 TS. pose proof (dim_unread_runs f DSi C fuel ts1 ts2 TS) as H.
  unfold same_iters. rewrite <- H. destruct (run_iters fuel f ts1) as [a|]; auto.
  left. now rewrite Z.eqb_refl.
Qed.
