(** Function definitions and modules of the C printer (round 2 of TIE target "cprint", continued):
    [ir_to_c_function_definition] and [ir_to_c] regenerated (gen/IrToC.v) lex to
    [cprint_function] / [cprint_module] (model/CStruct.v). *)

From Coq Require Import ZArith NArith Bool List String Ascii Lia.
From Flocq Require Import Core BinarySingleNaN.
From TV Require Import spec.Num spec.PyLib proofs.PyLibFacts gen.IRAst spec.CGrammar model.CPrint
  model.CLexer model.CStruct gen.IrToC proofs.GenCPrint_equiv proofs.GenCStruct_equiv.
Import ListNotations.
Local Open Scope nat_scope.
Local Open Scope list_scope.

Section TieFun.

Variable fdec : string -> option F.
Variable str_float : F -> string.
Hypothesis ok : float_oracle_ok fdec str_float.

Let OA := proj1 ok.
Let OB := proj2 ok.

Notation lex := (CLexer.lex fdec).
Notation genS := (ir_to_c_statement str_float).
Notation L1 := (L1 fdec).
Notation LL := (LL fdec).

(** ** Function definitions and modules *)

Definition piece (x : string) (ts : list ctoken) : Prop :=
  forall rest, bnd rest = true -> lex None (x ++ rest)%string = prep ts (lex None rest).

Lemma params_pieces : forall ps, forallb decl_names_ok ps = true ->
  match omap (ir_to_c_declaration) ps, omap_decl ps with
  | Some texts, Some tss => Forall2 piece texts tss /\ Forall pl tss
  | None, None => True
  | _, _ => False
  end.
Proof.
  induction ps as [|p ps IH]; intros H.
  - cbn. split; constructor.
  - cbn [forallb] in H. apply andb_true_iff in H. destruct H as [Hp Hps]. specialize (IH Hps).
    cbn [omap omap_decl].
    pose proof (gen_declaration_lex fdec p) as D.
    destruct (ir_to_c_declaration p) as [x|], (cprint_declaration p) as [ts|] eqn:Ed;
      destruct (omap ir_to_c_declaration ps) as [xs|], (omap_decl ps) as [tss|];
      try (exact (D "" Hp eq_refl)); try exact IH; try exact I.
    destruct IH as [IH1 IH2]. split.
    + constructor; [|exact IH1]. intros rest Hb. apply D; assumption.
    + constructor; [|exact IH2].
      destruct p as [name type| | | | | | |]; cbn [cprint_declaration] in Ed; try discriminate Ed.
      destruct name; cbn [cprint_declaration] in Ed; try discriminate Ed.
      injection Ed as <-. apply pl_type. exact Hp.
Qed.

Lemma lex_joined_pieces : forall texts tss, Forall2 piece texts tss ->
  forall rest, bnd rest = true ->
  lex None (py_join ", " texts ++ rest)%string = prep (params_tokens tss) (lex None rest).
Proof.
  induction 1 as [|x ts xs tss Hx Hr IH]; intros rest Hb.
  - cbn. rewrite prep_nil. reflexivity.
  - destruct Hr as [|y us ys uss Hy Hys].
    + cbn [py_join params_tokens]. apply Hx. exact Hb.
    + change (py_join ", " (x :: y :: ys)) with (x ++ ", " ++ py_join ", " (y :: ys))%string.
      change (params_tokens (ts :: us :: uss)) with (ts ++ TComma :: params_tokens (us :: uss)).
      rewrite !sapp_assoc. rewrite Hx by reflexivity. norm. repeat lexstep fdec.
      rewrite IH by exact Hb. finish.
Qed.

Lemma pl_params : forall tss, Forall pl tss -> pl (params_tokens tss).
Proof.
  induction 1 as [|ts tss Ht Hr IH]; [exact pl_nil|].
  destruct tss as [|us tss]; [exact Ht|].
  change (params_tokens (ts :: us :: tss)) with (ts ++ TComma :: params_tokens (us :: tss)).
  apply pl_app; [exact Ht|apply pl_cons; [reflexivity|exact IH]].
Qed.

(** the tokens of a function definition, at the level of [lex] *)
Definition cfun_tokens (f : function_definition) : option (list ctoken) :=
  match f with
  | FunctionDefinition name params ret body =>
      match omap_decl params, skel body with
      | Some ps, Some l =>
          Some ((type_tokens ret None ++ cprint name ++ TLParen :: params_tokens ps ++ [TRParen; TId "{"])
                ++ cflats l ++ [TId "}"])
      | _, _ => None
      end
  end.

Theorem gen_function_lex : forall f, function_names_ok f = true ->
  match ir_to_c_function_definition str_float f, cfun_tokens f with
  | Some text, Some ts => forall rest, eol rest ->
      lex None (text ++ rest)%string = prep ts (lex None rest)
  | None, None => True
  | _, _ => False
  end.
Proof.
  intros [name params ret body] Hn. cbn [function_names_ok] in Hn.
  apply andb_true_iff in Hn. destruct Hn as [Hn Hb]. apply andb_true_iff in Hn. destruct Hn as [Hname Hps].
  unfold ir_to_c_function_definition, cfun_tokens.
  cbn [function_definition_name function_definition_parameters function_definition_return_type function_definition_body].
  pose proof (params_pieces params Hps) as PP.
  destruct (omap ir_to_c_declaration params) as [texts|], (omap_decl params) as [tss|]; try contradiction.
  2:{ destruct (skel body); exact I. }
  destruct PP as [PP _].
  pose proof (gen_struct_lines fdec str_float ok body Hb) as B. unfold prints in B.
  destruct (genS body) as [r|], (skel body) as [l|]; try contradiction; [|exact I].
  cbv zeta. intros rest Hr.
  apply LL_join; [|exact Hr].
  apply LL_app; [|apply LL_app; [apply LL_indent; exact B|apply LL_one; exact (L1_close fdec)]].
  apply LL_one. apply L1_of_any. intros X.
  rewrite !sapp_assoc. rewrite (lex_type fdec) by reflexivity. cbn [append]. rewrite lexc_space.
  rewrite (gen_cprint_lex fdec str_float OA OB name Hname) by reflexivity.
  norm. repeat lexstep fdec. rewrite (lex_joined_pieces _ _ PP) by reflexivity.
  norm. repeat lexstep fdec. finish.
Qed.

Theorem gen_function_equiv : forall f text, function_names_ok f = true ->
  ir_to_c_function_definition str_float f = Some text ->
  exists ts, cprint_function f = Some ts /\ slex fdec text = Some ts.
Proof.
  intros f text Hn E. pose proof (gen_function_lex f Hn) as H. rewrite E in H.
  destruct f as [name params ret body]. cbn [function_names_ok] in Hn.
  apply andb_true_iff in Hn. destruct Hn as [Hn Hb]. apply andb_true_iff in Hn. destruct Hn as [Hname Hps].
  unfold cfun_tokens, cprint_function, cprint_stmts in *.
  pose proof (params_pieces params Hps) as PP.
  destruct (omap_decl params) as [tss|]; [|contradiction].
  destruct (skel body) as [l|] eqn:El; [|contradiction].
  destruct (omap ir_to_c_declaration params); [|contradiction]. destruct PP as [_ PP].
  destruct (skel_Q body Hb l El) as [_ M].
  eexists. split; [reflexivity|].
  unfold slex, clex. rewrite <- (sapp_nil_r text). rewrite (H "" (or_introl eq_refl)).
  cbn [CLexer.lex flush prep]. rewrite app_nil_r. f_equal.
  set (H0 := type_tokens ret None ++ cprint name ++ TLParen :: params_tokens tss ++ [TRParen]).
  replace (type_tokens ret None ++ cprint name ++ TLParen :: params_tokens tss ++ [TRParen; TId "{"])
    with (H0 ++ [TId "{"])
    by (unfold H0; repeat (rewrite <- app_assoc; cbn [app]); reflexivity).
  assert (C : cl H0).
  { unfold H0. repeat apply cl_app; try (apply cl_pl; first [apply pl_type; reflexivity | apply pl_cprint; exact Hname]).
    apply cl_cons; [reflexivity|]. apply cl_app; [apply cl_pl; apply pl_params; exact PP|reflexivity]. }
  unfold cl in C. rewrite !map_app. cbn [map]. rewrite M, C. rewrite <- app_assoc. reflexivity.
Qed.

(** ** Modules: the function texts joined by blank lines *)

Lemma cfun_stok : forall f ts, function_names_ok f = true -> cfun_tokens f = Some ts ->
  cprint_function f = Some (map stok_of ts).
Proof.
  intros [name params ret body] ts Hn E. cbn [function_names_ok] in Hn.
  apply andb_true_iff in Hn. destruct Hn as [Hn Hb]. apply andb_true_iff in Hn. destruct Hn as [Hname Hps].
  unfold cfun_tokens, cprint_function, cprint_stmts in *.
  pose proof (params_pieces params Hps) as PP.
  destruct (omap_decl params) as [tss|]; [|discriminate E].
  destruct (skel body) as [l|] eqn:El; [|discriminate E].
  destruct (omap ir_to_c_declaration params); [|contradiction]. destruct PP as [_ PP].
  destruct (skel_Q body Hb l El) as [_ M]. injection E as <-. f_equal.
  set (H0 := type_tokens ret None ++ cprint name ++ TLParen :: params_tokens tss ++ [TRParen]).
  replace (type_tokens ret None ++ cprint name ++ TLParen :: params_tokens tss ++ [TRParen; TId "{"])
    with (H0 ++ [TId "{"])
    by (unfold H0; repeat (rewrite <- app_assoc; cbn [app]); reflexivity).
  assert (C : cl H0).
  { unfold H0. repeat apply cl_app; try (apply cl_pl; first [apply pl_type; reflexivity | apply pl_cprint; exact Hname]).
    apply cl_cons; [reflexivity|]. apply cl_app; [apply cl_pl; apply pl_params; exact PP|reflexivity]. }
  unfold cl in C. rewrite !map_app. cbn [map]. rewrite M, C. rewrite <- app_assoc. reflexivity.
Qed.

Definition fpiece (text : string) (ts : list ctoken) : Prop :=
  forall rest, eol rest -> lex None (text ++ rest)%string = prep ts (lex None rest).

Lemma lex_joined_functions : forall sep,
  (exists r, sep = String nl r) -> (forall X, lex None (sep ++ X)%string = lex None X) ->
  forall texts tss, Forall2 fpiece texts tss ->
  forall rest, eol rest ->
  lex None (py_join sep texts ++ rest)%string = prep (List.concat tss) (lex None rest).
Proof.
  intros sep [sr Hs1] Hs2. induction 1 as [|x ts xs tss Hx Hr IH]; intros rest Hb.
  - cbn. rewrite prep_nil. reflexivity.
  - destruct Hr as [|y us ys uss Hy Hys].
    + cbn [py_join List.concat]. rewrite app_nil_r. apply Hx. exact Hb.
    + change (py_join sep (x :: y :: ys)) with (x ++ sep ++ py_join sep (y :: ys))%string.
      rewrite !sapp_assoc.
      rewrite Hx by (right; exists (sr ++ py_join sep (y :: ys) ++ rest)%string; rewrite Hs1; reflexivity).
      rewrite Hs2. rewrite IH by exact Hb. rewrite prep_prep. reflexivity.
Qed.

Definition module_names_ok (m : module) : bool :=
  match m with IRModule fs => forallb function_names_ok fs end.

Theorem gen_module_equiv : forall m text, module_names_ok m = true ->
  ir_to_c str_float m = Some text ->
  exists ts, cprint_module m = Some ts /\ slex fdec text = Some ts.
Proof.
  intros [fs] text Hn E. cbn [module_names_ok] in Hn. unfold ir_to_c in E. cbn [module_definitions] in E.
  cbn [cprint_module].
  assert (G : match omap (fun x_ : function_definition =>
                            let function := x_ in
                            match ir_to_c_function_definition str_float function with
                            | Some r_1_ => Some r_1_ | None => None end) fs
              with
              | Some texts => exists tss, Forall2 fpiece texts tss /\
                                cprint_functions fs = Some (map stok_of (List.concat tss))
              | None => True
              end).
  { clear E. induction fs as [|f fs IH]; [cbn; exists []; split; [constructor|reflexivity]|].
    cbn [forallb] in Hn. apply andb_true_iff in Hn. destruct Hn as [Hf Hfs]. specialize (IH Hfs).
    cbn [omap cprint_functions]. cbv zeta.
    pose proof (gen_function_lex f Hf) as GF. pose proof (cfun_stok f) as CS.
    destruct (ir_to_c_function_definition str_float f) as [t|]; [|exact I].
    destruct (cfun_tokens f) as [ts|]; [|contradiction].
    rewrite (CS ts Hf eq_refl).
    destruct (omap _ fs) as [texts|]; [|exact I].
    destruct IH as [tss [F2 EF]]. exists (ts :: tss). split; [constructor; [exact GF|exact F2]|].
    rewrite EF. cbn [List.concat]. rewrite map_app. reflexivity. }
  destruct (omap _ fs) as [texts|]; [|discriminate E]. injection E as <-.
  destruct G as [tss [F2 EF]]. eexists. split; [exact EF|].
  unfold slex, clex. rewrite <- (sapp_nil_r (py_join _ texts)).
  match goal with
  | |- context [py_join ?sep texts] =>
      pose proof (lex_joined_functions sep (ex_intro _ _ eq_refl) (fun X => eq_refl) texts tss F2 ""
                    (or_introl eq_refl)) as J
  end.
  rewrite J. cbn [CLexer.lex flush prep]. rewrite app_nil_r. reflexivity.
Qed.

End TieFun.
