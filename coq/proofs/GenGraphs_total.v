(** * TIE "graphs": generation is TOTAL for the enumeration of today's source
    ([to_iteration_graphs_src], proved in GenGraphs_equiv.v to be what the regenerated
    to_iteration_graphs enumerates): every graph merged from a SUPPORTED target chain is not bad.

    Invariant [follows n tgt g]: in output state [OAppend n], either only dense output layers remain
    ([dense_tail]: then nothing can be bad), or [g] is the IterationNode of the next target layer and
    its [next] follows the rest of the chain.  merge_assignment keeps it because a pending compressed
    layer forbids placing an expression index first; simplify_add keeps it because all its terms then
    start with the same node (one group). *)
From Coq Require Import ZArith List Bool String Lia Arith Permutation.
From TV Require Import model.GraphsIter.
From TV Require model.Graphs model.OutputOrder.
From TV Require Import proofs.GraphsInd.
From TV Require proofs.GraphsSimplify proofs.GraphsAssign proofs.GraphsOrders proofs.GraphsMerge
  proofs.OutputOrderWalk.
From TV Require Export proofs.GenGraphs_equiv.
Import ListNotations.
Open Scope list_scope.

Section Total.
  Variable modes : list M.mode.
  Notation len := (List.length modes).

  Definition dense_tail (n : nat) : bool := forallb M.is_dense (skipn n modes).

  Lemma skipn_S_tl : forall A (l : list A) n, skipn (S n) l = tl (skipn n l).
  Proof. induction l as [|x r IH]; intros [|n]; try reflexivity. exact (IH n). Qed.

  Lemma dense_tail_S : forall n, dense_tail n = true -> dense_tail (S n) = true.
  Proof.
    unfold dense_tail. intros n H. rewrite skipn_S_tl. destruct (skipn n modes) as [|m r]; [reflexivity|].
    simpl in *. now apply andb_true_iff in H as [_ H].
  Qed.

  Lemma dense_not_bad : forall g n, dense_tail n = true -> O.bad_struct_from modes n g = false.
  Proof.
    induction g as [e | i o nx IH | nm ts]; intros n H; cbn [O.bad_struct_from].
    - reflexivity.
    - destruct (match o with Some o0 => Nat.eqb n (M.ol_layer o0) | None => false end).
      + apply IH. now apply dense_tail_S.
      + fold (dense_tail n). now rewrite H.
    - fold (dense_tail n). now rewrite H.
  Qed.

  Fixpoint follows (n : nat) (tgt : list M.tlayer) (g : M.graph) : Prop :=
    match tgt with
    | [] => dense_tail n = true
    | (ti, tl) :: ts =>
        dense_tail n = true
        \/ exists g', g = M.IterationNode ti (Some tl) g' /\ follows (S n) ts g'
    end.

  Lemma follows_dense : forall n tgt g, dense_tail n = true -> follows n tgt g.
  Proof. intros n [|[ti tl] ts] g H; [exact H | now left]. Qed.

  Definition modes_ok (tgt : list M.tlayer) : Prop :=
    Forall (fun t => M.t_modes (M.ol_tensor (snd t)) = modes) tgt.
  Definition layers (tgt : list M.tlayer) : list nat := map (fun t => M.ol_layer (snd t)) tgt.

  Lemma follows_not_bad : forall tgt n g,
    modes_ok tgt -> target_supported_from n tgt = true -> follows n tgt g ->
    O.bad_struct_from modes n g = false.
  Proof.
    induction tgt as [|[ti tl] ts IH]; intros n g Hm Hs Hf.
    - now apply dense_not_bad.
    - destruct Hf as [Hd | [g' [-> Hf]]]; [now apply dense_not_bad|].
      inversion Hm as [|? ? Hm1 Hm']; subst. cbn [snd] in Hm1.
      cbn [target_supported_from] in Hs. cbn [O.bad_struct_from].
      rewrite Nat.eqb_sym. destruct (Nat.eqb (M.ol_layer tl) n); cbn [negb] in Hs.
      + now apply IH.
      + rewrite Hm1 in Hs. now rewrite Hs.
  Qed.

  Lemma not_dense_witness : forall (l : list M.mode) n,
    forallb M.is_dense (skipn n l) = false ->
    exists p, (n <= p)%nat /\ nth_error l p = Some M.Compressed.
  Proof.
    induction l as [|m r IH]; intros n H.
    - destruct n; discriminate.
    - destruct n as [|n].
      + cbn [skipn forallb] in H. destruct m.
        * cbn in H. destruct (IH 0%nat H) as [p [_ Hp]]. exists (S p). split; [lia | exact Hp].
        * exists 0%nat. split; [lia | reflexivity].
      + cbn [skipn] in H. destruct (IH n H) as [p [Hle Hp]]. exists (S p). split; [lia | exact Hp].
  Qed.

  Lemma pending_of_not_dense : forall tgt n,
    modes_ok tgt -> Permutation (layers tgt) (seq n (len - n)) -> dense_tail n = false ->
    M.pending_compressed tgt = true.
  Proof.
    intros tgt n Hm Hp Hd. destruct (not_dense_witness modes n Hd) as [p [Hle Hnth]].
    assert (p < len)%nat by (apply nth_error_Some; congruence).
    assert (In p (layers tgt)).
    { eapply Permutation_in; [apply Permutation_sym; exact Hp|]. apply in_seq. lia. }
    unfold layers in H0. apply in_map_iff in H0 as [t [Et Hin]].
    unfold M.pending_compressed. apply existsb_exists. exists t. split; [exact Hin|].
    unfold modes_ok in Hm. rewrite Forall_forall in Hm. specialize (Hm t Hin).
    unfold M.ol_mode. rewrite Hm, Et, Hnth. reflexivity.
  Qed.

  (** *** simplify_add keeps [follows] *)
  Definition next_of (m : M.graph) : M.graph :=
    match m with M.IterationNode _ _ nx => nx | _ => m end.

  Lemma split_same_acc : forall ti o ms T vs0,
    Forall (fun m => m = M.IterationNode ti o (next_of m)) ms ->
    M.split_terms ms T [(ti, vs0)] = (T, [(ti, vs0 ++ map (fun m => (o, next_of m)) ms)]).
  Proof.
    induction ms as [|m r IH]; intros T vs0 H; [cbn; now rewrite app_nil_r|].
    inversion H as [|? ? Hm Hr]; subst. rewrite Hm. cbn [M.split_terms M.group_insert next_of map].
    rewrite String.eqb_refl. rewrite (IH T _ Hr). now rewrite <- app_assoc.
  Qed.

  Lemma split_same : forall ti o m ms,
    Forall (fun m => m = M.IterationNode ti o (next_of m)) (m :: ms) ->
    M.split_terms (m :: ms) [] [] = ([], [(ti, map (fun m => (o, next_of m)) (m :: ms))]).
  Proof.
    intros ti o m ms H. inversion H as [|? ? Hm Hr]; subst. rewrite Hm at 1.
    cbn [M.split_terms M.group_insert]. rewrite (split_same_acc ti o ms [] _ Hr). reflexivity.
  Qed.

  Lemma follows_not_dense_cons : forall n tgt g,
    dense_tail n = false -> follows n tgt g ->
    exists ti tl ts g', tgt = (ti, tl) :: ts /\ g = M.IterationNode ti (Some tl) g' /\ follows (S n) ts g'.
  Proof.
    intros n [|[ti tl] ts] g Hd Hf; cbn [follows] in Hf; [congruence|].
    destruct Hf as [Hf | [g' [-> Hf]]]; [congruence|]. exists ti, tl, ts, g'. auto.
  Qed.

  Lemma simplify_follows : forall fuel name ms g n tgt,
    M.simplify_fuel fuel name ms = Some g -> ms <> [] -> Forall (follows n tgt) ms -> follows n tgt g.
  Proof.
    induction fuel as [|f IH]; intros name ms g n tgt H Hne HF; [discriminate|].
    destruct (dense_tail n) eqn:Hd; [now apply follows_dense|].
    destruct ms as [|m0 ms]; [congruence|].
    inversion HF as [|? ? Hm0 _]; subst.
    destruct (follows_not_dense_cons n tgt m0 Hd Hm0) as [ti [tl [ts [g0 [-> [E0 F0]]]]]].
    assert (Hall : Forall (fun m => m = M.IterationNode ti (Some tl) (next_of m) /\ follows (S n) ts (next_of m)) (m0 :: ms)).
    { rewrite Forall_forall in *. intros m Hin. specialize (HF m Hin). cbn [follows] in HF.
      destruct HF as [HF | [g' [-> HF]]]; [congruence|]. cbn [next_of]. auto. }
    rewrite S.simplify_fuel_S in H.
    rewrite (split_same ti (Some tl) m0 ms) in H
      by (rewrite Forall_forall in *; intros m Hin; apply (Hall m Hin)).
    cbn [fst snd map M.sequence] in H. unfold S.inode_of in H. cbn [map] in H.
    match type of H with context [M.simplify_fuel f name ?L] => set (L0 := L) in * end.
    destruct (M.simplify_fuel f name L0) as [n'|] eqn:En; [|discriminate].
    cbn [S.tnodes_of app S.finish] in H. injection H as <-.
    cbn [follows]. right. exists n'. split; [reflexivity|].
    destruct (dense_tail (S n)) eqn:Hd'; [now apply follows_dense|].
    (* every next is itself an IterationNode, so next_terms_of is the singleton *)
    assert (HL : L0 = map next_of (m0 :: ms)).
    { unfold L0. clear -Hall Hd'.
      change (flat_map (fun v : option M.olayer * M.graph => M.next_terms_of (snd v))
                (map (fun m => (Some tl, next_of m)) (m0 :: ms)) = map next_of (m0 :: ms)).
      generalize dependent (m0 :: ms). intros l Hall.
      induction l as [|m r IHl]; [reflexivity|].
      inversion Hall as [|? ? [_ Hm] Hr]; subst. cbn [map flat_map snd].
      destruct (follows_not_dense_cons _ _ _ Hd' Hm) as [? [? [? [g'' [_ [-> _]]]]]].
      cbn [M.next_terms_of app]. f_equal. apply IHl. exact Hr. }
    apply (IH name L0 n' (S n) ts En).
    - rewrite HL. discriminate.
    - rewrite HL. apply Forall_forall. intros x Hx. apply in_map_iff in Hx as [m [<- Hin]].
      rewrite Forall_forall in Hall. apply (Hall m Hin).
  Qed.

  (** *** merge_assignment produces graphs that follow a supported chain *)
  Fixpoint sums_ok (g : M.graph) : bool :=
    match g with
    | M.TerminalNode _ => true
    | M.IterationNode _ _ nx => sums_ok nx
    | M.SumNode _ ts => negb (match ts with [] => true | _ => false end) && forallb sums_ok ts
    end.

  Definition J (n : nat) (tgt : list M.tlayer) : Prop :=
    modes_ok tgt /\ Permutation (layers tgt) (seq n (len - n)) /\ target_supported_from n tgt = true.

  Lemma J_nil : forall n, J n [] -> dense_tail n = true.
  Proof.
    intros n [_ [Hp _]]. apply Permutation_length in Hp. rewrite seq_length in Hp. cbn in Hp.
    unfold dense_tail. rewrite skipn_all2 by lia. reflexivity.
  Qed.

  Lemma J_tail : forall n ti tl ts, J n ((ti, tl) :: ts) -> dense_tail n = false ->
    M.ol_layer tl = n /\ J (S n) ts.
  Proof.
    intros n ti tl ts [Hm [Hp Hs]] Hd. inversion Hm as [|? ? Hm1 Hm']; subst. cbn [snd] in Hm1.
    cbn [target_supported_from] in Hs.
    destruct (Nat.eqb_spec (M.ol_layer tl) n) as [E|NE]; cbn [negb] in Hs.
    - split; [exact E|]. split; [exact Hm'|]. split; [|exact Hs].
      cbn [layers map snd] in Hp. rewrite E in Hp.
      assert (HL : (len - n = S (len - S n))%nat).
      { apply Permutation_length in Hp. rewrite seq_length in Hp. cbn in Hp. lia. }
      rewrite HL in Hp. cbn [seq] in Hp. now apply Permutation_cons_inv in Hp.
    - rewrite Hm1 in Hs. unfold dense_tail in Hd. congruence.
  Qed.

  Lemma merge_assignment_follows : forall e, sums_ok e = true ->
    forall tgt n, J n tgt -> Forall (follows n tgt) (M.merge_assignment e tgt).
  Proof.
    induction e as [x | ei eo en IHe | name terms IHterms] using graph_ind2; intros Hs;
      induction tgt as [|[ti tl] ts IHt]; intros n HJ;
      try (rewrite GraphsAssign.ma_nil; constructor; [cbn [follows]; now apply J_nil | constructor]).
    - (* terminal *)
      destruct (dense_tail n) eqn:Hd; [apply Forall_forall; intros; now apply follows_dense|].
      destruct (J_tail _ _ _ _ HJ Hd) as [_ HJ'].
      rewrite GraphsAssign.ma_T. apply Forall_forall. intros g Hg. apply in_map_iff in Hg as [g' [<- Hg']].
      right. exists g'. split; [reflexivity|]. specialize (IHt (S n) HJ'). rewrite Forall_forall in IHt. auto.
    - (* iteration node *)
      destruct (dense_tail n) eqn:Hd; [apply Forall_forall; intros; now apply follows_dense|].
      destruct (J_tail _ _ _ _ HJ Hd) as [_ HJ'].
      assert (Hp : M.pending_compressed ((ti, tl) :: ts) = true).
      { destruct HJ as [Hm [Hperm _]]. eapply pending_of_not_dense; eauto. }
      rewrite GraphsAssign.ma_I, Hp. cbn [negb andb]. rewrite andb_false_r, app_nil_r.
      cbn [sums_ok] in Hs.
      destruct (String.eqb ti ei).
      + apply Forall_forall. intros g Hg. apply in_map_iff in Hg as [g' [<- Hg']].
        right. exists g'. split; [reflexivity|].
        specialize (IHe Hs ts (S n) HJ'). rewrite Forall_forall in IHe. auto.
      + destruct (negb (M.mem ti (M.later_indexes en))); [|constructor].
        apply Forall_forall. intros g Hg. apply in_map_iff in Hg as [g' [<- Hg']].
        right. exists g'. split; [reflexivity|].
        specialize (IHt (S n) HJ'). rewrite Forall_forall in IHt. auto.
    - (* sum node *)
      rewrite GraphsAssign.ma_S. apply Forall_forall. intros g Hg.
      apply in_map_iff in Hg as [merged [<- Hm]].
      apply GraphsAssign.product_Forall2 in Hm.
      cbn [sums_ok] in Hs. apply andb_true_iff in Hs as [Hne Hs].
      destruct (S.simplify_add_spec name merged) as [g [Eg <-]].
      eapply simplify_follows; [exact Eg | |].
      + destruct terms as [|t0 tr]; [discriminate|]. inversion Hm; subst. discriminate.
      + rewrite Forall_forall in IHterms. rewrite forallb_forall in Hs.
        clear -Hm IHterms Hs HJ.
        assert (G : forall l, (forall t, In t l -> In t terms) ->
                  forall mg, Forall2 (fun x ls => In x ls) mg (map (fun x => M.merge_assignment x ((ti, tl) :: ts)) l) ->
                  Forall (follows n ((ti, tl) :: ts)) mg).
        { induction l as [|t r IHl]; intros Hsub mg F2; inversion F2; subst; constructor.
          - assert (Ht : In t terms) by (apply Hsub; now left).
            pose proof (IHterms t Ht (Hs t Ht) ((ti, tl) :: ts) n HJ) as Q. rewrite Forall_forall in Q. auto.
          - apply IHl; [intros; apply Hsub; now right | assumption]. }
        apply (G terms (fun t H => H) merged Hm).
  Qed.
End Total.

(** ** expression graphs: SumNodes have at least one term and no SumNode among their terms *)
Definition is_sum (g : M.graph) : bool := match g with M.SumNode _ _ => true | _ => false end.

Fixpoint flat (g : M.graph) : bool :=
  match g with
  | M.TerminalNode _ => true
  | M.IterationNode _ _ nx => flat nx
  | M.SumNode _ ts =>
      negb (match ts with [] => true | _ => false end) && forallb (fun t => negb (is_sum t) && flat t) ts
  end.

Fixpoint sumfree (g : M.graph) : bool :=
  match g with
  | M.TerminalNode _ => true
  | M.IterationNode _ _ nx => sumfree nx
  | M.SumNode _ _ => false
  end.

Lemma flat_sums_ok : forall g, flat g = true -> sums_ok g = true.
Proof.
  induction g as [e | i o nx IH | nm ts IH] using graph_ind2; intros H; cbn [flat sums_ok] in *; auto.
  apply andb_true_iff in H as [Hne H]. rewrite Hne. cbn [andb].
  apply forallb_forall. intros t Ht. rewrite forallb_forall in H. rewrite Forall_forall in IH.
  apply IH; [exact Ht|]. specialize (H t Ht). now apply andb_true_iff in H as [_ H].
Qed.

Lemma sumfree_flat : forall g, sumfree g = true -> flat g = true /\ is_sum g = false.
Proof.
  induction g as [e | i o nx IH | nm ts]; intros H; cbn in *; auto; [|discriminate].
  split; [now apply IH | reflexivity].
Qed.

Lemma merge_with_sumfree : forall mk l r, Forall (fun g => sumfree g = true) (M.merge_with mk l r).
Proof.
  intros mk.
  induction l as [le | li lo ln IHl | ln lts _] using graph_ind2;
    induction r as [re | ri ro rn IHr | rn rts _] using graph_ind2;
    try (cbn; repeat constructor; fail).
  - rewrite m_merge_TI. apply Forall_forall. intros g Hg. apply in_map_iff in Hg as [g' [<- Hg']].
    rewrite Forall_forall in IHr. cbn. auto.
  - rewrite m_merge_IT. apply Forall_forall. intros g Hg. apply in_map_iff in Hg as [g' [<- Hg']].
    specialize (IHl (M.TerminalNode re)). rewrite Forall_forall in IHl. cbn. auto.
  - rewrite m_merge_II.
    assert (W1 : forall x i o, Forall (fun g => sumfree g = true) x ->
                 Forall (fun g => sumfree g = true) (map (M.IterationNode i o) x)).
    { intros x i o Hx. apply Forall_forall. intros g Hg. apply in_map_iff in Hg as [g' [<- Hg']].
      rewrite Forall_forall in Hx. cbn. auto. }
    destruct (String.eqb li ri); [apply W1, IHl|].
    apply Forall_app. split.
    + destruct (negb _); [apply W1, IHl | constructor].
    + destruct (negb _); [apply W1, IHr | constructor].
Qed.

Lemma chain_sumfree : forall ixs e, sumfree (M.chain_graph ixs (M.TerminalNode e)) = true.
Proof. induction ixs; cbn; auto. Qed.

Definition nsflat (t : M.graph) : Prop := is_sum t = false /\ flat t = true.

Lemma split_T_nonempty : forall ts T G, T <> [] -> fst (M.split_terms ts T G) <> [].
Proof.
  induction ts as [|t r IH]; intros T G H; [exact H|]. destruct t; cbn [M.split_terms]; apply IH; auto.
  destruct T; [congruence | discriminate].
Qed.

Lemma group_insert_nonempty : forall i v G, M.group_insert i v G <> [].
Proof. intros i v [|[j vs] r]; cbn; [discriminate|]. destruct (String.eqb i j); discriminate. Qed.

Lemma split_G_nonempty : forall ts T G, G <> [] -> snd (M.split_terms ts T G) <> [].
Proof.
  induction ts as [|t r IH]; intros T G H; [exact H|]. destruct t; cbn [M.split_terms]; apply IH; auto.
  apply group_insert_nonempty.
Qed.

Lemma next_terms_nsflat : forall nx, flat nx = true ->
  M.next_terms_of nx <> [] /\ Forall nsflat (M.next_terms_of nx).
Proof.
  intros [e | i o n | nm ts] H; cbn [M.next_terms_of].
  - split; [discriminate | repeat constructor].
  - split; [discriminate|]. constructor; [split; [reflexivity | exact H] | constructor].
  - cbn [flat] in H. apply andb_true_iff in H as [Hne H]. split; [destruct ts; [discriminate | discriminate]|].
    apply Forall_forall. intros t Ht. rewrite forallb_forall in H. specialize (H t Ht).
    apply andb_true_iff in H as [A B]. split; [now apply negb_true_iff in A | exact B].
Qed.

Lemma Forall2_nil_r : forall A B (R : A -> B -> Prop) l, Forall2 R l [] -> l = [].
Proof. intros A B R l H. inversion H. reflexivity. Qed.

Lemma tnodes_nil : forall T, S.tnodes_of T = [] -> T = [].
Proof. intros [|e es] H; [reflexivity | discriminate]. Qed.

Lemma simplify_flat : forall fuel name ts g,
  M.simplify_fuel fuel name ts = Some g -> ts <> [] -> Forall nsflat ts -> flat g = true.
Proof.
  induction fuel as [|f IH]; intros name ts g H Hne HF; [discriminate|].
  rewrite S.simplify_fuel_S in H.
  destruct (M.sequence (map (S.inode_of f name) (snd (M.split_terms ts [] [])))) as [inodes|] eqn:Eseq; [|discriminate].
  injection H as <-.
  pose proof (S.split_terms_groups ts) as GO. rewrite Forall_forall in GO.
  apply S.sequence_Forall2 in Eseq.
  (* every inode is a flat IterationNode *)
  assert (HI : Forall nsflat inodes).
  { clear Hne. revert GO Eseq. generalize (snd (M.split_terms ts [] [])) as groups. intros groups GO Eseq.
    revert GO. induction Eseq as [|[i vs] x gs xs Hx _ IHs]; intros GO; [constructor|]. constructor.
    - destruct (GO (i, vs) (or_introl eq_refl)) as [Hvs Hin]. cbn [fst snd] in *.
      unfold S.inode_of in Hx. destruct vs as [|[o n0] rest]; [congruence|].
      destruct (M.simplify_fuel f name _) as [n'|] eqn:En; [|discriminate]. injection Hx as <-.
      split; [reflexivity|]. cbn [flat].
      assert (Hnext : forall o' nx, In (o', nx) ((o, n0) :: rest) -> flat nx = true).
      { intros o' nx Hv. specialize (Hin o' nx Hv). rewrite Forall_forall in HF.
        destruct (HF _ Hin) as [_ Hf]. exact Hf. }
      apply (IH name _ n' En).
      + cbn [flat_map snd]. destruct (next_terms_nsflat n0 (Hnext o n0 (or_introl eq_refl))) as [Hn _].
        destruct (M.next_terms_of n0); [congruence | discriminate].
      + apply Forall_forall. intros t Ht. apply in_flat_map in Ht as [[o' nx] [Hv Ht]]. cbn [snd] in Ht.
        destruct (next_terms_nsflat nx (Hnext o' nx Hv)) as [_ Hall]. rewrite Forall_forall in Hall. auto.
    - apply IHs. intros g Hg. apply GO. now right. }
  (* the combined list is not empty *)
  assert (HC : S.tnodes_of (fst (M.split_terms ts [] [])) ++ inodes <> []).
  { destruct ts as [|t0 r]; [congruence|]. inversion HF as [|? ? [Hns _] _]; subst.
    destruct t0 as [e | i o n | nm tt]; [| |discriminate].
    - cbn [M.split_terms]. pose proof (split_T_nonempty r ([] ++ [e]) [] ltac:(discriminate)) as HT.
      intros C. apply app_eq_nil in C as [C _]. apply HT. apply tnodes_nil. exact C.
    - cbn [M.split_terms] in Eseq |- *.
      pose proof (split_G_nonempty r [] (M.group_insert i (o, n) []) (group_insert_nonempty _ _ _)) as HG.
      intros C. apply app_eq_nil in C as [_ C]. subst inodes. apply HG.
      eapply Forall2_nil_r. exact Eseq. }
  assert (HT : Forall nsflat (S.tnodes_of (fst (M.split_terms ts [] [])))).
  { destruct (fst (M.split_terms ts [] [])); cbn; repeat constructor. }
  pose proof (proj2 (Forall_app _ _ _) (conj HT HI)) as HA.
  unfold S.finish. destruct (S.tnodes_of _ ++ inodes) as [|a [|b rr]] eqn:Ec; [congruence| |].
  - inversion HA as [|? ? [_ Hfa] _]; subst. exact Hfa.
  - cbn [flat]. cbn [negb andb]. apply forallb_forall. intros t Ht. rewrite Forall_forall in HA.
    destruct (HA t Ht) as [A B]. now rewrite A, B.
Qed.

Lemma sum_terms_nsflat : forall l r, flat l = true -> flat r = true ->
  M.sum_terms l r <> [] /\ Forall nsflat (M.sum_terms l r).
Proof.
  intros l r Hl Hr.
  assert (K : forall g, flat g = true -> is_sum g = false -> nsflat g) by (intros; split; auto).
  assert (KS : forall nm ts, flat (M.SumNode nm ts) = true -> ts <> [] /\ Forall nsflat ts).
  { intros nm ts H. pose proof (next_terms_nsflat (M.SumNode nm ts) H) as Q. exact Q. }
  destruct l as [le|li lo ln|ln lt]; destruct r as [re|ri ro rn|rn rt]; cbn [M.sum_terms];
    try (split; [discriminate | repeat constructor; auto; fail]).
  - destruct (KS _ _ Hr) as [A B]. split; [discriminate | constructor; auto].
  - destruct (KS _ _ Hr) as [A B]. split; [discriminate | constructor; auto].
  - destruct (KS _ _ Hl) as [A B]. split; [destruct lt; [congruence | discriminate] | apply Forall_app; split; auto].
  - destruct (KS _ _ Hl) as [A B]. split; [destruct lt; [congruence | discriminate] | apply Forall_app; split; auto].
  - destruct (KS _ _ Hl) as [A B]. destruct (KS _ _ Hr) as [C D].
    split; [destruct lt; [congruence | discriminate] | apply Forall_app; split; auto].
Qed.

Lemma expr_graphs_flat : forall e fs c gs,
  M.expr_graphs e fs c = M.ROk gs -> Forall (fun g => flat g = true) gs.
Proof.
  induction e as [v|h|t|l IHl r IHr|l IHl r IHr|i x IH]; intros fs c gs H; cbn [M.expr_graphs] in H.
  - injection H as <-. repeat constructor.
  - injection H as <-. repeat constructor.
  - unfold M.tensor_graphs in H.
    destruct (M.lookup (M.d_name t) fs); [|discriminate]. destruct (M.identify t fs); [|discriminate].
    destruct (negb _); [discriminate|]. destruct (M.sequence _); [|discriminate]. injection H as <-.
    apply Forall_forall. intros g Hg. apply in_map_iff in Hg as [ixs [<- _]].
    apply sumfree_flat, chain_sumfree.
  - destruct (negb (M.contains_contraction l || M.contains_contraction r)).
    + apply Forall_forall. intros g Hg.
      destruct (GraphsMerge.for_both_ok _ _ _ _ _ H g Hg) as [ls [rs [lg [rg [_ [_ [_ [_ Hb]]]]]]]].
      pose proof (merge_with_sumfree M.IAdd lg rg) as Q. rewrite Forall_forall in Q.
      apply sumfree_flat, Q, Hb.
    + apply Forall_forall. intros g Hg.
      destruct (GraphsMerge.for_both_ok _ _ _ _ _ H g Hg) as [ls [rs [lg [rg [EL [ER [Hl [Hr Hb]]]]]]]].
      apply IHl in EL. apply IHr in ER. rewrite Forall_forall in EL, ER.
      destruct Hb as [<-|[]].
      destruct (sum_terms_nsflat lg rg (EL _ Hl) (ER _ Hr)) as [A B].
      destruct (S.simplify_add_spec c (M.sum_terms lg rg)) as [g [Eg <-]].
      eapply simplify_flat; eauto.
  - apply Forall_forall. intros g Hg.
    destruct (GraphsMerge.for_both_ok _ _ _ _ _ H g Hg) as [ls [rs [lg [rg [_ [_ [_ [_ Hb]]]]]]]].
    pose proof (merge_with_sumfree M.IMultiply lg rg) as Q. rewrite Forall_forall in Q.
    apply sumfree_flat, Q, Hb.
  - eapply IH; eauto.
Qed.

(** ** every graph of the source's enumeration can be lowered *)
Lemma target_chain_layers : forall tr o tgt,
  M.target_chain tr o = Some tgt -> map (fun t => M.ol_layer (snd t)) tgt = o.
Proof.
  intros tr. unfold M.target_chain. induction o as [|x r IH]; intros tgt H; cbn [map M.sequence] in H.
  - injection H as <-. reflexivity.
  - destruct (nth_error (M.t_indexes tr) x); [|discriminate].
    destruct (M.sequence _) as [tg'|] eqn:E; [|discriminate]. injection H as <-.
    cbn [map snd M.ol_layer]. f_equal. now apply IH.
Qed.

Theorem src_graphs_not_bad : forall a fs gs modes,
  to_iteration_graphs_src a fs = M.ROk gs -> O.output_modes a fs = Some modes ->
  Forall (fun g => O.graph_bad_struct modes g = false) gs.
Proof.
  intros a fs gs modes H HM. unfold to_iteration_graphs_src, M.target_chains in H. unfold O.output_modes in HM.
  destruct (M.lookup (M.d_name (M.a_target a)) fs) as [f|] eqn:EL; [|discriminate]. injection HM as <-.
  destruct (M.identify (M.a_target a) fs) as [tr|] eqn:EI; [|discriminate].
  assert (Htr : M.t_modes tr = M.f_modes f).
  { unfold M.identify in EI. rewrite EL in EI. destruct (M.permute_indexes _ _); [|discriminate].
    injection EI as <-. reflexivity. }
  destruct (negb (M.nodupb (M.t_indexes tr))); [discriminate|].
  destruct (M.sequence (map (M.target_chain tr) (M.legal_iteration_orders f))) as [cs|] eqn:ES; [|discriminate].
  apply S.sequence_Forall2 in ES.
  destruct (filter target_supported cs) as [|s0 ss] eqn:EF; [injection H as <-; constructor|].
  rewrite <- EF in H.
  destruct (M.expr_graphs (M.a_expr a) fs 1) as [es| |] eqn:EE; try discriminate. injection H as <-.
  pose proof (expr_graphs_flat _ _ _ _ EE) as FL. rewrite Forall_forall in FL.
  apply Forall_forall. intros g Hg.
  apply in_flat_map in Hg as [tgt [Ht Hg]]. apply in_flat_map in Hg as [e [He Hg]].
  apply filter_In in Ht as [Ht Hsup].
  assert (exists o, In o (M.legal_iteration_orders f) /\ M.target_chain tr o = Some tgt) as [o [Ho E]].
  { clear -ES Ht. induction ES as [|x y l l' Hxy _ IH]; [contradiction|].
    destruct Ht as [<-|Ht]; [exists x; split; [now left | assumption]|].
    destruct (IH Ht) as [o [A B]]. exists o. split; [now right | assumption]. }
  destruct (GraphsAssign.target_chain_spec _ _ _ E) as [_ [_ TR]].
  assert (HJ : J (M.f_modes f) 0 tgt).
  { split; [|split].
    - unfold modes_ok. rewrite Forall_forall in *. intros t Hin. now rewrite (TR t Hin).
    - unfold layers. rewrite (target_chain_layers _ _ _ E), Nat.sub_0_r.
      apply Permutation_sym. now apply GraphsOrders.legal_orders_perm.
    - exact Hsup. }
  pose proof (merge_assignment_follows (M.f_modes f) e (flat_sums_ok _ (FL e He)) tgt 0 HJ) as MF.
  rewrite Forall_forall in MF. unfold O.graph_bad_struct.
  destruct HJ as [Hm [_ Hs]]. eapply follows_not_bad; eauto.
Qed.

(** C08's statement at full strength, for the enumeration of today's source *)
Theorem gen_generate_total : forall a fs ks,
  O.wf_problem a fs = true -> W.typed_full (generate_src a fs ks).
Proof.
  intros a fs ks WF. destruct (gen_generate_outcomes_typed_partial a fs ks WF) as [H|[H|[H|H]]];
    unfold W.typed_full; auto.
  exfalso. apply gen_internal_iff_first_graph_bad in H as [H _].
  unfold O.first_graph_bad_r in H.
  destruct (O.output_modes a fs) as [modes|] eqn:EM; [|discriminate].
  destruct (M.best_of (to_iteration_graphs_src a fs)) as [g| | |] eqn:EB; try discriminate.
  destruct (W.best_of_in _ _ EB) as [gs [Er Hin]].
  pose proof (src_graphs_not_bad a fs gs modes Er EM) as NB. rewrite Forall_forall in NB.
  specialize (NB g Hin). unfold O.graph_bad, O.graph_bad_struct in *.
  apply W.bad_from_le_struct in H. congruence.
Qed.

(** the same for callable kernels *)
Definition tensor_method_src (a : M.dassign) (fs : M.formats) : O.outcome :=
  O.tensor_method_r a fs (to_iteration_graphs_src a fs).

Theorem gen_tensor_method_total : forall a fs,
  O.wf_problem a fs = true ->
  W.typed_full (tensor_method_src a fs) \/ tensor_method_src a fs = O.BroadcastTarget.
Proof.
  intros a fs WF. unfold tensor_method_src, O.tensor_method_r.
  destruct (forallb _ _); [left; exact (gen_generate_total a fs [O.Evaluate] WF) | right; reflexivity].
Qed.

(** ** all exported statements under this module's name (tools/props/_tie_graphs.py prints their
    assumptions as TV.proofs.GenGraphs_total.<name>) *)
Definition gen_legal_iteration_orders_equiv := GenGraphs_equiv.gen_legal_iteration_orders_equiv.
Definition gen_merge_add_equiv := GenGraphs_equiv.gen_merge_add_equiv.
Definition gen_merge_multiply_equiv := GenGraphs_equiv.gen_merge_multiply_equiv.
Definition gen_contains_contraction_equiv := GenGraphs_equiv.gen_contains_contraction_equiv.
Definition gen_pending_compressed_equiv := GenGraphs_equiv.gen_pending_compressed_equiv.
Definition gen_target_order_supported_equiv := GenGraphs_equiv.gen_target_order_supported_equiv.
Definition gen_simplify_add_equiv := GenGraphs_equiv.gen_simplify_add_equiv.
Definition gen_merge_assignment_equiv := GenGraphs_equiv.gen_merge_assignment_equiv.
Definition gen_tensor_graphs_equiv := GenGraphs_equiv.gen_tensor_graphs_equiv.
Definition gen_expr_graphs_equiv := GenGraphs_equiv.gen_expr_graphs_equiv.
Definition gen_to_iteration_graphs_equiv := GenGraphs_equiv.to_iteration_graphs_equiv.
Definition gen_internal_iff_first_graph_bad := GenGraphs_equiv.gen_internal_iff_first_graph_bad.
Definition gen_generate_outcomes_typed_partial := GenGraphs_equiv.gen_generate_outcomes_typed_partial.
