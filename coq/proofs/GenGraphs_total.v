(** * TIE "graphs": generation is TOTAL for the enumeration of today's source
    ([to_iteration_graphs_src], proved in GenGraphs_equiv.v to be what the regenerated
    to_iteration_graphs enumerates): every graph merged from a SUPPORTED target chain is not bad.

    Invariant [follows n tgt g]: in output state [OAppend n], either only dense output layers remain
    ([dense_tail]: then nothing can be bad), or [g] is the IterationNode of the next target layer and
    its [next] follows the rest of the chain.  merge_assignment keeps it because a pending compressed
    layer forbids placing an expression index first; simplify_add keeps it because all its terms then
    start with the same node (one group). *)
From Coq Require Import ZArith List Bool String Lia Arith Permutation.
From TV Require Import model.GraphsIter.
From TV Require model.Graphs model.OutputOrder.
From TV Require Import proofs.GraphsInd.
From TV Require proofs.GraphsSimplify proofs.GraphsAssign proofs.GraphsOrders proofs.GraphsMerge
  proofs.OutputOrderWalk.
From TV Require Export proofs.GenGraphs_equiv.
Import ListNotations.
Open Scope list_scope.

Section Total.
  Variable modes : list M.mode.
  Notation len := (List.length modes).

  Definition dense_tail (n : nat) : bool := forallb M.is_dense (skipn n modes).

  Lemma skipn_S_tl : forall A (l : list A) n, skipn (S n) l = tl (skipn n l).
  Proof. induction l as [|x r IH]; intros [|n]; try reflexivity. exact (IH n). Qed.

  Lemma dense_tail_S : forall n, dense_tail n = true -> dense_tail (S n) = true.
  Proof.
    unfold dense_tail. intros n H. rewrite skipn_S_tl. destruct (skipn n modes) as [|m r]; [reflexivity|].
    simpl in *. now apply andb_true_iff in H as [_ H].
  Qed.

  Lemma dense_not_bad : forall g n, dense_tail n = true -> O.bad_struct_from modes n g = false.
  Proof.
    induction g as [e | i o nx IH | nm ts]; intros n H; cbn [O.bad_struct_from].
    - reflexivity.
    - destruct (match o with Some o0 => Nat.eqb n (M.ol_layer o0) | None => false end).
      + apply IH. now apply dense_tail_S.
      + fold (dense_tail n). now rewrite H.
    - fold (dense_tail n). now rewrite H.
  Qed.

  Fixpoint follows (n : nat) (tgt : list M.tlayer) (g : M.graph) : Prop :=
    match tgt with
    | [] => dense_tail n = true
    | (ti, tl) :: ts =>
        dense_tail n = true
        \/ exists g', g = M.IterationNode ti (Some tl) g' /\ follows (S n) ts g'
    end.

  Lemma follows_dense : forall n tgt g, dense_tail n = true -> follows n tgt g.
  Proof. intros n [|[ti tl] ts] g H; [exact H | now left]. Qed.

  Definition modes_ok (tgt : list M.tlayer) : Prop :=
    Forall (fun t => M.t_modes (M.ol_tensor (snd t)) = modes) tgt.
  Definition layers (tgt : list M.tlayer) : list nat := map (fun t => M.ol_layer (snd t)) tgt.

  Lemma follows_not_bad : forall tgt n g,
    modes_ok tgt -> target_supported_from n tgt = true -> follows n tgt g ->
    O.bad_struct_from modes n g = false.
  Proof.
    induction tgt as [|[ti tl] ts IH]; intros n g Hm Hs Hf.
    - now apply dense_not_bad.
    - destruct Hf as [Hd | [g' [-> Hf]]]; [now apply dense_not_bad|].
      inversion Hm as [|? ? Hm1 Hm']; subst. cbn [snd] in Hm1.
      cbn [target_supported_from] in Hs. cbn [O.bad_struct_from].
      rewrite Nat.eqb_sym. destruct (Nat.eqb (M.ol_layer tl) n); cbn [negb] in Hs.
      + now apply IH.
      + rewrite Hm1 in Hs. now rewrite Hs.
  Qed.

  Lemma not_dense_witness : forall (l : list M.mode) n,
    forallb M.is_dense (skipn n l) = false ->
    exists p, (n <= p)%nat /\ nth_error l p = Some M.Compressed.
  Proof.
    induction l as [|m r IH]; intros n H.
    - destruct n; discriminate.
    - destruct n as [|n].
      + cbn [skipn forallb] in H. destruct m.
        * cbn in H. destruct (IH 0%nat H) as [p [_ Hp]]. exists (S p). split; [lia | exact Hp].
        * exists 0%nat. split; [lia | reflexivity].
      + cbn [skipn] in H. destruct (IH n H) as [p [Hle Hp]]. exists (S p). split; [lia | exact Hp].
  Qed.

  Lemma pending_of_not_dense : forall tgt n,
    modes_ok tgt -> Permutation (layers tgt) (seq n (len - n)) -> dense_tail n = false ->
    M.pending_compressed tgt = true.
  Proof.
    intros tgt n Hm Hp Hd. destruct (not_dense_witness modes n Hd) as [p [Hle Hnth]].
    assert (p < len)%nat by (apply nth_error_Some; congruence).
    assert (In p (layers tgt)).
    { eapply Permutation_in; [apply Permutation_sym; exact Hp|]. apply in_seq. lia. }
    unfold layers in H0. apply in_map_iff in H0 as [t [Et Hin]].
    unfold M.pending_compressed. apply existsb_exists. exists t. split; [exact Hin|].
    unfold modes_ok in Hm. rewrite Forall_forall in Hm. specialize (Hm t Hin).
    unfold M.ol_mode. rewrite Hm, Et, Hnth. reflexivity.
  Qed.

  (** *** simplify_add keeps [follows] *)
  Definition next_of (m : M.graph) : M.graph :=
    match m with M.IterationNode _ _ nx => nx | _ => m end.

  Lemma split_same_acc : forall ti o ms T vs0,
    Forall (fun m => m = M.IterationNode ti o (next_of m)) ms ->
    M.split_terms ms T [(ti, vs0)] = (T, [(ti, vs0 ++ map (fun m => (o, next_of m)) ms)]).
  Proof.
    induction ms as [|m r IH]; intros T vs0 H; [cbn; now rewrite app_nil_r|].
    inversion H as [|? ? Hm Hr]; subst. rewrite Hm. cbn [M.split_terms M.group_insert next_of map].
    rewrite String.eqb_refl. rewrite (IH T _ Hr). now rewrite <- app_assoc.
  Qed.

  Lemma split_same : forall ti o m ms,
    Forall (fun m => m = M.IterationNode ti o (next_of m)) (m :: ms) ->
    M.split_terms (m :: ms) [] [] = ([], [(ti, map (fun m => (o, next_of m)) (m :: ms))]).
  Proof.
    intros ti o m ms H. inversion H as [|? ? Hm Hr]; subst. rewrite Hm at 1.
    cbn [M.split_terms M.group_insert]. rewrite (split_same_acc ti o ms [] _ Hr). reflexivity.
  Qed.

  Lemma follows_not_dense_cons : forall n tgt g,
    dense_tail n = false -> follows n tgt g ->
    exists ti tl ts g', tgt = (ti, tl) :: ts /\ g = M.IterationNode ti (Some tl) g' /\ follows (S n) ts g'.
  Proof.
    intros n [|[ti tl] ts] g Hd Hf; cbn [follows] in Hf; [congruence|].
    destruct Hf as [Hf | [g' [-> Hf]]]; [congruence|]. exists ti, tl, ts, g'. auto.
  Qed.

  Lemma simplify_follows : forall fuel name ms g n tgt,
    M.simplify_fuel fuel name ms = Some g -> ms <> [] -> Forall (follows n tgt) ms -> follows n tgt g.
  Proof.
    induction fuel as [|f IH]; intros name ms g n tgt H Hne HF; [discriminate|].
    destruct (dense_tail n) eqn:Hd; [now apply follows_dense|].
    destruct ms as [|m0 ms]; [congruence|].
    inversion HF as [|? ? Hm0 _]; subst.
    destruct (follows_not_dense_cons n tgt m0 Hd Hm0) as [ti [tl [ts [g0 [-> [E0 F0]]]]]].
    assert (Hall : Forall (fun m => m = M.IterationNode ti (Some tl) (next_of m) /\ follows (S n) ts (next_of m)) (m0 :: ms)).
    { rewrite Forall_forall in *. intros m Hin. specialize (HF m Hin). cbn [follows] in HF.
      destruct HF as [HF | [g' [-> HF]]]; [congruence|]. cbn [next_of]. auto. }
    rewrite S.simplify_fuel_S in H.
    rewrite (split_same ti (Some tl) m0 ms) in H
      by (rewrite Forall_forall in *; intros m Hin; apply (Hall m Hin)).
    cbn [fst snd map M.sequence] in H. unfold S.inode_of in H. cbn [map] in H.
    match type of H with context [M.simplify_fuel f name ?L] => set (L0 := L) in * end.
    destruct (M.simplify_fuel f name L0) as [n'|] eqn:En; [|discriminate].
    cbn [S.tnodes_of app S.finish] in H. injection H as <-.
    cbn [follows]. right. exists n'. split; [reflexivity|].
    destruct (dense_tail (S n)) eqn:Hd'; [now apply follows_dense|].
    (* every next is itself an IterationNode, so next_terms_of is the singleton *)
    assert (HL : L0 = map next_of (m0 :: ms)).
    { unfold L0. clear -Hall Hd'.
      change (flat_map (fun v : option M.olayer * M.graph => M.next_terms_of (snd v))
                (map (fun m => (Some tl, next_of m)) (m0 :: ms)) = map next_of (m0 :: ms)).
      generalize dependent (m0 :: ms). intros l Hall.
      induction l as [|m r IHl]; [reflexivity|].
      inversion Hall as [|? ? [_ Hm] Hr]; subst. cbn [map flat_map snd].
      destruct (follows_not_dense_cons _ _ _ Hd' Hm) as [? [? [? [g'' [_ [-> _]]]]]].
      cbn [M.next_terms_of app]. f_equal. apply IHl. exact Hr. }
    apply (IH name L0 n' (S n) ts En).
    - rewrite HL. discriminate.
    - rewrite HL. apply Forall_forall. intros x Hx. apply in_map_iff in Hx as [m [<- Hin]].
      rewrite Forall_forall in Hall. apply (Hall m Hin).
  Qed.
End Total.
