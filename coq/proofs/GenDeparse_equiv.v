(** TIE -- the [deparse] methods regenerated from expression/ast.py (gen/Deparse.v) print exactly
    the characters of the hand model's printer model/Parser.v ([print_expr], [print_assignment];
    C12), for every tree whose integer literals are non-negative (the parser produces no others;
    a negative literal has no counterpart in the model's [EInt (n : N)]).

    [str(float)] is abstract on both sides: the generated function takes it as [str_float], the
    model as [show_float]; the theorem holds for every pair that agrees through the literal codec
    [fdec]. *)

From Coq Require Import ZArith NArith List Bool String Ascii Lia.
From TV Require Import spec.Num spec.PyBase spec.PyLib proofs.PyLibFacts.
From TV Require gen.Deparse model.Parser proofs.ParserFormat.
Import ListNotations.

Module GD := TV.gen.Deparse.
Module MP := TV.model.Parser.

Notation las := list_ascii_of_string.

Lemma las_app : forall a b : string, las (a ++ b) = (las a ++ las b)%list.
Proof. induction a; intros; simpl; [reflexivity | rewrite IHa; reflexivity]. Qed.

(** ** integers: [str(int)] is the model's [show_N] *)
Lemma show_N_fuel_model : forall fuel n, (n < 2 ^ N.of_nat fuel)%N ->
  MP.show_N_fuel (S fuel) n = las (show_N n).
Proof.
  induction fuel as [|fuel IH]; intros n Hn; rewrite TV.proofs.ParserFormat.show_N_fuel_S.
  - change (N.of_nat 0) with 0%N in Hn. rewrite N.pow_0_r in Hn. assert (n = 0%N) by lia. subst n. reflexivity.
  - destruct (N.ltb_spec n 10) as [Hlt|Hge].
    + rewrite show_N_small by exact Hlt. reflexivity.
    + rewrite Nat2N.inj_succ, N.pow_succ_r' in Hn.
      rewrite IH by (apply N.div_lt_upper_bound; lia).
      rewrite (show_N_step n Hge), las_app. reflexivity.
Qed.

Lemma show_N_model : forall n, MP.show_N n = las (show_N n).
Proof. intros n. apply show_N_fuel_model, TV.proofs.ParserFormat.N_lt_pow2_size_nat. Qed.

Lemma show_Z_model : forall z, (0 <= z)%Z -> las (show_Z z) = MP.show_N (Z.to_N z).
Proof. intros z H. rewrite show_N_model. destruct z; try reflexivity. lia. Qed.

(** ** names *)
Lemma join_model : forall l, las (py_join "," l) = MP.join_names l.
Proof.
  induction l as [|x r IH]; [reflexivity|].
  destruct r as [|y r]; [reflexivity|].
  change (py_join "," (x :: y :: r)) with (x ++ "," ++ py_join "," (y :: r))%string.
  rewrite las_app. change (MP.join_names (x :: y :: r)) with (las x ++ ","%char :: MP.join_names (y :: r))%list.
  rewrite <- IH. reflexivity.
Qed.

(** one binary arm: the printed operands are abstracted ([s1], [s2]); what is left depends only on
    the classes of the two operands, and is decided by case analysis -- so the order in which the
    source lists the classes of an [isinstance] test does not matter *)
Ltac binary_arm cv e1 e2 IH1 IH2 :=
  let s1 := fresh "s" in let s2 := fresh "s" in let p1 := fresh "p" in let p2 := fresh "p" in
  let H := fresh in
  remember (GD.Expression_deparse _ e1) as s1 eqn:H; clear H;
  remember (GD.Expression_deparse _ e2) as s2 eqn:H; clear H;
  remember (MP.print_expr _ (cv e1)) as p1 eqn:H; clear H;
  remember (MP.print_expr _ (cv e2)) as p2 eqn:H; clear H;
  rewrite <- IH1, <- IH2; clear IH1 IH2;
  destruct e1, e2; simpl cv;
    cbn [GD.is_ExAdd GD.is_ExSubtract GD.is_ExMultiply GD.is_ExInteger GD.is_ExFloat GD.is_ExTensor
         orb andb negb MP.is_addsub MP.is_mul MP.wrap_chars];
    repeat rewrite las_app; simpl; repeat rewrite <- app_assoc; reflexivity.

Section Conv.
Variable fdec : F -> MP.dec.
Variable str_float : F -> string.
Variable show_float : MP.dec -> list ascii.
Hypothesis float_codec : forall f, show_float (fdec f) = las (str_float f).

Fixpoint conv (e : GD.ex_expr) : MP.expr :=
  match e with
  | GD.ExInteger z => MP.EInt (Z.to_N z)
  | GD.ExFloat f => MP.EFloat (fdec f)
  | GD.ExTensor n idx => MP.ETensor n idx
  | GD.ExAdd a b => MP.EAdd (conv a) (conv b)
  | GD.ExSubtract a b => MP.ESub (conv a) (conv b)
  | GD.ExMultiply a b => MP.EMul (conv a) (conv b)
  end.

Fixpoint nonneg (e : GD.ex_expr) : bool :=
  match e with
  | GD.ExInteger z => (0 <=? z)%Z
  | GD.ExFloat _ | GD.ExTensor _ _ => true
  | GD.ExAdd a b | GD.ExSubtract a b | GD.ExMultiply a b => nonneg a && nonneg b
  end.

Lemma addsub_conv : forall e, MP.is_addsub (conv e) = (GD.is_ExAdd e || GD.is_ExSubtract e)%bool.
Proof. destruct e; reflexivity. Qed.

Lemma addsubmul_conv : forall e,
  (MP.is_addsub (conv e) || MP.is_mul (conv e))%bool
  = (GD.is_ExAdd e || GD.is_ExSubtract e || GD.is_ExMultiply e)%bool.
Proof. destruct e; reflexivity. Qed.

Lemma wrap_model : forall (b : bool) (s : string),
  las (if b then ("(" ++ s ++ ")")%string else s) = MP.wrap_chars b (las s).
Proof. intros [|] s; simpl; [rewrite las_app; reflexivity | reflexivity]. Qed.

Lemma tensor_model : forall n idx,
  las (((n ++ "(") ++ py_join "," idx) ++ ")") = MP.print_tensor n idx.
Proof.
  intros. rewrite !las_app, join_model. unfold MP.print_tensor. rewrite <- !app_assoc. reflexivity.
Qed.

Theorem gen_deparse_equiv : forall e, nonneg e = true ->
  las (GD.Expression_deparse str_float e) = MP.print_expr show_float (conv e).
Proof.
  induction e; intros W; cbn [GD.Expression_deparse conv MP.print_expr nonneg] in *; cbv zeta;
    try (apply andb_true_iff in W as [W1 W2]; specialize (IHe1 W1); specialize (IHe2 W2); clear W1 W2).
  - apply show_Z_model. apply Z.leb_le, W.
  - symmetry. apply float_codec.
  - apply tensor_model.
  - binary_arm conv e1 e2 IHe1 IHe2.
  - binary_arm conv e1 e2 IHe1 IHe2.
  - binary_arm conv e1 e2 IHe1 IHe2.
Qed.

Theorem gen_assignment_deparse_equiv : forall n idx e, nonneg e = true ->
  las (GD.ex_assignment_deparse str_float (GD.ExAssignment (GD.ExTensor n idx) e))
  = MP.print_assignment show_float (MP.Assign n idx (conv e)).
Proof.
  intros n idx e W. unfold GD.ex_assignment_deparse, MP.print_assignment. cbn [MP.tname MP.tindexes MP.rhs].
  rewrite !las_app, (gen_deparse_equiv e W). cbn [GD.Expression_deparse]. rewrite tensor_model, <- app_assoc.
  reflexivity.
Qed.

End Conv.

(** C12_text_roundtrip_int, about the generated printer: the text printed by the regenerated
    [Assignment.deparse] for a parsed float-free assignment parses back to that assignment *)
From TV Require proofs.ParserLexWf.

Theorem gen_deparse_roundtrip_int :
  forall (fdec : F -> MP.dec) (str_float : F -> string) s a e,
    MP.parse_assignment s = MP.POk a -> MP.float_free (MP.rhs a) = true ->
    conv fdec e = MP.rhs a -> nonneg e = true ->
    MP.parse_assignment (GD.ex_assignment_deparse str_float (GD.ExAssignment (GD.ExTensor (MP.tname a) (MP.tindexes a)) e))
    = MP.POk a.
Proof.
  intros fdec str_float s a e P FF C W.
  pose proof (TV.proofs.ParserLexWf.text_roundtrip_int (fun _ => las ""%string) s a P FF) as RT.
  (* a float-free tree prints the same whatever the float rendering *)
  assert (PE : forall x, nonneg x = true -> MP.float_free (conv fdec x) = true ->
               las (GD.Expression_deparse str_float x) = MP.print_expr (fun _ => las ""%string) (conv fdec x)).
  { induction x; intros Wx Fx; cbn [GD.Expression_deparse conv MP.print_expr nonneg MP.float_free] in *; cbv zeta;
      try (apply andb_true_iff in Wx as [W1 W2]; apply andb_true_iff in Fx as [F1 F2];
           specialize (IHx1 W1 F1); specialize (IHx2 W2 F2); clear W1 W2 F1 F2).
    - apply show_Z_model. apply Z.leb_le, Wx.
    - discriminate.
    - apply tensor_model.
    - binary_arm (conv fdec) x1 x2 IHx1 IHx2.
    - binary_arm (conv fdec) x1 x2 IHx1 IHx2.
    - binary_arm (conv fdec) x1 x2 IHx1 IHx2. }
  rewrite <- RT. f_equal.
  rewrite <- (string_of_list_ascii_of_string (GD.ex_assignment_deparse _ _)). f_equal.
  unfold GD.ex_assignment_deparse, MP.print_assignment.
  rewrite !las_app. cbn [GD.Expression_deparse]. rewrite tensor_model, <- app_assoc.
  rewrite PE by (try assumption; rewrite C; assumption). rewrite C. reflexivity.
Qed.
