(** Property C02, stated as a Prop over the arrays of a stored tensor, and the proof that the
    boolean checker [Storage.wf_tensorb] decides exactly that statement.

    [wf_tensor strict t] is the C02 text verbatim:
      - for each compressed level: the position array has exactly one more entry than the parent
        level has positions, starts at 0, never decreases, its last entry is the number of stored
        coordinates; the coordinates inside each segment are strictly increasing; every
        coordinate is within the dimension;
      - dense levels have a non-negative dimension;
      - the value array supplies a value for every leaf position ([strict]: exactly that many);
      - shape facts: as many dimensions / levels as the ordering has entries, the ordering is a
        permutation of 0..n-1, no negative dimension.

    Everything here is closed under the global context (no axioms). *)

From Coq Require Import ZArith List Bool Lia ZifyBool Permutation Arith Sorted.
From TV Require Import spec.Storage proofs.StorageLemmas.
Import ListNotations.
Open Scope Z_scope.

(** * The statement *)

Definition wf_compressed (n d : Z) (pos crd : list Z) : Prop :=
  (* one more entry than the parent level has positions *)
  zlen pos = n + 1
  (* starts at 0 *)
  /\ nthZ (-1) pos 0 = 0
  (* never decreases *)
  /\ (forall i, 0 <= i < n -> nthZ 0 pos i <= nthZ 0 pos (i + 1))
  (* the last entry is the number of coordinates stored *)
  /\ nthZ (-1) pos n = zlen crd
  (* coordinates inside each segment are strictly increasing *)
  /\ (forall p q, 0 <= p < n -> nthZ 0 pos p <= q -> q + 1 < nthZ 0 pos (p + 1) ->
        nthZ (-1) crd q < nthZ (-1) crd (q + 1))
  (* and within the dimension *)
  /\ (forall c, In c crd -> 0 <= c < d).

(** [wf_levels lv n leaf]: the levels [lv] (with their dimensions) hang under [n] parent positions
    and end in [leaf] leaf positions. *)
Fixpoint wf_levels (lv : list (level * Z)) (n : Z) (leaf : Z) : Prop :=
  match lv with
  | [] => leaf = n
  | (LDense, d) :: r => 0 <= d /\ wf_levels r (n * d) leaf
  | (LCompressed pos crd, d) :: r => wf_compressed n d pos crd /\ wf_levels r (zlen crd) leaf
  end.

Definition wf_shape {V} (t : tensor V) : Prop :=
  length (dims t) = length (ordering t)
  /\ length (levels t) = length (ordering t)
  /\ Permutation (seq 0 (length (ordering t))) (ordering t)
  /\ Forall (fun d => 0 <= d) (dims t).

Definition wf_tensor {V} (strict : bool) (t : tensor V) : Prop :=
  wf_shape t
  /\ exists leaf, wf_levels (combine (levels t) (level_dims t)) 1 leaf
                  /\ (if strict then zlen (vals t) = leaf else leaf <= zlen (vals t)).

(** * Monotone lists *)

Lemma weakly_increasing_nth l :
  weakly_increasing l = true <->
  (forall i : nat, (S i < length l)%nat -> nth i l 0 <= nth (S i) l 0).
Proof.
  induction l as [|a l IH]; [split; [intros _ i H; cbn in H; lia|reflexivity]|].
  destruct l as [|b r].
  - split; [intros _ i H; cbn in H; lia|reflexivity].
  - change (weakly_increasing (a :: b :: r)) with ((a <=? b) && weakly_increasing (b :: r)).
    rewrite andb_true_iff, IH. split.
    + intros [Hab H] [|i] Hi.
      * cbn [nth]. lia.
      * change (nth (S i) (a :: b :: r) 0) with (nth i (b :: r) 0).
        change (nth (S (S i)) (a :: b :: r) 0) with (nth (S i) (b :: r) 0).
        apply H. cbn [length] in *. lia.
    + intros H. split.
      * specialize (H O). cbn [nth length] in H. apply Z.leb_le. apply H. lia.
      * intros i Hi. specialize (H (S i)).
        change (nth (S i) (a :: b :: r) 0) with (nth i (b :: r) 0) in H.
        change (nth (S (S i)) (a :: b :: r) 0) with (nth (S i) (b :: r) 0) in H.
        apply H. cbn [length] in *. lia.
Qed.

Lemma strictly_increasing_nth l :
  strictly_increasing l = true <->
  (forall i : nat, (S i < length l)%nat -> nth i l 0 < nth (S i) l 0).
Proof.
  induction l as [|a l IH]; [split; [intros _ i H; cbn in H; lia|reflexivity]|].
  destruct l as [|b r].
  - split; [intros _ i H; cbn in H; lia|reflexivity].
  - change (strictly_increasing (a :: b :: r)) with ((a <? b) && strictly_increasing (b :: r)).
    rewrite andb_true_iff, IH. split.
    + intros [Hab H] [|i] Hi.
      * cbn [nth]. lia.
      * change (nth (S i) (a :: b :: r) 0) with (nth i (b :: r) 0).
        change (nth (S (S i)) (a :: b :: r) 0) with (nth (S i) (b :: r) 0).
        apply H. cbn [length] in *. lia.
    + intros H. split.
      * specialize (H O). cbn [nth length] in H. apply Z.ltb_lt. apply H. lia.
      * intros i Hi. specialize (H (S i)).
        change (nth (S i) (a :: b :: r) 0) with (nth i (b :: r) 0) in H.
        change (nth (S (S i)) (a :: b :: r) 0) with (nth (S i) (b :: r) 0) in H.
        apply H. cbn [length] in *. lia.
Qed.

(** in-range reads do not depend on the default *)
Lemma nthZ_indep {A} (d d' : A) l i : 0 <= i < zlen l -> nthZ d l i = nthZ d' l i.
Proof.
  intros H. rewrite !nthZ_nonneg by lia. apply nth_indep. unfold zlen in H. lia.
Qed.

Lemma weakly_increasing_Z l :
  weakly_increasing l = true <->
  (forall i, 0 <= i -> i + 1 < zlen l -> nthZ 0 l i <= nthZ 0 l (i + 1)).
Proof.
  rewrite weakly_increasing_nth. unfold zlen. split.
  - intros H i H0 H1. rewrite !nthZ_nonneg by lia.
    replace (Z.to_nat (i + 1)) with (S (Z.to_nat i)) by lia. apply H. lia.
  - intros H i Hi. specialize (H (Z.of_nat i)).
    replace (Z.of_nat i + 1) with (Z.of_nat (S i)) in H by lia.
    rewrite !nthZ_of_nat in H. apply H; lia.
Qed.

Lemma zrange2_length lo hi : length (zrange2 lo hi) = Z.to_nat (hi - lo).
Proof. unfold zrange2. now rewrite map_length, zrange_length. Qed.

Lemma zrange2_nth lo hi (i : nat) :
  (i < Z.to_nat (hi - lo))%nat -> nth i (zrange2 lo hi) 0 = lo + Z.of_nat i.
Proof.
  intros H. unfold zrange2, zrange.
  rewrite (nth_map_lt _ _ _ _ 0) by (now rewrite map_length, seq_length).
  rewrite (nth_map_lt _ _ _ _ O) by (now rewrite seq_length).
  rewrite seq_nth by exact H. cbn [plus]. reflexivity.
Qed.

Lemma segment_length pos crd p :
  length (segment pos crd p) = Z.to_nat (nthZ 0 pos (p + 1) - nthZ 0 pos p).
Proof. unfold segment. now rewrite map_length, zrange2_length. Qed.

Lemma segment_nth pos crd p (i : nat) :
  (i < Z.to_nat (nthZ 0%Z pos (p + 1)%Z - nthZ 0%Z pos p)%Z)%nat ->
  nth i (segment pos crd p) 0 = nthZ (-1) crd (nthZ 0 pos p + Z.of_nat i).
Proof.
  intros H. unfold segment.
  rewrite (nth_map_lt _ _ _ _ 0) by (now rewrite zrange2_length).
  now rewrite zrange2_nth.
Qed.

Lemma segment_strictly_increasing pos crd p :
  strictly_increasing (segment pos crd p) = true <->
  (forall q, nthZ 0 pos p <= q -> q + 1 < nthZ 0 pos (p + 1) ->
             nthZ (-1) crd q < nthZ (-1) crd (q + 1)).
Proof.
  rewrite strictly_increasing_nth, segment_length. split.
  - intros H q H0 H1.
    specialize (H (Z.to_nat (q - nthZ 0 pos p))).
    rewrite !segment_nth in H by lia.
    replace (nthZ 0 pos p + Z.of_nat (Z.to_nat (q - nthZ 0 pos p))) with q in H by lia.
    replace (nthZ 0 pos p + Z.of_nat (S (Z.to_nat (q - nthZ 0 pos p)))) with (q + 1) in H by lia.
    apply H. lia.
  - intros H i Hi. rewrite !segment_nth by lia.
    replace (nthZ 0 pos p + Z.of_nat (S i)) with (nthZ 0 pos p + Z.of_nat i + 1) by lia.
    apply H; lia.
Qed.

(** * The checker decides the statement *)

Lemma wf_compressedb_spec n d pos crd :
  wf_compressedb n d pos crd = true <-> wf_compressed n d pos crd.
Proof.
  unfold wf_compressedb, wf_compressed.
  rewrite !andb_true_iff, !Z.eqb_eq, weakly_increasing_Z, !forallb_forall.
  split.
  - intros (((((H1 & H2) & H3) & H4) & H5) & H6).
    repeat split; try assumption.
    + intros i Hi. apply H3; lia.
    + intros p q Hp. apply segment_strictly_increasing. apply H5. apply In_zrange. lia.
    + specialize (H6 c H). lia.
    + specialize (H6 c H). lia.
  - intros (H1 & H2 & H3 & H4 & H5 & H6).
    repeat split; try assumption.
    + intros i Hi0 Hi1. apply H3. lia.
    + intros p Hp. apply In_zrange in Hp. apply segment_strictly_increasing.
      intros q. apply H5. lia.
    + intros c Hc. specialize (H6 c Hc). lia.
Qed.

Lemma wf_levelsb_spec lv : forall n leaf,
  wf_levelsb lv n = Some leaf <-> wf_levels lv n leaf.
Proof.
  induction lv as [|[l d] lv IH]; intros n leaf.
  - cbn. split; [intros H; now inversion H|intros ->; reflexivity].
  - destruct l as [|pos crd].
    + cbn [wf_levelsb wf_levels]. destruct (0 <=? d) eqn:E.
      * rewrite IH. split; [intros H; split; [lia|exact H]|intros [_ H]; exact H].
      * split; [discriminate|intros [H _]; lia].
    + cbn [wf_levelsb wf_levels]. destruct (wf_compressedb n d pos crd) eqn:E.
      * rewrite IH. apply wf_compressedb_spec in E. tauto.
      * split; [discriminate|]. intros [H _]. apply wf_compressedb_spec in H. congruence.
Qed.

Lemma wf_shapeb_spec {V} (t : tensor V) : wf_shapeb t = true <-> wf_shape t.
Proof.
  unfold wf_shapeb, wf_shape.
  rewrite !andb_true_iff, !Nat.eqb_eq, is_permb_Permutation, forallb_forall, Forall_forall.
  split.
  - intros (((H1 & H2) & H3) & H4). repeat split; try assumption.
    intros x Hx. specialize (H4 x Hx). lia.
  - intros (H1 & H2 & H3 & H4). repeat split; try assumption.
    intros x Hx. specialize (H4 x Hx). lia.
Qed.

Theorem wf_tensorb_spec {V} (strict : bool) (t : tensor V) :
  wf_tensorb strict t = true <-> wf_tensor strict t.
Proof.
  unfold wf_tensorb, wf_tensor. rewrite andb_true_iff, wf_shapeb_spec.
  destruct (wf_levelsb (combine (levels t) (level_dims t)) 1) as [n|] eqn:E.
  - apply wf_levelsb_spec in E. split.
    + intros [Hs Hv]. split; [exact Hs|]. exists n. split; [exact E|].
      destruct strict; lia.
    + intros [Hs (leaf & Hl & Hv)]. split; [exact Hs|].
      apply wf_levelsb_spec in E, Hl. rewrite E in Hl. inversion Hl; subst.
      destruct strict; lia.
  - split; [intros [_ H]; discriminate|].
    intros [_ (leaf & Hl & _)]. apply wf_levelsb_spec in Hl. congruence.
Qed.

(** * Consequences of well-formedness *)

(** ** facts about one compressed level *)

Lemma wf_compressed_n_nonneg n d pos crd : wf_compressed n d pos crd -> 0 <= n.
Proof.
  intros (H1 & H2 & _). destruct pos as [|a pos]; [cbn in H2; lia|].
  rewrite zlen_cons in H1. pose proof (zlen_nonneg pos). lia.
Qed.

Lemma wf_compressed_pos_mono n d pos crd :
  wf_compressed n d pos crd ->
  forall i j, 0 <= i -> i <= j -> j <= n -> nthZ 0 pos i <= nthZ 0 pos j.
Proof.
  intros (_ & _ & H3 & _) i j Hi Hij Hj.
  replace j with (i + Z.of_nat (Z.to_nat (j - i))) by lia.
  assert (i + Z.of_nat (Z.to_nat (j - i)) <= n) as Hb by lia.
  revert Hb. generalize (Z.to_nat (j - i)) as k. induction k as [|k IH]; intros Hb.
  - replace (i + Z.of_nat 0) with i by lia. lia.
  - etransitivity; [apply IH; lia|].
    replace (i + Z.of_nat (S k)) with (i + Z.of_nat k + 1) by lia. apply H3. lia.
Qed.

Lemma wf_compressed_pos_first n d pos crd : wf_compressed n d pos crd -> nthZ 0 pos 0 = 0.
Proof.
  intros H. pose proof (wf_compressed_n_nonneg _ _ _ _ H) as Hn.
  destruct H as (H1 & H2 & _). etransitivity; [|exact H2]. apply nthZ_indep. lia.
Qed.

Lemma wf_compressed_pos_last n d pos crd : wf_compressed n d pos crd -> nthZ 0 pos n = zlen crd.
Proof.
  intros H. pose proof (wf_compressed_n_nonneg _ _ _ _ H) as Hn.
  destruct H as (H1 & _ & _ & H4 & _). etransitivity; [|exact H4]. apply nthZ_indep. lia.
Qed.

Lemma wf_compressed_pos_bounds n d pos crd :
  wf_compressed n d pos crd -> forall i, 0 <= i <= n -> 0 <= nthZ 0 pos i <= zlen crd.
Proof.
  intros H i Hi.
  rewrite <- (wf_compressed_pos_first _ _ _ _ H) at 1.
  rewrite <- (wf_compressed_pos_last _ _ _ _ H).
  split; apply (wf_compressed_pos_mono _ _ _ _ H); lia.
Qed.

(** strict increase between any two positions of one segment *)
Lemma wf_compressed_segment_lt n d pos crd :
  wf_compressed n d pos crd ->
  forall p q q', 0 <= p < n -> nthZ 0 pos p <= q -> q < q' -> q' < nthZ 0 pos (p + 1) ->
                 nthZ (-1) crd q < nthZ (-1) crd q'.
Proof.
  intros (_ & _ & _ & _ & H5 & _) p q q' Hp Hq Hqq Hq'.
  replace q' with (q + 1 + Z.of_nat (Z.to_nat (q' - q - 1))) by lia.
  assert (q + 1 + Z.of_nat (Z.to_nat (q' - q - 1)) < nthZ 0 pos (p + 1)) as Hb by lia.
  revert Hb. generalize (Z.to_nat (q' - q - 1)) as k. induction k as [|k IH]; intros Hb.
  - replace (q + 1 + Z.of_nat 0) with (q + 1) by lia. apply (H5 p); lia.
  - eapply Z.lt_trans; [apply IH; lia|].
    replace (q + 1 + Z.of_nat (S k)) with (q + 1 + Z.of_nat k + 1) by lia.
    apply (H5 p); lia.
Qed.

(** ** reading never goes out of bounds *)

(** A checked read: [None] outside the array. *)
Definition nth_chk {A} (l : list A) (i : Z) : option A :=
  if (0 <=? i) && (i <? zlen l) then nth_error l (Z.to_nat i) else None.

Lemma nth_chk_Some {A} (d : A) l i : 0 <= i < zlen l -> nth_chk l i = Some (nthZ d l i).
Proof.
  intros H. unfold nth_chk. destruct ((0 <=? i) && (i <? zlen l)) eqn:E; [|lia].
  rewrite nthZ_nonneg by lia. apply nth_error_nth'. unfold zlen in H. lia.
Qed.

Lemma nth_chk_None {A} (l : list A) i : ~ (0 <= i < zlen l) -> nth_chk l i = None.
Proof. intros H. unfold nth_chk. destruct ((0 <=? i) && (i <? zlen l)) eqn:E; [lia|reflexivity]. Qed.

(** [flat_map] / [map] with a failing function *)
Fixpoint oflat_map {A B} (f : A -> option (list B)) (l : list A) : option (list B) :=
  match l with
  | [] => Some []
  | a :: r => match f a, oflat_map f r with
              | Some x, Some y => Some (x ++ y)
              | _, _ => None
              end
  end.

Fixpoint omap {A B} (f : A -> option B) (l : list A) : option (list B) :=
  match l with
  | [] => Some []
  | a :: r => match f a, omap f r with
              | Some x, Some y => Some (x :: y)
              | _, _ => None
              end
  end.

Lemma oflat_map_Some {A B} (f : A -> option (list B)) g l :
  (forall a, In a l -> f a = Some (g a)) -> oflat_map f l = Some (flat_map g l).
Proof.
  induction l as [|a l IH]; intros H; [reflexivity|].
  cbn [oflat_map flat_map]. rewrite H by (now left). rewrite IH; [reflexivity|].
  intros; apply H; now right.
Qed.

Lemma omap_Some {A B} (f : A -> option B) g l :
  (forall a, In a l -> f a = Some (g a)) -> omap f l = Some (map g l).
Proof.
  induction l as [|a l IH]; intros H; [reflexivity|].
  cbn [omap map]. rewrite H by (now left). rewrite IH; [reflexivity|].
  intros; apply H; now right.
Qed.

(** The walk of [Storage.walk] with every array read checked. *)
Fixpoint walk_chk (lv : list (level * Z)) (p : Z) (prefix : list Z) : option (list (list Z * Z)) :=
  match lv with
  | [] => Some [(rev prefix, p)]
  | (LDense, d) :: r => oflat_map (fun i => walk_chk r (p * d + i) (i :: prefix)) (zrange d)
  | (LCompressed pos crd, _) :: r =>
      match nth_chk pos p, nth_chk pos (p + 1) with
      | Some lo, Some hi =>
          oflat_map (fun q => match nth_chk crd q with
                              | Some c => walk_chk r q (c :: prefix)
                              | None => None
                              end) (zrange2 lo hi)
      | _, _ => None
      end
  end.

Definition entries_chk {V} (t : tensor V) : option (list (list Z * V)) :=
  match walk_chk (combine (levels t) (level_dims t)) 0 [] with
  | None => None
  | Some w => omap (fun cq : list Z * Z =>
                      match nth_chk (vals t) (snd cq) with
                      | Some v => Some (to_dim_order (ordering t) (fst cq), v)
                      | None => None
                      end) w
  end.

Lemma walk_chk_wf lv : forall n leaf, wf_levels lv n leaf ->
  forall p prefix, 0 <= p < n ->
    walk_chk lv p prefix = Some (walk lv p prefix)
    /\ (forall c q, In (c, q) (walk lv p prefix) -> 0 <= q < leaf).
Proof.
  induction lv as [|[l d] lv IH]; intros n leaf W p prefix Hp.
  - cbn in W. subst leaf. cbn. split; [reflexivity|].
    intros c q [H|[]]. inversion H; subst. lia.
  - destruct l as [|pos crd]; cbn [wf_levels] in W; destruct W as [W1 W2].
    + cbn [walk_chk walk]. split.
      * apply oflat_map_Some. intros i Hi. apply In_zrange in Hi.
        apply (IH _ _ W2). nia.
      * intros c q Hin. apply in_flat_map in Hin. destruct Hin as (i & Hi & Hin).
        apply In_zrange in Hi. eapply (IH _ _ W2); [|exact Hin]. nia.
    + pose proof W1 as (L1 & _).
      pose proof (wf_compressed_pos_bounds _ _ _ _ W1) as PB.
      cbn [walk_chk walk].
      rewrite (nth_chk_Some 0 pos p) by lia.
      rewrite (nth_chk_Some 0 pos (p + 1)) by lia.
      split.
      * apply oflat_map_Some. intros q Hq. apply In_zrange2 in Hq.
        assert (0 <= q < zlen crd) as Hq' by (pose proof (PB p); pose proof (PB (p + 1)); lia).
        rewrite (nth_chk_Some (-1) crd q) by exact Hq'.
        apply (IH _ _ W2). exact Hq'.
      * intros c q' Hin. apply in_flat_map in Hin. destruct Hin as (q & Hq & Hin).
        apply In_zrange2 in Hq.
        assert (0 <= q < zlen crd) as Hq' by (pose proof (PB p); pose proof (PB (p + 1)); lia).
        eapply (IH _ _ W2); [exact Hq'|exact Hin].
Qed.

Lemma wf_tensorb_levels {V} strict (t : tensor V) :
  wf_tensorb strict t = true ->
  exists leaf, wf_levels (combine (levels t) (level_dims t)) 1 leaf /\ leaf <= zlen (vals t).
Proof.
  intros H. apply wf_tensorb_spec in H. destruct H as [_ (leaf & H1 & H2)].
  exists leaf. split; [exact H1|]. destruct strict; lia.
Qed.

(** Every position that [walk] visits lies inside pos / crd / vals: the checked walk succeeds and
    yields exactly the entries of the unchecked one. *)
Theorem wf_walk_in_bounds {V} strict (t : tensor V) (dflt : V) :
  wf_tensorb strict t = true ->
  walk_chk (combine (levels t) (level_dims t)) 0 [] = Some (walk (combine (levels t) (level_dims t)) 0 [])
  /\ entries_chk t = Some (entries dflt t).
Proof.
  intros H. destruct (wf_tensorb_levels _ _ H) as (leaf & W & Hv).
  destruct (walk_chk_wf _ _ _ W 0 []) as [E B]; [lia|].
  split; [exact E|]. unfold entries_chk, entries. rewrite E.
  apply omap_Some. intros [c q] Hin. cbn [fst snd].
  specialize (B c q Hin). rewrite (nth_chk_Some dflt) by lia. reflexivity.
Qed.

(** ** storage order is lexicographic, so no coordinate is stored twice *)

Fixpoint lex_lt (a b : list Z) : Prop :=
  match a, b with
  | x :: a', y :: b' => x < y \/ (x = y /\ lex_lt a' b')
  | _, _ => False
  end.

Lemma lex_lt_irrefl a : ~ lex_lt a a.
Proof. induction a as [|x a IH]; cbn; [tauto|]. intros [H|[_ H]]; [lia|tauto]. Qed.

Lemma lex_lt_trans a : forall b c, lex_lt a b -> lex_lt b c -> lex_lt a c.
Proof.
  induction a as [|x a IH]; intros [|y b] [|z c]; cbn; try tauto.
  intros [H|[-> H]] [H'|[-> H']]; try (left; lia). right. split; [reflexivity|]. eapply IH; eassumption.
Qed.

Section Sorted.

  Lemma StronglySorted_app {A} (R : A -> A -> Prop) l1 l2 :
    StronglySorted R l1 -> StronglySorted R l2 ->
    (forall a b, In a l1 -> In b l2 -> R a b) -> StronglySorted R (l1 ++ l2).
  Proof.
    induction l1 as [|x l1 IH]; intros S1 S2 H; [exact S2|].
    cbn [app]. inversion S1 as [|? ? S1' F]; subst. constructor.
    - apply IH; [exact S1'|exact S2|]. intros; apply H; [now right|assumption].
    - apply Forall_app. split; [exact F|]. apply Forall_forall. intros b Hb. apply H; [now left|exact Hb].
  Qed.

  Lemma StronglySorted_map_seq {A} (R : A -> A -> Prop) (f : nat -> A) k : forall s,
    (forall i j, (s <= i)%nat -> (i < j)%nat -> (j < s + k)%nat -> R (f i) (f j)) ->
    StronglySorted R (map f (seq s k)).
  Proof.
    induction k as [|k IH]; intros s H; [constructor|].
    cbn [seq map]. constructor.
    - apply IH. intros i j H1 H2 H3. apply H; lia.
    - apply Forall_forall. intros y Hy. apply in_map_iff in Hy. destruct Hy as (j & <- & Hj).
      apply in_seq in Hj. apply H; lia.
  Qed.

  Lemma StronglySorted_zrange2 (R : Z -> Z -> Prop) lo hi :
    (forall a b, lo <= a -> a < b -> b < hi -> R a b) -> StronglySorted R (zrange2 lo hi).
  Proof.
    intros H. unfold zrange2, zrange. rewrite map_map. apply StronglySorted_map_seq.
    intros i j H1 H2 H3. apply H; lia.
  Qed.

  Lemma StronglySorted_zrange (R : Z -> Z -> Prop) n :
    (forall a b, 0 <= a -> a < b -> b < n -> R a b) -> StronglySorted R (zrange n).
  Proof.
    intros H. unfold zrange. apply StronglySorted_map_seq.
    intros i j H1 H2 H3. apply H; lia.
  Qed.

  Lemma StronglySorted_NoDup {A} (R : A -> A -> Prop) l :
    (forall x, ~ R x x) -> StronglySorted R l -> NoDup l.
  Proof.
    intros Irr S. induction S as [|x l S IH F]; constructor; [|exact IH].
    intros Hin. rewrite Forall_forall in F. exact (Irr x (F x Hin)).
  Qed.

  Lemma StronglySorted_map_cons k l :
    StronglySorted lex_lt l -> StronglySorted lex_lt (map (cons k) l).
  Proof.
    intros S. induction S as [|x l S IH F]; cbn [map]; constructor; [exact IH|].
    rewrite Forall_forall in *. intros y Hy. apply in_map_iff in Hy. destruct Hy as (z & <- & Hz).
    cbn. right. split; [reflexivity|]. now apply F.
  Qed.

  (** children of increasing keys, each sorted, concatenate to a sorted list *)
  Lemma sorted_flat_map_heads (key : Z -> Z) (sub : Z -> list (list Z)) (qs : list Z) :
    (forall q, In q qs -> StronglySorted lex_lt (sub q)) ->
    StronglySorted (fun a b => key a < key b) qs ->
    StronglySorted lex_lt (flat_map (fun q => map (cons (key q)) (sub q)) qs).
  Proof.
    intros Hsub S. induction S as [|q qs S IH F]; [constructor|].
    cbn [flat_map]. apply StronglySorted_app.
    - apply StronglySorted_map_cons. apply Hsub. now left.
    - apply IH. intros; apply Hsub; now right.
    - intros a b Ha Hb. apply in_map_iff in Ha. destruct Ha as (a' & <- & _).
      apply in_flat_map in Hb. destruct Hb as (q' & Hq' & Hb).
      apply in_map_iff in Hb. destruct Hb as (b' & <- & _).
      rewrite Forall_forall in F. cbn. left. now apply F.
  Qed.

  Lemma walk_cons_prefix lv p c :
    map fst (walk lv p [c]) = map (cons c) (map fst (walk lv p [])).
  Proof.
    rewrite walk_prefix, !map_map. apply map_ext. intros [x q]. reflexivity.
  Qed.

  Lemma walk_sorted lv : forall n leaf, wf_levels lv n leaf ->
    forall p, 0 <= p < n -> StronglySorted lex_lt (map fst (walk lv p [])).
  Proof.
    induction lv as [|[l d] lv IH]; intros n leaf W p Hp.
    - cbn. repeat constructor.
    - destruct l as [|pos crd]; cbn [wf_levels] in W; destruct W as [W1 W2]; cbn [walk].
      + rewrite map_flat_map.
        erewrite flat_map_ext; [|intros i; apply walk_cons_prefix].
        apply (sorted_flat_map_heads (fun i => i) (fun i => map fst (walk lv (p * d + i) []))).
        * intros i Hi. apply In_zrange in Hi. apply (IH _ _ W2). nia.
        * apply StronglySorted_zrange. intros; lia.
      + pose proof (wf_compressed_pos_bounds _ _ _ _ W1) as PB.
        pose proof W1 as (L1 & _).
        rewrite map_flat_map.
        erewrite flat_map_ext; [|intros q; apply walk_cons_prefix].
        apply (sorted_flat_map_heads (fun q => nthZ (-1) crd q) (fun q => map fst (walk lv q []))).
        * intros q Hq. apply In_zrange2 in Hq. apply (IH _ _ W2).
          pose proof (PB p); pose proof (PB (p + 1)); lia.
        * apply StronglySorted_zrange2. intros a b Ha Hab Hb.
          apply (wf_compressed_segment_lt _ _ _ _ W1 p); lia.
  Qed.

  Lemma NoDup_map_inj_in {A B} (f : A -> B) l :
    (forall a b, In a l -> In b l -> f a = f b -> a = b) -> NoDup l -> NoDup (map f l).
  Proof.
    intros Inj ND. induction ND as [|x l Hx ND IH]; [constructor|]. cbn [map]. constructor.
    - intros Hin. apply in_map_iff in Hin. destruct Hin as (y & E & Hy).
      apply Hx. rewrite (Inj x y); [exact Hy|now left|now right|now symmetry].
    - apply IH. intros a b Ha Hb. apply Inj; now right.
  Qed.

  Lemma combine_levels_length {V} strict (t : tensor V) :
    wf_tensorb strict t = true ->
    length (combine (levels t) (level_dims t)) = length (ordering t).
  Proof.
    intros H. destruct (wf_tensorb_shape _ _ H) as (H1 & H2 & _).
    rewrite combine_length. unfold level_dims. rewrite map_length. lia.
  Qed.

  Lemma entries_fst {V} (dflt : V) (t : tensor V) :
    map fst (entries dflt t) =
    map (to_dim_order (ordering t)) (map fst (walk (combine (levels t) (level_dims t)) 0 [])).
  Proof.
    unfold entries. rewrite !map_map. apply map_ext. intros [c q]. reflexivity.
  Qed.

  (** Storage order is the lexicographic order of the level-order coordinates. *)
  Theorem wf_entries_sorted {V} strict (t : tensor V) (dflt : V) :
    wf_tensorb strict t = true ->
    StronglySorted lex_lt (map (fun e => to_level_order (ordering t) (fst e)) (entries dflt t)).
  Proof.
    intros H. destruct (wf_tensorb_levels _ _ H) as (leaf & W & _).
    pose proof (walk_sorted _ _ _ W 0) as S. specialize (S ltac:(lia)).
    destruct (wf_tensorb_shape _ _ H) as (_ & _ & P & _).
    pose proof (combine_levels_length _ _ H) as L.
    replace (map (fun e => to_level_order (ordering t) (fst e)) (entries dflt t))
      with (map fst (walk (combine (levels t) (level_dims t)) 0 [])); [exact S|].
    rewrite <- (map_map fst (to_level_order (ordering t))), entries_fst, map_map.
    rewrite <- (map_id (map fst _)) at 1. rewrite !map_map.
    apply map_ext_in. intros [c q] Hin. cbn [fst].
    symmetry. apply to_level_order_to_dim_order; [exact P|].
    apply walk_length in Hin. cbn [length] in Hin. lia.
  Qed.

  (** No coordinate is stored twice. *)
  Theorem wf_entries_nodup {V} strict (t : tensor V) (dflt : V) :
    wf_tensorb strict t = true -> NoDup (map fst (entries dflt t)).
  Proof.
    intros H. destruct (wf_tensorb_levels _ _ H) as (leaf & W & _).
    pose proof (walk_sorted _ _ _ W 0) as S. specialize (S ltac:(lia)).
    destruct (wf_tensorb_shape _ _ H) as (_ & _ & P & _).
    pose proof (combine_levels_length _ _ H) as L.
    rewrite entries_fst. apply NoDup_map_inj_in.
    - intros a b Ha Hb. apply in_map_iff in Ha, Hb.
      destruct Ha as ([a' qa] & <- & Ha), Hb as ([b' qb] & <- & Hb). cbn [fst].
      apply walk_length in Ha, Hb. cbn [length] in Ha, Hb.
      apply to_dim_order_inj; [exact P|lia|lia].
    - eapply StronglySorted_NoDup; [exact lex_lt_irrefl|exact S].
  Qed.
End Sorted.

(** ** stored coordinates are within the dimensions *)

Lemma walk_coords_in_range lv : forall n leaf, wf_levels lv n leaf ->
  forall p c q, 0 <= p < n -> In (c, q) (walk lv p []) ->
    Forall2 (fun x d => 0 <= x < d) c (map snd lv).
Proof.
  induction lv as [|[l d] lv IH]; intros n leaf W p c q Hp Hin.
  - cbn in Hin. destruct Hin as [H|[]]. inversion H; subst. constructor.
  - destruct l as [|pos crd]; cbn [wf_levels] in W; destruct W as [W1 W2]; cbn [walk] in Hin;
      apply in_flat_map in Hin; destruct Hin as (i & Hi & Hin);
      rewrite walk_prefix in Hin; apply in_map_iff in Hin; destruct Hin as ([c' q'] & E & Hin);
      cbn [fst snd rev app] in E; inversion E; subst; cbn [map snd]; constructor.
    + apply In_zrange in Hi. exact Hi.
    + apply In_zrange in Hi. eapply (IH _ _ W2); [|exact Hin]. nia.
    + pose proof (wf_compressed_pos_bounds _ _ _ _ W1) as PB. pose proof W1 as (L1 & _).
      apply In_zrange2 in Hi. destruct W1 as (_ & _ & _ & _ & _ & H6). apply H6.
      rewrite nthZ_nonneg by (pose proof (PB p); lia). apply nth_In.
      pose proof (PB p); pose proof (PB (p + 1)). unfold zlen in *. lia.
    + pose proof (wf_compressed_pos_bounds _ _ _ _ W1) as PB. pose proof W1 as (L1 & _).
      apply In_zrange2 in Hi. eapply (IH _ _ W2); [|exact Hin].
      pose proof (PB p); pose proof (PB (p + 1)); lia.
Qed.

Theorem wf_coords_in_range {V} strict (t : tensor V) :
  wf_tensorb strict t = true ->
  forall c q, In (c, q) (walk (combine (levels t) (level_dims t)) 0 []) ->
    Forall2 (fun x d => 0 <= x < d) c (level_dims t).
Proof.
  intros H c q Hin. destruct (wf_tensorb_levels _ _ H) as (leaf & W & _).
  pose proof (walk_coords_in_range _ _ _ W 0 c q ltac:(lia) Hin) as F.
  destruct (wf_tensorb_shape _ _ H) as (H1 & H2 & _).
  replace (map snd (combine (levels t) (level_dims t))) with (level_dims t) in F; [exact F|].
  symmetry. unfold level_dims in *.
  assert (length (levels t) = length (map (fun d => nth d (dims t) 0) (ordering t))) as L
    by (rewrite map_length; lia).
  revert L. generalize (map (fun d => nth d (dims t) 0) (ordering t)) as ds.
  generalize (levels t) as ls. induction ls as [|a ls IH]; intros [|b ds] L; cbn in *; try lia; try reflexivity.
  f_equal. apply IH. lia.
Qed.

(** * A well-formed tensor passes the library's own structure validation

    [validate] (model/StructureValidate.v) transcribes taco_structure_to_cffi: what pickling and
    re-use as an input demand.  The converse is false ([validate] does not look at the order of
    the coordinates inside a segment): see [validate_weaker_example]. *)

From TV Require Import model.StructureValidate.

Lemma validate_levels_wf (ls : list level) : forall (ds : list Z) i n leaf,
  length ls = length ds ->
  wf_levelsb (combine ls ds) n = Some leaf ->
  validate_levels (combine (combine (map mode_of ls) (map indices_of ls)) ds) i n = VNnz leaf.
Proof.
  induction ls as [|l ls IH]; intros [|d ds] i n leaf L H; cbn [length] in L; try lia.
  - cbn in *. now inversion H.
  - cbn [map combine] in *. destruct l as [|pos crd]; cbn [mode_of indices_of validate_levels wf_levelsb] in *.
    + destruct (0 <=? d); [|discriminate]. change (0 =? 0) with true. cbn iota.
      apply IH; [lia|exact H].
    + destruct (wf_compressedb n d pos crd) eqn:E; [|discriminate].
      change (1 =? 0) with false. cbn iota.
      unfold wf_compressedb in E. rewrite !andb_true_iff in E.
      destruct E as (((((E1 & E2) & E3) & E4) & E5) & E6).
      apply Z.eqb_eq in E1, E2, E4.
      assert (0 <= n) as Hn by (pose proof (zlen_nonneg pos); destruct pos; [cbn in E2; lia|rewrite zlen_cons in E1; pose proof (zlen_nonneg pos); lia]).
      replace (zlen pos =? n + 1) with true by lia. cbn [negb].
      rewrite (nthZ_indep 0 (-1)) by lia. rewrite E2. change (0 =? 0) with true. cbn [negb].
      rewrite E3. cbn [negb].
      replace (zlen pos - 1) with n by lia. rewrite (nthZ_indep 0 (-1)) by lia. rewrite E4.
      rewrite Z.eqb_refl. cbn [negb]. rewrite E6. cbn [negb].
      apply IH; [lia|exact H].
Qed.

Lemma ordering_okb_perm (ord : list nat) :
  is_permb ord = true -> ordering_okb (zlen ord) (map Z.of_nat ord) = true.
Proof.
  intros P. unfold ordering_okb. apply andb_true_iff. split.
  - apply forallb_forall. intros x Hx. apply in_map_iff in Hx. destruct Hx as (k & <- & Hk).
    apply (is_permb_In _ P) in Hk. unfold zlen. lia.
  - apply forallb_forall. intros k Hk. apply In_zrange in Hk. apply existsb_exists.
    exists k. split; [|apply Z.eqb_refl].
    apply in_map_iff. exists (Z.to_nat k). split; [lia|].
    apply (is_permb_In _ P). unfold zlen in Hk. lia.
Qed.

Theorem wf_implies_validate {V} (t : tensor V) :
  wf_tensorb true t = true -> validate (to_raw t) = VOk.
Proof.
  intros H. pose proof (wf_tensorb_shape _ _ H) as (H1 & H2 & P & Hd).
  unfold wf_tensorb in H. apply andb_true_iff in H. destruct H as [_ H].
  destruct (wf_levelsb (combine (levels t) (level_dims t)) 1) as [leaf|] eqn:E; [|discriminate].
  apply Z.eqb_eq in H.
  unfold validate, to_raw. cbn [r_modes r_dims r_ordering r_indices r_nvals].
  rewrite !zlen_map.
  replace ((zlen (levels t) =? zlen (dims t)) && (zlen (dims t) =? zlen (ordering t))) with true
    by (unfold zlen; lia).
  cbn [negb].
  replace (forallb (fun m => (m =? 0) || (m =? 1)) (map mode_of (levels t))) with true.
  2:{ symmetry. apply forallb_forall. intros m Hm. apply in_map_iff in Hm.
      destruct Hm as ([|? ?] & <- & _); reflexivity. }
  cbn [negb].
  replace (forallb (fun d => 0 <=? d) (dims t)) with true.
  2:{ symmetry. apply forallb_forall. intros d Hin. rewrite Forall_forall in Hd. specialize (Hd d Hin). lia. }
  cbn [negb].
  replace (zlen (levels t)) with (zlen (ordering t)) by (unfold zlen; lia).
  rewrite ordering_okb_perm by exact P. cbn [negb].
  rewrite Z.eqb_refl. cbn [negb].
  replace (map (fun o => nthZ 0 (dims t) o) (map Z.of_nat (ordering t))) with (level_dims t).
  2:{ unfold level_dims. rewrite map_map. apply map_ext. intros o. now rewrite nthZ_of_nat. }
  rewrite (validate_levels_wf _ _ 0 1 leaf).
  - rewrite H, Z.eqb_refl. reflexivity.
  - unfold level_dims. rewrite map_length. lia.
  - exact E.
Qed.

(** [validate] accepts an unsorted segment which [wf_tensorb] (property C02) rejects. *)
Example validate_weaker_example :
  let t := mkTensor [3] [O] [LCompressed [0; 2] [2; 0]] [1; 1] in
  validate (to_raw t) = VOk /\ wf_tensorb true t = false.
Proof. vm_compute. split; reflexivity. Qed.

(** * The statement, unfolded (for props/C02.v) and a non-trivial instance *)

Lemma wf_tensor_statement {V} (strict : bool) (t : tensor V) :
  wf_tensor strict t <->
  ((length (dims t) = length (ordering t)
    /\ length (levels t) = length (ordering t)
    /\ Permutation (seq 0 (length (ordering t))) (ordering t)
    /\ Forall (fun d => 0 <= d) (dims t))
   /\ exists leaf, wf_levels (combine (levels t) (level_dims t)) 1 leaf
                   /\ (if strict then zlen (vals t) = leaf else leaf <= zlen (vals t)))
  /\ (forall n d pos crd, wf_compressed n d pos crd <->
        zlen pos = n + 1
        /\ nthZ (-1) pos 0 = 0
        /\ (forall i, 0 <= i < n -> nthZ 0 pos i <= nthZ 0 pos (i + 1))
        /\ nthZ (-1) pos n = zlen crd
        /\ (forall p q, 0 <= p < n -> nthZ 0 pos p <= q -> q + 1 < nthZ 0 pos (p + 1) ->
              nthZ (-1) crd q < nthZ (-1) crd (q + 1))
        /\ (forall c, In c crd -> 0 <= c < d)).
Proof.
  split.
  - intros H. split; [exact H|]. intros. reflexivity.
  - intros [H _]. exact H.
Qed.

(** hypotheses of the consequences are satisfiable: a 2 x 3 matrix stored column-major, dense over
    compressed, with an empty column *)
Example wf_example :
  let t := mkTensor [2; 3] [1%nat; 0%nat] [LDense; LCompressed [0; 1; 1; 3] [1; 0; 1]] [5; 6; 7] in
  wf_tensorb true t = true /\ wf_tensorb false t = true
  /\ entries 0 t = [([1; 0], 5); ([0; 2], 6); ([1; 2], 7)].
Proof. vm_compute. repeat split. Qed.

(** ill-formed structures the checker rejects: pos not starting at 0; decreasing pos; unsorted or
    duplicated coordinates in a segment; coordinate outside the dimension; pos too short / long;
    too few values *)
Example wf_rejects :
  let mk pos crd vals := mkTensor [2; 3] [0%nat; 1%nat] [LDense; LCompressed pos crd] vals in
  map (wf_tensorb false)
    [ mk [1; 1; 2] [0; 1] [1; 1]; mk [0; 2; 1] [0; 1] [1; 1]; mk [0; 2; 2] [1; 0] [1; 1];
      mk [0; 2; 2] [1; 1] [1; 1]; mk [0; 1; 2] [0; 3] [1; 1]; mk [0; 2] [0; 1] [1; 1];
      mk [0; 1; 2; 2] [0; 1] [1; 1]; mk [0; 1; 2] [0; 1] [1]; mk [0; 1; 3] [0; 1] [1; 1; 1] ]
  = [false; false; false; false; false; false; false; false; false].
Proof. vm_compute. reflexivity. Qed.
