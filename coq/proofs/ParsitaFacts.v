(** TIE "grammar" -- facts about the combinator embedding model/Parsita.v: unfolding equations of the
    interpreter, the regular-expression matcher on character classes (greedy repetition), the
    whitespace skipper. *)

From Coq Require Import String Ascii List NArith ZArith Bool Arith Lia.
From TV Require Import model.Parser model.Parsita.
Import ListNotations.

(* ------------------------------------------------------------------------------------------ *)
(** * The interpreter, one equation per constructor *)

Section Run.
  Variable U : Type.
  Variable g : grammar U.

  Lemma run_ref : forall n x s,
    run U (S n) g (PRef x) s
    = match lookup U x (g_prods g) with Some q => run U n g q s | None => RStuck end.
  Proof. reflexivity. Qed.
  Lemma run_lit : forall n l s, run U (S n) g (PLit l) s = sem_lit U (g_ws g) l s.
  Proof. reflexivity. Qed.
  Lemma run_reg : forall n r s, run U (S n) g (PReg r) s = sem_reg U (g_ws g) r s.
  Proof. reflexivity. Qed.
  Lemma run_seq : forall n ps s, run U (S n) g (PSeq ps) s = sem_seq U (map (run U (S n) g) ps) s.
  Proof. reflexivity. Qed.
  Lemma run_alt : forall n ps s, run U (S n) g (PAlt ps) s = sem_alt U (map (run U (S n) g) ps) s.
  Proof. reflexivity. Qed.
  Lemma run_discard_l : forall n a b s,
    run U (S n) g (PDiscardL a b) s = sem_discard_l U (run U (S n) g a) (run U (S n) g b) s.
  Proof. reflexivity. Qed.
  Lemma run_discard_r : forall n a b s,
    run U (S n) g (PDiscardR a b) s = sem_discard_r U (run U (S n) g a) (run U (S n) g b) s.
  Proof. reflexivity. Qed.
  Lemma run_rep : forall n q s, run U (S n) g (PRep q) s = sem_rep U (run U (S n) g q) s.
  Proof. reflexivity. Qed.
  Lemma run_repsep : forall n q sep s,
    run U (S n) g (PRepSep q sep) s = sem_repsep U (run U (S n) g q) (run U (S n) g sep) s.
  Proof. reflexivity. Qed.
  Lemma run_rep1sep : forall n q sep s,
    run U (S n) g (PRep1Sep q sep) s = sem_rep1sep U (run U (S n) g q) (run U (S n) g sep) s.
  Proof. reflexivity. Qed.
  Lemma run_map : forall n q f s, run U (S n) g (PMap q f) s = sem_map U (run U (S n) g q) f s.
  Proof. reflexivity. Qed.
  Lemma run_bind : forall n q f s, run U (S n) g (PBind q f) s = sem_bind U (run U (S n) g q) f s.
  Proof. reflexivity. Qed.
End Run.

(* ------------------------------------------------------------------------------------------ *)
(** * Greedy repetition of a character class *)

Section Star.
  Context {X : Type}.
  Variable rs : list (ascii * ascii).

  (** what [RStar (RSet rs)] computes: longest run first, then shorter ones (backtracking) *)
  Fixpoint star_spec (s : list ascii) (k : list ascii -> option X) : option X :=
    match s with
    | c :: t =>
        if in_set rs c then
          match star_spec t k with Some x => Some x | None => k s end
        else k s
    | [] => k []
    end.

  Lemma star_loop_spec : forall n s k, length s < n ->
    star_loop (rm (RSet rs)) n s k = star_spec s k.
  Proof.
    induction n as [|n IH]; intros s k L; [lia|].
    destruct s as [|c t]; simpl.
    - reflexivity.
    - destruct (in_set rs c); [|reflexivity].
      assert (E : (length t <? S (length t)) = true) by (apply Nat.ltb_lt; lia).
      rewrite E. rewrite IH by (simpl in L; lia). reflexivity.
  Qed.

  Lemma rm_star_set : forall s k, rm (RStar (RSet rs)) s k = star_spec s k.
  Proof.
    intros. change (star_loop (rm (RSet rs)) (S (length s)) s k = star_spec s k).
    apply star_loop_spec. lia.
  Qed.

  (** the greedy choice succeeds: no backtracking *)
  Lemma star_spec_greedy : forall s k x,
    k (snd (take_while (in_set rs) s)) = Some x -> star_spec s k = Some x.
  Proof.
    induction s as [|c t IH]; intros k x H; simpl in H |- *.
    - exact H.
    - destruct (in_set rs c).
      + destruct (take_while (in_set rs) t) as [a b] eqn:E. simpl in H.
        rewrite (IH k x); [reflexivity|]. exact H.
      + exact H.
  Qed.

  (** backtracking into the run is useless when the continuation rejects the class *)
  Lemma star_spec_reject : forall s k,
    (forall c t, in_set rs c = true -> k (c :: t) = None) ->
    star_spec s k = k (snd (take_while (in_set rs) s)).
  Proof.
    induction s as [|c t IH]; intros k R; simpl.
    - reflexivity.
    - destruct (in_set rs c) eqn:C.
      + rewrite (IH k R). destruct (take_while (in_set rs) t) as [a b]. simpl.
        destruct (k b); [reflexivity|]. apply R, C.
      + reflexivity.
  Qed.
End Star.

Lemma take_while_ext : forall (p q : ascii -> bool) s, (forall c, p c = q c) -> take_while p s = take_while q s.
Proof. induction s as [|c t IH]; intros E; simpl; [reflexivity|]. rewrite E, IH by exact E. reflexivity. Qed.

Lemma take_while_length : forall p s, length (snd (take_while p s)) <= length s.
Proof.
  induction s as [|c t IH]; simpl; [lia|]. destruct (p c); [|simpl; lia].
  destruct (take_while p t); simpl in *; lia.
Qed.

Lemma take_while_app : forall p s, fst (take_while p s) ++ snd (take_while p s) = s.
Proof.
  induction s as [|c t IH]; simpl; [reflexivity|]. destruct (p c); [|reflexivity].
  destruct (take_while p t); simpl in *. rewrite IH. reflexivity.
Qed.

Lemma rm_seq : forall X a b s (k : list ascii -> option X), rm (RSeq a b) s k = rm a s (fun s' => rm b s' k).
Proof. reflexivity. Qed.
Lemma rm_alt : forall X a b s (k : list ascii -> option X),
  rm (RAlt a b) s k = match rm a s k with Some x => Some x | None => rm b s k end.
Proof. reflexivity. Qed.
Lemma rm_eps : forall X s (k : list ascii -> option X), rm REps s k = k s.
Proof. reflexivity. Qed.
Lemma rm_set : forall X cs s (k : list ascii -> option X),
  rm (RSet cs) s k = match s with c :: t => if in_set cs c then k t else None | [] => None end.
Proof. reflexivity. Qed.

(** a class followed by a starred class: identifiers *)
Lemma re_match_set_star : forall r1 r2 s,
  re_match (RSeq (RSet r1) (RStar (RSet r2))) s
  = match s with
    | c :: t => if in_set r1 c then Some (snd (take_while (in_set r2) t)) else None
    | [] => None
    end.
Proof.
  intros r1 r2 s. unfold re_match. rewrite rm_seq, rm_set. destruct s as [|c t]; [reflexivity|].
  destruct (in_set r1 c); [|reflexivity].
  rewrite rm_star_set. apply star_spec_greedy. reflexivity.
Qed.

(** [RPlus] of a class at top level: the longest run, at least one *)
Lemma re_match_plus_set : forall rs s,
  re_match (RPlus (RSet rs)) s
  = match s with
    | c :: t => if in_set rs c then Some (snd (take_while (in_set rs) t)) else None
    | [] => None
    end.
Proof. intros. apply re_match_set_star. Qed.

Lemma re_match_star_set : forall rs s,
  re_match (RStar (RSet rs)) s = Some (snd (take_while (in_set rs) s)).
Proof. intros. unfold re_match. rewrite rm_star_set. apply star_spec_greedy. reflexivity. Qed.

(** the text in front of a remainder *)
Lemma consumed_app : forall a b, consumed (a ++ b) b = string_of_list_ascii a.
Proof.
  intros a b. unfold consumed. rewrite app_length.
  replace (length a + length b - length b) with (length a) by lia.
  rewrite firstn_app, Nat.sub_diag, firstn_all. simpl. rewrite app_nil_r. reflexivity.
Qed.

Lemma consumed_take_while : forall p s,
  consumed s (snd (take_while p s)) = string_of_list_ascii (fst (take_while p s)).
Proof. intros p s. rewrite <- (take_while_app p s) at 1. apply consumed_app. Qed.

(* ------------------------------------------------------------------------------------------ *)
(** * Character classes of the grammars *)

Lemma in_set_digit : forall c, in_set [("0"%char, "9"%char)] c = is_digit c.
Proof. intros c. unfold in_set, in_range, is_digit, ascii_between. simpl. apply orb_false_r. Qed.
