(** C10 main lemmas: [validate] accepts exactly the consistent calls. *)

From Coq Require Import String List ZArith Bool Arith Lia Permutation.
From TV Require Import model.ExprAst model.Problem model.Validate
  proofs.ValidateBase proofs.ValidateIP proofs.ValidateCall.
Import ListNotations.

(* ------------------------------------------------------------------------------------------ *)
(** * the vocabulary of the statement *)

Definition rhs (p : problem) : expr := a_expr (p_assignment p).
Definition target_indexes (p : problem) : list string := t_indexes (a_target (p_assignment p)).

(** every occurrence [T(i_1..i_n)] of the right-hand side: the argument bound to [T] has
    size [sz i_j] in dimension [j] *)
Definition dims_agree (e : expr) (kw : list (string * argument)) (sz : string -> Z) : Prop :=
  forall T idx, In (TRef T idx) (occurrences e) ->
  forall j i, nth_error idx j = Some i ->
  exists a, aget T kw = Some a /\ nth_error (arg_dims a) j = Some (sz i).

(** every input of the kernel is bound to a tensor of exactly the format it was generated for *)
Definition formats_match (p : problem) (kw : list (string * argument)) : Prop :=
  forall n f, In (n, f) (input_formats p) -> exists a, aget n kw = Some a /\ arg_matches a f.

Definition consistent (p : problem) (c : call_args) (dims : list Z) : Prop :=
  names_exact (input_names p) c /\
  formats_match p (keywords c) /\
  exists sz, dims_agree (rhs p) (keywords c) sz /\ dims = map sz (target_indexes p).

(* ------------------------------------------------------------------------------------------ *)

Lemma kwget_Some : forall kw n a, aget n kw = Some a -> kwget kw n = a.
Proof. intros. unfold kwget. rewrite H. reflexivity. Qed.

Lemma Forall2_lookup_map : forall sizes target d,
  Forall2 (fun i s => aget i sizes = Some s) target d ->
  d = map (fun i => match aget i sizes with Some s => s | None => 0%Z end) target.
Proof.
  induction 1; simpl; [reflexivity|]. rewrite H. f_equal. assumption.
Qed.

Section WithOracles.
  Variable ord : path -> list string -> list string.
  Variable ordp : string -> list participant -> list participant.
  Hypothesis ord_perm : forall pth l, Permutation (ord pth l) l.
  Hypothesis ordp_perm : forall k l, Permutation (ordp k l) l.

  (** size lookups go through [bound] to the caller's keywords *)
  Lemma size_of_bound : forall params kw pt s,
    (forall n, In n (akeys kw) <-> In n params) ->
    size_of (map (fun n => (n, kwget kw n)) params) pt = Some s <->
    exists a, aget (fst pt) kw = Some a /\ nth_error (arg_dims a) (snd pt) = Some s.
  Proof.
    intros params kw pt s Hn. unfold size_of. rewrite aget_bound.
    destruct (smem (fst pt) params) eqn:E.
    - apply smem_In in E. apply Hn in E. apply aget_key_Some in E. destruct E as [a Ha].
      rewrite (kwget_Some _ _ _ Ha). split.
      + intros H. exists a. auto.
      + intros [a' [H1 H2]]. congruence.
    - apply smem_false in E. split; [discriminate|]. intros [a [H1 _]].
      exfalso. apply E, Hn. eapply aget_Some_key; eauto.
  Qed.

  Theorem validate_ok_implies_consistent : forall p c dims,
    validate ord ordp p c = Ok dims -> consistent p c dims.
  Proof.
    intros p c dims H. unfold validate in H.
    destruct (bind (input_names p) c) as [bound|e] eqn:B; [|discriminate].
    apply bind_Ok in B. destruct B as [NE ->].
    destruct (check_arguments _ (input_formats p)) as [[]|e] eqn:A; [|discriminate].
    unfold input_names in A. pose proof (proj1 (check_arguments_Ok (kwget (keywords c)) (input_formats p)) A) as A2. clear A. rename A2 into A.
    destruct (check_indexes ordp _ _) as [sizes|e] eqn:I; [|discriminate].
    apply output_dimensions_Ok in H.
    destruct NE as [P [ND Hn]].
    split; [repeat split; auto; apply Hn|].
    split.
    - intros n f Hin. specialize (A n f Hin).
      assert (K : In n (akeys (keywords c))).
      { apply Hn. unfold input_names, akeys. change n with (fst (n, f)). apply in_map. exact Hin. }
      apply aget_key_Some in K. destruct K as [a Ha]. exists a. split; [exact Ha|].
      rewrite (kwget_Some _ _ _ Ha) in A. exact A.
    - exists (fun i => match aget i sizes with Some s => s | None => 0%Z end). split.
      + intros T idx Hocc j i Hj.
        assert (O : occ_at (rhs p) i (T, j)) by (exists idx; auto).
        apply (ip_get ord ord_perm _ []) in O.
        assert (K := aget_nil_In_key _ _ _ O).
        apply aget_key_Some in K. destruct K as [ps Hps].
        assert (Eps : aget_nil i (index_participants ord [] (rhs p)) = ps)
          by (unfold aget_nil; rewrite Hps; reflexivity).
        rewrite Eps in O.
        destruct (check_indexes_lookup ordp _ _ _ i ps (ip_NoDup ord ord_perm _ _) I (aget_In _ _ _ Hps))
          as [s [Hs C]].
        apply (check_index_Ok ordp ordp_perm) in C. destruct C as [_ C].
        specialize (C _ O). apply size_of_bound in C; [|exact Hn].
        rewrite Hs. exact C.
      + apply Forall2_lookup_map. exact H.
  Qed.

  Theorem validate_complete : forall p c dims,
    tm_init ord p = Ok tt -> consistent p c dims -> validate ord ordp p c = Ok dims.
  Proof.
    intros p c dims TI [NE [FM [sz [DA ->]]]]. unfold validate.
    assert (B : bind (input_names p) c = Ok (map (fun n => (n, kwget (keywords c) n)) (input_names p)))
      by (apply bind_Ok; auto).
    rewrite B. destruct NE as [P [ND Hn]].
    assert (A : check_arguments (map (fun n => (n, kwget (keywords c) n)) (input_names p)) (input_formats p) = Ok tt).
    { unfold input_names. apply (proj2 (check_arguments_Ok (kwget (keywords c)) (input_formats p))). intros n f Hin.
      destruct (FM n f Hin) as [a [Ha M]]. rewrite (kwget_Some _ _ _ Ha). exact M. }
    rewrite A.
    set (bound := map (fun n => (n, kwget (keywords c) n)) (input_names p)).
    set (ipm := index_participants ord [] (a_expr (p_assignment p))).
    (* every index is accepted with reference size [sz k] *)
    assert (CI : forall k ps, In (k, ps) ipm -> check_index ordp bound k ps = Ok (sz k)).
    { intros k ps Hin. destruct (ip_entry ord ord_perm _ _ _ _ Hin) as [Eps Hne].
      apply (check_index_Ok ordp ordp_perm). split; [exact Hne|].
      intros [T j] Hpt. rewrite Eps in Hpt. apply (ip_get ord ord_perm) in Hpt.
      destruct Hpt as [idx [H1 H2]]. simpl in *.
      apply size_of_bound; [exact Hn|]. simpl. exact (DA T idx H1 j k H2). }
    assert (EX : forall m, (forall k ps, In (k, ps) m -> check_index ordp bound k ps = Ok (sz k)) ->
                 check_indexes ordp bound m = Ok (map (fun kp => (fst kp, sz (fst kp))) m)).
    { induction m as [|[k ps] t IH]; intros Hm; simpl; [reflexivity|].
      rewrite (Hm k ps (or_introl eq_refl)). rewrite IH; [reflexivity|].
      intros k' ps' Hin. apply Hm. right. exact Hin. }
    fold ipm. rewrite (EX ipm CI).
    apply output_dimensions_map. intros i Hi.
    (* the broadcast check of __init__ put every target index among the keys *)
    unfold tm_init in TI.
    destruct (first_not_in _ _) eqn:F; [discriminate|].
    apply first_not_in_None in F. specialize (F i Hi). fold ipm in F.
    assert (G : aget i (map (fun kp : string * list participant => (fst kp, sz (fst kp))) ipm)
                = if smem i (akeys ipm) then Some (sz i) else None).
    { clear. induction ipm as [|[k ps] t IH]; simpl; [reflexivity|].
      destruct (String.eqb i k) eqn:E; simpl.
      - apply String.eqb_eq in E. subst. reflexivity.
      - exact IH. }
    rewrite G. apply smem_In in F. rewrite F. reflexivity.
  Qed.

  (** refusals of a well-bound call are TypeError / ValueError *)
  Definition is_type_or_value_error (e : error) : bool :=
    match e with
    | ETypeErrorBind | ETypeErrorNotTensor _ | EValueErrorOrder _ | EValueErrorModes _
    | EValueErrorOrdering _ | EValueErrorDimensions => true
    | _ => false
    end.
End WithOracles.
