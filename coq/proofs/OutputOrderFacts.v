(** Small facts tying the harness entry points of OutputOrder.v to the model functions. *)
From Coq Require Import List String Bool Arith.
From TV Require Import model.Graphs model.OutputOrder.
Import ListNotations.

Lemma generate_r_spec : forall a fs ks,
  generate_r a fs (to_iteration_graphs a fs) ks = generate a fs ks.
Proof. reflexivity. Qed.

Lemma tensor_method_r_spec : forall a fs,
  tensor_method_r a fs (to_iteration_graphs a fs) = tensor_method a fs.
Proof. reflexivity. Qed.

Lemma first_graph_bad_r_spec : forall a fs k ks,
  first_graph_bad_r a fs (to_iteration_graphs a fs) = first_graph_bad a fs (k :: ks).
Proof.
  intros. unfold first_graph_bad_r, first_graph_bad, best_algorithm.
  destruct (output_modes a fs); [|reflexivity].
  destruct (best_of (to_iteration_graphs a fs)); reflexivity.
Qed.

Lemma generate_filtered_r_spec : forall a fs ks,
  generate_r a fs (filter_good_r a fs (to_iteration_graphs a fs)) ks = generate_filtered a fs ks.
Proof.
  intros. unfold generate_r, generate_filtered, filter_good_r.
  destruct (output_modes a fs); reflexivity.
Qed.
