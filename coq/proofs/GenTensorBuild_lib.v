(** Facts about the Python-library layer model/TensorBuildPy.v and about the building blocks of
    model/TensorBuild.v that the equivalence proofs of proofs/GenTensorBuild_*.v need. *)
From Coq Require Import ZArith List Bool Lia Permutation Sorted.
From TV Require Import spec.PyBase spec.PyLib spec.Storage model.TensorBuild model.TensorBuildPy
  proofs.TensorBuildLemmas proofs.PyLibFacts.
Import ListNotations.
Open Scope Z_scope.

(** * the result monad *)
Lemma rbind_Val {A B} (a : A) (f : A -> R B) : rbind (Val a) f = f a.
Proof. reflexivity. Qed.

Lemma rbind_Val_inv {A B} (r : R A) (f : A -> R B) b :
  rbind r f = Val b -> exists a, r = Val a /\ f a = Val b.
Proof. destruct r; cbn; intros H; try discriminate. eauto. Qed.

(** * dicts with int keys *)
Section Dict.
Context {W : Type}.
Implicit Types d : list (Z * W).

Lemma dget_None k d : PyLib.dict_get Z.eqb k d = None <-> ~ In k (map fst d).
Proof.
  induction d as [|[k' w] d IH]; cbn; [tauto|].
  destruct (Z.eqb_spec k k') as [->|Hne].
  - split; [discriminate|]. intros H; exfalso; apply H; now left.
  - rewrite IH. split; intros H; [intros [E|E]; [congruence|tauto]|tauto].
Qed.

Lemma dget_Some k d w : NoDup (map fst d) -> PyLib.dict_get Z.eqb k d = Some w <-> In (k, w) d.
Proof.
  induction d as [|[k' w'] d IH]; cbn; intros Hnd; [split; [discriminate|tauto]|].
  inversion Hnd as [|? ? Hni Hnd']; subst.
  destruct (Z.eqb_spec k k') as [->|Hne].
  - split.
    + intros E; inversion E; subst; now left.
    + intros [E|E]; [now inversion E|]. exfalso. apply Hni. now apply (in_map fst) in E.
  - rewrite IH by assumption. split; [tauto|]. intros [E|E]; [inversion E; congruence|assumption].
Qed.

Lemma dmem_In k d : dict_mem Z.eqb k d = true <-> In k (map fst d).
Proof.
  unfold dict_mem. destruct (PyLib.dict_get Z.eqb k d) eqn:E.
  - split; [|reflexivity]. intros _. destruct (in_dec Z.eq_dec k (map fst d)) as [H|H]; [assumption|].
    apply dget_None in H. congruence.
  - apply dget_None in E. split; [discriminate|tauto].
Qed.

Lemma dset_fresh k w d : ~ In k (map fst d) -> PyLib.dict_set Z.eqb k w d = d ++ [(k, w)].
Proof.
  induction d as [|[k' w'] d IH]; cbn; intros H; [reflexivity|].
  destruct (Z.eqb_spec k k') as [->|Hne]; [tauto|]. rewrite IH by tauto. reflexivity.
Qed.

Lemma dset_keys_present k w d : In k (map fst d) -> map fst (PyLib.dict_set Z.eqb k w d) = map fst d.
Proof.
  induction d as [|[k' w'] d IH]; cbn; intros H; [tauto|].
  destruct (Z.eqb_spec k k') as [->|Hne]; [reflexivity|]. cbn. rewrite IH; [reflexivity|].
  destruct H; [congruence|assumption].
Qed.

Lemma dset_keys k w d x : In x (map fst (PyLib.dict_set Z.eqb k w d)) <-> x = k \/ In x (map fst d).
Proof.
  destruct (in_dec Z.eq_dec k (map fst d)) as [H|H].
  - rewrite dset_keys_present by assumption. split; [tauto|]. intros [->|E]; assumption.
  - rewrite dset_fresh by assumption. rewrite map_app, in_app_iff. cbn. intuition.
Qed.

Lemma dset_NoDup k w d : NoDup (map fst d) -> NoDup (map fst (PyLib.dict_set Z.eqb k w d)).
Proof.
  intros Hnd. destruct (in_dec Z.eq_dec k (map fst d)) as [H|H].
  - now rewrite dset_keys_present.
  - rewrite dset_fresh, map_app by assumption. cbn.
    apply NoDup_rev in Hnd. rewrite <- (rev_involutive (map fst d ++ [k])). apply NoDup_rev.
    rewrite rev_app_distr. cbn. constructor; [|assumption]. now rewrite <- in_rev.
Qed.

Lemma dset_In k w d k2 w2 :
  NoDup (map fst d) -> In (k2, w2) (PyLib.dict_set Z.eqb k w d) ->
  (k2 = k /\ w2 = w) \/ (k2 <> k /\ In (k2, w2) d).
Proof.
  induction d as [|[k' w'] d IH]; cbn; intros Hnd H.
  - destruct H as [E|[]]. inversion E. now left.
  - inversion Hnd as [|? ? Hni Hnd']; subst.
    destruct (Z.eqb_spec k k') as [->|Hne]; cbn in H.
    + destruct H as [E|E]; [inversion E; now left|]. right. split; [|now right].
      intros ->. apply Hni. now apply (in_map fst) in E.
    + destruct H as [E|E]; [inversion E; subst; right; split; [congruence|now left]|].
      destruct (IH Hnd' E) as [?|[? ?]]; [now left|right; split; [assumption|now right]].
Qed.

Lemma dget_or_In k d dflt : In k (map fst d) -> In (k, dict_get_or Z.eqb k d dflt) d.
Proof.
  induction d as [|[k' w'] d IH]; cbn; intros H; [tauto|]. unfold dict_get_or. cbn.
  destruct (Z.eqb_spec k k') as [->|Hne]; [now left|].
  right. apply IH. destruct H; [congruence|assumption].
Qed.

Lemma dget_or_absent k d dflt : ~ In k (map fst d) -> dict_get_or Z.eqb k d dflt = dflt.
Proof. intros H. apply dget_None in H. unfold dict_get_or. now rewrite H. Qed.
End Dict.

(** * select / heads / leaf_value on appended entries *)
Lemma select_app k a b : select k (a ++ b) = select k a ++ select k b.
Proof.
  induction a as [|[[|h t] v] a IH]; cbn; [reflexivity|assumption|].
  destruct (h =? k); cbn; now rewrite IH.
Qed.

Lemma heads_app a b : heads (a ++ b) = heads a ++ heads b.
Proof. unfold heads. apply flat_map_app. Qed.

Lemma leaf_value_snoc nd c v : leaf_value (nd ++ [(c, v)]) = leaf_value nd + v.
Proof. unfold leaf_value. rewrite map_app, fold_left_app. reflexivity. Qed.

Lemma select_absent k nd : ~ In k (heads nd) -> select k nd = [].
Proof.
  induction nd as [|[[|h t] v] nd IH]; cbn; intros H; [reflexivity|now apply IH|].
  destruct (Z.eqb_spec h k) as [->|Hne]; [exfalso; apply H; now left|]. apply IH. tauto.
Qed.

(** * sorting: [py_sorted] is a sorted permutation; such a list is unique *)
Lemma insert_le_perm k l : Permutation (insert_le k l) (k :: l).
Proof.
  induction l as [|h t IH]; cbn; [reflexivity|].
  destruct (k <=? h); [reflexivity|]. rewrite IH. apply perm_swap.
Qed.

Lemma py_sorted_perm l : Permutation (py_sorted l) l.
Proof.
  induction l as [|h t IH]; cbn; [reflexivity|]. rewrite insert_le_perm. now constructor.
Qed.

Lemma insert_le_sorted k l : StronglySorted Z.le l -> StronglySorted Z.le (insert_le k l).
Proof.
  induction 1 as [|h t Hs IH Hall]; cbn; [repeat constructor|].
  destruct (Z.leb_spec k h).
  - constructor; [now constructor|]. constructor; [assumption|].
    eapply Forall_impl; [|exact Hall]. intros; lia.
  - constructor; [assumption|].
    apply (Permutation_Forall (x := k :: t)); [symmetry; apply insert_le_perm|].
    constructor; [lia|assumption].
Qed.

Lemma py_sorted_sorted l : StronglySorted Z.le (py_sorted l).
Proof. induction l; cbn; [constructor|now apply insert_le_sorted]. Qed.

Lemma sorted_perm_unique a : forall b,
  StronglySorted Z.le a -> StronglySorted Z.le b -> Permutation a b -> a = b.
Proof.
  induction a as [|x a IH]; intros b Ha Hb Hp.
  - apply Permutation_nil in Hp. now subst.
  - destruct b as [|y b]; [symmetry in Hp; now apply Permutation_nil in Hp|].
    inversion Ha as [|? ? Ha' Hxa]; inversion Hb as [|? ? Hb' Hyb]; subst.
    assert (x = y).
    { assert (In x (y :: b)) by (eapply Permutation_in; [exact Hp|now left]).
      assert (In y (x :: a)) by (eapply Permutation_in; [symmetry; exact Hp|now left]).
      rewrite Forall_forall in Hxa, Hyb. cbn in *.
      destruct H as [->|H]; [reflexivity|]. destruct H0 as [->|H0]; [reflexivity|].
      apply Hxa in H0. apply Hyb in H. lia. }
    subst. f_equal. apply IH; try assumption. now apply Permutation_cons_inv in Hp.
Qed.

Lemma si_sorted l : strictly_increasing l = true -> StronglySorted Z.le l.
Proof.
  induction l as [|a l IH]; intros H; [constructor|].
  apply si_cons in H. destruct H as [Hall Hl]. constructor; [now apply IH|].
  apply Forall_forall. intros x Hx. specialize (Hall x Hx). lia.
Qed.

(** [sorted(node.keys())] of a dict whose (duplicate-free) keys are the heads of [nd] is [keys nd] *)
Lemma py_sorted_keys ks nd :
  NoDup ks -> (forall k, In k ks <-> In k (heads nd)) -> py_sorted ks = keys nd.
Proof.
  intros Hnd Hk. apply sorted_perm_unique.
  - apply py_sorted_sorted.
  - apply si_sorted, keys_si.
  - rewrite py_sorted_perm. apply NoDup_Permutation; [assumption|apply keys_NoDup|].
    intros x. rewrite Hk. symmetry. apply keys_In.
Qed.

(** * lists: getitem / setitem *)
Lemma r_getitem_nat {A} (xs : list A) (n : nat) : r_getitem xs (Z.of_nat n) = of_opt (nth_error xs n).
Proof. unfold r_getitem. now rewrite PyLibFacts.py_getitem_of_nat. Qed.

Lemma nth_error_mid {A} (p : list A) x q : nth_error (p ++ x :: q) (length p) = Some x.
Proof. induction p; cbn; auto. Qed.

Lemma set_nth_mid {A} (p : list A) x y q : set_nth (p ++ x :: q) (length p) y = p ++ y :: q.
Proof. induction p; cbn; [reflexivity|]. now f_equal. Qed.

Lemma r_getitem_mid {A} (p : list A) x q : r_getitem (p ++ x :: q) (Z.of_nat (length p)) = Val x.
Proof. rewrite r_getitem_nat, nth_error_mid. reflexivity. Qed.

Lemma r_setitem_mid {A} (p : list A) x y q :
  r_setitem (p ++ x :: q) (Z.of_nat (length p)) y = Val (p ++ y :: q).
Proof.
  unfold r_setitem. rewrite app_length. cbn [length].
  replace ((0 <=? Z.of_nat (length p)) && (Z.of_nat (length p) <? Z.of_nat (length p + S (length q)))) with true
    by (symmetry; apply andb_true_iff; split; [apply Z.leb_le|apply Z.ltb_lt]; lia).
  rewrite Nat2Z.id, set_nth_mid. reflexivity.
Qed.

Lemma r_getitem_last {A} (l : list A) x : r_getitem (l ++ [x]) (-1) = Val x.
Proof.
  unfold r_getitem, py_getitem. cbn [Z.leb Z.compare]. rewrite app_length. cbn [length].
  replace (- Z.of_nat (length l + 1) <=? -1) with true by (symmetry; apply Z.leb_le; lia).
  replace (Z.to_nat (Z.of_nat (length l + 1) + -1)) with (length l) by lia.
  rewrite nth_error_mid. reflexivity.
Qed.
