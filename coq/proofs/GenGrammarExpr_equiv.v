(** TIE "grammar", expression part -- the parsita grammar [TensorExpressionParsers] regenerated from
    expression/_parser.py (gen/GrammarGen.v [expression_grammar], a term of the combinator embedding
    model/Parsita.v), run by the scannerless interpreter, computes exactly what the hand model
    model/Parser.v computes by lexing first and parsing the tokens by recursive descent.

    The only refinement: the source rejects a float spelling whose float() is not finite
    ([floating_point] fails, [integer] then reads the integer part), which model/Parser.v does not
    model; [lexF] is the model's lexer with exactly this refinement ([lex_number_f]); it IS the
    model's lexer when every float token is finite ([lexF_all_finite]). *)

From Coq Require Import String Ascii List NArith ZArith Bool Arith Lia.
From TV Require Import spec.Num model.Parser model.Parsita proofs.ParsitaFacts.
From TV Require gen.GrammarGen gen.Deparse proofs.ParserLex proofs.ParserFuel proofs.GenGrammarFormat_equiv.
From TV Require spec.Grammar proofs.ParserGrammar.
From TV Require Import proofs.GenGrammarRegex.
Import ListNotations.

Module GG := TV.gen.GrammarGen.
Module GD := TV.gen.Deparse.
Notation R := (Parsita.result GG.uval).
Notation V := (Parsita.val GG.uval).
Notation len := List.length.

Section Expr.
Variable fl : dec -> F.
Variable post : GD.ex_expr -> GD.ex_expr -> option string.
Notation EG := (GG.expression_grammar fl post).

Definition fin (d : dec) : bool := BinarySingleNaN.is_finite (fl d).

Fixpoint back (e : expr) : GD.ex_expr :=
  match e with
  | EInt n => GD.ExInteger (Z.of_N n)
  | EFloat d => GD.ExFloat (fl d)
  | ETensor x idx => GD.ExTensor x idx
  | EAdd a b => GD.ExAdd (back a) (back b)
  | ESub a b => GD.ExSubtract (back a) (back b)
  | EMul a b => GD.ExMultiply (back a) (back b)
  end.

Definition VE (e : expr) : V := VU (GG.UExpr (back e)).

(* ------------------------------------------------------------------------------------------ *)
(** * The lexer with the finiteness refinement, as a relation *)

Definition lex_number_f (s : list ascii) : token * list ascii :=
  match lex_number s with
  | (TFloat d, r) =>
      if fin d then (TFloat d, r)
      else (TInt (digits_val (fst (take_while is_digit s))), snd (take_while is_digit s))
  | x => x
  end.

Inductive LexR0 : list ascii -> list token -> Prop :=
  | LR_nil : LexR0 [] []
  | LR_space : forall r ts, LexR0 r ts -> LexR0 (" "%char :: r) ts
  | LR_name : forall c r ts, Ascii.eqb c " " = false -> is_alpha c = true ->
      LexR0 (snd (take_while is_alnum (c :: r))) ts ->
      LexR0 (c :: r) (TName (string_of_list_ascii (fst (take_while is_alnum (c :: r)))) :: ts)
  | LR_num : forall c r ts, Ascii.eqb c " " = false -> is_alpha c = false -> is_digit c = true ->
      LexR0 (snd (lex_number_f (c :: r))) ts ->
      LexR0 (c :: r) (fst (lex_number_f (c :: r)) :: ts)
  | LR_punct : forall c r ts, Ascii.eqb c " " = false -> is_alpha c = false -> is_digit c = false ->
      LexR0 r ts -> LexR0 (c :: r) (punct c :: ts).

(** positions the parser can be at: after the trailing blanks of a terminal (or after [drop]) *)
Definition nosp (s : list ascii) : Prop :=
  match s with c :: _ => Ascii.eqb c " " = false | [] => True end.
Definition LexR (s : list ascii) (ts : list token) : Prop := LexR0 s ts /\ nosp s.
Opaque LexR.

(** what a terminal parser does at a position whose token view is [ts] *)
Definition tok_ok (s : list ascii) (ts : list token) (r : R) (expect : token -> option V) : Prop :=
  match ts with
  | t :: ts' =>
      match expect t with
      | Some v => exists s', r = ROk v s' /\ LexR s' ts' /\ len s' < len s
      | None => r = RFail
      end
  | [] => r = RFail
  end.

Definition expect_tok (tk : token) (v : V) (t : token) : option V :=
  if token_eq_dec t tk then Some v else None.
Definition expect_name (t : token) : option V :=
  match t with TName x => Some (VStr x) | _ => None end.
Definition expect_number (t : token) : option V :=
  match t with TInt k => Some (VE (EInt k)) | TFloat d => Some (VE (EFloat d)) | _ => None end.

(* ------------------------------------------------------------------------------------------ *)
(** * The productions above the terminals *)

Section Structure.
  Hypothesis H_lit : forall (c : string) (tk : token), In (c, tk)
      [("(", TLP); (")", TRP); (",", TComma); ("=", TEq); ("+", TPlus); ("-", TMinus); ("*", TStar)]%string ->
    forall n s ts, LexR s ts -> tok_ok s ts (run GG.uval (S n) EG (PLit c) s) (expect_tok tk (VStr c)).
  Hypothesis H_name : forall n s ts, LexR s ts ->
    tok_ok s ts (run GG.uval (S (S n)) EG (PRef "name") s) expect_name.
  Hypothesis H_number : forall n s ts, LexR s ts ->
    tok_ok s ts (run GG.uval (S (S (S n))) EG (PRef "number") s) expect_number.
  (** Assignment.__post_init__ is the model's validate *)
  Definition vexn (v : vres) : option string :=
    match v with
    | VOk => None
    | VMutating => Some "MutatingAssignmentError"%string
    | VInconsistent => Some "InconsistentDimensionsError"%string
    | VNameConflict => Some "NameConflictError"%string
    end.
  Hypothesis H_post : forall x idx e, post (GD.ExTensor x idx) (back e) = vexn (validate (Assign x idx e)).

  Ltac lit_in := cbn [In]; tauto.
  Ltac done3 := repeat match goal with |- _ /\ _ => split end; try reflexivity; try assumption; try lia; auto.

  (** repsep(name, ","): the loop after the first name *)
  Lemma S_names_tail : forall n k s ts, LexR s ts -> len s < k ->
    exists s',
      sep_loop GG.uval (run GG.uval (S (S n)) EG (PRef "name")) (run GG.uval (S (S n)) EG (PLit ",")) k s
      = ROk (VList (map VStr (fst (p_names_tail ts)))) s'
      /\ LexR s' (snd (p_names_tail ts)) /\ len s' <= len s.
  Proof.
    intros n. induction k as [|k IH]; intros s ts HL Lk; [lia|].
    cbn [sep_loop].
    pose proof (H_lit ","%string TComma ltac:(lit_in) (S n) s ts HL) as T. unfold tok_ok in T.
    destruct ts as [|t ts1].
    { rewrite T. exists s. cbn. auto. }
    unfold expect_tok in T. destruct (token_eq_dec t TComma) as [->|NE].
    2:{ rewrite T. exists s. destruct t; try congruence; cbn; auto. }
    destruct T as (s1 & -> & HL1 & L1).
    pose proof (H_name n s1 ts1 HL1) as T2. unfold tok_ok in T2.
    destruct ts1 as [|t2 ts2].
    { rewrite T2. exists s. cbn. auto. }
    destruct t2; cbn [expect_name] in T2; try (rewrite T2; exists s; cbn; auto; fail).
    destruct T2 as (s2 & -> & HL2 & L2).
    assert (E : (len s2 <? len s) = true) by (apply Nat.ltb_lt; lia). rewrite E.
    destruct (IH s2 ts2 HL2 ltac:(lia)) as (s3 & -> & HL3 & L3).
    exists s3. cbn [p_names_tail]. destruct (p_names_tail ts2) as [xs r']. cbn [fst snd map] in *.
    done3.
  Qed.

  (** repsep(name, ",") > tuple *)
  Lemma S_names : forall n s ts, LexR s ts ->
    exists s',
      run GG.uval (S (S n)) EG (PMap (PRepSep (PRef "name") (PLit ",")) py_tuple) s
      = ROk (VList (map VStr (fst (p_names ts)))) s'
      /\ LexR s' (snd (p_names ts)) /\ len s' <= len s.
  Proof.
    intros n s ts HL. rewrite run_map. unfold sem_map. rewrite run_repsep. unfold sem_repsep, sem_rep1sep.
    pose proof (H_name n s ts HL) as T. unfold tok_ok in T.
    destruct ts as [|t ts1].
    { rewrite T. exists s. cbn. auto. }
    destruct t; cbn [expect_name] in T; try (rewrite T; exists s; cbn; auto; fail).
    destruct T as (s1 & -> & HL1 & L1).
    destruct (S_names_tail n (S (len s1)) s1 ts1 HL1 ltac:(lia)) as (s2 & -> & HL2 & L2).
    exists s2. cbn [p_names]. destruct (p_names_tail ts1) as [xs r']. cbn [fst snd map py_tuple] in *.
    done3.
  Qed.

  (** tensor = name & "(" >> (repsep(name, ",") > tuple) << ")" > splat(Tensor) *)
  Lemma S_tensor : forall n s ts, LexR s ts ->
    match p_tensor ts with
    | Ok ((x, idx), ts') =>
        exists s', run GG.uval (S (S (S n))) EG (PRef "tensor") s = ROk (VE (ETensor x idx)) s'
                   /\ LexR s' ts' /\ len s' < len s
    | _ => run GG.uval (S (S (S n))) EG (PRef "tensor") s = RFail
    end.
  Proof.
    intros n s ts HL. rewrite run_ref.
    cbn [lookup g_prods GG.expression_grammar String.eqb Ascii.eqb Bool.eqb].
    rewrite run_map. unfold sem_map. rewrite run_seq. cbn [map sem_seq].
    pose proof (H_name n s ts HL) as T. unfold tok_ok in T. unfold p_tensor.
    destruct ts as [|t ts1]; [rewrite T; reflexivity|].
    destruct t; cbn [expect_name] in T; try (rewrite T; reflexivity).
    destruct T as (s1 & -> & HL1 & L1).
    rewrite run_discard_r. unfold sem_discard_r. rewrite run_discard_l. unfold sem_discard_l.
    pose proof (H_lit "("%string TLP ltac:(lit_in) (S n) s1 ts1 HL1) as T. unfold tok_ok, expect_tok in T.
    destruct ts1 as [|t ts2]; [rewrite T; reflexivity|].
    destruct (token_eq_dec t TLP) as [->|NE].
    2:{ rewrite T. destruct t; try congruence; reflexivity. }
    destruct T as (s2 & -> & HL2 & L2).
    destruct (S_names n s2 ts2 HL2) as (s3 & -> & HL3 & L3).
    destruct (p_names ts2) as [idx ts3]. cbn [fst snd] in *.
    pose proof (H_lit ")"%string TRP ltac:(lit_in) (S n) s3 ts3 HL3) as T. unfold tok_ok, expect_tok in T.
    destruct ts3 as [|t ts4]; [rewrite T; reflexivity|].
    destruct (token_eq_dec t TRP) as [->|NE].
    2:{ rewrite T. destruct t; try congruence; reflexivity. }
    destruct T as (s4 & -> & HL4 & L4).
    exists s4. done3.
    cbn [splat2 GG.mk_Tensor GG.as_str GG.as_list].
    assert (O : GG.omapv GG.as_str (map VStr idx) = Some idx).
    { clear. induction idx as [|a t IH]; cbn; [reflexivity|]. rewrite IH. reflexivity. }
    rewrite O. reflexivity.
  Qed.

  (* ---------------------------------------------------------------------------------------- *)
  (** ** semantic actions *)

  Definition opV (p : bool * expr) : V :=
    VList [VStr (if fst p then "+"%string else "-"%string); VE (snd p)].
  Definition fold_ops (acc : expr) (l : list (bool * expr)) : expr :=
    fold_left (fun a (p : bool * expr) => if fst p then EAdd a (snd p) else ESub a (snd p)) l acc.

  Lemma A_reduce : forall l e,
    alift1 (py_reduce_v GG.mk_Multiply) (AOk (VList (VE e :: map VE l))) = AOk (VE (fold_left EMul l e)).
  Proof.
    intros l e. cbn [alift1 py_reduce_v]. revert e.
    induction l as [|x t IH]; intros e; cbn [map afold fold_left]; [reflexivity|].
    change (GG.mk_Multiply (VE e) (VE x)) with (@AOk GG.uval (VE (EMul e x))). apply IH.
  Qed.

  Lemma A_make_expression : forall l e,
    GG.py_make_expression (VE e) (VList (map opV l)) = AOk (VE (fold_ops e l)).
  Proof.
    intros l e. unfold GG.py_make_expression, GG.abind. cbn [alift1 afor].
    match goal with |- context [afold ?b _ _] => set (body := b) end.
    assert (F : forall l e, afold body (map opV l) (VE e) = AOk (VE (fold_ops e l))).
    { clear. induction l as [|[b x] t IH]; intros e; [reflexivity|].
      cbn [map afold]. unfold body at 1. unfold opV at 1. cbn [unpack2 fst snd].
      destruct b.
      - change (is_str (VStr "+"%string : V) "+"%string) with true. cbv iota.
        change (alift2 GG.mk_Add (AOk (VE e)) (AOk (VE x))) with (@AOk GG.uval (VE (EAdd e x))).
        cbn [alift1]. apply IH.
      - change (is_str (VStr "-"%string : V) "+"%string) with false.
        change (is_str (VStr "-"%string : V) "-"%string) with true. cbv iota.
        change (alift2 GG.mk_Subtract (AOk (VE e)) (AOk (VE x))) with (@AOk GG.uval (VE (ESub e x))).
        cbn [alift1]. apply IH. }
    rewrite F. reflexivity.
  Qed.

  (* ---------------------------------------------------------------------------------------- *)
  (** ** factor, term, expression: by induction on the fuel of the hand model *)

  Definition FactorSpec (n m : nat) : Prop := forall s ts, LexR s ts ->
    match p_factor n ts with
    | Ok (e, ts') => exists s', run GG.uval m EG (PRef "factor") s = ROk (VE e) s' /\ LexR s' ts' /\ len s' < len s
    | NoParse => run GG.uval m EG (PRef "factor") s = RFail
    | OutOfFuel => True
    end.

  Definition TermLoopSpec (n m : nat) : Prop := forall s ts acc k, LexR s ts -> len s < k ->
    match term_loop n acc ts with
    | Ok (e, ts') =>
        exists l s', sep_loop GG.uval (run GG.uval m EG (PRef "factor")) (run GG.uval m EG (PLit "*")) k s
                     = ROk (VList (map VE l)) s'
                     /\ LexR s' ts' /\ len s' <= len s /\ fold_left EMul l acc = e
    | _ => True
    end.

  Definition TermSpec (n m : nat) : Prop := forall s ts, LexR s ts ->
    match p_term n ts with
    | Ok (e, ts') => exists s', run GG.uval m EG (PRef "term") s = ROk (VE e) s' /\ LexR s' ts' /\ len s' < len s
    | NoParse => run GG.uval m EG (PRef "term") s = RFail
    | OutOfFuel => True
    end.

  Notation op_term := (PSeq [PAlt [PLit "+"; PLit "-"]; PRef "term"]).

  Definition ExprLoopSpec (n m : nat) : Prop := forall s ts acc k, LexR s ts -> len s < k ->
    match expr_loop n acc ts with
    | Ok (e, ts') =>
        exists l s', rep_loop GG.uval (run GG.uval m EG op_term) k s = ROk (VList (map opV l)) s'
                     /\ LexR s' ts' /\ len s' <= len s /\ fold_ops acc l = e
    | _ => True
    end.

  Definition ExprSpec (n m : nat) : Prop := forall s ts, LexR s ts ->
    match p_expr n ts with
    | Ok (e, ts') => exists s', run GG.uval m EG (PRef "expression") s = ROk (VE e) s' /\ LexR s' ts' /\ len s' < len s
    | NoParse => run GG.uval m EG (PRef "expression") s = RFail
    | OutOfFuel => True
    end.

  Lemma loops_never_noparse : forall n,
    (forall acc ts, term_loop n acc ts <> NoParse) /\ (forall acc ts, expr_loop n acc ts <> NoParse).
  Proof.
    induction n as [|n [IHt IHe]]; [split; intros; discriminate|].
    split; intros acc ts; cbn [term_loop expr_loop].
    - destruct ts as [|[] r]; try discriminate.
      destruct (p_factor n r) as [[f r1]| |]; try discriminate. apply IHt.
    - destruct ts as [|[] r]; try discriminate; unfold bind;
        (destruct (p_factor n r) as [[f r1]| |]; [|discriminate|discriminate]);
        pose proof (IHt f r1) as Ht;
        (destruct (term_loop n f r1) as [[t r2]| |]; [apply IHe|contradiction|discriminate]).
  Qed.

  Lemma term_spec : forall n m, FactorSpec n (S m) -> TermLoopSpec n (S m) -> TermSpec n (S (S m)).
  Proof.
    intros n m HF HT s ts HL. unfold p_term, bind.
    rewrite run_ref. cbn [lookup g_prods GG.expression_grammar String.eqb Ascii.eqb Bool.eqb].
    rewrite run_map. unfold sem_map. rewrite run_rep1sep. unfold sem_rep1sep.
    specialize (HF s ts HL). destruct (p_factor n ts) as [[e ts1]| |]; [|rewrite HF; reflexivity|exact I].
    destruct HF as (s1 & -> & HL1 & L1).
    specialize (HT s1 ts1 e (S (len s1)) HL1 ltac:(lia)).
    pose proof (proj1 (loops_never_noparse n) e ts1) as NN.
    destruct (term_loop n e ts1) as [[e2 ts2]| |]; try exact I; try congruence.
    destruct HT as (l & s2 & -> & HL2 & L2 & <-).
    exists s2. rewrite A_reduce. done3.
  Qed.

  Lemma expr_spec : forall n m, TermSpec n (S m) -> ExprLoopSpec n (S m) -> ExprSpec n (S (S m)).
  Proof.
    intros n m HT HE s ts HL. unfold p_expr, bind.
    rewrite run_ref. cbn [lookup g_prods GG.expression_grammar String.eqb Ascii.eqb Bool.eqb].
    rewrite run_map. unfold sem_map. rewrite run_seq. cbn [map sem_seq].
    specialize (HT s ts HL). destruct (p_term n ts) as [[e ts1]| |]; [|rewrite HT; reflexivity|exact I].
    destruct HT as (s1 & -> & HL1 & L1).
    rewrite run_rep. unfold sem_rep.
    specialize (HE s1 ts1 e (S (len s1)) HL1 ltac:(lia)).
    pose proof (proj2 (loops_never_noparse n) e ts1) as NN.
    destruct (expr_loop n e ts1) as [[e2 ts2]| |]; try exact I; try congruence.
    destruct HE as (l & s2 & -> & HL2 & L2 & <-).
    exists s2. cbn [splat2]. rewrite A_make_expression. done3.
  Qed.

  Lemma S_rec : forall n m, 4 * n + 4 <= m ->
    FactorSpec n m /\ TermLoopSpec n m /\ (4 * n + 5 <= m -> ExprLoopSpec n m).
  Proof.
    induction n as [|n IH]; intros m Hm.
    { repeat split; repeat intro; exact I. }
    do 8 (destruct m as [|m]; [lia|]).
    assert (IHa : forall m', 4 * n + 4 <= m' -> FactorSpec n m') by (intros; apply IH; assumption).
    assert (IHb : forall m', 4 * n + 4 <= m' -> TermLoopSpec n m') by (intros; apply IH; assumption).
    assert (IHc : forall m', 4 * n + 5 <= m' -> ExprLoopSpec n m') by (intros m' Q; apply (IH m'); lia).
    assert (IHt : forall m', 4 * n + 4 <= S m' -> TermSpec n (S (S m'))).
    { intros m' Q. apply term_spec; [apply IHa|apply IHb]; lia. }
    assert (IHe : forall m', 4 * n + 4 <= S m' -> ExprSpec n (S (S (S m')))).
    { intros m' Q. apply expr_spec; [apply IHt; lia|apply IHc; lia]. }
    clear IH. split; [|split].
    - (* factor *)
      intros s ts HL.
      rewrite run_ref. cbn [lookup g_prods GG.expression_grammar String.eqb Ascii.eqb Bool.eqb].
      rewrite run_alt. cbn [map]. unfold sem_alt. cbn [sem_alt_from].
      pose proof (S_tensor (S (S (S (S m)))) s ts HL) as Tn.
      pose proof (H_number (S (S (S (S m)))) s ts HL) as Nu. unfold tok_ok in Nu.
      set (par := run GG.uval (S (S (S (S (S (S (S m))))))) EG (PRef "parentheses") s) in *.
      assert (Par :
        match ts with
        | TLP :: r =>
            match p_expr n r with
            | Ok (e, ts1) =>
                match ts1 with
                | TRP :: ts2 => exists s', par = ROk (VE e) s' /\ LexR s' ts2 /\ len s' < len s
                | _ => par = RFail
                end
            | NoParse => par = RFail
            | OutOfFuel => True
            end
        | _ => par = RFail
        end).
      { subst par. rewrite run_ref. cbn [lookup g_prods GG.expression_grammar String.eqb Ascii.eqb Bool.eqb].
        rewrite run_discard_r. unfold sem_discard_r. rewrite run_discard_l. unfold sem_discard_l.
        pose proof (H_lit "("%string TLP ltac:(lit_in) (S (S (S (S (S m))))) s ts HL) as T. unfold tok_ok, expect_tok in T.
        destruct ts as [|t r]; [rewrite T; reflexivity|].
        destruct (token_eq_dec t TLP) as [->|NE].
        2:{ rewrite T. destruct t; try congruence; reflexivity. }
        destruct T as (s1 & -> & HL1 & L1).
        pose proof (IHe (S (S (S m))) ltac:(lia) s1 r HL1) as E.
        destruct (p_expr n r) as [[e ts1]| |]; [|rewrite E; reflexivity|exact I].
        destruct E as (s2 & -> & HL2 & L2).
        pose proof (H_lit ")"%string TRP ltac:(lit_in) (S (S (S (S (S m))))) s2 ts1 HL2) as T. unfold tok_ok, expect_tok in T.
        destruct ts1 as [|t ts2]; [rewrite T; reflexivity|].
        destruct (token_eq_dec t TRP) as [->|NE].
        2:{ rewrite T. destruct t; try congruence; reflexivity. }
        destruct T as (s3 & -> & HL3 & L3). exists s3. done3. }
      destruct ts as [|t r].
      { cbn [p_factor]. cbn [p_tensor] in Tn. rewrite Tn, Nu, Par. reflexivity. }
      destruct t; cbn [p_factor]; cbn [expect_number] in Nu;
        try (cbn [p_tensor] in Tn; rewrite Tn, Nu, Par; reflexivity).
      + (* a name: only tensor can succeed *)
        rewrite Nu, Par. destruct (p_tensor (TName s0 :: r)) as [[[x idx] ts']| |].
        * destruct Tn as (s' & -> & HL' & L'). exists s'. done3.
        * rewrite Tn. reflexivity.
        * rewrite Tn. reflexivity.
      + (* an integer *)
        cbn [p_tensor] in Tn. rewrite Tn, Par. destruct Nu as (s' & -> & HL' & L'). exists s'. done3.
      + (* a float *)
        cbn [p_tensor] in Tn. rewrite Tn, Par. destruct Nu as (s' & -> & HL' & L'). exists s'. done3.
      + (* a parenthesis *)
        cbn [p_tensor] in Tn. rewrite Tn, Nu.
        change (bind (bind (bind (p_factor n r) (term_loop n)) (expr_loop n)) expect_rp)
          with (bind (p_expr n r) expect_rp).
        unfold bind. destruct (p_expr n r) as [[e ts1]| |]; [|rewrite Par; reflexivity|exact I].
        unfold expect_rp. destruct ts1 as [|t ts2]; [rewrite Par; reflexivity|].
        destruct t; try (rewrite Par; reflexivity).
        destruct Par as (s' & -> & HL' & L'). exists s'. done3.
    - (* the loop of term *)
      intros s ts acc k HL Lk. destruct k as [|k]; [lia|].
      cbn [term_loop sep_loop].
      pose proof (H_lit "*"%string TStar ltac:(lit_in) (S (S (S (S (S (S (S m))))))) s ts HL) as T.
      unfold tok_ok, expect_tok in T.
      destruct ts as [|t r]; [rewrite T; exists [], s; cbn; auto|].
      destruct (token_eq_dec t TStar) as [->|NE].
      2:{ rewrite T. destruct t; try congruence; exists [], s; cbn; auto. }
      destruct T as (s1 & -> & HL1 & L1).
      pose proof (IHa (S (S (S (S (S (S (S (S m)))))))) ltac:(lia) s1 r HL1) as Fa.
      destruct (p_factor n r) as [[f r1]| |]; [|rewrite Fa; exists [], s; cbn; auto|exact I].
      destruct Fa as (s2 & -> & HL2 & L2).
      assert (E : (len s2 <? len s) = true) by (apply Nat.ltb_lt; lia). rewrite E.
      pose proof (IHb (S (S (S (S (S (S (S (S m)))))))) ltac:(lia) s2 r1 (EMul acc f) k HL2 ltac:(lia)) as Lo.
      destruct (term_loop n (EMul acc f) r1) as [[e ts']| |]; try exact I.
      destruct Lo as (l & s3 & -> & HL3 & L3 & <-).
      exists (f :: l), s3. cbn [map fold_left]. done3.
    - (* the loop of expression *)
      intros Hm' s ts acc k HL Lk. destruct k as [|k]; [lia|].
      cbn [expr_loop rep_loop].
      rewrite run_seq. cbn [map sem_seq]. rewrite run_alt. cbn [map]. unfold sem_alt. cbn [sem_alt_from].
      pose proof (H_lit "+"%string TPlus ltac:(lit_in) (S (S (S (S (S (S (S m))))))) s ts HL) as Tp.
      pose proof (H_lit "-"%string TMinus ltac:(lit_in) (S (S (S (S (S (S (S m))))))) s ts HL) as Tm.
      unfold tok_ok, expect_tok in Tp, Tm.
      destruct ts as [|t r]; [rewrite Tp, Tm; exists [], s; cbn; auto|].
      assert (TS : TermSpec n (S (S (S (S (S (S (S (S m))))))))) by (apply IHt; lia).
      assert (LS : ExprLoopSpec n (S (S (S (S (S (S (S (S m))))))))) by (apply IHc; lia).
      destruct (token_eq_dec t TPlus) as [->|NEp]; [|destruct (token_eq_dec t TMinus) as [->|NEm]].
      + destruct (token_eq_dec TPlus TMinus) as [Q|_]; [discriminate|].
        destruct Tp as (s1 & -> & HL1 & L1). rewrite Tm.
        change (bind (p_factor n r) (term_loop n)) with (p_term n r).
        specialize (TS s1 r HL1).
        destruct (p_term n r) as [[t r1]| |]; [|rewrite TS; exists [], s; cbn; auto|exact I].
        destruct TS as (s2 & -> & HL2 & L2).
        assert (E : (len s2 <? len s) = true) by (apply Nat.ltb_lt; lia). rewrite E.
        specialize (LS s2 r1 (EAdd acc t) k HL2 ltac:(lia)).
        destruct (expr_loop n (EAdd acc t) r1) as [[e ts']| |]; try exact I.
        destruct LS as (l & s3 & -> & HL3 & L3 & <-).
        exists ((true, t) :: l), s3. done3.
      + destruct (token_eq_dec TMinus TPlus) as [Q|_]; [discriminate|].
        destruct Tm as (s1 & -> & HL1 & L1). rewrite Tp.
        change (bind (p_factor n r) (term_loop n)) with (p_term n r).
        specialize (TS s1 r HL1).
        destruct (p_term n r) as [[t r1]| |]; [|rewrite TS; exists [], s; cbn; auto|exact I].
        destruct TS as (s2 & -> & HL2 & L2).
        assert (E : (len s2 <? len s) = true) by (apply Nat.ltb_lt; lia). rewrite E.
        specialize (LS s2 r1 (ESub acc t) k HL2 ltac:(lia)).
        destruct (expr_loop n (ESub acc t) r1) as [[e ts']| |]; try exact I.
        destruct LS as (l & s3 & -> & HL3 & L3 & <-).
        exists ((false, t) :: l), s3. done3.
      + rewrite Tp, Tm. destruct t; try congruence; exists [], s; cbn; auto.
  Qed.

  (** assignment = tensor & "=" >> expression > splat(Assignment) *)
  Definition vname (v : vres) : string :=
    match v with
    | VOk => ""
    | VMutating => "MutatingAssignmentError"
    | VInconsistent => "InconsistentDimensionsError"
    | VNameConflict => "NameConflictError"
    end.

  Lemma S_assignment : forall n m s ts, 4 * n + 4 <= m -> LexR s ts ->
    match p_tensor ts with
    | Ok ((x, idx), TEq :: r) =>
        match p_expr n r with
        | Ok (e, r') =>
            match validate (Assign x idx e) with
            | VOk => exists s', run GG.uval (S (S (S (S m)))) EG (PRef "assignment") s
                                = ROk (VU (GG.UAsg (GD.ExAssignment (GD.ExTensor x idx) (back e)))) s'
                                /\ LexR s' r'
            | v => run GG.uval (S (S (S (S m)))) EG (PRef "assignment") s = RExn (vname v)
            end
        | NoParse => run GG.uval (S (S (S (S m)))) EG (PRef "assignment") s = RFail
        | OutOfFuel => True
        end
    | _ => run GG.uval (S (S (S (S m)))) EG (PRef "assignment") s = RFail
    end.
  Proof.
    intros n m s ts Hm HL.
    rewrite run_ref. cbn [lookup g_prods GG.expression_grammar String.eqb Ascii.eqb Bool.eqb].
    rewrite run_map. unfold sem_map. rewrite run_seq. cbn [map sem_seq].
    pose proof (S_tensor m s ts HL) as Tn.
    destruct (p_tensor ts) as [[[x idx] ts1]| |]; [|rewrite Tn; reflexivity|rewrite Tn; reflexivity].
    destruct Tn as (s1 & -> & HL1 & L1).
    rewrite run_discard_l. unfold sem_discard_l.
    pose proof (H_lit "="%string TEq ltac:(lit_in) (S (S m)) s1 ts1 HL1) as T. unfold tok_ok, expect_tok in T.
    destruct ts1 as [|t r]; [rewrite T; reflexivity|].
    destruct (token_eq_dec t TEq) as [->|NE].
    2:{ rewrite T. destruct t; try congruence; reflexivity. }
    destruct T as (s2 & -> & HL2 & L2).
    assert (ES : ExprSpec n (S (S (S m)))).
    { apply expr_spec; [apply term_spec|]; apply S_rec; lia. }
    specialize (ES s2 r HL2).
    destruct (p_expr n r) as [[e r']| |]; [|rewrite ES; reflexivity|exact I].
    destruct ES as (s3 & -> & HL3 & L3).
    assert (MK : GG.mk_Assignment post (VE (ETensor x idx)) (VE e)
                 = match validate (Assign x idx e) with
                   | VOk => AOk (VU (GG.UAsg (GD.ExAssignment (GD.ExTensor x idx) (back e))))
                   | v => AExn (vname v)
                   end).
    { unfold GG.mk_Assignment, VE. cbn [GG.as_tensor GG.as_expr back GD.is_ExTensor].
      rewrite H_post. destruct (validate (Assign x idx e)); reflexivity. }
    cbn [splat2]. rewrite MK.
    destruct (validate (Assign x idx e)); cbn [vname]; try reflexivity.
    exists s3. done3.
  Qed.
End Structure.

(* ------------------------------------------------------------------------------------------ *)
(** * The terminals *)

Transparent LexR.

Definition sp (c : ascii) : bool := Ascii.eqb c " ".
Definition drop (s : list ascii) : list ascii := snd (take_while sp s).

Lemma skip_EG : forall s, skip_ws (g_ws EG) s = Some (drop s).
Proof.
  intros s. cbn [g_ws GG.expression_grammar skip_ws]. rewrite re_match_star_set. unfold drop.
  rewrite (take_while_ext _ sp s); [reflexivity|].
  intros c. unfold in_set. cbn [existsb]. rewrite TV.proofs.GenGrammarFormat_equiv.range_single. apply orb_false_r.
Qed.

Lemma nosp_drop : forall s, nosp s -> drop s = s.
Proof. intros [|c r] H; [reflexivity|]. unfold drop, sp. simpl in *. rewrite H. reflexivity. Qed.

Lemma drop_nosp : forall s, nosp (drop s).
Proof.
  induction s as [|c r IH]; [exact I|]. unfold drop in *. simpl. destruct (sp c) eqn:E.
  - destruct (take_while sp r). exact IH.
  - exact E.
Qed.

Lemma drop_len : forall s, len (drop s) <= len s.
Proof. intros. apply take_while_length. Qed.

Lemma LexR0_drop : forall s ts, LexR0 s ts -> LexR0 (drop s) ts.
Proof.
  intros s ts H. induction H.
  - exact LR_nil.
  - unfold drop in *. simpl. destruct (take_while sp r). exact IHLexR0.
  - rewrite nosp_drop by assumption. apply LR_name; assumption.
  - rewrite nosp_drop by assumption. apply LR_num; assumption.
  - rewrite nosp_drop by assumption. apply LR_punct; assumption.
Qed.

Lemma LexR_drop : forall s ts, LexR0 s ts -> LexR (drop s) ts.
Proof. intros. split; [apply LexR0_drop; assumption | apply drop_nosp]. Qed.

Lemma punct_not_name : forall c x, punct c <> TName x.
Proof. intros c x. unfold punct. repeat match goal with |- context [if ?b then _ else _] => destruct b end; discriminate. Qed.
Lemma punct_not_int : forall c x, punct c <> TInt x.
Proof. intros c x. unfold punct. repeat match goal with |- context [if ?b then _ else _] => destruct b end; discriminate. Qed.
Lemma punct_not_float : forall c x, punct c <> TFloat x.
Proof. intros c x. unfold punct. repeat match goal with |- context [if ?b then _ else _] => destruct b end; discriminate. Qed.

Lemma lex_number_tok : forall s, match fst (lex_number s) with TInt _ | TFloat _ => True | _ => False end.
Proof.
  intros s. unfold lex_number. destruct (take_while is_digit s) as [ip r0].
  match goal with |- context [match ?f with Some _ => _ | None => _ end] => destruct f as [[fp r2]|] end.
  - destruct (lex_exponent r2) as [[e r3]|]; exact I.
  - destruct (lex_exponent r0) as [[e r3]|]; exact I.
Qed.

Lemma lex_number_f_tok : forall s, match fst (lex_number_f s) with TInt _ | TFloat _ => True | _ => False end.
Proof.
  intros s. unfold lex_number_f. pose proof (lex_number_tok s) as H.
  destruct (lex_number s) as [[] r]; cbn [fst] in *; try contradiction; try exact I.
  destruct (fin f); exact I.
Qed.

Lemma T_lit : forall (c : string) (tk : token), In (c, tk)
    [("(", TLP); (")", TRP); (",", TComma); ("=", TEq); ("+", TPlus); ("-", TMinus); ("*", TStar)]%string ->
  forall n s ts, LexR s ts -> tok_ok s ts (run GG.uval (S n) EG (PLit c) s) (expect_tok tk (VStr c)).
Proof.
  intros c tk Hin n s ts [H0 NS]. rewrite run_lit. unfold sem_lit. rewrite skip_EG, (nosp_drop s NS).
  assert (C : exists ch, c = String ch EmptyString /\ punct ch = tk /\ tk <> TBad
                        /\ is_alpha ch = false /\ is_digit ch = false).
  { cbn [In] in Hin.
    repeat (destruct Hin as [E|Hin]; [inversion E; subst; eexists; split; [reflexivity|]; repeat split; discriminate|]).
    contradiction. }
  destruct C as (ch & -> & Pk & NB & NA & ND). cbn [list_ascii_of_string].
  unfold tok_ok, expect_tok.
  inversion H0 as [ | r ts' H1 | c0 r ts' Hs Ha H1 | c0 r ts' Hs Ha Hd H1 | c0 r ts' Hs Ha Hd H1]; subst.
  - reflexivity.
  - simpl in NS. discriminate.
  - cbn [strip_prefix]. destruct (Ascii.eqb_spec ch c0) as [->|NE]; [congruence|].
    destruct (token_eq_dec _ (punct ch)); [|reflexivity]. exfalso. eapply punct_not_name. symmetry. eassumption.
  - cbn [strip_prefix]. destruct (Ascii.eqb_spec ch c0) as [->|NE]; [congruence|].
    pose proof (lex_number_f_tok (c0 :: r)) as TK.
    destruct (fst (lex_number_f (c0 :: r))); try contradiction;
      (destruct (token_eq_dec _ (punct ch)) as [Q|_]; [|reflexivity]; exfalso;
       first [eapply punct_not_int; symmetry; exact Q | eapply punct_not_float; symmetry; exact Q]).
  - cbn [strip_prefix]. destruct (Ascii.eqb_spec ch c0) as [->|NE].
    + destruct (token_eq_dec (punct c0) (punct c0)); [|congruence].
      rewrite skip_EG. exists (drop r). split; [reflexivity|]. split; [apply LexR_drop; assumption|].
      pose proof (drop_len r). simpl. lia.
    + destruct (token_eq_dec (punct c0) (punct ch)) as [Q|_]; [|reflexivity].
      exfalso. apply NE. clear - Q NB.
      unfold punct in *.
      repeat match type of Q with
             | context [Ascii.eqb ?a ?b] => destruct (Ascii.eqb_spec a b); subst
             end; try congruence.
Qed.

Lemma in_set_alpha : forall c, in_set [("A"%char, "Z"%char); ("a"%char, "z"%char)] c = is_alpha c.
Proof.
  intros c. unfold in_set, in_range, is_alpha, ascii_between. cbn [existsb fst snd].
  rewrite orb_false_r. apply orb_comm.
Qed.

Lemma in_set_alnum : forall c,
  in_set [("A"%char, "Z"%char); ("a"%char, "z"%char); ("0"%char, "9"%char)] c = is_alnum c.
Proof.
  intros c. unfold in_set, in_range, is_alnum, is_alpha, is_digit, ascii_between. cbn [existsb fst snd].
  rewrite orb_false_r, orb_assoc. f_equal. apply orb_comm.
Qed.

Lemma T_name : forall n s ts, LexR s ts ->
  tok_ok s ts (run GG.uval (S (S n)) EG (PRef "name") s) expect_name.
Proof.
  intros n s ts [H0 NS]. rewrite run_ref.
  cbn [lookup g_prods GG.expression_grammar String.eqb Ascii.eqb Bool.eqb].
  rewrite run_reg. unfold sem_reg. rewrite skip_EG, (nosp_drop s NS), re_match_set_star.
  unfold tok_ok.
  inversion H0 as [ | r ts' H1 | c0 r ts' Hs Ha H1 | c0 r ts' Hs Ha Hd H1 | c0 r ts' Hs Ha Hd H1]; subst.
  - reflexivity.
  - simpl in NS. discriminate.
  - rewrite in_set_alpha, Ha. cbn [expect_name].
    rewrite (take_while_ext _ is_alnum r in_set_alnum).
    assert (E : take_while is_alnum (c0 :: r) = (c0 :: fst (take_while is_alnum r), snd (take_while is_alnum r))).
    { simpl. rewrite (TV.proofs.ParserLex.alpha_alnum c0 Ha). destruct (take_while is_alnum r); reflexivity. }
    rewrite E in *. cbn [fst snd] in *. rewrite skip_EG.
    exists (drop (snd (take_while is_alnum r))). split; [|split].
    + f_equal. f_equal.
      replace (snd (take_while is_alnum r)) with (snd (take_while is_alnum (c0 :: r))) by (rewrite E; reflexivity).
      rewrite consumed_take_while, E. reflexivity.
    + apply LexR_drop. assumption.
    + pose proof (drop_len (snd (take_while is_alnum r))). pose proof (take_while_length is_alnum r). simpl. lia.
  - rewrite in_set_alpha, Ha.
    pose proof (lex_number_f_tok (c0 :: r)) as TK.
    destruct (fst (lex_number_f (c0 :: r))); try contradiction; reflexivity.
  - rewrite in_set_alpha, Ha.
    pose proof (punct_not_name c0) as PN. destruct (punct c0); try reflexivity. exfalso. eapply PN. reflexivity.
Qed.

(* ------------------------------------------------------------------------------------------ *)
(** ** number = floating_point | integer *)

Lemma FR_no_digit : forall c r, is_digit c = false -> re_match FR (c :: r) = None.
Proof.
  intros c r D. unfold re_match, FR, RPlus, DIG. rewrite !rm_seq, rm_set.
  rewrite in_set_digit, D. reflexivity.
Qed.

Lemma lex_number_int : forall s k r', lex_number s = (TInt k, r') ->
  k = digits_val (fst (take_while is_digit s)) /\ r' = snd (take_while is_digit s).
Proof.
  intros s k r'. unfold lex_number. destruct (take_while is_digit s) as [ip r0]. cbn [fst snd].
  match goal with |- context [match ?f with Some _ => _ | None => _ end] => destruct f as [[fp r2]|] end.
  - destruct (lex_exponent r2) as [[e r3]|]; discriminate.
  - destruct (lex_exponent r0) as [[e r3]|]; [discriminate|]. intros H. inversion H. auto.
Qed.

Lemma lex_exponent_head : forall s e r, lex_exponent s = Some (e, r) -> nosp s /\ len r <= len s.
Proof.
  intros s e r H. split; [|eapply TV.proofs.ParserLex.lex_exponent_length; eassumption].
  destruct s as [|c t]; [discriminate|]. simpl in *. unfold is_e in H.
  destruct (Ascii.eqb_spec c " ") as [->|]; [discriminate|reflexivity].
Qed.

Lemma lex_number_float_facts : forall s d r', lex_number s = (TFloat d, r') ->
  nosp (snd (take_while is_digit s)) /\ len r' <= len (snd (take_while is_digit s)).
Proof.
  intros s d r'. unfold lex_number. destruct (take_while is_digit s) as [ip r0]. cbn [fst snd].
  destruct r0 as [|c r1].
  - cbn. discriminate.
  - destruct (Ascii.eqb_spec c ".") as [->|NE].
    + pose proof (take_while_length is_digit r1) as TL.
      destruct (take_while is_digit r1) as [fp r2]. cbn [snd] in TL.
      destruct fp as [|f0 fp].
      * cbn. discriminate.
      * destruct (lex_exponent r2) as [[e r3]|] eqn:LE; intros H; inversion H; subst; split; try reflexivity.
        -- apply lex_exponent_head in LE. simpl. lia.
        -- simpl. lia.
    + assert (Fr : match c :: r1 with "."%char :: r1' => let (fp, r2) := take_while is_digit r1' in match fp with [] => None | _ => Some (fp, r2) end | _ => None end = @None (list ascii * list ascii)).
      { destruct c as [[] [] [] [] [] [] [] []]; try reflexivity. exfalso. apply NE. reflexivity. }
      rewrite Fr. destruct (lex_exponent (c :: r1)) as [[e r3]|] eqn:LE; [|discriminate].
      intros H. inversion H; subst. apply lex_exponent_head in LE. exact LE.
Qed.


Lemma T_number : forall n s ts, LexR s ts ->
  tok_ok s ts (run GG.uval (S (S (S n))) EG (PRef "number") s) expect_number.
Proof.
  intros n s ts [H0 NS]. rewrite run_ref.
  cbn [lookup g_prods GG.expression_grammar String.eqb Ascii.eqb Bool.eqb].
  rewrite run_alt. cbn [map]. unfold sem_alt. cbn [sem_alt_from].
  rewrite !run_ref. cbn [lookup g_prods GG.expression_grammar String.eqb Ascii.eqb Bool.eqb].
  rewrite run_bind, run_map. unfold sem_bind, sem_map. rewrite !run_reg. unfold sem_reg.
  rewrite !skip_EG, (nosp_drop s NS).
  match goal with |- context [re_match (RSeq ?a (RAlt ?b ?c)) _] => change (RSeq a (RAlt b c)) with FR end.
  unfold tok_ok.
  inversion H0 as [ | r ts' H1 | c0 r ts' Hs Ha H1 | c0 r ts' Hs Ha Hd H1 | c0 r ts' Hs Ha Hd H1]; subst.
  - reflexivity.
  - simpl in NS. discriminate.
  - assert (D : is_digit c0 = false).
    { destruct (is_digit c0) eqn:D; [|reflexivity]. rewrite (TV.proofs.ParserLex.digit_not_alpha c0 D) in Ha. discriminate. }
    rewrite (FR_no_digit c0 r D). rewrite re_match_plus_set, in_set_digit, D. reflexivity.
  - (* a number *)
    rewrite re_match_plus_set, in_set_digit, Hd.
    rewrite (take_while_ext _ is_digit r in_set_digit).
    assert (E : take_while is_digit (c0 :: r) = (c0 :: fst (take_while is_digit r), snd (take_while is_digit r))).
    { simpl. rewrite Hd. destruct (take_while is_digit r); reflexivity. }
    set (ip := c0 :: fst (take_while is_digit r)) in *. set (r0 := snd (take_while is_digit r)) in *.
    rewrite skip_EG.
    assert (CI : consumed (c0 :: r) r0 = string_of_list_ascii ip).
    { replace r0 with (snd (take_while is_digit (c0 :: r))) by (rewrite E; reflexivity).
      rewrite consumed_take_while, E. reflexivity. }
    rewrite CI.
    assert (PI : alift1 GG.mk_Integer (alift1 GG.py_int_v (AOk (VStr (string_of_list_ascii ip))))
                 = AOk (VE (EInt (digits_val ip)))).
    { cbn [alift1]. rewrite TV.proofs.GenGrammarFormat_equiv.py_int_digits; [reflexivity|discriminate|].
      subst ip. simpl. rewrite Hd. apply TV.proofs.GenGrammarFormat_equiv.take_while_forallb. }
    rewrite PI.
    pose proof (float_regex_ok c0 r Hd) as FS. unfold lex_number_f in *.
    destruct (lex_number (c0 :: r)) as [t r'] eqn:LN.
    pose proof (lex_number_tok (c0 :: r)) as TK. rewrite LN in TK. cbn [fst] in TK.
    destruct t; try contradiction.
    + (* integer token *)
      rewrite FS. apply lex_number_int in LN. rewrite E in LN. cbn [fst snd] in LN. destruct LN as [-> ->].
      cbn [fst snd expect_number] in *.
      exists (drop r0). split; [reflexivity|]. split; [apply LexR_drop; assumption|].
      pose proof (drop_len r0). pose proof (take_while_length is_digit r). subst r0. simpl. lia.
    + (* float token *)
      destruct FS as [-> SD]. rewrite skip_EG. cbv beta. cbn [alift1]. unfold GG.py_float_v. rewrite SD.
      pose proof (lex_number_float_facts _ _ _ LN) as [NS0 LL]. rewrite E in NS0, LL. cbn [snd] in NS0, LL.
      cbn [alift1 GG.py_float_v GG.py_isfinite_v GG.bif].
      fold (fin f). destruct (fin f) eqn:Fin.
      * cbn [fst snd expect_number] in *.
        change (bsuccess (GG.mk_Float (VU (GG.UFloat (fl f))))) with (@BSuccess GG.uval (VE (EFloat f))).
        cbv iota.
        assert (Q : (len (drop r0) <? len (drop r')) = false).
        { apply Nat.ltb_ge. rewrite (nosp_drop r0 NS0). pose proof (drop_len r'). fold r0 in LL. lia. }
        rewrite Q. exists (drop r'). split; [reflexivity|]. split; [apply LexR_drop; assumption|].
        pose proof (drop_len r'). pose proof (take_while_length is_digit r). subst r0. simpl in *. lia.
      * rewrite E in H1 |- *. cbn [fst snd expect_number] in *.
        exists (drop r0). split; [reflexivity|]. split; [apply LexR_drop; assumption|].
        pose proof (drop_len r0). pose proof (take_while_length is_digit r). subst r0. simpl. lia.
  - rewrite (FR_no_digit c0 r Hd). rewrite re_match_plus_set, in_set_digit, Hd.
    pose proof (punct_not_int c0) as PI. pose proof (punct_not_float c0) as PF.
    destruct (punct c0); try reflexivity; exfalso; [eapply PI|eapply PF]; reflexivity.
Qed.

(* ------------------------------------------------------------------------------------------ *)
(** * The refined lexer as a function, and the theorem *)

Fixpoint lexF (n : nat) (s : list ascii) : option (list token) :=
  match s with
  | [] => Some []
  | c :: r =>
      match n with
      | O => None
      | S n' =>
          if Ascii.eqb c " " then lexF n' r
          else if is_alpha c then
            cons_tok (TName (string_of_list_ascii (fst (take_while is_alnum s)))) (lexF n' (snd (take_while is_alnum s)))
          else if is_digit c then cons_tok (fst (lex_number_f s)) (lexF n' (snd (lex_number_f s)))
          else cons_tok (punct c) (lexF n' r)
      end
  end.

Lemma name_rest_len : forall c r, is_alpha c = true -> len (snd (take_while is_alnum (c :: r))) <= len r.
Proof.
  intros c r H. simpl. rewrite (TV.proofs.ParserLex.alpha_alnum c H).
  pose proof (take_while_length is_alnum r). destruct (take_while is_alnum r). exact H0.
Qed.

Lemma number_rest_len : forall c r, is_digit c = true -> len (snd (lex_number_f (c :: r))) <= len r.
Proof.
  intros c r H. unfold lex_number_f.
  destruct (lex_number (c :: r)) as [t r'] eqn:E.
  pose proof (TV.proofs.ParserLex.lex_number_length c r t r' H E) as L.
  destruct t; try exact L. destruct (fin f); [exact L|].
  simpl. rewrite H. pose proof (take_while_length is_digit r). destruct (take_while is_digit r). assumption.
Qed.

Lemma lexF_LexR0 : forall n s ts, lexF n s = Some ts -> LexR0 s ts.
Proof.
  induction n as [|n IH]; intros s ts H; destruct s as [|c r]; try (inversion H; constructor).
  cbn [lexF] in H.
  destruct (Ascii.eqb c " ") eqn:Sp.
  { apply Ascii.eqb_eq in Sp. subst c. apply LR_space, IH, H. }
  destruct (is_alpha c) eqn:Al.
  { destruct (lexF n (snd (take_while is_alnum (c :: r)))) as [l|] eqn:E; [|discriminate].
    inversion H; subst. apply LR_name; auto. }
  destruct (is_digit c) eqn:Di.
  { destruct (lexF n (snd (lex_number_f (c :: r)))) as [l|] eqn:E; [|discriminate].
    inversion H; subst. apply LR_num; auto. }
  destruct (lexF n r) as [l|] eqn:E; [|discriminate].
  inversion H; subst. apply LR_punct; auto.
Qed.

Lemma lexF_total : forall n s, len s <= n -> lexF n s <> None.
Proof.
  induction n as [|n IH]; intros s L; destruct s as [|c r]; try discriminate; [simpl in L; lia|].
  cbn [lexF]. simpl in L.
  destruct (Ascii.eqb c " "); [apply IH; lia|].
  destruct (is_alpha c) eqn:Al.
  { pose proof (name_rest_len c r Al). specialize (IH (snd (take_while is_alnum (c :: r))) ltac:(lia)).
    destruct (lexF n (snd (take_while is_alnum (c :: r)))); [discriminate|congruence]. }
  destruct (is_digit c) eqn:Di.
  { pose proof (number_rest_len c r Di). specialize (IH (snd (lex_number_f (c :: r))) ltac:(lia)).
    destruct (lexF n (snd (lex_number_f (c :: r)))); [discriminate|congruence]. }
  specialize (IH r ltac:(lia)). destruct (lexF n r); [discriminate|congruence].
Qed.

Lemma LexR0_len : forall s ts, LexR0 s ts -> len ts <= len s.
Proof.
  intros s ts H. induction H; simpl in *; try lia.
  - pose proof (name_rest_len c r H0). simpl in *. lia.
  - pose proof (number_rest_len c r H1). simpl in *. lia.
Qed.

Lemma LexR0_nil_inv : forall s, LexR0 s [] -> nosp s -> s = [].
Proof. intros s H NS. inversion H; subst; [reflexivity|simpl in NS; discriminate]. Qed.

Lemma LexR0_cons_inv : forall t ts, ~ LexR0 [] (t :: ts).
Proof. intros t ts H. inversion H. Qed.

(** with every float token finite, [lexF] is the model's lexer *)
Lemma lexF_all_finite : (forall d, fin d = true) -> forall n s, lexF n s = lex_fuel n s.
Proof.
  intros A. assert (LN : forall s, lex_number_f s = lex_number s).
  { intros s. unfold lex_number_f. destruct (lex_number s) as [[] r]; try reflexivity. rewrite A. reflexivity. }
  induction n as [|n IH]; intros s; destruct s as [|c r]; try reflexivity.
  cbn [lexF lex_fuel]. rewrite LN, !IH.
  destruct (Ascii.eqb c " "); [reflexivity|]. destruct (is_alpha c).
  - destruct (take_while is_alnum (c :: r)); reflexivity.
  - destruct (is_digit c); [|reflexivity]. destruct (lex_number (c :: r)); reflexivity.
Qed.

Definition parse_assignment_f (s : string) : pres :=
  let l := list_ascii_of_string s in
  match lexF (len l) l with Some ts => parse_tokens ts | None => PFuel end.

Definition back_pres (r : pres) : GG.presult :=
  match r with
  | POk a => GG.PSuccess (VU (GG.UAsg (GD.ExAssignment (GD.ExTensor (tname a) (tindexes a)) (back (rhs a)))))
  | PSyntax => GG.PFailure "ParseError"
  | PMutating => GG.PFailure "MutatingAssignmentError"
  | PInconsistent => GG.PFailure "InconsistentDimensionsError"
  | PNameConflict => GG.PFailure "NameConflictError"
  | PFuel => GG.PFuel
  end.

Hypothesis H_post : forall x idx e, post (GD.ExTensor x idx) (back e) = vexn (validate (Assign x idx e)).

Lemma sem_reg_drop : forall r s, sem_reg GG.uval (g_ws EG) r s = sem_reg GG.uval (g_ws EG) r (drop s).
Proof.
  intros r s. unfold sem_reg. rewrite !skip_EG, (nosp_drop (drop s) (drop_nosp s)). reflexivity.
Qed.

Lemma assignment_drop : forall m s,
  run GG.uval (S (S (S (S m)))) EG (PRef "assignment") s
  = run GG.uval (S (S (S (S m)))) EG (PRef "assignment") (drop s).
Proof.
  intros m s. rewrite !run_ref. cbn [lookup g_prods GG.expression_grammar String.eqb Ascii.eqb Bool.eqb].
  rewrite !run_map. unfold sem_map. rewrite !run_seq. cbn [map sem_seq].
  rewrite !run_ref. cbn [lookup g_prods GG.expression_grammar String.eqb Ascii.eqb Bool.eqb].
  rewrite !run_map. unfold sem_map. rewrite !run_seq. cbn [map sem_seq].
  rewrite !run_ref. cbn [lookup g_prods GG.expression_grammar String.eqb Ascii.eqb Bool.eqb].
  rewrite !run_reg. rewrite (sem_reg_drop _ s). reflexivity.
Qed.

Theorem gen_parse_assignment_equiv : forall s : string,
  GG.parse_assignment fl post s = back_pres (parse_assignment_f s).
Proof.
  intros s. unfold GG.parse_assignment, Parsita.parse, parse_assignment_f, parse_fuel.
  set (l := list_ascii_of_string s).
  pose proof (lexF_total (len l) l (Nat.le_refl _)) as TT.
  destruct (lexF (len l) l) as [ts|] eqn:LX; [|congruence]. clear TT.
  apply lexF_LexR0 in LX. pose proof (LexR0_len _ _ LX) as LL.
  assert (HL : LexR (drop l) ts) by (apply LexR_drop; exact LX).
  assert (FU : exists m, default_fuel GG.uval EG l = S (S (S (S m))) /\ 4 * S (len ts) + 4 <= m).
  { unfold default_fuel. cbn [g_prods GG.expression_grammar List.length].
    exists (8 + 12 * len l). lia. }
  destruct FU as (m & -> & Hm).
  change GG.parse_assignment_start with "assignment"%string.
  rewrite assignment_drop.
  pose proof (S_assignment T_lit T_name (T_number) H_post (S (len ts)) m (drop l) ts Hm HL) as SA.
  unfold parse_tokens, parse_tokens_fuel.
  destruct (p_tensor ts) as [[[x idx] ts1]| |] eqn:PT; [|rewrite SA; reflexivity|rewrite SA; reflexivity].
  destruct ts1 as [|t r]; [rewrite SA; reflexivity|].
  destruct t; try (rewrite SA; reflexivity).
  pose proof (TV.proofs.ParserFuel.p_tensor_length _ _ _ PT) as PL. simpl in PL.
  pose proof (TV.proofs.ParserFuel.p_expr_fuel (S (len ts)) r ltac:(lia)) as NF.
  destruct (p_expr (S (len ts)) r) as [[e r']| |]; [|rewrite SA; reflexivity|congruence].
  destruct (validate (Assign x idx e)); try (rewrite SA; reflexivity).
  destruct SA as (s' & -> & HL').
  destruct HL' as [H0 NS].
  destruct r' as [|t' r''].
  - rewrite (LexR0_nil_inv s' H0 NS). reflexivity.
  - destruct s' as [|c' s'']; [exfalso; eapply LexR0_cons_inv; exact H0|]. reflexivity.
Qed.

(* ------------------------------------------------------------------------------------------ *)
(** * Corollaries: against model/Parser.v itself, and the C12 theorems on the regenerated grammar *)

Definition floats_finite (ts : list token) : bool :=
  forallb (fun t => match t with TFloat d => fin d | _ => true end) ts.

Lemma lexF_floats_finite : forall n s ts, lex_fuel n s = Some ts -> floats_finite ts = true ->
  lexF n s = Some ts.
Proof.
  induction n as [|n IH]; intros s ts H FF; destruct s as [|c r]; try exact H.
  cbn [lex_fuel] in H. cbn [lexF].
  destruct (Ascii.eqb c " "); [apply IH; assumption|].
  destruct (is_alpha c).
  { destruct (take_while is_alnum (c :: r)) as [nm r'] eqn:TW. cbn [fst snd].
    destruct (lex_fuel n r') as [l|] eqn:E; [|discriminate]. inversion H; subst.
    simpl in FF. rewrite (IH r' l E FF). reflexivity. }
  destruct (is_digit c); [|].
  { destruct (lex_number (c :: r)) as [t r'] eqn:LN.
    destruct (lex_fuel n r') as [l|] eqn:E; [|discriminate]. inversion H; subst.
    simpl in FF. apply andb_true_iff in FF as [F1 F2].
    unfold lex_number_f. rewrite LN. destruct t; cbn [fst snd]; try (rewrite (IH r' l E F2); reflexivity).
    rewrite F1. cbn [fst snd]. rewrite (IH r' l E F2). reflexivity. }
  destruct (lex_fuel n r) as [l|] eqn:E; [|discriminate]. inversion H; subst.
  simpl in FF. apply andb_true_iff in FF as [F1 F2]. rewrite (IH r l E F2). reflexivity.
Qed.

(** the regenerated parser IS model/Parser.v's [parse_assignment] on every text whose float literals
    are finite under float() *)
Theorem gen_parse_assignment_equiv_model : forall (s : string) ts,
  lex s = Some ts -> floats_finite ts = true ->
  GG.parse_assignment fl post s = back_pres (Parser.parse_assignment s).
Proof.
  intros s ts L FF. rewrite gen_parse_assignment_equiv.
  unfold parse_assignment_f, Parser.parse_assignment. unfold lex in L |- *.
  rewrite (lexF_floats_finite _ _ _ L FF), L. reflexivity.
Qed.

Definition back_asg (a : assignment) : V :=
  VU (GG.UAsg (GD.ExAssignment (GD.ExTensor (tname a) (tindexes a)) (back (rhs a)))).

(** C12_parse_sound_complete on the regenerated grammar: it accepts exactly the texts whose tokens are
    an assignment sentence of the textbook grammar (spec/Grammar.v) with a valid tree, and returns
    that tree *)
Theorem gen_parse_sound_complete : forall (s : string) v,
  GG.parse_assignment fl post s = GG.PSuccess v <->
  exists ts a, lexF (len (list_ascii_of_string s)) (list_ascii_of_string s) = Some ts
               /\ TV.spec.Grammar.DA ts a /\ validate a = VOk /\ v = back_asg a.
Proof.
  intros s v. rewrite gen_parse_assignment_equiv. unfold parse_assignment_f.
  pose proof (lexF_total (len (list_ascii_of_string s)) (list_ascii_of_string s) (Nat.le_refl _)) as TT.
  destruct (lexF (len (list_ascii_of_string s)) (list_ascii_of_string s)) as [ts|]; [|congruence].
  split.
  - intros H. destruct (parse_tokens ts) as [a| | | | |] eqn:P; try discriminate.
    apply TV.proofs.ParserGrammar.parse_tokens_iff_derives in P as [D Vd].
    exists ts, a. cbn [back_pres] in H. inversion H. auto.
  - intros (ts' & a & E & D & Vd & ->). inversion E; subst ts'.
    rewrite (proj2 (TV.proofs.ParserGrammar.parse_tokens_iff_derives ts a) (conj D Vd)). reflexivity.
Qed.

(** C12_parse_deparse on the regenerated grammar: a text whose tokens are the printed tokens of a
    valid tree parses to that tree *)
Theorem gen_parse_deparse : forall (s : string) a,
  lexF (len (list_ascii_of_string s)) (list_ascii_of_string s) = Some (deparse a) ->
  validate a = VOk ->
  GG.parse_assignment fl post s = GG.PSuccess (back_asg a).
Proof.
  intros s a L Vd. rewrite gen_parse_assignment_equiv. unfold parse_assignment_f. rewrite L.
  rewrite (TV.proofs.ParserGrammar.parse_deparse a Vd). reflexivity.
Qed.

(** the regenerated parser never gets stuck, never runs out of fuel, and lets no exception escape *)
Theorem gen_parse_assignment_total : forall s : string,
  match GG.parse_assignment fl post s with
  | GG.PSuccess _ | GG.PFailure _ => True
  | _ => False
  end.
Proof.
  intros s. rewrite gen_parse_assignment_equiv. unfold parse_assignment_f.
  pose proof (lexF_total (len (list_ascii_of_string s)) (list_ascii_of_string s) (Nat.le_refl _)) as TT.
  destruct (lexF (len (list_ascii_of_string s)) (list_ascii_of_string s)) as [ts|]; [|congruence].
  pose proof (TV.proofs.ParserFuel.parse_tokens_fuel_sufficient ts) as NF.
  destruct (parse_tokens ts); try exact I. congruence.
Qed.
End Expr.
