(** COMPOSE (3) -- TIE "glue" + TIE "problem" + TIE "grammar": the body of the command line entry point
    (gen/GlueGen.v [cli_tensora], which has its library steps as Section variables) instantiated with the
    REGENERATED library functions:

      parse_assignment    := gen/GrammarGen.v's grammar under model/Parsita.v, with the regenerated
                             __post_init__ as the hook (Compose_post.gen_post)
      parse_named_format  := gen/GrammarGen.v's format grammar
      make_problem        := gen/ProblemGen.v's [make_problem]

    These live on nominally different copies of the Python classes Mode / Format / Problem:
      Mode    : gen/ExhaustAst.v (used by GrammarGen, IterGraphs, GlueGen)   | gen/TensorMethod.v
      Format  : GrammarGen.gformat | IterGraphs.Format (GlueGen)             | TensorMethod.Format (ProblemGen)
      Problem : GlueGen.Problem                                              | TensorMethod.Problem
    The conversions below are bijections (each pair of lemmas [*_inv]); the instantiation converts at
    the borders only.  [generate_code] stays an argument (TIE glue: [TIE_glue_generate_code_spec]). *)

From Coq Require Import String Ascii List NArith ZArith Bool Arith Lia.
From TV Require Import spec.Num spec.PyBase spec.PyLib model.GraphsIter.
From TV Require model.Parser model.FormatParser model.ExprAst model.Problem model.Parsita
  gen.ExhaustAst gen.Deparse gen.IterGraphs gen.TensorMethod gen.ProblemGen gen.GrammarGen gen.GlueGen.
From TV Require proofs.GenValidate_equiv proofs.GenProblem_equiv proofs.GenGrammarFormat_equiv proofs.GenGlue_equiv
  proofs.ParserFormat proofs.ProblemSpec.
From TV Require Import proofs.Compose_post.
Import ListNotations.
Open Scope string_scope.
Open Scope list_scope.

Module GLE := TV.proofs.GenGlue_equiv.
Module GFE := TV.proofs.GenGrammarFormat_equiv.
Module GVal := TV.proofs.GenValidate_equiv.
Module MP := TV.model.Problem.
Module FP := TV.model.FormatParser.

(* ------------------------------------------------------------------------------------------ *)
(** * the copies of Mode / Format / Problem *)

Lemma mode_x2t_inv : forall m, mode_t2x (mode_x2t m) = m. Proof. destruct m; reflexivity. Qed.
Lemma mode_t2x_inv : forall m, mode_x2t (mode_t2x m) = m. Proof. destruct m; reflexivity. Qed.

Lemma map_inv : forall {A B} (f : A -> B) (g : B -> A), (forall x, g (f x) = x) -> forall l, map g (map f l) = l.
Proof. intros A B f g H l. rewrite map_map. rewrite <- (map_id l) at 2. apply map_ext. exact H. Qed.

Lemma fmt_i2t_inv : forall f, fmt_t2i (fmt_i2t f) = f.
Proof. intros [m o]. unfold fmt_t2i, fmt_i2t. cbn. rewrite (map_inv _ _ mode_x2t_inv). reflexivity. Qed.
Lemma fmt_t2i_inv : forall f, fmt_i2t (fmt_t2i f) = f.
Proof. intros [m o]. unfold fmt_t2i, fmt_i2t. cbn. rewrite (map_inv _ _ mode_t2x_inv). reflexivity. Qed.
Lemma fmt_g2i_inv : forall f, fmt_i2g (fmt_g2i f) = f. Proof. intros [m o]. reflexivity. Qed.
Lemma fmt_i2g_inv : forall f, fmt_g2i (fmt_i2g f) = f. Proof. intros [m o]. reflexivity. Qed.

Lemma on_snd_inv : forall {A B} (f : A -> B) (g : B -> A), (forall x, g (f x) = x) ->
  forall l, on_snd g (on_snd f l) = l.
Proof.
  intros A B f g H l. unfold on_snd. rewrite map_map. rewrite <- (map_id l) at 2. apply map_ext.
  intros [k v]. cbn. rewrite H. reflexivity.
Qed.

Lemma on_snd_keys : forall {A B} (f : A -> B) l, map fst (on_snd f l) = map fst l.
Proof. intros. unfold on_snd. rewrite map_map. reflexivity. Qed.

Lemma problem_t2l_inv : forall p, problem_l2t (problem_t2l p) = p.
Proof.
  intros [a fs]. unfold problem_l2t, problem_t2l.
  cbn [GL.Problem_assignment GL.Problem_formats GT.Problem_assignment GT.Problem_formats].
  rewrite (on_snd_inv _ _ fmt_t2i_inv). reflexivity.
Qed.
Lemma problem_l2t_inv : forall p, problem_t2l (problem_l2t p) = p.
Proof.
  intros [a fs]. unfold problem_l2t, problem_t2l.
  cbn [GL.Problem_assignment GL.Problem_formats GT.Problem_assignment GT.Problem_formats].
  rewrite (on_snd_inv _ _ fmt_i2t_inv). reflexivity.
Qed.

(** the conversions commute with what the functions at the border compute on formats *)
Lemma list_eqb_spec : forall {A} (eqb : A -> A -> bool), (forall x y, eqb x y = true <-> x = y) ->
  forall a b, list_eqb eqb a b = true <-> a = b.
Proof.
  intros A eqb H. induction a as [|x a IH]; intros [|y b]; cbn; split; intros E; try discriminate; try reflexivity.
  - apply andb_true_iff in E as [E1 E2]. apply H in E1. apply IH in E2. subst. reflexivity.
  - inversion E; subst. apply andb_true_iff. split; [apply H; reflexivity | apply IH; reflexivity].
Qed.

Lemma format_eqb_spec : forall a b : GT.Format, GP.Format_eqb a b = true <-> a = b.
Proof.
  intros [ma oa] [mb ob]. unfold GP.Format_eqb. cbn [GT.Format_modes GT.Format_ordering].
  rewrite andb_true_iff.
  rewrite (list_eqb_spec GT.Mode_eqb) by (intros [] []; cbn; split; intros; try discriminate; reflexivity).
  rewrite (list_eqb_spec Z.eqb Z.eqb_eq). split; [intros [-> ->]; reflexivity | intros E; inversion E; auto].
Qed.

Lemma fmt_eqb_commutes : forall a b, GP.Format_eqb (fmt_i2t a) (fmt_i2t b) = true <-> a = b.
Proof.
  intros a b. rewrite format_eqb_spec. split; [|intros ->; reflexivity].
  intros E. rewrite <- (fmt_i2t_inv a), <- (fmt_i2t_inv b), E. reflexivity.
Qed.

(** the all-dense default of [make_problem], seen from the glue side *)
Lemma dense_default_commutes : forall o : nat,
  fmt_t2i (GVal.lift_format (MP.dense_format o))
  = IG.MkFormat (repeat EX.Mode_dense o) (map Z.of_nat (seq 0 o)).
Proof.
  intros o. unfold fmt_t2i, GVal.lift_format, MP.dense_format.
  cbn [MP.f_modes MP.f_ordering GT.Format_modes GT.Format_ordering]. f_equal.
  rewrite map_map. induction o as [|o IH]; cbn; [reflexivity | rewrite IH; reflexivity].
Qed.

(** the model's format (model/Problem.v) on the glue side *)
Definition lift_i (f : MP.format) : IG.Format := fmt_t2i (GVal.lift_format f).

Lemma lift_i_t : forall fs, on_snd fmt_i2t (on_snd lift_i fs) = GVal.lift_formats fs.
Proof.
  intros fs. unfold on_snd, GVal.lift_formats, lift_i. rewrite map_map. apply map_ext.
  intros [k v]. cbn. rewrite fmt_t2i_inv. reflexivity.
Qed.

Lemma lift_t_i : forall fs, on_snd fmt_t2i (GVal.lift_formats fs) = on_snd lift_i fs.
Proof. intros fs. unfold on_snd, GVal.lift_formats, lift_i. rewrite map_map. reflexivity. Qed.

(* ------------------------------------------------------------------------------------------ *)
(** * the regenerated library functions at the types of [cli_tensora]'s arguments *)

Theorem parse_assignment_cli_total : forall fl s,
  (exists a, GG.parse_assignment fl gen_post s = GG.PSuccess (Parsita.VU (GG.UAsg a))
             /\ parse_assignment_cli fl s = inl a)
  \/ (exists cls, GG.parse_assignment fl gen_post s = GG.PFailure cls /\ parse_assignment_cli fl s = inr cls).
Proof.
  intros fl s. unfold parse_assignment_cli.
  pose proof (compose_assignment_total fl s) as T.
  destruct (GG.parse_assignment fl gen_post s) as [v|cls|cls| |] eqn:E; try contradiction.
  - left. destruct (compose_parsed_is_object fl s v E) as (x & idx & e & -> & _).
    exists (GPE.gassign x idx e). split; reflexivity.
  - right. exists cls. split; reflexivity.
Qed.

Lemma named_no_fuel : forall s, FP.parse_named_format s <> FP.FFuel.
Proof.
  intros s. unfold FP.parse_named_format, FP.parse_named_format_chars.
  repeat (match goal with |- context [match ?x with _ => _ end] => destruct x eqn:? end); try discriminate.
  exfalso. eapply TV.proofs.ParserFormat.parse_format_fuel_sufficient. eassumption.
Qed.

Theorem parse_named_format_cli_total : forall s,
  (exists n f, GG.parse_named_format s
               = GG.PSuccess (Parsita.VList [Parsita.VStr n; Parsita.VU (GG.UFormat f)])
               /\ parse_named_format_cli s = inl (n, fmt_g2i f))
  \/ (exists cls, GG.parse_named_format s = GG.PFailure cls /\ parse_named_format_cli s = inr cls).
Proof.
  intros s. unfold parse_named_format_cli. rewrite GFE.gen_parse_named_format_equiv.
  pose proof (named_no_fuel s) as NF.
  destruct (FP.parse_named_format s) as [[n f]| | |] eqn:E; cbn [GFE.back_named].
  - left. exists n, (GFE.back_format f). split; reflexivity.
  - right. eexists. split; reflexivity.
  - right. eexists. split; reflexivity.
  - exfalso. exact (NF eq_refl).
Qed.

(** a parsed format option is (the image of) a format of model/Problem.v: non-negative ordering entries *)
Definition fp2mp (f : FP.format) : MP.format :=
  MP.Format (map (fun m => match m with FP.MDense => MP.Dense | FP.MCompressed => MP.Compressed end) (FP.modes f))
            (map N.to_nat (FP.ordering f)).

Lemma back_format_lift : forall f, fmt_g2i (GFE.back_format f) = lift_i (fp2mp f).
Proof.
  intros [m o]. unfold fmt_g2i, GFE.back_format, lift_i, fmt_t2i, GVal.lift_format, fp2mp.
  cbn [GG.gf_modes GG.gf_ordering FP.modes FP.ordering MP.f_modes MP.f_ordering GT.Format_modes GT.Format_ordering].
  f_equal.
  - rewrite !map_map. apply map_ext. intros []; reflexivity.
  - rewrite map_map. apply map_ext. intros n. symmetry. apply N_nat_Z.
Qed.

Lemma parsed_formats_are_lifts : forall strs (tfs : list (string * IG.Format)),
  map parse_named_format_cli strs = map inl tfs ->
  exists mfs : list (string * MP.format), tfs = on_snd lift_i mfs.
Proof.
  induction strs as [|s r IH]; intros [|[n f] tfs] H; try discriminate.
  - exists []. reflexivity.
  - cbn [map] in H. injection H as Hs Hr. destruct (IH _ Hr) as [mfs ->].
    unfold parse_named_format_cli in Hs. rewrite GFE.gen_parse_named_format_equiv in Hs.
    destruct (FP.parse_named_format s) as [[n' f']| | |]; cbn [GFE.back_named] in Hs; try discriminate.
    inversion Hs; subst. exists ((n, fp2mp f') :: mfs). cbn. rewrite back_format_lift. reflexivity.
Qed.

(* ------------------------------------------------------------------------------------------ *)
(** * the CLI's request on fully regenerated functions *)

Section Cli.
Variable fl : P.dec -> F.
Variable generate_code : GL.Problem -> list GL.KernelType -> GL.Language -> pres (string + string).

Notation cli := (GL.cli_tensora (parse_assignment_cli fl) parse_named_format_cli make_problem_cli generate_code).

(** a parsed assignment never makes the regenerated make_problem RAISE (only return Success / Failure) *)
Lemma make_problem_parsed : forall a pa (mfs : list (string * MP.format)),
  GG.parse_assignment fl gen_post a = GG.PSuccess (Parsita.VU (GG.UAsg pa)) ->
  exists x idx e, pa = GPE.gassign x idx e /\
    EA.assignment_check (GPE.massign (fun _ => 0%Z) x idx e) = EA.Ok tt /\
    match GP.make_problem pa (GVal.lift_formats mfs) with
    | GT.Ret (inl p) => exists q, MP.make_problem (GPE.massign (fun _ => 0%Z) x idx e) mfs = EA.Ok q /\
                                  p = GT.MkProblem pa (GVal.lift_formats (MP.p_formats q))
    | GT.Ret (inr ex) => MP.make_problem (GPE.massign (fun _ => 0%Z) x idx e) mfs = EA.Error (GPE.kind ex)
    | GT.Raise _ => False
    end.
Proof.
  intros a pa mfs H. destruct (compose_parsed_is_object fl a _ H) as (x & idx & e & E & Hobj).
  inversion E; subst pa. exists x, idx, e. destruct (Hobj (fun _ => 0%Z)) as [CK _].
  split; [reflexivity|]. split; [exact CK|].
  pose proof (GPE.gen_make_problem_equiv (fun _ => 0%Z) x idx e mfs) as ME. rewrite CK in ME.
  unfold GPE.out_model in ME.
  destruct (GP.make_problem (GPE.gassign x idx e) (GVal.lift_formats mfs)) as [[[pa' pf]|ex]|ex];
    cbn [GPE.out_gen GT.Problem_assignment GT.Problem_formats] in ME;
    destruct (MP.make_problem (GPE.massign (fun _ => 0%Z) x idx e) mfs) as [q|err]; try discriminate ME.
  - inversion ME; subst. exists q. split; reflexivity.
  - inversion ME; subst. reflexivity.
Qed.

(** CLI REQUEST = LIBRARY REQUEST.  When the assignment text parses, every [--format] option parses and
    no tensor is named twice, the command line hands [generate_code] exactly the Problem that the library
    entry point [tensor_method(assignment, formats)] hands to the kernel cache (gen/ProblemGen.v
    [tensor_method_problem], same regenerated parsers' results), with the kinds and the language as given;
    when the library would raise, the CLI exits with status 1. *)
Theorem compose_cli_request :
  forall (a : string) pa (strs : list string) (tfs : list (string * IG.Format)) ks lang,
    GG.parse_assignment fl gen_post a = GG.PSuccess (Parsita.VU (GG.UAsg pa)) ->
    map parse_named_format_cli strs = map inl tfs -> NoDup (map fst tfs) ->
    cli a strs ks lang =
    match GP.tensor_method_problem pa (on_snd fmt_i2t tfs) with
    | GT.Ret p => emit generate_code (problem_t2l p) ks lang
    | GT.Raise _ => PRaise "Exit(1)"
    end.
Proof.
  intros a pa strs tfs ks lang Ha Hs Hnd.
  assert (Ha' : parse_assignment_cli fl a = inl pa) by (unfold parse_assignment_cli; rewrite Ha; reflexivity).
  rewrite (GLE.gen_cli_request _ _ _ _ a pa strs tfs ks lang Ha' Hs Hnd).
  destruct (parsed_formats_are_lifts _ _ Hs) as [mfs ->].
  destruct (make_problem_parsed a pa mfs Ha) as (x & idx & e & -> & _ & MPK).
  unfold make_problem_cli, GP.tensor_method_problem. rewrite lift_i_t in *.
  destruct (GP.make_problem (GPE.gassign x idx e) (GVal.lift_formats mfs)) as [[p|ex]|ex];
    [reflexivity | reflexivity | contradiction].
Qed.

(** ... UNMENTIONED TENSORS DENSE (C15_make_problem_spec through TIE problem): the Problem that reaches
    [generate_code] has the parsed assignment and the formats [fs']: output first, then the tensors by first
    appearance; each one the format given on the command line, or all-dense of the tensor's order; every
    mentioned name is a tensor of the assignment.  Otherwise the run ends with exit status 1, and that
    happens exactly when the model's [make_problem] refuses (unused format / wrong order). *)
Theorem compose_cli_effective_formats :
  forall (a : string) x idx e (strs : list string) (mfs : list (string * MP.format)) ks lang (fid : F -> Z),
    GG.parse_assignment fl gen_post a = GG.PSuccess (Parsita.VU (GG.UAsg (GPE.gassign x idx e))) ->
    map parse_named_format_cli strs = map inl (on_snd lift_i mfs) -> NoDup (map fst mfs) ->
    (exists fs' : list (string * MP.format),
       cli a strs ks lang = emit generate_code (GL.MkProblem (GPE.gassign x idx e) (on_snd lift_i fs')) ks lang /\
       EA.akeys fs' = x :: EA.sdedup (map EA.t_name (EA.occurrences (GV.convA fid e))) /\
       (forall n f, In (n, f) fs' ->
          EA.aget n mfs = Some f \/
          (EA.aget n mfs = None /\
           exists o, In (n, o) (EA.variable_orders (GPE.massign fid x idx e)) /\ f = MP.dense_format o)) /\
       incl (EA.akeys mfs) (EA.akeys (EA.variable_orders (GPE.massign fid x idx e))))
    \/ (cli a strs ks lang = PRaise "Exit(1)" /\
        exists err, MP.make_problem (GPE.massign fid x idx e) mfs = EA.Error err).
Proof.
  intros a x idx e strs mfs ks lang fid Ha Hs Hnd.
  assert (Hnd' : NoDup (map fst (on_snd lift_i mfs))) by (rewrite on_snd_keys; exact Hnd).
  rewrite (compose_cli_request a _ strs _ ks lang Ha Hs Hnd'). rewrite lift_i_t.
  unfold GP.tensor_method_problem.
  destruct (GP.make_problem (GPE.gassign x idx e) (GVal.lift_formats mfs)) as [[p|ex]|ex] eqn:MK.
  - left. destruct (GPE.gen_make_problem_effective_formats fid x idx e mfs p MK)
      as (_ & fs' & -> & K & G & I & _).
    exists fs'. cbn [GT.rbind GP.unwrap_or_raise]. unfold problem_t2l.
    cbn [GT.Problem_assignment GT.Problem_formats]. rewrite lift_t_i. repeat split; assumption.
  - right. cbn [GT.rbind GP.unwrap_or_raise]. split; [reflexivity|].
    exists (GPE.kind ex). exact (GPE.gen_make_problem_failure fid x idx e mfs ex MK).
  - exfalso. destruct (make_problem_parsed a _ mfs Ha) as (x' & idx' & e' & E & _ & MPK).
    rewrite MK in MPK. exact MPK.
Qed.

(** without options: every tensor all-dense, in the order output, then first appearance *)
Corollary compose_cli_no_options_all_dense :
  forall (a : string) x idx e ks lang (fid : F -> Z),
    GG.parse_assignment fl gen_post a = GG.PSuccess (Parsita.VU (GG.UAsg (GPE.gassign x idx e))) ->
    exists fs' : list (string * MP.format),
      cli a GL.cli_default_format_strings ks lang
      = emit generate_code (GL.MkProblem (GPE.gassign x idx e) (on_snd lift_i fs')) ks lang /\
      EA.akeys fs' = x :: EA.sdedup (map EA.t_name (EA.occurrences (GV.convA fid e))) /\
      forall n f, In (n, f) fs' ->
        exists o, In (n, o) (EA.variable_orders (GPE.massign fid x idx e)) /\ f = MP.dense_format o.
Proof.
  intros a x idx e ks lang fid Ha.
  destruct (compose_cli_effective_formats a x idx e GL.cli_default_format_strings [] ks lang fid Ha
              eq_refl (NoDup_nil _)) as [(fs' & C & K & G & _)|[C [err ME]]].
  - exists fs'. repeat split; try assumption. intros n f Hin.
    destruct (G n f Hin) as [S|[_ D]]; [discriminate S | exact D].
  - exfalso.
    destruct (compose_parsed_is_object fl a _ Ha) as (x' & idx' & e' & E & Hobj).
    inversion E; subst x' idx' e'. destruct (Hobj fid) as [CK _].
    destruct (TV.proofs.ProblemSpec.make_problem_spec (GPE.massign fid x idx e) []) as (_ & _ & _ & S4).
    destruct S4 as [p Hp].
    + unfold EA.variable_orders, EA.akeys. cbn [map fst]. constructor.
      * rewrite map_map. cbn [fst].
        change (map (fun x0 : string * list EA.tref => fst x0) (EA.variables (EA.a_expr (GPE.massign fid x idx e))))
          with (EA.akeys (EA.variables (EA.a_expr (GPE.massign fid x idx e)))).
        intros Hin. unfold EA.assignment_check in CK.
        destruct (EA.check_variables _ _) eqn:CV; [|discriminate CK].
        clear CK. revert Hin CV. cbn [EA.a_target EA.a_expr GPE.massign EA.t_name].
        generalize (EA.variables (GV.convA fid e)). induction l as [|[n refs] l IH]; cbn; [tauto|].
        intros [->|Hin]; [rewrite String.eqb_refl; discriminate|].
        destruct (String.eqb n x); [discriminate|]. destruct refs; [discriminate|].
        destruct (forallb _ refs); [apply IH; exact Hin | discriminate].
      * rewrite map_map. cbn [fst]. apply VV.variables_NoDup.
    + intros n Hn. destruct Hn.
    + intros n f o Hn. discriminate Hn.
    + rewrite Hp in ME. discriminate ME.
Qed.

End Cli.

(* ------------------------------------------------------------------------------------------ *)
(** * a non-trivial instance of the hypotheses (by computation: the regenerated grammar run by the interpreter,
      the regenerated __post_init__ as its hook) *)

Lemma cli_hypotheses_instance :
  GG.parse_assignment (fun _ => F0) gen_post "y(i) = A(i,j) * x(j)"
  = GG.PSuccess (Parsita.VU (GG.UAsg (GPE.gassign "y" ["i"]
      (GD.ExMultiply (GD.ExTensor "A" ["i"; "j"]) (GD.ExTensor "x" ["j"])))))
  /\ map parse_named_format_cli ["A:d1s0"; "x:s"]
     = map inl (on_snd lift_i [("A", MP.Format [MP.Dense; MP.Compressed] [1; 0]%nat);
                               ("x", MP.Format [MP.Compressed] [0]%nat)])
  /\ GG.parse_assignment (fun _ => F0) gen_post "a(i) = a(i) + b(i)" = GG.PFailure "MutatingAssignmentError"
  /\ parse_named_format_cli "A:d0d0" = inr "InvalidModeOrderingError".
Proof. repeat split; vm_compute; reflexivity. Qed.
