(** * TIE "graphs": final statements (base lemmas: GenGraphs_base.v; simplify_add: GenGraphs_simplify.v) *)
From Coq Require Import ZArith List Bool String Lia Arith ZifyBool.
From TV Require Import spec.Num spec.PyBase spec.PyLib model.GraphsIter.
From TV Require Import gen.ExhaustAst gen.Exhaust gen.Desugar.
From TV Require model.Graphs model.OutputOrder.
From TV Require Import proofs.GraphsInd.
From TV Require Import gen.IterGraphs.
From TV Require Export proofs.GenGraphs_base proofs.GenGraphs_simplify.
Import ListNotations.
Open Scope list_scope.

Definition gen_legal_iteration_orders_equiv := legal_iteration_orders_equiv.
Definition gen_merge_add_equiv := merge_add_equiv.
Definition gen_merge_multiply_equiv := merge_multiply_equiv.
Definition gen_contains_contraction_equiv := contains_contraction_equiv.
Definition gen_pending_compressed_equiv := pending_equiv.
Definition gen_target_order_supported_equiv := supported_equiv.
Definition gen_tensor_graphs_equiv := tensor_graphs_equiv.
Definition gen_simplify_add_equiv := simplify_hyp_holds.

Theorem gen_merge_assignment_equiv : forall fval ol bottom e tgt, tgt_ok ol tgt ->
  merge_assignment (tgt_graph fval bottom tgt) (up_graph fval e) ol
  = (map (up_graph fval) (M.merge_assignment e tgt), None).
Proof. intros fval. exact (merge_assignment_equiv fval (simplify_hyp_holds fval)). Qed.

Theorem gen_expr_graphs_equiv : forall fval e fs c,
  rel fval (to_iteration_graphs_expression (up_dexpr fval e) (up_formats fs)) (M.expr_graphs e fs c).
Proof. intros fval. exact (expr_graphs_equiv fval (simplify_hyp_holds fval)). Qed.

(** ** the top level: to_iteration_graphs *)
From TV Require proofs.GraphsAssign proofs.GraphsOrders proofs.GraphsMerge.

(** the model of TODAY's source: model/Graphs.v's [to_iteration_graphs] with the filter of commit
    601f2d3 on the target chains (generator laziness: the expression generator is created only when
    some target order is supported) *)
Definition to_iteration_graphs_src (a : M.dassign) (fs : M.formats) : M.res (list M.graph) :=
  match M.target_chains (M.a_target a) fs with
  | M.ROk chains =>
      match filter target_supported chains with
      | [] => M.ROk []
      | sup =>
          match M.expr_graphs (M.a_expr a) fs 1 with
          | M.ROk es => M.ROk (flat_map (fun tgt => flat_map (fun e => M.merge_assignment e tgt) es) sup)
          | M.RDiagonal => M.RDiagonal
          | M.RIllFormed => M.RIllFormed
          end
      end
  | M.RDiagonal => M.RDiagonal
  | M.RIllFormed => M.RIllFormed
  end.

(** what Format.__post_init__ guarantees and the filters need: every output layer has a mode *)
Definition target_fmt_ok (a : M.dassign) (fs : M.formats) : bool :=
  match M.lookup (M.d_name (M.a_target a)) fs with
  | Some f => Nat.leb (List.length (M.f_ordering f)) (List.length (M.f_modes f))
  | None => true
  end.

Lemma dict_get_set_same : forall V k (v : V) d, dict_get String.eqb k (dict_set String.eqb k v d) = Some v.
Proof.
  induction d as [|[k' v'] r IH]; cbn [dict_set dict_get]; [now rewrite String.eqb_refl|].
  destruct (String.eqb k k') eqn:E; cbn [dict_get]; rewrite E; [reflexivity | exact IH].
Qed.

Lemma dict_get_set_other : forall V k k' (v : V) d, k <> k' ->
  dict_get String.eqb k (dict_set String.eqb k' v d) = dict_get String.eqb k d.
Proof.
  intros V k k' v d Hne. induction d as [|[k2 v2] r IH]; cbn [dict_set dict_get].
  - apply String.eqb_neq in Hne. now rewrite Hne.
  - destruct (String.eqb k' k2) eqn:E; cbn [dict_get].
    + apply String.eqb_eq in E. subst k2. apply String.eqb_neq in Hne. now rewrite Hne.
    + destruct (String.eqb k k2); [reflexivity | exact IH].
Qed.

Definition dict_of {V} (kvs : list (string * V)) (d : pydict string V) : pydict string V :=
  fold_left (fun d kv => dict_set String.eqb (fst kv) (snd kv) d) kvs d.

Lemma dict_of_other : forall V (kvs : list (string * V)) d k,
  ~ In k (map fst kvs) -> dict_get String.eqb k (dict_of kvs d) = dict_get String.eqb k d.
Proof.
  induction kvs as [|[k0 v0] r IH]; intros d k Hn; [reflexivity|].
  cbn [dict_of fold_left fst snd]. fold (dict_of r (dict_set String.eqb k0 v0 d)).
  rewrite IH by (intros C; apply Hn; now right).
  apply dict_get_set_other. intros ->. apply Hn. now left.
Qed.

Lemma dict_of_get : forall V (kvs : list (string * V)) d k v,
  NoDup (map fst kvs) -> In (k, v) kvs -> dict_get String.eqb k (dict_of kvs d) = Some v.
Proof.
  induction kvs as [|[k0 v0] r IH]; intros d k v Hnd Hin; [destruct Hin|].
  cbn [dict_of fold_left fst snd]. fold (dict_of r (dict_set String.eqb k0 v0 d)).
  cbn [map fst] in Hnd. inversion Hnd as [|? ? Hn0 Hnd']; subst.
  destruct Hin as [E|Hin].
  - injection E as -> ->. rewrite dict_of_other by assumption. apply dict_get_set_same.
  - now apply IH.
Qed.

Lemma g_for_ext_in : forall A B (b1 b2 : B -> pgen A) items stop,
  (forall x, In x items -> b1 x = b2 x) -> g_for (items, stop) b1 = g_for (items, stop) b2.
Proof.
  intros A B b1 b2 items stop. unfold g_for. cbn [fst snd].
  induction items as [|x r IH]; intros H; [reflexivity|].
  cbn [g_for_items]. rewrite (H x (or_introl eq_refl)), IH by (intros; apply H; now right). reflexivity.
Qed.

Lemma g_for_filter_raise : forall A B (p : B -> bool) e items,
  g_for (items, None) (fun x => if p x then (@nil A, Some e) else g_done)
  = match filter p items with [] => ([], None) | _ => ([], Some e) end.
Proof.
  intros A B p e. unfold g_for. cbn [fst snd].
  induction items as [|x r IH]; [reflexivity|].
  cbn [g_for_items filter]. destruct (p x); [reflexivity|].
  rewrite IH. destruct (filter p r); reflexivity.
Qed.

Lemma g_for_filter_pure : forall A B (p : B -> bool) (h : B -> list A) items,
  g_for (items, None) (fun x => if p x then (h x, None) else g_done)
  = (flat_map h (filter p items), None).
Proof.
  intros A B p h items.
  rewrite (g_for_pure _ _ (fun x => if p x then h x else [])).
  - f_equal. induction items as [|x r IH]; [reflexivity|]. cbn [flat_map filter].
    destruct (p x); cbn [flat_map]; now rewrite IH.
  - intros x _. destruct (p x); reflexivity.
Qed.

Lemma chain_of_target_chain : forall tr o,
  M.chain_indexes (M.t_indexes tr) o = option_map (map fst) (M.target_chain tr o).
Proof.
  intros tr. induction o as [|x r IH]; [reflexivity|].
  unfold M.target_chain in *. cbn [map M.chain_indexes M.sequence].
  destruct (nth_error (M.t_indexes tr) x); [|reflexivity].
  rewrite IH. destruct (M.sequence _); reflexivity.
Qed.

Lemma sequence_option_map : forall A B C (F : A -> option B) (g : B -> C) l,
  M.sequence (map (fun x => option_map g (F x)) l) = option_map (map g) (M.sequence (map F l)).
Proof.
  induction l as [|x r IH]; [reflexivity|]. cbn [map M.sequence].
  destruct (F x); cbn [option_map]; [|reflexivity]. rewrite IH. destruct (M.sequence (map F r)); reflexivity.
Qed.

Lemma permute_indexes_Forall2 : forall idx ord ivs,
  M.permute_indexes idx ord = Some ivs -> Forall2 (fun o i => nth_error idx o = Some i) ord ivs.
Proof.
  induction ord as [|o r IH]; intros ivs H; cbn [M.permute_indexes] in H.
  - injection H as <-. constructor.
  - destruct (nth_error idx o) eqn:E; [|discriminate].
    destruct (M.permute_indexes idx r) eqn:E2; [|discriminate]. injection H as <-. constructor; auto.
Qed.

Lemma map_fst_combine_seq : forall V (g : nat -> V) (ivs : list string) k,
  map fst (combine ivs (map g (seq k (List.length ivs)))) = ivs.
Proof. induction ivs as [|i r IH]; intros k; [reflexivity|]. cbn. now rewrite IH. Qed.

Lemma In_combine_seq : forall V (g : nat -> V) (ivs : list string) k j i,
  nth_error ivs j = Some i -> In (i, g (k + j)%nat) (combine ivs (map g (seq k (List.length ivs)))).
Proof.
  induction ivs as [|x r IH]; intros k j i H; [destruct j; discriminate|].
  destruct j as [|j]; cbn in *.
  - injection H as ->. left. now rewrite Nat.add_0_r.
  - right. replace (k + S j)%nat with (S k + j)%nat by lia. now apply IH.
Qed.

Definition layers_dict (tr : M.tref) : pydict string TensorLayer :=
  dict_of (combine (M.t_indexes tr)
             (map (fun j => up_ol (M.mkOL tr j)) (seq 0 (List.length (M.t_indexes tr))))) [].

Lemma target_chain_ok : forall tr o tgt,
  NoDup (M.t_indexes tr) -> (List.length (M.t_indexes tr) <= List.length (M.t_modes tr))%nat ->
  M.target_chain tr o = Some tgt -> tgt_ok (layers_dict tr) tgt.
Proof.
  intros tr o tgt Hnd Hlen. revert tgt. unfold M.target_chain.
  induction o as [|x r IH]; intros tgt H; cbn [map M.sequence] in H.
  - injection H as <-. intros i l [].
  - destruct (nth_error (M.t_indexes tr) x) as [ix|] eqn:Ex; [|discriminate].
    destruct (M.sequence _) as [tg'|] eqn:E2; [|discriminate]. injection H as <-.
    intros i l [E|Hin]; [|now apply (IH tg' eq_refl)].
    injection E as <- <-. split.
    + unfold layers_dict. apply dict_of_get.
      * now rewrite map_fst_combine_seq.
      * apply (In_combine_seq _ (fun j => up_ol (M.mkOL tr j)) _ 0 x ix Ex).
    + unfold M.ol_mode. cbn [M.ol_tensor M.ol_layer]. apply nth_error_Some.
      assert (x < List.length (M.t_indexes tr))%nat by (apply nth_error_Some; congruence). lia.
Qed.

Section DictLoop.
  Variable tr : M.tref.
  Variable idx : list string.
  Variable dstep : pydict string TensorLayer -> Z * Z -> pres (pydict string TensorLayer).
  Hypothesis dstep_ok : forall d k o i, nth_error idx o = Some i ->
    dstep d (Z.of_nat k, Z.of_nat o) = POk (dict_set String.eqb i (up_ol (M.mkOL tr k)) d).

  Lemma dict_loop : forall ord ivs k d,
    Forall2 (fun o i => nth_error idx o = Some i) ord ivs ->
    r_fold dstep (py_enumerate_from (Z.of_nat k) (map Z.of_nat ord)) d
    = POk (dict_of (combine ivs (map (fun j => up_ol (M.mkOL tr j)) (seq k (List.length ivs)))) d).
  Proof.
    intros ord ivs k d H. revert k d. induction H as [|o i ord' ivs' Hoi _ IH]; intros k d; [reflexivity|].
    cbn [map py_enumerate_from]. rewrite r_fold_cons, (dstep_ok _ _ _ _ Hoi).
    replace (Z.of_nat k + 1)%Z with (Z.of_nat (S k)) by lia. rewrite IH. reflexivity.
  Qed.
End DictLoop.

Lemma rel_sup_ok : forall fval (F : list (list M.tlayer) -> list M.graph) sup, F [] = [] ->
  rel fval (map (up_graph fval) (F sup), None)
      (match sup with [] => M.ROk [] | x :: r => M.ROk (F (x :: r)) end).
Proof. intros fval F [|x r] H; cbn [rel]; [now rewrite H | reflexivity]. Qed.

Lemma rel_sup_raise : forall fval (sup : list (list M.tlayer)) e r,
  rel fval ([], Some e) r ->
  rel fval (match sup with [] => ([], None) | _ :: _ => ([], Some e) end)
      (match sup with [] => M.ROk [] | _ :: _ => r end).
Proof. intros fval [|x l] e r H; [reflexivity | exact H]. Qed.

Lemma g_for_id : forall A (l : list A), g_for (l, None) (fun g => g_yield g) = (l, None).
Proof. intros. rewrite (g_for_yield _ _ (fun x => x)). now rewrite map_id. Qed.

Theorem to_iteration_graphs_equiv : forall fval a fs,
  target_fmt_ok a fs = true ->
  rel fval (to_iteration_graphs (up_assign fval a) (up_formats fs)) (to_iteration_graphs_src a fs).
Proof.
  intros fval [[tid tname tidx] e] fs Hfmt.
  unfold to_iteration_graphs_src, M.target_chains, M.identify, target_fmt_ok in *.
  cbn [M.a_target M.a_expr M.d_name M.d_id M.d_indexes] in *.
  unfold to_iteration_graphs, up_assign.
  cbn [M.a_target M.a_expr up_dexpr M.d_id M.d_name M.d_indexes de_assignment_target
       de_assignment_expression de_expr_get_name de_expr_get_indexes de_expr_get_id r_bind].
  rewrite dict_get_up_formats.
  destruct (M.lookup tname fs) as [f|] eqn:El; cbn [option_map r_of_opt g_bind];
    [|exists "KeyError"%string; split; [reflexivity | discriminate]].
  cbn [up_format Format_ordering Format_modes].
  match goal with |- context [r_fold ?st (py_enumerate _) []] => set (dstep := st) end.
  pose proof (permute_indexes_up tidx (M.f_ordering f)) as PU.
  destruct (M.permute_indexes tidx (M.f_ordering f)) as [ivs|] eqn:Ep.
  - set (tr := M.mkT tid tname ivs (M.f_modes f)).
    assert (DS : forall d k o i, nth_error tidx o = Some i ->
              dstep d (Z.of_nat k, Z.of_nat o) = POk (dict_set String.eqb i (up_ol (M.mkOL tr k)) d)).
    { intros d k o i Hoi. unfold dstep. rewrite py_getitem_nat, Hoi. cbn [r_of_opt r_bind].
      match goal with |- context [r_map ?g _] =>
        change g with (fun i0 => r_of_opt "IndexError" (py_getitem tidx i0)) end.
      rewrite PU. reflexivity. }
    unfold py_enumerate.
    pose proof (dict_loop tr tidx dstep DS _ _ 0%nat [] (permute_indexes_Forall2 _ _ _ Ep)) as DL.
    simpl (Z.of_nat 0) in DL.
    match type of DL with ?L = _ =>
      match goal with |- context [r_fold dstep ?xs ?init] => change (r_fold dstep xs init) with L end end.
    rewrite DL. clear DL.
    cbn [g_bind].
    change (dict_of (combine ivs (map (fun j => up_ol (M.mkOL tr j)) (seq 0 (List.length ivs)))) [])
      with (layers_dict tr). clear DS dstep.
    change (DeTensor (Z.of_nat tid) tname tidx) with (up_dexpr fval (M.DTensor (M.mkDT tid tname tidx))).
    pose proof (tensor_graphs_equiv fval (M.mkDT tid tname tidx) fs) as RT.
    unfold M.tensor_graphs, M.identify in RT. cbn [M.d_name M.d_id M.d_indexes] in RT.
    rewrite El, Ep in RT. fold tr in RT |- *. cbn [M.t_indexes tr] in RT |- *.
    destruct (M.nodupb ivs) eqn:End; cbn [negb] in RT |- *.
    2:{ cbn [rel] in RT |- *. rewrite RT. reflexivity. }
    assert (Hnd : NoDup (M.t_indexes tr)) by (apply GraphsMerge.nodupb_NoDup; exact End).
    assert (Hlen : (List.length (M.t_indexes tr) <= List.length (M.t_modes tr))%nat).
    { cbn [M.t_indexes M.t_modes tr]. apply Nat.leb_le in Hfmt.
      assert (List.length ivs = List.length (M.f_ordering f)).
      { pose proof (permute_indexes_Forall2 _ _ _ Ep) as F2. clear -F2. induction F2; cbn; congruence. }
      lia. }
    replace (map (M.chain_indexes ivs) (M.legal_iteration_orders f))
      with (map (fun o => option_map (map fst) (M.target_chain tr o)) (M.legal_iteration_orders f)) in RT
      by (apply map_ext; intros o; symmetry; apply (chain_of_target_chain tr o)).
    rewrite sequence_option_map in RT. unfold M.tlayer in *.
    match type of RT with context [option_map _ ?X] =>
      match goal with |- context [M.sequence ?Y] => change (M.sequence Y) with X end;
      destruct X as [cs|] eqn:Ecs
    end; cbn [option_map rel] in RT |- *.
    2:{ destruct RT as [x [-> Hx]]. exists x. split; [reflexivity | assumption]. }
    rewrite RT, !map_map, g_for_map.
    assert (Hok : forall tgt, In tgt cs -> tgt_ok (layers_dict tr) tgt).
    { intros tgt Hin. pose proof (S.sequence_Forall2 _ _ _ _ _ Ecs) as F2.
      clear -F2 Hin Hnd Hlen. induction F2 as [|o c os cs' Hc _ IH]; [destruct Hin|].
      destruct Hin as [<-|Hin]; [eapply target_chain_ok; eauto | auto]. }
    pose proof (gen_expr_graphs_equiv fval e fs 1) as RE.
    set (EG := to_iteration_graphs_expression (up_dexpr fval e) (up_formats fs)) in *.
    (* the body of the loop over the target orders *)
    rewrite (g_for_ext_in _ _ _
      (fun tgt => if target_supported tgt
                  then g_for EG (fun eg => g_for (merge_assignment (tgt_graph fval (M.ITensor tr) tgt) eg (layers_dict tr))
                                                  (fun graph => g_yield graph))
                  else g_done)).
    2:{ intros tgt Hin. cbv beta.
        change (up_graph fval (M.chain_graph (map fst tgt) (M.TerminalNode (M.ITensor tr))))
          with (tgt_graph fval (M.ITensor tr) tgt).
        rewrite (supported_equiv fval _ (M.ITensor tr) tgt (Hok tgt Hin)). cbn [r_bind g_bind].
        destruct (target_supported tgt); reflexivity. }
    destruct (M.expr_graphs e fs 1) as [es| |]; cbn [rel] in RE.
    + rewrite RE.
      rewrite (g_for_ext_in _ _ _
        (fun tgt => if target_supported tgt
                    then (map (up_graph fval) (flat_map (fun e0 => M.merge_assignment e0 tgt) es), None)
                    else g_done)).
      2:{ intros tgt Hin. destruct (target_supported tgt); [|reflexivity].
          rewrite g_for_map.
          rewrite (g_for_pure _ _ (fun e0 => map (up_graph fval) (M.merge_assignment e0 tgt))).
          - f_equal. rewrite !flat_map_concat_map, concat_map, !map_map. reflexivity.
          - intros e0 _. rewrite (gen_merge_assignment_equiv fval _ _ e0 tgt (Hok tgt Hin)). apply g_for_id. }
      rewrite g_for_filter_pure.
      assert (E : forall sup, flat_map (fun x => map (up_graph fval) (flat_map (fun e0 => M.merge_assignment e0 x) es)) sup
                  = map (up_graph fval) (flat_map (fun tgt => flat_map (fun e0 => M.merge_assignment e0 tgt) es) sup)).
      { intros sup. rewrite !flat_map_concat_map, concat_map, !map_map. reflexivity. }
      rewrite E.
      apply (rel_sup_ok fval (fun s => flat_map (fun tgt => flat_map (fun e0 => M.merge_assignment e0 tgt) es) s)).
      reflexivity.
    + rewrite RE.
      rewrite (g_for_ext_in _ _ _
        (fun tgt => if target_supported tgt then ([], Some "DiagonalAccessError"%string) else g_done))
        by (intros tgt _; destruct (target_supported tgt); reflexivity).
      rewrite g_for_filter_raise. apply rel_sup_raise. reflexivity.
    + destruct RE as [x [RE Hx]]. rewrite RE.
      rewrite (g_for_ext_in _ _ _
        (fun tgt => if target_supported tgt then ([], Some x) else g_done))
        by (intros tgt _; destruct (target_supported tgt); reflexivity).
      rewrite g_for_filter_raise. apply rel_sup_raise. exists x. split; [reflexivity | assumption].
  - (* the tuple of index variables cannot be built: the first step of the dictionary loop raises *)
    destruct (M.f_ordering f) as [|o r] eqn:Eo; [discriminate|].
    cbn [rel]. exists "IndexError"%string. split; [|discriminate].
    unfold py_enumerate. cbn [map py_enumerate_from]. rewrite r_fold_cons.
    replace (dstep [] (0%Z, Z.of_nat o)) with (@PRaise (pydict string TensorLayer) "IndexError"); [reflexivity|].
    unfold dstep. change 0%Z with (Z.of_nat 0). rewrite py_getitem_nat.
    destruct (nth_error tidx o); cbn [r_of_opt r_bind]; [|reflexivity].
    match goal with |- context [r_map ?g _] =>
      change g with (fun i0 => r_of_opt "IndexError" (py_getitem tidx i0)) end.
    rewrite PU. reflexivity.
Qed.

(** ** the C08 theorems about the enumeration of TODAY's source *)
Module O := TV.model.OutputOrder.
From TV Require proofs.OutputOrderWalk.
Module W := TV.proofs.OutputOrderWalk.

(** generate_code over the source's enumeration *)
Definition generate_src (a : M.dassign) (fs : M.formats) (ks : list O.kind) : O.outcome :=
  O.generate_r a fs (to_iteration_graphs_src a fs) ks.

Lemma generate_r_internal_iff : forall a fs r ks,
  O.generate_r a fs r ks = O.InternalAppendNextOutput
  <-> (O.first_graph_bad_r a fs r = true /\ ks <> []).
Proof.
  intros a fs r ks. unfold O.generate_r, O.first_graph_bad_r, O.generate_from.
  destruct (O.output_modes a fs) as [modes|]; [|split; [discriminate | intros [H _]; discriminate]].
  destruct (M.best_of r) as [g| | |]; try (split; [discriminate | intros [H _]; discriminate]).
  destruct ks as [|k ks].
  - simpl. split; [discriminate | intros [_ H]; congruence].
  - destruct (O.graph_bad modes g) eqn:B.
    + rewrite (W.generate_all_bad _ _ _ _ B). split; [intros _; split; [reflexivity | discriminate] | reflexivity].
    + pose proof (W.generate_all_not_bad modes g (k :: ks) B).
      destruct (O.generate_all modes g (k :: ks)) as [u|[|]]; split; try discriminate; try congruence;
        intros [? _]; discriminate.
Qed.

Theorem gen_internal_iff_first_graph_bad : forall a fs ks,
  generate_src a fs ks = O.InternalAppendNextOutput
  <-> (O.first_graph_bad_r a fs (to_iteration_graphs_src a fs) = true /\ ks <> []).
Proof. intros. apply generate_r_internal_iff. Qed.

(** the source's enumeration is a sub-enumeration of the hand model's *)
Lemma src_sub_model : forall a fs,
  match M.to_iteration_graphs a fs with
  | M.ROk gs => exists gs', to_iteration_graphs_src a fs = M.ROk gs' /\ incl gs' gs
  | M.RDiagonal => to_iteration_graphs_src a fs = M.RDiagonal \/ to_iteration_graphs_src a fs = M.ROk []
  | M.RIllFormed => True
  end.
Proof.
  intros a fs. unfold M.to_iteration_graphs, to_iteration_graphs_src.
  destruct (M.target_chains (M.a_target a) fs) as [chains| |]; [|now left | exact I].
  assert (Hincl : incl (filter target_supported chains) chains) by (intros x Hx; now apply filter_In in Hx).
  destruct chains as [|c0 cs]; [exists []; split; [reflexivity | apply incl_refl]|].
  destruct (M.expr_graphs (M.a_expr a) fs 1) as [es| |].
  - destruct (filter target_supported (c0 :: cs)) as [|s0 ss] eqn:Ef.
    + exists []. split; [reflexivity | intros x []].
    + eexists. split; [reflexivity|]. intros g Hg.
      apply in_flat_map in Hg as [tgt [Ht Hg]]. apply in_flat_map. exists tgt. split; [apply Hincl; exact Ht | exact Hg].
  - destruct (filter target_supported (c0 :: cs)); [now right | now left].
  - exact I.
Qed.

Lemma src_not_ill_formed : forall a fs,
  M.to_iteration_graphs a fs <> M.RIllFormed -> to_iteration_graphs_src a fs <> M.RIllFormed.
Proof.
  intros a fs H. unfold M.to_iteration_graphs, to_iteration_graphs_src in *.
  destruct (M.target_chains (M.a_target a) fs) as [chains| |]; [|discriminate | exact H].
  destruct chains as [|c0 cs]; [discriminate|].
  destruct (filter target_supported (c0 :: cs)); [discriminate|].
  destruct (M.expr_graphs (M.a_expr a) fs 1); [discriminate | discriminate | exact H].
Qed.

Theorem gen_generate_outcomes_typed_partial : forall a fs ks,
  O.wf_problem a fs = true -> W.typed_partial (generate_src a fs ks).
Proof.
  intros a fs ks WF. destruct (GraphsAssign.to_iteration_graphs_wf _ _ WF) as [NI NM].
  pose proof (src_not_ill_formed a fs NI) as NI'. pose proof (src_sub_model a fs) as SUB.
  unfold generate_src, O.generate_r, O.generate_from, W.typed_partial.
  destruct (O.output_modes a fs) as [modes|] eqn:EM; [|contradiction].
  destruct (M.best_of (to_iteration_graphs_src a fs)) as [g| | |] eqn:EB; auto.
  - destruct (W.best_of_in _ _ EB) as [gs' [Er Hin]].
    destruct (M.to_iteration_graphs a fs) as [gs| |] eqn:E0.
    + destruct SUB as [gs'' [E'' Hincl]]. rewrite Er in E''. injection E'' as <-.
      pose proof (GraphsAssign.to_iteration_graphs_complete _ _ _ _ E0 EM) as C. rewrite Forall_forall in C.
      destruct (C _ (Hincl _ Hin)) as [T G].
      pose proof (W.generate_all_no_write T modes g ks G).
      destruct (O.generate_all modes g ks) as [u|[|]]; auto. contradiction.
    + destruct SUB as [E|E]; rewrite E in Er; [discriminate|]. injection Er as <-. destruct Hin.
    + contradiction.
  - exfalso. destruct (to_iteration_graphs_src a fs) as [[|]| |]; simpl in EB; try discriminate. contradiction.
Qed.
