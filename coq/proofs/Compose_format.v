(** COMPOSE (2b) -- the output FORMAT string of an operator request, parsed by the regenerated format grammar
    (gen/GrammarGen.v [parse_format]), is the request's format.  model/Operators.v's [format] / [format_deparse]
    are related to model/FormatParser.v's (C12) by [mo2fp]; then TIE grammar's format round trip applies. *)

From Coq Require Import String Ascii List NArith ZArith Bool Arith Lia Decimal DecimalString.
From TV Require Import spec.Num spec.PyBase spec.PyLib proofs.PyLibFacts.
From TV Require model.Parser model.FormatParser model.Operators model.Parsita gen.GrammarGen gen.TensorOps.
From TV Require proofs.GenDeparse_equiv proofs.GenGrammarFormat_equiv proofs.GenOperators_equiv.
From TV Require Import proofs.Compose_post proofs.Compose_operators.
Import ListNotations.
Open Scope string_scope.
Open Scope list_scope.

Module FP := TV.model.FormatParser.
Module GFE := TV.proofs.GenGrammarFormat_equiv.

Definition mo2fp_mode (m : MO.mode) : FP.mode :=
  match m with MO.MDense => FP.MDense | MO.MCompressed => FP.MCompressed end.
Definition mo2fp (f : MO.format) : FP.format :=
  FP.Format (map mo2fp_mode (MO.f_modes f)) (map N.of_nat (MO.f_ordering f)).

Lemma las_concat_empty : forall l, las (String.concat "" l) = flat_map las l.
Proof.
  induction l as [|x [|y r] IH]; [reflexivity | cbn; rewrite app_nil_r; reflexivity |].
  change (String.concat "" (x :: y :: r)) with (x ++ String.concat "" (y :: r))%string.
  rewrite GDE.las_app, IH. reflexivity.
Qed.

Lemma las_nat_str : forall n, las (MO.nat_str n) = P.show_N (N.of_nat n).
Proof.
  intros n. rewrite <- GOE.show_Z_nat_str, GDE.show_Z_model by apply Nat2Z.is_nonneg.
  f_equal. rewrite <- nat_N_Z. apply N2Z.id.
Qed.

Lemma nat_list_eqb_spec : forall a b, list_eqb Nat.eqb a b = true <-> a = b.
Proof.
  induction a as [|x a IH]; intros [|y b]; cbn; split; intros E; try discriminate; try reflexivity.
  - apply andb_true_iff in E as [E1 E2]. apply Nat.eqb_eq in E1. apply IH in E2. subst. reflexivity.
  - inversion E; subst. rewrite Nat.eqb_refl. apply IH. reflexivity.
Qed.

Lemma map_of_nat_inj : forall a b, map N.of_nat a = map N.of_nat b -> a = b.
Proof.
  induction a as [|x a IH]; intros [|y b] E; try discriminate; [reflexivity|].
  cbn in E. inversion E as [[E1 E2]]. apply Nat2N.inj in E1. f_equal; auto.
Qed.

Lemma natural_test : forall ord n,
  FP.list_N_eqb (map N.of_nat ord) (FP.range n) = list_eqb Nat.eqb ord (MO.natural n).
Proof.
  intros ord n. unfold FP.list_N_eqb, FP.range, MO.natural.
  destruct (list_eq_dec N.eq_dec (map N.of_nat ord) (map N.of_nat (seq 0 n))) as [E|NE].
  - apply map_of_nat_inj in E. symmetry. apply nat_list_eqb_spec. exact E.
  - destruct (list_eqb Nat.eqb ord (seq 0 n)) eqn:B; [|reflexivity].
    apply nat_list_eqb_spec in B. subst. contradiction.
Qed.

Lemma plain_chars : forall ms,
  map FP.mode_char (map mo2fp_mode ms) = flat_map las (map MO.mode_char ms).
Proof. induction ms as [|[] ms IH]; cbn; [reflexivity | rewrite IH; reflexivity ..]. Qed.

Lemma ordered_chars : forall ms os,
  flat_map (fun p => FP.mode_char (fst p) :: P.show_N (snd p)) (combine (map mo2fp_mode ms) (map N.of_nat os))
  = flat_map las (map (fun mo => (MO.mode_char (fst mo) ++ MO.nat_str (snd mo))%string) (combine ms os)).
Proof.
  induction ms as [|m ms IH]; intros [|o os]; try reflexivity.
  cbn [map combine flat_map fst snd]. rewrite IH, GDE.las_app, las_nat_str.
  destruct m; reflexivity.
Qed.

(** Format.deparse of the two models agree *)
Theorem deparse_format_mo : forall f,
  List.length (MO.f_modes f) = List.length (MO.f_ordering f) ->
  FP.deparse_format (mo2fp f) = Some (las (MO.format_deparse f)).
Proof.
  intros [ms os] L. cbn [MO.f_modes MO.f_ordering] in L.
  unfold FP.deparse_format, MO.format_deparse, mo2fp.
  cbn [FP.modes FP.ordering MO.f_modes MO.f_ordering].
  rewrite map_length, natural_test.
  destruct (list_eqb Nat.eqb os (MO.natural (List.length ms))).
  - rewrite las_concat_empty, plain_chars. reflexivity.
  - assert (E : (List.length ms =? List.length (map N.of_nat os))%nat = true)
      by (rewrite map_length; apply Nat.eqb_eq; exact L).
    rewrite E, las_concat_empty, ordered_chars. reflexivity.
Qed.

Lemma wf_format_mo : forall f,
  List.length (MO.f_modes f) = List.length (MO.f_ordering f) -> MO.valid_format f = true ->
  FP.wf_format (mo2fp f) = true.
Proof.
  intros [ms os] L V. cbn [MO.f_modes MO.f_ordering] in L. unfold MO.valid_format in V.
  cbn [MO.f_modes MO.f_ordering] in V. apply andb_true_iff in V as [V1 V2].
  unfold FP.wf_format, FP.format_constructible, FP.check_ordering, mo2fp.
  cbn [FP.modes FP.ordering MO.f_modes MO.f_ordering]. rewrite !map_length, L, Nat.eqb_refl. cbn [andb].
  apply andb_true_iff. split.
  - rewrite forallb_map'. rewrite forallb_forall in V1 |- *. intros o Ho. specialize (V1 o Ho).
    apply Nat.ltb_lt in V1. apply N.ltb_lt. lia.
  - unfold FP.range. rewrite forallb_map'. rewrite forallb_forall in V2 |- *. intros k Hk.
    specialize (V2 k ltac:(rewrite L; exact Hk)). apply existsb_exists in V2 as [y [Hy E]].
    apply Nat.eqb_eq in E. subst y. apply existsb_exists. exists (N.of_nat k). split; [apply in_map; exact Hy | apply N.eqb_refl].
Qed.

(** the text of a valid format is read back by the regenerated format grammar *)
Theorem format_text_parses : forall f,
  List.length (MO.f_modes f) = List.length (MO.f_ordering f) -> MO.valid_format f = true ->
  GG.parse_format (MO.format_deparse f)
  = GG.PSuccess (Parsita.VU (GG.UFormat (GFE.back_format (mo2fp f)))).
Proof.
  intros f L V. destruct (GFE.gen_format_roundtrip (mo2fp f) (wf_format_mo f L V)) as (s & D & Pf).
  rewrite (deparse_format_mo f L) in D. inversion D; subst s.
  rewrite string_of_list_ascii_of_string in Pf. exact Pf.
Qed.

(* ------------------------------------------------------------------------------------------ *)
(** * the formats of the requests *)

Definition fmt_ok (f : MO.format) : Prop :=
  List.length (MO.f_modes f) = List.length (MO.f_ordering f) /\ MO.valid_format f = true.

Lemma natural_ok : forall ms, fmt_ok (MO.natural_format ms).
Proof.
  intros ms. unfold fmt_ok, MO.natural_format, MO.natural, MO.valid_format. cbn [MO.f_modes MO.f_ordering].
  split; [rewrite seq_length; reflexivity|]. apply andb_true_iff. split.
  - apply forallb_forall. intros o Ho. apply in_seq in Ho. apply Nat.ltb_lt. lia.
  - apply forallb_forall. intros k Hk. apply existsb_exists. exists k. split; [exact Hk | apply Nat.eqb_refl].
Qed.

Lemma operand_ok : forall d m r, MO.wf_operand (MO.OTensor d m r) = true -> fmt_ok (MO.mkFormat m r).
Proof.
  intros d m r W. cbn [MO.wf_operand] in W. apply andb_true_iff in W as [W V].
  apply andb_true_iff in W as [W1 W2]. apply Nat.eqb_eq in W1, W2.
  split; [cbn [MO.f_modes MO.f_ordering]; congruence | exact V].
Qed.

Lemma binary_request_format_ok : forall l r o q,
  MO.wf_operand l = true -> MO.wf_operand r = true ->
  MO.binary_operator_request l r o = MO.Ok q -> fmt_ok (MO.rq_format q).
Proof.
  intros l r o q Wl Wr H. unfold MO.binary_operator_request in H.
  destruct l as [ld lm lo| |], r as [rd rm ro| |]; try discriminate H.
  - destruct (negb (list_eqb Z.eqb ld rd)); [discriminate|]. inversion H; subst. cbn [MO.rq_format]. apply natural_ok.
  - inversion H; subst. cbn [MO.rq_format]. destruct o; first [apply natural_ok | eapply operand_ok; exact Wl].
  - inversion H; subst. cbn [MO.rq_format]. destruct o; first [apply natural_ok | eapply operand_ok; exact Wr].
Qed.

Lemma matmul_request_format_ok : forall l r q, MO.matmul_request l r = MO.Ok q -> fmt_ok (MO.rq_format q).
Proof.
  intros l r q H. unfold MO.matmul_request in H.
  destruct l as [ld lm lo| |], r as [rd rm ro| |]; try discriminate H.
  destruct ld as [|l0 [|l1 [|]]]; try discriminate H;
    destruct rd as [|r0 [|r1 [|]]]; try discriminate H;
    repeat match type of H with
           | (if ?b then _ else _) = _ => destruct b; try discriminate H
           | match ?x with Some _ => _ | None => _ end = _ => destruct x; try discriminate H
           end;
    inversion H; subst; cbn [MO.rq_format]; apply natural_ok.
Qed.

(** end to end: the format string handed to evaluate_tensora by the regenerated operator function, parsed by the
    regenerated format grammar, is the request's output format (operands satisfying the Tensor invariant) *)
Theorem compose_binary_operator_format :
  forall (l r : MO.operand) (o : MO.op) (s f : string) (kw : list (string * GO.argval)),
    MO.wf_operand l = true -> MO.wf_operand r = true ->
    GO.evaluate_binary_operator (GOE.emb l) (GOE.emb r) (MO.op_char o) = GO.Val (GO.Evaluate s f kw) ->
    exists q : MO.request,
      MO.binary_operator_request l r o = MO.Ok q /\
      GG.parse_format f = GG.PSuccess (Parsita.VU (GG.UFormat (GFE.back_format (mo2fp (MO.rq_format q))))).
Proof.
  intros l r o s f kw Wl Wr H.
  destruct (GOE.gen_request_denotes_pointwise l r o s f kw H) as (q & Hq & _ & -> & _).
  exists q. split; [exact Hq|].
  destruct (binary_request_format_ok l r o q Wl Wr Hq) as [L V]. apply format_text_parses; assumption.
Qed.

Theorem compose_matmul_operator_format :
  forall (l r : MO.operand) (s f : string) (kw : list (string * GO.argval)),
    GO.evaluate_matrix_multiplication_operator (GOE.emb l) (GOE.emb r) = GO.Val (GO.Evaluate s f kw) ->
    exists q : MO.request,
      MO.matmul_request l r = MO.Ok q /\
      GG.parse_format f = GG.PSuccess (Parsita.VU (GG.UFormat (GFE.back_format (mo2fp (MO.rq_format q))))).
Proof.
  intros l r s f kw H.
  destruct (GOE.gen_matmul_request_denotes l r s f kw H) as (q & Hq & _ & -> & _).
  exists q. split; [exact Hq|].
  destruct (matmul_request_format_ok l r q Hq) as [L V]. apply format_text_parses; assumption.
Qed.
