(** C12 -- fuel lemmas for the token parser of model/Parser.v:
    consumed-length facts, fuel monotonicity, fuel sufficiency. *)

From Coq Require Import String Ascii List NArith ZArith Bool Arith Lia.
From TV Require Import model.Parser.
Import ListNotations.

(* ------------------------------------------------------------------------------------------ *)
(** * p_names / p_tensor consume what they say *)

Lemma p_names_tail_length_aux :
  forall n ts xs r, length ts <= n -> p_names_tail ts = (xs, r) -> length r <= length ts.
Proof.
  induction n as [|n IH]; intros ts xs r Hn H.
  - destruct ts; [|simpl in Hn; lia]. simpl in H. inversion H; subst. lia.
  - destruct ts as [|t ts]; [simpl in H; inversion H; subst; simpl; lia|].
    destruct t; try (simpl in H; inversion H; subst; simpl; lia).
    destruct ts as [|t2 ts]; [simpl in H; inversion H; subst; simpl; lia|].
    destruct t2; try (simpl in H; inversion H; subst; simpl; lia).
    simpl in H. destruct (p_names_tail ts) as [xs' r'] eqn:E.
    inversion H; subst. simpl in Hn.
    assert (length r <= length ts) by (eapply IH; [lia|eassumption]).
    simpl. lia.
Qed.

Lemma p_names_tail_length :
  forall ts xs r, p_names_tail ts = (xs, r) -> length r <= length ts.
Proof. intros. eapply p_names_tail_length_aux; [apply Nat.le_refl|eassumption]. Qed.

Lemma p_names_length :
  forall ts xs r, p_names ts = (xs, r) -> length r <= length ts.
Proof.
  intros ts xs r H. unfold p_names in H.
  destruct ts as [|t ts]; [inversion H; subst; simpl; lia|].
  destruct t; try (inversion H; subst; simpl; lia).
  destruct (p_names_tail ts) as [xs' r'] eqn:E. inversion H; subst.
  apply p_names_tail_length in E. simpl. lia.
Qed.

Lemma p_tensor_length :
  forall ts x r, p_tensor ts = Ok (x, r) -> length r < length ts.
Proof.
  intros ts x r H. unfold p_tensor in H.
  destruct ts as [|t ts]; [discriminate|].
  destruct t; try discriminate.
  destruct ts as [|t2 ts]; [discriminate|].
  destruct t2; try discriminate.
  destruct (p_names ts) as [idx r'] eqn:E.
  destruct r' as [|t3 r']; [discriminate|].
  destruct t3; try discriminate.
  inversion H; subst. apply p_names_length in E. simpl in *. lia.
Qed.

(* ------------------------------------------------------------------------------------------ *)
(** * every successful parser consumes input; loops never grow it *)

Lemma expect_rp_length :
  forall e ts e' r, expect_rp e ts = Ok (e', r) -> e' = e /\ length r < length ts.
Proof.
  intros e ts e' r H. destruct ts as [|t ts]; [discriminate|].
  destruct t; try discriminate. inversion H; subst. simpl. split; [reflexivity|lia].
Qed.

Lemma parser_lengths :
  forall n,
    (forall ts e r, p_factor n ts = Ok (e, r) -> length r < length ts) /\
    (forall acc ts e r, term_loop n acc ts = Ok (e, r) -> length r <= length ts) /\
    (forall acc ts e r, expr_loop n acc ts = Ok (e, r) -> length r <= length ts).
Proof.
  induction n as [|n [IHf [IHt IHe]]].
  - repeat split; intros; discriminate.
  - assert (Hterm : forall ts e r, bind (p_factor n ts) (term_loop n) = Ok (e, r) ->
                                    length r < length ts).
    { intros ts e r H. destruct (p_factor n ts) as [[f r1]| |] eqn:F; try discriminate.
      simpl in H. apply IHf in F. apply IHt in H. lia. }
    repeat split.
    + intros ts e r H. simpl in H.
      destruct ts as [|t ts]; [discriminate|].
      destruct t; try discriminate.
      * destruct (p_tensor (TName s :: ts)) as [[[x idx] r']| |] eqn:E; try discriminate.
        inversion H; subst. eapply p_tensor_length; eassumption.
      * inversion H; subst. simpl. lia.
      * inversion H; subst. simpl. lia.
      * destruct (bind (p_factor n ts) (term_loop n)) as [[t1 r1]| |] eqn:T; try discriminate.
        simpl in H.
        destruct (expr_loop n t1 r1) as [[e1 r2]| |] eqn:E; try discriminate.
        simpl in H. apply expect_rp_length in H. destruct H as [-> H].
        apply Hterm in T. apply IHe in E. simpl. lia.
    + intros acc ts e r H. simpl in H.
      destruct ts as [|t ts]; [inversion H; subst; simpl; lia|].
      destruct t; try (inversion H; subst; simpl; lia).
      destruct (p_factor n ts) as [[f r1]| |] eqn:F; try discriminate.
      * apply IHf in F. apply IHt in H. simpl. lia.
      * inversion H; subst. simpl. lia.
    + intros acc ts e r H. simpl in H.
      destruct ts as [|t ts]; [inversion H; subst; simpl; lia|].
      destruct t; try (inversion H; subst; simpl; lia).
      * destruct (bind (p_factor n ts) (term_loop n)) as [[t1 r1]| |] eqn:T; try discriminate.
        -- apply Hterm in T. apply IHe in H. simpl. lia.
        -- inversion H; subst. simpl. lia.
      * destruct (bind (p_factor n ts) (term_loop n)) as [[t1 r1]| |] eqn:T; try discriminate.
        -- apply Hterm in T. apply IHe in H. simpl. lia.
        -- inversion H; subst. simpl. lia.
Qed.

Lemma p_factor_length : forall n ts e r, p_factor n ts = Ok (e, r) -> length r < length ts.
Proof. intros n. apply (parser_lengths n). Qed.
Lemma term_loop_length : forall n acc ts e r, term_loop n acc ts = Ok (e, r) -> length r <= length ts.
Proof. intros n. apply (parser_lengths n). Qed.
Lemma expr_loop_length : forall n acc ts e r, expr_loop n acc ts = Ok (e, r) -> length r <= length ts.
Proof. intros n. apply (parser_lengths n). Qed.

Lemma p_term_length : forall n ts e r, p_term n ts = Ok (e, r) -> length r < length ts.
Proof.
  intros n ts e r H. unfold p_term in H.
  destruct (p_factor n ts) as [[f r1]| |] eqn:F; try discriminate. simpl in H.
  apply p_factor_length in F. apply term_loop_length in H. lia.
Qed.

Lemma p_expr_length : forall n ts e r, p_expr n ts = Ok (e, r) -> length r < length ts.
Proof.
  intros n ts e r H. unfold p_expr in H.
  destruct (p_term n ts) as [[f r1]| |] eqn:F; try discriminate. simpl in H.
  apply p_term_length in F. apply expr_loop_length in H. lia.
Qed.

(* ------------------------------------------------------------------------------------------ *)
(** * monotonicity: a result other than OutOfFuel is stable under more fuel *)

Lemma bind_mono :
  forall (P P' : res (expr * list token)) (K K' : expr -> list token -> res (expr * list token)),
    (P <> OutOfFuel -> P' = P) ->
    (forall a ts, K a ts <> OutOfFuel -> K' a ts = K a ts) ->
    bind P K <> OutOfFuel -> bind P' K' = bind P K.
Proof.
  intros P P' K K' HP HK H.
  destruct P as [[a ts]| |] eqn:E.
  - rewrite HP by discriminate. simpl in *. apply HK. exact H.
  - rewrite HP by discriminate. reflexivity.
  - simpl in H. congruence.
Qed.

Lemma parser_mono :
  forall n,
    (forall ts m, n <= m -> p_factor n ts <> OutOfFuel -> p_factor m ts = p_factor n ts) /\
    (forall acc ts m, n <= m -> term_loop n acc ts <> OutOfFuel -> term_loop m acc ts = term_loop n acc ts) /\
    (forall acc ts m, n <= m -> expr_loop n acc ts <> OutOfFuel -> expr_loop m acc ts = expr_loop n acc ts).
Proof.
  induction n as [|n [IHf [IHt IHe]]].
  - repeat split; intros; simpl in *; congruence.
  - assert (Hterm : forall ts m, n <= m -> bind (p_factor n ts) (term_loop n) <> OutOfFuel ->
               bind (p_factor m ts) (term_loop m) = bind (p_factor n ts) (term_loop n)).
    { intros ts m Hm H. apply bind_mono; auto. }
    repeat split.
    + intros ts m Hm H. destruct m as [|m]; [lia|]. assert (Hm' : n <= m) by lia.
      simpl in *. destruct ts as [|t ts]; [reflexivity|].
      destruct t; try reflexivity.
      apply bind_mono; [|intros; reflexivity|exact H].
      intros H1. apply bind_mono; [|intros; apply IHe; auto|exact H1].
      intros H2. apply Hterm; auto.
    + intros acc ts m Hm H. destruct m as [|m]; [lia|]. assert (Hm' : n <= m) by lia.
      simpl in *. destruct ts as [|t ts]; [reflexivity|].
      destruct t; try reflexivity.
      destruct (p_factor n ts) as [[f r1]| |] eqn:F.
      * rewrite (IHf ts m Hm') by congruence. rewrite F. apply IHt; auto.
      * rewrite (IHf ts m Hm') by congruence. rewrite F. reflexivity.
      * congruence.
    + intros acc ts m Hm H. destruct m as [|m]; [lia|]. assert (Hm' : n <= m) by lia.
      simpl in *. destruct ts as [|t ts]; [reflexivity|].
      destruct t; try reflexivity.
      * destruct (bind (p_factor n ts) (term_loop n)) as [[t1 r1]| |] eqn:T.
        -- rewrite (Hterm ts m Hm') by congruence. rewrite T. apply IHe; auto.
        -- rewrite (Hterm ts m Hm') by congruence. rewrite T. reflexivity.
        -- congruence.
      * destruct (bind (p_factor n ts) (term_loop n)) as [[t1 r1]| |] eqn:T.
        -- rewrite (Hterm ts m Hm') by congruence. rewrite T. apply IHe; auto.
        -- rewrite (Hterm ts m Hm') by congruence. rewrite T. reflexivity.
        -- congruence.
Qed.

Lemma p_factor_mono : forall n m ts, n <= m -> p_factor n ts <> OutOfFuel -> p_factor m ts = p_factor n ts.
Proof. intros n m ts. apply (parser_mono n). Qed.
Lemma term_loop_mono : forall n m acc ts, n <= m -> term_loop n acc ts <> OutOfFuel -> term_loop m acc ts = term_loop n acc ts.
Proof. intros n m acc ts. apply (parser_mono n). Qed.
Lemma expr_loop_mono : forall n m acc ts, n <= m -> expr_loop n acc ts <> OutOfFuel -> expr_loop m acc ts = expr_loop n acc ts.
Proof. intros n m acc ts. apply (parser_mono n). Qed.

Lemma p_term_mono : forall n m ts, n <= m -> p_term n ts <> OutOfFuel -> p_term m ts = p_term n ts.
Proof.
  intros n m ts Hm H. unfold p_term in *. apply bind_mono; auto.
  - intros. apply p_factor_mono; auto.
  - intros. apply term_loop_mono; auto.
Qed.

Lemma p_expr_mono : forall n m ts, n <= m -> p_expr n ts <> OutOfFuel -> p_expr m ts = p_expr n ts.
Proof.
  intros n m ts Hm H. unfold p_expr in *. apply bind_mono; auto.
  - intros. apply p_term_mono; auto.
  - intros. apply expr_loop_mono; auto.
Qed.

(** Ok-form, convenient for composing *)
Lemma p_factor_mono_ok : forall n m ts v, n <= m -> p_factor n ts = Ok v -> p_factor m ts = Ok v.
Proof. intros. rewrite (p_factor_mono n m) by (auto; congruence). assumption. Qed.
Lemma term_loop_mono_ok : forall n m acc ts v, n <= m -> term_loop n acc ts = Ok v -> term_loop m acc ts = Ok v.
Proof. intros. rewrite (term_loop_mono n m) by (auto; congruence). assumption. Qed.
Lemma expr_loop_mono_ok : forall n m acc ts v, n <= m -> expr_loop n acc ts = Ok v -> expr_loop m acc ts = Ok v.
Proof. intros. rewrite (expr_loop_mono n m) by (auto; congruence). assumption. Qed.
Lemma p_term_mono_ok : forall n m ts v, n <= m -> p_term n ts = Ok v -> p_term m ts = Ok v.
Proof. intros. rewrite (p_term_mono n m) by (auto; congruence). assumption. Qed.
Lemma p_expr_mono_ok : forall n m ts v, n <= m -> p_expr n ts = Ok v -> p_expr m ts = Ok v.
Proof. intros. rewrite (p_expr_mono n m) by (auto; congruence). assumption. Qed.

(* ------------------------------------------------------------------------------------------ *)
(** * sufficiency: fuel greater than the number of tokens never runs out *)

Lemma parser_fuel :
  forall n,
    (forall ts, length ts < n -> p_factor n ts <> OutOfFuel) /\
    (forall acc ts, length ts < n -> term_loop n acc ts <> OutOfFuel) /\
    (forall acc ts, length ts < n -> expr_loop n acc ts <> OutOfFuel).
Proof.
  induction n as [|n [IHf [IHt IHe]]].
  - repeat split; intros; lia.
  - assert (Hterm : forall ts, length ts < n -> bind (p_factor n ts) (term_loop n) <> OutOfFuel).
    { intros ts Hl. destruct (p_factor n ts) as [[f r1]| |] eqn:F; simpl.
      - apply IHt. apply p_factor_length in F. lia.
      - discriminate.
      - exfalso. eapply IHf; eassumption. }
    repeat split.
    + intros ts Hl. simpl. destruct ts as [|t ts]; [discriminate|].
      simpl in Hl.
      destruct t; try discriminate.
      * destruct (p_tensor (TName s :: ts)) as [[[x idx] r']| |]; discriminate.
      * destruct (bind (p_factor n ts) (term_loop n)) as [[t1 r1]| |] eqn:T; simpl.
        -- assert (length r1 < length ts).
           { destruct (p_factor n ts) as [[f r0]| |] eqn:F; try discriminate. simpl in T.
             apply p_factor_length in F. apply term_loop_length in T. lia. }
           destruct (expr_loop n t1 r1) as [[e1 r2]| |] eqn:E; simpl.
           ++ destruct r2 as [|t2 r2]; simpl; [discriminate|]. destruct t2; discriminate.
           ++ discriminate.
           ++ exfalso. eapply IHe; [|eassumption]. lia.
        -- discriminate.
        -- exfalso. eapply Hterm; [|eassumption]. lia.
    + intros acc ts Hl. simpl. destruct ts as [|t ts]; [discriminate|].
      simpl in Hl. destruct t; try discriminate.
      destruct (p_factor n ts) as [[f r1]| |] eqn:F.
      * apply IHt. apply p_factor_length in F. lia.
      * discriminate.
      * exfalso. eapply IHf; [|eassumption]. lia.
    + intros acc ts Hl. simpl. destruct ts as [|t ts]; [discriminate|].
      simpl in Hl. destruct t; try discriminate.
      * destruct (bind (p_factor n ts) (term_loop n)) as [[t1 r1]| |] eqn:T.
        -- apply IHe.
           destruct (p_factor n ts) as [[f r0]| |] eqn:F; try discriminate. simpl in T.
           apply p_factor_length in F. apply term_loop_length in T. lia.
        -- discriminate.
        -- exfalso. eapply Hterm; [|eassumption]. lia.
      * destruct (bind (p_factor n ts) (term_loop n)) as [[t1 r1]| |] eqn:T.
        -- apply IHe.
           destruct (p_factor n ts) as [[f r0]| |] eqn:F; try discriminate. simpl in T.
           apply p_factor_length in F. apply term_loop_length in T. lia.
        -- discriminate.
        -- exfalso. eapply Hterm; [|eassumption]. lia.
Qed.

Lemma p_expr_fuel : forall n ts, length ts < n -> p_expr n ts <> OutOfFuel.
Proof.
  intros n ts Hl. unfold p_expr, p_term.
  destruct (parser_fuel n) as [Hf [Ht He]].
  destruct (p_factor n ts) as [[f r1]| |] eqn:F; simpl.
  - destruct (term_loop n f r1) as [[t r2]| |] eqn:T; simpl.
    + apply He. apply p_factor_length in F. apply term_loop_length in T. lia.
    + discriminate.
    + exfalso. eapply Ht; [|eassumption]. apply p_factor_length in F. lia.
  - discriminate.
  - exfalso. eapply Hf; eassumption.
Qed.

(** the fuel chosen by [parse_tokens] is enough: the model never answers PFuel *)
Theorem parse_tokens_fuel_sufficient : forall ts, parse_tokens ts <> PFuel.
Proof.
  intros ts. unfold parse_tokens, parse_tokens_fuel.
  destruct (p_tensor ts) as [[[x idx] r]| |] eqn:E; try discriminate.
  destruct r as [|t r]; try discriminate.
  destruct t; try discriminate.
  apply p_tensor_length in E. simpl in E.
  destruct (p_expr (S (length ts)) r) as [[e r']| |] eqn:P.
  - destruct (validate (Assign x idx e)); try discriminate. destruct r'; discriminate.
  - discriminate.
  - exfalso. eapply (p_expr_fuel (S (length ts)) r); [lia|eassumption].
Qed.

(** more fuel than [parse_tokens] uses changes nothing *)
Lemma parse_tokens_fuel_stable :
  forall ts n, S (length ts) <= n -> parse_tokens_fuel n ts = parse_tokens ts.
Proof.
  intros ts n Hn. unfold parse_tokens, parse_tokens_fuel.
  destruct (p_tensor ts) as [[[x idx] r]| |] eqn:E; try reflexivity.
  destruct r as [|t r]; try reflexivity.
  destruct t; try reflexivity.
  apply p_tensor_length in E. simpl in E.
  rewrite (p_expr_mono (S (length ts)) n r Hn); [reflexivity|].
  apply p_expr_fuel. lia.
Qed.
