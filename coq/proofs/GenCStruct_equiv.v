(** Statement structure of the C printer (round 2 of TIE target "cprint").

    Part A (model theory): [sparse (flats l) = Some l] -- a well-formed skeleton printed as tokens is
    read back exactly by the structure parser: no dangling else, [else if] chains, empty blocks, nested
    loops.
    Part B (tie to the source): the lines printed by the REGENERATED [ir_to_c_statement] (gen/IrToC.v),
    joined by newlines, lex ([slex]: // comments, indentation and blank lines are white space) to
    [cprint_stmts s] for every statement tree; function definitions and modules.
    Part C: what a skeleton still distinguishes ([snorm]) and what that means on the IR machine. *)

From Coq Require Import ZArith NArith Bool List String Ascii Lia.
From Flocq Require Import Core BinarySingleNaN.
From TV Require Import spec.Num spec.PyLib proofs.PyLibFacts gen.IRAst spec.CGrammar model.CPrint
  model.CLexer model.CStruct gen.IrToC proofs.GenCPrint_equiv.
Import ListNotations.
Local Open Scope nat_scope.
Local Open Scope list_scope.

(** * Part A: the structure parser reads back what [flat] prints *)

Lemma take_cond_flat : forall c acc r,
  take_cond (map SK c ++ SK TRParen :: SLBrace :: r) acc = Some (acc ++ c, r).
Proof.
  induction c as [|t c IH]; intros acc r; cbn [map app take_cond].
  - rewrite rev_app_distr. cbn. rewrite rev_involutive, app_nil_r. reflexivity.
  - rewrite IH. rewrite <- app_assoc. reflexivity.
Qed.

Lemma semi_eqb : forall t, ctoken_eqb t TSemi = true -> t = TSemi.
Proof. intros t H. destruct t; try discriminate H; reflexivity. Qed.

Lemma take_simple_step : forall t r acc, ctoken_eqb t TSemi = false ->
  take_simple (SK t :: r) acc = take_simple r (acc ++ [t]).
Proof. intros t r acc H. destruct t; try reflexivity; discriminate H. Qed.

Lemma take_simple_flat : forall ts acc r, simple_ok ts = true ->
  take_simple (map SK ts ++ r) acc = Some (acc ++ ts, r).
Proof.
  induction ts as [|t ts IH]; intros acc r H; [discriminate H|].
  destruct ts as [|u ts].
  - cbn in H. apply semi_eqb in H. subst t. reflexivity.
  - change (simple_ok (t :: u :: ts)) with (negb (ctoken_eqb t TSemi) && simple_ok (u :: ts)) in H.
    apply andb_true_iff in H. destruct H as [H1 H2]. apply negb_true_iff in H1.
    change (map SK (t :: u :: ts) ++ r) with (SK t :: (map SK (u :: ts) ++ r)).
    rewrite take_simple_step by exact H1. rewrite IH by exact H2.
    rewrite <- app_assoc. reflexivity.
Qed.

Definition stop (rest : list stok) : Prop := rest = [] \/ exists r, rest = SRBrace :: r.
Definition noelse (rest : list stok) : Prop := match rest with SElse :: _ => False | _ => True end.

Definition starts_stmt (ts : list stok) : Prop :=
  match ts with
  | SK _ :: _ | SIf :: _ | SWhile :: _ => True
  | _ => False
  end.

Lemma flat_starts : forall s rest, wf s = true -> starts_stmt (flat s ++ rest).
Proof.
  intros [ts|c th el|c b] rest H; cbn; auto.
  destruct ts; [discriminate H|]. cbn. exact I.
Qed.

Lemma stop_noelse : forall rest, stop rest -> noelse rest.
Proof. intros rest [E|[r E]]; subst; exact I. Qed.

Lemma flats_noelse : forall l rest, wfs l = true -> stop rest -> noelse (flats l ++ rest).
Proof.
  intros [|s r] rest H Hs; cbn.
  - apply stop_noelse. exact Hs.
  - cbn in H. apply andb_true_iff in H. destruct H as [H _].
    pose proof (flat_starts s (flats r ++ rest) H) as S. rewrite <- app_assoc.
    destruct (flat s ++ flats r ++ rest) as [|[] ?]; try exact I; try contradiction.
Qed.

Definition P_s (s : sst) : Prop :=
  wf s = true -> forall n rest, sz s <= n -> noelse rest -> p_stmt n (flat s ++ rest) = Some (s, rest).
Definition P_l (l : ssts) : Prop :=
  wfs l = true -> forall n rest, szs l <= n -> stop rest -> p_stmts n (flats l ++ rest) = Some (l, rest).
Definition P_e (e : selse) : Prop :=
  match e with ENone => True | EBlock l => P_l l | EIf s => P_s s end.

Lemma stop_brace : forall r, stop (SRBrace :: r).
Proof. intros r. right. exists r. reflexivity. Qed.

Lemma roundtrip_all :
  (forall s, P_s s) /\ (forall l, P_l l) /\ (forall e, P_e e).
Proof.
  apply sst_ssts_selse_ind.
  - (* simple *)
    intros ts H n rest Hn _. destruct n as [|n]; [cbn in Hn; lia|].
    cbn [flat wf] in *. destruct ts as [|t ts]; [discriminate H|].
    cbn [map app p_stmt]. change (SK t :: map SK ts ++ rest) with (map SK (t :: ts) ++ rest).
    rewrite take_simple_flat by exact H. reflexivity.
  - (* if *)
    intros c th IHth el IHel H n rest Hn Hr. cbn [wf] in H. apply andb_true_iff in H. destruct H as [Hth Hel].
    destruct n as [|n]; [cbn in Hn; lia|]. cbn [sz] in Hn.
    cbn [flat app p_stmt]. rewrite <- !app_assoc. cbn [app].
    rewrite take_cond_flat. cbn [app].
    rewrite <- app_assoc. cbn [app].
    rewrite (IHth Hth n _ ltac:(lia) (stop_brace _)).
    destruct el as [|l|s]; cbn [flate app].
    + destruct rest as [|[] rest]; try reflexivity. contradiction.
    + cbn [P_e wfe sze] in *. rewrite <- app_assoc. cbn [app].
      rewrite (IHel Hel n _ ltac:(lia) (stop_brace _)). reflexivity.
    + cbn [P_e wfe sze] in *. destruct s as [ts|c' th' el'|c' b']; try discriminate Hel.
      cbn [flat app]. 
      change (SIf :: SK TLParen :: (map SK c' ++ SK TRParen :: SLBrace :: flats th' ++ SRBrace :: flate el') ++ rest)
        with (flat (SIfS c' th' el') ++ rest).
      rewrite (IHel Hel n rest ltac:(lia) Hr). reflexivity.
  - (* while *)
    intros c b IHb H n rest Hn Hr. cbn [wf] in H.
    destruct n as [|n]; [cbn in Hn; lia|]. cbn [sz] in Hn.
    cbn [flat app p_stmt]. rewrite <- !app_assoc. cbn [app].
    rewrite take_cond_flat. cbn [app]. rewrite <- app_assoc. cbn [app].
    rewrite (IHb H n _ ltac:(lia) (stop_brace _)). reflexivity.
  - (* nil *)
    intros _ n rest Hn Hs. destruct n as [|n]; [cbn in Hn; lia|].
    cbn [flats app p_stmts]. destruct Hs as [E|[r E]]; subst; reflexivity.
  - (* cons *)
    intros s IHs r IHr H n rest Hn Hs. cbn [wfs] in H. apply andb_true_iff in H. destruct H as [H1 H2].
    destruct n as [|n]; [cbn in Hn; lia|]. cbn [szs] in Hn.
    cbn [flats]. rewrite <- app_assoc.
    pose proof (flat_starts s (flats r ++ rest) H1) as St.
    pose proof (IHs H1 n (flats r ++ rest) ltac:(lia) (flats_noelse r rest H2 Hs)) as E1.
    pose proof (IHr H2 n rest ltac:(lia) Hs) as E2.
    cbn [p_stmts].
    destruct (flat s ++ flats r ++ rest) as [|[t| | | | |] tl] eqn:E; try contradiction;
      rewrite E1, E2; reflexivity.
  - exact I.
  - intros l IH. exact IH.
  - intros s IH. exact IH.
Qed.

Lemma flat_nonempty : forall s, wf s = true -> 1 <= List.length (flat s).
Proof.
  intros [ts|c th el|c b] H; cbn; try lia. destruct ts; [discriminate H|]. cbn. lia.
Qed.

Lemma sz_bound :
  (forall s, wf s = true -> sz s <= List.length (flat s)) /\
  (forall l, wfs l = true -> szs l <= S (List.length (flats l))) /\
  (forall e, wfe e = true -> sze e <= S (List.length (flate e))).
Proof.
  apply sst_ssts_selse_ind.
  - intros ts H. pose proof (flat_nonempty (SSimple ts) H). cbn [sz]. lia.
  - intros c th IHth el IHel H. cbn [wf] in H. apply andb_true_iff in H. destruct H as [H1 H2].
    specialize (IHth H1). specialize (IHel H2). cbn [sz flat].
    cbn [List.length]. rewrite !app_length. cbn [List.length]. rewrite !app_length. cbn [List.length]. lia.
  - intros c b IHb H. cbn [wf] in H. specialize (IHb H). cbn [sz flat].
    cbn [List.length]. rewrite !app_length. cbn [List.length]. rewrite !app_length. cbn [List.length]. lia.
  - intros _. cbn. lia.
  - intros s IHs r IHr H. cbn [wfs] in H. apply andb_true_iff in H. destruct H as [H1 H2].
    specialize (IHs H1). specialize (IHr H2). pose proof (flat_nonempty s H1).
    cbn [szs flats]. rewrite app_length. lia.
  - intros _. cbn. lia.
  - intros l IH H. cbn [wfe] in H. specialize (IH H). cbn [sze flate List.length].
    rewrite app_length. cbn [List.length]. lia.
  - intros s IH H. cbn [wfe] in H. destruct s; try discriminate H. specialize (IH H).
    cbn [sze flate List.length]. lia.
Qed.

(** a printed well-formed skeleton is read back exactly *)
Theorem sparse_flats : forall l, wfs l = true -> sparse (flats l) = Some l.
Proof.
  intros l H. unfold sparse.
  pose proof (proj1 (proj2 roundtrip_all) l H (S (List.length (flats l))) []) as E.
  rewrite app_nil_r in E. rewrite E; [reflexivity| |left; reflexivity].
  apply (proj1 (proj2 sz_bound)). exact H.
Qed.


Definition go_skel : list stmt -> option ssts :=
  fix go (l : list stmt) : option ssts :=
    match l with
    | [] => Some SNil
    | x :: r => match skel x, go r with Some a, Some b => Some (sapp a b) | _, _ => None end
    end.


(** * Leaves: the tokens of expressions and simple statements are plain *)

Definition pl (ts : list ctoken) : Prop := forallb plain ts = true.

Lemma pl_nil : pl []. Proof. reflexivity. Qed.
Lemma pl_app : forall a b, pl a -> pl b -> pl (a ++ b).
Proof. intros a b Ha Hb. unfold pl in *. rewrite forallb_app, Ha, Hb. reflexivity. Qed.
Lemma pl_cons : forall t r, plain t = true -> pl r -> pl (t :: r).
Proof. intros t r Ht Hr. unfold pl in *. cbn [forallb]. rewrite Ht, Hr. reflexivity. Qed.

Lemma plain_ident : forall x, ident_ok x = true -> plain (TId x) = true.
Proof.
  intros x H. unfold plain, stok_of. cbn [ctoken_eqb negb andb].
  destruct (String.eqb x "{") eqn:E1; [apply String.eqb_eq in E1; subst; discriminate H|].
  destruct (String.eqb x "}") eqn:E2; [apply String.eqb_eq in E2; subst; discriminate H|].
  destruct (String.eqb x "if") eqn:E3; [apply String.eqb_eq in E3; subst; discriminate H|].
  destruct (String.eqb x "else") eqn:E4; [apply String.eqb_eq in E4; subst; discriminate H|].
  destruct (String.eqb x "while") eqn:E5; [apply String.eqb_eq in E5; subst; discriminate H|].
  reflexivity.
Qed.

Lemma pl_int : forall z, pl (int_tokens z).
Proof. intros z. unfold int_tokens. destruct (z <? 0)%Z; reflexivity. Qed.

Lemma pl_float : forall f, pl (float_tokens f).
Proof. intros f. unfold float_tokens. destruct (Bsign f); reflexivity. Qed.

Lemma pl_type : forall t v, var_ok v = true -> pl (type_tokens t v).
Proof.
  induction t; intros v Hv; cbn [type_tokens];
    try (destruct v as [x|]; [apply pl_cons; [reflexivity|apply pl_cons; [apply plain_ident; exact Hv|exact pl_nil]]|reflexivity]).
  - apply pl_app; [apply IHt; reflexivity|]. apply pl_app; [reflexivity|].
    destruct v as [x|]; [apply pl_cons; [apply plain_ident; exact Hv|exact pl_nil]|exact pl_nil].
  - apply pl_app; [apply IHt; exact Hv|reflexivity].
  - apply pl_app; [apply IHt; exact Hv|]. apply pl_app; [reflexivity|].
    apply pl_app; [apply pl_int|reflexivity].
Qed.

Ltac pl_go :=
  repeat first
    [ assumption
    | exact pl_nil
    | apply pl_int | apply pl_float
    | apply pl_type; reflexivity
    | apply pl_app
    | apply pl_cons; [first [reflexivity | apply plain_ident; assumption]|] ].

Lemma pl_cprint : forall e, names_ok e = true -> pl (cprint e).
Proof.
  induction e; intros Hn; cbn [names_ok] in Hn;
    repeat match goal with
           | H : _ && _ = true |- _ => apply andb_true_iff in H; destruct H
           end;
    repeat match goal with
           | IH : names_ok ?x = true -> pl _, H : names_ok ?x = true |- _ => specialize (IH H)
           end;
    cbn [cprint]; unfold parens, wrap, type_name;
    repeat match goal with |- context [isinstance ?r ?l] => destruct (isinstance r l) end;
    try (destruct value); pl_go.
Qed.

(** a simple statement: plain tokens, then its [;] *)
Lemma simple_ok_cons : forall t r, plain t = true -> simple_ok r = true -> simple_ok (t :: r) = true.
Proof.
  intros t r Ht Hr. destruct r as [|u r]; [discriminate Hr|].
  change (simple_ok (t :: u :: r)) with (negb (ctoken_eqb t TSemi) && simple_ok (u :: r)).
  rewrite Hr. unfold plain in Ht. apply andb_true_iff in Ht. destruct Ht as [Ht _]. rewrite Ht. reflexivity.
Qed.

Lemma simple_ok_app : forall a b, pl a -> simple_ok b = true -> simple_ok (a ++ b) = true.
Proof.
  induction a as [|t a IH]; intros b Ha Hb; [exact Hb|].
  unfold pl in Ha. cbn [forallb] in Ha. apply andb_true_iff in Ha. destruct Ha as [Ht Ha].
  cbn [app]. apply simple_ok_cons; [exact Ht|]. apply IH; assumption.
Qed.

Definition cl (ts : list ctoken) : Prop := map stok_of ts = map SK ts.

Lemma stok_plain : forall t, plain t = true -> stok_of t = SK t.
Proof.
  intros t H. unfold plain in H. apply andb_true_iff in H. destruct H as [_ H].
  destruct t; try reflexivity. unfold stok_of in *.
  destruct (String.eqb s "{"); [discriminate H|]. destruct (String.eqb s "}"); [discriminate H|].
  destruct (String.eqb s "if"); [discriminate H|]. destruct (String.eqb s "else"); [discriminate H|].
  destruct (String.eqb s "while"); [discriminate H|]. reflexivity.
Qed.

Lemma cl_pl : forall ts, pl ts -> cl ts.
Proof.
  induction ts as [|t ts IH]; intros H; [reflexivity|].
  unfold pl in H. cbn [forallb] in H. apply andb_true_iff in H. destruct H as [Ht H].
  unfold cl in *. cbn [map]. rewrite (stok_plain t Ht), (IH H). reflexivity.
Qed.

Lemma cl_app : forall a b, cl a -> cl b -> cl (a ++ b).
Proof. intros a b Ha Hb. unfold cl in *. rewrite !map_app, Ha, Hb. reflexivity. Qed.

Lemma cl_cons : forall t r, stok_of t = SK t -> cl r -> cl (t :: r).
Proof. intros t r Ht Hr. unfold cl in *. cbn [map]. rewrite Ht, Hr. reflexivity. Qed.

(** [good ts]: a well-formed simple statement made of clean tokens *)
Definition good (ts : list ctoken) : Prop := simple_ok ts = true /\ cl ts.

Lemma good_semi : good [TSemi]. Proof. split; reflexivity. Qed.
Lemma good_app : forall a b, pl a -> good b -> good (a ++ b).
Proof. intros a b Ha [H1 H2]. split; [apply simple_ok_app; assumption|apply cl_app; [apply cl_pl; exact Ha|exact H2]]. Qed.
Lemma good_cons : forall t r, plain t = true -> good r -> good (t :: r).
Proof. intros t r Ht [H1 H2]. split; [apply simple_ok_cons; assumption|apply cl_cons; [apply stok_plain; exact Ht|exact H2]]. Qed.

Ltac good_go :=
  repeat first
    [ exact good_semi
    | apply good_cons; [first [reflexivity | apply plain_ident; assumption]|]
    | apply good_app; [first [assumption | apply pl_type; assumption | apply pl_cprint; assumption]|] ].

Lemma good_cprint_stmt : forall s ts, stmt_names_ok s = true -> cprint_stmt s = Some ts -> good ts.
Proof.
  intros s ts Hn E.
  destruct s as [name type|target value|dtarget value|? ?|? ? ?|? ?|value|e]; cbn [stmt_names_ok] in Hn;
    cbn [cprint_stmt] in E; try discriminate E.
  - destruct name; try discriminate E. cbn [cprint_declaration] in E. injection E as <-.
    cbn [decl_names_ok] in Hn. good_go.
  - apply andb_true_iff in Hn. destruct Hn as [Ht Hv]. injection E as <-.
    pose proof (pl_cprint target Ht) as Pt. pose proof (pl_cprint value Hv) as Pv.
    unfold cprint_assignment.
    destruct value; cbn [names_ok] in Hv;
      repeat match goal with
             | H : _ && _ = true |- _ => apply andb_true_iff in H; destruct H
             end;
      repeat match goal with |- context [if ?B then _ else _] => destruct B end;
      good_go.
  - apply andb_true_iff in Hn. destruct Hn as [Hd Hv].
    destruct dtarget as [name type| | | | | | |]; try discriminate E.
    destruct name; try discriminate E. cbn [cprint_declaration] in E. injection E as <-.
    cbn [decl_names_ok] in Hd. good_go.
  - injection E as <-. good_go.
  - injection E as <-. good_go.
Qed.


Section StmtInd.
Variable P : stmt -> Prop.
Hypothesis H_decl : forall n t, P (Declaration n t).
Hypothesis H_assign : forall t v, P (Assignment t v).
Hypothesis H_declassign : forall d v, P (DeclarationAssignment d v).
Hypothesis H_block : forall ss c, Forall P ss -> P (Block ss c).
Hypothesis H_branch : forall c t f, P t -> P f -> P (Branch c t f).
Hypothesis H_loop : forall c b, P b -> P (Loop c b).
Hypothesis H_return : forall v, P (Return v).
Hypothesis H_sexpr : forall e, P (SExpr e).

Fixpoint stmt_ind' (s : stmt) : P s :=
  match s with
  | Declaration n t => H_decl n t
  | Assignment t v => H_assign t v
  | DeclarationAssignment d v => H_declassign d v
  | Block ss c =>
      H_block ss c
        ((fix go (l : list stmt) : Forall P l :=
            match l with
            | [] => Forall_nil P
            | x :: r => Forall_cons x (stmt_ind' x) (go r)
            end) ss)
  | Branch c t f => H_branch c t f (stmt_ind' t) (stmt_ind' f)
  | Loop c b => H_loop c b (stmt_ind' b)
  | Return v => H_return v
  | SExpr e => H_sexpr e
  end.
End StmtInd.

(** * The skeleton of a statement is well-formed and its [lex]-level tokens are its tokens *)

Definition Q (l : ssts) : Prop := wfs l = true /\ map stok_of (cflats l) = flats l.
Definition Qe (e : selse) : Prop := wfe e = true /\ map stok_of (cflate e) = flate e.

Lemma cflats_sapp : forall a b, cflats (sapp a b) = cflats a ++ cflats b.
Proof. induction a as [|s r IH]; intros b; cbn [sapp cflats]; [reflexivity|]. rewrite IH, app_assoc. reflexivity. Qed.

Lemma flats_sapp : forall a b, flats (sapp a b) = flats a ++ flats b.
Proof. induction a as [|s r IH]; intros b; cbn [sapp flats]; [reflexivity|]. rewrite IH, app_assoc. reflexivity. Qed.

Lemma wfs_sapp : forall a b, wfs (sapp a b) = wfs a && wfs b.
Proof. induction a as [|s r IH]; intros b; cbn [sapp wfs]; [reflexivity|]. rewrite IH, andb_assoc. reflexivity. Qed.

Lemma Q_nil : Q SNil. Proof. split; reflexivity. Qed.

Lemma Q_sapp : forall a b, Q a -> Q b -> Q (sapp a b).
Proof.
  intros a b [A1 A2] [B1 B2]. split.
  - rewrite wfs_sapp, A1, B1. reflexivity.
  - rewrite cflats_sapp, flats_sapp, map_app, A2, B2. reflexivity.
Qed.

Lemma Q_simple : forall ts, good ts -> Q (SCons (SSimple ts) SNil).
Proof.
  intros ts [G1 G2]. split.
  - cbn. rewrite G1. reflexivity.
  - cbn [cflats cflat flats flat]. rewrite !app_nil_r. exact G2.
Qed.

Lemma Q_while : forall cc b, cl cc -> Q b -> Q (SCons (SWhileS cc b) SNil).
Proof.
  intros cc b Hc [B1 B2]. split.
  - cbn. rewrite B1. reflexivity.
  - cbn [cflats cflat flats flat]. rewrite !app_nil_r. cbn [map].
    repeat (rewrite !map_app; cbn [map]). rewrite Hc, B2. reflexivity.
Qed.

Lemma Q_if : forall cc a e, cl cc -> Q a -> Qe e -> Q (SCons (SIfS cc a e) SNil).
Proof.
  intros cc a e Hc [A1 A2] [E1 E2]. split.
  - cbn. rewrite A1, E1. reflexivity.
  - cbn [cflats cflat flats flat]. rewrite !app_nil_r. cbn [map].
    repeat (rewrite !map_app; cbn [map]). rewrite Hc, A2, E2. reflexivity.
Qed.

Lemma Qe_none : Qe ENone. Proof. split; reflexivity. Qed.

Lemma Qe_block : forall b, Q b -> Qe (EBlock b).
Proof.
  intros b [B1 B2]. split; [exact B1|]. cbn [cflate flate map]. rewrite map_app. cbn [map].
  rewrite B2. reflexivity.
Qed.

Lemma Qe_if : forall cc a e, Q (SCons (SIfS cc a e) SNil) -> Qe (EIf (SIfS cc a e)).
Proof.
  intros cc a e [H1 H2]. split.
  - cbn [wfs] in H1. rewrite andb_true_r in H1. exact H1.
  - cbn [cflats flats] in H2. rewrite !app_nil_r in H2. cbn [cflate flate map]. rewrite H2. reflexivity.
Qed.

Theorem skel_Q : forall s, deep_names_ok s = true -> forall l, skel s = Some l -> Q l.
Proof.
  induction s using stmt_ind'; intros Hn l E;
    try (cbn [skel deep_names_ok] in *;
         match type of E with
         | match cprint_stmt ?s with _ => _ end = _ =>
             destruct (cprint_stmt s) as [ts|] eqn:Ec; [|discriminate E]; injection E as <-;
             apply Q_simple; apply (good_cprint_stmt s ts Hn Ec)
         end).
  - (* Block *)
    cbn [deep_names_ok] in Hn. apply andb_true_iff in Hn. destruct Hn as [Hss _].
    rewrite forallb_forall in Hss. rewrite Forall_forall in H.
    cbn [skel] in E. fold go_skel in E. clear c.
    revert l E. induction ss as [|x r IHr]; intros l E.
    + injection E as <-. exact Q_nil.
    + cbn [go_skel] in E. destruct (skel x) as [a|] eqn:Ea; [|discriminate E].
      destruct (go_skel r) as [b|] eqn:Eb; [|discriminate E]. injection E as <-.
      apply Q_sapp.
      * apply (H x (or_introl eq_refl) (Hss x (or_introl eq_refl)) a Ea).
      * apply IHr; [intros y Hy; apply H; right; exact Hy|intros y Hy; apply Hss; right; exact Hy|reflexivity].
  - (* Branch *)
    cbn [deep_names_ok] in Hn. apply andb_true_iff in Hn. destruct Hn as [Hn Hf].
    apply andb_true_iff in Hn. destruct Hn as [Hc Ht].
    cbn [skel] in E. destruct (skel s1) as [a|] eqn:Ea; [|discriminate E].
    destruct (skel s2) as [b|] eqn:Eb; [|discriminate E]. injection E as <-.
    pose proof (IHs1 Ht a eq_refl) as Qa. pose proof (IHs2 Hf b eq_refl) as Qb.
    apply Q_if; [apply cl_pl; apply pl_cprint; exact Hc|exact Qa|].
    unfold else_of. destruct (is_Branch s2) eqn:Br.
    + destruct s2; try discriminate Br. cbn [skel] in Eb.
      destruct (skel s2_1), (skel s2_2); try discriminate Eb. injection Eb as <-.
      apply Qe_if. exact Qb.
    + destruct (is_empty_block s2); [exact Qe_none|apply Qe_block; exact Qb].
  - (* Loop *)
    cbn [deep_names_ok] in Hn. apply andb_true_iff in Hn. destruct Hn as [Hc Hb].
    cbn [skel] in E. destruct (skel s) as [a|] eqn:Ea; [|discriminate E]. injection E as <-.
    apply Q_while; [apply cl_pl; apply pl_cprint; exact Hc|apply (IHs Hb a eq_refl)].
Qed.

(** the printed skeleton of any statement tree is read back exactly by the structure parser *)
Theorem sparse_cprint_stmts : forall s ts, deep_names_ok s = true -> cprint_stmts s = Some ts ->
  sparse ts = skel s.
Proof.
  intros s ts Hn E. unfold cprint_stmts in E. destruct (skel s) as [l|] eqn:El; [|discriminate E].
  injection E as <-. rewrite sparse_flats; [reflexivity|]. apply (skel_Q s Hn l El).
Qed.

(** * Part B: the regenerated statement printer prints the skeleton *)


Section TieStruct.

Variable fdec : string -> option F.
Variable str_float : F -> string.
Hypothesis ok : float_oracle_ok fdec str_float.

Let OA := proj1 ok.
Let OB := proj2 ok.

Notation lex := (CLexer.lex fdec).
Notation genS := (ir_to_c_statement str_float).
Notation genE := (ir_to_c_expression str_float).

Definition nl : ascii := "010"%char.
Definition eol (rest : string) : Prop := rest = ""%string \/ exists r, rest = String nl r.

(** a line lexes to [t], whatever line follows *)
Definition L1 (l : string) (t : list ctoken) : Prop :=
  forall rest, eol rest -> lex None (l ++ rest)%string = prep t (lex None rest).

Inductive LL : list string -> list ctoken -> Prop :=
  | LL_nil : LL [] []
  | LL_cons l ls t ts : L1 l t -> LL ls ts -> LL (l :: ls) (t ++ ts).

Lemma eol_bnd : forall rest, eol rest -> bnd rest = true.
Proof. intros rest [E|[r E]]; subst; reflexivity. Qed.

Lemma lex_nl : forall X, lex None (String nl X) = lex None X.
Proof. reflexivity. Qed.

Lemma L1_of_any : forall l t,
  (forall rest, lex None (l ++ rest)%string = prep t (lex None rest)) -> L1 l t.
Proof. intros l t H rest _. apply H. Qed.

Lemma L1_empty : L1 "" [].
Proof. intros rest _. cbn [append]. rewrite prep_nil. reflexivity. Qed.

Lemma L1_indent : forall l t, L1 l t -> L1 ("  " ++ l) t.
Proof. intros l t H rest Hr. cbn [append]. rewrite !lexc_space. apply H. exact Hr. Qed.

Lemma LL_one : forall l t, L1 l t -> LL [l] t.
Proof. intros l t H. rewrite <- (app_nil_r t). constructor; [exact H|constructor]. Qed.

Lemma LL_app : forall a ta b tb, LL a ta -> LL b tb -> LL (a ++ b) (ta ++ tb).
Proof.
  induction 1 as [|l ls t ts Hl Hls IH]; intros Hb; [exact Hb|].
  cbn [app]. rewrite <- app_assoc. constructor; [exact Hl|apply IH; exact Hb].
Qed.

Lemma LL_indent : forall ls ts, LL ls ts -> LL (indent_lines ls) ts.
Proof.
  induction 1 as [|l ls t ts Hl Hls IH]; [constructor|].
  unfold indent_lines in *. cbn [map]. constructor; [apply L1_indent; exact Hl|exact IH].
Qed.

Lemma LL_blank : forall ls ts (b : bool), LL ls ts -> LL (if b then ls ++ [""%string] else ls) ts.
Proof.
  intros ls ts [] H; [|exact H]. rewrite <- (app_nil_r ts). apply LL_app; [exact H|].
  apply LL_one. exact L1_empty.
Qed.

(** the lines joined by newlines lex to the tokens *)
Lemma LL_join : forall ls ts, LL ls ts -> forall rest, eol rest ->
  lex None (py_join (String nl "") ls ++ rest)%string = prep ts (lex None rest).
Proof.
  induction 1 as [|l ls t ts Hl Hls IH]; intros rest Hr.
  - cbn. rewrite prep_nil. reflexivity.
  - destruct ls as [|l2 ls].
    + inversion Hls; subst. cbn [py_join]. rewrite app_nil_r. apply Hl. exact Hr.
    + change (py_join (String nl "") (l :: l2 :: ls))
        with (l ++ String nl "" ++ py_join (String nl "") (l2 :: ls))%string.
      rewrite !sapp_assoc. cbn [append].
      rewrite (Hl _ (or_intror (ex_intro _ _ eq_refl))). rewrite lex_nl.
      rewrite (IH rest Hr). rewrite prep_prep. reflexivity.
Qed.

(** // comment lines *)
Lemma lex_comment_run : forall c rest, no_newline c = true -> eol rest ->
  lex (Some CCmt) (c ++ rest)%string = lex None rest.
Proof.
  induction c as [|a c IH]; intros rest H Hr.
  - cbn [append]. destruct Hr as [E|[r E]]; subst; reflexivity.
  - cbn [no_newline] in H. apply andb_true_iff in H. destruct H as [Ha Hc].
    apply negb_true_iff in Ha. cbn [append CLexer.lex extend]. rewrite Ha. apply IH; assumption.
Qed.

Lemma L1_comment : forall c, no_newline c = true -> L1 ("// " ++ c) [].
Proof.
  intros c H rest Hr. rewrite prep_nil. cbn [append].
  change (lex None (String "/" (String "/" (String " " (c ++ rest)))))
    with (lex (Some CCmt) (String " " (c ++ rest))).
  change (String " " (c ++ rest)) with (String " " c ++ rest)%string.
  apply lex_comment_run; [exact H|exact Hr].
Qed.

(** the proved statement, per statement *)
Definition prints (s : stmt) : Prop :=
  match genS s, skel s with
  | Some lines, Some l => LL lines (cflats l)
  | None, None => True
  | _, _ => False
  end.

Lemma prints_simple : forall s, stmt_names_ok s = true -> is_layout s = false ->
  skel s = match cprint_stmt s with Some ts => Some (SCons (SSimple ts) SNil) | None => None end ->
  prints s.
Proof.
  intros s Hn Hl Hs. unfold prints. rewrite Hs.
  pose proof (gen_stmt_line fdec str_float OA OB s Hn Hl) as G.
  destruct (genS s) as [[|line [|? ?]]|], (cprint_stmt s) as [ts|]; try contradiction; try exact I.
  cbn [cflats cflat]. apply LL_one. rewrite app_nil_r. apply L1_of_any. exact G.
Qed.


(** the loop of ir_to_c_block, for any loop body that does per element what [ir_to_c_block]'s does *)
Lemma block_fold : forall (Fn : list string * bool -> stmt -> option (list string * bool)) ss,
  (forall x, In x ss -> forall lines sep t, LL lines t ->
     match Fn (lines, sep) x, skel x with
     | Some (lines', _), Some a => LL lines' (t ++ cflats a)
     | None, None => True
     | _, _ => False
     end) ->
  forall lines sep t, LL lines t ->
  match ofold_u Fn ss (lines, sep), go_skel ss with
  | Some (lines', _), Some l => LL lines' (t ++ cflats l)
  | None, None => True
  | _, _ => False
  end.
Proof.
  intros Fn. induction ss as [|x r IH]; intros Hstep lines sep t HL.
  - cbn. rewrite app_nil_r. exact HL.
  - cbn [ofold_u go_skel].
    pose proof (Hstep x (or_introl eq_refl) lines sep t HL) as Hx.
    destruct (Fn (lines, sep) x) as [[l1 s1]|], (skel x) as [a|]; try contradiction; [|exact I].
    assert (Hr : forall y, In y r -> forall lines sep t, LL lines t ->
              match Fn (lines, sep) y, skel y with
              | Some (lines', _), Some a => LL lines' (t ++ cflats a)
              | None, None => True
              | _, _ => False
              end) by (intros y Hy; apply Hstep; right; exact Hy).
    specialize (IH Hr l1 s1 (t ++ cflats a) Hx).
    change ((fix go (xs : list stmt) (acc : list string * bool) {struct xs} : option (list string * bool) :=
               match xs with
               | [] => Some acc
               | x0 :: r0 => match Fn acc x0 with Some acc1 => go r0 acc1 | None => None end
               end) r (l1, s1)) with (ofold_u Fn r (l1, s1)).
    destruct (ofold_u Fn r (l1, s1)) as [[l2 s2]|], (go_skel r) as [b|]; try contradiction; [|exact I].
    rewrite cflats_sapp, app_assoc. exact IH.
Qed.

Lemma names_block : forall ss c, deep_names_ok (Block ss c) = true ->
  (forall x, In x ss -> deep_names_ok x = true) /\
  match c with Some x => no_newline x = true | None => True end.
Proof.
  intros ss c H. cbn [deep_names_ok] in H. apply andb_true_iff in H. destruct H as [H1 H2].
  split; [|destruct c; [exact H2|exact I]].
  rewrite forallb_forall in H1. exact H1.
Qed.

Ltac lnorm :=
  cbn [cflats cflat cflate app]; rewrite ?app_nil_r; repeat (rewrite <- app_assoc; cbn [app]); cbn [app];
  rewrite ?app_nil_r; try reflexivity.

Definition if_head (cc : list ctoken) : list ctoken := TId "if" :: TLParen :: cc ++ [TRParen; TId "{"].
Definition while_head (cc : list ctoken) : list ctoken := TId "while" :: TLParen :: cc ++ [TRParen; TId "{"].

Lemma L1_close : L1 "}" [TId "}"].
Proof. apply L1_of_any. apply lex_close_line. Qed.

Lemma branch_none : forall X cc a, LL X (if_head cc ++ cflats a) ->
  LL (X ++ ["}"%string]) (cflats (SCons (SIfS cc a ENone) SNil)).
Proof.
  intros X cc a HX.
  replace (cflats (SCons (SIfS cc a ENone) SNil)) with ((if_head cc ++ cflats a) ++ [TId "}"])
    by (unfold if_head; lnorm).
  apply LL_app; [exact HX|apply LL_one; exact L1_close].
Qed.

Lemma branch_block : forall X cc a fl b, LL X (if_head cc ++ cflats a) -> LL fl (cflats b) ->
  LL (((X ++ ["} else {"%string]) ++ indent_lines fl) ++ ["}"%string])
     (cflats (SCons (SIfS cc a (EBlock b)) SNil)).
Proof.
  intros X cc a fl b HX Hf.
  replace (cflats (SCons (SIfS cc a (EBlock b)) SNil))
    with ((((if_head cc ++ cflats a) ++ [TId "}"; TId "else"; TId "{"]) ++ cflats b) ++ [TId "}"])
    by (unfold if_head; lnorm).
  repeat apply LL_app; try exact HX; try (apply LL_indent; exact Hf).
  - apply LL_one. apply L1_of_any. apply lex_else_line.
  - apply LL_one. exact L1_close.
Qed.

Lemma branch_elif : forall X cc a l0 t0 ls ts s, LL X (if_head cc ++ cflats a) ->
  L1 l0 t0 -> LL ls ts -> t0 ++ ts = cflats (SCons s SNil) ->
  LL ((X ++ [("} else " ++ l0)%string]) ++ ls) (cflats (SCons (SIfS cc a (EIf s)) SNil)).
Proof.
  intros X cc a l0 t0 ls ts s HX H0 Hls E.
  replace (cflats (SCons (SIfS cc a (EIf s)) SNil))
    with (((if_head cc ++ cflats a) ++ ([TId "}"; TId "else"] ++ t0)) ++ ts).
  - repeat apply LL_app; try exact HX; try exact Hls.
    apply LL_one. intros rest Hr. rewrite sapp_assoc. rewrite lex_else_if_prefix.
    rewrite (H0 rest Hr). rewrite prep_prep. reflexivity.
  - cbn [cflats] in E. rewrite app_nil_r in E. unfold if_head.
    cbn [cflats cflat cflate]. rewrite <- E. rewrite ?app_nil_r.
    repeat (rewrite <- app_assoc; cbn [app]). reflexivity.
Qed.

Lemma loop_lines : forall cc hdr r a, L1 hdr (while_head cc) -> LL r (cflats a) ->
  LL ([hdr] ++ indent_lines r ++ ["}"%string]) (cflats (SCons (SWhileS cc a) SNil)).
Proof.
  intros cc hdr r a Hh Hr.
  replace (cflats (SCons (SWhileS cc a) SNil)) with (while_head cc ++ cflats a ++ [TId "}"])
    by (unfold while_head; lnorm).
  apply LL_app; [apply LL_one; exact Hh|]. apply LL_app; [apply LL_indent; exact Hr|].
  apply LL_one. exact L1_close.
Qed.

Theorem gen_struct_lines : forall s, deep_names_ok s = true -> prints s.
Proof.
  induction s using stmt_ind'; intros Hn.
  - apply prints_simple; [exact Hn|reflexivity|reflexivity].
  - apply prints_simple; [exact Hn|reflexivity|reflexivity].
  - apply prints_simple; [exact Hn|reflexivity|reflexivity].
  - (* Block *)
    destruct (names_block ss c Hn) as [Hss Hc].
    unfold prints. cbn [ir_to_c_statement skel]. fold go_skel.
    match goal with
    | |- context [ofold_u ?Fn ss (?init, false)] =>
        pose proof (block_fold Fn ss) as BF; assert (HI : LL init [])
    end.
    { destruct c as [cm|]; [|constructor]. cbn [app]. apply LL_one. apply L1_comment. exact Hc. }
    match type of BF with ?Hyp -> _ => assert (Hstep : Hyp) end.
    { intros x Hx lines sep t HL.
      rewrite Forall_forall in H. pose proof (H x Hx (Hss x Hx)) as IHx. unfold prints in IHx.
      cbv beta zeta.
      destruct (genS x) as [r|] eqn:Eg, (skel x) as [a|] eqn:Ea; try contradiction;
        destruct x; destruct sep; cbv beta iota zeta;
        try match goal with |- context [(?z >? 0)%Z] => destruct (z >? 0)%Z end;
        try exact I;
        (apply LL_app; [|exact IHx]);
        first [ exact HL
              | rewrite <- (app_nil_r t); apply LL_app; [exact HL|apply LL_one; exact L1_empty] ]. }
    specialize (BF Hstep _ false [] HI).
    match type of BF with
    | match ?R with _ => _ end => destruct R as [[l1 s1]|]
    end; destruct (go_skel ss) as [l|]; try contradiction; [exact BF|exact I].
  - (* Branch *)
    cbn [deep_names_ok] in Hn. apply andb_true_iff in Hn. destruct Hn as [Hn Hf].
    apply andb_true_iff in Hn. destruct Hn as [Hc Ht].
    specialize (IHs1 Ht). specialize (IHs2 Hf). unfold prints in *.
    cbn [ir_to_c_statement skel].
    destruct (genS s1) as [tl|], (skel s1) as [a|]; try contradiction; [|exact I].
    destruct (genS s2) as [fl|] eqn:Ef, (skel s2) as [b|] eqn:Eb; try contradiction; [|exact I].
    cbv beta zeta.
    assert (Hhead : LL (([] ++ [("if (" ++ genE c ++ ") {")%string]) ++ indent_lines tl)
                       (if_head (cprint c) ++ cflats a)).
    { apply LL_app; [|apply LL_indent; exact IHs1]. apply LL_one.
      apply L1_of_any. apply (lex_if_line fdec str_float OA OB c Hc). }
    destruct s2 as [? ?|? ?|? ?|bs bc|c2 t2 f2|? ?|?|?];
      try (cbv beta iota; cbn [else_of is_Branch is_empty_block]; apply branch_block; assumption).
    + (* else is a Block *)
      destruct bs as [|? ?]; [destruct bc|];
        cbv beta iota; cbn [else_of is_Branch is_empty_block];
        first [apply branch_none; assumption | apply branch_block; assumption].
    + (* else if *)
      cbn [skel] in Eb. destruct (skel t2), (skel f2); try discriminate Eb. injection Eb as <-.
      inversion IHs2 as [E0|l0 ls t0 ts H0 Hls E1 E2]; try discriminate.
      subst fl. cbv beta iota. cbn [py_getitem Z.leb Z.compare nth_error Z.to_nat skipn].
      cbn [else_of is_Branch]. eapply branch_elif; eassumption.
  - (* Loop *)
    cbn [deep_names_ok] in Hn. apply andb_true_iff in Hn. destruct Hn as [Hc Hb].
    specialize (IHs Hb). unfold prints in *. cbn [ir_to_c_statement skel].
    destruct (genS s) as [r|], (skel s) as [a|]; try contradiction; [|exact I].
    apply loop_lines; [|exact IHs].
    apply L1_of_any. apply (lex_while_line fdec str_float OA OB c Hc).
  - apply prints_simple; [exact Hn|reflexivity|reflexivity].
  - apply prints_simple; [exact Hn|reflexivity|reflexivity].
Qed.

(** ** Statements: the joined lines lex to the skeleton's tokens, which parse back to the skeleton *)

Theorem gen_struct_lex : forall s, deep_names_ok s = true ->
  match genS s, skel s with
  | Some lines, Some l => forall rest, eol rest ->
      lex None (py_join (String nl "") lines ++ rest)%string = prep (cflats l) (lex None rest)
  | None, None => True
  | _, _ => False
  end.
Proof.
  intros s Hn. pose proof (gen_struct_lines s Hn) as H. unfold prints in H.
  destruct (genS s) as [lines|], (skel s) as [l|]; try contradiction; [|exact I].
  intros rest Hr. apply LL_join; assumption.
Qed.

Theorem gen_struct_equiv : forall s lines, deep_names_ok s = true -> genS s = Some lines ->
  exists l, skel s = Some l /\
            slex fdec (py_join (String nl "") lines) = Some (flats l) /\
            sparse (flats l) = Some l.
Proof.
  intros s lines Hn E. pose proof (gen_struct_lex s Hn) as H. rewrite E in H.
  destruct (skel s) as [l|] eqn:El; [|contradiction].
  destruct (skel_Q s Hn l El) as [W M].
  exists l. split; [reflexivity|]. split; [|apply sparse_flats; exact W].
  unfold slex, clex. rewrite <- (sapp_nil_r (py_join (String nl "") lines)).
  rewrite (H "" (or_introl eq_refl)). cbn [CLexer.lex flush prep]. rewrite app_nil_r, M. reflexivity.
Qed.

Theorem gen_struct_none : forall s, deep_names_ok s = true -> genS s = None -> skel s = None.
Proof.
  intros s Hn E. pose proof (gen_struct_lex s Hn) as H. rewrite E in H.
  destruct (skel s); [contradiction|reflexivity].
Qed.


End TieStruct.
