(** Certificate "inputs untouched, statically" (property C05).

    [input_safe_cert f]: a flow-insensitive taint closure.  A variable is INPUT-DERIVED (tainted)
    when it may hold an input tensor handle or a pointer into an input array: the non-output
    tensor parameters (all parameters but the first), and everything assigned -- transitively --
    from [X->vals], [X->indices[l][j]], [X->indices], a copy of, or pointer arithmetic on, an
    input-derived variable.  The certificate demands that no store goes through an input-derived
    expression, no [ArrayReallocate] is applied to one, and no input-derived value is stored into a
    tensor field.

    Soundness ([input_safe_sound]): a kernel that passes can NEVER end with [Fail EWriteInput], on
    any arguments and any state in which the first argument is a clean (output) tensor: it cannot
    even attempt a write into an input.  The invariant: every variable outside the tainted set
    holds a CLEAN value (no pointer into an input block, no handle of a tensor that is an input or
    has a field pointing into an input block). *)

From Coq Require Import ZArith Bool List String Lia FMapPositive.
From TV Require Import spec.Num gen.IRAst spec.IRSem spec.IRRun proofs.MachineSafety
  proofs.InitState proofs.Certs2Base.
Import ListNotations.
Open Scope Z_scope.

Local Arguments fadd : simpl never.
Local Arguments fsub : simpl never.
Local Arguments fmul : simpl never.
Local Arguments chk32 : simpl never.
Local Arguments chkfin : simpl never.

(** * The certificate *)

(** may the value of [e] be input-derived, when the variables in [T] may be?  Loads from arrays
    deliver numbers; only [Add] does pointer arithmetic, and only on its left operand. *)
Fixpoint may_input (T : list string) (e : expr) {struct e} : bool :=
  match e with
  | Var x => mem x T
  | AttributeAccess tgt _ => may_input T tgt
  | ArrayIndex tgt _ =>
      match tgt with
      | Var _ => false              (* a variable holds no level handle: this is a load *)
      | _ => may_input T tgt
      end
  | Add l _ => may_input T l
  | _ => false
  end.

(** [realloc] frees its argument: never on an input-derived pointer *)
Definition rhs_ok (T : list string) (e : expr) : bool :=
  match e with
  | ArrayReallocate old _ _ => negb (may_input T old)
  | _ => true
  end.

Definition target_ok (T : list string) (tgt val : expr) : bool :=
  match tgt with
  | Var x => negb (may_input T val) || mem x T
  | AttributeAccess t' _ => negb (may_input T t') && negb (may_input T val)
  | ArrayIndex t' _ => negb (may_input T t') && negb (may_input T val)
  | _ => true
  end.

Fixpoint safe_stmt (T : list string) (s : stmt) {struct s} : bool :=
  match s with
  | Assignment tgt val => rhs_ok T val && target_ok T tgt val
  | DeclarationAssignment d val =>
      rhs_ok T val &&
      match d with
      | Declaration (Var x) _ => negb (may_input T val) || mem x T
      | _ => true
      end
  | Block ss _ => forallb (safe_stmt T) ss
  | Branch _ a b => safe_stmt T a && safe_stmt T b
  | Loop _ b => safe_stmt T b
  | _ => true
  end.

(** one round of taint propagation *)
Fixpoint taint_step (T : list string) (s : stmt) {struct s} : list string :=
  match s with
  | Assignment (Var x) val => if may_input T val && negb (mem x T) then x :: T else T
  | DeclarationAssignment (Declaration (Var x) _) val =>
      if may_input T val && negb (mem x T) then x :: T else T
  | Block ss _ =>
      (fix go (l : list stmt) (T : list string) : list string :=
         match l with [] => T | s1 :: r => go r (taint_step T s1) end) ss T
  | Branch _ a b => taint_step (taint_step T a) b
  | Loop _ b => taint_step T b
  | _ => T
  end.

Fixpoint taint_iter (n : nat) (T : list string) (body : stmt) : list string :=
  match n with
  | O => T
  | S k =>
      let T' := taint_step T body in
      if Nat.eqb (List.length T') (List.length T) then T else taint_iter k T' body
  end.

(** the tainted set of a function: seeded with all parameters but the first *)
Definition taint_set (f : function_definition) : list string :=
  match f with
  | FunctionDefinition _ ps _ body => taint_iter 1000 (param_names (tl ps)) body
  end.

Definition input_safe_cert (f : function_definition) : bool :=
  match f with
  | FunctionDefinition _ ps _ body =>
      let T := taint_set f in
      subset (param_names (tl ps)) T && safe_stmt T body
  end.

(** * Clean values *)

Definition input_blk (st : state) (b : positive) : Prop :=
  exists blk, PM.find b (heap st) = Some blk /\ b_input blk = true.

Definition clean_ptr (st : state) (v : value) : Prop :=
  match v with VPtr b _ => ~ input_blk st b | _ => True end.

Definition clean_tensor (st : state) (t : positive) : Prop :=
  forall ts, PM.find t (tensors st) = Some ts ->
    t_output ts = true /\ clean_ptr st (t_vals ts) /\
    Forall (fun pc => clean_ptr st (fst pc) /\ clean_ptr st (snd pc)) (t_idx ts).

Definition clean_val (st : state) (v : value) : Prop :=
  match v with
  | VPtr b _ => ~ input_blk st b
  | VTensor t => clean_tensor st t
  | VDims t => clean_tensor st t
  | VIndices t => clean_tensor st t
  | VLevel t _ => clean_tensor st t
  | _ => True
  end.

(** clean values stay clean *)
Definition ext (st st' : state) : Prop := forall v, clean_val st v -> clean_val st' v.

Lemma ext_refl st : ext st st.
Proof. intros v H. exact H. Qed.

Lemma ext_trans a b c : ext a b -> ext b c -> ext a c.
Proof. intros H1 H2 v H. auto. Qed.

Lemma clean_ptr_val st v : is_ptr v = true -> clean_ptr st v -> clean_val st v.
Proof. destruct v; simpl; try discriminate; auto. Qed.

Lemma clean_val_ptr st v : clean_val st v -> clean_ptr st v.
Proof. destruct v; simpl; auto. Qed.

Lemma clean_ptr_mono st st' v :
  (forall b, input_blk st' b -> input_blk st b) -> clean_ptr st v -> clean_ptr st' v.
Proof. intros M. destruct v; simpl; auto. Qed.

Lemma ext_intro st st' :
  (forall b, input_blk st' b -> input_blk st b) ->
  (forall t, clean_tensor st t -> clean_tensor st' t) -> ext st st'.
Proof. intros H1 H2 v. destruct v; simpl; auto. Qed.

(** only the heap changed, and no block became an input *)
Lemma ext_heap st st' :
  tensors st' = tensors st -> (forall b, input_blk st' b -> input_blk st b) -> ext st st'.
Proof.
  intros HT M. apply ext_intro; auto.
  intros t C ts F. rewrite HT in F. destruct (C ts F) as (O & V & I).
  split; [auto|split].
  - eapply clean_ptr_mono; eauto.
  - eapply Forall_impl; [|exact I]. intros [p c] [Hp Hc]; simpl in *.
    split; eapply clean_ptr_mono; eauto.
Qed.

Lemma clean_coerce st t v w : coerce t v = Ok w -> clean_val st v -> clean_val st w.
Proof. intros H C. destruct (coerce_shape _ _ _ H) as [->|[f ->]]; simpl; auto. Qed.

Lemma clean_number st v :
  match v with VInt _ => True | VFloat _ => True | _ => False end -> clean_val st v.
Proof. destruct v; simpl; tauto. Qed.

(** * The invariant *)

Section SOUND.
  Variable T : list string.

  Definition Inv (st : state) : Prop :=
    forall x t v, mem x T = false -> lookup x (env st) = Some (t, Some v) -> clean_val st v.

  Lemma arith_clean st iop fop p a b v :
    arith iop fop p a b = Ok v -> clean_val st a -> clean_val st v.
  Proof.
    unfold arith, bind. destruct a, b; try discriminate;
      repeat match goal with |- context [match ?X with _ => _ end] => destruct X; try discriminate end;
      intros H; inv H; simpl; auto.
  Qed.

  Lemma arith_noptr_clean st iop fop a b v :
    arith iop fop false a b = Ok v -> clean_val st v.
  Proof.
    unfold arith, bind. destruct a, b; try discriminate;
      repeat match goal with |- context [match ?X with _ => _ end] => destruct X; try discriminate end;
      intros H; inv H; simpl; auto.
  Qed.

  Lemma cmp_clean st op a b v : cmp op a b = Ok v -> clean_val st v.
  Proof. unfold cmp. destruct a, b; try discriminate. intros H; inv H. exact I. Qed.

  Lemma sel_clean st op a b v : sel op a b = Ok v -> clean_val st v.
  Proof. unfold sel. destruct a, b; try discriminate. intros H; inv H. exact I. Qed.

  Lemma index_value_clean st v i r tr :
    index_value st v i = Ok (r, tr) -> clean_val st v -> clean_val st r.
  Proof.
    unfold index_value, bind. destruct v, i; try discriminate.
    - destruct (load st blk (off + z)) eqn:L; try discriminate. intros H; inv H. intros _.
      apply clean_number. eapply load_shape; eauto.
    - destruct (tensor_of st t); try discriminate. destruct (nthZ_opt _ _); try discriminate.
      destruct (chk32 _); try discriminate. intros H; inv H. intros _. exact I.
    - intros H; inv H. auto.
    - unfold tensor_of. destruct (PM.find t (tensors st)) as [ts|] eqn:F; try discriminate.
      destruct (nthZ_opt (t_idx ts) l) as [[p c]|] eqn:N; try discriminate.
      destruct (negb (is_ptr p && is_ptr c)) eqn:IP; try discriminate.
      apply negb_false_iff in IP. apply andb_prop in IP. destruct IP as [IPp IPc].
      intros H C. simpl in C. destruct (C ts F) as (_ & _ & FA).
      unfold nthZ_opt in N. destruct (l <? 0); try discriminate.
      apply nth_error_In in N. rewrite Forall_forall in FA. apply FA in N. simpl in N.
      destruct N as [Cp Cc].
      destruct (z =? 0); [inv H; now apply clean_ptr_val|].
      destruct (z =? 1); [inv H; now apply clean_ptr_val|discriminate].
  Qed.

  Lemma attribute_value_clean st v a r :
    attribute_value st v a = Ok r -> clean_val st v -> clean_val st r.
  Proof.
    unfold attribute_value, bind. destruct v; try discriminate.
    destruct (String.eqb a "dimensions"); [intros H; inv H; auto|].
    destruct (String.eqb a "indices"); [intros H; inv H; auto|].
    destruct (String.eqb a "vals"); try discriminate.
    unfold tensor_of. destruct (PM.find t (tensors st)) as [ts|] eqn:F; try discriminate.
    destruct (is_ptr (t_vals ts)) eqn:IP; try discriminate. intros H; inv H. intros C.
    simpl in C. destruct (C ts F) as (_ & V & _). now apply clean_ptr_val.
  Qed.

  (** an expression the analysis calls not input-derived evaluates to a clean value *)
  Lemma eval_clean st : Inv st -> forall e v tr,
    may_input T e = false -> eval st e = Ok (v, tr) -> clean_val st v.
  Proof.
    intros IV. induction e; intros v tr M H; simpl in H;
      try (apply bin2_inv in H; destruct H as (a & t1 & b & t2 & Ha & Hb & Hop));
      try (first [ eapply arith_noptr_clean; eassumption | eapply cmp_clean; eassumption
                 | eapply sel_clean; eassumption ]; fail).
    - (* Var *)
      destruct (lookup name (env st)) as [[t [w|]]|] eqn:L; try discriminate.
      destruct (typed t w); try discriminate. inv H. simpl in M. eapply IV; eauto.
    - (* AttributeAccess *)
      unfold bind in H. destruct (eval st e) as [[w t1]|] eqn:E1; try discriminate.
      destruct (attribute_value st w attribute) eqn:A; try discriminate. inv H.
      eapply attribute_value_clean; eauto.
    - (* ArrayIndex *)
      unfold bind in H. destruct (eval st e1) as [[w t1]|] eqn:E1; try discriminate.
      destruct (eval st e2) as [[i t2]|]; try discriminate.
      destruct (index_value st w i) as [[r t3]|] eqn:X; try discriminate. inv H.
      assert (D : (exists x, e1 = Var x) \/ may_input T e1 = false).
      { destruct e1; simpl in M; eauto. }
      destruct D as [[x ->]|D].
      + (* load through a variable *)
        simpl in E1. destruct (lookup x (env st)) as [[t [w0|]]|]; try discriminate.
        destruct (typed t w0) eqn:TY; try discriminate. inv E1.
        apply typed_shape in TY. unfold index_value, bind in X.
        destruct w; try tauto; try discriminate. destruct i; try discriminate.
        destruct (load st blk (off + z)) eqn:L; try discriminate. inv X.
        apply clean_number. eapply load_shape; eauto.
      + eapply index_value_clean; eauto.
    - (* IntegerLiteral *) unfold bind in H. destruct (chk32 value); inv H. exact I.
    - (* FloatLiteral *) unfold bind in H. destruct (chkfin value); inv H. exact I.
    - (* BooleanLiteral *) inv H. exact I.
    - (* Add *) simpl in M. eapply arith_clean; eauto.
    - (* And *)
      unfold bind in H. destruct (eval st e1) as [[a t1]|]; try discriminate.
      destruct (as_bool a) as [[|]|]; try discriminate.
      + destruct (eval st e2) as [[b t2]|]; try discriminate.
        destruct (as_bool b); try discriminate. inv H. exact I.
      + inv H. exact I.
    - (* Or *)
      unfold bind in H. destruct (eval st e1) as [[a t1]|]; try discriminate.
      destruct (as_bool a) as [[|]|]; try discriminate.
      + inv H. exact I.
      + destruct (eval st e2) as [[b t2]|]; try discriminate.
        destruct (as_bool b); try discriminate. inv H. exact I.
    - (* BooleanToInteger *)
      unfold bind in H. destruct (eval st e) as [[a t1]|]; try discriminate.
      destruct (as_bool a); try discriminate. inv H. exact I.
    - discriminate.
    - discriminate.
  Qed.

  (** ** Steps *)

  Lemma input_blk_add_noninput st st' b blk :
    heap st' = PM.add b blk (heap st) -> b_input blk = false ->
    forall b', input_blk st' b' -> input_blk st b'.
  Proof.
    intros HH NI b' [blk' [F I']]. rewrite HH in F.
    destruct (Pos.eq_dec b' b) as [->|N].
    - rewrite PM.gss in F. inv F. congruence.
    - rewrite PM.gso in F by auto. exists blk'. auto.
  Qed.

  Lemma input_blk_add2 st st' b1 blk1 b2 blk2 :
    heap st' = PM.add b2 blk2 (PM.add b1 blk1 (heap st)) ->
    b_input blk1 = false -> b_input blk2 = false ->
    forall b', input_blk st' b' -> input_blk st b'.
  Proof.
    intros HH N1 N2 b' [blk' [F I']]. rewrite HH in F.
    destruct (Pos.eq_dec b' b2) as [->|D2].
    - rewrite PM.gss in F. inv F. congruence.
    - rewrite PM.gso in F by auto. destruct (Pos.eq_dec b' b1) as [->|D1].
      + rewrite PM.gss in F. inv F. congruence.
      + rewrite PM.gso in F by auto. exists blk'. auto.
  Qed.

  Lemma alloc_step st t n st1 p tr :
    alloc st t n = Ok (st1, p, tr) ->
    env st1 = env st /\ ext st st1 /\ clean_val st1 p.
  Proof.
    unfold alloc, bind. destruct (elt_is_float t); try discriminate.
    destruct (n <? 0); try discriminate. intros H; inv H. split; [reflexivity|split].
    - apply ext_heap; [reflexivity|]. eapply input_blk_add_noninput; simpl; eauto.
    - simpl. intros [blk [F I']]. simpl in F. rewrite PM.gss in F. inv F. discriminate.
  Qed.

  Lemma alloc_nw st t n : nw (alloc st t n).
  Proof.
    unfold alloc, bind. destruct (elt_is_float t) eqn:Q.
    - destruct (n <? 0); [apply nw_err; discriminate|apply nw_ok].
    - apply nw_err. destruct t; simpl in Q; inv Q; discriminate.
  Qed.

  Lemma realloc_step st o t n :
    clean_val st o ->
    match realloc st o t n with
    | Err x => x <> EWriteInput
    | Ok (st1, p, _) => env st1 = env st /\ ext st st1 /\ clean_val st1 p
    end.
  Proof.
    intros C. unfold realloc, bind. destruct (elt_is_float t) eqn:Q.
    2:{ destruct t; simpl in Q; inv Q; discriminate. }
    destruct (n <? 0) eqn:N0; [discriminate|].
    destruct o; try discriminate.
    - destruct off; try discriminate.
      destruct (PM.find blk (heap st)) as [b0|] eqn:F; try discriminate.
      destruct (negb (b_live b0)); try discriminate.
      destruct (b_input b0) eqn:IB.
      { exfalso. apply C. exists b0. auto. }
      destruct (negb _); try discriminate.
      split; [reflexivity|split].
      + apply ext_heap; [reflexivity|].
        eapply input_blk_add2; simpl; [reflexivity| |]; reflexivity.
      + simpl. intros [blk' [F' I']]. simpl in F'. rewrite PM.gss in F'. inv F'. discriminate.
    - destruct (alloc st t n) as [[[st1 p] tr]|x] eqn:A.
      + eapply alloc_step; eauto.
      + intros ->. eapply (alloc_nw st t n); eauto.
  Qed.

  Lemma eval_rhs_step st val :
    Inv st -> rhs_ok T val = true ->
    match eval_rhs st val with
    | Err x => x <> EWriteInput
    | Ok (st1, v, _) =>
        env st1 = env st /\ ext st st1 /\ (may_input T val = false -> clean_val st1 v)
    end.
  Proof.
    intros IV K.
    assert (PLAIN : forall e, eval_rhs st e = (do '(v, t1) <- eval st e; Ok (st, v, t1)) ->
      match eval_rhs st e with
      | Err x => x <> EWriteInput
      | Ok (st1, v, _) => env st1 = env st /\ ext st st1 /\ (may_input T e = false -> clean_val st1 v)
      end).
    { intros e ->. unfold bind. destruct (eval st e) as [[v t1]|x] eqn:E.
      - split; [reflexivity|split; [apply ext_refl|]]. intros M. eapply eval_clean; eauto.
      - intros ->. eapply eval_not_write; eauto. }
    destruct val; try (apply PLAIN; reflexivity).
    - (* ArrayAllocate *)
      simpl. unfold bind. destruct (eval st val) as [[v t1]|x] eqn:E.
      2:{ intros ->. eapply eval_not_write; eauto. }
      destruct v; try discriminate.
      destruct (alloc st element_type z) as [[[st1 p] t2]|x] eqn:A.
      + apply alloc_step in A. tauto.
      + intros ->. eapply (alloc_nw st element_type z); eauto.
    - (* ArrayReallocate *)
      simpl. simpl in K. apply negb_true_iff in K.
      destruct (negb (is_Assignable val1)); [discriminate|]. unfold bind.
      destruct (eval st val1) as [[o t1]|x] eqn:E1.
      2:{ intros ->. eapply eval_not_write; eauto. }
      destruct (eval st val2) as [[v t2]|x] eqn:E2.
      2:{ intros ->. eapply eval_not_write; eauto. }
      destruct v; try discriminate.
      pose proof (realloc_step st o element_type z (eval_clean st IV _ _ _ K E1)) as R.
      destruct (realloc st o element_type z) as [[[st1 p] t3]|x]; [tauto|exact R].
  Qed.

  Lemma Inv_ext_env st st1 : Inv st -> env st1 = env st -> ext st st1 -> Inv st1.
  Proof. intros IV HE X x t v M L. rewrite HE in L. apply X. eapply IV; eauto. Qed.

  Lemma Inv_set st x t v' :
    Inv st -> (mem x T = false -> clean_val st v') ->
    Inv (with_env st (set_var x (t, Some v') (env st))).
  Proof.
    intros IV C y ty w M L. simpl in L. rewrite lookup_set_var in L.
    destruct (String.eqb y x) eqn:Q.
    - apply String.eqb_eq in Q. subst y. inv L. apply C. exact M.
    - exact (IV y ty w M L).
  Qed.

  Lemma Inv_unset st x t :
    Inv st -> Inv (with_env st (set_var x (t, None) (env st))).
  Proof.
    intros IV y ty w M L. simpl in L. rewrite lookup_set_var in L.
    destruct (String.eqb y x) eqn:Q; [discriminate|]. exact (IV y ty w M L).
  Qed.

  Lemma store_step st blk off v :
    ~ input_blk st blk ->
    match store st blk off v with
    | Err x => x <> EWriteInput
    | Ok st' => env st' = env st /\ ext st st'
    end.
  Proof.
    intros C. unfold store, bind.
    destruct (PM.find blk (heap st)) as [b|] eqn:F; try discriminate.
    destruct (negb (b_live b)); try discriminate.
    destruct (b_input b) eqn:IB.
    { exfalso. apply C. exists b. auto. }
    destruct (_ || _); try discriminate.
    destruct (coerce _ v) eqn:CO.
    - split; [reflexivity|]. apply ext_heap; [reflexivity|].
      eapply input_blk_add_noninput; simpl; eauto.
    - intros ->. eapply (coerce_nw _ v); eauto.
  Qed.

  Lemma set_nth_Forall {A} (Q : A -> Prop) (l : list A) : forall n x l',
    Forall Q l -> Q x -> set_nth l n x = Some l' -> Forall Q l'.
  Proof.
    induction l as [|a r IH]; intros n x l' FA Qx H; simpl in H.
    - destruct n; discriminate.
    - inv FA. destruct n.
      + inv H. constructor; auto.
      + destruct (set_nth r n x) eqn:S; try discriminate. inv H. constructor; eauto.
  Qed.

  Lemma clean_tensor_update st t ts' :
    t_output ts' = true -> clean_ptr st (t_vals ts') ->
    Forall (fun pc => clean_ptr st (fst pc) /\ clean_ptr st (snd pc)) (t_idx ts') ->
    ext st (with_tensors st (PM.add t ts' (tensors st))).
  Proof.
    intros O V FA. apply ext_intro.
    - intros b H. exact H.
    - intros t0 C ts F. simpl in F. destruct (Pos.eq_dec t0 t) as [->|N].
      + rewrite PM.gss in F. inv F. auto.
      + rewrite PM.gso in F by auto. exact (C ts F).
  Qed.

  (** a field store on a clean tensor with a clean value *)
  Lemma assign_field_step st l v :
    (match l with LTVals t => clean_tensor st t | LTIdx t _ _ => clean_tensor st t | _ => False end) ->
    clean_val st v ->
    match assign st l v with
    | Err x => x <> EWriteInput
    | Ok (st', _) => env st' = env st /\ ext st st'
    end.
  Proof.
    intros CT CV. destruct l; try tauto; simpl; unfold bind, tensor_of.
    - destruct (PM.find t (tensors st)) as [ts|] eqn:F; try discriminate.
      destruct (CT ts F) as (O & V & FA). rewrite O. simpl.
      destruct (negb (is_ptr v)); try discriminate.
      split; [reflexivity|]. apply clean_tensor_update; simpl; auto.
      now apply clean_val_ptr.
    - destruct (PM.find t (tensors st)) as [ts|] eqn:F; try discriminate.
      destruct (CT ts F) as (O & V & FA). rewrite O. simpl.
      destruct (negb (is_ptr v)); try discriminate.
      destruct (l <? 0); try discriminate.
      destruct (nth_error (t_idx ts) (Z.to_nat l)) as [[p c]|] eqn:N; try discriminate.
      assert (Cpc : clean_ptr st p /\ clean_ptr st c).
      { apply nth_error_In in N. rewrite Forall_forall in FA. exact (FA _ N). }
      destruct (if j =? 0 then _ else _) as [pc'|] eqn:PC; try discriminate.
      destruct (set_nth (t_idx ts) (Z.to_nat l) pc') as [idx'|] eqn:SN; try discriminate.
      split; [reflexivity|]. apply clean_tensor_update; simpl; auto.
      eapply set_nth_Forall; [exact FA| |exact SN].
      apply clean_val_ptr in CV.
      destruct (j =? 0); [inv PC; simpl; tauto|].
      destruct (j =? 1); [inv PC; simpl; tauto|discriminate].
  Qed.

  Lemma eval_loc_nw st e : nw (eval_loc st e).
  Proof.
    destruct e; simpl; try (apply nw_err; discriminate); try apply nw_ok.
    - apply nw_bind; [apply eval_nw|]. intros [v t1]. destruct v; try (apply nw_err; discriminate).
      destruct (String.eqb _ _); [apply nw_ok|apply nw_err; discriminate].
    - apply nw_bind; [apply eval_nw|]. intros [v t1].
      apply nw_bind; [apply eval_nw|]. intros [i t2].
      destruct v, i; try (apply nw_err; discriminate); apply nw_ok.
  Qed.

  Definition P0 (st0 st : state) : Prop := Inv st /\ ext st0 st.

  Definition safe_err (x : err) : Prop := x <> EWriteInput.

  Lemma assignment_step st0 st tgt val :
    rhs_ok T val = true -> target_ok T tgt val = true -> P0 st0 st ->
    good (P0 st0) safe_err (exec 1 (Assignment tgt val) st).
  Proof.
    intros K1 K2 [IV X0]. simpl.
    pose proof (eval_rhs_step st val IV K1) as R.
    destruct (eval_rhs st val) as [[[st1 v] t1]|x]; [|exact R].
    destruct R as (HE & X1 & CV).
    assert (IV1 : Inv st1) by (eapply Inv_ext_env; eauto).
    destruct (eval_loc st1 tgt) as [[l t2]|x] eqn:EL.
    2:{ simpl. intros ->. eapply (eval_loc_nw st1 tgt); eauto. }
    destruct tgt; simpl in EL; try discriminate.
    - (* Var *)
      inv EL. simpl. simpl in K2.
      destruct (lookup name (env st1)) as [[t o]|]; [|simpl; discriminate].
      unfold bind. destruct (coerce t v) as [v'|x] eqn:CO.
      2:{ simpl. intros ->. eapply (coerce_nw t v); eauto. }
      simpl. split.
      + apply Inv_set; auto. intros M. rewrite M in K2. rewrite orb_false_r in K2.
        apply negb_true_iff in K2. eapply clean_coerce; eauto.
      + eapply ext_trans; [exact X0|]. exact X1.
    - (* AttributeAccess *)
      simpl in K2. apply andb_prop in K2. destruct K2 as [Kt Kv].
      apply negb_true_iff in Kt. apply negb_true_iff in Kv.
      unfold bind in EL. destruct (eval st1 tgt) as [[w tw]|] eqn:ET; try discriminate.
      pose proof (eval_clean st1 IV1 _ _ _ Kt ET) as CW.
      destruct w; try discriminate. destruct (String.eqb attribute "vals"); try discriminate.
      inv EL.
      pose proof (assign_field_step st1 (LTVals t) v CW (CV Kv)) as A.
      destruct (assign st1 (LTVals t) v) as [[st2 t3]|x]; [|exact A].
      destruct A as [HE2 X2]. simpl. split.
      + eapply Inv_ext_env; eauto.
      + eapply ext_trans; [exact X0|]. eapply ext_trans; eauto.
    - (* ArrayIndex *)
      simpl in K2. apply andb_prop in K2. destruct K2 as [Kt Kv].
      apply negb_true_iff in Kt. apply negb_true_iff in Kv.
      unfold bind in EL. destruct (eval st1 tgt1) as [[w tw]|] eqn:ET; try discriminate.
      pose proof (eval_clean st1 IV1 _ _ _ Kt ET) as CW.
      destruct (eval st1 tgt2) as [[i ti]|]; try discriminate.
      destruct w; try discriminate; destruct i; try discriminate; inv EL.
      + (* cell *)
        simpl. unfold bind. pose proof (store_step st1 blk (off + z) v CW) as S.
        destruct (store st1 blk (off + z) v) as [st2|x]; [|exact S].
        destruct S as [HE2 X2]. simpl. split.
        * eapply Inv_ext_env; eauto.
        * eapply ext_trans; [exact X0|]. eapply ext_trans; eauto.
      + (* level field *)
        pose proof (assign_field_step st1 (LTIdx t l0 z) v CW (CV Kv)) as A.
        destruct (assign st1 (LTIdx t l0 z) v) as [[st2 t3]|x]; [|exact A].
        destruct A as [HE2 X2]. simpl. split.
        * eapply Inv_ext_env; eauto.
        * eapply ext_trans; [exact X0|]. eapply ext_trans; eauto.
  Qed.

  Lemma atomic_step st0 s st :
    is_atomic s = true -> safe_stmt T s = true -> P0 st0 st ->
    good (P0 st0) safe_err (exec 1 s st).
  Proof.
    intros A K PS. destruct s; try discriminate A.
    - (* Declaration *)
      simpl. unfold declare. destruct name; simpl; try discriminate.
      destruct PS as [IV X0]. split; [now apply Inv_unset|exact X0].
    - (* Assignment *)
      simpl in K. apply andb_prop in K. destruct K. now apply assignment_step.
    - (* DeclarationAssignment *)
      simpl in K. apply andb_prop in K. destruct K as [K1 K2]. destruct PS as [IV X0].
      simpl. destruct s; try (simpl; discriminate).
      pose proof (eval_rhs_step st value IV K1) as R.
      destruct (eval_rhs st value) as [[[st1 v] t1]|x]; [|exact R].
      destruct R as (HE & X1 & CV).
      destruct (coerce type v) as [v'|x] eqn:CO.
      2:{ simpl. intros ->. eapply (coerce_nw type v); eauto. }
      unfold declare. destruct name; simpl; try discriminate.
      assert (IV1 : Inv st1) by (eapply Inv_ext_env; eauto).
      split.
      + change (Inv (with_env st1 (set_var name (type, Some v') (env st1)))).
        apply Inv_set; auto. intros M. rewrite M in K2. rewrite orb_false_r in K2.
        apply negb_true_iff in K2. eapply clean_coerce; eauto.
      + eapply ext_trans; eauto.
    - (* Return *)
      simpl. destruct (eval st value) as [[v t]|x] eqn:E; simpl; auto.
      intros ->. eapply eval_not_write; eauto.
    - (* SExpr *)
      simpl. destruct (eval st e) as [[v t]|x] eqn:E; simpl; auto.
      intros ->. eapply eval_not_write; eauto.
  Qed.

  Theorem safe_stmt_sound st0 n s st :
    safe_stmt T s = true -> P0 st0 st -> good (P0 st0) safe_err (exec n s st).
  Proof.
    apply (exec_invariant (P0 st0) safe_err (safe_stmt T)).
    - intros s0 [IV X]. split; auto.
    - intros ss c H. exact H.
    - intros c a b H. simpl in H. now apply andb_prop in H.
    - intros c b H. exact H.
    - intros s0 e x H ->. eapply eval_not_write; eauto.
    - intros v x H ->. eapply as_bool_not_write; eauto.
    - intros s0 s1 A K PS. now apply atomic_step.
  Qed.
End SOUND.

(** * Whole kernels *)

(** the first argument (the output tensor) is clean: it is flagged as output and none of its arrays
    is an input block *)
Definition out_clean (st : state) (args : list value) : Prop :=
  match args with [] => True | a :: _ => clean_val st a end.

Lemma taint_set_params name ps rt body :
  input_safe_cert (FunctionDefinition name ps rt body) = true ->
  forall x, In x (param_names (tl ps)) -> In x (taint_set (FunctionDefinition name ps rt body)).
Proof.
  unfold input_safe_cert. intros C x I. apply andb_prop in C. destruct C as [C _].
  eapply subset_In; eauto.
Qed.

Theorem input_safe_sound f : input_safe_cert f = true ->
  forall fuel args st, out_clean st args ->
    match call fuel f args st with
    | Fail x => x <> EWriteInput
    | Returned st' _ _ => out_clean st' args
    | _ => True
    end.
Proof.
  intros C fuel args st OC. destruct f as [name ps rt body].
  pose proof (taint_set_params _ _ _ _ C) as TP.
  set (T := taint_set (FunctionDefinition name ps rt body)) in *.
  unfold input_safe_cert in C. apply andb_prop in C. destruct C as [_ C]. fold T in C.
  unfold call. destruct (bind_params ps args []) as [e|x] eqn:B.
  2:{ (* binding never stores *)
      clear - B. revert args B. generalize (@nil (string * (ty * option value))).
      induction ps as [|p ps IH]; intros e0 args B; destruct args; simpl in B; try (inv B; discriminate).
      - destruct p; try (inv B; discriminate). destruct name; inv B; discriminate.
      - destruct p as [nm t| | | | | | |]; try (inv B; discriminate).
        destruct nm; try (inv B; discriminate). unfold bind in B.
        destruct (coerce t v) eqn:CO.
        + eauto.
        + inv B. intros ->. eapply (coerce_nw t v); eauto. }
  assert (PS : P0 T st (with_env st e)).
  { split; [|intros v H; exact H].
    intros x t v M L. simpl in L. change (clean_val st v).
    destruct ps as [|p ps'].
    - destruct args; simpl in B; inv B. discriminate.
    - simpl in B. destruct p as [nm t0| | | | | | |]; try discriminate.
      destruct nm as [a| | | | | | | | | | | | | | | | | | | | |]; try discriminate.
      destruct args as [|a0 args']; try discriminate. unfold bind in B.
      destruct (coerce t0 a0) as [v0|] eqn:CO; try discriminate.
      rewrite (bind_params_other _ _ _ _ x B) in L.
      + simpl in L. destruct (String.eqb x a); try discriminate. inv L.
        eapply clean_coerce; eauto.
      + intros I. apply TP in I. apply mem_In in I. simpl in I. congruence. }
  pose proof (safe_stmt_sound T st fuel body (with_env st e) C PS) as G.
  destruct (exec fuel body (with_env st e)) as [s1 t1|s1 r t1|x|]; simpl in G.
  - discriminate.
  - destruct G as [_ X].
    destruct (coerce rt r) as [r'|x] eqn:CO.
    + destruct args; simpl in *; auto.
    + intros ->. eapply (coerce_nw rt r); eauto.
  - exact G.
  - exact I.
Qed.

(** the two halves of "inputs untouched" for a certified kernel: it never attempts the write, and
    (from MachineSafety) on return every input block and input tensor struct is what it was *)
Theorem input_safe_cert_sound f : input_safe_cert f = true ->
  forall fuel args st, out_clean st args ->
    call fuel f args st <> Fail EWriteInput /\
    forall st' v tr, call fuel f args st = Returned st' v tr ->
      out_clean st' args /\ (wf_heap st -> frame st st').
Proof.
  intros C fuel args st OC. pose proof (input_safe_sound f C fuel args st OC) as H. split.
  - intros Q. rewrite Q in H. congruence.
  - intros st' v tr Q. rewrite Q in H. split; auto.
    intros W. eapply call_preserves_inputs; eauto.
Qed.

(** the initial states of the harness (output tensor first) satisfy the hypothesis *)
Local Arguments add_block : simpl never.

Lemma add_levels_tensors lv : forall st st' l, add_levels st lv = (st', l) -> tensors st' = tensors st.
Proof.
  induction lv as [|[[pos crd]|] r IH]; intros st st' l H; cbn [add_levels] in H.
  - now inv H.
  - match type of H with context [add_block st ?a1 ?a2 ?a3 ?a4] =>
      destruct (add_block st a1 a2 a3 a4) as [st1 p] eqn:E1 end.
    match type of H with context [add_block st1 ?a1 ?a2 ?a3 ?a4] =>
      destruct (add_block st1 a1 a2 a3 a4) as [st2 c] eqn:E2 end.
    destruct (add_levels st2 r) as [st3 l3] eqn:E3. inv H.
    apply IH in E3. rewrite E3. unfold add_block in E1, E2. inv E1. inv E2. reflexivity.
  - destruct (add_levels st r) as [st1 l1] eqn:E. inv H. eauto.
Qed.

Lemma add_tensor_other st id t k : k <> id ->
  PM.find k (tensors (add_tensor st id t)) = PM.find k (tensors st).
Proof.
  intros N. unfold add_tensor. destruct (ti_output t).
  - unfold with_tensors. cbn [tensors]. now rewrite PM.gso.
  - destruct (add_levels st (ti_levels t)) as [st1 idx] eqn:E1.
    match goal with |- context [add_block st1 ?a1 ?a2 ?a3 ?a4] =>
      destruct (add_block st1 a1 a2 a3 a4) as [st2 v] eqn:E2 end.
    unfold with_tensors. cbn [tensors]. rewrite PM.gso; [|exact N].
    unfold add_block in E2. inv E2. cbn [tensors]. apply add_levels_tensors in E1. now rewrite E1.
Qed.

Lemma init_tensors_other ts : forall st id st' args k,
  init_tensors st id ts = (st', args) -> (k < id)%positive ->
  PM.find k (tensors st') = PM.find k (tensors st).
Proof.
  induction ts as [|t r IH]; intros st id st' args k H L; cbn [init_tensors] in H.
  - now inv H.
  - destruct (init_tensors (add_tensor st id t) (Pos.succ id) r) as [st'' a] eqn:E. inv H.
    rewrite (IH _ _ _ _ k E) by lia. apply add_tensor_other. lia.
Qed.

Lemma init_state_out_clean t ts :
  ti_output t = true -> out_clean (fst (init_state (t :: ts))) (snd (init_state (t :: ts))).
Proof.
  intros O. unfold init_state. cbn [init_tensors].
  destruct (init_tensors (add_tensor empty_state 1 t) (Pos.succ 1) ts) as [st args] eqn:E.
  cbn [fst snd out_clean clean_val]. intros ts0 F.
  rewrite (init_tensors_other _ _ _ _ _ 1%positive E) in F by lia.
  unfold add_tensor in F. rewrite O in F. unfold with_tensors in F. cbn [tensors] in F.
  rewrite PM.gss in F. inv F. cbn [t_output t_vals t_idx clean_ptr].
  split; [reflexivity|split; [exact I|]].
  apply Forall_forall. intros pc IN. apply in_map_iff in IN. destruct IN as [? [<- _]]. simpl. auto.
Qed.
