(** Facts about spec/PyLib.v: [str(int)] is injective and agrees with the two decimal renderings
    used by the hand models (model/Names.v: [Nat.to_uint]; model/Parser.v: repeated division by
    ten); list indexing. *)

From Coq Require Import ZArith NArith List Bool String Ascii Lia DecimalString Decimal DecimalFacts
  DecimalPos DecimalN DecimalNat.
From TV Require Import spec.PyLib.
Import ListNotations.
Open Scope string_scope.

(* ------------------------------------------------------------------------------------------ *)
(** * [show_N], [show_Z] are injective *)

Lemma string_of_uint_inj : forall d d',
  NilEmpty.string_of_uint d = NilEmpty.string_of_uint d' -> d = d'.
Proof.
  intros d d' H. pose proof (NilEmpty.usu d) as A. pose proof (NilEmpty.usu d') as B.
  rewrite H in A. congruence.
Qed.

Lemma show_N_inj : forall n m, show_N n = show_N m -> n = m.
Proof. intros n m H. apply DecimalN.Unsigned.to_uint_inj, string_of_uint_inj, H. Qed.

Lemma string_of_uint_first_not_minus : forall d s,
  NilEmpty.string_of_uint d = String "-"%char s -> False.
Proof. intros d s H. destruct d; simpl in H; try discriminate; inversion H. Qed.

Lemma show_Z_inj : forall a b, show_Z a = show_Z b -> a = b.
Proof.
  intros a b H.
  destruct a as [|p|p], b as [|q|q]; unfold show_Z in H; simpl Z.to_N in H;
    try (apply show_N_inj in H; congruence);
    try (exfalso; simpl in H; eapply string_of_uint_first_not_minus; (exact H || (symmetry; exact H))).
  simpl in H. inversion H as [H1]. apply show_N_inj in H1. congruence.
Qed.

(* ------------------------------------------------------------------------------------------ *)
(** * [show_N (N.of_nat n)] is [Nat.to_uint] rendered (the [nat_str] of model/Names.v) *)

Lemma pos_of_lu_nat : forall d, DecimalPos.Unsigned.of_lu d = N.of_nat (DecimalNat.Unsigned.of_lu d).
Proof.
  induction d; cbn [DecimalPos.Unsigned.of_lu DecimalNat.Unsigned.of_lu]; try reflexivity;
    rewrite IHd; lia.
Qed.

Lemma N_to_uint_of_nat : forall n, N.to_uint (N.of_nat n) = Nat.to_uint n.
Proof.
  intros n.
  set (d := Nat.to_uint n).
  assert (Hn : Nat.of_uint d = n) by apply DecimalNat.Unsigned.of_to.
  assert (Hu : unorm d = d).
  { unfold d. rewrite <- DecimalNat.Unsigned.to_of, DecimalNat.Unsigned.of_to. reflexivity. }
  assert (Hp : Pos.of_uint d = N.of_nat n).
  { rewrite DecimalPos.Unsigned.of_uint_alt, pos_of_lu_nat, <- DecimalNat.Unsigned.of_uint_alt. congruence. }
  rewrite <- Hp, DecimalPos.Unsigned.to_of. exact Hu.
Qed.

Lemma show_N_of_nat : forall n, show_N (N.of_nat n) = NilEmpty.string_of_uint (Nat.to_uint n).
Proof. intros. unfold show_N. rewrite N_to_uint_of_nat. reflexivity. Qed.

Lemma show_Z_of_nat : forall n, show_Z (Z.of_nat n) = NilEmpty.string_of_uint (Nat.to_uint n).
Proof.
  intros n. rewrite <- show_N_of_nat. destruct n; [reflexivity|].
  unfold show_Z. simpl Z.of_nat. rewrite <- (Znat.positive_nat_Z (Pos.of_succ_nat n)), SuccNat2Pos.id_succ.
  simpl Z.of_nat. simpl Z.to_N. reflexivity.
Qed.

(* ------------------------------------------------------------------------------------------ *)
(** * [show_N] by repeated division by ten *)

Definition digit_char (d : N) : ascii := ascii_of_N (48 + d).

Lemma sapp_assoc : forall a b c : string, ((a ++ b) ++ c = a ++ (b ++ c))%string.
Proof. induction a; intros; simpl; [reflexivity | rewrite IHa; reflexivity]. Qed.

Lemma sapp_nil_r : forall a : string, (a ++ "" = a)%string.
Proof. induction a; simpl; [reflexivity | rewrite IHa; reflexivity]. Qed.

Lemma string_of_uint_revapp : forall d acc,
  NilEmpty.string_of_uint (revapp d acc) =
  (NilEmpty.string_of_uint (revapp d Nil) ++ NilEmpty.string_of_uint acc)%string.
Proof.
  induction d; intros acc; simpl revapp; [reflexivity | ..];
    match goal with
    | |- NilEmpty.string_of_uint (revapp _ (?D acc)) = _ =>
        rewrite (IHd (D acc)), (IHd (D Nil)), sapp_assoc; reflexivity
    end.
Qed.

Lemma to_lu_digit : forall q r, (0 < q)%N -> (r < 10)%N ->
  exists D, DecimalPos.Unsigned.to_lu (10 * q + r) = D (DecimalPos.Unsigned.to_lu q) /\
            forall x, NilEmpty.string_of_uint (revapp (D x) Nil)
                      = (NilEmpty.string_of_uint (revapp x Nil) ++ String (digit_char r) "")%string.
Proof.
  intros q r Hq Hr.
  destruct q as [|p]; [lia|].
  assert (T : DecimalPos.Unsigned.to_lu (10 * N.pos p) = D0 (DecimalPos.Unsigned.to_lu (N.pos p)))
    by apply DecimalPos.Unsigned.to_ldec_tenfold.
  assert (S1 : forall n, DecimalPos.Unsigned.to_lu (N.succ n) = Little.succ (DecimalPos.Unsigned.to_lu n))
    by apply DecimalPos.Unsigned.to_lu_succ.
  assert (R : (r = 0 \/ r = 1 \/ r = 2 \/ r = 3 \/ r = 4 \/ r = 5 \/ r = 6 \/ r = 7 \/ r = 8 \/ r = 9)%N) by lia.
  set (x0 := DecimalPos.Unsigned.to_lu (N.pos p)) in *.
  assert (E1 : DecimalPos.Unsigned.to_lu (10 * N.pos p + 1) = D1 x0).
  { replace (10 * N.pos p + 1)%N with (N.succ (10 * N.pos p)) by lia. rewrite S1, T. reflexivity. }
  assert (E2 : DecimalPos.Unsigned.to_lu (10 * N.pos p + 2) = D2 x0).
  { replace (10 * N.pos p + 2)%N with (N.succ (10 * N.pos p + 1)) by lia. rewrite S1, E1. reflexivity. }
  assert (E3 : DecimalPos.Unsigned.to_lu (10 * N.pos p + 3) = D3 x0).
  { replace (10 * N.pos p + 3)%N with (N.succ (10 * N.pos p + 2)) by lia. rewrite S1, E2. reflexivity. }
  assert (E4 : DecimalPos.Unsigned.to_lu (10 * N.pos p + 4) = D4 x0).
  { replace (10 * N.pos p + 4)%N with (N.succ (10 * N.pos p + 3)) by lia. rewrite S1, E3. reflexivity. }
  assert (E5 : DecimalPos.Unsigned.to_lu (10 * N.pos p + 5) = D5 x0).
  { replace (10 * N.pos p + 5)%N with (N.succ (10 * N.pos p + 4)) by lia. rewrite S1, E4. reflexivity. }
  assert (E6 : DecimalPos.Unsigned.to_lu (10 * N.pos p + 6) = D6 x0).
  { replace (10 * N.pos p + 6)%N with (N.succ (10 * N.pos p + 5)) by lia. rewrite S1, E5. reflexivity. }
  assert (E7 : DecimalPos.Unsigned.to_lu (10 * N.pos p + 7) = D7 x0).
  { replace (10 * N.pos p + 7)%N with (N.succ (10 * N.pos p + 6)) by lia. rewrite S1, E6. reflexivity. }
  assert (E8 : DecimalPos.Unsigned.to_lu (10 * N.pos p + 8) = D8 x0).
  { replace (10 * N.pos p + 8)%N with (N.succ (10 * N.pos p + 7)) by lia. rewrite S1, E7. reflexivity. }
  assert (E9 : DecimalPos.Unsigned.to_lu (10 * N.pos p + 9) = D9 x0).
  { replace (10 * N.pos p + 9)%N with (N.succ (10 * N.pos p + 8)) by lia. rewrite S1, E8. reflexivity. }
  destruct R as [->|[->|[->|[->|[->|[->|[->|[->|[->| ->]]]]]]]]].
  - exists D0. split; [rewrite N.add_0_r; exact T|]. intros x. simpl revapp. rewrite string_of_uint_revapp. reflexivity.
  - exists D1. split; [exact E1|]. intros x. simpl revapp. rewrite string_of_uint_revapp. reflexivity.
  - exists D2. split; [exact E2|]. intros x. simpl revapp. rewrite string_of_uint_revapp. reflexivity.
  - exists D3. split; [exact E3|]. intros x. simpl revapp. rewrite string_of_uint_revapp. reflexivity.
  - exists D4. split; [exact E4|]. intros x. simpl revapp. rewrite string_of_uint_revapp. reflexivity.
  - exists D5. split; [exact E5|]. intros x. simpl revapp. rewrite string_of_uint_revapp. reflexivity.
  - exists D6. split; [exact E6|]. intros x. simpl revapp. rewrite string_of_uint_revapp. reflexivity.
  - exists D7. split; [exact E7|]. intros x. simpl revapp. rewrite string_of_uint_revapp. reflexivity.
  - exists D8. split; [exact E8|]. intros x. simpl revapp. rewrite string_of_uint_revapp. reflexivity.
  - exists D9. split; [exact E9|]. intros x. simpl revapp. rewrite string_of_uint_revapp. reflexivity.
Qed.

Lemma N_to_uint_rev_to_lu : forall n, (0 < n)%N -> N.to_uint n = rev (DecimalPos.Unsigned.to_lu n).
Proof. intros [|p] H; [lia|]. reflexivity. Qed.

(** the recursive characterisation of the decimal rendering *)
Lemma show_N_small : forall n, (n < 10)%N -> show_N n = String (digit_char n) "".
Proof.
  intros n H.
  assert (R : (n = 0 \/ n = 1 \/ n = 2 \/ n = 3 \/ n = 4 \/ n = 5 \/ n = 6 \/ n = 7 \/ n = 8 \/ n = 9)%N) by lia.
  destruct R as [->|[->|[->|[->|[->|[->|[->|[->|[->| ->]]]]]]]]]; reflexivity.
Qed.

Lemma show_N_step : forall n, (10 <= n)%N ->
  show_N n = (show_N (n / 10) ++ String (digit_char (n mod 10)) "")%string.
Proof.
  intros n H.
  pose proof (N.div_mod n 10 ltac:(lia)) as E.
  pose proof (N.mod_lt n 10 ltac:(lia)) as L.
  set (q := (n / 10)%N) in *. set (r := (n mod 10)%N) in *.
  assert (Hq : (0 < q)%N) by lia.
  destruct (to_lu_digit q r Hq L) as [D [E1 E2]].
  unfold show_N. rewrite (N_to_uint_rev_to_lu n) by lia. rewrite (N_to_uint_rev_to_lu q) by lia.
  rewrite E, E1. unfold rev. apply E2.
Qed.

(* ------------------------------------------------------------------------------------------ *)
(** * indexing *)

Lemma py_getitem_of_nat : forall {A} (xs : list A) (n : nat), py_getitem xs (Z.of_nat n) = nth_error xs n.
Proof.
  intros A xs n. unfold py_getitem.
  destruct (0 <=? Z.of_nat n)%Z eqn:E; [rewrite Nat2Z.id; reflexivity|].
  apply Z.leb_gt in E. lia.
Qed.

Lemma py_index_from_shift : forall {A} (eqb : A -> A -> bool) xs x i,
  py_index_from eqb xs x i = option_map (fun z => (z + i)%Z) (py_index_from eqb xs x 0).
Proof.
  intros A eqb xs x. induction xs as [|y r IH]; intros i; simpl; [reflexivity|].
  destruct (eqb y x); [reflexivity|].
  rewrite (IH (i + 1)%Z), (IH 1%Z).
  destruct (py_index_from eqb r x 0); simpl; [f_equal; lia | reflexivity].
Qed.

Lemma py_index_nonneg : forall {A} (eqb : A -> A -> bool) xs x z,
  py_index eqb xs x = Some z -> (0 <= z < Z.of_nat (List.length xs))%Z.
Proof.
  intros A eqb xs x. unfold py_index. induction xs as [|y r IH]; intros z; simpl; [discriminate|].
  destruct (eqb y x); [intros H; inversion H; lia|].
  rewrite py_index_from_shift. destruct (py_index_from eqb r x 0) eqn:E; simpl; [|discriminate].
  intros H; inversion H. specialize (IH _ eq_refl). lia.
Qed.
