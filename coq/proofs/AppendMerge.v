(** Why the segments handed to the append protocol are strictly increasing (C02 mechanism "crd is
    appended in loop order, which is increasing because operands are co-iterated by min()"):

    a model of the sparse co-iteration loop of _generate_ir.py -- every sparse leaf is a cursor over
    a strictly increasing coordinate list; each iteration takes  i = min(heads of the leaves that
    are not exhausted)  and advances EVERY leaf whose head equals i
    ([p_leaf += (i_leaf == i)]) -- visits a strictly increasing sequence of coordinates, each of
    which is stored by some leaf, for any number of iterations (the real loops may stop early, e.g.
    for products, or skip coordinates whose flag stayed down: any sub-sequence of a strictly
    increasing sequence is strictly increasing).

    Model-level lemma (no correspondence of its own: the sortedness of every REAL segment is checked
    on each run through [trace_okb], tools/props/C02.py).  Closed under the global context. *)

From Coq Require Import ZArith List Bool Lia ZifyBool.
From TV Require Import spec.Storage proofs.StorageLemmas proofs.StorageWf.
Import ListNotations.
Open Scope Z_scope.

Definition heads (ls : list (list Z)) : list Z :=
  flat_map (fun l => match l with [] => [] | x :: _ => [x] end) ls.

Definition advance (m : Z) (l : list Z) : list Z :=
  match l with
  | x :: r => if x =? m then r else l
  | [] => []
  end.

(** one iteration: the visited coordinate and the leaves afterwards; [None] when every leaf is
    exhausted *)
Definition step (ls : list (list Z)) : option (Z * list (list Z)) :=
  match heads ls with
  | [] => None
  | h :: hs => let m := fold_left Z.min hs h in Some (m, map (advance m) ls)
  end.

Fixpoint visit (fuel : nat) (ls : list (list Z)) : list Z :=
  match fuel with
  | O => []
  | S f => match step ls with
           | None => []
           | Some (m, ls') => m :: visit f ls'
           end
  end.

Lemma fold_min_le hs : forall h, fold_left Z.min hs h <= h /\ forall x, In x hs -> fold_left Z.min hs h <= x.
Proof.
  induction hs as [|a hs IH]; intros h; cbn; [split; [lia|intros x []]|].
  destruct (IH (Z.min h a)) as [H1 H2]. split; [lia|].
  intros x [<-|Hx]; [lia|now apply H2].
Qed.

Lemma fold_min_in hs : forall h, fold_left Z.min hs h = h \/ In (fold_left Z.min hs h) hs.
Proof.
  induction hs as [|a hs IH]; intros h; cbn; [now left|].
  destruct (IH (Z.min h a)) as [H|H]; [|right; now right].
  destruct (Z.min_spec h a) as [[_ E]|[_ E]]; rewrite E in H; [left|right; left]; congruence.
Qed.

Lemma in_heads x ls : In x (heads ls) <-> exists r, In (x :: r) ls.
Proof.
  unfold heads. rewrite in_flat_map. split.
  - intros ([|y r] & Hl & H); [destruct H|]. destruct H as [<-|[]]. now exists r.
  - intros (r & H). exists (x :: r). split; [exact H|now left].
Qed.

(** all elements of a strictly increasing list exceed its head *)
Lemma strictly_increasing_tail x r :
  strictly_increasing (x :: r) = true -> strictly_increasing r = true /\ forall y, In y r -> x < y.
Proof.
  revert x. induction r as [|a r IH]; intros x H; [split; [reflexivity|intros y []]|].
  change (strictly_increasing (x :: a :: r)) with ((x <? a) && strictly_increasing (a :: r)) in H.
  apply andb_true_iff in H. destruct H as [H1 H2]. split; [exact H2|].
  destruct (IH a H2) as [_ H3]. intros y [<-|Hy]; [lia|]. specialize (H3 y Hy). lia.
Qed.

Definition leaves_ok (b : Z) (ls : list (list Z)) : Prop :=
  forall l, In l ls -> strictly_increasing l = true /\ forall x, In x l -> b < x.

Lemma step_spec b ls m ls' :
  leaves_ok b ls -> step ls = Some (m, ls') ->
  b < m /\ (exists l, In l ls /\ In m l) /\ leaves_ok m ls'.
Proof.
  unfold step. intros OK H. destruct (heads ls) as [|h hs] eqn:E; [discriminate|].
  inversion H; subst; clear H.
  set (m := fold_left Z.min hs h).
  assert (In m (heads ls)) as Hm.
  { rewrite E. unfold m. destruct (fold_min_in hs h) as [Hm|Hm]; [left; symmetry; exact Hm|right; exact Hm]. }
  assert (forall x, In x (heads ls) -> m <= x) as Hmin.
  { rewrite E. unfold m. destruct (fold_min_le hs h) as [H1 H2]. intros x [<-|Hx]; [exact H1|now apply H2]. }
  apply in_heads in Hm. destruct Hm as (r & Hr).
  split; [apply (OK _ Hr); now left|]. split; [exists (m :: r); split; [exact Hr|now left]|].
  intros l' Hl'. apply in_map_iff in Hl'. destruct Hl' as (l & <- & Hl).
  destruct (OK l Hl) as [S B]. destruct l as [|x t]; cbn [advance].
  - split; [reflexivity|intros y []].
  - destruct (strictly_increasing_tail x t S) as [St Bt].
    assert (m <= x) as Hx by (apply Hmin, in_heads; now exists t).
    destruct (x =? m) eqn:Ex.
    + split; [exact St|]. intros y Hy. specialize (Bt y Hy). lia.
    + split; [exact S|]. intros y [<-|Hy]; [lia|]. specialize (Bt y Hy). lia.
Qed.

Lemma visit_bounded fuel : forall b ls,
  leaves_ok b ls ->
  strictly_increasing (visit fuel ls) = true
  /\ (forall x, In x (visit fuel ls) -> b < x /\ exists l, In l ls /\ In x l).
Proof.
  induction fuel as [|f IH]; intros b ls OK; cbn [visit]; [split; [reflexivity|intros x []]|].
  destruct (step ls) as [[m ls']|] eqn:E; [|split; [reflexivity|intros x []]].
  destruct (step_spec b ls m ls' OK E) as (Hb & Hin & OK').
  destruct (IH m ls' OK') as [S B]. split.
  - destruct (visit f ls') as [|y t] eqn:V; [reflexivity|].
    change (strictly_increasing (m :: y :: t)) with ((m <? y) && strictly_increasing (y :: t)).
    rewrite S, andb_true_r. destruct (B y (or_introl eq_refl)) as [H _]. lia.
  - intros x [<-|Hx]; [split; [exact Hb|exact Hin]|].
    destruct (B x Hx) as [H1 (l' & Hl' & Hxl')]. split; [lia|].
    unfold step in E. destruct (heads ls) as [|h0 hs0]; [discriminate|]. inversion E; subst.
    apply in_map_iff in Hl'. destruct Hl' as (l0 & <- & Hl0). exists l0. split; [exact Hl0|].
    destruct l0 as [|a t]; cbn [advance] in Hxl'; [destruct Hxl'|].
    destruct (a =? _); [now right|exact Hxl'].
Qed.

(** The coordinates visited by co-iterating strictly increasing, in-range leaves form a strictly
    increasing in-range sequence: exactly what [Append.seg_okb] asks of a segment. *)
Theorem visit_strictly_increasing fuel d ls :
  (forall l, In l ls -> strictly_increasing l = true /\ forall x, In x l -> 0 <= x < d) ->
  strictly_increasing (visit fuel ls) = true
  /\ (forall x, In x (visit fuel ls) -> 0 <= x < d).
Proof.
  intros H. destruct (visit_bounded fuel (-1) ls) as [S B].
  - intros l Hl. destruct (H l Hl) as [S' B']. split; [exact S'|]. intros x Hx. specialize (B' x Hx). lia.
  - split; [exact S|]. intros x Hx. destruct (B x Hx) as [_ (l & Hl & Hxl)]. exact (proj2 (H l Hl) x Hxl).
Qed.

Example visit_example :
  visit 10 [[0; 2; 5]; [2; 3]; []; [5]] = [0; 2; 3; 5].
Proof. vm_compute. reflexivity. Qed.
