(** TIE "tensorbuild": the final statements -- the regenerated constructors (tensor.py) against
    [build] of model/TensorBuild.v, validation included, and the regenerated read-back. *)
From Coq Require Import ZArith List Bool Lia.
From TV Require Import spec.PyBase spec.PyLib spec.Storage model.TensorBuild model.TensorBuildPy
  proofs.StorageLemmas proofs.TensorBuildLemmas proofs.TensorBuildTop proofs.TensorBuildMain
  proofs.GenTensorBuild_lib proofs.GenTensorBuild_tree proofs.GenTensorBuild_emit
  proofs.GenTensorBuild_build proofs.GenTensorBuild_items proofs.GenTensorBuild_validate proofs.GenTensorBuild_state proofs.TensorBuildLol.
From TV Require gen.TensorBuildGen.
Module G := TensorBuildGen.
Import ListNotations.
Open Scope Z_scope.

Lemma emit_modes lv : forall nodes, map mode_of_level (fst (emit lv nodes)) = map fst lv.
Proof.
  induction lv as [|[m d] lv IH]; intros nodes; [reflexivity|].
  cbn [emit]. destruct m.
  - specialize (IH (flat_map (fun nd => map (fun i => select i nd) (zrange d)) nodes)).
    destruct (emit lv _). cbn in *. now rewrite IH.
  - specialize (IH (flat_map (fun nd => map (fun k => select k nd) (keys nd)) nodes)).
    destruct (emit lv _). cbn in *. now rewrite IH.
Qed.

Lemma raw_build_fields fmt dims ldims les :
  length ldims = length (fmodes fmt) ->
  let t := raw_build fmt dims ldims les in
  Storage.dims t = dims /\ ordering t = fordering fmt
  /\ map cint (levels t) = map G.Mode_c_int (map gm (fmodes fmt)).
Proof.
  intros Hl. unfold raw_build.
  pose proof (emit_modes (combine (fmodes fmt) ldims) [les]) as Hm.
  destruct (emit (combine (fmodes fmt) ldims) [les]) as [ls vs]. cbn [fst] in Hm. cbn.
  repeat split. rewrite combine_map_fst in Hm by lia. rewrite <- Hm.
  unfold cint, gmode. now rewrite !map_map.
Qed.

(** Tensor.from_aos = [build], for every valid format and ALL dimensions / entries: the stored lists
    on success, an exception exactly when the model reports an error (IndexError of the reordering,
    ValueError of the validation). *)
Theorem gen_from_aos_equiv fmt dims (es : list entry) fuel :
  valid_formatb fmt = true -> (length (fmodes fmt) <= fuel)%nat ->
  G.from_aos Z 0 Z.add Z.eqb fuel (map fst es) (map snd es) dims (gfmt fmt)
  = match build fmt dims es with Ok t => Val (stored t) | Err _ => Exc end.
Proof.
  intros Hv Hf. rewrite (gen_from_aos_raw fmt dims es fuel Hv Hf). unfold build. rewrite Hv. cbn [negb].
  destruct (level_dims_of (fordering fmt) dims) as [ldims|] eqn:El; [|reflexivity].
  match goal with |- context [match ?x with Some _ => _ | None => Err EIndex end] =>
    change x with (map_opt (permute_entry (fordering fmt)) es) end.
  destruct (map_opt (permute_entry (fordering fmt)) es) as [les|]; [|reflexivity].
  cbv zeta.
  assert (Hl : length ldims = length (fmodes fmt)).
  { unfold valid_formatb in Hv. apply andb_true_iff in Hv. destruct Hv as [Hv _]. apply Nat.eqb_eq in Hv.
    unfold level_dims_of in El. apply map_opt_length in El. lia. }
  destruct (raw_build_fields fmt dims ldims les Hl) as (E1 & E2 & E3).
  set (t := raw_build fmt dims ldims les) in *.
  rewrite <- E3, <- E2. rewrite <- E1 at 1.
  rewrite gen_validate_ok. destruct (validate t); reflexivity.
Qed.

Theorem gen_from_dok_equiv fmt dims (d : list entry) fuel :
  valid_formatb fmt = true -> (length (fmodes fmt) <= fuel)%nat ->
  G.from_dok Z 0 Z.add Z.eqb fuel d dims (gfmt fmt)
  = match from_dok fmt dims d with Ok t => Val (stored t) | Err _ => Exc end.
Proof.
  intros Hv Hf. rewrite (proj1 (main_entry_points fmt dims) d).
  unfold G.from_dok. now apply gen_from_aos_equiv.
Qed.

(** C09_roundtrip end to end on the regenerated functions: build with the regenerated from_aos, read
    back with the regenerated items / to_dok: exactly the summed non-zero entries. *)
Theorem gen_roundtrip_full fmt dims es fuel :
  valid_formatb fmt = true -> dims_okb fmt dims = true -> all_in_rangeb dims es = true ->
  (length (fmodes fmt) < fuel)%nat ->
  exists t,
    G.from_aos Z 0 Z.add Z.eqb fuel (map fst es) (map snd es) dims (gfmt fmt) = Val (stored t)
    /\ G.items Z 0 Z.add Z.eqb fuel (Z.of_nat (length (ordering t))) (map gmode (levels t)) (Storage.dims t)
         (map Z.of_nat (ordering t)) (indices_of (levels t)) (vals t) = Val (items_spec t)
    /\ G.to_dok Z 0 Z.add Z.eqb (items_spec t) false = Val (to_dok_spec t)
    /\ (forall c v, In (c, v) (to_dok_spec t) <-> v = sum_at c es /\ v <> 0)
    /\ NoDup (map fst (to_dok_spec t))
    /\ format_of t = fmt /\ Storage.dims t = dims /\ wf_tensorb true t = true.
Proof.
  intros Hv Hd Hr Hf.
  destruct (main_roundtrip fmt dims es Hv Hd Hr) as (t & Hb & H1 & H2 & H3 & H4).
  destruct (main_build_wf fmt dims es Hv Hd Hr) as (t' & Hb' & Hwf & Hval).
  rewrite Hb in Hb'. inversion Hb'; subst t'.
  exists t. split.
  { rewrite (gen_from_aos_equiv fmt dims es fuel Hv ltac:(lia)), Hb. reflexivity. }
  split.
  { apply (gen_items_ok true t fuel Hwf).
    assert (E : length (levels t) = length (fmodes fmt)) by (rewrite <- H3; cbn; now rewrite map_length).
    lia. }
  split; [apply gen_to_dok_ok|]. split; [exact H1|]. split; [exact H2|]. split; [exact H3|]. split; assumption.
Qed.

(** the statements of the other files under the names listed in tools/props/_tie_tensorbuild.py *)
Lemma gen_coordinates_to_tree_ok : forall n fuel (les : list entry),
  (n <= fuel)%nat -> Forall (fun e : entry => length (fst e) = n) les ->
  exists ot, G.coordinates_to_tree Z 0 Z.add Z.eqb fuel (map fst les) (map snd les) = Val ot
             /\ treeinv n ot les.
Proof. exact ctt_ok. Qed.

Lemma gen_arrays_ok : forall ms ds les ot fuel,
  length ds = length ms -> (length ms <= fuel)%nat -> treeinv (length ms) ot les ->
  G.tree_to_indices_and_values Z 0 Z.add Z.eqb fuel ot (map gm ms) ds
  = Val (indices_of (fst (emit (combine ms ds) [les])), snd (emit (combine ms ds) [les])).
Proof. exact arrays_ok. Qed.

Lemma gen_validate_equiv : forall t : tensor Z,
  G.taco_structure_to_cffi Z 0 Z.add Z.eqb (indices_of (levels t)) (vals t) (map cint (levels t)) (Storage.dims t)
    (map Z.of_nat (ordering t))
  = if validate t then Val (stored t) else Exc.
Proof. exact gen_validate_ok. Qed.

Lemma gen_items_equiv : forall strict (t : tensor Z) fuel,
  wf_tensorb strict t = true -> (length (levels t) < fuel)%nat ->
  G.items Z 0 Z.add Z.eqb fuel (Z.of_nat (length (ordering t))) (map gmode (levels t)) (Storage.dims t)
    (map Z.of_nat (ordering t)) (indices_of (levels t)) (vals t)
  = Val (entries 0 t).
Proof. exact gen_items_ok. Qed.

Lemma gen_to_dok_equiv : forall (its : list entry) ez,
  G.to_dok Z 0 Z.add Z.eqb its ez = Val (to_dok ez its).
Proof. exact gen_to_dok_ok. Qed.

(** ** from_aos on arbitrary coordinate / value lists (zip strict), from_soa *)
Lemma zip_strict_combine {A B} (a : list A) (b : list B) :
  length a = length b -> zip_strict a b = Some (combine a b).
Proof.
  revert b. induction a as [|x a IH]; intros [|y b] H; try discriminate; [reflexivity|].
  cbn. rewrite IH by (cbn in H; lia). reflexivity.
Qed.

Lemma zip_strict_mismatch {A B} (a : list A) (b : list B) :
  length a <> length b -> zip_strict a b = None.
Proof.
  revert b. induction a as [|x a IH]; intros [|y b] H; try reflexivity; [cbn in H; congruence|].
  cbn. rewrite IH by (cbn in H; lia). reflexivity.
Qed.

Lemma rfold_zip_strict_mismatch {S A B} (f : S -> A * B -> R S) xs : forall ys s,
  length xs <> length ys ->
  rfold_zip_strict f xs ys s = rbind (rfold f (combine xs ys) s) (fun _ => Exc).
Proof.
  induction xs as [|x xs IH]; intros [|y ys] s H; cbn in *; try congruence; try reflexivity.
  destruct (f s (x, y)); cbn; try reflexivity. apply IH. lia.
Qed.

Lemma ctt_mismatch n fuel (lcs : list (list Z)) (vs : list Z) :
  (n <= fuel)%nat -> Forall (fun c => length c = n) lcs -> length lcs <> length vs ->
  G.coordinates_to_tree Z 0 Z.add Z.eqb fuel lcs vs = Exc.
Proof.
  intros Hf Hall Hne.
  assert (Hd : Forall (fun e : entry => length (fst e) = n) (combine lcs vs)).
  { apply Forall_forall. intros [c v] Hin. apply in_combine_l in Hin. rewrite Forall_forall in Hall. now apply Hall. }
  destruct (ctt_ok n fuel (combine lcs vs) Hf Hd) as (ot & E & _).
  unfold G.coordinates_to_tree in *. cbv zeta in *.
  rewrite rfold_zip_strict_combine in E.
  rewrite rfold_zip_strict_mismatch by assumption. unfold entry in *. rewrite E. reflexivity.
Qed.

Theorem gen_from_aos_general fmt dims cs vs fuel :
  valid_formatb fmt = true -> (length (fmodes fmt) <= fuel)%nat ->
  G.from_aos Z 0 Z.add Z.eqb fuel cs vs dims (gfmt fmt)
  = match from_aos fmt dims cs vs with Ok t => Val (stored t) | Err _ => Exc end.
Proof.
  intros Hv Hf. destruct (Nat.eq_dec (length cs) (length vs)) as [He|Hne].
  - unfold from_aos. rewrite zip_strict_combine by assumption.
    rewrite <- (gen_from_aos_equiv fmt dims (combine cs vs) fuel Hv Hf).
    now rewrite map_fst_combine, map_snd_combine.
  - unfold from_aos. rewrite zip_strict_mismatch by assumption. rewrite Hv. cbn [negb].
    transitivity (@Exc (list (list (list Z)) * list Z * list Z * list Z * list Z)).
    2:{ destruct (level_dims_of _ _); [|reflexivity]. destruct (map_opt _ cs); reflexivity. }
    unfold G.from_aos, gfmt. cbn [G.Format_modes G.Format_ordering]. cbv zeta.
    rewrite rmap_getitem.
    destruct (map_opt (fun i => nth_error dims i) (fordering fmt)); cbn [of_opt rbind]; [|reflexivity].
    rewrite (rmap_of_opt _ (permute_coord (fordering fmt))) by (intros c; apply rmap_getitem).
    destruct (map_opt (permute_coord (fordering fmt)) cs) as [lcs|] eqn:Ec; cbn [of_opt rbind]; [|reflexivity].
    rewrite (ctt_mismatch (length (fordering fmt)) fuel lcs vs); [reflexivity| | |].
    + unfold valid_formatb in Hv. apply andb_true_iff in Hv. destruct Hv as [Hv _]. apply Nat.eqb_eq in Hv. lia.
    + eapply map_opt_Forall; [|exact Ec]. intros a b Hab. unfold permute_coord in Hab. now apply map_opt_length in Hab.
    + apply map_opt_length in Ec. lia.
Qed.

Lemma py_transpose_strict_ok (cols : list (list Z)) :
  py_transpose_strict cols = match transpose_strict cols with Some r => Val r | None => Exc end.
Proof.
  induction cols as [|c cols IH]; [reflexivity|].
  destruct cols as [|c2 cols]; [reflexivity|].
  change (py_transpose_strict (c :: c2 :: cols)) with
    (rbind (py_transpose_strict (c2 :: cols)) (fun rows =>
      (fix zip (a : list Z) (b : list (list Z)) : R (list (list Z)) :=
         match a, b with
         | [], [] => Val []
         | x :: a', y :: b' => rbind (zip a' b') (fun t => Val ((x :: y) :: t))
         | _, _ => Exc
         end) c rows)).
  change (transpose_strict (c :: c2 :: cols)) with
    (match transpose_strict (c2 :: cols) with
     | None => None
     | Some rows => match zip_strict c rows with
                    | Some z => Some (map (fun p : Z * list Z => fst p :: snd p) z)
                    | None => None end
     end).
  rewrite IH. destruct (transpose_strict (c2 :: cols)) as [rows|]; cbn [rbind]; [|reflexivity].
  clear IH. revert rows. induction c as [|x c IHc]; intros [|y rows]; cbn; try reflexivity.
  rewrite IHc. destruct (zip_strict c rows); reflexivity.
Qed.

Theorem gen_from_soa_equiv fmt dims cols vs fuel :
  valid_formatb fmt = true -> (length (fmodes fmt) <= fuel)%nat ->
  G.from_soa Z 0 Z.add Z.eqb fuel cols vs dims (gfmt fmt)
  = match from_soa fmt dims cols vs with Ok t => Val (stored t) | Err _ => Exc end.
Proof.
  intros Hv Hf. unfold G.from_soa, from_soa. cbv zeta. rewrite py_transpose_strict_ok.
  destruct (transpose_strict cols) as [rows|]; cbn [rbind]; [|reflexivity].
  now apply gen_from_aos_general.
Qed.

(** ** from_lol *)
Fixpoint glol (x : lol) : pylol Z :=
  match x with LNum v => LolNum v | LList l => LolList (map glol l) end.

Fixpoint lol_depth (x : lol) : nat :=
  match x with
  | LNum _ => O
  | LList l => S (fold_right (fun y m => Nat.max (lol_depth y) m) O l)
  end.

Fixpoint lol_ind' (P : lol -> Prop) (HN : forall v, P (LNum v))
    (HL : forall l, Forall P l -> P (LList l)) (x : lol) : P x :=
  match x with
  | LNum v => HN v
  | LList l => HL l ((fix go (l : list lol) : Forall P l :=
                        match l with
                        | [] => Forall_nil P
                        | y :: r => Forall_cons y (lol_ind' P HN HL y) (go r)
                        end) l)
  end.

Notation lolrec := (G.lol_to_coordinates_and_values__recurse Z 0 Z.add Z.eqb).

Lemma lolrec_ok : forall x fuel cs vs idx, (lol_depth x < fuel)%nat ->
  lolrec fuel false cs vs (glol x) idx
  = Val (cs ++ map fst (lol_entries x (rev idx)), vs ++ map snd (lol_entries x (rev idx))).
Proof.
  induction x as [v|l IH] using lol_ind'; intros fuel cs vs idx Hf; (destruct fuel; [lia|]);
    cbn [G.lol_to_coordinates_and_values__recurse glol].
  - cbn [lol_entries orb]. destruct (v =? 0); cbn; rewrite ?app_nil_r, ?rev_involutive; reflexivity.
  - rewrite TensorBuildLol.lol_entries_list. unfold py_enumerate.
    cbn [lol_depth] in Hf. apply Nat.succ_lt_mono in Hf.
    match goal with |- context [rfold ?f _ _] => set (F := f) end.
    generalize 0 as i. revert cs vs.
    induction l as [|y l IHl]; intros cs vs i; cbn [map py_enumerate_from rfold TensorBuildLol.lol_list_entries].
    + now rewrite !app_nil_r.
    + inversion IH as [|? ? Hy Hl]; subst. cbn [fold_right] in Hf.
      unfold F at 1. rewrite (Hy fuel cs vs (idx ++ [i])) by lia. cbn [rbind]. rewrite rev_unit.
      rewrite IHl by (assumption || lia). rewrite !map_app, !app_assoc. reflexivity.
Qed.

Theorem gen_from_lol_equiv fmt dims x fuel :
  valid_formatb fmt = true -> (length (fmodes fmt) <= fuel)%nat -> (lol_depth x < fuel)%nat ->
  G.from_lol Z 0 Z.add Z.eqb fuel (glol x) dims (gfmt fmt)
  = match from_lol fmt dims x with Ok t => Val (stored t) | Err _ => Exc end.
Proof.
  intros Hv Hf Hx. unfold G.from_lol, G.lol_to_coordinates_and_values, from_lol. cbv zeta.
  rewrite (lolrec_ok x fuel [] [] [] Hx). cbn [rbind app rev].
  now apply gen_from_aos_general.
Qed.
(** ** to_format *)
Theorem gen_to_format_equiv strict (t : tensor Z) fmt' fuel :
  wf_tensorb strict t = true -> valid_formatb fmt' = true ->
  (length (levels t) < fuel)%nat -> (length (fmodes fmt') <= fuel)%nat ->
  G.to_format Z 0 Z.add Z.eqb fuel (Z.of_nat (length (ordering t))) (map gmode (levels t)) (Storage.dims t)
    (map Z.of_nat (ordering t)) (indices_of (levels t)) (vals t) (gfmt fmt')
  = match to_format_spec fmt' t with Ok t' => Val (stored t') | Err _ => Exc end.
Proof.
  intros Hwf Hv Hf1 Hf2. unfold G.to_format.
  rewrite (gen_items_ok strict t fuel Hwf Hf1). cbn [rbind].
  rewrite gen_to_dok_ok. cbn [rbind]. unfold to_format_spec.
  exact (gen_from_dok_equiv fmt' (Storage.dims t) (to_dok_spec t) fuel Hv Hf2).
Qed.

(** C09_to_format_preserves_any_wf on the regenerated functions *)
Theorem gen_to_format_preserves strict (t : tensor Z) fmt' fuel :
  wf_tensorb strict t = true -> valid_formatb fmt' = true ->
  length (fordering fmt') = length (Storage.dims t) ->
  (length (levels t) < fuel)%nat -> (length (fmodes fmt') <= fuel)%nat ->
  exists t',
    G.to_format Z 0 Z.add Z.eqb fuel (Z.of_nat (length (ordering t))) (map gmode (levels t)) (Storage.dims t)
      (map Z.of_nat (ordering t)) (indices_of (levels t)) (vals t) (gfmt fmt') = Val (stored t')
    /\ (forall c v, In (c, v) (to_dok_spec t') <-> In (c, v) (to_dok_spec t))
    /\ NoDup (map fst (to_dok_spec t'))
    /\ format_of t' = fmt' /\ Storage.dims t' = Storage.dims t /\ wf_tensorb true t' = true.
Proof.
  intros Hwf Hv Hl Hf1 Hf2.
  destruct (main_to_format_general strict t fmt' Hwf Hv Hl) as (t' & E & H).
  exists t'. split; [|exact H].
  rewrite (gen_to_format_equiv strict t fmt' fuel Hwf Hv Hf1 Hf2), E. reflexivity.
Qed.

(** the accessors and pickling (proofs/GenTensorBuild_state.v) under the names of the TIE entry *)
Lemma gen_taco_indices_equiv : forall strict (t : tensor Z), wf_tensorb strict t = true ->
  G.taco_indices Z 0 Z.add Z.eqb (Z.of_nat (length (ordering t))) (Storage.dims t) (map gmode (levels t))
    (map Z.of_nat (ordering t)) (indices_of (levels t))
  = Val (indices_of (levels t)).
Proof. exact gen_taco_indices_ok. Qed.

Lemma gen_taco_vals_equiv : forall t : tensor Z, wf_tensorb true t = true ->
  G.taco_vals Z 0 Z.add Z.eqb (Z.of_nat (length (ordering t))) (Storage.dims t) (map gmode (levels t))
    (map Z.of_nat (ordering t)) (indices_of (levels t)) (vals t)
  = Val (vals t).
Proof. intros t H. exact (gen_taco_vals_ok true t H). Qed.

Lemma gen_getstate_equiv : forall t : tensor Z, wf_tensorb true t = true ->
  G.__getstate__ Z 0 Z.add Z.eqb (Z.of_nat (length (ordering t))) (map gmode (levels t)) (Storage.dims t)
    (map Z.of_nat (ordering t)) (indices_of (levels t)) (vals t)
  = Val (state_of t).
Proof. exact gen_getstate_ok. Qed.

Lemma gen_setstate_equiv : forall t : tensor Z,
  G.__setstate__ Z 0 Z.add Z.eqb (state_of t) = if validate t then Val (stored t) else Exc.
Proof. exact gen_setstate_ok. Qed.

Lemma gen_pickle_roundtrip_equiv : forall t : tensor Z, wf_tensorb true t = true ->
  rbind (G.__getstate__ Z 0 Z.add Z.eqb (Z.of_nat (length (ordering t))) (map gmode (levels t)) (Storage.dims t)
           (map Z.of_nat (ordering t)) (indices_of (levels t)) (vals t))
        (G.__setstate__ Z 0 Z.add Z.eqb)
  = Val (stored t).
Proof. exact gen_pickle_roundtrip. Qed.
