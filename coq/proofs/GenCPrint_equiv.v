(** TIE, target "cprint": the C printer REGENERATED from /repo/src/tensora/codegen/_ir_to_c.py and
    _type_to_c.py (gen/IrToC.v, strings) against the hand model model/CPrint.v (tokens):

      clex (ir_to_c_expression e) = Some (cprint e)          for every IR tree e

    where [clex] is the C lexer of model/CLexer.v -- under [names_ok e] (the names of the tree are C
    identifiers, float literals are finite) and the oracle assumptions on the spelling of floats.
    The induction proves the stronger continuation form: whatever text [rest] follows that does not
    continue the last token, [lex None (text e ++ rest) = cprint e ++ lex None rest].

    Then the one-line statements, and the C06 printer theorems re-stated on the regenerated
    printer. *)

From Coq Require Import ZArith NArith Bool List String Ascii DecimalString Decimal DecimalN DecimalPos Lia.
From Flocq Require Import Core BinarySingleNaN.
From TV Require Import spec.Num spec.PyLib proofs.PyLibFacts gen.IRAst spec.CGrammar model.CPrint
  model.CLexer gen.IrToC proofs.CPrintDerives proofs.CPrintFacts proofs.CPrintParse.
Import ListNotations.
Local Open Scope nat_scope.
Local Open Scope list_scope.

Arguments show_Z : simpl never.
Arguments show_N : simpl never.

(** * [prep] *)

Lemma prep_prep : forall a b k, prep a (prep b k) = prep (a ++ b) k.
Proof. intros a b [r|]; simpl; [rewrite app_assoc|]; reflexivity. Qed.

Lemma prep_nil : forall k, prep [] k = k.
Proof. intros [r|]; reflexivity. Qed.

(** * Character facts *)

Lemma word_split : forall c, is_word c = false -> is_digit c = false /\ is_alpha_ c = false.
Proof. intros c H. apply orb_false_elim in H. exact H. Qed.

Lemma alpha_not_digit : forall c, is_alpha_ c = true -> is_digit c = false.
Proof.
  intros c. unfold is_alpha_, is_digit. generalize (nat_of_ascii c). intros n H.
  destruct (48 <=? n) eqn:A, (n <=? 57) eqn:B; try reflexivity. exfalso.
  apply Nat.leb_le in A. apply Nat.leb_le in B.
  apply orb_true_iff in H. destruct H as [H|H].
  - apply orb_true_iff in H. destruct H as [H|H]; apply andb_true_iff in H; destruct H as [H1 H2];
      apply Nat.leb_le in H1; apply Nat.leb_le in H2; lia.
  - apply Nat.eqb_eq in H. lia.
Qed.

Lemma alpha_word : forall c, is_alpha_ c = true -> is_word c = true.
Proof. intros c H. unfold is_word. rewrite H. apply orb_true_r. Qed.

Lemma digit_word : forall c, is_digit c = true -> is_word c = true.
Proof. intros c H. unfold is_word. rewrite H. reflexivity. Qed.

Lemma punct2_word : forall c d, is_word d = true -> punct2 c d = None.
Proof.
  intros c d H. unfold punct2.
  destruct d as [[] [] [] [] [] [] [] []]; try (cbv in H; discriminate H);
    cbn; destruct (negb (starts2 c)); reflexivity.
Qed.

Section Lex.

Variable fdec : string -> option F.
Notation lex := (lex fdec).

(** * The pending chunk is finished by anything that does not continue it *)

Definition closed (ch : chunk) : bool :=
  match ch with CId _ => true | CNum _ le => negb le | CCmt => false end.

Lemma lex_flush : forall ch rest, closed ch = true -> bnd rest = true ->
  lex (Some ch) rest = flush fdec (Some ch) (lex None rest).
Proof.
  intros ch [|c r] Hc Hb; [reflexivity|].
  simpl in Hb. apply andb_true_iff in Hb. destruct Hb as [Hw Hd].
  apply negb_true_iff in Hw. apply negb_true_iff in Hd.
  destruct (word_split c Hw) as [Hdg Hal].
  assert (E : extend (Some ch) c = None).
  { destruct ch as [s|s le|]; [| |discriminate Hc]; simpl; rewrite Hw; [reflexivity|].
    rewrite Hd. simpl in Hc. apply negb_true_iff in Hc. subst le. rewrite andb_false_r. reflexivity. }
  assert (E0 : extend None c = None) by (simpl; rewrite Hdg, Hal; reflexivity).
  cbn [CLexer.lex]. rewrite E, E0. destruct ch; [reflexivity|reflexivity|discriminate Hc].
Qed.

(** * Character-level steps (the lexer run on the concrete pieces of the printed text) *)

Lemma lexc_space : forall X, lex None (String " " X) = lex None X.
Proof. reflexivity. Qed.

Lemma lexc_2 : forall c d t X,
  extend None c = None -> is_space c = false -> is_slash c = false -> punct2 c d = Some t ->
  lex None (String c (String d X)) = prep [t] (lex None X).
Proof. intros c d t X E S L P. cbn [CLexer.lex]. rewrite E, S, L, P. reflexivity. Qed.

Lemma lexc_1' : forall c d t X,
  extend None c = None -> is_space c = false -> is_slash c = false -> punct2 c d = None -> punct1 c = Some t ->
  lex None (String c (String d X)) = prep [t] (lex None (String d X)).
Proof. intros c d t X E S L P Q. cbn [CLexer.lex]. rewrite E, S, L, P, Q. reflexivity. Qed.

Lemma lexc_1 : forall c t X,
  extend None c = None -> is_space c = false -> is_slash c = false -> starts2 c = false -> punct1 c = Some t ->
  lex None (String c X) = prep [t] (lex None X).
Proof.
  intros c t X E S L P Q. destruct X as [|d X]; cbn [CLexer.lex]; rewrite E, S.
  - rewrite Q. reflexivity.
  - rewrite L. unfold punct2. rewrite P. cbn [negb andb]. rewrite Q. reflexivity.
Qed.

Lemma lexc_id_start : forall c Y, is_alpha_ c = true ->
  lex None (String c Y) = lex (Some (CId (String c ""))) Y.
Proof.
  intros c Y H. cbn [CLexer.lex extend]. rewrite (alpha_not_digit c H), H. reflexivity.
Qed.

Lemma lexc_id_step : forall s c Y, is_word c = true ->
  lex (Some (CId s)) (String c Y) = lex (Some (CId (s ++ String c "")%string)) Y.
Proof. intros s c Y H. cbn [CLexer.lex extend]. rewrite H. reflexivity. Qed.

Lemma lexc_id_end : forall s Y, bnd Y = true ->
  lex (Some (CId s)) Y = prep [word_token s] (lex None Y).
Proof. intros s Y H. rewrite lex_flush by (auto; reflexivity). reflexivity. Qed.

(** * Words *)

Lemma lex_word_run : forall x s rest, all_word x = true ->
  lex (Some (CId s)) (x ++ rest)%string = lex (Some (CId (s ++ x)%string)) rest.
Proof.
  induction x as [|c x IH]; intros s rest H.
  - rewrite sapp_nil_r. reflexivity.
  - simpl in H. apply andb_true_iff in H. destruct H as [Hc Hx].
    cbn [append]. rewrite lexc_id_step by exact Hc. rewrite IH by exact Hx.
    rewrite sapp_assoc. reflexivity.
Qed.

Lemma lex_word : forall c x rest, is_alpha_ c = true -> all_word x = true -> bnd rest = true ->
  lex None (String c x ++ rest)%string = prep [word_token (String c x)] (lex None rest).
Proof.
  intros c x rest Hc Hx Hb. cbn [append]. rewrite lexc_id_start by exact Hc.
  rewrite lex_word_run by exact Hx. cbn [append]. apply lexc_id_end. exact Hb.
Qed.

Lemma lex_ident : forall x rest, ident_ok x = true -> bnd rest = true ->
  lex None (x ++ rest)%string = prep [TId x] (lex None rest).
Proof.
  intros x rest H Hb. unfold ident_ok in H. apply andb_true_iff in H. destruct H as [Hs Hk].
  destruct x as [|c x]; [discriminate|]. apply andb_true_iff in Hs. destruct Hs as [Hc Hx].
  rewrite lex_word by assumption. unfold word_token.
  destruct (keyword_token (String c x)); [discriminate|reflexivity].
Qed.

(** * Numbers *)

Lemma lex_num_run : forall x s le rest, num_tail le x = true ->
  lex (Some (CNum s le)) (x ++ rest)%string = lex (Some (CNum (s ++ x)%string false)) rest.
Proof.
  induction x as [|c x IH]; intros s le rest H.
  - simpl in H. apply negb_true_iff in H. subst le. rewrite sapp_nil_r. reflexivity.
  - cbn [append]. cbn [num_tail] in H. cbn [CLexer.lex extend].
    destruct (is_word c || is_dot c).
    + rewrite IH by exact H. unfold snoc. rewrite sapp_assoc. reflexivity.
    + destruct (is_sign c && le); [|discriminate].
      rewrite IH by exact H. unfold snoc. rewrite sapp_assoc. reflexivity.
Qed.

Lemma lex_number : forall c r rest, is_digit c = true -> num_tail false r = true -> bnd rest = true ->
  lex None (String c r ++ rest)%string =
  flush fdec (Some (CNum (String c r) false)) (lex None rest).
Proof.
  intros c r rest Hc Hr Hb. cbn [append]. cbn [CLexer.lex extend]. rewrite Hc.
  rewrite lex_num_run by exact Hr. cbn [append]. apply lex_flush; [reflexivity|exact Hb].
Qed.

Lemma uint_digits : forall d, num_tail false (NilEmpty.string_of_uint d) = true.
Proof. induction d; cbn; auto. Qed.

Lemma uint_shape : forall d, d <> Nil ->
  exists c r, NilEmpty.string_of_uint d = String c r /\ is_digit c = true /\ num_tail false r = true.
Proof.
  intros d H. destruct d; [congruence| ..]; cbn [NilEmpty.string_of_uint];
    (eexists; eexists; split; [reflexivity|split; [reflexivity|apply uint_digits]]).
Qed.

Lemma N_to_uint_nonnil : forall n, N.to_uint n <> Nil.
Proof. intros [|p]; [discriminate|apply Unsigned.to_uint_nonnil]. Qed.

Lemma show_N_shape : forall n,
  exists c r, show_N n = String c r /\ is_digit c = true /\ num_tail false r = true.
Proof. intros n. apply uint_shape. apply N_to_uint_nonnil. Qed.

Lemma lex_nat : forall n rest, bnd rest = true ->
  lex None (show_N n ++ rest)%string = prep [TInt (Z.of_N n)] (lex None rest).
Proof.
  intros n rest Hb. destruct (show_N_shape n) as [c [r [E [Hc Hr]]]].
  rewrite E. rewrite lex_number by assumption. rewrite <- E.
  unfold flush, chunk_token, dec_value, show_N. rewrite NilEmpty.usu.
  rewrite DecimalN.Unsigned.of_to. reflexivity.
Qed.

Lemma lex_minus_digit : forall c r, is_digit c = true ->
  lex None (String "-" (String c r)) = prep [TMinus] (lex None (String c r)).
Proof.
  intros c r H. apply lexc_1'; try reflexivity. apply punct2_word. apply digit_word. exact H.
Qed.

Lemma lex_int : forall z rest, bnd rest = true ->
  lex None (show_Z z ++ rest)%string = prep (int_tokens z) (lex None rest).
Proof.
  intros z rest Hb. unfold int_tokens. destruct z as [|p|p].
  - change (show_Z 0) with (show_N 0). rewrite lex_nat by exact Hb. reflexivity.
  - change (show_Z (Z.pos p)) with (show_N (N.pos p)). rewrite lex_nat by exact Hb. reflexivity.
  - change (show_Z (Z.neg p)) with ("-" ++ show_N (N.pos p))%string.
    destruct (show_N_shape (N.pos p)) as [c [r [E [Hc Hr]]]].
    cbn [append]. rewrite E. cbn [append]. rewrite lex_minus_digit by exact Hc.
    change (String c (r ++ rest)%string) with (String c r ++ rest)%string. rewrite <- E.
    rewrite lex_nat by exact Hb. rewrite prep_prep. reflexivity.
Qed.

(** * Floats: the spelling is an oracle, as in the hand model *)

Variable str_float : F -> string.

(** [str(x)] of a negative finite float is "-" followed by the spelling of its absolute value; the
    spelling of a non-negative finite float is a pp-number that is not a decimal integer (it has a
    '.', an exponent, or both) and that the decoder of floating constants reads back. *)
Hypothesis str_float_neg : forall f, is_finite f = true -> Bsign f = true ->
  str_float f = ("-" ++ str_float (Babs f))%string.
Hypothesis str_float_pos : forall f, is_finite f = true -> Bsign f = false ->
  float_shape (str_float f) = true /\ fdec (str_float f) = Some f.

Lemma lex_float_pos : forall f rest, is_finite f = true -> Bsign f = false -> bnd rest = true ->
  lex None (str_float f ++ rest)%string = prep [TFlt f] (lex None rest).
Proof.
  intros f rest Hf Hs Hb. destruct (str_float_pos f Hf Hs) as [Hsh Hd].
  unfold float_shape in Hsh. apply andb_true_iff in Hsh. destruct Hsh as [H1 H2].
  destruct (str_float f) as [|c r] eqn:E; [discriminate|].
  apply andb_true_iff in H1. destruct H1 as [Hc Hr].
  rewrite lex_number by assumption. unfold flush, chunk_token, dec_value.
  destruct (NilEmpty.uint_of_string (String c r)); [discriminate|]. rewrite Hd. reflexivity.
Qed.

Lemma lex_float : forall f rest, is_finite f = true -> bnd rest = true ->
  lex None (str_float f ++ rest)%string = prep (float_tokens f) (lex None rest).
Proof.
  intros f rest Hf Hb. unfold float_tokens. destruct (Bsign f) eqn:Hs.
  - rewrite (str_float_neg f Hf Hs).
    assert (Hf' : is_finite (Babs f) = true) by (rewrite is_finite_Babs; exact Hf).
    assert (Hs' : Bsign (Babs f) = false) by apply Bsign_Babs.
    destruct (str_float_pos _ Hf' Hs') as [Hsh _].
    unfold float_shape in Hsh. apply andb_true_iff in Hsh. destruct Hsh as [H1 _].
    destruct (str_float (Babs f)) as [|c r] eqn:E; [discriminate|].
    apply andb_true_iff in H1. destruct H1 as [Hc _].
    cbn [append]. rewrite lex_minus_digit by exact Hc.
    change (String c (r ++ rest)%string) with (String c r ++ rest)%string. rewrite <- E.
    rewrite lex_float_pos by assumption. rewrite prep_prep. reflexivity.
  - apply lex_float_pos; assumption.
Qed.

End Lex.

(** * Running the lexer over the concrete pieces of a printed text *)

Ltac bnd_side := first [reflexivity | assumption].

Ltac lexstep fd :=
  first
    [ rewrite (lexc_space fd)
    | erewrite (lexc_2 fd) by reflexivity
    | erewrite (lexc_1' fd) by reflexivity
    | erewrite (lexc_1 fd) by reflexivity
    | rewrite (lexc_id_start fd) by reflexivity
    | rewrite (lexc_id_step fd) by reflexivity; cbn [append]
    | rewrite (lexc_id_end fd) by bnd_side;
      cbv [word_token keyword_token base_type String.eqb Ascii.eqb Bool.eqb] ].

(** right-nest the appends and expose the characters of the literal pieces *)
Ltac norm := rewrite ?sapp_assoc; cbn [append].

Ltac finish :=
  rewrite ?prep_prep; unfold type_name; repeat (progress (rewrite <- ?app_assoc; simpl)); try reflexivity.

Section Types.

Variable fdec : string -> option F.
Notation lex := (lex fdec).

Definition var_ok (v : option string) : bool :=
  match v with Some x => ident_ok x | None => true end.

Lemma lex_space_variable : forall v rest, var_ok v = true -> bnd rest = true ->
  bnd (space_variable v ++ rest)%string = true /\
  lex None (space_variable v ++ rest)%string =
  prep (match v with Some x => [TId x] | None => [] end) (lex None rest).
Proof.
  intros [x|] rest Hv Hb; cbn [space_variable]; norm.
  - split; [reflexivity|]. rewrite lexc_space. apply lex_ident; assumption.
  - split; [exact Hb|]. rewrite prep_nil. reflexivity.
Qed.

(** [type_to_c] lexes to [type_tokens] *)
Lemma lex_type : forall t v rest, var_ok v = true -> bnd rest = true ->
  lex None (type_to_c t v ++ rest)%string = prep (type_tokens t v) (lex None rest).
Proof.
  induction t as [| | | | |tg IH|el IH|el IH n]; intros v rest Hv Hb; cbn [type_to_c type_tokens];
    try (destruct (lex_space_variable v rest Hv Hb) as [Hb' E]; norm;
         repeat lexstep fdec; rewrite E; finish).
  - (* pointer *)
    destruct (lex_space_variable v rest Hv Hb) as [Hb' E]. norm.
    rewrite IH by reflexivity. repeat lexstep fdec. rewrite E. finish.
  - (* array *)
    norm. rewrite IH by (auto; reflexivity). repeat lexstep fdec. finish.
  - (* fixed array *)
    norm. rewrite IH by (auto; reflexivity). repeat lexstep fdec.
    rewrite lex_int by reflexivity. repeat lexstep fdec. finish.
Qed.

Theorem gen_type_equiv : forall t v, var_ok v = true ->
  clex fdec (type_to_c t v) = Some (type_tokens t v).
Proof.
  intros t v H. unfold clex. rewrite <- (sapp_nil_r (type_to_c t v)).
  rewrite (lex_type t v "" H eq_refl). cbn. rewrite app_nil_r. reflexivity.
Qed.

End Types.

(** * Python's [==] on IR trees (the generated [expr_eqb]) is symmetric: the source may write its
      comparisons either way round *)

Lemma Feqb_sym : forall x y : F, Feqb x y = Feqb y x.
Proof.
  intros x y. unfold Feqb, Beqb, SpecFloat.SFeqb.
  change (SpecFloat.SFcompare (B2SF x) (B2SF y)) with (Bcompare x y).
  change (SpecFloat.SFcompare (B2SF y) (B2SF x)) with (Bcompare y x).
  rewrite (Bcompare_swap _ _ y x). destruct (Bcompare y x) as [[]|]; reflexivity.
Qed.
Lemma ty_eqb_sym : forall a b, ty_eqb a b = ty_eqb b a.
Proof. induction a; destruct b; simpl; try reflexivity; rewrite ?IHa, ?(Z.eqb_sym n); reflexivity. Qed.
Lemma expr_eqb_sym : forall a b, expr_eqb a b = expr_eqb b a.
Proof.
  induction a; destruct b; simpl; try reflexivity;
    rewrite ?IHa, ?IHa1, ?IHa2, ?(String.eqb_sym name), ?(String.eqb_sym attribute), ?(Z.eqb_sym value),
      ?(Feqb_sym value), ?(ty_eqb_sym element_type); try reflexivity.
  destruct value, value0; reflexivity.
Qed.

(** * The regenerated expression printer lexes to the hand model's tokens *)

Section Main.

Variable fdec : string -> option F.
Variable str_float : F -> string.
Hypothesis str_float_neg : forall f, is_finite f = true -> Bsign f = true ->
  str_float f = ("-" ++ str_float (Babs f))%string.
Hypothesis str_float_pos : forall f, is_finite f = true -> Bsign f = false ->
  float_shape (str_float f) = true /\ fdec (str_float f) = Some f.

Notation lex := (lex fdec).
Notation gen := (ir_to_c_expression str_float).

Definition lexes_to (e : expr) : Prop :=
  forall rest, bnd rest = true ->
  lex None (gen e ++ rest)%string = prep (cprint e) (lex None rest).

(** the model's [isinstance e classes] is whatever disjunction of recognizers the source writes *)
Ltac sync_isinstance :=
  repeat match goal with
  | |- context [isinstance ?r ?l] =>
      match goal with
      | |- context [if ?B then append _ _ else _] =>
          replace (isinstance r l) with B by (destruct r; reflexivity);
          destruct B
      end
  end.

Ltac use_ih :=
  match goal with
  | IH : lexes_to ?e |- context [CLexer.lex _ None (ir_to_c_expression _ ?e ++ ?X)%string] =>
      rewrite (IH X) by bnd_side
  end.

Ltac run :=
  repeat first
    [ use_ih
    | rewrite (lex_type fdec) by bnd_side
    | lexstep fdec ].

Theorem gen_cprint_lex : forall e, names_ok e = true -> lexes_to e.
Proof.
  induction e; intros Hn; cbn [names_ok] in Hn;
    repeat match goal with
           | H : _ && _ = true |- _ => apply andb_true_iff in H; destruct H
           end;
    repeat match goal with
           | IH : names_ok ?x = true -> lexes_to ?x, H : names_ok ?x = true |- _ => specialize (IH H)
           end;
    intros rest Hb; cbn [ir_to_c_expression cprint]; unfold parens, wrap; sync_isinstance;
    try match goal with v : bool |- _ => destruct v end; norm;
    first [ solve [apply lex_ident; assumption]
          | solve [apply lex_int; assumption]
          | solve [apply lex_float; assumption]
          | solve [run; rewrite ?(lex_ident fdec) by assumption; finish]
          | (run; rewrite ?(lex_ident fdec) by assumption; finish;
             match goal with
             | |- ?G => fail 1000 "the text printed by the regenerated ir_to_c_expression does not lex to the tokens of cprint; stuck at:" G
             end) ].
Qed.

Theorem gen_cprint_equiv : forall e, names_ok e = true -> clex fdec (gen e) = Some (cprint e).
Proof.
  intros e H. unfold clex. rewrite <- (sapp_nil_r (gen e)).
  rewrite (gen_cprint_lex e H "" eq_refl). cbn. rewrite app_nil_r. reflexivity.
Qed.

(** * One-line statements *)

Lemma lex_nil : lex None "" = Some [].
Proof. reflexivity. Qed.

Ltac close :=
  unfold clex; norm; run; rewrite ?(lex_ident fdec) by assumption; run; rewrite ?lex_nil;
  rewrite ?prep_prep; cbn [prep]; rewrite app_nil_r; f_equal;
  unfold type_name; repeat (progress (rewrite <- ?app_assoc; simpl)); reflexivity.

Lemma gen_declaration_lex : forall d rest, decl_names_ok d = true -> bnd rest = true ->
  match ir_to_c_declaration d, cprint_declaration d with
  | Some s, Some ts => lex None (s ++ rest)%string = prep ts (lex None rest)
  | None, None => True
  | _, _ => False
  end.
Proof.
  intros d rest Hn Hb. destruct d; try exact I. destruct name; try exact I.
  cbn [ir_to_c_declaration cprint_declaration]. apply lex_type; assumption.
Qed.

(** [ir_to_c_statement] on Declaration, Assignment (with the [++ -- += -= *=] sugar),
    DeclarationAssignment, Return and an expression statement: one line, and that line lexes to the
    model's tokens; an exception ([None]) exactly where the model has [None]. *)
Theorem gen_stmt_equiv : forall s, stmt_names_ok s = true -> is_layout s = false ->
  option_map (map (clex fdec)) (ir_to_c_statement str_float s) =
  option_map (fun ts => [Some ts]) (cprint_stmt s).
Proof.
  intros s Hn Hl.
  destruct s as [name type|target value|dtarget value|? ?|? ? ?|? ?|value|e]; try discriminate Hl;
    cbn [stmt_names_ok] in Hn.
  - (* Declaration *)
    pose proof (gen_declaration_lex (Declaration name type) ";" Hn eq_refl) as D.
    cbn [ir_to_c_statement cprint_stmt].
    destruct (ir_to_c_declaration (Declaration name type)) as [x|],
             (cprint_declaration (Declaration name type)) as [ts|]; try contradiction; [|reflexivity].
    cbn [option_map map]. do 3 f_equal. unfold clex. rewrite D. close.
  - (* Assignment *)
    apply andb_true_iff in Hn. destruct Hn as [Ht Hv].
    pose proof (gen_cprint_lex target Ht) as IHt.
    pose proof (gen_cprint_lex value Hv) as IHv.
    destruct value; cbn [names_ok] in Hv;
      repeat match goal with
             | H : _ && _ = true |- _ => apply andb_true_iff in H; destruct H
             end;
      repeat match goal with
             | H : names_ok ?x = true |- _ =>
                 lazymatch goal with
                 | _ : lexes_to x |- _ => fail
                 | _ => pose proof (gen_cprint_lex x H)
                 end
             end;
      cbn [ir_to_c_statement cprint_stmt cprint_assignment];
      rewrite ?(expr_eqb_sym target), ?(expr_eqb_sym (IntegerLiteral 1));
      repeat match goal with |- context [if ?B then _ else _] => destruct B end;
      cbn [option_map map];
      first [ solve [do 3 f_equal; close]
            | match goal with
              | |- ?G => fail 1000 "the regenerated ir_to_c_assignment differs from cprint_assignment; stuck at:" G
              end ].
  - (* DeclarationAssignment *)
    apply andb_true_iff in Hn. destruct Hn as [Hd Hv].
    pose proof (gen_cprint_lex value Hv) as IHv.
    pose proof (gen_declaration_lex dtarget (" = " ++ ir_to_c_expression str_float value ++ ";") Hd eq_refl) as D.
    cbn [ir_to_c_statement cprint_stmt].
    destruct (ir_to_c_declaration dtarget) as [x|], (cprint_declaration dtarget) as [ts|];
      try contradiction; [|reflexivity].
    cbn [option_map map]. do 3 f_equal. unfold clex. rewrite ?sapp_assoc in *. rewrite D. close.
  - (* Return *)
    pose proof (gen_cprint_lex value Hn) as IHv.
    cbn [ir_to_c_statement cprint_stmt option_map map]. do 3 f_equal. close.
  - (* expression statement *)
    pose proof (gen_cprint_lex e Hn) as IHe.
    cbn [ir_to_c_statement cprint_stmt option_map map]. do 3 f_equal. close.
Qed.


(** * Lines (round 2): every printed line, in continuation form

    A one-line statement ends in [;], a header line in [{]: whatever follows, the line lexes to its
    tokens followed by the tokens of the rest. *)

Ltac closeK :=
  norm; run; rewrite ?(lex_ident fdec) by assumption; run; finish.

Theorem gen_stmt_line : forall s, stmt_names_ok s = true -> is_layout s = false ->
  match ir_to_c_statement str_float s, cprint_stmt s with
  | Some [line], Some ts => forall rest, lex None (line ++ rest)%string = prep ts (lex None rest)
  | None, None => True
  | _, _ => False
  end.
Proof.
  intros s Hn Hl.
  destruct s as [name type|target value|dtarget value|? ?|? ? ?|? ?|value|e]; try discriminate Hl;
    cbn [stmt_names_ok] in Hn.
  - (* Declaration *)
    cbn [ir_to_c_statement cprint_stmt].
    destruct (ir_to_c_declaration (Declaration name type)) as [x|] eqn:E1,
             (cprint_declaration (Declaration name type)) as [ts|] eqn:E2;
      pose proof (gen_declaration_lex (Declaration name type)) as D; rewrite E1, E2 in D;
      try (exact (D "" Hn eq_refl)).
    intros rest. specialize (D (String ";" rest) Hn eq_refl). rewrite sapp_assoc. cbn [append].
    rewrite D. closeK.
  - (* Assignment *)
    apply andb_true_iff in Hn. destruct Hn as [Ht Hv].
    pose proof (gen_cprint_lex target Ht) as IHt.
    pose proof (gen_cprint_lex value Hv) as IHv.
    destruct value; cbn [names_ok] in Hv;
      repeat match goal with
             | H : _ && _ = true |- _ => apply andb_true_iff in H; destruct H
             end;
      repeat match goal with
             | H : names_ok ?x = true |- _ =>
                 lazymatch goal with
                 | _ : lexes_to x |- _ => fail
                 | _ => pose proof (gen_cprint_lex x H)
                 end
             end;
      cbn [ir_to_c_statement cprint_stmt cprint_assignment];
      rewrite ?(expr_eqb_sym target), ?(expr_eqb_sym (IntegerLiteral 1));
      repeat match goal with |- context [if ?B then _ else _] => destruct B end;
      first [ solve [intros rest; closeK]
            | match goal with
              | |- ?G => fail 1000 "the regenerated ir_to_c_assignment differs from cprint_assignment; stuck at:" G
              end ].
  - (* DeclarationAssignment *)
    apply andb_true_iff in Hn. destruct Hn as [Hd Hv].
    pose proof (gen_cprint_lex value Hv) as IHv.
    cbn [ir_to_c_statement cprint_stmt].
    destruct (ir_to_c_declaration dtarget) as [x|] eqn:E1, (cprint_declaration dtarget) as [ts|] eqn:E2;
      pose proof (gen_declaration_lex dtarget) as D; rewrite E1, E2 in D;
      try (exact (D "" Hd eq_refl)).
    intros rest.
    specialize (D (" = " ++ ir_to_c_expression str_float value ++ ";" ++ rest)%string Hd eq_refl).
    rewrite ?sapp_assoc in *. rewrite D. closeK.
  - (* Return *)
    pose proof (gen_cprint_lex value Hn) as IHv.
    cbn [ir_to_c_statement cprint_stmt]. intros rest. closeK.
  - (* expression statement *)
    pose proof (gen_cprint_lex e Hn) as IHe.
    cbn [ir_to_c_statement cprint_stmt]. intros rest. closeK.
Qed.

Lemma lex_if_line : forall c, names_ok c = true -> forall rest,
  lex None (("if (" ++ gen c ++ ") {") ++ rest)%string
  = prep (TId "if" :: TLParen :: cprint c ++ [TRParen; TId "{"]) (lex None rest).
Proof. intros c H rest. pose proof (gen_cprint_lex c H) as IH. closeK. Qed.

Lemma lex_while_line : forall c, names_ok c = true -> forall rest,
  lex None (("while (" ++ gen c ++ ") {") ++ rest)%string
  = prep (TId "while" :: TLParen :: cprint c ++ [TRParen; TId "{"]) (lex None rest).
Proof. intros c H rest. pose proof (gen_cprint_lex c H) as IH. closeK. Qed.

Lemma lex_close_line : forall rest, lex None ("}" ++ rest)%string = prep [TId "}"] (lex None rest).
Proof. intros rest. closeK. Qed.

Lemma lex_else_line : forall rest,
  lex None ("} else {" ++ rest)%string = prep [TId "}"; TId "else"; TId "{"] (lex None rest).
Proof. intros rest. closeK. Qed.

Lemma lex_else_if_prefix : forall X,
  lex None ("} else " ++ X)%string = prep [TId "}"; TId "else"] (lex None X).
Proof. intros X. closeK. Qed.


End Main.

(** * The C06 printer theorems, on the printer regenerated from the source

    [gen_cprint_equiv] + the theorems about the hand model: what a C lexer reads in the text the
    SOURCE prints derives -- in ISO C's expression grammar, at the expression's own precedence level --
    the C tree [embed (rotate e)]. *)

Section Restated.

Variable fdec : string -> option F.
Variable str_float : F -> string.
Hypothesis str_float_neg : forall f, is_finite f = true -> Bsign f = true ->
  str_float f = ("-" ++ str_float (Babs f))%string.
Hypothesis str_float_pos : forall f, is_finite f = true -> Bsign f = false ->
  float_shape (str_float f) = true /\ fdec (str_float f) = Some f.

Notation gen := (ir_to_c_expression str_float).

Theorem gen_cprint_derives_prec : forall e, names_ok e = true -> prec_ok e = true ->
  exists ts, clex fdec (gen e) = Some ts /\ Derives (level_of e) ts (embed (rotate e)).
Proof.
  intros e Hn Hp. exists (cprint e). split.
  - apply gen_cprint_equiv; assumption.
  - apply cprint_derives_prec. exact Hp.
Qed.

Theorem gen_cprint_derives : forall e, names_ok e = true -> wt_expr e = true -> alloc_ok e = true ->
  exists ts, clex fdec (gen e) = Some ts /\ Derives (level_of e) ts (embed (rotate e)).
Proof.
  intros e Hn Hw Ha. apply gen_cprint_derives_prec; [exact Hn|]. apply wt_prec_ok; assumption.
Qed.

Theorem gen_cprint_derives_exact : forall e,
  names_ok e = true -> wt_expr e = true -> alloc_ok e = true -> no_right_nested e = true ->
  exists ts, clex fdec (gen e) = Some ts /\ Derives (level_of e) ts (embed e).
Proof.
  intros e Hn Hw Ha Hr. exists (cprint e). split.
  - apply gen_cprint_equiv; assumption.
  - apply cprint_derives_exact; assumption.
Qed.

(** the verified parser run on the lexed text of the source's printer finds exactly that tree *)
Theorem gen_cprint_parses : forall e, names_ok e = true -> prec_ok e = true ->
  exists ts n, clex fdec (gen e) = Some ts /\
    forall n', n <= n' -> cparse_m n' (MExpr 0) ts = Some (embed (rotate e), []).
Proof.
  intros e Hn Hp. destruct (gen_cprint_derives_prec e Hn Hp) as [ts [E D]].
  assert (D0 : Derives 0 ts (embed (rotate e))) by (apply (derives_sub _ _ _ D); lia).
  destruct (cparse_m_finds ts _ D0) as [n Hn'].
  exists ts, n. split; assumption.
Qed.

Theorem gen_stmt_derives : forall s, stmt_names_ok s = true -> stmt_ok s = true ->
  exists line ts cs,
    ir_to_c_statement str_float s = Some [line] /\ clex fdec line = Some ts /\
    cstmt_of s = Some cs /\ DerivesStmt ts cs.
Proof.
  intros s Hn Hs. destruct (stmt_derives s Hs) as [ts [cs [E1 [E2 D]]]].
  assert (Hl : is_layout s = false).
  { destruct s; try reflexivity; discriminate Hs. }
  pose proof (gen_stmt_equiv fdec str_float str_float_neg str_float_pos s Hn Hl) as E.
  rewrite E1 in E. cbn [option_map] in E.
  destruct (ir_to_c_statement str_float s) as [l|]; [|discriminate E].
  cbn [option_map] in E. injection E as E.
  destruct l as [|line [|x l]]; try discriminate E. cbn [map] in E. injection E as E.
  exists line, ts, cs. repeat split; assumption.
Qed.

End Restated.

(** * The same, with the assumptions about the oracles packaged as [float_oracle_ok]
      (the form stated in props/TIE_cprint.v) *)

Section Packaged.

Variable fdec : string -> option F.
Variable str_float : F -> string.
Hypothesis ok : float_oracle_ok fdec str_float.

Let A := proj1 ok.
Let B := proj2 ok.

Definition tie_cprint_lex := gen_cprint_lex fdec str_float A B.
Definition tie_cprint_equiv := gen_cprint_equiv fdec str_float A B.
Definition tie_cprint_stmt_equiv := gen_stmt_equiv fdec str_float A B.
Definition tie_cprint_derives := gen_cprint_derives fdec str_float A B.
Definition tie_cprint_derives_prec := gen_cprint_derives_prec fdec str_float A B.
Definition tie_cprint_derives_exact := gen_cprint_derives_exact fdec str_float A B.
Definition tie_cprint_parses := gen_cprint_parses fdec str_float A B.
Definition tie_cprint_stmt_derives := gen_stmt_derives fdec str_float A B.

End Packaged.
