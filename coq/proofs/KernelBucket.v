(** C01G -- bucket mode in general: dense output layers that are filled through a bucket because a
    contraction (or a later output layer) is iterated outside them.

    [Gb] records every terminal execution as a contribution (coordinates of the bucket layers,
    value); the bucket adds them up per coordinate.  [gsel] is the loop nest that sums, over ALL
    loops of the sub-graph, the terminal values whose bucket coordinates are [c]; the model's
    bucket holds [gsel] (first part, needs the stored inputs), and [gsel] is the loop-nest
    denotation with the bucket indexes fixed to [c] (second part, pure algebra on loop nests). *)

From Coq Require Import ZArith List Bool Lia ZifyBool String.
From TV Require Import spec.Storage spec.Spec proofs.SpecSums proofs.SpecLemmas proofs.StorageLemmas proofs.StorageWf
                       model.DesugarSem model.Exhaust proofs.ExhaustProofs
                       model.DesugarSemGraph proofs.DesugarSemGraphProofs
                       model.Kernel proofs.KernelLocate proofs.KernelEncode proofs.KernelExhaust
                       proofs.KernelSound.
Import ListNotations.
Local Open Scope Z_scope.

Notation zsum := (rsum (O := ZOps)).

Lemma zsum_cons' a l : zsum (a :: l) = a + zsum l.
Proof. reflexivity. Qed.

Lemma zsum_app' l1 l2 : zsum (l1 ++ l2) = zsum l1 + zsum l2.
Proof. induction l1 as [|a l1 IH]; [reflexivity|]. cbn [app]. rewrite !zsum_cons', IH. lia. Qed.

Lemma zsum_map_ext {A} (f g : A -> Z) l : (forall x, In x l -> f x = g x) -> zsum (map f l) = zsum (map g l).
Proof.
  induction l as [|a l IH]; intros H; [reflexivity|]. cbn [map]. rewrite !zsum_cons', IH by (intros; apply H; now right).
  now rewrite (H a (or_introl eq_refl)).
Qed.

(** a sum with a single possibly non-zero term *)
Lemma zsum_single (f : Z -> Z) (L : list Z) a :
  NoDup L -> In a L -> (forall v, In v L -> v <> a -> f v = 0) -> zsum (map f L) = f a.
Proof.
  induction L as [|x L IH]; intros ND Hin H0; [contradiction|]. inversion ND as [|? ? Hn ND']; subst.
  cbn [map]. rewrite zsum_cons'. destruct Hin as [->|Hin].
  - rewrite zsum_zero; [lia|]. intros v Hv. apply H0; [now right|]. intros ->. contradiction.
  - rewrite IH; auto.
    + rewrite (H0 x (or_introl eq_refl)); [lia|]. intros ->. contradiction.
    + intros v Hv. apply H0. now right.
Qed.

Section Bucket.
Variable cfg : kcfg.
Hypothesis LOK : leaves_okb cfg = true.

Notation gden := (gdenote (O := ZOps) (envE cfg) (k_sizes cfg) (ordsE cfg)).
Notation ievalZ := (ieval (O := ZOps) (envE cfg) (ordsE cfg)).

Variable bidx : list string.
Variable c : list Z.

(** the terminal values whose bucket coordinates are [c], summed over every loop *)
Fixpoint gsel (g : graph Z) (rho : val) : Z :=
  match g with
  | GTerminal e => if coord_eqb (map rho bidx) c then ievalZ rho e else 0
  | GIter k _ next => zsum (map (fun v => gsel next (upd rho k v)) (zrange (k_sizes cfg k)))
  | GSum ts => (fix go (l : list (graph Z)) : Z :=
                  match l with
                  | [] => 0
                  | t :: r => gsel t rho + go r
                  end) ts
  end.

Lemma gsel_sum ts rho : gsel (GSum ts) rho = zsum (map (fun t => gsel t rho) ts).
Proof. induction ts as [|t r IH]; [reflexivity|]. cbn [gsel map] in *. now rewrite zsum_cons', IH. Qed.

(** ** part 1: the bucket of the model holds [gsel] *)

Lemma gsel_zero dead rho B (g : graph Z) :
  (forall e, In e (terminals g) -> forall sigma, evalZ sigma (exhaust_list e dead) = 0) ->
  DZ cfg dead rho B -> incl (graph_leaves g) (k_leaves cfg) ->
  (forall k, In k (loops g) -> ~ In k B) ->
  forall rho', agree_on B rho rho' -> gsel g rho' = 0.
Proof.
  induction g using (graph_ind' Z); intros Hz D Hi Hl rho' A.
  - cbn [gsel]. destruct (coord_eqb (map rho' bidx) c); [|reflexivity].
    rewrite (ieval_sigma cfg LOK) by exact Hi.
    rewrite <- (exhaust_list_value e dead) by (intros i Hd; now apply (DZ_sigma cfg dead rho B)).
    apply Hz. now left.
  - cbn [terminals graph_leaves loops gsel] in *. apply zsum_zero. intros v _. apply IHg; auto.
    + intros k' Hk'. apply Hl. now right.
    + intros x Hx. rewrite A by exact Hx. symmetry. apply upd_other. intros ->.
      apply (Hl k (or_introl eq_refl)). exact Hx.
  - rewrite gsel_sum. apply zsum_zero. intros t Ht. rewrite Forall_forall in H.
    apply (H t Ht); auto.
    + intros e He. apply Hz. rewrite terminals_sum. apply in_flat_map. eauto.
    + intros x Hx. apply Hi. rewrite graph_leaves_sum. apply in_flat_map. eauto.
    + intros k Hk. apply Hl. rewrite loops_sum. apply in_flat_map. eauto.
Qed.

Lemma gsel_skip_zero dead rho B k v next ctx :
  DZ cfg dead rho B -> ~ In k B -> gctx dead k next = Some ctx -> is_sparse ctx = true ->
  incl (graph_leaves next) (k_leaves cfg) ->
  forallb (leaf_scopedb B k) (graph_leaves next) = true -> scopedb (k :: B) next = true ->
  has_sparse_leaf (gctx (dead ++ absent_ids cfg rho v (sparse_leaves ctx)) k next) = false ->
  gsel next (upd rho k v) = 0.
Proof.
  intros D Hk Hc Hsp Hi Hs Hsc Hh.
  set (dead_v := dead ++ absent_ids cfg rho v (sparse_leaves ctx)) in *.
  destruct (gctx_extend dead (absent_ids cfg rho v (sparse_leaves ctx)) k next ctx Hc) as (ctx' & Ec' & Sp').
  fold dead_v in Ec'. rewrite Ec' in Hh. cbn [has_sparse_leaf] in Hh.
  assert (sparse_leaves ctx' = []) as En by (destruct (sparse_leaves ctx'); [reflexivity|discriminate]).
  apply (gsel_zero dead_v (upd rho k v) (k :: B)).
  - intros e He sigma. destruct (gctx_terminals _ _ _ _ Ec' e He) as (c0 & Ec & Sc & Ic).
    apply (sparse_context_sound ZOps ZOps_ok zis_zero zis_zero_sound _ k c0 sigma Ec (Sc (Sp' Hsp))).
    intros l Hl. apply Ic in Hl. rewrite En in Hl. destruct Hl.
  - now apply (DZ_step cfg LOK dead rho B k v next ctx).
  - exact Hi.
  - now apply scopedb_loops.
  - apply agree_on_refl.
Qed.

Lemma abs_entries_app' (l1 l2 : list (list Z * Z)) x :
  abs_entries (O := ZOps) (l1 ++ l2) x = abs_entries (O := ZOps) l1 x + abs_entries (O := ZOps) l2 x.
Proof. apply abs_entries_app. Qed.

Lemma abs_fold {A} (f : A -> bres) l x :
  abs_entries (O := ZOps) (bcs (fold_right (fun y acc => bres_app (f y) acc) bres_nil l)) x
  = zsum (map (fun y => abs_entries (O := ZOps) (bcs (f y)) x) l).
Proof.
  induction l as [|y l IH]; [reflexivity|]. cbn [fold_right map].
  now rewrite bcs_app, abs_entries_app', IH, zsum_cons'.
Qed.

Lemma Gb_sel (g : graph Z) : forall B dead rho,
  scopedb B g = true -> incl (graph_leaves g) (k_leaves cfg) -> DZ cfg dead rho B ->
  abs_entries (O := ZOps) (bcs (Gb cfg bidx g dead rho)) c = gsel g rho.
Proof.
  induction g using (graph_ind' Z); intros B dead rho Hs Hi D.
  - cbn [Gb gsel]. pose proof (terminal_value cfg LOK dead rho B e Hi D rho (agree_on_refl _ _)) as T.
    destruct (eval_term cfg rho (exhaust_list e dead)) as [v o0]. cbn [fst] in T.
    unfold bcs. cbn [fst]. rewrite abs_entries_cons, abs_entries_nil, T.
    destruct (coord_eqb (map rho bidx) c); lia.
  - cbn [graph_leaves gsel] in *. cbn [Gb].
    pose proof Hs as Hs0. cbn [scopedb] in Hs. apply andb_true_iff in Hs. destruct Hs as [Hs H3].
    apply andb_true_iff in Hs. destruct Hs as [H1 H2].
    apply negb_true_iff in H1. apply smem_false in H1.
    unfold visits. destruct (gctx_defined cfg LOK dead k g Hi) as (ctx & Ec). rewrite Ec.
    rewrite bcs_app. unfold bcs at 2. cbn [fst]. rewrite app_nil_r, abs_fold.
    apply (sum_flat_map_cond cfg LOK (zrange (k_sizes cfg k))
               (fun v0 => negb (is_sparse ctx && out_sparse cfg o)
                          || has_sparse_leaf (gctx (dead ++ absent_ids cfg rho v0 (sparse_leaves ctx)) k g))
               (fun v0 => dead ++ absent_ids cfg rho v0 (sparse_leaves ctx))
               (fun v0 d => abs_entries (O := ZOps) (bcs (Gb cfg bidx g d (upd rho k v0))) c)
               (fun v0 => gsel g (upd rho k v0))).
    intros v _.
    destruct (negb (is_sparse ctx && out_sparse cfg o)
              || has_sparse_leaf (gctx (dead ++ absent_ids cfg rho v (sparse_leaves ctx)) k g)) eqn:Ecv.
    + apply (IHg (k :: B)); auto. now apply (DZ_step cfg LOK dead rho B k v g ctx).
    + apply orb_false_iff in Ecv. destruct Ecv as [E1 E2]. apply negb_false_iff in E1.
      apply andb_true_iff in E1. destruct E1 as [E1 _].
      now apply (gsel_skip_zero dead rho B k v g ctx).
  - rewrite Gb_sum_unfold, abs_fold, gsel_sum. apply zsum_map_ext. intros t Ht.
    rewrite Forall_forall in H. rewrite scopedb_sum in Hs. rewrite forallb_forall in Hs.
    apply (H t Ht B); auto. intros x Hx. apply Hi. rewrite graph_leaves_sum. apply in_flat_map. eauto.
Qed.


(** ** part 2: [gsel] is the denotation with the bucket indexes fixed to [c] *)

(** the value [c] gives to a bucket index *)
Definition tauc : val := bind_from (fun _ => 0) bidx c.

(** [rho] with the still unbound bucket indexes [U] set from [c] *)
Definition over (rho : val) (U : list string) : val :=
  fun x => if smem x U then tauc x else rho x.

Lemma bind_from_char ks : forall rho cs x,
  List.length cs = List.length ks ->
  bind_from rho ks cs x = if smem x ks then bind_from (fun _ => 0) ks cs x else rho x.
Proof.
  induction ks as [|k ks IH]; intros rho cs x L; [reflexivity|].
  destruct cs as [|c0 cs]; [discriminate|]. cbn [List.length] in L.
  cbn [bind_from]. rewrite (IH (upd rho k c0)), (IH (upd (fun _ => 0) k c0)) by lia.
  unfold smem. cbn [existsb]. fold (smem x ks). destruct (smem x ks); [now rewrite orb_true_r|].
  rewrite orb_false_r. unfold upd. now destruct (String.eqb x k).
Qed.

Lemma map_bind_from ks : forall cs, NoDup ks -> List.length cs = List.length ks ->
  map (bind_from (fun _ => 0) ks cs) ks = cs.
Proof.
  induction ks as [|k ks IH]; intros cs ND L; [destruct cs; [reflexivity|discriminate]|].
  destruct cs as [|c0 cs]; [discriminate|]. inversion ND as [|? ? Hn ND']; subst. cbn [List.length] in L.
  cbn [map bind_from]. f_equal.
  - rewrite bind_from_char by lia. apply smem_false in Hn. rewrite Hn. apply upd_same.
  - rewrite <- (IH cs ND') at 2 by lia. apply map_ext_in. intros x Hx.
    rewrite bind_from_char by lia. apply smem_In in Hx. now rewrite Hx.
Qed.

Hypothesis NDb : NoDup bidx.
Hypothesis Lc : List.length c = List.length bidx.
Hypothesis Rc : Forall2 (fun ci x => 0 <= ci < k_sizes cfg x) c bidx.

Lemma map_tauc : map tauc bidx = c.
Proof. now apply map_bind_from. Qed.

Lemma tauc_range x : In x bidx -> 0 <= tauc x < k_sizes cfg x.
Proof.
  pose proof Rc as R. rewrite <- map_tauc in R. revert R. generalize tauc. clear.
  induction bidx as [|k ks IH]; intros f R [].
  - subst. now inversion R.
  - inversion R; subst. now apply IH.
Qed.

Lemma over_all rho : veq (bind_from rho bidx c) (over rho bidx).
Proof. intros x. unfold over, tauc. now apply bind_from_char. Qed.

Lemma agree_coords rho : (forall x, In x bidx -> rho x = tauc x) -> map rho bidx = c.
Proof. intros H. rewrite <- map_tauc. now apply map_ext_in. Qed.

Lemma gsel_mismatch (g : graph Z) : forall rho x,
  In x bidx -> ~ In x (loops g) -> rho x <> tauc x -> gsel g rho = 0.
Proof.
  induction g using (graph_ind' Z); intros rho x Hx Hl Hne.
  - cbn [gsel]. destruct (coord_eqb (map rho bidx) c) eqn:E; [|reflexivity]. exfalso. apply Hne.
    apply coord_eqb_eq in E. rewrite <- map_tauc in E.
    apply (proj1 map_ext_in_iff E x Hx).
  - cbn [gsel loops] in *. apply zsum_zero. intros v _. apply (IHg _ x Hx); [intros Hin; apply Hl; now right|].
    rewrite upd_other; [exact Hne|]. intros ->. apply Hl. now left.
  - rewrite gsel_sum. apply zsum_zero. intros t Ht. rewrite Forall_forall in H.
    apply (H t Ht rho x Hx); [|exact Hne]. intros Hin. apply Hl. rewrite loops_sum. apply in_flat_map. eauto.
Qed.

(** bucket discipline: below the place where the bucket is opened, a node with an output layer
    iterates a bucket index that is not yet bound, a contraction does not iterate a bucket index,
    and every terminal sits below all bucket indexes *)
Fixpoint bucket_okb (U : list string) (g : graph Z) : bool :=
  match g with
  | GTerminal _ => match U with [] => true | _ => false end
  | GIter k (Some _) next =>
      smem k U && bucket_okb (filter (fun x => negb (String.eqb x k)) U) next
  | GIter k None next => negb (smem k bidx) && bucket_okb U next
  | GSum ts => (fix go (l : list (graph Z)) : bool :=
                  match l with
                  | [] => true
                  | t :: r => bucket_okb U t && go r
                  end) ts
  end.

Lemma bucket_okb_sum U ts : bucket_okb U (GSum ts) = forallb (bucket_okb U) ts.
Proof. induction ts as [|t r IH]; [reflexivity|]. cbn [bucket_okb forallb] in *. now rewrite IH. Qed.

Lemma smem_filter_ne x k U : x <> k -> smem x (filter (fun y => negb (String.eqb y k)) U) = smem x U.
Proof.
  intros N. induction U as [|u U IH]; [reflexivity|]. cbn [filter].
  destruct (String.eqb_spec u k) as [->|Nu]; cbn [negb].
  - unfold smem in *. cbn [existsb]. destruct (String.eqb_spec x k); [contradiction|]. exact IH.
  - unfold smem in *. cbn [existsb]. now rewrite IH.
Qed.

Lemma smem_filter_eq k U : smem k (filter (fun y => negb (String.eqb y k)) U) = false.
Proof.
  apply smem_false. intros H. apply filter_In in H. destruct H as [_ H].
  rewrite String.eqb_refl in H. discriminate.
Qed.

Lemma gsel_gden (g : graph Z) : forall U B rho,
  bucket_okb U g = true -> incl U bidx -> scopedb B g = true ->
  (forall x, In x bidx -> ~ In x U -> rho x = tauc x) ->
  gsel g rho = gden g (over rho U).
Proof.
  induction g using (graph_ind' Z); intros U B rho Hb HU Hs Hr.
  - cbn [bucket_okb] in Hb. destruct U; [|discriminate]. cbn [gsel gdenote].
    rewrite (agree_coords rho) by (intros x Hx; apply Hr; auto). rewrite coord_eqb_refl.
    apply (ieval_veq cfg). intros x. reflexivity.
  - cbn [scopedb] in Hs. apply andb_true_iff in Hs. destruct Hs as [Hs H3].
    apply andb_true_iff in Hs. destruct Hs as [H1 _].
    assert (~ In k (loops g)) as Hkl.
    { intros Hin. apply (scopedb_loops g (k :: B) H3 k Hin). now left. }
    destruct o as [l|]; cbn [bucket_okb gsel gdenote] in *.
    + apply andb_true_iff in Hb. destruct Hb as [HkU Hb]. apply smem_In in HkU.
      assert (In k bidx) as Hkb by (now apply HU).
      rewrite (zsum_single _ _ (tauc k) (NoDup_zrange _)).
      * rewrite (IHg _ (k :: B) (upd rho k (tauc k)) Hb); auto.
        -- apply (gdenote_veq cfg). intros x. unfold over.
           destruct (String.eqb_spec x k) as [->|N].
           ++ rewrite smem_filter_eq, upd_same. apply smem_In in HkU. now rewrite HkU.
           ++ rewrite (smem_filter_ne x k U N). now rewrite (upd_other rho k (tauc k) x N).
        -- intros x Hx. apply HU. apply filter_In in Hx. tauto.
        -- intros x Hx HnU. destruct (String.eqb_spec x k) as [->|N]; [apply upd_same|].
           rewrite upd_other by exact N. apply Hr; [exact Hx|]. intros HxU. apply HnU.
           apply filter_In. split; [exact HxU|]. apply negb_true_iff. now apply String.eqb_neq.
      * apply In_zrange. now apply tauc_range.
      * intros v _ Hv. apply (gsel_mismatch g _ k Hkb Hkl). now rewrite upd_same.
    + apply andb_true_iff in Hb. destruct Hb as [Hkb Hb]. apply negb_true_iff in Hkb. apply smem_false in Hkb.
      apply zsum_map_ext. intros v _. rewrite (IHg U (k :: B) (upd rho k v) Hb HU H3).
      * apply (gdenote_veq cfg). intros x. unfold over, upd.
        destruct (String.eqb_spec x k) as [->|N]; [|reflexivity].
        assert (smem k U = false) as ->; [|reflexivity].
        apply smem_false. intros HkU. apply Hkb. now apply HU.
      * intros x Hx HnU. rewrite upd_other; [now apply Hr|]. intros ->. contradiction.
  - rewrite gsel_sum, (gdenote_sum cfg). apply zsum_map_ext. intros t Ht. rewrite Forall_forall in H.
    rewrite bucket_okb_sum in Hb. rewrite scopedb_sum in Hs. rewrite forallb_forall in Hb, Hs.
    apply (H t Ht U B); auto.
Qed.

(** the two parts together: the bucket of the model holds the denotation *)
Theorem bucket_value (g : graph Z) B dead rho :
  bucket_okb bidx g = true -> scopedb B g = true -> incl (graph_leaves g) (k_leaves cfg) ->
  DZ cfg dead rho B ->
  abs_entries (O := ZOps) (bcs (Gb cfg bidx g dead rho)) c = gden g (bind_from rho bidx c).
Proof.
  intros Hb Hs Hi D. rewrite (Gb_sel g B dead rho Hs Hi D).
  rewrite (gsel_gden g bidx B rho Hb (incl_refl _) Hs) by (intros x Hx Hn; contradiction).
  apply (gdenote_veq cfg). intros x. symmetry. apply over_all.
Qed.

End Bucket.

(** * append mode with buckets: every graph shape the generator accepts *)

Section General.
Variable cfg : kcfg.
Hypothesis LOK : leaves_okb cfg = true.
Hypothesis CFG : cfg_ok cfg.

Notation gden := (gdenote (O := ZOps) (envE cfg) (k_sizes cfg) (ordsE cfg)).

(** a bucket may be opened at layer [l]: the remaining layers are dense and the sub-graph obeys the
    bucket discipline for the remaining output indexes *)
Definition bucket_entryb (g : graph Z) (l : nat) : bool :=
  forallb mode_is_dense (skipn l (k_omodes cfg))
  && bucket_okb (skipn l (k_oidx cfg)) (skipn l (k_oidx cfg)) g.

(** the output discipline: layers appended in order by the node iterating their index, or a
    bucket over the remaining (dense) layers *)
Fixpoint wellb (g : graph Z) (l : nat) : bool :=
  match g with
  | GTerminal _ => Nat.eqb l (List.length (k_oidx cfg)) && Nat.eqb l (order cfg)
  | GIter k (Some l') next =>
      if Nat.eqb l' l
      then Nat.ltb l (List.length (k_oidx cfg)) && String.eqb k (nth l (k_oidx cfg) EmptyString)
           && wellb next (S l)
      else bucket_entryb g l
  | _ => bucket_entryb g l
  end.

Lemma range_in_box ks : forall rest,
  Forall2 (fun c x => 0 <= c < k_sizes cfg x) rest ks -> in_box (map (k_sizes cfg) ks) rest = true.
Proof.
  induction ks as [|k ks IH]; intros rest H; inversion H; subst; [reflexivity|].
  cbn [map in_box]. rewrite IH by assumption. lia.
Qed.

Lemma enter_bucket_value_gen l (g : graph Z) B dead rho rest :
  bucket_entryb g l = true -> scopedb B g = true -> incl (graph_leaves g) (k_leaves cfg) ->
  DZ cfg dead rho B -> NoDup (skipn l (k_oidx cfg)) ->
  Forall2 (fun c x => 0 <= c < k_sizes cfg x) rest (skipn l (k_oidx cfg)) ->
  tval rest (atrie (enter_bucket cfg l g dead rho)) = gden g (bind_from rho (skipn l (k_oidx cfg)) rest).
Proof.
  intros Hb Hs Hi D ND HR. unfold bucket_entryb in Hb. apply andb_true_iff in Hb. destruct Hb as [_ Hb].
  pose proof (bucket_value cfg LOK (skipn l (k_oidx cfg)) rest ND (Forall2_length' _ _ _ HR) HR
                           g B dead rho Hb Hs Hi D) as V.
  unfold enter_bucket. destruct (Gb cfg (skipn l (k_oidx cfg)) g dead rho) as [[cs f] o].
  unfold atrie, bcs in *. cbn [fst] in *. unfold bucket_trie. rewrite (tval_tabulate cfg LOK).
  now rewrite (range_in_box _ _ HR).
Qed.

Lemma Ga_value_gen (g : graph Z) : forall l B dead rho rest,
  wellb g l = true -> scopedb B g = true -> incl (graph_leaves g) (k_leaves cfg) -> DZ cfg dead rho B ->
  (forall x, In x (skipn l (k_oidx cfg)) -> ~ In x B) -> NoDup (skipn l (k_oidx cfg)) ->
  Forall2 (fun c x => 0 <= c < k_sizes cfg x) rest (skipn l (k_oidx cfg)) ->
  tval rest (atrie (Ga cfg g l dead rho)) = gden g (bind_from rho (skipn l (k_oidx cfg)) rest).
Proof.
  induction g using (graph_ind' Z); intros l B dead rho rest Hc Hs Hi D HB ND HR.
  - (* terminal *)
    cbn [wellb] in Hc. apply andb_true_iff in Hc. destruct Hc as [H1 H2]. apply Nat.eqb_eq in H1, H2.
    rewrite H1, skipn_all in *. inversion HR; subst. cbn [bind_from Ga gdenote].
    unfold order in H2. rewrite <- H2, Nat.eqb_refl.
    pose proof (terminal_value cfg LOK dead rho B e Hi D rho (agree_on_refl _ _)) as T.
    destruct (eval_term cfg rho (exhaust_list e dead)) as [v o]. cbn [fst] in T.
    unfold atrie. cbn. exact T.
  - destruct o as [l'|]; [|now apply (enter_bucket_value_gen l _ B)].
    cbn [wellb] in Hc. cbn [Ga]. destruct (Nat.eqb l' l) eqn:El; [|now apply (enter_bucket_value_gen l _ B)].
    apply Nat.eqb_eq in El. subst l'.
    apply andb_true_iff in Hc. destruct Hc as [Hc Hc4]. apply andb_true_iff in Hc. destruct Hc as [Hc2 Hc3].
    apply Nat.ltb_lt in Hc2. apply String.eqb_eq in Hc3.
    rewrite (skipn_nth cfg LOK _ _ EmptyString Hc2) in *. rewrite <- Hc3 in *. clear Hc3.
    inversion HR as [|v ? rest' ? Hv HR']; subst. cbn [bind_from gdenote graph_leaves] in *.
    pose proof Hs as Hs0. cbn [scopedb] in Hs. apply andb_true_iff in Hs. destruct Hs as [Hs Hs3].
    apply andb_true_iff in Hs. destruct Hs as [Hs1 Hs2].
    apply negb_true_iff in Hs1. apply smem_false in Hs1.
    inversion ND as [|? ? Hkn ND']; subst.
    assert (forall x, In x (skipn (S l) (k_oidx cfg)) -> ~ In x (k :: B)) as HB'.
    { intros x Hx [<-|Hb]; [contradiction|]. apply (HB x (or_intror Hx) Hb). }
    unfold visits. destruct (gctx_defined cfg LOK dead k g Hi) as (ctx & Ec). rewrite Ec.
    unfold atrie. cbn [fst snd tval kids_of].
    set (cnd := fun v0 => negb (is_sparse ctx && out_sparse cfg (Some l))
                 || has_sparse_leaf (gctx (dead ++ absent_ids cfg rho v0 (sparse_leaves ctx)) k g)).
    set (dv := fun v0 => dead ++ absent_ids cfg rho v0 (sparse_leaves ctx)).
    set (RR := fun vd : Z * list string => Ga cfg g (S l) (snd vd) (upd rho k (fst vd))).
    set (comp := match nth_error (k_omodes cfg) l with Some MCompressed => true | _ => false end).
    match goal with |- match find _ (map _ ?K) with _ => _ end = _ =>
      replace K with (let kids := map (fun vd => (fst vd, RR vd))
                                      (flat_map (fun v0 => if cnd v0 then [(v0, dv v0)] else []) (zrange (k_sizes cfg k))) in
                      if comp then filter (fun c0 : Z * ares => snd (fst (snd c0))) kids else kids)
        by (unfold comp; cbn zeta; destruct (nth_error (k_omodes cfg) l) as [[|]|]; reflexivity)
    end.
    rewrite (find_kept _ cnd dv RR comp v (NoDup_zrange _)), (existsb_zrange cfg LOK).
    replace ((0 <=? v) && (v <? k_sizes cfg k)) with true by lia. cbn [andb].
    assert (forall rho', agree_on (k :: B) (upd rho k v) rho' -> cnd v = false -> gden g rho' = 0) as Skip.
    { intros rho' A Ecv. unfold cnd in Ecv. apply orb_false_iff in Ecv. destruct Ecv as [E1 E2].
      apply negb_false_iff in E1. apply andb_true_iff in E1. destruct E1 as [E1 _].
      apply (skip_zero cfg LOK dead rho B k v g ctx); auto. }
    assert (agree_on (k :: B) (upd rho k v) (bind_from (upd rho k v) (skipn (S l) (k_oidx cfg)) rest')) as Ag
      by (now apply bind_from_agree).
    destruct (cnd v) eqn:Ecv; cbn [andb].
    + assert (tval rest' (atrie (RR (v, dv v)))
              = gden g (bind_from (upd rho k v) (skipn (S l) (k_oidx cfg)) rest')) as IHv.
      { unfold RR. cbn [fst snd]. apply (IHg (S l) (k :: B)); auto.
        apply (DZ_step cfg LOK dead rho B k v g ctx); auto. }
      destruct (negb comp || aflag (RR (v, dv v))) eqn:Ek.
      * cbn [snd]. exact IHv.
      * apply orb_false_iff in Ek. destruct Ek as [_ Ef]. rewrite <- IHv.
        symmetry. unfold RR in *. cbn [fst snd] in *. now apply (Ga_flag_zero cfg LOK).
    + symmetry. now apply Skip.
  - cbn [wellb] in Hc. now apply (enter_bucket_value_gen l _ B).
Qed.

(** the chain fragment is a special case *)
Lemma no_outb_bucket (g : graph Z) : no_outb g = true -> bucket_okb [] [] g = true.
Proof.
  induction g using (graph_ind' Z); intros Hn.
  - reflexivity.
  - destruct o; [discriminate|]. cbn [no_outb bucket_okb] in *. now apply IHg.
  - rewrite no_outb_sum in Hn. rewrite bucket_okb_sum. rewrite forallb_forall in *.
    intros t Ht. rewrite Forall_forall in H. apply (H t Ht). now apply Hn.
Qed.

Lemma chainb_wellb (g : graph Z) : forall l, chainb cfg g l = true -> wellb g l = true.
Proof.
  assert (forall (g : graph Z) l, Nat.eqb l (List.length (k_oidx cfg)) && Nat.eqb l (order cfg) && no_outb g = true ->
                    bucket_entryb g l = true) as Hd.
  { intros g0 l H. apply andb_true_iff in H. destruct H as [H Hn]. apply andb_true_iff in H. destruct H as [H1 H2].
    apply Nat.eqb_eq in H1, H2. unfold bucket_entryb. rewrite H1 at 2 3. rewrite H2. unfold order.
    rewrite !skipn_all. cbn [forallb andb]. now apply no_outb_bucket. }
  induction g using (graph_ind' Z); intros l Hc.
  - cbn [chainb wellb] in *. apply andb_true_iff in Hc. tauto.
  - destruct o as [l'|]; cbn [chainb wellb] in *; [|now apply Hd].
    apply andb_true_iff in Hc. destruct Hc as [Hc Hc4].
    apply andb_true_iff in Hc. destruct Hc as [Hc Hc3]. apply andb_true_iff in Hc. destruct Hc as [Hc1 Hc2].
    now rewrite Hc1, Hc2, Hc3, (IHg _ Hc4).
  - cbn [chainb wellb] in *. now apply Hd.
Qed.


Lemma wellb_shape (g : graph Z) : forall l, wellb g l = true -> shape_okb cfg g l = true.
Proof.
  assert (forall (g : graph Z) l, bucket_entryb g l = true -> forallb mode_is_dense (skipn l (k_omodes cfg)) = true) as Hd.
  { intros g0 l H. unfold bucket_entryb in H. apply andb_true_iff in H. tauto. }
  induction g using (graph_ind' Z); intros l Hc.
  - cbn [wellb shape_okb] in *. apply andb_true_iff in Hc. tauto.
  - destruct o as [l'|]; cbn [wellb shape_okb] in *; [|now apply (Hd _ _ Hc)].
    destruct (Nat.eqb l' l); [|now apply (Hd _ _ Hc)].
    apply andb_true_iff in Hc. destruct Hc as [Hc Hc4]. apply andb_true_iff in Hc. destruct Hc as [Hc2 Hc3].
    rewrite Hc3, (IHg _ Hc4). apply Nat.ltb_lt in Hc2. destruct CFG as (L1 & L2 & _).
    assert (l <? order cfg = true)%nat as ->; [apply Nat.ltb_lt; unfold order; lia|reflexivity].
  - cbn [wellb shape_okb] in *. now apply (Hd _ _ Hc).
Qed.

Theorem G_value_level_gen (g : graph Z) :
  incl (graph_leaves g) (k_leaves cfg) -> wellb g 0 = true -> scopedb [] g = true -> NoDup (k_oidx cfg) ->
  forall lc, Forall2 (fun c x => 0 <= c < k_sizes cfg x) lc (k_oidx cfg) ->
  tval lc (atrie (G cfg g)) = gden g (bind_from (fun _ => 0) (k_oidx cfg) lc).
Proof.
  intros Hi Hc Hs ND lc HR. unfold G.
  apply (Ga_value_gen g 0 [] [] (fun _ => 0) lc Hc Hs Hi (DZ_nil cfg _ _)); auto.
Qed.

Theorem G_computes_gen (g : graph Z) (tgt : list string) (c : list Z) :
  incl (graph_leaves g) (k_leaves cfg) -> wellb g 0 = true -> scopedb [] g = true -> NoDup (k_oidx cfg) ->
  k_oidx cfg = map (fun d => nth d tgt EmptyString) (k_oord cfg) -> NoDup tgt ->
  List.length tgt = List.length (k_oord cfg) ->
  Forall2 (fun ci x => 0 <= ci < k_sizes cfg x) c tgt ->
  abs_tensor (O := ZOps) (G_out cfg g) c = gden g (bind tgt c).
Proof.
  intros Hi Hc Hs ND Eo NDt Lt HR. pose proof CFG as (L1 & L2 & P & _).
  pose proof (Forall2_length' _ _ _ HR) as Lc. unfold G_out.
  set (lc := to_level_order (k_oord cfg) c).
  assert (twf (olevels cfg) (atrie (G cfg g))) as TW.
  { apply (Ga_twf cfg LOK CFG g 0 [] (fun _ => 0)); [now apply wellb_shape|exact Hi]. }
  pose proof (encode_abs cfg (atrie (G cfg g)) lc CFG TW (to_level_order_length _ _)) as EA.
  unfold lc in EA at 1. rewrite (to_dim_order_to_level_order (k_oord cfg) c P) in EA by lia.
  rewrite EA. clear EA.
  rewrite G_value_level_gen; auto.
  - apply (gdenote_veq cfg). rewrite bind_from_pairs, bind_pairs_rev.
    intros z. symmetry. apply bind_pairs_perm.
    + eapply Permutation.perm_trans; [apply Permutation.Permutation_sym, Permutation.Permutation_rev|].
      rewrite Eo. unfold lc, to_level_order. rewrite combine_map.
      replace (combine tgt c) with (map (fun x => (nth x tgt EmptyString, nth x c 0)) (seq 0 (List.length (k_oord cfg)))).
      2:{ rewrite <- combine_map. f_equal; [rewrite <- Lt|rewrite <- Lt, <- Lc]; apply map_nth_seq. }
      apply Permutation.Permutation_map. now apply is_permb_Permutation.
    + rewrite map_rev. apply Permutation.Permutation_NoDup with (l := tgt); [|exact NDt].
      rewrite combine_map_fst by lia. apply Permutation.Permutation_rev.
  - rewrite Eo. unfold lc, to_level_order.
    assert (forall L, (forall d, In d L -> (d < List.length c)%nat) ->
              Forall2 (fun c0 x => 0 <= c0 < k_sizes cfg x)
                      (map (fun i => nth i c 0) L) (map (fun d => nth d tgt EmptyString) L)) as Gen.
    { induction L as [|d L IH]; intros HL; cbn [map]; constructor.
      - apply (Forall2_nth cfg LOK _ _ _ 0 EmptyString HR). apply HL. now left.
      - apply IH. intros d' Hd'. apply HL. now right. }
    apply Gen. intros d Hd. apply (is_permb_In _ P) in Hd. lia.
Qed.

End General.
