(** C01G -- concrete, non-trivial instances of the hypotheses of the C01G theorems
    (CONVENTIONS 1), and executions of the kernel model. *)
From Coq Require Import ZArith List Bool String.
From TV Require Import spec.Storage spec.Support.
From TV Require Import spec.Spec model.DesugarSem model.Exhaust model.DesugarSemGraph
  model.Kernel proofs.KernelEncode proofs.KernelSound proofs.KernelSupport proofs.KernelBucket proofs.KernelTheorems proofs.KernelSupportSpec.
Import ListNotations.
Open Scope string_scope.
Open Scope Z_scope.

(** a(i,j) = b(i,k) * c(k,j) + d(i,j)   a:ds  b:ds  c:d1s0 (stored by columns)  d:ss
    -- the real graph tensora builds: two appended output layers (the second compressed), then a
    sum node with a terminal and a contraction *)
Definition exg_matmul_add : graph Z :=
  GIter "i" (Some 0%nat) (GIter "j" (Some 1%nat)
    (GSum [GTerminal (ITensor "3_d" "d" ["i"; "j"] [MCompressed; MCompressed]);
           GIter "k" None (GTerminal (IMul (ITensor "1_b" "b" ["i"; "k"] [MDense; MCompressed])
                                           (ITensor "2_c" "c" ["j"; "k"] [MDense; MCompressed])))])).

Definition exi_b : tensor Z := mkTensor [2; 3] [0%nat; 1%nat] [LDense; LCompressed [0; 2; 3] [0; 2; 1]] [1; 2; 3].
Definition exi_c : tensor Z := mkTensor [3; 2] [1%nat; 0%nat] [LDense; LCompressed [0; 1; 3] [2; 0; 1]] [5; 7; -1].
Definition exi_d : tensor Z := mkTensor [2; 2] [0%nat; 1%nat] [LCompressed [0; 1] [1]; LCompressed [0; 1] [1]] [4].

Definition exc_matmul_add : kcfg :=
  mkCfg [("b", exi_b); ("c", exi_c); ("d", exi_d)]
        (sizes_of [("i", 2); ("j", 2); ("k", 3)])
        ["i"; "j"] [MDense; MCompressed] [0%nat; 1%nat] (graph_leaves exg_matmul_add).

Definition exa_matmul_add : assignment Z :=
  mkAssign "a" ["i"; "j"]
    (EAdd (EMul (ETensor "b" ["i"; "k"]) (ETensor "c" ["k"; "j"])) (ETensor "d" ["i"; "j"])).

(** all hypotheses of [C01G_G_computes_spec] and [C01G_G_no_phantoms] hold, and the output is non-trivial:
    row 0 stores columns 0 and 1, row 1 stores column 1 only (an implicit zero is not stored) *)
Example kernel_hypotheses_instance :
  graph_okb exc_matmul_add exg_matmul_add ["i"; "j"] = true
  /\ support_okb exc_matmul_add exg_matmul_add = true
  /\ in_fragment exc_matmul_add exg_matmul_add = true
  /\ graph_ok_spec (ordsE exc_matmul_add) Z.eqb exa_matmul_add exg_matmul_add = true
  /\ G_out exc_matmul_add exg_matmul_add
     = mkTensor [2; 2] [0%nat; 1%nat] [LDense; LCompressed [0; 2; 3] [0; 1; 1]] [10; 7; 1]
  /\ snd (G exc_matmul_add exg_matmul_add) = true.
Proof. vm_compute. repeat split. Qed.

(** a(j) = b(i,j)  with b:ds : the contraction loop is OUTSIDE the output loop, so the dense
    output is filled through a bucket (outside [in_fragment], inside [graph_okb]: the theorems
    cover it) *)
Definition exg_colsum : graph Z :=
  GIter "i" None (GIter "j" (Some 0%nat) (GTerminal (ITensor "1_b" "b" ["i"; "j"] [MDense; MCompressed]))).

Definition exc_colsum : kcfg :=
  mkCfg [("b", exi_b)] (sizes_of [("i", 2); ("j", 3)]) ["j"] [MDense] [0%nat] (graph_leaves exg_colsum).

Example outside_fragment_instance :
  graph_okb exc_colsum exg_colsum ["j"] = true /\ support_okb exc_colsum exg_colsum = true
  /\ in_fragment exc_colsum exg_colsum = false
  /\ G_out exc_colsum exg_colsum = mkTensor [3] [0%nat] [LDense] [1; 3; 2].
Proof. vm_compute. repeat split. Qed.

(** the stored prefixes of the compressed level 1 of the first example, and their support *)
Example stored_prefixes_instance :
  stored_prefixes (G_out exc_matmul_add exg_matmul_add) 2 = [[0; 0]; [0; 1]; [1; 1]]
  /\ map (fun p => gsupp exc_matmul_add exg_matmul_add (bind_from (fun _ => 0) ["i"; "j"] p))
         [[0; 0]; [0; 1]; [1; 1]; [1; 0]] = [true; true; true; false].
Proof. vm_compute. split; reflexivity. Qed.

(** the hypotheses of [C01G_G_passes_C03_checker]: the index sizes as a Support environment *)
Definition exs_sizes : Support.env := [("i", 2); ("j", 2); ("k", 3)].

Definition exc_matmul_add' : kcfg :=
  mkCfg [("b", exi_b); ("c", exi_c); ("d", exi_d)] (Support.lookup exs_sizes)
        ["i"; "j"] [MDense; MCompressed] [0%nat; 1%nat] (graph_leaves exg_matmul_add).

Example checker_hypotheses_instance :
  (forall k, Support.lookup exs_sizes k = k_sizes exc_matmul_add' k)
  /\ graph_okb exc_matmul_add' exg_matmul_add (tgt_idx exa_matmul_add) = true
  /\ support_okb exc_matmul_add' exg_matmul_add = true
  /\ graph_ok_spec (ordsE exc_matmul_add') Z.eqb exa_matmul_add exg_matmul_add = true
  /\ no_phantomb (tr_assignment exa_matmul_add) (stored_set exc_matmul_add') exs_sizes
                 (G_out exc_matmul_add' exg_matmul_add) = true.
Proof. split; [reflexivity|]. vm_compute. repeat split. Qed.
