(** TIE -- the definitions regenerated from desugar/ast.py and desugar/_desugar_expression.py
    (gen/Desugar.v, over the sugar AST of gen/Deparse.v) compute what the hand model
    model/DesugarSem.v computes with flag [true] (the repaired function, C01).

    - sets are duplicate-free lists on both sides and the generated set operations ARE the
      model's ([set_of_list] = [nodup], [set_inter] = [sinter], [set_diff] = [sdiff]);
    - the iteration order of a set is the oracle [ordg], keyed by the id counter; the model's oracle
      is [fun n => ordg (Z.of_nat n)];
    - the generated functions take fuel (desugar_multiply -> desugar_distributed -> desugar_expression
      on the factors is not structural); [height e + 2] is enough, and then the result is never None;
    - the only property of the oracle that is used: it maps the empty set to the empty list
      (from [Permutation (ordg z l) l]).

    The proofs unfold the generated bodies and align them with the model by conversion
    ([change]) after rewriting the leaf facts, so that renaming variables or reordering
    independent statements in the source does not break them. *)

From Coq Require Import ZArith List Bool String Lia Permutation.
From TV Require Import spec.Num spec.PyBase spec.PyLib spec.Storage spec.Spec proofs.PyLibFacts.
From TV Require gen.Deparse gen.Desugar model.DesugarSem proofs.SpecLemmas proofs.DesugarSemProofs.
Import ListNotations.


Module GD := TV.gen.Deparse.
Module GS := TV.gen.Desugar.
Module MS := TV.model.DesugarSem.

(** * sets as duplicate-free lists: the generated operations are the model's *)
Lemma set_of_list_nodup : forall l, set_of_list String.eqb l = MS.sdedup l.
Proof.
  unfold MS.sdedup. induction l as [|x r IH]; simpl; [reflexivity|].
  rewrite IH. destruct (in_dec string_dec x r) as [i|n].
  - assert (E : py_in String.eqb x r = true).
    { unfold py_in. apply existsb_exists. exists x. split; [exact i | apply String.eqb_refl]. }
    rewrite E. reflexivity.
  - assert (E : py_in String.eqb x r = false).
    { unfold py_in. apply not_true_is_false. intros H. apply existsb_exists in H as [y [Hy E]].
      apply String.eqb_eq in E. subst. contradiction. }
    rewrite E. reflexivity.
Qed.

Lemma py_in_set_of_list : forall x l, py_in String.eqb x (set_of_list String.eqb l) = py_in String.eqb x l.
Proof.
  intros x l. rewrite set_of_list_nodup. unfold MS.sdedup, py_in.
  destruct (existsb (String.eqb x) l) eqn:E.
  - apply existsb_exists in E as [y [Hy E]]. apply existsb_exists. exists y. split; [apply nodup_In; exact Hy | exact E].
  - apply not_true_is_false. intros H. apply existsb_exists in H as [y [Hy E']].
    apply nodup_In in Hy. assert (existsb (String.eqb x) l = true) by (apply existsb_exists; eauto). congruence.
Qed.

Lemma set_inter_model : forall a b, set_inter String.eqb a b = MS.sinter a b.
Proof. reflexivity. Qed.
Lemma set_diff_model : forall a b, set_diff String.eqb a b = MS.sdiff a b.
Proof. reflexivity. Qed.

Section Conv.
Variable R : Type.
Variable fl : F -> R.

Fixpoint convE (e : GD.ex_expr) : expr R :=
  match e with
  | GD.ExInteger z => EInt z
  | GD.ExFloat f => EFloat (fl f)
  | GD.ExTensor n idx => ETensor n idx
  | GD.ExAdd a b => EAdd (convE a) (convE b)
  | GD.ExSubtract a b => ESub (convE a) (convE b)
  | GD.ExMultiply a b => EMul (convE a) (convE b)
  end.

Fixpoint convD (d : GS.de_expr) : MS.dexpr R :=
  match d with
  | GS.DeInteger z => MS.DInt z
  | GS.DeFloat f => MS.DFloat (fl f)
  | GS.DeTensor id n idx => MS.DTensor (Z.to_nat id) n idx
  | GS.DeAdd a b => MS.DAdd (convD a) (convD b)
  | GS.DeMultiply a b => MS.DMul (convD a) (convD b)
  | GS.DeContract k x => MS.DContract k (convD x)
  end.

Definition is_leaf (e : GD.ex_expr) : bool :=
  match e with GD.ExInteger _ | GD.ExFloat _ | GD.ExTensor _ _ => true | _ => false end.

Definition convF (e : GD.ex_expr) : factor R :=
  match e with
  | GD.ExInteger z => FInt z
  | GD.ExFloat f => FFloat (fl f)
  | GD.ExTensor n idx => FTensor n idx
  | _ => FInt 0
  end.

Definition convM (m : bool * list GD.ex_expr) : monomial R := (fst m, map convF (snd m)).

Lemma index_names_model : forall e, GS.index_names e = expr_idx (convE e).
Proof. induction e; simpl; try reflexivity; rewrite IHe1, IHe2; reflexivity. Qed.

Lemma carried_model : forall e k, GS.carried_by_every_term e k = MS.carried (convE e) k.
Proof. induction e; intros k; simpl; try reflexivity; rewrite IHe1, IHe2; reflexivity. Qed.

Lemma xorb_eqb : forall a b, negb (Bool.eqb a b) = xorb a b.
Proof. destruct a, b; reflexivity. Qed.

Lemma additive_terms_model : forall e,
  map convM (GS.additive_terms e) = monomials (convE e)
  /\ Forall (fun m => Forall (fun f => is_leaf f = true) (snd m)) (GS.additive_terms e).
Proof.
  induction e; cbn [GS.additive_terms convE monomials].
  - split; [reflexivity | repeat constructor].
  - split; [reflexivity | repeat constructor].
  - split; [reflexivity | repeat constructor].
  - destruct IHe1 as [A1 B1], IHe2 as [A2 B2]. split.
    + rewrite map_app, A1, A2. reflexivity.
    + apply Forall_app; split; assumption.
  - destruct IHe1 as [A1 B1], IHe2 as [A2 B2]. split.
    + rewrite map_app, A1, <- A2, !map_map. f_equal. apply map_ext. intros [n fs]. reflexivity.
    + apply Forall_app; split; [assumption|].
      apply Forall_forall. intros m Hm. apply in_map_iff in Hm as [[n fs] [<- Hin]].
      rewrite Forall_forall in B2. apply (B2 _ Hin).
  - destruct IHe1 as [A1 B1], IHe2 as [A2 B2]. split.
    + rewrite <- A1, <- A2. unfold mprod.
      generalize (GS.additive_terms e2) as l2. generalize (GS.additive_terms e1) as l1.
      induction l1 as [|[n1 f1] l1 IH]; intros l2; simpl; [reflexivity|].
      rewrite map_app, IH. f_equal. rewrite !map_map. apply map_ext. intros [n2 f2].
      unfold convM, mmul. simpl. rewrite xorb_eqb, map_app. reflexivity.
    + apply Forall_forall. intros m Hm. apply in_flat_map in Hm as [[n1 f1] [H1 Hm]].
      apply in_map_iff in Hm as [[n2 f2] [<- H2]]. simpl.
      rewrite Forall_forall in B1, B2. apply Forall_app. split; [apply (B1 _ H1) | apply (B2 _ H2)].
Qed.
End Conv.


Section Main.
Variable R : Type.
Variable fl : F -> R.
Variable ordg : Z -> list string -> list string.
Hypothesis ordg_perm : forall z l, Permutation (ordg z l) l.

Definition ordm : nat -> list string -> list string := fun n l => ordg (Z.of_nat n) l.

Notation cE := (convE R fl).
Notation cD := (convD R fl).
Notation cF := (convF R fl).
Notation cM := (convM R fl).

Lemma ordg_nil : forall z, ordg z [] = [].
Proof. intros z. apply Permutation_nil. apply Permutation_sym, ordg_perm. Qed.

Lemma wrap_model : forall ks out,
  cD (fold_left (fun output index => GS.DeContract index output) ks out) = MS.wrap ks (cD out).
Proof. unfold MS.wrap. induction ks as [|k r IH]; intros out; simpl; [reflexivity | apply IH]. Qed.

Lemma fold_mul_model : forall ds d,
  cD (fold_left GS.DeMultiply ds d) = fold_left (@MS.DMul R) (map cD ds) (cD d).
Proof. induction ds as [|x r IH]; intros d; simpl; [reflexivity | apply IH]. Qed.

Definition convP (o : option (GS.de_expr * Z)) : option (MS.dexpr R * Z) :=
  option_map (fun p => (cD (fst p), snd p)) o.
Definition lift (p : MS.dexpr R * nat) : option (MS.dexpr R * Z) := Some (fst p, Z.of_nat (snd p)).

Lemma desugar_expression_S : forall f,
  GS.desugar_expression ordg (S f)
  = GS.desugar_expression_body ordg (GS.desugar_expression ordg f) (GS.desugar_distributed ordg f).
Proof. reflexivity. Qed.
Lemma desugar_distributed_S : forall f,
  GS.desugar_distributed ordg (S f)
  = GS.desugar_distributed_body ordg (GS.desugar_expression ordg f) (GS.desugar_distributed ordg f).
Proof. reflexivity. Qed.

(** a leaf, desugared with nothing to contract *)
Lemma leaf_model : forall f x n, is_leaf x = true ->
  exists d n', GS.desugar_expression ordg (S f) x nil (Z.of_nat n) = Some (d, Z.of_nat n')
               /\ MS.desugar_leaf (cF x) n = (cD d, n').
Proof.
  intros f x n L. rewrite desugar_expression_S. destruct x; try discriminate; unfold GS.desugar_expression_body.
  - eexists _, n. split; reflexivity.
  - eexists _, n. split; reflexivity.
  - rewrite ordg_nil. cbn [fold_left]. eexists _, (S n). split.
    + rewrite Nat2Z.inj_succ. unfold Z.succ. reflexivity.
    + cbn. rewrite Nat2Z.id. reflexivity.
Qed.

Lemma leaves_model : forall f (g : GD.ex_expr -> Z -> option (GS.de_expr * Z)),
  (forall x z, g x z = GS.desugar_expression ordg (S f) x nil z) ->
  forall fs n, Forall (fun x => is_leaf x = true) fs ->
  exists ds n', omap_st g fs (Z.of_nat n) = Some (ds, Z.of_nat n')
                /\ forall acc, MS.desugar_factors (map cF fs) acc n = (fold_left (@MS.DMul R) (map cD ds) acc, n').
Proof.
  intros f g Hg. induction fs as [|x r IH]; intros n L.
  - exists [], n. split; reflexivity.
  - inversion L as [|? ? Lx Lr]; subst.
    destruct (leaf_model f x n Lx) as [d [n0 [E1 E2]]].
    destruct (IH n0 Lr) as [ds [n1 [E3 E4]]].
    exists (d :: ds), n1. split.
    + cbn [omap_st]. rewrite Hg, E1, E3. reflexivity.
    + intros acc. cbn [map MS.desugar_factors]. rewrite E2. apply E4.
Qed.

Lemma mono_leaves : forall f (g : GD.ex_expr -> Z -> option (GS.de_expr * Z)),
  (forall x z, g x z = GS.desugar_expression ordg (S f) x nil z) ->
  forall x r n, is_leaf x = true -> Forall (fun x => is_leaf x = true) r ->
  exists d0 ds n0 n', omap_st g (x :: r) (Z.of_nat n) = Some (d0 :: ds, Z.of_nat n')
    /\ MS.desugar_leaf (cF x) n = (cD d0, n0)
    /\ MS.desugar_factors (map cF r) (cD d0) n0 = (fold_left (@MS.DMul R) (map cD ds) (cD d0), n').
Proof.
  intros f g Hg x r n Lx Lr.
  destruct (leaf_model f x n Lx) as [d [n0 [E1 E2]]].
  destruct (leaves_model f g Hg r n0 Lr) as [ds [n1 [E3 E4]]].
  exists d, ds, n0, n1. split; [|split].
  - cbn [omap_st]. rewrite Hg, E1, E3. reflexivity.
  - exact E2.
  - apply E4.
Qed.

Lemma leaves_idx : forall fs, Forall (fun x => is_leaf x = true) fs ->
  List.concat (map GS.index_names fs) = flat_map factor_idx (map cF fs).
Proof.
  induction fs as [|x r IH]; intros L; [reflexivity|].
  inversion L as [|? ? Lx Lr]; subst. simpl. rewrite (IH Lr). f_equal.
  destruct x; try discriminate; reflexivity.
Qed.
End Main.


Section Main.
Variable R : Type.
Variable fl : F -> R.
Variable ordg : Z -> list string -> list string.
Hypothesis ordg_perm : forall z l, Permutation (ordg z l) l.

Notation cE := (convE R fl).
Notation cD := (convD R fl).
Notation cF := (convF R fl).
Notation cM := (convM R fl).
Notation om := (ordm ordg).

Definition leaves (fs : list GD.ex_expr) : Prop := Forall (fun x => is_leaf x = true) fs.

(** desugar_distributed: the loop over the additive terms *)
Lemma distributed_model : forall f e K n,
  exists d n', GS.desugar_distributed ordg (S (S f)) e K (Z.of_nat n) = Some (d, Z.of_nat n')
    /\ MS.desugar_terms om K (monomials (cE e)) n = (cD d, n').
Proof.
  intros f e K n. rewrite desugar_distributed_S. unfold GS.desugar_distributed_body.
  destruct (additive_terms_model R fl e) as [A B]. rewrite <- A.
  assert (NE : Forall (fun m : bool * list GD.ex_expr => snd m <> []) (GS.additive_terms e)).
  { apply Forall_forall. intros m Hm.
    pose proof (TV.proofs.SpecLemmas.monomial_factors_nonempty (cE e) (cM m)) as H.
    rewrite <- A in H. specialize (H (in_map _ _ _ Hm)). destruct m as [b [|x r]]; [exfalso; apply H; reflexivity | discriminate]. }
  match goal with |- context [ofold ?F _ _] => set (step := F) end.
  assert (Hstep : forall out n neg fs, fs <> [] -> leaves fs ->
            exists t n', step (out, Z.of_nat n) (neg, fs)
                         = Some (Some (match out with None => t | Some o => GS.DeAdd o t end), Z.of_nat n')
                         /\ MS.desugar_mono om K (cM (neg, fs)) n = (cD t, n')).
  { intros out n0 neg fs Hne Hl. destruct fs as [|x r]; [contradiction|].
    inversion Hl as [|? ? Lx Lr]; subst.
    unfold step. cbv beta iota.
    match goal with |- context [omap_st ?g _ _] =>
      destruct (mono_leaves R fl ordg ordg_perm f g) with (x := x) (r := r) (n := n0) as [d0 [ds [m0 [n1 [E1 [E2 E3]]]]]];
        [intros y z; cbv beta zeta; destruct (GS.desugar_expression ordg (S f) y [] z) as [[? ?]|]; reflexivity
        | exact Lx | exact Lr |]
    end.
    rewrite E1. cbn [py_reduce]. eexists _, n1. split; [reflexivity|].
    unfold MS.desugar_mono, convM. cbn [fst snd map]. rewrite E2, E3.
    change (GS.index_names x :: map (fun factor : GD.ex_expr => GS.index_names factor) r)
      with (map GS.index_names (x :: r)).
    rewrite (leaves_idx R fl (x :: r) Hl), set_of_list_nodup.
    unfold midx, ordm. cbn [snd map].
    destruct neg; cbn [convD]; rewrite (wrap_model R fl), (fold_mul_model R fl); reflexivity. }
  clearbody step.
  assert (Haux : forall l acc n0,
            Forall (fun m : bool * list GD.ex_expr => snd m <> []) l ->
            Forall (fun m : bool * list GD.ex_expr => leaves (snd m)) l ->
            exists d n', ofold step l (Some acc, Z.of_nat n0) = Some (Some d, Z.of_nat n')
                         /\ MS.desugar_terms_aux om K (map cM l) (cD acc) n0 = (cD d, n')).
  { induction l as [|[neg fs] l IH]; intros acc n0 H1 H2.
    - exists acc, n0. split; reflexivity.
    - inversion H1 as [|? ? H1a H1b]; inversion H2 as [|? ? H2a H2b]; subst.
      destruct (Hstep (Some acc) n0 neg fs H1a H2a) as [t [n1 [S1 S2]]].
      destruct (IH (GS.DeAdd acc t) n1 H1b H2b) as [d [n2 [S3 S4]]].
      exists d, n2. split.
      + cbn [ofold]. rewrite S1. exact S3.
      + cbn [map MS.desugar_terms_aux]. rewrite S2. exact S4. }
  destruct (GS.additive_terms e) as [|[neg fs] l] eqn:El.
  - exfalso. apply (TV.proofs.SpecLemmas.monomials_nonempty (cE e)). rewrite <- A. reflexivity.
  - inversion NE as [|? ? N1 N2]; inversion B as [|? ? B1 B2]; subst.
    destruct (Hstep None n neg fs N1 B1) as [t [n1 [S1 S2]]].
    destruct (Haux l t n1 N2 B2) as [d [n2 [S3 S4]]].
    exists d, n2. split.
    + cbn [ofold]. rewrite S1, S3. reflexivity.
    + cbn [map MS.desugar_terms]. rewrite S2. exact S4.
Qed.
End Main.


Section Main.
Variable R : Type.
Variable fl : F -> R.
Variable ordg : Z -> list string -> list string.
Hypothesis ordg_perm : forall z l, Permutation (ordg z l) l.

Notation cE := (convE R fl).
Notation cD := (convD R fl).
Notation om := (ordm ordg).

Fixpoint height (e : GD.ex_expr) : nat :=
  match e with
  | GD.ExAdd a b | GD.ExSubtract a b | GD.ExMultiply a b => S (Nat.max (height a) (height b))
  | _ => 1
  end.

Lemma filter_and_model : forall e1 e2 l,
  filter (fun index => GS.carried_by_every_term e1 index && GS.carried_by_every_term e2 index) l
  = filter (fun k => MS.carried (cE e1) k && MS.carried (cE e2) k) l.
Proof. intros. apply filter_ext. intros k. rewrite !(carried_model R fl). reflexivity. Qed.

Lemma forallb_or_model : forall e1 e2 l,
  forallb (fun index => GS.carried_by_every_term e1 index || GS.carried_by_every_term e2 index) l
  = forallb (fun k => MS.carried (cE e1) k || MS.carried (cE e2) k) l.
Proof.
  intros. induction l as [|k l IH]; simpl; [reflexivity|]. rewrite IH, !(carried_model R fl). reflexivity.
Qed.

Ltac binary_arm :=
  rewrite ?filter_and_model, ?(index_names_model R fl), ?set_of_list_nodup;
  match goal with IH1 : context [GS.desugar_expression ordg _ ?e1], IH2 : context [GS.desugar_expression ordg _ ?e2],
                  Hf : (_ <= S ?f)%nat |- context [GS.desugar_expression ordg ?f ?e1 ?KG (Z.of_nat ?n)] =>
    match goal with |- context [MS.desugar om true (cE e1) ?KK n] =>
      change KG with KK;
      let d1 := fresh "d" in let n1 := fresh "n" in let G1 := fresh "G" in let M1 := fresh "M" in
      destruct (IH1 f KK n ltac:(simpl in Hf; lia)) as [d1 [n1 [G1 M1]]]; rewrite G1, M1;
      match goal with |- context [GS.desugar_expression ordg f e2 ?KG2 (Z.of_nat n1)] =>
        match goal with |- context [MS.desugar om true (cE e2) ?KK2 n1] =>
          change KG2 with KK2;
          let d2 := fresh "d" in let n2 := fresh "n" in let G2 := fresh "G" in let M2 := fresh "M" in
          destruct (IH2 f KK2 n1 ltac:(simpl in Hf; lia)) as [d2 [n2 [G2 M2]]]; rewrite G2, M2;
          eexists _, n2; split; [reflexivity | rewrite (wrap_model R fl); reflexivity]
        end
      end
    end
  end.

Theorem gen_desugar_equiv : forall e fuel K n, (height e + 2 <= fuel)%nat ->
  exists d n', GS.desugar_expression ordg fuel e K (Z.of_nat n) = Some (d, Z.of_nat n')
               /\ MS.desugar om true (cE e) K n = (cD d, n').
Proof.
  induction e; intros fuel K n Hf; (destruct fuel as [|f]; [simpl in Hf; lia|]);
    rewrite (desugar_expression_S ordg); unfold GS.desugar_expression_body; cbn [convE MS.desugar height] in *.
  - eexists _, n. split; reflexivity.
  - eexists _, n. split; reflexivity.
  - eexists _, (S n). split.
    + rewrite Nat2Z.inj_succ. unfold Z.succ. reflexivity.
    + rewrite (wrap_model R fl). cbn [convD]. rewrite Nat2Z.id. reflexivity.
  - binary_arm.
  - binary_arm.
  - rewrite !forallb_or_model, !(index_names_model R fl), !set_of_list_nodup. cbn [andb].
    match goal with |- context [negb (forallb ?p ?l)] => destruct (negb (forallb p l)) eqn:C end.
    + (* the product is distributed first *)
      destruct f as [|[|f]]; [simpl in Hf; lia | simpl in Hf; lia |].
      destruct (distributed_model R fl ordg ordg_perm f (GD.ExMultiply e1 e2) K n) as [d [n' [G M]]].
      rewrite G. exists d, n'. split; [reflexivity|].
      match type of C with ?lhs = _ =>
        match goal with |- (if ?c then _ else _) = _ => change c with lhs end end.
      rewrite C. cbn [convE] in M. exact M.
    + match type of C with ?lhs = _ =>
        match goal with |- context [if ?c then MS.desugar_terms _ _ _ _ else _] => change c with lhs end end.
      rewrite C. binary_arm.
Qed.
End Main.


Section Main.
Variable R : Type.
Variable fl : F -> R.
Variable ordg : Z -> list string -> list string.
Hypothesis ordg_perm : forall z l, Permutation (ordg z l) l.

Notation cE := (convE R fl).
Notation cD := (convD R fl).
Notation om := (ordm ordg).

Lemma sdiff_set_of_list : forall a b, set_diff String.eqb a (set_of_list String.eqb b) = MS.sdiff a b.
Proof.
  intros a b. unfold set_diff, MS.sdiff. apply filter_ext. intros k. rewrite py_in_set_of_list. reflexivity.
Qed.

Theorem gen_desugar_assignment_equiv : forall tn tidx e fuel, (height e + 2 <= fuel)%nat ->
  exists d, GS.desugar_assignment ordg fuel (GD.ExAssignment (GD.ExTensor tn tidx) e)
            = Some (GS.DeAssignment (GS.DeTensor 0 tn tidx) d)
            /\ MS.desugar_assignment om true (mkAssign tn tidx (cE e)) = (MS.DTensor 0 tn tidx, cD d).
Proof.
  intros tn tidx e fuel Hf. unfold GS.desugar_assignment, MS.desugar_assignment, MS.desugar_rhs, MS.contract_indexes.
  cbn [GD.ex_assignment_target GD.ex_assignment_expression tgt_name tgt_idx rhs GS.assignment_index_names GS.index_names].
  unfold GS.assignment_index_names. cbn [GD.ex_assignment_target GD.ex_assignment_expression GS.index_names]. rewrite (index_names_model R fl), set_of_list_nodup, sdiff_set_of_list.
  destruct (gen_desugar_equiv R fl ordg ordg_perm e fuel
              (MS.sdiff (MS.sdedup (tidx ++ expr_idx (cE e))) tidx) 1 Hf) as [d [n' [G M]]].
  change (Z.of_nat 1) with (0 + 1)%Z in G. rewrite G. exists d. split; [reflexivity|]. rewrite M. reflexivity.
Qed.
End Main.

(** C01_desugar_correct, about the regenerated function: what it returns denotes the
    specification, for every iteration order of the sets *)
Theorem gen_desugar_correct :
  forall (O : ringops), ring_ok O ->
  forall (fl : F -> O) (E : env O) (sizes : string -> Z) (ordg : Z -> list string -> list string),
    (forall z l, Permutation (ordg z l) l) ->
  forall tn tidx e fuel (c : list Z), (height e + 2 <= fuel)%nat ->
  exists d, GS.desugar_assignment ordg fuel (GD.ExAssignment (GD.ExTensor tn tidx) e)
            = Some (GS.DeAssignment (GS.DeTensor 0 tn tidx) d)
            /\ MS.denote_at tidx E sizes (convD O fl d) c = spec (mkAssign tn tidx (convE O fl e)) E sizes c.
Proof.
  intros O HO fl E sizes ordg Hp tn tidx e fuel c Hf.
  destruct (gen_desugar_assignment_equiv O fl ordg Hp tn tidx e fuel Hf) as [d [G M]].
  exists d. split; [exact G|].
  pose proof (TV.proofs.DesugarSemProofs.desugar_fixed_correct O HO E sizes (ordm ordg)
                (fun n l => Hp (Z.of_nat n) l) (mkAssign tn tidx (convE O fl e)) c) as Cc.
  unfold MS.desugar_assignment in M. cbn [tgt_idx] in Cc.
  replace (convD O fl d) with (MS.desugar_rhs (ordm ordg) true (mkAssign tn tidx (convE O fl e))) by congruence.
  exact Cc.
Qed.
