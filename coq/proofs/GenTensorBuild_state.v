(** TIE "tensorbuild", accessors and pickling: the regenerated Tensor.taco_indices / taco_vals /
    __getstate__ / __setstate__ / to_format (tensor.py) on a well-formed stored tensor. *)
From Coq Require Import ZArith List Bool Lia.
From TV Require Import spec.PyBase spec.PyLib spec.Storage model.TensorBuild model.TensorBuildPy
  proofs.StorageLemmas proofs.TensorBuildLemmas proofs.TensorBuildTop proofs.TensorBuildMore proofs.TensorBuildMain
  proofs.PyLibFacts proofs.GenTensorBuild_lib
  proofs.GenTensorBuild_tree proofs.GenTensorBuild_emit proofs.GenTensorBuild_build proofs.GenTensorBuild_items
  proofs.GenTensorBuild_validate.
From TV Require gen.TensorBuildGen.
Module G := TensorBuildGen.
Import ListNotations.
Open Scope Z_scope.

(** ** a loop over range(order) that reads level i of every per-level list = a structural walk *)
Fixpoint run {St} (stp : level -> Z -> St -> R St) (lvr : list (level * Z)) (s : St) : R St :=
  match lvr with
  | [] => Val s
  | (l, d) :: r => rbind (stp l d s) (run stp r)
  end.

Lemma loop_run {St} (F : St -> Z -> R St) (all : list (level * Z)) (stp : level -> Z -> St -> R St) :
  (forall pre l d post s, all = pre ++ (l, d) :: post -> F s (Z.of_nat (length pre)) = stp l d s) ->
  forall lvr pre s, all = pre ++ lvr ->
  rfold F (map Z.of_nat (seq (length pre) (length lvr))) s = run stp lvr s.
Proof.
  intros HF. induction lvr as [|[l d] lvr IH]; intros pre s Hall; [reflexivity|].
  cbn [length seq map rfold run]. rewrite (HF pre l d lvr s Hall).
  assert (Hall' : all = (pre ++ [(l, d)]) ++ lvr) by (now rewrite <- app_assoc).
  specialize (IH (pre ++ [(l, d)])). rewrite app_length in IH. cbn [length] in IH.
  replace (length pre + 1)%nat with (S (length pre)) in IH by lia.
  destruct (stp l d s); cbn [rbind]; auto.
Qed.

(** what position |pre| of the per-level lists of [t] holds *)
Lemma level_facts (t : tensor Z) pre l d post :
  length (levels t) = length (ordering t) -> length (dims t) = length (ordering t) ->
  (forall x, In x (ordering t) -> (x < length (dims t))%nat) ->
  combine (levels t) (level_dims t) = pre ++ (l, d) :: post ->
  levels t = map fst pre ++ l :: map fst post
  /\ exists o, r_getitem (map Z.of_nat (ordering t)) (Z.of_nat (length pre)) = Val (Z.of_nat o)
            /\ r_getitem (dims t) (Z.of_nat o) = Val d.
Proof.
  intros Hs Hdo Hr Hall.
  assert (Hll : length (levels t) = length (level_dims t)) by (unfold level_dims; rewrite map_length; lia).
  assert (Hlv : levels t = map fst pre ++ l :: map fst post).
  { rewrite <- (combine_map_fst (levels t) (level_dims t) Hll). rewrite Hall, map_app. reflexivity. }
  assert (Hld : level_dims t = map snd pre ++ d :: map snd post).
  { rewrite <- (combine_map_snd (levels t) (level_dims t) Hll). rewrite Hall, map_app. reflexivity. }
  split; [assumption|].
  assert (Hlt : (length pre < length (ordering t))%nat).
  { rewrite <- Hs, Hlv, app_length, map_length. cbn [length]. lia. }
  set (o := nth (length pre) (ordering t) O). exists o. split.
  - rewrite r_getitem_nat, nth_error_map.
    destruct (nth_error (ordering t) (length pre)) eqn:E; [|apply nth_error_None in E; lia].
    cbn. f_equal. f_equal. unfold o. symmetry. now apply nth_error_nth.
  - rewrite r_getitem_nat.
    assert (Hol : (o < length (dims t))%nat) by (apply Hr, nth_In; assumption).
    destruct (nth_error (dims t) o) eqn:E; [|apply nth_error_None in E; lia].
    cbn. f_equal. apply (nth_error_nth _ _ 0) in E.
    assert (Hd : nth (length pre) (level_dims t) 0 = d).
    { rewrite Hld, app_nth2, map_length, Nat.sub_diag by (rewrite map_length; lia). reflexivity. }
    rewrite <- Hd. unfold level_dims. rewrite (nth_map_lt _ _ _ 0 O) by assumption. fold o. now rewrite E.
Qed.

Lemma indices_of_app a l b : indices_of (a ++ l :: b) = indices_of a ++ indices_of [l] ++ indices_of b.
Proof. unfold indices_of. now rewrite map_app. Qed.

Lemma indices_of_length a : length (indices_of a) = length a.
Proof. unfold indices_of. now rewrite map_length. Qed.

(** ** C slices *)
Lemma c_slice_all {A} (xs : list A) n : n = zlen xs -> c_slice xs 0 n = Val xs.
Proof.
  intros ->. unfold c_slice, zlen. cbn [Z.leb Z.compare andb].
  replace (0 <=? Z.of_nat (length xs)) with true by (symmetry; apply Z.leb_le; lia).
  rewrite Z.leb_refl. cbn [andb skipn Z.to_nat]. rewrite Z.sub_0_r, Nat2Z.id, firstn_all. reflexivity.
Qed.

Lemma c_slice_firstn {A} (xs : list A) n : 0 <= n <= zlen xs -> c_slice xs 0 n = Val (firstnZ n xs).
Proof.
  intros H. unfold c_slice, zlen, firstnZ in *. cbn [Z.leb Z.compare andb].
  replace (0 <=? n) with true by (symmetry; apply Z.leb_le; lia).
  replace (n <=? Z.of_nat (length xs)) with true by (symmetry; apply Z.leb_le; lia).
  cbn [andb skipn Z.to_nat]. now rewrite Z.sub_0_r.
Qed.

(** ** taco_indices / taco_vals along the levels *)
Definition stp_indices (l : level) (d : Z) (s : list (list (list Z)) * Z) : R (list (list (list Z)) * Z) :=
  let '(ix, nnz) := s in
  match l with
  | LDense => Val (ix ++ [[]], nnz * d)
  | LCompressed pos crd =>
      rbind (c_slice pos 0 (nnz + 1)) (fun p => rbind (r_getitem p (-1)) (fun e =>
      rbind (c_slice crd 0 e) (fun c => Val (ix ++ [[p; c]], Z.of_nat (length c)))))
  end.

Definition stp_nnz (l : level) (d : Z) (nnz : Z) : R Z :=
  match l with
  | LDense => Val (nnz * d)
  | LCompressed pos crd => c_getitem pos nnz
  end.

Lemma wf_compressed_last n d pos crd :
  wf_compressedb n d pos crd = true -> 0 <= n ->
  zlen pos = n + 1 /\ pos <> [] /\ last pos (-1) = zlen crd /\ nthZ 0 pos n = zlen crd.
Proof.
  intros H Hn. unfold wf_compressedb in H.
  repeat (apply andb_true_iff in H; destruct H as [H ?]).
  apply Z.eqb_eq in H.
  match goal with X : (nthZ (-1) pos n =? zlen crd) = true |- _ => apply Z.eqb_eq in X; rename X into En end.
  assert (Hne : pos <> []) by (intros ->; unfold zlen in H; cbn in H; lia).
  unfold zlen in *. rewrite nthZ_nonneg in * by lia.
  repeat split; try assumption.
  - rewrite last_nth. replace (length pos - 1)%nat with (Z.to_nat n) by lia. assumption.
  - rewrite (nth_indep pos 0 (-1)) by lia. assumption.
Qed.

Lemma run_indices lvr : forall n k ix, wf_levelsb lvr n = Some k -> 0 <= n ->
  run stp_indices lvr (ix, n) = Val (ix ++ indices_of (map fst lvr), k).
Proof.
  induction lvr as [|[l d] lvr IH]; intros n k ix Hwf Hn; cbn [run wf_levelsb map fst] in *.
  - inversion Hwf. cbn. now rewrite app_nil_r.
  - destruct l as [|pos crd]; cbn [stp_indices].
    + destruct (0 <=? d) eqn:Hd; [|discriminate]. apply Z.leb_le in Hd. cbn [rbind].
      rewrite (IH (n * d) k) by (assumption || nia).
      change (indices_of (LDense :: map fst lvr)) with ([] :: indices_of (map fst lvr)).
      now rewrite <- app_assoc.
    + destruct (wf_compressedb n d pos crd) eqn:Hc; [|discriminate].
      destruct (wf_compressed_last n d pos crd Hc Hn) as (Hl & Hne & Hlast & _).
      rewrite (c_slice_all pos) by lia. cbn [rbind].
      rewrite (r_getitem_m1 pos (-1) Hne). cbn [rbind]. rewrite Hlast, (c_slice_all crd) by reflexivity.
      cbn [rbind]. fold (zlen crd). rewrite (IH (zlen crd) k) by (assumption || apply zlen_nonneg).
      change (indices_of (LCompressed pos crd :: map fst lvr)) with ([pos; crd] :: indices_of (map fst lvr)).
      now rewrite <- app_assoc.
Qed.

Lemma run_nnz lvr : forall n k, wf_levelsb lvr n = Some k -> 0 <= n -> run stp_nnz lvr n = Val k /\ 0 <= k.
Proof.
  induction lvr as [|[l d] lvr IH]; intros n k Hwf Hn; cbn [run wf_levelsb] in *.
  - inversion Hwf; subst. split; [reflexivity|assumption].
  - destruct l as [|pos crd]; cbn [stp_nnz].
    + destruct (0 <=? d) eqn:Hd; [|discriminate]. apply Z.leb_le in Hd. cbn [rbind]. apply IH; [assumption|nia].
    + destruct (wf_compressedb n d pos crd) eqn:Hc; [|discriminate].
      destruct (wf_compressed_last n d pos crd Hc Hn) as (Hl & _ & _ & Hnth).
      rewrite (c_getitem_nthZ 0) by lia. cbn [rbind]. rewrite Hnth. apply IH; [assumption|apply zlen_nonneg].
Qed.

Section Accessors.
Variable strict : bool.
Variable t : tensor Z.
Hypothesis Hwf : wf_tensorb strict t = true.

Let all := combine (levels t) (level_dims t).

Lemma wf_parts :
  length (dims t) = length (ordering t) /\ length (levels t) = length (ordering t)
  /\ is_permb (ordering t) = true
  /\ (forall x, In x (ordering t) -> (x < length (dims t))%nat)
  /\ exists k, wf_levelsb all 1 = Some k /\ k <= zlen (vals t) /\ (strict = true -> zlen (vals t) = k).
Proof.
  destruct (wf_tensorb_shape strict t Hwf) as (Hd & Hl & Hp & _).
  repeat split; try assumption.
  - intros x Hx. apply (is_permb_In _ Hp) in Hx. lia.
  - pose proof Hwf as H. unfold wf_tensorb in H. apply andb_true_iff in H. destruct H as [_ H].
    fold all in H. destruct (wf_levelsb all 1) as [k|]; [|discriminate]. exists k. split; [reflexivity|].
    destruct strict; [apply Z.eqb_eq in H|apply Z.leb_le in H]; split; try lia; intros; try lia; discriminate.
Qed.

Lemma all_length : length all = length (levels t).
Proof.
  destruct wf_parts as (Hd & Hl & _). unfold all, level_dims. rewrite combine_length, map_length. lia.
Qed.

Theorem gen_taco_indices_ok :
  G.taco_indices Z 0 Z.add Z.eqb (Z.of_nat (length (ordering t))) (dims t) (map gmode (levels t))
    (map Z.of_nat (ordering t)) (indices_of (levels t))
  = Val (indices_of (levels t)).
Proof.
  destruct wf_parts as (Hd & Hl & Hp & Hr & k & Hk & _).
  unfold G.taco_indices. cbv zeta.
  match goal with |- context [rfold ?f _ _] => set (F := f) end.
  assert (HF : forall pre l d post s, all = pre ++ (l, d) :: post -> F s (Z.of_nat (length pre)) = stp_indices l d s).
  { intros pre l d post [ix nnz] Hall.
    destruct (level_facts t pre l d post Hl Hd Hr Hall) as (Hlv & o & Ho & Hod).
    assert (Hmp : length (map gmode (map fst pre)) = length pre) by (now rewrite !map_length).
    assert (Hip : length (indices_of (map fst pre)) = length pre) by (now rewrite indices_of_length, map_length).
    unfold F. cbv beta iota. rewrite Hlv, indices_of_app, map_app. cbn [map].
    rewrite !(r_getitem_at (map gmode (map fst pre)) _ _ _ Hmp). cbn [rbind].
    destruct l as [|pos crd]; cbn [gmode mode_of_level gm G.Mode_eqb stp_indices].
    - rewrite Ho. cbn [rbind]. rewrite Hod. reflexivity.
    - change (indices_of [LCompressed pos crd]) with [[pos; crd]]. cbn [app].
      rewrite !(c_getitem_at (indices_of (map fst pre)) _ _ _ Hip). cbn [rbind].
      rewrite c_getitem_2_0, c_getitem_2_1. cbn [rbind]. reflexivity. }
  rewrite <- Hl, <- all_length, zrange_of_nat.
  rewrite (loop_run F all stp_indices HF all [] _ eq_refl).
  rewrite (run_indices all 1 k [] Hk) by lia. cbn [rbind app].
  unfold all. rewrite combine_map_fst; [reflexivity|]. unfold level_dims. rewrite map_length. lia.
Qed.

Theorem gen_taco_vals_ok :
  G.taco_vals Z 0 Z.add Z.eqb (Z.of_nat (length (ordering t))) (dims t) (map gmode (levels t))
    (map Z.of_nat (ordering t)) (indices_of (levels t)) (vals t)
  = Val (if strict then vals t else firstnZ (match wf_levelsb all 1 with Some k => k | None => 0 end) (vals t)).
Proof.
  destruct wf_parts as (Hd & Hl & Hp & Hr & k & Hk & Hkv & Hks).
  unfold G.taco_vals. cbv zeta.
  match goal with |- context [rfold ?f _ _] => set (F := f) end.
  assert (HF : forall pre l d post s, all = pre ++ (l, d) :: post -> F s (Z.of_nat (length pre)) = stp_nnz l d s).
  { intros pre l d post nnz Hall.
    destruct (level_facts t pre l d post Hl Hd Hr Hall) as (Hlv & o & Ho & Hod).
    assert (Hmp : length (map gmode (map fst pre)) = length pre) by (now rewrite !map_length).
    assert (Hip : length (indices_of (map fst pre)) = length pre) by (now rewrite indices_of_length, map_length).
    unfold F. cbv beta. rewrite Hlv, indices_of_app, map_app. cbn [map].
    rewrite !(r_getitem_at (map gmode (map fst pre)) _ _ _ Hmp). cbn [rbind].
    destruct l as [|pos crd]; cbn [gmode mode_of_level gm G.Mode_eqb stp_nnz].
    - rewrite Ho. cbn [rbind]. rewrite Hod. reflexivity.
    - change (indices_of [LCompressed pos crd]) with [[pos; crd]]. cbn [app].
      rewrite !(c_getitem_at (indices_of (map fst pre)) _ _ _ Hip). cbn [rbind].
      rewrite c_getitem_2_0. cbn [rbind]. apply rbind_Val_r. }
  rewrite <- Hl, <- all_length, zrange_of_nat.
  rewrite (loop_run F all stp_nnz HF all [] _ eq_refl).
  destruct (run_nnz all 1 k Hk ltac:(lia)) as [E Hk0]. rewrite E. cbn [rbind]. rewrite Hk.
  destruct strict.
  - apply c_slice_all. symmetry. now apply Hks.
  - apply c_slice_firstn. lia.
Qed.
End Accessors.

(** ** pickling *)
Definition state_of (t : tensor Z) : list Z * list Z * list Z * list (list (list Z)) * list Z :=
  (dims t, map cint (levels t), map Z.of_nat (ordering t), indices_of (levels t), vals t).

Lemma perm_distinct_range ord : is_permb ord = true -> all_distinct_range ord (length ord) = true.
Proof.
  intros Hp. unfold all_distinct_range. apply andb_true_iff. split; apply forallb_forall.
  - intros k Hk. apply in_seq in Hk. apply existsb_exists. exists k. split; [|apply Nat.eqb_refl].
    apply (is_permb_In _ Hp). lia.
  - intros x Hx. apply Nat.ltb_lt. now apply (is_permb_In _ Hp).
Qed.

Lemma format_new_ok ms ord :
  length ms = length ord -> is_permb ord = true ->
  G.Format_new Z 0 Z.add Z.eqb ms (map Z.of_nat ord) = Val (G.mkFormat ms (map Z.of_nat ord)).
Proof.
  intros Hl Hp. unfold G.Format_new, G.__post_init__.
  rewrite Hl, zset_distinct_range, perm_distinct_range by assumption. reflexivity.
Qed.

Theorem gen_getstate_ok (t : tensor Z) :
  wf_tensorb true t = true ->
  G.__getstate__ Z 0 Z.add Z.eqb (Z.of_nat (length (ordering t))) (map gmode (levels t)) (dims t)
    (map Z.of_nat (ordering t)) (indices_of (levels t)) (vals t)
  = Val (state_of t).
Proof.
  intros Hwf. destruct (wf_tensorb_shape true t Hwf) as (Hd & Hl & Hp & _).
  unfold G.__getstate__.
  rewrite format_new_ok by (rewrite ?map_length; assumption). cbn [rbind].
  rewrite (gen_taco_indices_ok true t Hwf). cbn [rbind].
  rewrite (gen_taco_vals_ok true t Hwf). cbn [rbind G.Format_modes G.Format_ordering].
  unfold state_of, cint. now rewrite map_map.
Qed.

Theorem gen_setstate_ok (t : tensor Z) :
  G.__setstate__ Z 0 Z.add Z.eqb (state_of t) = if validate t then Val (stored t) else Exc.
Proof. unfold G.__setstate__, state_of. apply gen_validate_ok. Qed.

(** C09_pickle_preserves on the regenerated functions: __setstate__ (__getstate__ x) re-creates exactly
    the stored lists *)
Theorem gen_pickle_roundtrip (t : tensor Z) :
  wf_tensorb true t = true ->
  rbind (G.__getstate__ Z 0 Z.add Z.eqb (Z.of_nat (length (ordering t))) (map gmode (levels t)) (dims t)
           (map Z.of_nat (ordering t)) (indices_of (levels t)) (vals t))
        (G.__setstate__ Z 0 Z.add Z.eqb)
  = Val (stored t).
Proof.
  intros Hwf. rewrite (gen_getstate_ok t Hwf). cbn [rbind]. rewrite gen_setstate_ok.
  now rewrite (wf_validate t Hwf).
Qed.

