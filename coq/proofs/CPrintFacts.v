(** Consequences of [rot_derives]; the guards; [rotate] is the identity on trees without the
    K-C06-1 patterns; [rotate] preserves the meaning in exact arithmetic. *)

From Coq Require Import ZArith Bool List String Lia.
From Flocq Require Import Core BinarySingleNaN.
From TV Require Import spec.Num gen.IRAst spec.CGrammar model.CPrint proofs.CPrintDerives.
Import ListNotations.
Local Open Scope nat_scope.
Local Open Scope list_scope.

(** * The derivation theorem *)

Theorem cprint_derives_prec :
  forall e, prec_ok e = true -> Derives (level_of e) (cprint e) (embed (rotate e)).
Proof. intros e H. exact (rot_derives e H RNone [] eq_refl I). Qed.

Lemma numeric_level e : numeric e = true -> 4 <= level_of e.
Proof.
  destruct e; unfold numeric; simpl; intros; try discriminate;
    repeat match goal with |- context [if ?c then _ else _] => destruct c end; lia.
Qed.

Lemma assignable_level e : is_Assignable e = true -> 8 <= level_of e.
Proof. destruct e; simpl; intros; try discriminate; lia. Qed.

Ltac split_ands' :=
  repeat match goal with
         | H : _ && _ = true |- _ => apply andb_prop in H; destruct H
         end.

Lemma wt_prec_ok : forall e, wt_expr e = true -> alloc_ok e = true -> prec_ok e = true.
Proof.
  induction e; intros Hw Ha; cbn [wt_expr alloc_ok prec_ok] in *; split_ands';
    repeat match goal with
           | IHx : wt_expr ?x = true -> alloc_ok ?x = true -> _,
             H1 : wt_expr ?x = true, H2 : alloc_ok ?x = true |- _ => specialize (IHx H1 H2)
           end;
    repeat match goal with
           | H : numeric ?x = true |- _ => apply numeric_level in H
           | H : is_Assignable ?x = true |- _ => apply assignable_level in H
           end;
    unfold loose;
    repeat (apply andb_true_intro; split); auto;
    try (apply Nat.leb_le; lia);
    try (apply negb_true_iff; apply Nat.ltb_ge; lia).
Qed.

Theorem cprint_derives_wt :
  forall e, wt_expr e = true -> alloc_ok e = true ->
            Derives (level_of e) (cprint e) (embed (rotate e)).
Proof. intros e Hw Ha. apply cprint_derives_prec. apply wt_prec_ok; assumption. Qed.

(** * [rotate] is the identity on trees without right-nested chains *)

Definition not_continues (acc : racc) (e : expr) : bool :=
  match acc with
  | RNone => true
  | RAdd _ => negb (is_Add e || is_Subtract e)
  | RMul _ => negb (is_Multiply e)
  | RAnd _ => negb (is_And e)
  | ROr _ => negb (is_Or e)
  end.

Lemma rot_fixpoint lg :
  forall e, no_right_nested e = true ->
  forall acc, not_continues acc e = true -> rot lg e acc = close acc e.
Proof.
  induction e; intros Hn acc Hc; cbn [no_right_nested] in Hn; split_ands';
    repeat match goal with
           | IHx : no_right_nested ?x = true -> _, H : no_right_nested ?x = true |- _ =>
               specialize (IHx H)
           end;
    cbn [rot];
    try (rewrite ?(IHe RNone eq_refl), ?(IHe1 RNone eq_refl), ?(IHe2 RNone eq_refl); cbn [close]; reflexivity).
  - (* Add *)
    assert (E : rot lg e2 (RAdd e1) = Add e1 e2) by (apply (IHe2 (RAdd e1)); exact H).
    destruct acc; cbn [chains_add close]; try discriminate Hc;
      rewrite ?(IHe1 RNone eq_refl); cbn [close]; rewrite ?E; reflexivity.
  - (* Subtract *)
    destruct acc; cbn [chains_add close]; try discriminate Hc;
      rewrite ?(IHe1 RNone eq_refl), ?(IHe2 RNone eq_refl); cbn [close]; reflexivity.
  - (* Multiply *)
    assert (E : rot lg e2 (RMul e1) = Multiply e1 e2) by (apply (IHe2 (RMul e1)); exact H).
    destruct acc; cbn [chains_mul close]; try discriminate Hc;
      rewrite ?(IHe1 RNone eq_refl); cbn [close]; rewrite ?E; reflexivity.
  - (* And *)
    assert (E : rot lg e2 (RAnd e1) = And e1 e2) by (apply (IHe2 (RAnd e1)); exact H).
    destruct lg; destruct acc; cbn [chains_and close]; try discriminate Hc;
      rewrite ?(IHe1 RNone eq_refl), ?(IHe2 RNone eq_refl); cbn [close]; rewrite ?E; reflexivity.
  - (* Or *)
    assert (E : rot lg e2 (ROr e1) = Or e1 e2) by (apply (IHe2 (ROr e1)); exact H).
    destruct lg; destruct acc; cbn [chains_or close]; try discriminate Hc;
      rewrite ?(IHe1 RNone eq_refl), ?(IHe2 RNone eq_refl); cbn [close]; rewrite ?E; reflexivity.
Qed.

Theorem rotate_fixpoint : forall e, no_right_nested e = true -> rotate e = e.
Proof. intros e H. exact (rot_fixpoint true e H RNone eq_refl). Qed.

Theorem rotate_arith_fixpoint : forall e, no_right_nested e = true -> rotate_arith e = e.
Proof. intros e H. exact (rot_fixpoint false e H RNone eq_refl). Qed.

Theorem cprint_derives_exact :
  forall e, wt_expr e = true -> alloc_ok e = true -> no_right_nested e = true ->
            Derives (level_of e) (cprint e) (embed e).
Proof.
  intros e Hw Ha Hn. rewrite <- (rotate_fixpoint e Hn) at 3. apply cprint_derives_wt; assumption.
Qed.

(** * Exact arithmetic *)

Lemma rot_exact_ring I lg :
  forall e acc, denoteZ I (rot lg e acc) = denoteZ I (close acc e).
Proof.
  induction e; intros acc; cbn [rot];
    try (destruct acc; cbn [close denoteZ]; rewrite ?IHe, ?IHe1, ?IHe2; reflexivity).
  - (* Add *)
    destruct acc; cbn [chains_add close denoteZ];
      rewrite ?IHe2; cbn [close denoteZ]; rewrite ?IHe1; cbn [close denoteZ]; ring.
  - (* Subtract *)
    destruct acc; cbn [chains_add close denoteZ];
      rewrite ?IHe2, ?IHe1; cbn [close denoteZ]; ring.
  - (* Multiply *)
    destruct acc; cbn [chains_mul close denoteZ];
      rewrite ?IHe2; cbn [close denoteZ]; rewrite ?IHe1; cbn [close denoteZ]; ring.
  - (* And *)
    destruct lg; destruct acc; cbn [chains_and close denoteZ];
      rewrite ?IHe2; cbn [close denoteZ]; rewrite ?IHe1; cbn [close denoteZ]; lia.
  - (* Or *)
    destruct lg; destruct acc; cbn [chains_or close denoteZ];
      rewrite ?IHe2; cbn [close denoteZ]; rewrite ?IHe1; cbn [close denoteZ]; lia.
Qed.

Theorem rotate_exact_ring : forall I e, denoteZ I (rotate e) = denoteZ I e.
Proof. intros I e. exact (rot_exact_ring I true e RNone). Qed.

Theorem rotate_arith_exact_ring : forall I e, denoteZ I (rotate_arith e) = denoteZ I e.
Proof. intros I e. exact (rot_exact_ring I false e RNone). Qed.

(** * Statements *)

Lemma prec_ok_sub_r e l r :
  (e = Add l r \/ e = Subtract l r \/ e = Multiply l r) -> prec_ok e = true -> prec_ok r = true.
Proof.
  intros [-> | [-> | ->]] H; cbn [prec_ok] in H; split_ands'; assumption.
Qed.

Lemma derives_top e : prec_ok e = true -> Derives 0 (cprint e) (embed (rotate e)).
Proof.
  intros H. apply derives_sub with (l := level_of e); [apply cprint_derives_prec; exact H | lia].
Qed.

Lemma derives_target t l :
  is_Assignable t = true -> prec_ok t = true -> l <= 8 -> Derives l (cprint t) (embed (rotate t)).
Proof.
  intros Ha Hp Hl. apply derives_sub with (l := level_of t); [apply cprint_derives_prec; exact Hp |].
  apply assignable_level in Ha. lia.
Qed.

Lemma assignment_derives t v :
  is_Assignable t = true -> prec_ok t = true -> prec_ok v = true ->
  DerivesStmt (cprint_assignment t v) (cstmt_of_assignment t v).
Proof.
  intros Ha Ht Hv.
  assert (Hplain : DerivesStmt (cprint t ++ TAssign :: cprint v ++ [TSemi])
                     (CSAssign AEq (embed (rotate t)) (embed (rotate v)))).
  { apply (DS_assign AEq); [apply derives_target; auto | apply derives_top; exact Hv]. }
  unfold cprint_assignment, cstmt_of_assignment.
  destruct v; try exact Hplain.
  - (* Add *)
    destruct (expr_eqb v1 t); [| exact Hplain].
    destruct (expr_eqb v2 (IntegerLiteral 1)).
    + apply DS_incr. apply derives_target; auto.
    + apply (DS_assign AAddEq); [apply derives_target; auto | apply derives_top].
      eapply prec_ok_sub_r; [left; reflexivity | exact Hv].
  - (* Subtract *)
    destruct (expr_eqb v1 t); [| exact Hplain].
    destruct (expr_eqb v2 (IntegerLiteral 1)).
    + apply DS_decr. apply derives_target; auto.
    + apply (DS_assign ASubEq); [apply derives_target; auto | apply derives_top].
      eapply prec_ok_sub_r; [right; left; reflexivity | exact Hv].
  - (* Multiply *)
    destruct (expr_eqb v1 t); [| exact Hplain].
    apply (DS_assign AMulEq); [apply derives_target; auto | apply derives_top].
    eapply prec_ok_sub_r; [right; right; reflexivity | exact Hv].
Qed.

Theorem stmt_derives :
  forall s, stmt_ok s = true ->
  exists ts cs, cprint_stmt s = Some ts /\ cstmt_of s = Some cs /\ DerivesStmt ts cs.
Proof.
  intros s H. destruct s; try discriminate H; cbn [stmt_ok cprint_stmt cstmt_of] in *.
  - (* Declaration *)
    destruct name; try discriminate H. do 2 eexists. split; [reflexivity |]. split; [reflexivity |].
    apply DS_decl.
  - (* Assignment *)
    split_ands'. do 2 eexists. split; [reflexivity |]. split; [reflexivity |].
    apply assignment_derives; assumption.
  - (* DeclarationAssignment *)
    destruct s; try discriminate H. destruct name; try discriminate H.
    do 2 eexists. split; [reflexivity |]. split; [reflexivity |].
    apply DS_decl_init. apply derives_top; exact H.
  - (* Return *)
    do 2 eexists. split; [reflexivity |]. split; [reflexivity |].
    apply DS_return. apply derives_top; exact H.
  - (* SExpr *)
    do 2 eexists. split; [reflexivity |]. split; [reflexivity |].
    apply DS_expr. apply derives_top; exact H.
Qed.

Lemma eqb_int_literal r z : expr_eqb r (IntegerLiteral z) = true -> r = IntegerLiteral z.
Proof.
  destruct r; simpl; intros H; try discriminate H. apply Z.eqb_eq in H. congruence.
Qed.

(** the sugar is sound: after ISO C's expansion of [op=] / [++] / [--] the printed statement is the
    plain assignment of [assigned_value]: [t = t op r] with [r] parsed as a whole. *)
Theorem compound_assignment_sound :
  forall t v,
    expand_cstmt (cstmt_of_assignment t v) = CSAssign AEq (embed (rotate t)) (assigned_value t v).
Proof.
  intros t v. unfold cstmt_of_assignment, assigned_value.
  destruct v; try reflexivity.
  - destruct (expr_eqb v1 t); [| reflexivity].
    destruct (expr_eqb v2 (IntegerLiteral 1)) eqn:E; [| reflexivity].
    apply eqb_int_literal in E. subst v2. reflexivity.
  - destruct (expr_eqb v1 t); [| reflexivity].
    destruct (expr_eqb v2 (IntegerLiteral 1)) eqn:E; [| reflexivity].
    apply eqb_int_literal in E. subst v2. reflexivity.
  - destruct (expr_eqb v1 t); reflexivity.
Qed.

(** and [assigned_value] is the embedding of the statement [rot] builds (tools/harness/crot.py), up to
    the printer's own identification of the value's left operand with the target *)
Theorem assigned_value_rotate :
  forall t op r,
    (op = Add \/ op = Subtract \/ op = Multiply) ->
    expr_eqb t t = true ->
    assigned_value t (op t r) = embed (rotate_assignment_value true t (op t r)).
Proof.
  intros t op r [-> | [-> | ->]] E;
    unfold assigned_value, rotate_assignment_value, sugared; rewrite E; reflexivity.
Qed.

Theorem assigned_value_plain :
  forall t v, sugared t v = false -> assigned_value t v = embed (rotate v).
Proof.
  intros t v H. unfold assigned_value. destruct v; try reflexivity; simpl in H; rewrite H; reflexivity.
Qed.
