(* C13 — the ownership invariant and its preservation by every operation of the protocol model. *)
From Coq Require Import List Arith Bool Lia PeanoNat.
From TV Require Import model.Ownership proofs.OwnershipBase.
Import ListNotations.

Definition all_fields (st : state) : list addr := fields_list (structs st).

Definition value_ok (st : state) (v : value) : Prop :=
  match v with
  | VTensor w => In w (keys (tensors st))
  | VStruct s => In s (keys (structs st))
  end.

Definition entry_kind_ok (e : hentry) (b : block) : Prop :=
  match e with HGc _ => b_kind b = Kernel | HNew _ => b_kind b = CffiNew end.

(* Each array block is pointed to by the fields of exactly one live structure, whose holder (the
   weak-dictionary entry keyed by that structure) owns it through exactly one entry; such blocks are
   Live; every other block has been released exactly once. *)
Record Inv (st : state) : Prop := {
  inv_structs_nodup : NoDup (keys (structs st));
  inv_tensors_nodup : NoDup (keys (tensors st));
  inv_heap_nodup : NoDup (keys (heap st));
  inv_aligned : Forall2 aligned (structs st) (wkd st);
  inv_fields_nodup : NoDup (all_fields st);
  inv_status : forall a b, In (a, b) (heap st) ->
      (In a (all_fields st) -> b_status b = Live) /\ (~ In a (all_fields st) -> b_status b = Freed 1);
  inv_fields_heap : forall a, In a (all_fields st) -> In a (keys (heap st));
  inv_fresh_heap : forall a, In a (keys (heap st)) -> a < next st;
  inv_fresh_structs : forall s, In s (keys (structs st)) -> s < next st;
  inv_fresh_tensors : forall w, In w (keys (tensors st)) -> w < next st;
  inv_tensors : forall w s, In (w, s) (tensors st) -> In s (keys (structs st));
  inv_names : forall n v, In (n, v) (names st) -> value_ok st v;
  inv_kinds : forall s h e, In (s, h) (wkd st) -> In e h ->
      exists b, In (haddr e, b) (heap st) /\ entry_kind_ok e b
}.

(* the trace of free() calls agrees with the release counters of the kernel blocks *)
Record Acc (st : state) (tr : list addr) : Prop := {
  acc_count : forall a b, In (a, b) (heap st) -> b_kind b = Kernel ->
      count_occ Nat.eq_dec tr a = nfree (b_status b);
  acc_in : forall a, In a tr -> exists b, In (a, b) (heap st) /\ b_kind b = Kernel
}.

Lemma inv_init : Inv init.
Proof.
  constructor; simpl; try (now constructor); try tauto; intros; try contradiction.
Qed.

Lemma acc_init : Acc init [].
Proof. constructor; simpl; intros; contradiction. Qed.

Lemma NoDup_keys_unique : forall A k (v v' : A) l, NoDup (keys l) -> In (k, v) l -> In (k, v') l -> v = v'.
Proof.
  intros A k v v' l ND H H'. apply (lookup_NoDup _ _ _ _ ND) in H. apply (lookup_NoDup _ _ _ _ ND) in H'.
  congruence.
Qed.

(* ------------------------------------------------------------------ reading is safe *)

Lemma fields_of_incl : forall st v f a, fields_of st v = Some f -> In a f -> In a (all_fields st).
Proof.
  intros st v f a H Ha. unfold fields_of in H. destruct (struct_of st v) as [s|]; [|discriminate].
  apply lookup_In in H. eapply fields_list_In; eauto.
Qed.

Lemma is_live_field : forall st a, Inv st -> In a (all_fields st) -> is_live st a = true.
Proof.
  intros st a I Ha. unfold is_live.
  destruct (lookup_some_of_key _ a (heap st) (inv_fields_heap st I a Ha)) as [b Hb].
  rewrite Hb. apply lookup_In in Hb. destruct (inv_status st I a b Hb) as [L _].
  now rewrite (L Ha).
Qed.

Lemma all_live_fields : forall st l, Inv st -> (forall a, In a l -> In a (all_fields st)) -> all_live st l = true.
Proof.
  intros st l I H. unfold all_live. apply forallb_forall. intros a Ha. apply is_live_field; auto.
Qed.

Lemma input_fields_incl : forall st ins inf a, input_fields st ins = Some inf -> In a inf -> In a (all_fields st).
Proof.
  intros st. induction ins as [|n r IH]; simpl; intros inf a H Ha.
  - inversion H; subst. contradiction.
  - destruct (lookup n (names st)) as [[w|s]|]; try discriminate.
    destruct (fields_of st (VTensor w)) as [f|] eqn:Ef; [|discriminate].
    destruct (input_fields st r) as [g|]; [|discriminate].
    inversion H; subst. apply in_app_or in Ha. destruct Ha as [Ha|Ha].
    + eapply fields_of_incl; eauto.
    + eapply IH; eauto.
Qed.

(* ------------------------------------------------------------------ the reference-counting cascade *)

Definition alive_s (st : state) (s : oid) : bool :=
  names_struct st s ||
  existsb (fun p => Nat.eqb (snd p) s) (filter (fun p => names_tensor st (fst p)) (tensors st)).

Definition dead_fields (st : state) : list addr :=
  fields_list (filter (fun p => negb (alive_s st (fst p))) (structs st)).

Definition dropped_entries (st : state) : list hentry :=
  flat_map (fun q => if alive_s st (fst q) then [] else snd q) (wkd st).

Lemma keys_filter_In : forall A (k : nat -> bool) (l : list (nat * A)) s,
  In s (keys (filter (fun p => k (fst p)) l)) <-> In s (keys l) /\ k s = true.
Proof.
  intros A k l s. unfold keys. rewrite in_map_iff. split.
  - intros [p [E H]]. apply filter_In in H. destruct H as [H Hk]. subst s. split; [now apply in_map|assumption].
  - intros [H Hk]. apply in_map_iff in H. destruct H as [p [E H]]. exists p. split; [assumption|].
    apply filter_In. subst s. auto.
Qed.

Lemma sweep_eq : forall st,
  sweep st =
  ({| names := names st;
      tensors := filter (fun p => names_tensor st (fst p)) (tensors st);
      structs := filter (fun p => alive_s st (fst p)) (structs st);
      wkd := filter (fun p => has_key (fst p) (filter (fun p => alive_s st (fst p)) (structs st))) (wkd st);
      heap := release_all
                (map haddr (flat_map (fun p => if has_key (fst p) (filter (fun p => alive_s st (fst p)) (structs st))
                                               then [] else snd p) (wkd st))) (heap st);
      next := next st |},
   gc_frees (flat_map (fun p => if has_key (fst p) (filter (fun p => alive_s st (fst p)) (structs st))
                                then [] else snd p) (wkd st))).
Proof. reflexivity. Qed.

Lemma sweep_unfold : forall st, Inv st ->
  sweep st =
  ({| names := names st;
      tensors := filter (fun p => names_tensor st (fst p)) (tensors st);
      structs := filter (fun p => alive_s st (fst p)) (structs st);
      wkd := filter (fun q => alive_s st (fst q)) (wkd st);
      heap := release_all (dead_fields st) (heap st);
      next := next st |},
   gc_frees (dropped_entries st)).
Proof.
  intros st I. rewrite sweep_eq.
  assert (K : forall q, In q (wkd st) ->
              has_key (fst q) (filter (fun p => alive_s st (fst p)) (structs st)) = alive_s st (fst q)).
  { intros q Hq. assert (Hk : In (fst q) (keys (structs st))).
    { rewrite <- (aligned_keys _ _ (inv_aligned st I)). unfold keys. now apply in_map. }
    destruct (has_key (fst q) (filter (fun p => alive_s st (fst p)) (structs st))) eqn:E1.
    - apply has_key_true in E1. apply (keys_filter_In _ (alive_s st)) in E1. symmetry. tauto.
    - destruct (alive_s st (fst q)) eqn:E2; [|reflexivity].
      assert (X : has_key (fst q) (filter (fun p => alive_s st (fst p)) (structs st)) = true).
      { apply has_key_true. apply (keys_filter_In _ (alive_s st)). auto. }
      congruence. }
  assert (D : flat_map (fun p => if has_key (fst p) (filter (fun p => alive_s st (fst p)) (structs st))
                                 then [] else snd p) (wkd st) = dropped_entries st).
  { unfold dropped_entries. apply flat_map_ext_in'. intros q Hq. cbv beta. now rewrite (K q Hq). }
  assert (W : filter (fun p => has_key (fst p) (filter (fun p => alive_s st (fst p)) (structs st))) (wkd st)
              = filter (fun q => alive_s st (fst q)) (wkd st)).
  { apply filter_ext_in'. intros q Hq. apply (K q Hq). }
  rewrite D, W.
  destruct (aligned_filter (alive_s st) _ _ (inv_aligned st I)) as [_ M].
  fold (dropped_entries st) in M. unfold dead_fields. rewrite <- M. reflexivity.
Qed.

Lemma dropped_addrs : forall st, Inv st -> map haddr (dropped_entries st) = dead_fields st.
Proof.
  intros st I. destruct (aligned_filter (alive_s st) _ _ (inv_aligned st I)) as [_ M]. exact M.
Qed.

Lemma dropped_in_wkd : forall st e, In e (dropped_entries st) -> exists s h, In (s, h) (wkd st) /\ In e h.
Proof.
  intros st e H. unfold dropped_entries in H. apply in_flat_map in H. destruct H as [[s h] [Hq He]].
  simpl in He. destruct (alive_s st s); [contradiction|]. eauto.
Qed.

Lemma sweep_inv : forall st, Inv st -> Inv (fst (sweep st)).
Proof.
  intros st I. rewrite (sweep_unfold st I). simpl.
  pose proof (fields_partition (alive_s st) (structs st) (inv_fields_nodup st I)) as P.
  simpl in P. destruct P as [P1 [P2 [P3 P4]]]. fold (dead_fields st) in P2, P3, P4.
  constructor; simpl.
  - apply keys_filter_NoDup. apply (inv_structs_nodup st I).
  - apply keys_filter_NoDup. apply (inv_tensors_nodup st I).
  - rewrite release_all_keys. apply (inv_heap_nodup st I).
  - apply (aligned_filter (alive_s st) _ _ (inv_aligned st I)).
  - exact P1.
  - intros a b' Hb'. apply release_all_In in Hb'. destruct Hb' as [b [Hb [_ Hs]]].
    destruct (inv_status st I a b Hb) as [L F]. unfold all_fields. simpl. split; intros Ha.
    + assert (~ In a (dead_fields st)) by now apply P3.
      rewrite (count_occ_not_In Nat.eq_dec) in H. rewrite H in Hs. simpl in Hs. rewrite Hs.
      apply L. apply P4. now left.
    + destruct (in_dec Nat.eq_dec a (dead_fields st)) as [Hd|Hd].
      * rewrite (count_occ_NoDup_In _ _ P2 Hd) in Hs. simpl in Hs. rewrite Hs.
        rewrite L; [reflexivity|]. apply P4. now right.
      * pose proof Hd as Hd'. rewrite (count_occ_not_In Nat.eq_dec) in Hd'. rewrite Hd' in Hs. simpl in Hs.
        rewrite Hs. apply F. intro X. apply P4 in X. tauto.
  - intros a Ha. rewrite release_all_keys. apply (inv_fields_heap st I). apply P4. now left.
  - intros a Ha. rewrite release_all_keys in Ha. now apply (inv_fresh_heap st I).
  - intros s Hs. apply (keys_filter_In _ (alive_s st)) in Hs. apply (inv_fresh_structs st I). tauto.
  - intros w Hw. apply (keys_filter_In _ (names_tensor st)) in Hw. apply (inv_fresh_tensors st I). tauto.
  - intros w s Hws. apply (keys_filter_In _ (alive_s st)). split.
    + apply filter_In in Hws. eapply (inv_tensors st I). apply Hws.
    + unfold alive_s. apply orb_true_iff. right. apply existsb_exists. exists (w, s). split; [assumption|].
      simpl. apply Nat.eqb_refl.
  - intros n v Hn. pose proof (inv_names st I n v Hn) as Hv. destruct v as [w|s]; simpl in *.
    + apply (keys_filter_In _ (names_tensor st)). split; [assumption|].
      unfold names_tensor. apply existsb_exists. exists (n, VTensor w). split; [assumption|]. simpl. apply Nat.eqb_refl.
    + apply (keys_filter_In _ (alive_s st)). split; [assumption|].
      unfold alive_s. apply orb_true_iff. left.
      unfold names_struct. apply existsb_exists. exists (n, VStruct s). split; [assumption|]. simpl. apply Nat.eqb_refl.
  - intros s h e Hsh He. apply filter_In in Hsh. destruct Hsh as [Hsh _].
    destruct (inv_kinds st I s h e Hsh He) as [b [Hb Hk]].
    eexists. split; [apply release_all_In'; eassumption|]. destruct e; simpl in *; assumption.
Qed.

Lemma sweep_acc : forall st tr, Inv st -> Acc st tr -> Acc (fst (sweep st)) (tr ++ snd (sweep st)).
Proof.
  intros st tr I A. rewrite (sweep_unfold st I). simpl.
  pose proof (fields_partition (alive_s st) (structs st) (inv_fields_nodup st I)) as P.
  simpl in P. destruct P as [_ [P2 _]]. fold (dead_fields st) in P2.
  constructor; simpl.
  - intros a b' Hb' Hk. apply release_all_In in Hb'. destruct Hb' as [b [Hb [Hkk Hs]]].
    rewrite count_occ_app_nat. rewrite (acc_count st tr A a b Hb) by congruence.
    rewrite Hs, nfree_bump_n. rewrite <- (dropped_addrs st I).
    rewrite gc_frees_count; [lia|].
    intros e He Ea. destruct (dropped_in_wkd st e He) as [s [h [Hsh Heh]]].
    destruct (inv_kinds st I s h e Hsh Heh) as [b0 [Hb0 Hk0]]. rewrite Ea in Hb0.
    assert (b0 = b) by (eapply NoDup_keys_unique; [apply (inv_heap_nodup st I)|eassumption|eassumption]).
    subst b0. destruct e as [x|x]; simpl in *; [now subst|congruence].
  - intros a Ha. apply in_app_or in Ha. destruct Ha as [Ha|Ha].
    + destruct (acc_in st tr A a Ha) as [b [Hb Hk]]. eexists. split; [apply release_all_In'; eassumption|assumption].
    + apply gc_frees_incl in Ha. destruct (dropped_in_wkd st _ Ha) as [s [h [Hsh Heh]]].
      destruct (inv_kinds st I s h _ Hsh Heh) as [b [Hb Hk]]. simpl in *.
      eexists. split; [apply release_all_In'; eassumption|assumption].
Qed.

(* after the cascade every remaining structure is referenced from a name *)

Lemma sweep_swept : forall st a, Inv st -> In a (all_fields (fst (sweep st))) -> reaches (fst (sweep st)) a.
Proof.
  intros st a I Ha. pose proof (sweep_inv st I) as I'. pose proof (sweep_unfold st I) as U.
  apply (f_equal fst) in U. cbn [fst] in U. remember (fst (sweep st)) as st' eqn:Est. clear Est.
  assert (Hn : names st' = names st) by (rewrite U; reflexivity).
  assert (Ht : tensors st' = filter (fun p => names_tensor st (fst p)) (tensors st)) by (rewrite U; reflexivity).
  assert (Hs : structs st' = filter (fun p => alive_s st (fst p)) (structs st)) by (rewrite U; reflexivity).
  clear U. unfold all_fields, fields_list in Ha. apply in_flat_map in Ha.
  destruct Ha as [[s f] [Hsf Haf]]. simpl in Haf. pose proof Hsf as Hsf0.
  rewrite Hs in Hsf. apply filter_In in Hsf. destruct Hsf as [Hsf Hal]. simpl in Hal. unfold alive_s in Hal.
  apply orb_true_iff in Hal. destruct Hal as [Hal|Hal].
  - unfold names_struct in Hal. apply existsb_exists in Hal. destruct Hal as [[n v] [Hnv Hv]].
    simpl in Hv. destruct v as [w|s0]; [discriminate|]. apply Nat.eqb_eq in Hv. subst s0.
    exists n, (VStruct s), f. rewrite Hn. split; [assumption|]. split; [|assumption].
    unfold fields_of. simpl. apply lookup_NoDup; [apply (inv_structs_nodup _ I')|assumption].
  - apply existsb_exists in Hal. destruct Hal as [[w s0] [Hw Hs0]]. simpl in Hs0. apply Nat.eqb_eq in Hs0. subst s0.
    pose proof Hw as Hw0. rewrite <- Ht in Hw0. apply filter_In in Hw. destruct Hw as [Hw Hnt]. simpl in Hnt.
    unfold names_tensor in Hnt. apply existsb_exists in Hnt. destruct Hnt as [[n v] [Hnv Hv]].
    simpl in Hv. destruct v as [w0|s0]; [|discriminate]. apply Nat.eqb_eq in Hv. subst w0.
    exists n, (VTensor w), f. rewrite Hn. split; [assumption|]. split; [|assumption].
    unfold fields_of. simpl.
    rewrite (lookup_NoDup _ w s _ (inv_tensors_nodup _ I') Hw0).
    apply lookup_NoDup; [apply (inv_structs_nodup _ I')|assumption].
Qed.

(* ------------------------------------------------------------------ creating a tensor *)

Definition add_tensor (st : state) (mk : addr -> hentry) (kd : bkind) (n : nat) : state :=
  let a := seq (S (S (next st))) n in
  {| names := names st;
     tensors := (S (next st), next st) :: tensors st;
     structs := (next st, a) :: structs st;
     wkd := (next st, map mk a) :: wkd st;
     heap := heap st ++ map (fun x => (x, {| b_kind := kd; b_status := Live |})) a;
     next := S (S (next st)) + n |}.

Lemma keys_app : forall A (l1 l2 : list (nat * A)), keys (l1 ++ l2) = keys l1 ++ keys l2.
Proof. intros. unfold keys. apply map_app. Qed.

Lemma keys_new_blocks : forall kd (a : list addr),
  keys (map (fun x => (x, {| b_kind := kd; b_status := Live |})) a) = a.
Proof. intros. unfold keys. rewrite map_map. simpl. apply map_id. Qed.

Lemma add_tensor_inv : forall st mk kd n,
  Inv st ->
  (forall x, haddr (mk x) = x) ->
  (forall x b, b_kind b = kd -> entry_kind_ok (mk x) b) ->
  Inv (add_tensor st mk kd n).
Proof.
  intros st mk kd n I Hmk Hkd. unfold add_tensor.
  set (a := seq (S (S (next st))) n).
  assert (Ha : forall x, In x a -> S (S (next st)) <= x < S (S (next st)) + n) by (intros x Hx; apply in_seq in Hx; lia).
  assert (Fold : forall x, In x (all_fields st) -> x < next st).
  { intros x Hx. apply (inv_fresh_heap st I). now apply (inv_fields_heap st I). }
  constructor; simpl.
  - constructor; [|apply (inv_structs_nodup st I)]. intro H. apply (inv_fresh_structs st I) in H. lia.
  - constructor; [|apply (inv_tensors_nodup st I)]. intro H. apply (inv_fresh_tensors st I) in H. lia.
  - rewrite keys_app, keys_new_blocks. apply NoDup_app_intro; [apply (inv_heap_nodup st I)|apply seq_NoDup|].
    intros x Hx Hx'. apply (inv_fresh_heap st I) in Hx. apply Ha in Hx'. lia.
  - constructor; [|apply (inv_aligned st I)]. split; simpl; [reflexivity|].
    rewrite map_map. rewrite <- (map_id a) at 2. apply map_ext. intros x. apply Hmk.
  - unfold all_fields. simpl. apply NoDup_app_intro; [apply seq_NoDup|apply (inv_fields_nodup st I)|].
    intros x Hx Hx'. apply Ha in Hx. apply Fold in Hx'. lia.
  - intros x b Hb. unfold all_fields. simpl. apply in_app_or in Hb. destruct Hb as [Hb|Hb].
    + destruct (inv_status st I x b Hb) as [L F].
      assert (Hxa : ~ In x a). { intro H. apply Ha in H. apply In_keys in Hb. apply (inv_fresh_heap st I) in Hb. lia. }
      split; intros H.
      * apply L. apply in_app_or in H. tauto.
      * apply F. intro H'. apply H. apply in_or_app. now right.
    + apply in_map_iff in Hb. destruct Hb as [y [E Hy]]. inversion E; subst. simpl. split; [reflexivity|].
      intro H. exfalso. apply H. apply in_or_app. now left.
  - intros x Hx. unfold all_fields in Hx. simpl in Hx. rewrite keys_app, keys_new_blocks.
    apply in_or_app. apply in_app_or in Hx. destruct Hx as [Hx|Hx]; [now right|left; now apply (inv_fields_heap st I)].
  - intros x Hx. rewrite keys_app, keys_new_blocks in Hx. apply in_app_or in Hx. destruct Hx as [Hx|Hx].
    + apply (inv_fresh_heap st I) in Hx. lia.
    + apply Ha in Hx. lia.
  - intros s [Hs|Hs]; [lia|]. apply (inv_fresh_structs st I) in Hs. lia.
  - intros w [Hw|Hw]; [lia|]. apply (inv_fresh_tensors st I) in Hw. lia.
  - intros w s [H|H].
    + inversion H; subst. now left.
    + right. eapply (inv_tensors st I); eauto.
  - intros m v Hm. pose proof (inv_names st I m v Hm) as Hv. destruct v; simpl in *; now right.
  - intros s h e [H|H] He.
    + inversion H; subst. apply in_map_iff in He. destruct He as [x [Ex Hx]]. subst e. rewrite Hmk.
      eexists. split.
      * apply in_or_app. right. apply in_map_iff. exists x. split; [reflexivity|assumption].
      * apply Hkd. reflexivity.
    + destruct (inv_kinds st I s h e H He) as [b [Hb Hk]]. exists b. split; [apply in_or_app; now left|assumption].
Qed.

Lemma add_tensor_acc : forall st tr mk kd n, Inv st -> Acc st tr -> Acc (add_tensor st mk kd n) tr.
Proof.
  intros st tr mk kd n I A. constructor; simpl.
  - intros a b Hb Hk. apply in_app_or in Hb. destruct Hb as [Hb|Hb]; [now apply (acc_count st tr A)|].
    apply in_map_iff in Hb. destruct Hb as [x [E Hx]]. inversion E; subst. simpl.
    apply (count_occ_not_In Nat.eq_dec). intro H. destruct (acc_in st tr A a H) as [b0 [Hb0 _]].
    apply In_keys in Hb0. apply (inv_fresh_heap st I) in Hb0. apply in_seq in Hx. lia.
  - intros a Ha. destruct (acc_in st tr A a Ha) as [b [Hb Hk]]. exists b. split; [apply in_or_app; now left|assumption].
Qed.

Lemma map_update_fresh : forall A (s : nat) (x : A) (l : list (nat * A)),
  ~ In s (keys l) -> map (fun p => if Nat.eqb (fst p) s then (fst p, x) else p) l = l.
Proof.
  intros A s x l H. rewrite <- (map_id l) at 2. apply map_ext_in. intros [k v] Hp. simpl.
  destruct (Nat.eqb k s) eqn:E; [|reflexivity]. apply Nat.eqb_eq in E. subst. exfalso. apply H. eapply In_keys; eauto.
Qed.

Lemma fresh_struct : forall st, Inv st -> ~ In (next st) (keys (structs st)).
Proof. intros st I H. apply (inv_fresh_structs st I) in H. lia. Qed.

Lemma fresh_wkd : forall st, Inv st -> ~ In (next st) (keys (wkd st)).
Proof. intros st I. rewrite (aligned_keys _ _ (inv_aligned st I)). now apply fresh_struct. Qed.

(* TensorMethod.__call__ on well-formed arguments: one new tensor whose arrays are owned by ffi.gc entries,
   nothing released *)
Lemma eval_call_ok : forall st ins sh inf,
  Inv st -> input_fields st ins = Some inf ->
  eval_call st ins sh = (add_tensor st HGc Kernel (shape_blocks sh), S (next st), [], Ok).
Proof.
  intros st ins sh inf I Hin. unfold eval_call. rewrite Hin.
  rewrite (all_live_fields st inf I) by (intros a Ha; eapply input_fields_incl; eauto). simpl.
  unfold take_ownership, run_kernel, fresh_addrs. simpl. rewrite !Nat.eqb_refl. simpl.
  unfold set_fields. simpl. rewrite ?Nat.eqb_refl. simpl. rewrite ?Nat.eqb_refl. simpl.
  rewrite release_all_nil.
  rewrite (map_update_fresh _ (next st) _ (structs st) (fresh_struct st I)).
  rewrite (map_update_fresh _ (next st) _ (wkd st) (fresh_wkd st I)).
  unfold add_tensor. reflexivity.
Qed.

Lemma build_normal : forall st n, Inv st ->
  (let '(st1, s, w) := allocate_structure st in (fill_from_python st1 s n, w)) = (add_tensor st HNew CffiNew n, S (next st)).
Proof.
  intros st n I. unfold allocate_structure, fill_from_python, fresh_addrs, set_fields. simpl.
  rewrite !Nat.eqb_refl. simpl.
  rewrite (map_update_fresh _ (next st) _ (structs st) (fresh_struct st I)).
  rewrite (map_update_fresh _ (next st) _ (wkd st) (fresh_wkd st I)).
  unfold add_tensor. reflexivity.
Qed.

Lemma build_whole : forall st n out, Inv st ->
  (let '(st1, s, w) := allocate_structure st in
   (set_names (fill_from_python st1 s n) (bind out (VTensor w) (names (fill_from_python st1 s n))), @nil nat, Ok))
  = (set_names (add_tensor st HNew CffiNew n)
       (bind out (VTensor (S (next st))) (names (add_tensor st HNew CffiNew n))), [], Ok).
Proof.
  intros st n out I. pose proof (build_normal st n I) as B.
  destruct (allocate_structure st) as [[st1 s] w].
  pose proof (f_equal fst B) as B1. pose proof (f_equal snd B) as B2. cbn [fst snd] in B1, B2.
  cbv zeta. now rewrite B1, B2.
Qed.

(* ------------------------------------------------------------------ operations *)

Lemma set_names_inv : forall st nm, Inv st -> (forall n v, In (n, v) nm -> value_ok st v) -> Inv (set_names st nm).
Proof.
  intros st nm I H. destruct I. constructor; simpl; auto.
Qed.

Lemma set_names_acc : forall st nm tr, Acc st tr -> Acc (set_names st nm) tr.
Proof. intros st nm tr A. destruct A. constructor; simpl; auto. Qed.

Lemma bind_ok : forall st k v, Inv st -> value_ok st v ->
  forall n v', In (n, v') (bind k v (names st)) -> value_ok st v'.
Proof.
  intros st k v I Hv n v' [H|H].
  - inversion H; subst. assumption.
  - apply remove_key_incl in H. eapply (inv_names st I); eauto.
Qed.

Lemma value_ok_add : forall st mk kd n v, value_ok st v -> value_ok (add_tensor st mk kd n) v.
Proof. intros st mk kd n [w|s] H; simpl in *; now right. Qed.

Lemma new_tensor_step : forall st mk kd n out tr,
  Inv st -> Acc st tr ->
  (forall x, haddr (mk x) = x) ->
  (forall x b, b_kind b = kd -> entry_kind_ok (mk x) b) ->
  Inv (set_names (add_tensor st mk kd n) (bind out (VTensor (S (next st))) (names (add_tensor st mk kd n)))) /\
  Acc (set_names (add_tensor st mk kd n) (bind out (VTensor (S (next st))) (names (add_tensor st mk kd n)))) tr.
Proof.
  intros st mk kd n out tr I A H1 H2.
  pose proof (add_tensor_inv st mk kd n I H1 H2) as I'. split.
  - apply set_names_inv; [assumption|].
    apply (bind_ok (add_tensor st mk kd n) out (VTensor (S (next st))) I'). simpl. now left.
  - apply set_names_acc. now apply add_tensor_acc.
Qed.

Ltac unchanged := (split; [assumption | split; [assumption | split; [reflexivity | discriminate]]]).

Lemma apply_op_spec : forall st o tr, Inv st -> Acc st tr ->
  let '(st', fr, oc) := apply_op st o in
  Inv st' /\ Acc st' tr /\ fr = [] /\ oc <> Fault.
Proof.
  intros st o tr I A. destruct o as [out ins sh|out sh|new old|new old|n|new old|n|]; cbn [apply_op].
  - (* Eval *)
    destruct (input_fields st ins) as [inf|] eqn:Hin.
    + rewrite (eval_call_ok st ins sh inf I Hin). cbv beta iota.
      destruct (new_tensor_step st HGc Kernel (shape_blocks sh) out tr I A (fun x => eq_refl) (fun x b H => H)) as [I' A'].
      split; [exact I'|split; [exact A'|split; [reflexivity|discriminate]]].
    + unfold eval_call. rewrite Hin. simpl. unchanged.
  - (* Build *)
    rewrite (build_whole st (shape_blocks sh) out I).
    destruct (new_tensor_step st HNew CffiNew (shape_blocks sh) out tr I A (fun x => eq_refl) (fun x b H => H)) as [I' A'].
    split; [exact I'|split; [exact A'|split; [reflexivity|discriminate]]].
  - (* Alias *)
    destruct (lookup old (names st)) as [v|] eqn:E.
    + split; [|split; [|split; [reflexivity|discriminate]]].
      * apply set_names_inv; [assumption|]. apply (bind_ok st new v I). apply lookup_In in E. eapply (inv_names st I); eauto.
      * now apply set_names_acc.
    + unchanged.
  - (* StructRef *)
    destruct (lookup old (names st)) as [[w|s]|] eqn:E; try unchanged.
    destruct (lookup w (tensors st)) as [s|] eqn:E2; try unchanged.
    split; [|split; [|split; [reflexivity|discriminate]]].
    + apply set_names_inv; [assumption|]. apply (bind_ok st new (VStruct s) I). simpl. apply lookup_In in E2. eapply (inv_tensors st I); eauto.
    + now apply set_names_acc.
  - (* Read *)
    destruct (lookup n (names st)) as [v|] eqn:E; try unchanged.
    destruct (fields_of st v) as [f|] eqn:E2; try unchanged.
    rewrite (all_live_fields st f I) by (intros a Ha; eapply fields_of_incl; eauto).
    unchanged.
  - (* Pickle *)
    destruct (lookup old (names st)) as [[w|s]|] eqn:E; try unchanged.
    destruct (fields_of st (VTensor w)) as [f|] eqn:E2; try unchanged.
    rewrite (all_live_fields st f I) by (intros a Ha; eapply fields_of_incl; eauto). cbn [negb].
    rewrite (build_whole st (length f) new I).
    destruct (new_tensor_step st HNew CffiNew (length f) new tr I A (fun x => eq_refl) (fun x b H => H)) as [I' A'].
    split; [exact I'|split; [exact A'|split; [reflexivity|discriminate]]].
  - (* Del *)
    destruct (lookup n (names st)) as [v|] eqn:E; try unchanged.
    split; [|split; [|split; [reflexivity|discriminate]]].
    + apply set_names_inv; [assumption|]. intros m v' H. apply remove_key_incl in H. eapply (inv_names st I); eauto.
    + now apply set_names_acc.
  - (* Collect *)
    unchanged.
Qed.

Definition swept (st : state) : Prop := forall a, In a (all_fields st) -> reaches st a.

Definition sweeps (eager : bool) (o : op) : bool :=
  eager || match o with Collect => true | _ => false end.

Lemma step_spec : forall eager st o tr, Inv st -> Acc st tr ->
  let '(st', fr, oc) := step eager st o in
  Inv st' /\ Acc st' (tr ++ fr) /\ oc <> Fault /\ (sweeps eager o = true -> swept st').
Proof.
  intros eager st o tr I A. unfold step.
  pose proof (apply_op_spec st o tr I A) as H.
  destruct (apply_op st o) as [[st1 fr1] oc]. destruct H as [I1 [A1 [F1 O1]]]. subst fr1.
  fold (sweeps eager o). destruct (sweeps eager o) eqn:E.
  - pose proof (sweep_inv st1 I1) as I2. pose proof (sweep_acc st1 tr I1 A1) as A2.
    pose proof (fun a => sweep_swept st1 a I1) as S2.
    destruct (sweep st1) as [st2 fr2]. simpl in *.
    split; [exact I2|split; [exact A2|split; [exact O1|intros _; exact S2]]].
  - simpl. rewrite app_nil_r.
    split; [exact I1|split; [exact A1|split; [exact O1|discriminate]]].
Qed.
