(** TIE -- the definitions regenerated from iteration_graph/_names.py (gen/Names.v) are equal to
    the hand model model/Names.v (C08): every name function, as an IR variable, is [Var] of the
    model's string, for every tensor / index / reference string and every layer number. *)

From Coq Require Import ZArith List Bool String Lia.
From TV Require Import spec.Num spec.PyBase spec.PyLib proofs.PyLibFacts gen.IRAst.
From TV Require gen.Names model.Names proofs.NamesInj.
Import ListNotations.

Module GN := TV.gen.Names.
Module MN := TV.model.Names.

Lemma show_Z_nat_str : forall n, show_Z (Z.of_nat n) = MN.nat_str n.
Proof. intros. rewrite show_Z_of_nat. reflexivity. Qed.

Ltac names := intros; unfold GN.dimension_name, GN.pos_name, GN.crd_name, GN.vals_name, GN.pos_capacity_name,
  GN.crd_capacity_name, GN.vals_capacity_name, GN.layer_pointer, GN.sparse_end_name, GN.value_from_crd,
  GN.written_name; rewrite ?show_Z_nat_str; reflexivity.

Lemma gen_dimension_name : forall i, GN.dimension_name i = Var (MN.dimension_name i).
Proof. names. Qed.
Lemma gen_pos_name : forall t l, GN.pos_name t (Z.of_nat l) = Var (MN.pos_name t l).
Proof. names. Qed.
Lemma gen_crd_name : forall t l, GN.crd_name t (Z.of_nat l) = Var (MN.crd_name t l).
Proof. names. Qed.
Lemma gen_vals_name : forall t, GN.vals_name t = Var (MN.vals_name t).
Proof. names. Qed.
Lemma gen_pos_capacity_name : forall t l, GN.pos_capacity_name t (Z.of_nat l) = Var (MN.pos_capacity_name t l).
Proof. names. Qed.
Lemma gen_crd_capacity_name : forall t l, GN.crd_capacity_name t (Z.of_nat l) = Var (MN.crd_capacity_name t l).
Proof. names. Qed.
Lemma gen_vals_capacity_name : forall t, GN.vals_capacity_name t = Var (MN.vals_capacity_name t).
Proof. names. Qed.
Lemma gen_layer_pointer : forall r l, GN.layer_pointer r (Z.of_nat l) = Var (MN.layer_pointer r l).
Proof. names. Qed.
Lemma gen_sparse_end_name : forall r l, GN.sparse_end_name r (Z.of_nat l) = Var (MN.sparse_end_name r l).
Proof. names. Qed.
Lemma gen_value_from_crd : forall r l, GN.value_from_crd r (Z.of_nat l) = Var (MN.value_from_crd r l).
Proof. names. Qed.
Lemma gen_written_name : forall t l, GN.written_name t (Z.of_nat l) = Var (MN.written_name t l).
Proof. names. Qed.

(** the generated functions applied as the model's [gname] says *)
Definition gen_render (g : MN.gname) : expr :=
  match g with
  | MN.NDim i => GN.dimension_name i
  | MN.NPos t l => GN.pos_name t (Z.of_nat l)
  | MN.NCrd t l => GN.crd_name t (Z.of_nat l)
  | MN.NVals t => GN.vals_name t
  | MN.NPosCap t l => GN.pos_capacity_name t (Z.of_nat l)
  | MN.NCrdCap t l => GN.crd_capacity_name t (Z.of_nat l)
  | MN.NValsCap t => GN.vals_capacity_name t
  | MN.NLayerPtr id t l => GN.layer_pointer (MN.reference id t) (Z.of_nat l)
  | MN.NSparseEnd id t l => GN.sparse_end_name (MN.reference id t) (Z.of_nat l)
  | MN.NValueFromCrd id t l => GN.value_from_crd (MN.reference id t) (Z.of_nat l)
  | MN.NWritten t l => GN.written_name t (Z.of_nat l)
  end.

Theorem gen_names_equiv : forall g, gen_render g = Var (MN.render g).
Proof.
  destruct g; cbn [gen_render MN.render];
    auto using gen_dimension_name, gen_pos_name, gen_crd_name, gen_vals_name, gen_pos_capacity_name,
      gen_crd_capacity_name, gen_vals_capacity_name, gen_layer_pointer, gen_sparse_end_name,
      gen_value_from_crd, gen_written_name.
Qed.

(** [previous_layer_pointer]: literal 0 at the first layer, else the pointer of the layer before *)
Theorem gen_previous_layer_pointer : forall r l,
  GN.previous_layer_pointer r (Z.of_nat l) =
  match l with O => IntegerLiteral 0 | S l' => Var (MN.layer_pointer r l') end.
Proof.
  intros r l. unfold GN.previous_layer_pointer. destruct l as [|l'].
  - reflexivity.
  - destruct (Z.eqb (Z.of_nat (S l')) 0) eqn:E; [apply Z.eqb_eq in E; lia|].
    replace (Z.of_nat (S l') - 1)%Z with (Z.of_nat l') by lia. apply gen_layer_pointer.
Qed.

(** C08_names_injective, about the generated functions *)
Theorem gen_names_injective : forall g1 g2,
  MN.identb (MN.gname_ident g1) = true -> MN.identb (MN.gname_ident g2) = true ->
  gen_render g1 = gen_render g2 -> g1 = g2.
Proof.
  intros g1 g2 H1 H2 E. rewrite !gen_names_equiv in E. inversion E.
  eapply TV.proofs.NamesInj.names_injective; eassumption.
Qed.
