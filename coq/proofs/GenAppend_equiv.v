(** TIE "append": the output-writing emitters regenerated from the source (gen/AppendGen.v) perform, on
    the IR abstract machine (spec/IRSem.v), the transitions of the hand model model/Append.v.

    Part 1: closed forms of the regenerated emitters (what IR they return), for every tensor / layer.
    Part 2: refinement: running the emitted IR on the machine from a state that reads as a model state
            ([buf_at], [level_at]) and completing normally gives a state that reads as the model's
            next state -- growth by doubling / by max ([grow_double], [grow_max]), the crd store
            ([crd_assembly]), crd store + cursor increment ([append]), the pos store ([pos_assembly]).
    Part 3: sequences of fragments ([append_all], one segment of [run_segs]).  *)

From Coq Require Import ZArith Bool List String Lia FMapPositive.
From TV Require Import spec.Num spec.Storage spec.PyLib gen.IRAst gen.Names spec.IRSem gen.AppendGen
  proofs.MachineSafety proofs.Certs2Base model.Append proofs.GenAppend_machine.
Import ListNotations.
Open Scope Z_scope.

(** * Part 1: what the regenerated emitters return *)

Definition vname (e : expr) : string := match e with Var x => x | _ => ""%string end.

(** the variables of one compressed output level *)
Record lnames : Type := mkNames {
  n_pos : string; n_poscap : string; n_crd : string; n_crdcap : string; n_ptr : string }.

Definition names_of (t : Tensor) (l : Z) : lnames :=
  mkNames (vname (pos_name (Tensor_name t) l)) (vname (pos_capacity_name (Tensor_name t) l))
          (vname (crd_name (Tensor_name t) l)) (vname (crd_capacity_name (Tensor_name t) l))
          (vname (layer_pointer (Tensor_id t) l)).

(** [if (m >= cap) { cap = newcap; a = realloc(a, cap); }] *)
Definition grow_stmt (m : expr) (capv arrv : string) (ety : ty) (newcap : expr) : stmt :=
  Branch (GreaterThanOrEqual m (Var capv))
    (Block [Assignment (Var capv) newcap;
            Assignment (Var arrv) (ArrayReallocate (Var arrv) ety (Var capv))] None)
    (Block [] None).

Definition double_of (capv : string) : expr := Multiply (Var capv) (IntegerLiteral 2).
Definition max_of (capv : string) (m : expr) : expr := Max (Multiply (Var capv) (IntegerLiteral 2)) m.

Definition crd_store_stmt (N : lnames) (ix : string) : stmt :=
  Assignment (ArrayIndex (Var (n_crd N)) (Var (n_ptr N))) (Var ix).

Definition crd_assembly_stmt (N : lnames) (ix : string) : stmt :=
  Block [grow_stmt (Var (n_ptr N)) (n_crdcap N) (n_crd N) TInteger (double_of (n_crdcap N));
         crd_store_stmt N ix] (Some "crd assembly"%string).

Theorem gen_crd_assembly_shape (tl : TensorLayer) (ix : string) :
  py_getitem (Tensor_indexes (TensorLayer_tensor tl)) (TensorLayer_layer tl) = Some ix ->
  option_map sb_finalize (write_crd_assembly tl)
  = Some (crd_assembly_stmt (names_of (TensorLayer_tensor tl) (TensorLayer_layer tl)) ix).
Proof. intros H. unfold write_crd_assembly. rewrite H. reflexivity. Qed.

(** without an index variable for the layer the emitter raises (IndexError) *)
Theorem gen_crd_assembly_none (tl : TensorLayer) :
  py_getitem (Tensor_indexes (TensorLayer_tensor tl)) (TensorLayer_layer tl) = None ->
  write_crd_assembly tl = None.
Proof. intros H. unfold write_crd_assembly. rewrite H. reflexivity. Qed.

(** [pos[parent + 1] = p] *)
Definition pos_assembly_stmt (N : lnames) (parent : expr) : stmt :=
  Block [Assignment (ArrayIndex (Var (n_pos N)) (Add parent (IntegerLiteral 1))) (Var (n_ptr N))]
        (Some "pos assembly"%string).

Theorem gen_pos_assembly_shape (tl : TensorLayer) :
  sb_finalize (write_pos_assembly tl)
  = pos_assembly_stmt (names_of (TensorLayer_tensor tl) (TensorLayer_layer tl))
      (previous_layer_pointer (Tensor_id (TensorLayer_tensor tl)) (TensorLayer_layer tl)).
Proof. reflexivity. Qed.

(** the cursor increment emitted next to the crd assembly ([p++], built by the regenerated
    [Assignable.increment]) *)
Definition increment_stmt (N : lnames) : stmt := Assignable_increment (Var (n_ptr N)) (XZ 1).

Lemma increment_stmt_eq N :
  increment_stmt N = Assignment (Var (n_ptr N)) (Add (Var (n_ptr N)) (IntegerLiteral 1)).
Proof. reflexivity. Qed.

(** write_pos_allocation: the scan for the dense layers below [layer] (the loop with `break`) *)
Definition dense_scan (tl : TensorLayer) : option (list expr * bool) :=
  ofold (fun (acc_ : list expr * bool) (i_layer : Z) =>
           let '(dense_dimensions, broken_) := acc_ in
           if broken_ then Some (dense_dimensions, true) else
           obind (py_getitem (Tensor_indexes (TensorLayer_tensor tl)) i_layer) (fun t_1 =>
           obind (py_getitem (Tensor_modes (TensorLayer_tensor tl)) i_layer) (fun t_2 =>
           if Mode_eqb t_2 Mode_compressed then Some (dense_dimensions, true)
           else Some ((dense_dimensions ++ [dimension_name t_1])%list, false))))
        (py_range (TensorLayer_layer tl + 1) (Tensor_order (TensorLayer_tensor tl))) ([], false).

(** what is grown: the value array (bonus 0) when the dense run reaches the end, else the pos array
    of the next compressed layer (bonus 1) *)
Definition alloc_target (tl : TensorLayer) (dims : list expr) : string * string * string * ty * Z :=
  let t := TensorLayer_tensor tl in
  let l' := TensorLayer_layer tl + Z.of_nat (List.length dims) + 1 in
  if Z.eqb l' (Z.of_nat (List.length (Tensor_indexes t)))
  then ("vals allocation"%string, vname (vals_capacity_name (Tensor_name t)), vname (vals_name (Tensor_name t)), TFloat, 0)
  else ("pos allocation for next sparse layer"%string, vname (pos_capacity_name (Tensor_name t) l'),
        vname (pos_name (Tensor_name t) l'), TInteger, 1).

Definition dims_product (dims : list expr) : expr := fold_left Multiply dims (IntegerLiteral 1).

Definition pos_allocation_stmt (tl : TensorLayer) (dims : list expr) : stmt :=
  let '(comment, capv, arrv, ety, bonus) := alloc_target tl dims in
  let p := layer_pointer (Tensor_id (TensorLayer_tensor tl)) (TensorLayer_layer tl) in
  match dims with
  | [] => let m := Add p (IntegerLiteral bonus) in
          Block [grow_stmt m capv arrv ety (double_of capv)] (Some comment)
  | _ => let m := Add (Multiply (Add p (IntegerLiteral 1)) (dims_product dims)) (IntegerLiteral bonus) in
         Block [grow_stmt m capv arrv ety (max_of capv m)] (Some comment)
  end.

Lemma map_to_expression_XE l : map (fun operand => to_expression operand) (map (fun x_ => XE x_) l) = l.
Proof. induction l; simpl; congruence. Qed.

Theorem gen_pos_allocation_shape (tl : TensorLayer) :
  option_map sb_finalize (write_pos_allocation tl)
  = match dense_scan tl with
    | Some (dims, _) => Some (pos_allocation_stmt tl dims)
    | None => None
    end.
Proof.
  unfold write_pos_allocation. fold (dense_scan tl).
  destruct (dense_scan tl) as [[dims br]|]; [|reflexivity].
  cbn [obind]. unfold pos_allocation_stmt, alloc_target.
  destruct (_ =? _)%Z; destruct dims as [|d dims]; try reflexivity;
    cbn -[Z.add Z.of_nat show_Z String.append fold_left map]; unfold Multiply_join;
    rewrite ?map_to_expression_XE; reflexivity.
Qed.

(** * Part 2: refinement on the IR abstract machine *)

Definition is_float_ty (t : ty) : bool := match t with TFloat => true | _ => false end.

(** the growable array (capacity variable [capv], pointer variable [arrv] of element type [ety], block
    [blk]) reads as the model buffer [B] *)
Definition buf_at (st : state) (capv arrv : string) (ety : ty) (blk : positive) (B : buf) : Prop :=
  ivar st capv (b_cap B) /\ pvar st arrv ety blk /\ (blk < next_blk st)%positive /\
  exists bl, PM.find blk (heap st) = Some bl /\ b_live bl = true /\ b_input bl = false /\
             b_float bl = is_float_ty ety /\ 0 <= b_len bl /\ cells_in_range bl /\ b_arr B = arr_of bl.

(** everything but the listed variables and blocks is as before *)
Definition same_except (st st' : state) (vars : list string) (blks : list positive) : Prop :=
  (forall y, ~ In y vars -> lookup y (env st') = lookup y (env st)) /\
  (forall b, ~ In b blks -> (b < next_blk st)%positive -> PM.find b (heap st') = PM.find b (heap st)) /\
  (next_blk st <= next_blk st')%positive.

Lemma same_except_refl st vars blks : same_except st st vars blks.
Proof. repeat split; auto. lia. Qed.

Lemma same_except_trans a b c vars blks :
  same_except a b vars blks -> same_except b c vars blks -> same_except a c vars blks.
Proof.
  intros (E1 & H1 & N1) (E2 & H2 & N2). repeat split.
  - intros y Y. rewrite E2, E1; auto.
  - intros x X L. rewrite H2, H1; auto. lia.
  - lia.
Qed.

Lemma same_except_weaken a b vars blks vars' blks' :
  same_except a b vars blks -> incl vars vars' -> incl blks blks' -> same_except a b vars' blks'.
Proof. intros (E & H & N) I1 I2. repeat split; auto. Qed.

Lemma ivar_frame st st' vars blks x z :
  same_except st st' vars blks -> ~ In x vars -> ivar st x z -> ivar st' x z.
Proof. intros (E & _) N [L I]. split; auto. now rewrite E. Qed.

Lemma buf_at_frame st st' vars blks capv arrv ety blk B :
  same_except st st' vars blks -> ~ In capv vars -> ~ In arrv vars -> ~ In blk blks ->
  buf_at st capv arrv ety blk B -> buf_at st' capv arrv ety blk B.
Proof.
  intros S N1 N2 N3 (Hc & [Hp He] & Hlt & bl & Hf & R). pose proof S as (E & H & N).
  split; [eapply ivar_frame; eauto|]. split; [split; auto; now rewrite E|]. split; [lia|].
  exists bl. split; auto. now rewrite H.
Qed.

Lemma exec_branch n c a b st :
  exec (S n) (Branch c a b) st =
  match eval st c with
  | Err x => Fail x
  | Ok (v, t1) =>
      match as_bool v with
      | Err x => Fail x
      | Ok true => match exec n a st with
                   | Normal st' t2 => Normal st' (t1 ++ t2)
                   | Returned st' r t2 => Returned st' r (t1 ++ t2)
                   | o => o end
      | Ok false => match exec n b st with
                    | Normal st' t2 => Normal st' (t1 ++ t2)
                    | Returned st' r t2 => Returned st' r (t1 ++ t2)
                    | o => o end
      end
  end.
Proof. reflexivity. Qed.

Lemma exec_assignment n tgt val st :
  exec (S n) (Assignment tgt val) st =
  match eval_rhs st val with
  | Err x => Fail x
  | Ok (st1, v, t1) =>
      match eval_loc st1 tgt with
      | Err x => Fail x
      | Ok (l, t2) =>
          match assign st1 l v with
          | Err x => Fail x
          | Ok (st2, t3) => Normal st2 (t1 ++ t2 ++ t3)
          end
      end
  end.
Proof. reflexivity. Qed.

(** [x = e] for an integer variable that completes: [e] was an int32 *)
Lemma exec_assign_int_inv n st x e z0 st' tr :
  is_alloc_form e = false -> ivar st x z0 ->
  exec (S n) (Assignment (Var x) e) st = Normal st' tr ->
  exists z t, eval st e = Ok (VInt z, t) /\ in_int32 z = true /\ st' = set_int st x z.
Proof.
  intros A [L _] H. rewrite exec_assignment, eval_rhs_pure in H by auto.
  destruct (eval st e) as [[v t]|] eqn:E; cbn [bind] in H; [|discriminate].
  cbn [eval_loc assign] in H. rewrite L in H. destruct v; cbn [coerce bind] in H; try discriminate.
  destruct (in_int32 z) eqn:I; cbn [bind] in H; [|discriminate]. inversion H; subst. eauto.
Qed.

(** [a = realloc(a, cap)] that completes *)
Lemma exec_realloc_inv n st capv arrv ety blk bl c st' tr :
  capv <> arrv -> ivar st capv c -> pvar st arrv ety blk ->
  PM.find blk (heap st) = Some bl -> b_live bl = true -> b_input bl = false -> b_float bl = is_float_ty ety ->
  exec (S n) (Assignment (Var arrv) (ArrayReallocate (Var arrv) ety (Var capv))) st = Normal st' tr ->
  0 <= c /\
  st' = mkState (set_var arrv (TPointer ety, Some (VPtr (next_blk st) 0)) (env st))
          (PM.add (next_blk st) (mkBlock (is_float_ty ety) c (keep_prefix c (b_cells bl)) true false)
             (PM.add blk (mkBlock (b_float bl) (b_len bl) (b_cells bl) false false) (heap st)))
          (Pos.succ (next_blk st)) (tensors st) (iters st).
Proof.
  intros Hne Hc Hp Hf Hl Hi Hfl H. rewrite exec_assignment in H.
  cbn [eval_rhs is_Assignable is_Var orb negb] in H.
  rewrite (eval_pvar _ _ _ _ Hp), (eval_ivar _ _ _ Hc) in H. cbn [bind] in H.
  destruct Hp as [Lp Hety]. unfold IRSem.realloc in H.
  assert (EF : elt_is_float ety = Ok (is_float_ty ety)) by (destruct Hety; subst; reflexivity).
  rewrite EF in H. cbn [bind] in H.
  destruct (c <? 0) eqn:C0; [discriminate|]. apply Z.ltb_ge in C0.
  rewrite Hf, Hl, Hi in H. cbn [negb] in H. rewrite Hfl in H. rewrite Bool.eqb_reflx in H. cbn [negb bind] in H.
  cbn [eval_loc assign env with_env] in H. rewrite Lp in H.
  assert (CO : coerce (TPointer ety) (VPtr (next_blk st) 0) = Ok (VPtr (next_blk st) 0)) by (destruct Hety; subst; reflexivity).
  rewrite CO in H. cbn [bind] in H. inversion H; subst. split; auto.
  unfold with_env; cbn [env heap next_blk tensors iters]. now rewrite Hfl.
Qed.

Lemma eval_geq st a b : eval st (GreaterThanOrEqual a b) = bin2 (cmp Z.geb) (eval st a) (eval st b).
Proof. reflexivity. Qed.
Lemma eval_add st a b : eval st (Add a b) = bin2 (arith Z.add fadd true) (eval st a) (eval st b).
Proof. reflexivity. Qed.
Lemma eval_mul st a b : eval st (Multiply a b) = bin2 (arith Z.mul fmul false) (eval st a) (eval st b).
Proof. reflexivity. Qed.
Lemma eval_max st a b : eval st (Max a b) = bin2 (sel Z.gtb) (eval st a) (eval st b).
Proof. reflexivity. Qed.
Lemma eval_lit st z : eval st (IntegerLiteral z) = (do z' <- chk32 z; Ok (VInt z', [])).
Proof. reflexivity. Qed.

Lemma exec_grow_core n st m mz tm capv arrv ety blk B newcap newc st' tr :
  capv <> arrv -> buf_at st capv arrv ety blk B ->
  eval st m = Ok (VInt mz, tm) ->
  is_alloc_form newcap = false ->
  (forall v t, eval st newcap = Ok (v, t) -> v = VInt newc) ->
  exec (S (S (S n))) (grow_stmt m capv arrv ety newcap) st = Normal st' tr ->
  exists blk',
    buf_at st' capv arrv ety blk' (if mz >=? b_cap B then mkBuf newc (realloc (b_arr B) newc) else B)
    /\ same_except st st' [capv; arrv] [blk] /\ (blk' = blk \/ blk' = next_blk st).
Proof.
  intros Hne BA Em Hal Hnew H. pose proof BA as (Hc & Hp & Hlt & bl & Hf & Hlive & Hin & Hfl & Hlen & Hcr & Harr).
  unfold grow_stmt in H. rewrite exec_branch, eval_geq in H.
  rewrite Em, (eval_ivar _ _ _ Hc) in H. cbn [bin2 bind cmp as_bool] in H.
  destruct (mz >=? b_cap B) eqn:G.
  - rewrite exec_block in H.
    destruct (run_block (S n) _ st []) as [s2 t2| | |] eqn:R; try discriminate. inversion H; subst; clear H.
    apply run_block_cons_inv in R. destruct R as (st1 & t1 & E1 & R).
    apply run_block_cons_inv in R. destruct R as (st2 & t3 & E2 & R). rewrite run_block_nil in R. inversion R; subst; clear R.
    eapply exec_assign_int_inv in E1; eauto. destruct E1 as (z & t & En & I32 & ->).
    apply Hnew in En. inversion En; subst z; clear En.
    assert (Hc1 : ivar (set_int st capv newc) capv newc) by now apply ivar_set_int_same.
    assert (Hp1 : pvar (set_int st capv newc) arrv ety blk).
    { destruct Hp as [Lp He]. split; auto. rewrite lookup_set_int_other; auto. }
    eapply exec_realloc_inv in E2; eauto. destruct E2 as (C0 & ->).
    exists (next_blk st). split; [|split; [|now right]].
    + split; [|split; [|split]].
      * split; auto. cbn [env b_cap]. rewrite lookup_set_var. apply String.eqb_neq in Hne. rewrite Hne.
        unfold set_int; cbn [env with_env]. rewrite lookup_set_var, String.eqb_refl. reflexivity.
      * destruct Hp as [_ He]. split; auto. cbn [env]. now rewrite lookup_set_var, String.eqb_refl.
      * unfold set_int, with_env. cbn [next_blk]. lia.
      * eexists. split; [cbn [heap]; apply PM.gss|]. cbn [b_live b_input b_float b_len b_arr].
        repeat split; auto. { now apply cells_in_range_keep_prefix. }
        rewrite Harr. symmetry. now apply arr_of_realloc.
    + repeat split.
      * intros y Y. cbn [env]. cbn [In] in Y. rewrite lookup_set_var.
        assert (Ya : y <> arrv) by (intros ->; apply Y; right; left; reflexivity).
        assert (Yc : y <> capv) by (intros ->; apply Y; left; reflexivity).
        apply String.eqb_neq in Ya. rewrite Ya. now apply lookup_set_int_other.
      * intros b Nb Lb. unfold set_int, with_env. cbn [heap next_blk]. cbn [In] in Nb.
        rewrite !PM.gso; auto; intros ->; try lia; apply Nb; now left.
      * cbn [next_blk set_int with_env]. lia.
  - cbn [exec] in H. inversion H; subst. exists blk. split; [exact BA|]. split; [apply same_except_refl|now left].
Qed.

Lemma eval_double st capv c v t :
  ivar st capv c -> eval st (double_of capv) = Ok (v, t) -> v = VInt (c * 2).
Proof.
  intros Hc H. unfold double_of in H. rewrite eval_mul, (eval_ivar _ _ _ Hc), eval_lit in H.
  cbn in H. unfold chk32 in H. destruct (in_int32 (c * 2)); cbn in H; congruence.
Qed.

Lemma eval_max_of st capv c m mz tm v t :
  ivar st capv c -> eval st m = Ok (VInt mz, tm) -> eval st (max_of capv m) = Ok (v, t) -> v = VInt (Z.max (c * 2) mz).
Proof.
  intros Hc Em H. unfold max_of in H. rewrite eval_max, eval_mul, (eval_ivar _ _ _ Hc), eval_lit, Em in H.
  cbn in H. unfold chk32 in H. destruct (in_int32 (c * 2)); cbn in H; [|discriminate]. inversion H; subst. f_equal.
  destruct (c * 2 >? mz) eqn:G.
  - apply Z.gtb_lt in G. rewrite Z.max_l; lia.
  - rewrite Z.gtb_ltb in G. apply Z.ltb_ge in G. rewrite Z.max_r; lia.
Qed.

(** growth by doubling / by max, as emitted *)
Lemma exec_grow_double n st m mz tm capv arrv ety blk B st' tr :
  capv <> arrv -> buf_at st capv arrv ety blk B -> eval st m = Ok (VInt mz, tm) ->
  exec (S (S (S n))) (grow_stmt m capv arrv ety (double_of capv)) st = Normal st' tr ->
  exists blk', buf_at st' capv arrv ety blk' (grow_double B mz)
               /\ same_except st st' [capv; arrv] [blk] /\ (blk' = blk \/ blk' = next_blk st).
Proof.
  intros Hne BA Em H. eapply exec_grow_core with (newc := b_cap B * 2) in H; eauto.
  intros v t. apply eval_double. apply BA.
Qed.

Lemma exec_grow_max n st m mz tm capv arrv ety blk B st' tr :
  capv <> arrv -> buf_at st capv arrv ety blk B -> eval st m = Ok (VInt mz, tm) ->
  exec (S (S (S n))) (grow_stmt m capv arrv ety (max_of capv m)) st = Normal st' tr ->
  exists blk', buf_at st' capv arrv ety blk' (grow_max B mz)
               /\ same_except st st' [capv; arrv] [blk] /\ (blk' = blk \/ blk' = next_blk st).
Proof.
  intros Hne BA Em H. eapply exec_grow_core with (newc := Z.max (b_cap B * 2) mz) in H; eauto.
  intros v t. eapply eval_max_of; eauto. apply BA.
Qed.

(** [a[idx] = val] on an integer array *)
Lemma exec_store_int n st capv arrv blk B idx i ti val v tv st' tr :
  buf_at st capv arrv TInteger blk B ->
  eval st idx = Ok (VInt i, ti) -> is_alloc_form val = false -> eval st val = Ok (VInt v, tv) ->
  exec (S n) (Assignment (ArrayIndex (Var arrv) idx) val) st = Normal st' tr ->
  exists B', bstore B i v = Some B' /\ buf_at st' capv arrv TInteger blk B' /\ same_except st st' [] [blk].
Proof.
  intros (Hc & Hp & Hlt & bl & Hf & Hlive & Hin & Hfl & Hlen & Hcr & Harr) Ei Hal Ev H.
  rewrite exec_assignment, eval_rhs_pure in H by auto. rewrite Ev in H. cbn [bind] in H.
  cbn [eval_loc] in H. rewrite (eval_pvar _ _ _ _ Hp), Ei in H. cbn [bind assign] in H.
  unfold IRSem.store in H. rewrite Hf, Hlive, Hin in H. cbn [negb] in H.
  destruct ((0 + i <? 0) || (b_len bl <=? 0 + i)) eqn:OB; [discriminate|].
  apply orb_false_iff in OB. destruct OB as [O1 O2]. apply Z.ltb_ge in O1. apply Z.leb_gt in O2.
  rewrite Hfl in H. cbn [is_float_ty coerce] in H. destruct (in_int32 v) eqn:I32; cbn [bind] in H; [|discriminate].
  inversion H; subst; clear H. replace (0 + i) with i in * by lia.
  exists (mkBuf (b_cap B) (arr_of (mkBlock (b_float bl) (b_len bl) (PM.add (key i) (VInt v) (b_cells bl)) true false))).
  split; [|split].
  - unfold bstore. rewrite Harr, arr_of_store by lia. reflexivity.
  - split; [exact Hc|]. split; [exact Hp|]. split; [exact Hlt|].
    eexists. split; [unfold with_heap; cbn [heap]; apply PM.gss|]. cbn [b_live b_input b_float b_len b_arr].
    rewrite Hfl. repeat split; auto. apply cells_in_range_add; auto. lia.
  - repeat split; auto.
    + intros b Nb _. unfold with_heap; cbn [heap]. rewrite PM.gso; auto. intros ->. apply Nb. now left.
    + unfold with_heap; cbn [next_blk]. lia.
Qed.

(** one compressed output level: its two growable arrays (on different blocks) and its cursor *)
Definition level_at (st : state) (N : lnames) (pb cb : positive) (L : lstate) : Prop :=
  buf_at st (n_poscap N) (n_pos N) TInteger pb (s_pos L)
  /\ buf_at st (n_crdcap N) (n_crd N) TInteger cb (s_crd L)
  /\ pb <> cb /\ ivar st (n_ptr N) (s_cur L).

Definition names_distinct (N : lnames) (others : list string) : Prop :=
  NoDup ([n_pos N; n_poscap N; n_crd N; n_crdcap N; n_ptr N] ++ others).

Ltac nd_neq H :=
  let X := fresh in intros X; revert H; unfold names_distinct; cbn [app]; rewrite X;
  repeat (let K := fresh in intros K; inversion K; subst; clear K; cbn [In] in *; try tauto).

(** write_crd_assembly: [if (p >= crd_capacity) { double }  crd[p] = i] is [Append.crd_assembly] *)
Theorem crd_assembly_refines n st N ix c pb cb L st' tr :
  names_distinct N [ix] -> level_at st N pb cb L -> ivar st ix c ->
  exec (S (S (S (S n)))) (crd_assembly_stmt N ix) st = Normal st' tr ->
  exists L' cb', crd_assembly L c = Some L' /\ level_at st' N pb cb' L' /\ ivar st' ix c
                 /\ same_except st st' [n_crdcap N; n_crd N] [cb] /\ (cb' = cb \/ cb' = next_blk st).
Proof.
  intros ND (BP & BC & Hpc & Hcur) Hix H.
  assert (D1 : n_crdcap N <> n_crd N) by nd_neq ND.
  assert (D2 : n_poscap N <> n_crdcap N) by nd_neq ND.
  assert (D3 : n_poscap N <> n_crd N) by nd_neq ND.
  assert (D4 : n_pos N <> n_crdcap N) by nd_neq ND.
  assert (D5 : n_pos N <> n_crd N) by nd_neq ND.
  assert (D6 : n_ptr N <> n_crdcap N) by nd_neq ND.
  assert (D7 : n_ptr N <> n_crd N) by nd_neq ND.
  assert (D8 : ix <> n_crdcap N) by nd_neq ND.
  assert (D9 : ix <> n_crd N) by nd_neq ND.
  unfold crd_assembly_stmt in H. rewrite exec_block in H.
  apply run_block_cons_inv in H. destruct H as (st1 & t1 & E1 & H).
  apply run_block_cons_inv in H. destruct H as (st2 & t2 & E2 & H). rewrite run_block_nil in H. inversion H; subst; clear H.
  eapply exec_grow_double in E1; eauto using eval_ivar.
  destruct E1 as (cb1 & BC1 & S1 & Hcb1).
  assert (NI : forall x, x <> n_crdcap N -> x <> n_crd N -> ~ In x [n_crdcap N; n_crd N]).
  { intros x A B [X|[X|[]]]; congruence. }
  assert (Hcur1 : ivar st1 (n_ptr N) (s_cur L)) by (eapply ivar_frame; eauto).
  assert (Hix1 : ivar st1 ix c) by (eapply ivar_frame; eauto).
  assert (BP1 : buf_at st1 (n_poscap N) (n_pos N) TInteger pb (s_pos L)).
  { eapply buf_at_frame; eauto. intros [X|[]]. congruence. }
  unfold crd_store_stmt in E2.
  eapply exec_store_int in E2; eauto using eval_ivar.
  destruct E2 as (B' & ST & BC2 & S2).
  assert (Hpb1 : (pb < next_blk st)%positive) by apply BP.
  assert (Hcb1' : pb <> cb1) by (destruct Hcb1; subst; auto; lia).
  exists (mkL (s_pos L) B' (s_cur L)), cb1. split; [|split; [|split; [|split]]].
  - unfold crd_assembly. now rewrite ST.
  - split; [|split; [|split]]; auto.
    + eapply buf_at_frame; eauto. intros [X|[]]. congruence.
    + eapply ivar_frame; eauto.
  - eapply ivar_frame; eauto.
  - eapply same_except_trans; eauto.
    destruct S2 as (E & Hh & Nn). repeat split; auto.
    intros b Nb Lb. destruct (Pos.eq_dec b cb1) as [->|Nc].
    + exfalso. destruct Hcb1 as [->| ->]. { apply Nb. now left. }
      destruct S1 as (_ & _ & Nx). destruct BC1 as (_ & _ & Lt & _). lia.
    + apply Hh; auto. intros [X|[]]. congruence.
  - exact Hcb1.
Qed.
