(** TIE "append": the output-writing emitters regenerated from the source (gen/AppendGen.v) perform, on
    the IR abstract machine (spec/IRSem.v), the transitions of the hand model model/Append.v.

    Part 1: closed forms of the regenerated emitters (what IR they return), for every tensor / layer.
    Part 2: refinement: running the emitted IR on the machine from a state that reads as a model state
            ([buf_at], [level_at]) and completing normally gives a state that reads as the model's
            next state -- growth by doubling / by max ([grow_double], [grow_max]), the crd store
            ([crd_assembly]), crd store + cursor increment ([append]), the pos store ([pos_assembly]).
    Part 3: sequences of fragments ([append_all], one segment of [run_segs]).  *)

From Coq Require Import ZArith Bool List String Lia FMapPositive.
From TV Require Import spec.Num spec.Storage spec.PyLib gen.IRAst gen.Names spec.IRSem gen.AppendGen
  proofs.MachineSafety proofs.Certs2Base model.Append proofs.GenAppend_machine.
Import ListNotations.
Open Scope Z_scope.

(** * Part 1: what the regenerated emitters return *)

Definition vname (e : expr) : string := match e with Var x => x | _ => ""%string end.

(** the variables of one compressed output level *)
Record lnames : Type := mkNames {
  n_pos : string; n_poscap : string; n_crd : string; n_crdcap : string; n_ptr : string }.

Definition names_of (t : Tensor) (l : Z) : lnames :=
  mkNames (vname (pos_name (Tensor_name t) l)) (vname (pos_capacity_name (Tensor_name t) l))
          (vname (crd_name (Tensor_name t) l)) (vname (crd_capacity_name (Tensor_name t) l))
          (vname (layer_pointer (Tensor_id t) l)).

(** [if (m >= cap) { cap = newcap; a = realloc(a, cap); }] *)
Definition grow_stmt (m : expr) (capv arrv : string) (ety : ty) (newcap : expr) : stmt :=
  Branch (GreaterThanOrEqual m (Var capv))
    (Block [Assignment (Var capv) newcap;
            Assignment (Var arrv) (ArrayReallocate (Var arrv) ety (Var capv))] None)
    (Block [] None).

Definition double_of (capv : string) : expr := Multiply (Var capv) (IntegerLiteral 2).
Definition max_of (capv : string) (m : expr) : expr := Max (Multiply (Var capv) (IntegerLiteral 2)) m.

Definition crd_store_stmt (N : lnames) (ix : string) : stmt :=
  Assignment (ArrayIndex (Var (n_crd N)) (Var (n_ptr N))) (Var ix).

Definition crd_assembly_stmt (N : lnames) (ix : string) : stmt :=
  Block [grow_stmt (Var (n_ptr N)) (n_crdcap N) (n_crd N) TInteger (double_of (n_crdcap N));
         crd_store_stmt N ix] (Some "crd assembly"%string).

Theorem gen_crd_assembly_shape (tl : TensorLayer) (ix : string) :
  py_getitem (Tensor_indexes (TensorLayer_tensor tl)) (TensorLayer_layer tl) = Some ix ->
  option_map sb_finalize (write_crd_assembly tl)
  = Some (crd_assembly_stmt (names_of (TensorLayer_tensor tl) (TensorLayer_layer tl)) ix).
Proof. intros H. unfold write_crd_assembly. rewrite H. reflexivity. Qed.

(** without an index variable for the layer the emitter raises (IndexError) *)
Theorem gen_crd_assembly_none (tl : TensorLayer) :
  py_getitem (Tensor_indexes (TensorLayer_tensor tl)) (TensorLayer_layer tl) = None ->
  write_crd_assembly tl = None.
Proof. intros H. unfold write_crd_assembly. rewrite H. reflexivity. Qed.

(** [pos[parent + 1] = p] *)
Definition pos_assembly_stmt (N : lnames) (parent : expr) : stmt :=
  Block [Assignment (ArrayIndex (Var (n_pos N)) (Add parent (IntegerLiteral 1))) (Var (n_ptr N))]
        (Some "pos assembly"%string).

Theorem gen_pos_assembly_shape (tl : TensorLayer) :
  sb_finalize (write_pos_assembly tl)
  = pos_assembly_stmt (names_of (TensorLayer_tensor tl) (TensorLayer_layer tl))
      (previous_layer_pointer (Tensor_id (TensorLayer_tensor tl)) (TensorLayer_layer tl)).
Proof. reflexivity. Qed.

(** the cursor increment emitted next to the crd assembly ([p++], built by the regenerated
    [Assignable.increment]) *)
Definition increment_stmt (N : lnames) : stmt := Assignable_increment (Var (n_ptr N)) (XZ 1).

Lemma increment_stmt_eq N :
  increment_stmt N = Assignment (Var (n_ptr N)) (Add (Var (n_ptr N)) (IntegerLiteral 1)).
Proof. reflexivity. Qed.

(** write_pos_allocation: the scan for the dense layers below [layer] (the loop with `break`) *)
Definition dense_scan (tl : TensorLayer) : option (list expr * bool) :=
  ofold (fun (acc_ : list expr * bool) (i_layer : Z) =>
           let '(dense_dimensions, broken_) := acc_ in
           if broken_ then Some (dense_dimensions, true) else
           obind (py_getitem (Tensor_indexes (TensorLayer_tensor tl)) i_layer) (fun t_1 =>
           obind (py_getitem (Tensor_modes (TensorLayer_tensor tl)) i_layer) (fun t_2 =>
           if Mode_eqb t_2 Mode_compressed then Some (dense_dimensions, true)
           else Some ((dense_dimensions ++ [dimension_name t_1])%list, false))))
        (py_range (TensorLayer_layer tl + 1) (Tensor_order (TensorLayer_tensor tl))) ([], false).

(** what is grown: the value array (bonus 0) when the dense run reaches the end, else the pos array
    of the next compressed layer (bonus 1) *)
Definition alloc_target (tl : TensorLayer) (dims : list expr) : string * string * string * ty * Z :=
  let t := TensorLayer_tensor tl in
  let l' := TensorLayer_layer tl + Z.of_nat (List.length dims) + 1 in
  if Z.eqb l' (Z.of_nat (List.length (Tensor_indexes t)))
  then ("vals allocation"%string, vname (vals_capacity_name (Tensor_name t)), vname (vals_name (Tensor_name t)), TFloat, 0)
  else ("pos allocation for next sparse layer"%string, vname (pos_capacity_name (Tensor_name t) l'),
        vname (pos_name (Tensor_name t) l'), TInteger, 1).

Definition dims_product (dims : list expr) : expr := fold_left Multiply dims (IntegerLiteral 1).

Definition pos_allocation_stmt (tl : TensorLayer) (dims : list expr) : stmt :=
  let '(comment, capv, arrv, ety, bonus) := alloc_target tl dims in
  let p := layer_pointer (Tensor_id (TensorLayer_tensor tl)) (TensorLayer_layer tl) in
  match dims with
  | [] => let m := Add p (IntegerLiteral bonus) in
          Block [grow_stmt m capv arrv ety (double_of capv)] (Some comment)
  | _ => let m := Add (Multiply (Add p (IntegerLiteral 1)) (dims_product dims)) (IntegerLiteral bonus) in
         Block [grow_stmt m capv arrv ety (max_of capv m)] (Some comment)
  end.

Lemma map_to_expression_XE l : map (fun operand => to_expression operand) (map (fun x_ => XE x_) l) = l.
Proof. induction l; simpl; congruence. Qed.

Theorem gen_pos_allocation_shape (tl : TensorLayer) :
  option_map sb_finalize (write_pos_allocation tl)
  = match dense_scan tl with
    | Some (dims, _) => Some (pos_allocation_stmt tl dims)
    | None => None
    end.
Proof.
  unfold write_pos_allocation. fold (dense_scan tl).
  destruct (dense_scan tl) as [[dims br]|]; [|reflexivity].
  cbn [obind]. unfold pos_allocation_stmt, alloc_target.
  destruct (_ =? _)%Z; destruct dims as [|d dims]; try reflexivity;
    cbn -[Z.add Z.of_nat show_Z String.append fold_left map]; unfold Multiply_join;
    rewrite ?map_to_expression_XE; reflexivity.
Qed.

(** * Part 2: refinement on the IR abstract machine *)

Definition is_float_ty (t : ty) : bool := match t with TFloat => true | _ => false end.

(** the growable array (capacity variable [capv], pointer variable [arrv] of element type [ety], block
    [blk]) reads as the model buffer [B] *)
Definition buf_at (st : state) (capv arrv : string) (ety : ty) (blk : positive) (B : buf) : Prop :=
  ivar st capv (b_cap B) /\ pvar st arrv ety blk /\ (blk < next_blk st)%positive /\
  exists bl, PM.find blk (heap st) = Some bl /\ b_live bl = true /\ b_input bl = false /\
             b_float bl = is_float_ty ety /\ 0 <= b_len bl /\ cells_in_range bl /\ b_arr B = arr_of bl.

(** everything but the listed variables and blocks is as before *)
Definition same_except (st st' : state) (vars : list string) (blks : list positive) : Prop :=
  (forall y, ~ In y vars -> lookup y (env st') = lookup y (env st)) /\
  (forall b, ~ In b blks -> (b < next_blk st)%positive -> PM.find b (heap st') = PM.find b (heap st)) /\
  (next_blk st <= next_blk st')%positive.

Lemma same_except_refl st vars blks : same_except st st vars blks.
Proof. repeat split; auto. lia. Qed.

Lemma same_except_trans a b c vars blks :
  same_except a b vars blks -> same_except b c vars blks -> same_except a c vars blks.
Proof.
  intros (E1 & H1 & N1) (E2 & H2 & N2). repeat split.
  - intros y Y. rewrite E2, E1; auto.
  - intros x X L. rewrite H2, H1; auto. lia.
  - lia.
Qed.

Lemma same_except_weaken a b vars blks vars' blks' :
  same_except a b vars blks -> incl vars vars' -> incl blks blks' -> same_except a b vars' blks'.
Proof. intros (E & H & N) I1 I2. repeat split; auto. Qed.

Lemma ivar_frame st st' vars blks x z :
  same_except st st' vars blks -> ~ In x vars -> ivar st x z -> ivar st' x z.
Proof. intros (E & _) N [L I]. split; auto. now rewrite E. Qed.

Lemma buf_at_frame st st' vars blks capv arrv ety blk B :
  same_except st st' vars blks -> ~ In capv vars -> ~ In arrv vars -> ~ In blk blks ->
  buf_at st capv arrv ety blk B -> buf_at st' capv arrv ety blk B.
Proof.
  intros S N1 N2 N3 (Hc & [Hp He] & Hlt & bl & Hf & R). pose proof S as (E & H & N).
  split; [eapply ivar_frame; eauto|]. split; [split; auto; now rewrite E|]. split; [lia|].
  exists bl. split; auto. now rewrite H.
Qed.

Lemma exec_branch n c a b st :
  exec (S n) (Branch c a b) st =
  match eval st c with
  | Err x => Fail x
  | Ok (v, t1) =>
      match as_bool v with
      | Err x => Fail x
      | Ok true => match exec n a st with
                   | Normal st' t2 => Normal st' (t1 ++ t2)
                   | Returned st' r t2 => Returned st' r (t1 ++ t2)
                   | o => o end
      | Ok false => match exec n b st with
                    | Normal st' t2 => Normal st' (t1 ++ t2)
                    | Returned st' r t2 => Returned st' r (t1 ++ t2)
                    | o => o end
      end
  end.
Proof. reflexivity. Qed.

Lemma exec_assignment n tgt val st :
  exec (S n) (Assignment tgt val) st =
  match eval_rhs st val with
  | Err x => Fail x
  | Ok (st1, v, t1) =>
      match eval_loc st1 tgt with
      | Err x => Fail x
      | Ok (l, t2) =>
          match assign st1 l v with
          | Err x => Fail x
          | Ok (st2, t3) => Normal st2 (t1 ++ t2 ++ t3)
          end
      end
  end.
Proof. reflexivity. Qed.

(** [x = e] for an integer variable that completes: [e] was an int32 *)
Lemma exec_assign_int_inv n st x e z0 st' tr :
  is_alloc_form e = false -> ivar st x z0 ->
  exec (S n) (Assignment (Var x) e) st = Normal st' tr ->
  exists z t, eval st e = Ok (VInt z, t) /\ in_int32 z = true /\ st' = set_int st x z.
Proof.
  intros A [L _] H. rewrite exec_assignment, eval_rhs_pure in H by auto.
  destruct (eval st e) as [[v t]|] eqn:E; cbn [bind] in H; [|discriminate].
  cbn [eval_loc assign] in H. rewrite L in H. destruct v; cbn [coerce bind] in H; try discriminate.
  destruct (in_int32 z) eqn:I; cbn [bind] in H; [|discriminate]. inversion H; subst. eauto.
Qed.

(** [a = realloc(a, cap)] that completes *)
Lemma exec_realloc_inv n st capv arrv ety blk bl c st' tr :
  capv <> arrv -> ivar st capv c -> pvar st arrv ety blk ->
  PM.find blk (heap st) = Some bl -> b_live bl = true -> b_input bl = false -> b_float bl = is_float_ty ety ->
  exec (S n) (Assignment (Var arrv) (ArrayReallocate (Var arrv) ety (Var capv))) st = Normal st' tr ->
  0 <= c /\
  st' = mkState (set_var arrv (TPointer ety, Some (VPtr (next_blk st) 0)) (env st))
          (PM.add (next_blk st) (mkBlock (is_float_ty ety) c (keep_prefix c (b_cells bl)) true false)
             (PM.add blk (mkBlock (b_float bl) (b_len bl) (b_cells bl) false false) (heap st)))
          (Pos.succ (next_blk st)) (tensors st) (iters st).
Proof.
  intros Hne Hc Hp Hf Hl Hi Hfl H. rewrite exec_assignment in H.
  cbn [eval_rhs is_Assignable is_Var orb negb] in H.
  rewrite (eval_pvar _ _ _ _ Hp), (eval_ivar _ _ _ Hc) in H. cbn [bind] in H.
  destruct Hp as [Lp Hety]. unfold IRSem.realloc in H.
  assert (EF : elt_is_float ety = Ok (is_float_ty ety)) by (destruct Hety; subst; reflexivity).
  rewrite EF in H. cbn [bind] in H.
  destruct (c <? 0) eqn:C0; [discriminate|]. apply Z.ltb_ge in C0.
  rewrite Hf, Hl, Hi in H. cbn [negb] in H. rewrite Hfl in H. rewrite Bool.eqb_reflx in H. cbn [negb bind] in H.
  cbn [eval_loc assign env with_env] in H. rewrite Lp in H.
  assert (CO : coerce (TPointer ety) (VPtr (next_blk st) 0) = Ok (VPtr (next_blk st) 0)) by (destruct Hety; subst; reflexivity).
  rewrite CO in H. cbn [bind] in H. inversion H; subst. split; auto.
  unfold with_env; cbn [env heap next_blk tensors iters]. now rewrite Hfl.
Qed.

Lemma eval_geq st a b : eval st (GreaterThanOrEqual a b) = bin2 (cmp Z.geb) (eval st a) (eval st b).
Proof. reflexivity. Qed.
Lemma eval_add st a b : eval st (Add a b) = bin2 (arith Z.add fadd true) (eval st a) (eval st b).
Proof. reflexivity. Qed.
Lemma eval_mul st a b : eval st (Multiply a b) = bin2 (arith Z.mul fmul false) (eval st a) (eval st b).
Proof. reflexivity. Qed.
Lemma eval_max st a b : eval st (Max a b) = bin2 (sel Z.gtb) (eval st a) (eval st b).
Proof. reflexivity. Qed.
Lemma eval_lit st z : eval st (IntegerLiteral z) = (do z' <- chk32 z; Ok (VInt z', [])).
Proof. reflexivity. Qed.

Lemma exec_grow_core n st m mz tm capv arrv ety blk B newcap newc st' tr :
  capv <> arrv -> buf_at st capv arrv ety blk B ->
  eval st m = Ok (VInt mz, tm) ->
  is_alloc_form newcap = false ->
  (forall v t, eval st newcap = Ok (v, t) -> v = VInt newc) ->
  exec (S (S (S n))) (grow_stmt m capv arrv ety newcap) st = Normal st' tr ->
  exists blk',
    buf_at st' capv arrv ety blk' (if mz >=? b_cap B then mkBuf newc (realloc (b_arr B) newc) else B)
    /\ same_except st st' [capv; arrv] [blk] /\ (blk' = blk \/ blk' = next_blk st).
Proof.
  intros Hne BA Em Hal Hnew H. pose proof BA as (Hc & Hp & Hlt & bl & Hf & Hlive & Hin & Hfl & Hlen & Hcr & Harr).
  unfold grow_stmt in H. rewrite exec_branch, eval_geq in H.
  rewrite Em, (eval_ivar _ _ _ Hc) in H. cbn [bin2 bind cmp as_bool] in H.
  destruct (mz >=? b_cap B) eqn:G.
  - rewrite exec_block in H.
    destruct (run_block (S n) _ st []) as [s2 t2| | |] eqn:R; try discriminate. inversion H; subst; clear H.
    apply run_block_cons_inv in R. destruct R as (st1 & t1 & E1 & R).
    apply run_block_cons_inv in R. destruct R as (st2 & t3 & E2 & R). rewrite run_block_nil in R. inversion R; subst; clear R.
    eapply exec_assign_int_inv in E1; eauto. destruct E1 as (z & t & En & I32 & ->).
    apply Hnew in En. inversion En; subst z; clear En.
    assert (Hc1 : ivar (set_int st capv newc) capv newc) by now apply ivar_set_int_same.
    assert (Hp1 : pvar (set_int st capv newc) arrv ety blk).
    { destruct Hp as [Lp He]. split; auto. rewrite lookup_set_int_other; auto. }
    eapply exec_realloc_inv in E2; eauto. destruct E2 as (C0 & ->).
    exists (next_blk st). split; [|split; [|now right]].
    + split; [|split; [|split]].
      * split; auto. cbn [env b_cap]. rewrite lookup_set_var. apply String.eqb_neq in Hne. rewrite Hne.
        unfold set_int; cbn [env with_env]. rewrite lookup_set_var, String.eqb_refl. reflexivity.
      * destruct Hp as [_ He]. split; auto. cbn [env]. now rewrite lookup_set_var, String.eqb_refl.
      * unfold set_int, with_env. cbn [next_blk]. lia.
      * eexists. split; [cbn [heap]; apply PM.gss|]. cbn [b_live b_input b_float b_len b_arr].
        repeat split; auto. { now apply cells_in_range_keep_prefix. }
        rewrite Harr. symmetry. now apply arr_of_realloc.
    + repeat split.
      * intros y Y. cbn [env]. cbn [In] in Y. rewrite lookup_set_var.
        assert (Ya : y <> arrv) by (intros ->; apply Y; right; left; reflexivity).
        assert (Yc : y <> capv) by (intros ->; apply Y; left; reflexivity).
        apply String.eqb_neq in Ya. rewrite Ya. now apply lookup_set_int_other.
      * intros b Nb Lb. unfold set_int, with_env. cbn [heap next_blk]. cbn [In] in Nb.
        rewrite !PM.gso; auto; intros ->; try lia; apply Nb; now left.
      * cbn [next_blk set_int with_env]. lia.
  - cbn [exec] in H. inversion H; subst. exists blk. split; [exact BA|]. split; [apply same_except_refl|now left].
Qed.

Lemma eval_double st capv c v t :
  ivar st capv c -> eval st (double_of capv) = Ok (v, t) -> v = VInt (c * 2).
Proof.
  intros Hc H. unfold double_of in H. rewrite eval_mul, (eval_ivar _ _ _ Hc), eval_lit in H.
  cbn in H. unfold chk32 in H. destruct (in_int32 (c * 2)); cbn in H; congruence.
Qed.

Lemma eval_max_of st capv c m mz tm v t :
  ivar st capv c -> eval st m = Ok (VInt mz, tm) -> eval st (max_of capv m) = Ok (v, t) -> v = VInt (Z.max (c * 2) mz).
Proof.
  intros Hc Em H. unfold max_of in H. rewrite eval_max, eval_mul, (eval_ivar _ _ _ Hc), eval_lit, Em in H.
  cbn in H. unfold chk32 in H. destruct (in_int32 (c * 2)); cbn in H; [|discriminate]. inversion H; subst. f_equal.
  destruct (c * 2 >? mz) eqn:G.
  - apply Z.gtb_lt in G. rewrite Z.max_l; lia.
  - rewrite Z.gtb_ltb in G. apply Z.ltb_ge in G. rewrite Z.max_r; lia.
Qed.

(** growth by doubling / by max, as emitted *)
Lemma exec_grow_double n st m mz tm capv arrv ety blk B st' tr :
  capv <> arrv -> buf_at st capv arrv ety blk B -> eval st m = Ok (VInt mz, tm) ->
  exec (S (S (S n))) (grow_stmt m capv arrv ety (double_of capv)) st = Normal st' tr ->
  exists blk', buf_at st' capv arrv ety blk' (grow_double B mz)
               /\ same_except st st' [capv; arrv] [blk] /\ (blk' = blk \/ blk' = next_blk st).
Proof.
  intros Hne BA Em H. eapply exec_grow_core with (newc := b_cap B * 2) in H; eauto.
  intros v t. apply eval_double. apply BA.
Qed.

Lemma exec_grow_max n st m mz tm capv arrv ety blk B st' tr :
  capv <> arrv -> buf_at st capv arrv ety blk B -> eval st m = Ok (VInt mz, tm) ->
  exec (S (S (S n))) (grow_stmt m capv arrv ety (max_of capv m)) st = Normal st' tr ->
  exists blk', buf_at st' capv arrv ety blk' (grow_max B mz)
               /\ same_except st st' [capv; arrv] [blk] /\ (blk' = blk \/ blk' = next_blk st).
Proof.
  intros Hne BA Em H. eapply exec_grow_core with (newc := Z.max (b_cap B * 2) mz) in H; eauto.
  intros v t. eapply eval_max_of; eauto. apply BA.
Qed.

(** [a[idx] = val] on an integer array *)
Lemma exec_store_int n st capv arrv blk B idx i val v st' tr :
  buf_at st capv arrv TInteger blk B ->
  (forall x t, eval st idx = Ok (x, t) -> x = VInt i) -> is_alloc_form val = false ->
  (forall x t, eval st val = Ok (x, t) -> x = VInt v) ->
  exec (S n) (Assignment (ArrayIndex (Var arrv) idx) val) st = Normal st' tr ->
  exists B', bstore B i v = Some B' /\ buf_at st' capv arrv TInteger blk B' /\ same_except st st' [] [blk].
Proof.
  intros (Hc & Hp & Hlt & bl & Hf & Hlive & Hin & Hfl & Hlen & Hcr & Harr) Hi Hal Hv H.
  rewrite exec_assignment, eval_rhs_pure in H by auto.
  destruct (eval st val) as [[w tv]|] eqn:Ev; cbn [bind] in H; [|discriminate].
  pose proof (Hv _ _ eq_refl); subst w.
  cbn [eval_loc] in H. rewrite (eval_pvar _ _ _ _ Hp) in H. cbn [bind] in H.
  destruct (eval st idx) as [[vi ti]|] eqn:Ei; cbn [bind] in H; [|discriminate].
  pose proof (Hi _ _ eq_refl); subst vi. cbn [bind assign] in H.
  unfold IRSem.store in H. rewrite Hf, Hlive, Hin in H. cbn [negb] in H.
  destruct ((0 + i <? 0) || (b_len bl <=? 0 + i)) eqn:OB; [discriminate|].
  apply orb_false_iff in OB. destruct OB as [O1 O2]. apply Z.ltb_ge in O1. apply Z.leb_gt in O2.
  rewrite Hfl in H. cbn [is_float_ty coerce] in H. destruct (in_int32 v) eqn:I32; cbn [bind] in H; [|discriminate].
  inversion H; subst; clear H. replace (0 + i) with i in * by lia.
  exists (mkBuf (b_cap B) (arr_of (mkBlock (b_float bl) (b_len bl) (PM.add (key i) (VInt v) (b_cells bl)) true false))).
  split; [|split].
  - unfold bstore. rewrite Harr, arr_of_store by lia. reflexivity.
  - split; [exact Hc|]. split; [exact Hp|]. split; [exact Hlt|].
    eexists. split; [unfold with_heap; cbn [heap]; apply PM.gss|]. cbn [b_live b_input b_float b_len b_arr].
    rewrite Hfl. repeat split; auto; try lia; apply cells_in_range_add; auto; lia.
  - repeat split; auto.
    + intros b Nb _. unfold with_heap; cbn [heap]. rewrite PM.gso; auto. intros ->. apply Nb. now left.
    + unfold with_heap; cbn [next_blk]. lia.
Qed.

(** one compressed output level: its two growable arrays (on different blocks) and its cursor *)
Definition level_at (st : state) (N : lnames) (pb cb : positive) (L : lstate) : Prop :=
  buf_at st (n_poscap N) (n_pos N) TInteger pb (s_pos L)
  /\ buf_at st (n_crdcap N) (n_crd N) TInteger cb (s_crd L)
  /\ pb <> cb /\ ivar st (n_ptr N) (s_cur L).

Definition names_distinct (N : lnames) (others : list string) : Prop :=
  NoDup ([n_pos N; n_poscap N; n_crd N; n_crdcap N; n_ptr N] ++ others).

Lemma nodup_neq {A} (l : list A) i j a b :
  NoDup l -> nth_error l i = Some a -> nth_error l j = Some b -> i <> j -> a <> b.
Proof.
  intros ND Hi Hj Nij E. subst b. apply Nij. eapply NoDup_nth_error; eauto.
  - apply nth_error_Some. congruence.
  - congruence.
Qed.

Ltac nd_neq H i j := eapply (nodup_neq _ i j _ _ H); [reflexivity|reflexivity|lia].

(** write_crd_assembly: [if (p >= crd_capacity) { double }  crd[p] = i] is [Append.crd_assembly] *)
Theorem crd_assembly_refines n st N ix c pb cb L st' tr :
  names_distinct N [ix] -> level_at st N pb cb L -> ivar st ix c ->
  exec (S (S (S (S n)))) (crd_assembly_stmt N ix) st = Normal st' tr ->
  exists L' cb', crd_assembly L c = Some L' /\ level_at st' N pb cb' L' /\ ivar st' ix c
                 /\ same_except st st' [n_crdcap N; n_crd N] [cb] /\ (cb' = cb \/ cb' = next_blk st).
Proof.
  intros ND (BP & BC & Hpc & Hcur) Hix H.
  assert (D1 : n_crdcap N <> n_crd N) by nd_neq ND 3%nat 2%nat.
  assert (D2 : n_poscap N <> n_crdcap N) by nd_neq ND 1%nat 3%nat.
  assert (D3 : n_poscap N <> n_crd N) by nd_neq ND 1%nat 2%nat.
  assert (D4 : n_pos N <> n_crdcap N) by nd_neq ND 0%nat 3%nat.
  assert (D5 : n_pos N <> n_crd N) by nd_neq ND 0%nat 2%nat.
  assert (D6 : n_ptr N <> n_crdcap N) by nd_neq ND 4%nat 3%nat.
  assert (D7 : n_ptr N <> n_crd N) by nd_neq ND 4%nat 2%nat.
  assert (D8 : ix <> n_crdcap N) by nd_neq ND 5%nat 3%nat.
  assert (D9 : ix <> n_crd N) by nd_neq ND 5%nat 2%nat.
  unfold crd_assembly_stmt in H. rewrite exec_block in H.
  apply run_block_cons_inv in H. destruct H as (st1 & t1 & E1 & H).
  apply run_block_cons_inv in H. destruct H as (st2 & t2 & E2 & H). rewrite run_block_nil in H. inversion H; subst; clear H.
  eapply exec_grow_double in E1; eauto using eval_ivar.
  destruct E1 as (cb1 & BC1 & S1 & Hcb1).
  assert (NI : forall x, x <> n_crdcap N -> x <> n_crd N -> ~ In x [n_crdcap N; n_crd N]).
  { intros x A B [X|[X|[]]]; congruence. }
  assert (Hcur1 : ivar st1 (n_ptr N) (s_cur L)) by (eapply ivar_frame; eauto).
  assert (Hix1 : ivar st1 ix c) by (eapply ivar_frame; eauto).
  assert (BP1 : buf_at st1 (n_poscap N) (n_pos N) TInteger pb (s_pos L)).
  { eapply buf_at_frame; eauto. intros [X|[]]. congruence. }
  unfold crd_store_stmt in E2.
  eapply exec_store_int with (i := s_cur L) (v := c) in E2; eauto;
    try (intros x t Ex; rewrite (eval_ivar _ _ _ Hcur1) in Ex || rewrite (eval_ivar _ _ _ Hix1) in Ex; congruence).
  destruct E2 as (B' & ST & BC2 & S2).
  assert (Hpb1 : (pb < next_blk st)%positive) by apply BP.
  assert (Hcb1' : pb <> cb1).
  { destruct Hcb1; subst; auto. intros E. rewrite E in Hpb1. exact (Pos.lt_irrefl _ Hpb1). }
  exists (mkL (s_pos L) B' (s_cur L)), cb1. split; [|split; [|split; [|split]]].
  - unfold crd_assembly. now rewrite ST.
  - split; [|split; [|split]]; auto.
    + eapply buf_at_frame; eauto. intros [X|[]]. congruence.
    + eapply ivar_frame; eauto.
  - eapply ivar_frame; eauto.
  - destruct S1 as (E1 & H1 & N1). destruct S2 as (E2 & H2 & N2). repeat split.
    + intros y Y. rewrite E2 by (intros []). now apply E1.
    + intros b Nb Lb. rewrite H2.
      * now apply H1.
      * intros [X|[]]. subst b. destruct Hcb1 as [->| ->]; [apply Nb; now left|]. exact (Pos.lt_irrefl _ Lb).
      * eapply Pos.lt_le_trans; eauto.
    + eapply Pos.le_trans; eauto.
  - exact Hcb1.
Qed.


(** the cursor increment *)
Lemma same_except_set_int st x z : same_except st (set_int st x z) [x] [].
Proof.
  repeat split.
  - intros y Y. apply lookup_set_int_other. intros ->. apply Y. now left.
  - unfold set_int, with_env; cbn [next_blk]. lia.
Qed.

Lemma level_at_frame st st' vars N pb cb L :
  same_except st st' vars [] ->
  ~ In (n_pos N) vars -> ~ In (n_poscap N) vars -> ~ In (n_crd N) vars -> ~ In (n_crdcap N) vars -> ~ In (n_ptr N) vars ->
  level_at st N pb cb L -> level_at st' N pb cb L.
Proof.
  intros S A1 A2 A3 A4 A5 (BP & BC & Hpc & Hcur). split; [|split; [|split]]; auto.
  - eapply buf_at_frame; eauto.
  - eapply buf_at_frame; eauto.
  - eapply ivar_frame; eauto.
Qed.

Definition append_stmt (N : lnames) (ix : string) : stmt :=
  Block [crd_assembly_stmt N ix; increment_stmt N] None.

(** crd assembly followed by [p++] (what the loop generator puts under [if (written)]) is [Append.append] *)
Theorem append_refines n st N ix c pb cb L st' tr :
  names_distinct N [ix] -> level_at st N pb cb L -> ivar st ix c ->
  exec (S (S (S (S (S n))))) (append_stmt N ix) st = Normal st' tr ->
  exists L' cb', append L c = Some L' /\ level_at st' N pb cb' L' /\ ivar st' ix c.
Proof.
  intros ND LA Hix H. unfold append_stmt in H. rewrite exec_block in H.
  apply run_block_cons_inv in H. destruct H as (st1 & t1 & E1 & H).
  apply run_block_cons_inv in H. destruct H as (st2 & t2 & E2 & H). rewrite run_block_nil in H. inversion H; subst; clear H.
  eapply crd_assembly_refines in E1; eauto. destruct E1 as (L1 & cb1 & CA & LA1 & Hix1 & _ & _).
  rewrite increment_stmt_eq in E2. pose proof LA1 as (BP1 & BC1 & Hpc1 & Hcur1).
  eapply exec_assign_int_inv in E2; eauto. destruct E2 as (z & t & Ez & I32 & ->).
  rewrite eval_add, (eval_ivar _ _ _ Hcur1), eval_lit in Ez. cbn in Ez. unfold chk32 in Ez.
  destruct (in_int32 (s_cur L1 + 1)); cbn in Ez; [|discriminate]. inversion Ez; subst z t; clear Ez.
  assert (P0 : n_pos N <> n_ptr N) by nd_neq ND 0%nat 4%nat.
  assert (P1 : n_poscap N <> n_ptr N) by nd_neq ND 1%nat 4%nat.
  assert (P2 : n_crd N <> n_ptr N) by nd_neq ND 2%nat 4%nat.
  assert (P3 : n_crdcap N <> n_ptr N) by nd_neq ND 3%nat 4%nat.
  assert (P5 : ix <> n_ptr N) by nd_neq ND 5%nat 4%nat.
  assert (NI : forall x, x <> n_ptr N -> ~ In x [n_ptr N]) by (intros x A [X|[]]; congruence).
  exists (mkL (s_pos L1) (s_crd L1) (s_cur L1 + 1)), cb1. split; [|split].
  - unfold append. now rewrite CA.
  - split; [|split; [|split]]; auto.
    + eapply buf_at_frame; eauto using same_except_set_int.
    + eapply buf_at_frame; eauto using same_except_set_int.
    + now apply ivar_set_int_same.
  - eapply ivar_frame; eauto using same_except_set_int.
Qed.

(** write_pos_assembly: [pos[parent + 1] = p] is [Append.pos_assembly] *)
Theorem pos_assembly_refines n st N parent pp tp pb cb L st' tr :
  names_distinct N [] -> level_at st N pb cb L -> eval st parent = Ok (VInt pp, tp) ->
  exec (S (S n)) (pos_assembly_stmt N parent) st = Normal st' tr ->
  exists L', pos_assembly L pp = Some L' /\ level_at st' N pb cb L' /\ same_except st st' [] [pb].
Proof.
  intros ND (BP & BC & Hpc & Hcur) Ep H. unfold pos_assembly_stmt in H. rewrite exec_block in H.
  apply run_block_cons_inv in H. destruct H as (st1 & t1 & E1 & H). rewrite run_block_nil in H. inversion H; subst; clear H.
  eapply exec_store_int with (i := pp + 1) (v := s_cur L) in E1; eauto.
  - destruct E1 as (B' & ST & BP1 & S1). exists (mkL B' (s_crd L) (s_cur L)). split; [|split]; auto.
    + unfold pos_assembly. now rewrite ST.
    + split; [|split; [|split]]; auto.
      * eapply buf_at_frame; eauto. intros [X|[]]. congruence.
      * eapply ivar_frame; eauto.
  - intros x t Ex. rewrite eval_add, Ep, eval_lit in Ex. cbn in Ex. unfold chk32 in Ex.
    destruct (in_int32 (pp + 1)); cbn in Ex; congruence.
  - intros x t Ex. rewrite (eval_ivar _ _ _ Hcur) in Ex. congruence.
Qed.

(** * Part 3: sequences of emitted fragments *)

(** A straight-line driver standing for the loop generator (iteration_graph/_generate_ir.py, not
    translated): it puts each coordinate into the index variable and runs the emitted append fragment;
    a segment ends with the emitted pos assembly for its parent position. *)
Fixpoint segment_stmts (N : lnames) (ix : string) (cs : list Z) : list stmt :=
  match cs with
  | [] => []
  | c :: r => Assignment (Var ix) (IntegerLiteral c) :: append_stmt N ix :: segment_stmts N ix r
  end.

Fixpoint segs_stmts (N : lnames) (ix : string) (parent : Z) (segs : list (list Z)) : list stmt :=
  match segs with
  | [] => []
  | s :: r => (segment_stmts N ix s ++ [pos_assembly_stmt N (IntegerLiteral parent)]) ++ segs_stmts N ix (parent + 1) r
  end.

Lemma names_distinct_drop N ix : names_distinct N [ix] -> names_distinct N [].
Proof.
  unfold names_distinct. cbn [app]. intros H.
  change [n_pos N; n_poscap N; n_crd N; n_crdcap N; n_ptr N; ix]
    with ([n_pos N; n_poscap N; n_crd N; n_crdcap N; n_ptr N] ++ [ix])%list in H.
  apply NoDup_remove_1 in H. now rewrite app_nil_r in H.
Qed.

Theorem append_all_refines n N ix : forall cs st tr0 c0 pb cb L st' tr,
  names_distinct N [ix] -> level_at st N pb cb L -> ivar st ix c0 ->
  run_block (S (S (S (S (S n))))) (segment_stmts N ix cs) st tr0 = Normal st' tr ->
  exists L' cb' c1, append_all L cs = Some L' /\ level_at st' N pb cb' L' /\ ivar st' ix c1.
Proof.
  induction cs as [|c cs IH]; intros st tr0 c0 pb cb L st' tr ND LA Hix H.
  - cbn [segment_stmts] in H. rewrite run_block_nil in H. inversion H; subst. exists L, cb, c0. auto.
  - cbn [segment_stmts] in H.
    apply run_block_cons_inv in H. destruct H as (st1 & t1 & E1 & H).
    apply run_block_cons_inv in H. destruct H as (st2 & t2 & E2 & H).
    eapply exec_assign_int_inv in E1; eauto. destruct E1 as (z & t & Ez & I32 & ->).
    rewrite eval_lit in Ez. unfold chk32 in Ez. destruct (in_int32 c); cbn in Ez; [|discriminate].
    inversion Ez; subst z t; clear Ez.
    assert (LA1 : level_at (set_int st ix c) N pb cb L).
    { eapply level_at_frame; eauto using same_except_set_int; intros [X|[]].
      - revert X. nd_neq ND 5%nat 0%nat.
      - revert X. nd_neq ND 5%nat 1%nat.
      - revert X. nd_neq ND 5%nat 2%nat.
      - revert X. nd_neq ND 5%nat 3%nat.
      - revert X. nd_neq ND 5%nat 4%nat. }
    eapply append_refines in E2; eauto using ivar_set_int_same.
    destruct E2 as (L1 & cb1 & A1 & LA2 & Hix2).
    eapply IH in H; eauto. destruct H as (L' & cb' & c1 & A2 & LA' & Hix').
    exists L', cb', c1. cbn [append_all]. rewrite A1. auto.
Qed.

Theorem run_segs_refines n N ix : forall segs parent st tr0 c0 pb cb L st' tr,
  names_distinct N [ix] -> level_at st N pb cb L -> ivar st ix c0 ->
  run_block (S (S (S (S (S n))))) (segs_stmts N ix parent segs) st tr0 = Normal st' tr ->
  exists L' cb' c1, run_segs L parent segs = Some L' /\ level_at st' N pb cb' L' /\ ivar st' ix c1.
Proof.
  induction segs as [|s segs IH]; intros parent st tr0 c0 pb cb L st' tr ND LA Hix H.
  - cbn [segs_stmts] in H. rewrite run_block_nil in H. inversion H; subst. exists L, cb, c0. auto.
  - cbn [segs_stmts] in H.
    apply run_block_app in H. destruct H as (st2 & t2 & H1 & H2).
    apply run_block_app in H1. destruct H1 as (st1 & t1 & H0 & H1).
    eapply append_all_refines in H0; eauto. destruct H0 as (L1 & cb1 & c1 & A1 & LA1 & Hix1).
    apply run_block_cons_inv in H1. destruct H1 as (st1' & t1' & E & H1). rewrite run_block_nil in H1. inversion H1; subst; clear H1.
    assert (exists tp, eval st1 (IntegerLiteral parent) = Ok (VInt parent, tp)) as (tp & Ep).
    { destruct (eval st1 (IntegerLiteral parent)) as [[v t]|e] eqn:Ev.
      - rewrite eval_lit in Ev. unfold chk32 in Ev. destruct (in_int32 parent); cbn in Ev; [|discriminate].
        inversion Ev; subst. eauto.
      - exfalso. unfold pos_assembly_stmt in E. rewrite exec_block, run_block_cons, exec_assignment in E.
        rewrite eval_rhs_pure in E by reflexivity. pose proof LA1 as (_ & _ & _ & Hcur).
        rewrite (eval_ivar _ _ _ Hcur) in E. cbn [bind eval_loc] in E.
        destruct LA1 as ((_ & Hp & _) & _). rewrite (eval_pvar _ _ _ _ Hp) in E. cbn [bind] in E.
        rewrite eval_add, Ev in E. cbn in E. discriminate. }
    eapply pos_assembly_refines in E; eauto using names_distinct_drop.
    destruct E as (L2 & PA & LA2 & S2).
    assert (Hix2 : ivar st2 ix c1) by (eapply ivar_frame; eauto).
    eapply IH in H2; eauto. destruct H2 as (L' & cb' & c2 & R & LA' & Hix').
    exists L', cb', c2. cbn [run_segs]. rewrite A1, PA. auto.
Qed.

(** the names are those of the regenerated name functions (gen/Names.v, TIE "names") *)
Lemma names_of_are_generated t l :
  let N := names_of t l in
  Var (n_pos N) = pos_name (Tensor_name t) l /\ Var (n_poscap N) = pos_capacity_name (Tensor_name t) l
  /\ Var (n_crd N) = crd_name (Tensor_name t) l /\ Var (n_crdcap N) = crd_capacity_name (Tensor_name t) l
  /\ Var (n_ptr N) = layer_pointer (Tensor_id t) l.
Proof. repeat split. Qed.

Example names_distinct_example :
  names_distinct (names_of (MkTensor "A" "A" ["i"%string] [Mode_compressed]) 0) ["i"%string].
Proof.
  unfold names_distinct. vm_compute.
  repeat (constructor; [cbn [In]; intuition discriminate|]). constructor.
Qed.

(** * write_pos_allocation on the machine *)

Lemma exec_grow_eval n st m capv arrv ety newcap st' tr :
  exec (S n) (grow_stmt m capv arrv ety newcap) st = Normal st' tr -> exists v t, eval st m = Ok (v, t).
Proof.
  unfold grow_stmt. rewrite exec_branch, eval_geq. destruct (eval st m) as [[v t]|e]; eauto. cbn. discriminate.
Qed.

Definition alloc_capv tl dims := let '(_, capv, _, _, _) := alloc_target tl dims in capv.
Definition alloc_arrv tl dims := let '(_, _, arrv, _, _) := alloc_target tl dims in arrv.
Definition alloc_ety tl dims := let '(_, _, _, ety, _) := alloc_target tl dims in ety.
Definition alloc_bonus tl dims := let '(_, _, _, _, bonus) := alloc_target tl dims in bonus.

(** no dense layers in between: [if (p + bonus >= capacity) { double }] is [grow_double _ (p + bonus)]
    -- [Append.pos_allocation PDouble] for the next level's pos array (bonus 1),
       [Append.vals_allocation PDouble] for the value array (bonus 0) *)
Theorem pos_allocation_double_refines n tl st pp blk B st' tr :
  alloc_capv tl [] <> alloc_arrv tl [] ->
  ivar st (vname (layer_pointer (Tensor_id (TensorLayer_tensor tl)) (TensorLayer_layer tl))) pp ->
  buf_at st (alloc_capv tl []) (alloc_arrv tl []) (alloc_ety tl []) blk B ->
  exec (S (S (S (S n)))) (pos_allocation_stmt tl []) st = Normal st' tr ->
  exists blk', buf_at st' (alloc_capv tl []) (alloc_arrv tl []) (alloc_ety tl []) blk'
                 (grow_double B (pp + alloc_bonus tl []))
               /\ same_except st st' [alloc_capv tl []; alloc_arrv tl []] [blk].
Proof.
  unfold pos_allocation_stmt, alloc_capv, alloc_arrv, alloc_ety, alloc_bonus.
  destruct (alloc_target tl []) as [[[[comment capv] arrv] ety] bonus].
  intros Hne Hp BA H. rewrite exec_block in H.
  apply run_block_cons_inv in H. destruct H as (st1 & t1 & E & H). rewrite run_block_nil in H. inversion H; subst; clear H.
  destruct (exec_grow_eval _ _ _ _ _ _ _ _ _ E) as (v & t & Ev).
  assert (v = VInt (pp + bonus)).
  { unfold layer_pointer in Hp, Ev. cbn [vname] in Hp. rewrite eval_add, (eval_ivar _ _ _ Hp), eval_lit in Ev.
    cbn in Ev. unfold chk32 in Ev. destruct (in_int32 bonus); cbn in Ev; [|discriminate].
    destruct (in_int32 (pp + bonus)); cbn in Ev; congruence. }
  subst v. eapply exec_grow_double in E; eauto. destruct E as (blk' & BA' & S' & _). eauto.
Qed.

(** dense layers of total size [D] in between: growth to [max (2 * capacity, (p + 1) * D + bonus)] is
    [grow_max] -- [Append.pos_allocation (PMax D)] / [Append.vals_allocation (PMax D)] *)
Theorem pos_allocation_max_refines n tl d dims st pp D tD blk B st' tr :
  alloc_capv tl (d :: dims) <> alloc_arrv tl (d :: dims) ->
  ivar st (vname (layer_pointer (Tensor_id (TensorLayer_tensor tl)) (TensorLayer_layer tl))) pp ->
  eval st (dims_product (d :: dims)) = Ok (VInt D, tD) ->
  buf_at st (alloc_capv tl (d :: dims)) (alloc_arrv tl (d :: dims)) (alloc_ety tl (d :: dims)) blk B ->
  exec (S (S (S (S n)))) (pos_allocation_stmt tl (d :: dims)) st = Normal st' tr ->
  exists blk', buf_at st' (alloc_capv tl (d :: dims)) (alloc_arrv tl (d :: dims)) (alloc_ety tl (d :: dims)) blk'
                 (grow_max B ((pp + 1) * D + alloc_bonus tl (d :: dims)))
               /\ same_except st st' [alloc_capv tl (d :: dims); alloc_arrv tl (d :: dims)] [blk].
Proof.
  unfold pos_allocation_stmt, alloc_capv, alloc_arrv, alloc_ety, alloc_bonus.
  destruct (alloc_target tl (d :: dims)) as [[[[comment capv] arrv] ety] bonus].
  intros Hne Hp ED BA H. rewrite exec_block in H.
  apply run_block_cons_inv in H. destruct H as (st1 & t1 & E & H). rewrite run_block_nil in H. inversion H; subst; clear H.
  destruct (exec_grow_eval _ _ _ _ _ _ _ _ _ E) as (v & t & Ev).
  assert (v = VInt ((pp + 1) * D + bonus)).
  { unfold layer_pointer in Hp, Ev. cbn [vname] in Hp.
    rewrite eval_add, eval_mul, eval_add, (eval_ivar _ _ _ Hp), !eval_lit, ED in Ev.
    cbn in Ev. unfold chk32 in Ev.
    unfold bin2, bind in Ev.
    repeat match type of Ev with
           | context [if in_int32 ?x then _ else _] =>
               destruct (in_int32 x); cbn in Ev; unfold chk32, bind in Ev; try discriminate
           end.
    congruence. }
  subst v. eapply exec_grow_max in E; eauto. destruct E as (blk' & BA' & S' & _). eauto.
Qed.

(** * write_declarations / write_cleanup: closed forms for the mode strings of order 1 and 2
      (what is regenerated is compared with the fragments that model/Append.v transcribes:
      [decl_level] = [decl_level_stmts], [cleanup] = [cleanup_level_stmts]).  The general statement
      (every mode list, by induction over the loop) and the machine refinement of these two emitters
      are NOT proved. *)

Definition dcl (x : expr) (t : ty) (v : expr) : stmt := DeclarationAssignment (Declaration x t) v.

(** pos_capacity = pos_size; pos = alloc(pos_capacity); pos[0] = 0; crd_capacity = c0; crd = alloc(crd_capacity) *)
Definition decl_level_stmts (name : string) (i : Z) (pos_size c0 : expr) : list stmt :=
  [dcl (pos_capacity_name name i) TInteger pos_size;
   Assignment (pos_name name i) (ArrayAllocate TInteger (pos_capacity_name name i));
   Assignment (ArrayIndex (pos_name name i) (IntegerLiteral 0)) (IntegerLiteral 0);
   dcl (crd_capacity_name name i) TInteger c0;
   Assignment (crd_name name i) (ArrayAllocate TInteger (crd_capacity_name name i))].

Definition decl_ptr_stmt (id : string) (i : Z) : stmt := dcl (layer_pointer id i) TInteger (IntegerLiteral 0).

Definition decl_vals_stmts (name : string) (size : expr) : list stmt :=
  [dcl (vals_capacity_name name) TInteger size;
   Assignment (vals_name name) (ArrayAllocate TFloat (vals_capacity_name name))].

Definition cleanup_level_stmts (id name : string) (i : Z) (shrink_pos : option expr) : list stmt :=
  (match shrink_pos with
   | Some prev => [Assignment (pos_name name i) (ArrayReallocate (pos_name name i) TInteger (Add prev (IntegerLiteral 1)))]
   | None => []
   end ++
   [Assignment (crd_name name i) (ArrayReallocate (crd_name name i) TInteger (layer_pointer id i));
    Assignment (ArrayIndex (ArrayIndex (AttributeAccess (Var name) "indices") (IntegerLiteral i)) (IntegerLiteral 0)) (pos_name name i);
    Assignment (ArrayIndex (ArrayIndex (AttributeAccess (Var name) "indices") (IntegerLiteral i)) (IntegerLiteral 1)) (crd_name name i)])%list.

Definition cleanup_vals_stmts (name : string) (padded : option expr) : list stmt :=
  (match padded with
   | Some p => [Assignment (vals_name name) (ArrayReallocate (vals_name name) TFloat p)]
   | None => []
   end ++ [Assignment (AttributeAccess (Var name) "vals") (vals_name name)])%list.

Definition one := IntegerLiteral 1.

Theorem gen_declarations_c cap id name ix kt : KernelType_is_assemble kt = true ->
  option_map sb_lines (AppendOutput_write_declarations cap (MkAppendOutput (MkTensor id name [ix] [Mode_compressed]) 0) kt)
  = Some (decl_level_stmts name 0 (Add one one) (default_array_size cap) ++ [decl_ptr_stmt id 0]
          ++ decl_vals_stmts name (default_array_size cap))%list.
Proof. destruct kt; try discriminate; reflexivity. Qed.

Theorem gen_declarations_compute cap id name ix :
  option_map sb_lines (AppendOutput_write_declarations cap (MkAppendOutput (MkTensor id name [ix] [Mode_compressed]) 0) KernelType_compute)
  = Some [decl_ptr_stmt id 0].
Proof. reflexivity. Qed.

Theorem gen_declarations_dc cap id name i j kt : KernelType_is_assemble kt = true ->
  option_map sb_lines (AppendOutput_write_declarations cap (MkAppendOutput (MkTensor id name [i; j] [Mode_dense; Mode_compressed]) 0) kt)
  = Some (decl_level_stmts name 1 (Add (Multiply one (dimension_name i)) one) (default_array_size cap)
          ++ [decl_ptr_stmt id 1] ++ decl_vals_stmts name (default_array_size cap))%list.
Proof. destruct kt; try discriminate; reflexivity. Qed.

Theorem gen_declarations_cc cap id name i j kt : KernelType_is_assemble kt = true ->
  option_map sb_lines (AppendOutput_write_declarations cap (MkAppendOutput (MkTensor id name [i; j] [Mode_compressed; Mode_compressed]) 0) kt)
  = Some (decl_level_stmts name 0 (Add one one) (default_array_size cap) ++ [decl_ptr_stmt id 0]
          ++ decl_level_stmts name 1 (default_array_size cap) (default_array_size cap) ++ [decl_ptr_stmt id 1]
          ++ decl_vals_stmts name (default_array_size cap))%list.
Proof. destruct kt; try discriminate; reflexivity. Qed.

Theorem gen_cleanup_c id name ix kt : KernelType_is_assemble kt = true ->
  option_map sb_lines (AppendOutput_write_cleanup (MkAppendOutput (MkTensor id name [ix] [Mode_compressed]) 0) kt)
  = Some (cleanup_level_stmts id name 0 None ++ cleanup_vals_stmts name (Some (Add (layer_pointer id 0) one)))%list.
Proof. destruct kt; try discriminate; reflexivity. Qed.

Theorem gen_cleanup_cc id name i j kt : KernelType_is_assemble kt = true ->
  option_map sb_lines (AppendOutput_write_cleanup (MkAppendOutput (MkTensor id name [i; j] [Mode_compressed; Mode_compressed]) 0) kt)
  = Some (cleanup_level_stmts id name 0 None ++ cleanup_level_stmts id name 1 (Some (layer_pointer id 0))
          ++ cleanup_vals_stmts name (Some (Add (layer_pointer id 1) one)))%list.
Proof. destruct kt; try discriminate; reflexivity. Qed.

Theorem gen_cleanup_cd id name i j kt : KernelType_is_assemble kt = true ->
  option_map sb_lines (AppendOutput_write_cleanup (MkAppendOutput (MkTensor id name [i; j] [Mode_compressed; Mode_dense]) 0) kt)
  = Some (cleanup_level_stmts id name 0 None
          ++ cleanup_vals_stmts name (Some (Multiply (Add (layer_pointer id 0) one) (dimension_name j))))%list.
Proof. destruct kt; try discriminate; reflexivity. Qed.

(** compute kernels: write_cleanup emits nothing, write_declarations only the cursors (no allocation form) *)
Theorem gen_cleanup_compute o : AppendOutput_write_cleanup o KernelType_compute
  = Some (MkSB [] (Some ("Assembling output tensor " ++ Tensor_name (AppendOutput_output o))%string)).
Proof. reflexivity. Qed.
