(** The harness-level statement of C04 from the two kernel-level simulations:
    [run_check fe ts ... = VOk -> run_history [(fa,[]); (fc,[])] ts ... = VOk \/ = VFail EOutOfBounds].

    Glue: (1) a run preserves the dimensions and the number of levels of every tensor struct;
    (2) facts about the harness' initial states (all blocks are input blocks, argument list,
    shape of the output struct); (3) the state assemble ends in satisfies [PreC] against the
    initial state (frame of MachineSafety.v + [out_clean] of the input certificate + the relation
    [RA0] with evaluate's final state); (4) [check_output] read through [RA0] / [RC_values] and
    the frame of the compute certificate ([compute_store_sound]). *)

From Coq Require Import ZArith Bool List String Lia FMapPositive.
From Flocq Require Import Core BinarySingleNaN.
From TV Require Import spec.Num gen.IRAst spec.IRSem spec.IRRun
  proofs.MachineSafety proofs.InitState proofs.Certs proofs.Certs2Base proofs.Certs2Input proofs.Certs2Store
  proofs.Certs3Defs proofs.Certs3Base proofs.Certs3Asm proofs.Certs3Cmp.
Import ListNotations.
Open Scope Z_scope.

Local Arguments add_block : simpl never.

(** * (1) runs preserve the shape of the tensor structs *)

Definition shape_le (st st' : state) : Prop :=
  forall t ts, PM.find t (tensors st) = Some ts ->
    exists ts', PM.find t (tensors st') = Some ts' /\ t_dims ts' = t_dims ts /\
                List.length (t_idx ts') = List.length (t_idx ts).

Lemma shape_le_refl st : shape_le st st.
Proof. intros t ts F. eauto. Qed.

Lemma shape_le_trans a b c : shape_le a b -> shape_le b c -> shape_le a c.
Proof.
  intros X Y t ts F. destruct (X _ _ F) as (ts1 & F1 & D1 & L1). destruct (Y _ _ F1) as (ts2 & F2 & D2 & L2).
  exists ts2. repeat split; auto; congruence.
Qed.

Lemma shape_le_tensors a b : tensors b = tensors a -> shape_le a b.
Proof. intros E t ts F. rewrite E. eauto. Qed.

Lemma eval_rhs_tensors st e st1 v t1 : eval_rhs st e = Ok (st1, v, t1) -> tensors st1 = tensors st.
Proof.
  destruct (is_alloc e) eqn:AL.
  - destruct e as [| | | | | | | | | | | | | | | | | | | | ety n | o ety n]; try discriminate AL;
      simpl; unfold bind; intros H.
    + destruct (eval st n) as [[w t]|]; try discriminate. destruct w; try discriminate.
      unfold alloc, bind in H. destruct (elt_is_float ety); try discriminate.
      destruct (z <? 0); try discriminate. inv H. reflexivity.
    + destruct (negb (is_Assignable o)); try discriminate.
      destruct (eval st o) as [[ov t]|]; try discriminate. destruct (eval st n) as [[w t2]|]; try discriminate.
      destruct w; try discriminate. unfold realloc, alloc, bind in H.
      destruct (elt_is_float ety); try discriminate. destruct (z <? 0); try discriminate.
      destruct ov; try discriminate.
      * destruct off; try discriminate. destruct (PM.find blk (heap st)); try discriminate.
        destruct (negb (b_live b)); try discriminate. destruct (b_input b); try discriminate.
        destruct (negb _); try discriminate. inv H. reflexivity.
      * inv H. reflexivity.
  - rewrite eval_rhs_pure by exact AL. unfold bind. destruct (eval st e) as [[w t]|]; try discriminate.
    intros H. inv H. reflexivity.
Qed.

Lemma assign_shape st l v st' tr : assign st l v = Ok (st', tr) -> shape_le st st'.
Proof.
  destruct l; unfold assign, bind, tensor_of; intros H.
  - destruct (lookup x (env st)) as [[t o]|]; try discriminate. destruct (coerce t v); try discriminate.
    inv H. apply shape_le_tensors. reflexivity.
  - destruct (store st blk off v) as [s1|] eqn:S; try discriminate. inv H. apply shape_le_tensors.
    unfold store, bind in S. destruct (PM.find blk (heap st)); try discriminate.
    destruct (negb (b_live b)); try discriminate. destruct (b_input b); try discriminate.
    destruct (_ || _); try discriminate. destruct (coerce _ v); try discriminate. inv S. reflexivity.
  - destruct (PM.find t (tensors st)) as [ts|] eqn:F; try discriminate.
    destruct (negb (t_output ts)); try discriminate. destruct (negb (is_ptr v)); try discriminate. inv H.
    intros t0 ts0 F0. simpl. destruct (Pos.eq_dec t0 t) as [->|N].
    + rewrite PM.gss. rewrite F in F0. inv F0. eexists. split; [reflexivity|]. simpl. auto.
    + rewrite PM.gso by exact N. eauto.
  - destruct (PM.find t (tensors st)) as [ts|] eqn:F; try discriminate.
    destruct (negb (t_output ts)); try discriminate. destruct (negb (is_ptr v)); try discriminate.
    destruct (l <? 0); try discriminate.
    destruct (nth_error (t_idx ts) (Z.to_nat l)) as [[p q]|]; try discriminate.
    destruct (if j =? 0 then Some (v, q) else if j =? 1 then Some (p, v) else None) as [pc|]; try discriminate.
    destruct (set_nth (t_idx ts) (Z.to_nat l) pc) as [idx'|] eqn:SN; try discriminate. inv H.
    intros t0 ts0 F0. simpl. destruct (Pos.eq_dec t0 t) as [->|N].
    + rewrite PM.gss. rewrite F in F0. inv F0. eexists. split; [reflexivity|]. simpl. split; auto.
      eapply set_nth_length; eauto.
    + rewrite PM.gso by exact N. eauto.
Qed.

Lemma atomic_shape s st : is_atomic s = true ->
  match exec 1 s st with
  | Normal st' _ => shape_le st st'
  | Returned st' _ _ => shape_le st st'
  | _ => True
  end.
Proof.
  intros A. destruct s; try discriminate A; simpl.
  - destruct name; simpl; auto. apply shape_le_tensors. reflexivity.
  - destruct (eval_rhs st value) as [[[s1 v] t1]|] eqn:R; auto.
    destruct (eval_loc s1 target) as [[l t2]|]; auto.
    destruct (assign s1 l v) as [[s2 t3]|] eqn:As; auto.
    eapply shape_le_trans; [apply shape_le_tensors; eapply eval_rhs_tensors; eauto|].
    eapply assign_shape; eauto.
  - destruct s; auto. destruct (eval_rhs st value) as [[[s1 v] t1]|] eqn:R; auto.
    destruct (coerce type v); auto. destruct name; simpl; auto.
    apply shape_le_tensors. simpl. eapply eval_rhs_tensors; eauto.
  - destruct (eval st value) as [[v t]|]; auto. apply shape_le_refl.
  - destruct (eval st e) as [[v t]|]; auto. apply shape_le_refl.
Qed.

Theorem call_shape fuel f args st st' v tr : call fuel f args st = Returned st' v tr -> shape_le st st'.
Proof.
  destruct f as [name ps rt body]. unfold call.
  destruct (bind_params ps args []) as [e|]; try discriminate.
  pose proof (exec_invariant (fun s => shape_le (with_env st e) s) (fun _ => True) (fun _ => true)) as X.
  specialize (X (fun s H => H)).
  assert (G : good (fun s => shape_le (with_env st e) s) (fun _ => True) (exec fuel body (with_env st e))).
  { apply X; auto.
    - intros. apply forallb_forall. auto.
    - intros s s0 A _ P. pose proof (atomic_shape s s0 A) as Y.
      destruct (exec 1 s s0); simpl; auto; eapply shape_le_trans; eauto.
    - apply shape_le_refl. }
  destruct (exec fuel body (with_env st e)) as [|s1 r t1| |]; try discriminate.
  destruct (coerce rt r); try discriminate. intros H. inv H. exact G.
Qed.

(** * (2) the harness' initial states *)

Definition all_input (st : state) : Prop :=
  forall b blk, PM.find b (heap st) = Some blk -> b_input blk = true.

Lemma add_block_ai st fl n cells : all_input st -> all_input (fst (add_block st fl n cells true)).
Proof.
  intros A b blk F. unfold add_block in F. simpl in F. destruct (Pos.eq_dec b (next_blk st)) as [->|N].
  - rewrite PM.gss in F. inv F. reflexivity.
  - rewrite PM.gso in F by exact N. eauto.
Qed.

Lemma add_levels_ai lv : forall st, all_input st -> all_input (fst (add_levels st lv)).
Proof.
  induction lv as [|[[pos crd]|] r IH]; intros st A; cbn [add_levels]; auto.
  - match goal with |- context [add_block st ?a1 ?a2 ?a3 true] =>
      pose proof (add_block_ai st a1 a2 a3 A) as A1; destruct (add_block st a1 a2 a3 true) as [st1 p] end.
    cbn [fst] in A1.
    match goal with |- context [add_block st1 ?a1 ?a2 ?a3 true] =>
      pose proof (add_block_ai st1 a1 a2 a3 A1) as A2; destruct (add_block st1 a1 a2 a3 true) as [st2 c] end.
    cbn [fst] in A2. specialize (IH st2 A2). destruct (add_levels st2 r) as [st3 l]. exact IH.
  - specialize (IH st A). destruct (add_levels st r) as [st3 l]. exact IH.
Qed.

Lemma add_tensor_ai st id t : all_input st -> all_input (add_tensor st id t).
Proof.
  intros A. unfold add_tensor. destruct (ti_output t); [exact A|].
  pose proof (add_levels_ai (ti_levels t) st A) as A1. destruct (add_levels st (ti_levels t)) as [st1 idx].
  cbn [fst] in A1.
  match goal with |- context [add_block st1 ?a1 ?a2 ?a3 true] =>
    pose proof (add_block_ai st1 a1 a2 a3 A1) as A2; destruct (add_block st1 a1 a2 a3 true) as [st2 v] end.
  exact A2.
Qed.

Lemma init_tensors_ai ts : forall st id, all_input st -> all_input (fst (init_tensors st id ts)).
Proof.
  induction ts as [|t r IH]; intros st id A; cbn [init_tensors]; auto.
  specialize (IH _ (Pos.succ id) (add_tensor_ai st id t A)).
  destruct (init_tensors (add_tensor st id t) (Pos.succ id) r). exact IH.
Qed.

Lemma init_state_ai ts : all_input (fst (init_state ts)).
Proof. apply init_tensors_ai. intros b blk F. simpl in F. rewrite PM.gempty in F. discriminate. Qed.

Fixpoint pseq (id : positive) (n : nat) : list positive :=
  match n with O => [] | S k => id :: pseq (Pos.succ id) k end.

Lemma pseq_ge n : forall id x, In x (pseq id n) -> (id <= x)%positive.
Proof.
  induction n as [|n IH]; intros id x I; simpl in I; [contradiction|]. destruct I as [<-|I]; [lia|].
  apply IH in I. lia.
Qed.

Lemma init_tensors_args ts : forall st id,
  snd (init_tensors st id ts) = map VTensor (pseq id (List.length ts)).
Proof.
  induction ts as [|t r IH]; intros st id; cbn [init_tensors]; auto.
  specialize (IH (add_tensor st id t) (Pos.succ id)).
  destruct (init_tensors (add_tensor st id t) (Pos.succ id) r). simpl in *. now rewrite IH.
Qed.

Lemma add_tensor_same st id t :
  exists ts, PM.find id (tensors (add_tensor st id t)) = Some ts /\ t_output ts = ti_output t /\
             (ti_output t = true ->
              ts = mkTensorS (ti_dims t) (map (fun _ => (VNull, VNull)) (ti_levels t)) VNull true).
Proof.
  unfold add_tensor. destruct (ti_output t).
  - eexists. simpl. rewrite PM.gss. auto.
  - destruct (add_levels st (ti_levels t)) as [st1 idx].
    match goal with |- context [add_block st1 ?a1 ?a2 ?a3 ?a4] => destruct (add_block st1 a1 a2 a3 a4) as [st2 v] end.
    eexists. simpl. rewrite PM.gss. split; [reflexivity|]. split; [reflexivity|discriminate].
Qed.

(** tensor structs other than the first are inputs *)
Definition no_out (st : state) : Prop :=
  forall t ts, PM.find t (tensors st) = Some ts -> t <> 1%positive -> t_output ts = false.

Lemma init_tensors_no_out ts : forall st id, no_out st -> (1 < id)%positive ->
  Forall (fun t => ti_output t = false) ts -> no_out (fst (init_tensors st id ts)).
Proof.
  induction ts as [|t r IH]; intros st id N L F; cbn [init_tensors]; auto.
  inv F. assert (N1 : no_out (add_tensor st id t)).
  { intros k ts F N0. destruct (Pos.eq_dec k id) as [->|Q].
    - destruct (add_tensor_same st id t) as (ts' & F' & O & _). rewrite F in F'. inv F'. congruence.
    - rewrite add_tensor_other in F by exact Q. eauto. }
  specialize (IH _ (Pos.succ id) N1 ltac:(lia) H2).
  destruct (init_tensors (add_tensor st id t) (Pos.succ id) r). exact IH.
Qed.

Definition out_first (ts : list tin) : Prop :=
  match ts with
  | t0 :: rest => ti_output t0 = true /\ Forall (fun t => ti_output t = false) rest
  | [] => False
  end.

Lemma init_state_facts t0 rest : out_first (t0 :: rest) ->
  let st0 := fst (init_state (t0 :: rest)) in
  snd (init_state (t0 :: rest)) = VTensor 1 :: map VTensor (pseq 2 (List.length rest)) /\
  PM.find 1%positive (tensors st0) =
    Some (mkTensorS (ti_dims t0) (map (fun _ => (VNull, VNull)) (ti_levels t0)) VNull true) /\
  no_out st0.
Proof.
  intros [O F] st0. unfold st0, init_state. cbn [init_tensors].
  pose proof (init_tensors_args rest (add_tensor empty_state 1 t0) 2%positive) as A.
  pose proof (init_tensors_other rest (add_tensor empty_state 1 t0) 2%positive) as Ot.
  assert (N1 : no_out (add_tensor empty_state 1 t0)).
  { intros k ts Fk Nk. rewrite add_tensor_other in Fk by exact Nk. simpl in Fk. rewrite PM.gempty in Fk.
    discriminate. }
  pose proof (init_tensors_no_out rest _ 2%positive N1 ltac:(lia) F) as N.
  change (Pos.succ 1) with 2%positive.
  destruct (init_tensors (add_tensor empty_state 1 t0) 2 rest) as [st args]. cbn [fst snd] in *.
  split; [now rewrite A|]. split; [|exact N].
  rewrite (Ot st args 1%positive eq_refl) by lia.
  destruct (add_tensor_same empty_state 1%positive t0) as (ts & Fs & _ & E). rewrite Fs, (E O). reflexivity.
Qed.

(** * (4) reading the output *)

Lemma check_levels_ext st st' idx : forall exp,
  (forall p q, In (p, q) idx -> forall w, read_ptr st' p w = read_ptr st p w /\ read_ptr st' q w = read_ptr st q w) ->
  check_levels st' idx exp = check_levels st idx exp.
Proof.
  induction idx as [|[p q] r IH]; intros exp H; destruct exp as [|[[pos crd]|] exp']; simpl; auto.
  - destruct (H p q (or_introl eq_refl) (zlen pos)) as [-> _].
    destruct (H p q (or_introl eq_refl) (zlen crd)) as [_ ->].
    destruct (read_ptr st p (zlen pos)) as [[lp cp]|]; auto.
    destruct (read_ptr st q (zlen crd)) as [[lc cc]|]; auto.
    destruct (negb (lp =? zlen pos)); auto. destruct (negb (lc =? zlen crd)); auto.
    destruct (negb (all2 same_int cp pos)); auto. destruct (negb (all2 same_int cc crd)); auto.
    apply IH. intros p0 q0 I. apply H. now right.
  - destruct p; auto. destruct q; auto. apply IH. intros p0 q0 I. apply H. now right.
Qed.

Lemma check_levels_isptr st idx : forall exp, check_levels st idx exp = None ->
  forall p q, In (p, q) idx -> is_ptr p && is_ptr q = true.
Proof.
  induction idx as [|[p q] r IH]; intros exp H p0 q0 I; [contradiction|].
  destruct exp as [|[[pos crd]|] exp']; simpl in H; try discriminate.
  - destruct (read_ptr st p (zlen pos)) as [[lp cp]|] eqn:Rp; try discriminate.
    destruct (read_ptr st q (zlen crd)) as [[lc cc]|] eqn:Rq; try discriminate.
    destruct (negb (lp =? zlen pos)); try discriminate. destruct (negb (lc =? zlen crd)); try discriminate.
    destruct (negb (all2 same_int cp pos)); try discriminate.
    destruct (negb (all2 same_int cc crd)); try discriminate.
    destruct I as [Q|I]; [|eauto]. inv Q. destruct p0; try discriminate. destruct q0; try discriminate. reflexivity.
  - destruct p; try discriminate. destruct q; try discriminate.
    destruct I as [Q|I]; [|eauto]. inv Q. reflexivity.
Qed.

Lemma all2_sub (ce cc : PM.t value) (l : list nat) : forall vals,
  (forall i v, In i l -> PM.find (key (Z.of_nat i)) ce = Some v -> PM.find (key (Z.of_nat i)) cc = Some v) ->
  all2 same_float (map (fun i => PM.find (key (Z.of_nat i)) ce) l) vals = true ->
  all2 same_float (map (fun i => PM.find (key (Z.of_nat i)) cc) l) vals = true.
Proof.
  induction l as [|i r IH]; intros vals H A; destruct vals as [|x vals']; simpl in *; auto.
  apply andb_prop in A. destruct A as [A1 A2].
  destruct (PM.find (key (Z.of_nat i)) ce) as [v|] eqn:F; [|discriminate A1].
  rewrite (H i v (or_introl eq_refl) F), A1. simpl. apply IH; auto.
Qed.

Lemma check_output_transfer a c exp vals exact :
  tensors c = tensors a ->
  (forall ts, PM.find 1%positive (tensors a) = Some ts -> forall p q, In (p, q) (t_idx ts) ->
     forall w, read_ptr c p w = read_ptr a p w /\ read_ptr c q w = read_ptr a q w) ->
  (forall ts n lv cv, PM.find 1%positive (tensors a) = Some ts ->
     read_ptr a (t_vals ts) n = Some (lv, cv) ->
     exists cv', read_ptr c (t_vals ts) n = Some (lv, cv') /\
                 forall vs, all2 same_float cv vs = true -> all2 same_float cv' vs = true) ->
  check_output a 1%positive exp vals exact = VOk -> check_output c 1%positive exp vals exact = VOk.
Proof.
  intros T H2 H3 C. unfold check_output in *. rewrite T.
  destruct (PM.find 1%positive (tensors a)) as [ts|] eqn:F; try discriminate.
  rewrite (check_levels_ext a c (t_idx ts) exp (H2 ts eq_refl)).
  destruct (check_levels a (t_idx ts) exp); try discriminate.
  destruct (read_ptr a (t_vals ts) (zlen vals)) as [[lv cv]|] eqn:R; try discriminate.
  destruct (H3 ts _ _ _ eq_refl R) as (cv' & -> & Hc).
  destruct (if exact then negb (lv =? zlen vals) else lv <? zlen vals); try discriminate.
  destruct (negb (all2 same_float cv vals)) eqn:A; try discriminate. apply negb_false_iff in A.
  now rewrite (Hc _ A).
Qed.

Lemma read_ptr_RA rl DB a b p w : RA rl DB a b -> ptr_int (heap a) p -> read_ptr b p w = read_ptr a p w.
Proof.
  intros R Pi. destruct p; auto. simpl in Pi. destruct Pi as (x & F & Fl). unfold read_ptr.
  pose proof (ra_heap _ _ _ _ R blk) as H. rewrite F in *.
  destruct (PM.find blk (heap b)) as [y|]; [|contradiction].
  destruct H as (H1 & H2 & H3 & H4 & H5). destruct off; auto.
  rewrite <- H3, <- H2. unfold read_cells. now rewrite <- (H5 Fl).
Qed.

Lemma read_ptr_same_block c b blk o w : PM.find blk (heap c) = PM.find blk (heap b) ->
  read_ptr c (VPtr blk o) w = read_ptr b (VPtr blk o) w.
Proof. intros E. unfold read_ptr. now rewrite E. Qed.

Definition hist_ok (v : verdict) : Prop := v = VOk \/ v = VFail EOutOfBounds.

Theorem kinds_history fe fa fc :
  kinds_cert fe fa fc = true -> input_safe_cert fa = true -> compute_store_cert fc = true ->
  forall fuel ts exp vals exact, out_first ts ->
    run_check fuel fe ts exp vals exact = VOk ->
    hist_ok (run_history fuel [(fa, []); (fc, [])] ts exp vals exact).
Proof.
  intros K IS CS fuel ts exp vals exact OF RCk.
  unfold kinds_cert in K. apply andb_prop in K. destruct K as [CA CC].
  destruct ts as [|t0 rest]; [contradiction|].
  destruct (init_state_facts t0 rest OF) as (Args & T1 & NO).
  pose proof (init_state_wf (t0 :: rest)) as WF.
  pose proof (init_state_ai (t0 :: rest)) as AI.
  pose proof (init_state_out_clean t0 rest (proj1 OF)) as OC.
  pose proof (assemble_cert_runs fe fa CA (fuel_of fuel) (t0 :: rest) (t0 :: rest) (tin_sim_refl _)) as AR.
  destruct (RI_init_state (roles_of fe) (assigned_only_in fe fa) (t0 :: rest) (t0 :: rest) (tin_sim_refl _))
    as [RI0 _].
  unfold run_check in RCk. unfold run_history.
  destruct (init_state (t0 :: rest)) as [st0 args] eqn:IS0. cbn [fst snd] in *. subst args.
  destruct (call (fuel_of fuel) fe _ st0) as [|a' v tE| |] eqn:CE; try discriminate.
  destruct v as [z| | | | | | | |]; try discriminate. destruct z; try discriminate.
  destruct AR as (b' & trA & CAl & R0 & _).
  cbn [run_steps fold_left]. rewrite CAl.
  pose proof (call_preserves_inputs _ _ _ _ _ _ _ WF CAl) as [Fr1 Fr2].
  pose proof (call_shape _ _ _ _ _ _ _ CAl) as Sh.
  destruct (input_safe_cert_sound fa IS (fuel_of fuel) _ st0 OC) as [_ OCb].
  destruct (OCb _ _ _ CAl) as [OCb' _].
  (* evaluate's final output *)
  pose proof R0 as R0'. unfold RA0 in R0'.
  pose proof (ra_tn _ _ _ _ R0') as Tab. simpl in Tab.
  pose proof (ra_ty _ _ _ _ R0') as TYa.
  pose proof RCk as RCk0. unfold check_output in RCk.
  destruct (PM.find 1%positive (tensors a')) as [tsa'|] eqn:Fa1; try discriminate.
  destruct (check_levels a' (t_idx tsa') exp) eqn:CL; try discriminate.
  destruct (read_ptr a' (t_vals tsa') (zlen vals)) as [[lv cv]|] eqn:RV; try discriminate.
  assert (VP : exists bV be, t_vals tsa' = VPtr bV 0 /\ PM.find bV (heap a') = Some be /\ b_live be = true).
  { unfold read_ptr in RV. destruct (t_vals tsa'); try discriminate. destruct off; try discriminate.
    destruct (PM.find blk (heap a')) as [be|] eqn:Fb; try discriminate.
    destruct (b_live be) eqn:Lb; try discriminate. eauto. }
  destruct VP as (bV & be & Vq & Fbe & Lbe).
  destruct (ty_tn _ _ TYa 1%positive tsa' Fa1) as [TVa TIa]. simpl in TVa, TIa.
  rewrite Vq in TVa. simpl in TVa. destruct TVa as (be0 & Fbe0 & Flbe). rewrite Fbe in Fbe0. inv Fbe0.
  pose proof (ra_heap _ _ _ _ R0' bV) as HbV. simpl in HbV. rewrite Fbe in HbV.
  destruct (PM.find bV (heap b')) as [bb|] eqn:Fbb; [|contradiction].
  destruct HbV as (Hb1 & Hb2 & Hb3 & Hb4 & _).
  assert (Fb1 : PM.find 1%positive (tensors b') = Some tsa') by (rewrite <- Tab; exact Fa1).
  assert (Ibb : b_input bb = false).
  { simpl in OCb'.
    destruct (OCb' _ Fb1) as (_ & Cp & _). rewrite Vq in Cp. simpl in Cp.
    destruct (b_input bb) eqn:Q; auto. exfalso. apply Cp. exists bb. auto. }
  (* PreC *)
  destruct (Sh _ _ T1) as (ts1 & Fs1 & D1 & Len1). rewrite Fb1 in Fs1. assert (Ets : ts1 = tsa') by congruence. subst ts1. clear Fs1. simpl in D1, Len1.
  assert (Pre : PreC (roles_of fe) 1%positive bV st0 b').
  { split; [exact (ra_ty _ _ _ _ RI0)|]. split; [exact Fr1|]. split; [|split].
    - intros t Nt ts F. pose proof (NO _ _ F Nt) as Ot. split; [exact (Fr2 _ _ F Ot)|].
      destruct (ty_tn _ _ (ra_ty _ _ _ _ RI0) t ts F) as [Tv Ti]. simpl in Tv, Ti. split.
      + intros b o Q. rewrite Q in Tv. simpl in Tv. destruct Tv as (blk & Fk & _). exists blk. split; auto.
        exact (AI _ _ Fk).
      + intros p q I. destruct (Ti _ _ I) as [Tp Tq]. split; intros b o Q; subst.
        * simpl in Tp. destruct Tp as (blk & Fk & _). exists blk. split; auto. exact (AI _ _ Fk).
        * simpl in Tq. destruct Tq as (blk & Fk & _). exists blk. split; auto. exact (AI _ _ Fk).
    - eexists. exists tsa'. split; [exact T1|]. split; [exact Fb1|]. simpl.
      split; [auto|]. split; [auto|]. split; [|auto].
      eapply check_levels_isptr; eauto.
    - exists bb. repeat split; auto; congruence. }
  pose proof (compute_cert3_sound fe fc CC (fuel_of fuel) 1%positive bV (pseq 2 (List.length rest)) st0 b' Pre) as CSd.
  assert (Nin : ~ In 1%positive (pseq 2 (List.length rest))).
  { intros I. apply pseq_ge in I. lia. }
  specialize (CSd Nin). rewrite CE in CSd.
  destruct CSd as [(c' & trC & CCl & ph & cur & Rc)|CF].
  2:{ rewrite CF. right. reflexivity. }
  rewrite CCl. cbn [run_steps]. left.
  (* compute's frame *)
  destruct (compute_store_sound fc CS _ _ _ _ _ _ _ CCl) as (Fr & [_ SS] & Tc).
  destruct (RC_values _ _ _ _ _ _ _ _ Rc) as (tsa2 & tsc2 & Fa2 & Fc2 & _ & Vc2 & Vals).
  rewrite Fa1 in Fa2. assert (Et2 : tsa2 = tsa') by congruence. subst tsa2. clear Fa2.
  apply (check_output_transfer a' c' exp vals exact).
  - rewrite Tc. auto.
  - intros ts F p q I w. rewrite Fa1 in F. assert (ts = tsa') by congruence. subst ts. clear F.
    destruct (TIa _ _ I) as [Tp Tq].
    assert (X : forall r, ptr_int (heap (with_env a' [])) r -> read_ptr c' r w = read_ptr a' r w).
    { intros r Pr. transitivity (read_ptr b' r w); [|exact (read_ptr_RA _ _ _ _ r w R0' Pr)].
      destruct r; auto.
      apply read_ptr_same_block. apply Fr. intros [o Q]. unfold vals_of in Q. rewrite Fb1, Vq in Q. inv Q.
      simpl in Pr. destruct Pr as (x & Fx & Flx). rewrite Fbe in Fx. inv Fx. congruence. }
    split; apply X; auto.
  - intros ts n lv0 cv0 F R. rewrite Fa1 in F. assert (ts = tsa') by congruence. subst ts. clear F.
    rewrite Vq in R |- *.
    unfold read_ptr in R. rewrite Fbe, Lbe in R. inv R.
    destruct (Vals bV 0 be0 Vq Fbe Lbe) as (_ & bc & Fbc & Lbc & Flbc & Sub).
    specialize (SS bV). rewrite Fbb, Fbc in SS. destruct SS as (S1 & S2 & _).
    unfold read_ptr. rewrite Fbc, Lbc. rewrite S2, <- Hb2.
    eexists. split; [reflexivity|]. intros vs A. unfold read_cells in *.
    eapply all2_sub; [|exact A]. intros i v Ii Fi. apply Sub; auto.
    apply in_seq in Ii. unfold key. rewrite Z2Pos.id by lia. rewrite S2, <- Hb2. lia.
  - exact RCk0.
Qed.

(** * Re-running compute: the same argument from ANY state that holds the inputs and a structure
      assembled for inputs of the same structure *)

(** [c] is a state compute may be (re-)run in, for the inputs laid out in [st0'] and the structure
    of [b'] (a final state of assemble): every block of [st0'] is in [c] as it is, the input structs
    too; the tensor structs of [c] are those of [b']; every block has the shape it has in [b'] and
    the int32 blocks of [b'] (pos / crd arrays) are in [c] cell for cell.  The content of the value
    block is arbitrary. *)
Definition recompute_pre (st0' b' c : state) : Prop :=
  (forall b x, PM.find b (heap st0') = Some x -> PM.find b (heap c) = Some x) /\
  (forall t ts, t <> 1%positive -> PM.find t (tensors st0') = Some ts -> PM.find t (tensors c) = Some ts) /\
  tensors c = tensors b' /\ same_shape b' c /\
  (forall b x, PM.find b (heap b') = Some x -> b_float x = false -> PM.find b (heap c) = Some x).

Theorem compute_after fe fa fc :
  compute_cert3 fe fc = true -> compute_store_cert fc = true ->
  forall fuel t0 rest exp vals exact, out_first (t0 :: rest) ->
  forall a' tE b' c,
    call fuel fe (snd (init_state (t0 :: rest))) (fst (init_state (t0 :: rest))) = Returned a' (VInt 0) tE ->
    check_output a' 1%positive exp vals exact = VOk ->
    RA0 fe fa a' b' ->
    (forall ts bV o x, PM.find 1%positive (tensors b') = Some ts -> t_vals ts = VPtr bV o ->
       PM.find bV (heap b') = Some x -> b_input x = false) ->
    recompute_pre (fst (init_state (t0 :: rest))) b' c ->
    (exists c' tr, call fuel fc (snd (init_state (t0 :: rest))) c = Returned c' (VInt 0) tr /\
                   check_output c' 1%positive exp vals exact = VOk /\
                   recompute_pre (fst (init_state (t0 :: rest))) b' c') \/
    call fuel fc (snd (init_state (t0 :: rest))) c = Fail EOutOfBounds.
Proof.
  intros CC CS fuel t0 rest exp vals exact OF a' tE b' c CE RCk0 R0 NI (C1 & C2 & C3 & C4 & C5).
  destruct (init_state_facts t0 rest OF) as (Args & T1 & NO).
  pose proof (init_state_ai (t0 :: rest)) as AI.
  destruct (RI_init_state (roles_of fe) (assigned_only_in fe fa) (t0 :: rest) (t0 :: rest) (tin_sim_refl _))
    as [RI0 _].
  destruct (init_state (t0 :: rest)) as [st0 args] eqn:IS0. cbn [fst snd] in *. subst args.
  pose proof (call_shape _ _ _ _ _ _ _ CE) as Sh.
  pose proof R0 as R0'. unfold RA0 in R0'.
  pose proof (ra_tn _ _ _ _ R0') as Tab. simpl in Tab.
  pose proof (ra_ty _ _ _ _ R0') as TYa.
  pose proof RCk0 as RCk. unfold check_output in RCk.
  destruct (PM.find 1%positive (tensors a')) as [tsa'|] eqn:Fa1; try discriminate.
  destruct (check_levels a' (t_idx tsa') exp) eqn:CL; try discriminate.
  destruct (read_ptr a' (t_vals tsa') (zlen vals)) as [[lv cv]|] eqn:RV; try discriminate.
  assert (VP : exists bV be, t_vals tsa' = VPtr bV 0 /\ PM.find bV (heap a') = Some be /\ b_live be = true).
  { unfold read_ptr in RV. destruct (t_vals tsa'); try discriminate. destruct off; try discriminate.
    destruct (PM.find blk (heap a')) as [be|] eqn:Fb; try discriminate.
    destruct (b_live be) eqn:Lb; try discriminate. eauto. }
  destruct VP as (bV & be & Vq & Fbe & Lbe).
  destruct (ty_tn _ _ TYa 1%positive tsa' Fa1) as [TVa TIa]. simpl in TVa, TIa.
  rewrite Vq in TVa. simpl in TVa. destruct TVa as (be0 & Fbe0 & Flbe).
  assert (be0 = be) by congruence. subst be0. clear Fbe0.
  pose proof (ra_heap _ _ _ _ R0' bV) as HbV. simpl in HbV. rewrite Fbe in HbV.
  destruct (PM.find bV (heap b')) as [bb|] eqn:Fbb; [|contradiction].
  destruct HbV as (Hb1 & Hb2 & Hb3 & Hb4 & _).
  assert (Fb1 : PM.find 1%positive (tensors b') = Some tsa') by (rewrite <- Tab; exact Fa1).
  pose proof (NI _ _ _ _ Fb1 Vq Fbb) as Ibb.
  pose proof (proj2 C4 bV) as SbV. rewrite Fbb in SbV.
  destruct (PM.find bV (heap c)) as [bcc|] eqn:Fbc0; [|contradiction].
  destruct SbV as (Sc1 & Sc2 & Sc3 & Sc4).
  destruct (Sh _ _ T1) as (ts1 & Fs1 & D1 & Len1). rewrite Fa1 in Fs1.
  assert (Ets : ts1 = tsa') by congruence. subst ts1. clear Fs1. simpl in D1, Len1.
  assert (Pre : PreC (roles_of fe) 1%positive bV st0 c).
  { split; [exact (ra_ty _ _ _ _ RI0)|]. split; [intros b x F _; auto|]. split; [|split].
    - intros t Nt ts F. split; [auto|].
      destruct (ty_tn _ _ (ra_ty _ _ _ _ RI0) t ts F) as [Tv Ti]. simpl in Tv, Ti. split.
      + intros b o Q. rewrite Q in Tv. simpl in Tv. destruct Tv as (blk & Fk & _). exists blk. split; auto.
        exact (AI _ _ Fk).
      + intros p q I. destruct (Ti _ _ I) as [Tp Tq]. split; intros b o Q; subst.
        * simpl in Tp. destruct Tp as (blk & Fk & _). exists blk. split; auto. exact (AI _ _ Fk).
        * simpl in Tq. destruct Tq as (blk & Fk & _). exists blk. split; auto. exact (AI _ _ Fk).
    - eexists. exists tsa'. split; [exact T1|]. split; [rewrite C3; exact Fb1|]. simpl.
      split; [auto|]. split; [auto|]. split; [|auto].
      eapply check_levels_isptr; eauto.
    - exists bcc. repeat split; auto; congruence. }
  pose proof (compute_cert3_sound fe fc CC fuel 1%positive bV (pseq 2 (List.length rest)) st0 c Pre) as CSd.
  assert (Nin : ~ In 1%positive (pseq 2 (List.length rest))).
  { intros I. apply pseq_ge in I. lia. }
  specialize (CSd Nin). rewrite CE in CSd.
  destruct CSd as [(c' & trC & CCl & ph & cur & Rc)|CF]; [left|right; exact CF].
  exists c', trC. split; [exact CCl|].
  destruct (compute_store_sound fc CS _ _ _ _ _ _ _ CCl) as (Fr & SS0 & Tc).
  assert (FrV : forall b, b <> bV -> PM.find b (heap c') = PM.find b (heap c)).
  { intros b N. apply Fr. intros [o Q]. unfold vals_of in Q. rewrite C3, Fb1, Vq in Q. congruence. }
  destruct (RC_values _ _ _ _ _ _ _ _ Rc) as (tsa2 & tsc2 & Fa2 & Fc2 & _ & Vc2 & Vals).
  rewrite Fa1 in Fa2. assert (Et2 : tsa2 = tsa') by congruence. subst tsa2. clear Fa2.
  split.
  - apply (check_output_transfer a' c' exp vals exact); [| | |exact RCk0].
    + rewrite Tc, C3. auto.
    + intros ts F p q I w. rewrite Fa1 in F. assert (ts = tsa') by congruence. subst ts. clear F.
      destruct (TIa _ _ I) as [Tp Tq].
      assert (X : forall r, ptr_int (heap (with_env a' [])) r -> read_ptr c' r w = read_ptr a' r w).
      { intros r Pr. transitivity (read_ptr b' r w); [|exact (read_ptr_RA _ _ _ _ r w R0' Pr)].
        destruct r; auto. simpl in Pr. destruct Pr as (x & Fx & Flx).
        assert (blk <> bV) by (intros ->; rewrite Fbe in Fx; inv Fx; congruence).
        pose proof (ra_heap _ _ _ _ R0' blk) as Hk. simpl in Hk. rewrite Fx in Hk.
        destruct (PM.find blk (heap b')) as [y|] eqn:Fy; [|contradiction].
        destruct Hk as (K1 & _). 
        apply read_ptr_same_block. rewrite (FrV _ H). rewrite (C5 _ _ Fy); [auto|congruence]. }
      split; apply X; auto.
    + intros ts n lv0 cv0 F R. rewrite Fa1 in F. assert (ts = tsa') by congruence. subst ts. clear F.
      rewrite Vq in R |- *.
      unfold read_ptr in R. rewrite Fbe, Lbe in R. inv R.
      destruct (Vals bV 0 be Vq Fbe Lbe) as (_ & bc & Fbc & Lbc & Flbc & Sub).
      pose proof (proj2 SS0 bV) as SS. rewrite Fbc0, Fbc in SS. destruct SS as (S1 & S2 & _).
      unfold read_ptr. rewrite Fbc, Lbc. rewrite S2, Sc2, <- Hb2.
      eexists. split; [reflexivity|]. intros vs A. unfold read_cells in *.
      eapply all2_sub; [|exact A]. intros i v Ii Fi. apply Sub; auto.
      apply in_seq in Ii. unfold key. rewrite Z2Pos.id by lia. rewrite S2, Sc2, <- Hb2. lia.
  - (* the state after compute can be used again *)
    assert (NbV : forall b x, PM.find b (heap st0) = Some x -> b <> bV).
    { intros b x F ->. rewrite (C1 _ _ F) in Fbc0. inv Fbc0. rewrite (AI _ _ F) in Sc3. congruence. }
    split; [|split; [|split; [|split]]].
    + intros b x F. rewrite (FrV _ (NbV _ _ F)). auto.
    + intros t ts Nt F. rewrite Tc. auto.
    + rewrite Tc. exact C3.
    + destruct C4 as [N4 S4]. destruct SS0 as [N0 S0]. split; [congruence|]. intros b.
      specialize (S4 b). specialize (S0 b).
      destruct (PM.find b (heap b')), (PM.find b (heap c)), (PM.find b (heap c')); try contradiction; auto.
      destruct S4 as (X1 & X2 & X3 & X4), S0 as (Y1 & Y2 & Y3 & Y4). repeat split; congruence.
    + intros b x F Fl. assert (b <> bV) by (intros ->; rewrite Fbb in F; inv F; congruence).
      rewrite (FrV _ H). auto.
Qed.
