(* C14 — invariant of the concurrent-evaluation protocol model and its preservation. *)
From Coq Require Import List Arith Bool Lia PeanoNat.
From TV Require Import model.Concurrency.
Import ListNotations.

Lemma backend_eqb_eq : forall a b, backend_eqb a b = true -> a = b.
Proof. destruct a, b; simpl; intros; congruence. Qed.

Lemma key_eqb_eq : forall a b, key_eqb a b = true -> a = b.
Proof.
  intros [p1 b1] [p2 b2]. unfold key_eqb. simpl. intros H. apply andb_true_iff in H. destruct H as [H1 H2].
  apply Nat.eqb_eq in H1. apply backend_eqb_eq in H2. now subst.
Qed.

Lemma find_key_In : forall A k (l : list (key * A)) v, find_key k l = Some v -> In (k, v) l.
Proof.
  induction l as [|[k' v'] r IH]; simpl; intros v H; [discriminate|].
  destruct (key_eqb k' k) eqn:E.
  - apply key_eqb_eq in E. inversion H. subst. now left.
  - right. now apply IH.
Qed.

Lemma lookup_cons_ne : forall A (s s' : nat) (v : A) l, s' <> s -> lookup s ((s', v) :: l) = lookup s l.
Proof. intros. simpl. destruct (Nat.eqb s' s) eqn:E; [apply Nat.eqb_eq in E; contradiction|reflexivity]. Qed.

Lemma lookup_cons_eq : forall A (s : nat) (v : A) l, lookup s ((s, v) :: l) = Some v.
Proof. intros. simpl. now rewrite Nat.eqb_refl. Qed.

Section Inv.

Variable denote : key -> nat -> nat.
Variable progs : list (list call).

Definition seqv (c : call) : nat := denote (c_key c) (c_input c).

Definition method_ok (t : thread) : Prop :=
  match t_calls t with
  | [] => True
  | c :: _ =>
      match t_pc t with
      | PLookup | PAcquire | PCompileCffi | PCompileLlvm => True
      | PRelease | PInsert | PAlloc | PRun | POwn | PReturn =>
          exists m, t_method t = Some m /\ compiled_from m = c_key c
      | PError => False
      end
  end.

Definition sid_ok (st : state) (i : nat) (t : thread) : Prop :=
  match t_calls t with
  | [] => True
  | c :: _ =>
      match t_pc t with
      | PRun => exists s, t_sid t = Some s /\ s < next st /\ lookup s (table st) = Some i
      | POwn | PReturn =>
          exists s, t_sid t = Some s /\ s < next st /\ lookup s (table st) = Some i /\
                    lookup s (mem st) = Some (seqv c)
      | _ => True
      end
  end.

Definition results_ok (i : nat) (t : thread) : Prop :=
  t_results t ++ map seqv (t_calls t) = map seqv (nth i progs []).

Definition thread_ok (st : state) (i : nat) : Prop :=
  method_ok (threads st i) /\ sid_ok st i (threads st i) /\ results_ok i (threads st i).

Record Inv (st : state) : Prop := {
  inv_n : nthreads st = length progs;
  inv_cache : forall k m, In (k, m) (cache st) -> compiled_from m = k;
  inv_lock : forall j, lock st = Some j -> j < nthreads st /\ in_critical_section (threads st j) = true;
  inv_cs : forall i, i < nthreads st -> in_critical_section (threads st i) = true -> lock st = Some i;
  inv_table : forall s o, In (s, o) (table st) -> s < next st;
  inv_threads : forall i, i < nthreads st -> thread_ok st i
}.

Lemma inv_init : Inv (init progs []).
Proof.
  constructor; simpl.
  - reflexivity.
  - tauto.
  - discriminate.
  - intros i Hi. unfold in_critical_section, start_thread. simpl. destruct (nth i progs []); discriminate.
  - tauto.
  - intros i Hi. unfold thread_ok, method_ok, sid_ok, results_ok, start_thread. simpl.
    destruct (nth i progs []); simpl; auto.
Qed.

(* a thread other than the one that moved is unaffected, provided the shared table and the memory of its
   own structure are unchanged *)
Lemma sid_ok_frame : forall st st' j t,
  next st <= next st' ->
  (forall s, s < next st -> lookup s (table st) = Some j -> lookup s (table st') = Some j) ->
  (forall s v, lookup s (table st) = Some j -> lookup s (mem st) = Some v -> lookup s (mem st') = Some v) ->
  sid_ok st j t -> sid_ok st' j t.
Proof.
  intros st st' j t Hn Ht Hm H. unfold sid_ok in *. destruct (t_calls t) as [|c r]; [exact I|].
  destruct (t_pc t); auto.
  - destruct H as [s [E [L T]]]. exists s. repeat split; auto; try lia.
  - destruct H as [s [E [L [T M]]]]. exists s. repeat split; auto; try lia; try (eapply Hm; eauto).
  - destruct H as [s [E [L [T M]]]]. exists s. repeat split; auto; try lia; try (eapply Hm; eauto).
Qed.

Lemma in_cs_calls : forall t, in_critical_section t = true ->
  exists c r, t_calls t = c :: r /\ (t_pc t = PCompileCffi \/ t_pc t = PRelease).
Proof.
  intros t H. unfold in_critical_section in H. destruct (t_calls t) as [|c r]; [discriminate|].
  exists c, r. split; [reflexivity|]. destruct (t_pc t); try discriminate; auto.
Qed.

Ltac other_thread j i :=
  destruct (Nat.eqb j i) eqn:?E; [apply Nat.eqb_eq in E; subst j|apply Nat.eqb_neq in E].

(* the workhorse: a state that differs from st only in thread i (new value t'), with lock, table, memory and
   cache changed in a way that respects the other threads, satisfies the invariant again *)
Lemma inv_update : forall st st' i t',
  Inv st -> i < nthreads st ->
  nthreads st' = nthreads st ->
  (forall j, threads st' j = if Nat.eqb j i then t' else threads st j) ->
  (forall k m, In (k, m) (cache st') -> compiled_from m = k) ->
  next st <= next st' ->
  (forall s o, In (s, o) (table st') -> s < next st') ->
  (forall j s, j <> i -> s < next st -> lookup s (table st) = Some j -> lookup s (table st') = Some j) ->
  (forall j s v, j <> i -> lookup s (table st) = Some j -> lookup s (mem st) = Some v -> lookup s (mem st') = Some v) ->
  (* lock discipline *)
  (forall j, lock st' = Some j -> (j = i /\ in_critical_section t' = true) \/ (j <> i /\ lock st = Some j)) ->
  (in_critical_section t' = true -> lock st' = Some i) ->
  (forall j, j <> i -> lock st = Some j -> lock st' = Some j) ->
  (* the moved thread *)
  method_ok t' -> sid_ok st' i t' -> results_ok i t' ->
  Inv st'.
Proof.
  intros st st' i t' I Hi Hn Hth Hc Hnx Htab Hfr Hmem Hl1 Hl2 Hl3 Hm Hs Hr.
  constructor.
  - rewrite Hn. apply (inv_n st I).
  - exact Hc.
  - intros j Hj. destruct (Hl1 j Hj) as [[E C]|[NE L]].
    + subst j. rewrite Hn, Hth, Nat.eqb_refl. auto.
    + destruct (inv_lock st I j L) as [A B]. rewrite Hn, Hth.
      destruct (Nat.eqb j i) eqn:E; [apply Nat.eqb_eq in E; contradiction|]. auto.
  - intros j Hj Hcs. rewrite Hn in Hj. rewrite Hth in Hcs. destruct (Nat.eqb j i) eqn:E.
    + apply Nat.eqb_eq in E. subst j. auto.
    + apply Nat.eqb_neq in E. apply Hl3; [assumption|]. now apply (inv_cs st I).
  - exact Htab.
  - intros j Hj. rewrite Hn in Hj. unfold thread_ok. rewrite Hth. destruct (Nat.eqb j i) eqn:E.
    + apply Nat.eqb_eq in E. subst j. auto.
    + apply Nat.eqb_neq in E. destruct (inv_threads st I j Hj) as [A [B C]]. split; [assumption|]. split; [|assumption].
      eapply sid_ok_frame; eauto.
Qed.

Lemma in_cs_with_pc : forall t p, in_critical_section (with_pc t p) =
  match t_calls t, p with _ :: _, PCompileCffi => true | _ :: _, PRelease => true | _, _ => false end.
Proof. reflexivity. Qed.

Lemma thread_step_inv : forall st i, Inv st -> i < nthreads st -> Inv (thread_step denote st i).
Proof.
  intros st i IV Hi. unfold thread_step.
  destruct (inv_threads st IV i Hi) as [Hm [Hs Hr]].
  remember (threads st i) as t eqn:Et.
  destruct (t_calls t) as [|c rest] eqn:Ec; [exact IV|].
  assert (Hnotcs : t_pc t <> PCompileCffi -> t_pc t <> PRelease -> lock st <> Some i).
  { intros N1 N2 L. destruct (inv_lock st IV i L) as [_ C]. rewrite <- Et in C.
    apply in_cs_calls in C. destruct C as [c0 [r0 [_ [C|C]]]]; congruence. }
  unfold method_ok in Hm. unfold sid_ok in Hs. unfold results_ok in Hr. rewrite Ec in Hm, Hs, Hr.
  (* standard discharges of the premises of inv_update *)
  pose proof (inv_cache st IV) as TC. pose proof (inv_table st IV) as TT.
  assert (TL1 : t_pc t <> PCompileCffi -> t_pc t <> PRelease ->
                forall t' j, lock st = Some j ->
                (j = i /\ in_critical_section t' = true) \/ (j <> i /\ lock st = Some j)).
  { intros N1 N2 t' j L. right. split; [|assumption]. intro; subst. now apply (Hnotcs N1 N2). }
  destruct (t_pc t) eqn:Ep.
  - (* PLookup *)
    destruct (find_key (c_key c) (cache st)) as [m|] eqn:Ef.
    + apply (inv_update st _ i (with_method t m PAlloc)); simpl;
        [exact IV|exact Hi|reflexivity|intros; reflexivity|exact TC|lia|exact TT|intros; assumption|intros; assumption
        |apply TL1; discriminate| | intros; assumption | | | ].
      * unfold in_critical_section. simpl. rewrite Ec. discriminate.
      * unfold method_ok. simpl. rewrite Ec. exists m. split; [reflexivity|].
        apply find_key_In in Ef. now apply TC in Ef.
      * unfold sid_ok. simpl. now rewrite Ec.
      * unfold results_ok. simpl. now rewrite Ec.
    + apply (inv_update st _ i (with_pc t (match k_backend (c_key c) with Cffi => PAcquire | Llvm => PCompileLlvm end))); simpl;
        [exact IV|exact Hi|reflexivity|intros; reflexivity|exact TC|lia|exact TT|intros; assumption|intros; assumption
        |apply TL1; discriminate| | intros; assumption | | | ].
      * rewrite in_cs_with_pc, Ec. destruct (k_backend (c_key c)); discriminate.
      * unfold method_ok. simpl. rewrite Ec. destruct (k_backend (c_key c)); constructor.
      * unfold sid_ok. simpl. rewrite Ec. destruct (k_backend (c_key c)); constructor.
      * unfold results_ok. simpl. now rewrite Ec.
  - (* PAcquire *)
    destruct (lock st) as [h|] eqn:El; [exact IV|].
    apply (inv_update st _ i (with_pc t PCompileCffi)); simpl;
      [exact IV|exact Hi|reflexivity|intros; reflexivity|exact TC|lia|exact TT|intros; assumption|intros; assumption
      | | | | | | ].
    + intros j L. inversion L; subst. left. split; [reflexivity|]. rewrite in_cs_with_pc, Ec. reflexivity.
    + reflexivity.
    + intros j _ L. rewrite El in L. discriminate.
    + unfold method_ok. simpl. now rewrite Ec.
    + unfold sid_ok. simpl. now rewrite Ec.
    + unfold results_ok. simpl. now rewrite Ec.
  - (* PCompileCffi *)
    assert (L : lock st = Some i).
    { apply (inv_cs st IV i Hi). rewrite <- Et. unfold in_critical_section. now rewrite Ec, Ep. }
    apply (inv_update st _ i (with_method t (compile (c_key c)) PRelease)); simpl;
      [exact IV|exact Hi|reflexivity|intros; reflexivity|exact TC|lia|exact TT|intros; assumption|intros; assumption
      | | | intros; assumption | | | ].
    + intros j Lj. rewrite L in Lj. inversion Lj; subst. left. split; [reflexivity|].
      unfold in_critical_section. simpl. now rewrite Ec.
    + intros _. exact L.
    + unfold method_ok. simpl. rewrite Ec. eexists. split; reflexivity.
    + unfold sid_ok. simpl. now rewrite Ec.
    + unfold results_ok. simpl. now rewrite Ec.
  - (* PRelease *)
    assert (L : lock st = Some i).
    { apply (inv_cs st IV i Hi). rewrite <- Et. unfold in_critical_section. now rewrite Ec, Ep. }
    apply (inv_update st _ i (with_pc t PInsert)); simpl;
      [exact IV|exact Hi|reflexivity|intros; reflexivity|exact TC|lia|exact TT|intros; assumption|intros; assumption
      | | | | | | ].
    + intros j Lj. discriminate.
    + rewrite in_cs_with_pc, Ec. discriminate.
    + intros j NE Lj. rewrite L in Lj. inversion Lj. congruence.
    + unfold method_ok. simpl. now rewrite Ec.
    + unfold sid_ok. simpl. now rewrite Ec.
    + unfold results_ok. simpl. now rewrite Ec.
  - (* PCompileLlvm *)
    apply (inv_update st _ i (with_method t (compile (c_key c)) PInsert)); simpl;
      [exact IV|exact Hi|reflexivity|intros; reflexivity|exact TC|lia|exact TT|intros; assumption|intros; assumption
      |apply TL1; discriminate| | intros; assumption | | | ].
    + unfold in_critical_section. simpl. rewrite Ec. discriminate.
    + unfold method_ok. simpl. rewrite Ec. eexists. split; reflexivity.
    + unfold sid_ok. simpl. now rewrite Ec.
    + unfold results_ok. simpl. now rewrite Ec.
  - (* PInsert *)
    destruct Hm as [m [Em Cm]]. rewrite Em.
    apply (inv_update st _ i (with_pc t PAlloc)); simpl;
      [exact IV|exact Hi|reflexivity|intros; reflexivity| |lia|exact TT|intros; assumption|intros; assumption
      |apply TL1; discriminate| | intros; assumption | | | ].
    + intros k m' H. destruct (find_key (c_key c) (cache st)); [now apply TC|].
      destruct H as [H|H]; [inversion H; subst; assumption|now apply TC].
    + rewrite in_cs_with_pc, Ec. discriminate.
    + unfold method_ok. simpl. rewrite Ec. eauto.
    + unfold sid_ok. simpl. now rewrite Ec.
    + unfold results_ok. simpl. now rewrite Ec.
  - (* PAlloc *)
    destruct Hm as [m [Em Cm]].
    apply (inv_update st _ i {| t_calls := c :: rest; t_pc := PRun; t_method := t_method t;
                                t_sid := Some (next st); t_results := t_results t |}); simpl;
      [exact IV|exact Hi|reflexivity|intros; reflexivity|exact TC|lia| | |intros; assumption
      |apply TL1; discriminate| | intros; assumption | | | ].
    + intros s o [H|H]; [inversion H; lia|]. apply TT in H. lia.
    + intros j s NE Ls T. destruct (Nat.eqb (next st) s) eqn:E; [apply Nat.eqb_eq in E; lia|assumption].
    + unfold in_critical_section. simpl. discriminate.
    + unfold method_ok. simpl. eauto.
    + unfold sid_ok. simpl. exists (next st). split; [reflexivity|]. split; [lia|]. now rewrite Nat.eqb_refl.
    + unfold results_ok. simpl. exact Hr.
  - (* PRun *)
    destruct Hm as [m [Em Cm]]. destruct Hs as [s [Es [Ls Ts]]]. rewrite Em, Es.
    apply (inv_update st _ i (with_pc t POwn)); simpl;
      [exact IV|exact Hi|reflexivity|intros; reflexivity|exact TC|lia|exact TT|intros; assumption|
      |apply TL1; discriminate| | intros; assumption | | | ].
    + intros j s' v NE T M. destruct (Nat.eqb s s') eqn:E; [apply Nat.eqb_eq in E; subst s'; congruence|assumption].
    + rewrite in_cs_with_pc, Ec. discriminate.
    + unfold method_ok. simpl. rewrite Ec. eauto.
    + unfold sid_ok. simpl. rewrite Ec. exists s. repeat split; auto.
      rewrite Nat.eqb_refl. unfold exec, seqv. now rewrite Cm.
    + unfold results_ok. simpl. now rewrite Ec.
  - (* POwn *)
    destruct Hs as [s [Es [Ls [Ts Ms]]]]. rewrite Es, Ts.
    apply (inv_update st _ i (with_pc t PReturn)); simpl;
      [exact IV|exact Hi|reflexivity|intros; reflexivity|exact TC|lia|exact TT|intros; assumption|intros; assumption
      |apply TL1; discriminate| | intros; assumption | | | ].
    + rewrite in_cs_with_pc, Ec. discriminate.
    + unfold method_ok. simpl. now rewrite Ec.
    + unfold sid_ok. simpl. rewrite Ec. exists s. auto.
    + unfold results_ok. simpl. now rewrite Ec.
  - (* PReturn *)
    destruct Hs as [s [Es [Ls [Ts Ms]]]]. rewrite Es, Ms.
    apply (inv_update st _ i {| t_calls := rest; t_pc := PLookup; t_method := None; t_sid := None;
                                t_results := t_results t ++ [seqv c] |}); simpl;
      [exact IV|exact Hi|reflexivity|intros; reflexivity|exact TC|lia|exact TT|intros; assumption|intros; assumption
      |apply TL1; discriminate| | intros; assumption | | | ].
    + unfold in_critical_section. simpl. destruct rest; discriminate.
    + unfold method_ok. simpl. destruct rest; constructor.
    + unfold sid_ok. simpl. destruct rest; constructor.
    + unfold results_ok. simpl. rewrite <- app_assoc. exact Hr.
  - (* PError *) contradiction.
Qed.

Lemma step_inv : forall st a, Inv st -> Inv (step denote st a).
Proof.
  intros st [i|k] I; simpl.
  - destruct (Nat.ltb i (nthreads st)) eqn:E; [|exact I]. apply Nat.ltb_lt in E. now apply thread_step_inv.
  - destruct I as [A B C D E F]. constructor; simpl.
    + exact A.
    + intros k' m H. apply filter_In in H. apply B. tauto.
    + exact C.
    + exact D.
    + exact E.
    + intros i Hi. destruct (F i Hi) as [X [Y Z]]. split; [exact X|]. split; [|exact Z].
      unfold sid_ok in *. simpl. exact Y.
Qed.

Lemma run_from_inv : forall sched st, Inv st -> Inv (run_from denote st sched).
Proof.
  induction sched as [|a r IH]; simpl; intros st I; [exact I|]. apply IH. now apply step_inv.
Qed.

Lemma run_inv : forall sched, Inv (run denote progs sched).
Proof. intros. apply run_from_inv. apply inv_init. Qed.

End Inv.
