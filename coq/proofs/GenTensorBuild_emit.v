(** TIE "tensorbuild", part B: the depth-first, append-in-place walk of the regenerated
    tree_to_indices_and_values equals the level-by-level [emit] of model/TensorBuild.v. *)
From Coq Require Import ZArith List Bool Lia.
From TV Require Import spec.PyBase spec.PyLib spec.Storage model.TensorBuild model.TensorBuildPy
  proofs.TensorBuildLemmas proofs.GenTensorBuild_lib proofs.GenTensorBuild_tree.
From TV Require gen.TensorBuildGen.
Module G := TensorBuildGen.
Import ListNotations.
Open Scope Z_scope.

Definition cm (m : G.Mode) : mode :=
  match m with G.Mode_dense => MDense | G.Mode_compressed => MCompressed end.

(** ** [emit] in terms of the SEGMENTS (key lists) of every level *)
Definition children (m : mode) (d : Z) (nd : node) : list node :=
  match m with
  | MDense => map (fun i => select i nd) (zrange d)
  | MCompressed => map (fun k => select k nd) (keys nd)
  end.

Definition segs_of (m : mode) (nodes : list node) : list (list Z) :=
  match m with MDense => [] | MCompressed => map keys nodes end.

Fixpoint emit_segs (lv : list (mode * Z)) (nodes : list node) : list (list (list Z)) * list Z :=
  match lv with
  | [] => ([], map leaf_value nodes)
  | (m, d) :: r =>
      let '(ss, vs) := emit_segs r (flat_map (children m d) nodes) in (segs_of m nodes :: ss, vs)
  end.

Definition level_of (m : mode) (segs : list (list Z)) : level :=
  match m with MDense => LDense | MCompressed => LCompressed (offsets segs) (concat segs) end.

Fixpoint levels_of (lv : list (mode * Z)) (ss : list (list (list Z))) : list level :=
  match lv, ss with
  | (m, _) :: r, s :: ss' => level_of m s :: levels_of r ss'
  | _, _ => []
  end.

Lemma emit_emit_segs lv : forall nodes,
  emit lv nodes = (levels_of lv (fst (emit_segs lv nodes)), snd (emit_segs lv nodes)).
Proof.
  induction lv as [|[m d] r IH]; intros nodes; [reflexivity|].
  cbn [emit emit_segs]. destruct m; cbn [children].
  - rewrite IH. destruct (emit_segs r _). reflexivity.
  - rewrite IH. destruct (emit_segs r _). reflexivity.
Qed.

Fixpoint zipapp {X} (a b : list (list X)) : list (list X) :=
  match a, b with
  | x :: a', y :: b' => (x ++ y) :: zipapp a' b'
  | _, _ => []
  end.

Lemma zipapp_assoc {X} (a : list (list X)) : forall b c, zipapp (zipapp a b) c = zipapp a (zipapp b c).
Proof.
  induction a as [|x a IH]; intros [|y b] [|z c]; cbn; try reflexivity. now rewrite IH, app_assoc.
Qed.

Lemma zipapp_length {X} (a : list (list X)) : forall b, length b = length a -> length (zipapp a b) = length a.
Proof. induction a as [|x a IH]; intros [|y b]; cbn; intros H; try lia. rewrite IH; lia. Qed.

Lemma emit_segs_length lv : forall nodes, length (fst (emit_segs lv nodes)) = length lv.
Proof.
  induction lv as [|[m d] r IH]; intros nodes; [reflexivity|]. cbn [emit_segs].
  specialize (IH (flat_map (children m d) nodes)). destruct (emit_segs r _). cbn in *. now rewrite IH.
Qed.

Lemma emit_segs_nil lv : emit_segs lv [] = (repeat [] (length lv), []).
Proof.
  induction lv as [|[m d] r IH]; [reflexivity|]. cbn [emit_segs flat_map]. rewrite IH.
  destruct m; reflexivity.
Qed.

Lemma zipapp_nil_r {X} (a : list (list X)) : zipapp a (repeat [] (length a)) = a.
Proof. induction a; cbn; [reflexivity|]. now rewrite app_nil_r, IHa. Qed.

Lemma emit_segs_app lv : forall n1 n2,
  emit_segs lv (n1 ++ n2)
  = (zipapp (fst (emit_segs lv n1)) (fst (emit_segs lv n2)), snd (emit_segs lv n1) ++ snd (emit_segs lv n2)).
Proof.
  induction lv as [|[m d] r IH]; intros n1 n2.
  - cbn. now rewrite map_app.
  - cbn [emit_segs]. rewrite flat_map_app, IH.
    destruct (emit_segs r (flat_map (children m d) n1)), (emit_segs r (flat_map (children m d) n2)).
    cbn. destruct m; cbn; [reflexivity|]. now rewrite map_app.
Qed.

(** ** the arrays of one level, from its segments *)
Definition conc (m : G.Mode) (segs : list (list Z)) : list (list Z) :=
  match m with G.Mode_dense => [] | G.Mode_compressed => [offsets segs; concat segs] end.

Fixpoint concs (ms : list G.Mode) (ss : list (list (list Z))) : list (list (list Z)) :=
  match ms, ss with
  | m :: ms', s :: ss' => conc m s :: concs ms' ss'
  | _, _ => []
  end.

Lemma offsets_from_snoc s : forall a y,
  exists l x, offsets_from a s = l ++ [x] /\ offsets_from a (s ++ [y]) = l ++ [x; x + zlen y].
Proof.
  induction s as [|h s IH]; intros a y.
  - exists [], a. split; reflexivity.
  - destruct (IH (a + zlen h) y) as (l & x & E1 & E2). exists (a :: l), x.
    cbn [offsets_from app]. fold (offsets_from (a + zlen h) s). fold (offsets_from (a + zlen h) (s ++ [y])).
    rewrite E1, E2. split; reflexivity.
Qed.

Notation dfs := (G.tree_to_indices_and_values__recurse Z 0 Z.add Z.eqb).

Lemma get_leaf d nd k : repd 0 d nd -> dict_get_or Z.eqb k d (PLeaf 0) = PLeaf (leaf_value (select k nd)).
Proof.
  intros (Hnd & Hk & He). destruct (in_dec Z.eq_dec k (map fst d)) as [Hin|Hni].
  - apply (dget_or_In k d (PLeaf 0)) in Hin. exact (He _ _ Hin).
  - rewrite dget_or_absent by assumption. rewrite select_absent by (now rewrite <- Hk). reflexivity.
Qed.

Lemma get_child n d nd k : repd (S n) d nd -> rep (S n) (dict_get_or Z.eqb k d (PDict [])) (select k nd).
Proof.
  intros (Hnd & Hk & He). destruct (in_dec Z.eq_dec k (map fst d)) as [Hin|Hni].
  - apply (dget_or_In k d (PDict [])) in Hin. exact (He _ _ Hin).
  - rewrite dget_or_absent by assumption. rewrite select_absent by (now rewrite <- Hk).
    apply rep_S. exists []. split; [reflexivity|apply repd_nil].
Qed.

Lemma r_getitem_at {A} (p : list A) x q n : length p = n -> r_getitem (p ++ x :: q) (Z.of_nat n) = Val x.
Proof. intros <-. apply r_getitem_mid. Qed.

Lemma r_setitem_at {A} (p : list A) x y q n :
  length p = n -> r_setitem (p ++ x :: q) (Z.of_nat n) y = Val (p ++ y :: q).
Proof. intros <-. apply r_setitem_mid. Qed.

(** the two loops over the keys of one node *)
Lemma leaf_loop d nd (f : list Z -> Z -> R (list Z)) :
  repd 0 d nd ->
  (forall vs k, f vs k = rbind (as_float (dict_get_or Z.eqb k d (PLeaf 0))) (fun x => Val (vs ++ [x]))) ->
  forall ks vs, rfold f ks vs = Val (vs ++ map (fun k => leaf_value (select k nd)) ks).
Proof.
  intros Hr Hf. induction ks as [|k ks IH]; intros vs; cbn; [now rewrite app_nil_r|].
  rewrite Hf, (get_leaf d nd k Hr). cbn. rewrite IH, <- app_assoc. reflexivity.
Qed.

Section ChildLoop.
Variables (ipx : list (list (list Z))) (mr : list G.Mode) (lvr : list (mode * Z)).
Variable child : list (list (list Z)) -> list Z -> T -> R (list (list (list Z)) * list Z).
Hypothesis Hlen : length lvr = length mr.
Hypothesis child_ok : forall SS vals t nd, length SS = length mr -> rep (length mr) t nd ->
  child (ipx ++ concs mr SS) vals t
  = Val (ipx ++ concs mr (zipapp SS (fst (emit_segs lvr [nd]))), vals ++ snd (emit_segs lvr [nd])).

Lemma child_loop n d nd (f : list (list (list Z)) * list Z -> Z -> R (list (list (list Z)) * list Z)) :
  length mr = S n -> repd (S n) d nd ->
  (forall ix vs k, f (ix, vs) k = child ix vs (dict_get_or Z.eqb k d (PDict []))) ->
  forall ks SS vals, length SS = length mr ->
  rfold f ks (ipx ++ concs mr SS, vals)
  = Val (ipx ++ concs mr (zipapp SS (fst (emit_segs lvr (map (fun k => select k nd) ks)))),
         vals ++ snd (emit_segs lvr (map (fun k => select k nd) ks))).
Proof.
  intros Hn Hr Hf. induction ks as [|k ks IH]; intros SS vals HSS; cbn [rfold map].
  - rewrite emit_segs_nil. cbn [fst snd]. rewrite Hlen, <- HSS, zipapp_nil_r, app_nil_r. reflexivity.
  - rewrite Hf, (child_ok SS vals _ (select k nd)); [|assumption|rewrite Hn; now apply get_child].
    cbn [rbind]. rewrite IH.
    + change (select k nd :: map (fun k0 => select k0 nd) ks) with ([select k nd] ++ map (fun k0 => select k0 nd) ks).
      rewrite (emit_segs_app lvr [select k nd]). cbn [fst snd].
      now rewrite zipapp_assoc, app_assoc.
    + rewrite zipapp_length; [assumption|]. now rewrite emit_segs_length, Hlen.
Qed.
End ChildLoop.

Lemma offsets_snoc s y : exists l x, offsets s = l ++ [x] /\ offsets (s ++ [y]) = l ++ [x; x + zlen y].
Proof. apply offsets_from_snoc. Qed.

Lemma emit_segs_one m d lvr nd :
  emit_segs ((m, d) :: lvr) [nd]
  = (segs_of m [nd] :: fst (emit_segs lvr (children m d nd)), snd (emit_segs lvr (children m d nd))).
Proof. cbn. rewrite app_nil_r. destruct (emit_segs lvr (children m d nd)). reflexivity. Qed.

Lemma r_getitem_2_0 {A} (a b : A) : r_getitem [a; b] 0 = Val a. Proof. reflexivity. Qed.
Lemma r_getitem_2_1 {A} (a b : A) : r_getitem [a; b] 1 = Val b. Proof. reflexivity. Qed.
Lemma r_setitem_2_0 {A} (a b v : A) : r_setitem [a; b] 0 v = Val [v; b]. Proof. reflexivity. Qed.
Lemma r_setitem_2_1 {A} (a b v : A) : r_setitem [a; b] 1 v = Val [a; v]. Proof. reflexivity. Qed.

(** the header of a compressed level: pos.append(pos[-1] + len(idx)); crd.extend(idx) *)
Lemma conc_snoc s0 idx : exists l x,
  offsets s0 = l ++ [x]
  /\ [(l ++ [x]) ++ [x + Z.of_nat (length idx)]; concat s0 ++ idx] = conc G.Mode_compressed (s0 ++ [idx]).
Proof.
  destruct (offsets_snoc s0 idx) as (l & x & E1 & E2). exists l, x. split; [assumption|].
  cbn [conc]. rewrite E2, concat_app. cbn [concat]. rewrite app_nil_r, <- app_assoc. reflexivity.
Qed.

Lemma concs_cons m mr s ss : concs (m :: mr) (s :: ss) = conc m s :: concs mr ss.
Proof. reflexivity. Qed.
Lemma zipapp_cons {X} (x y : list X) a b : zipapp (x :: a) (y :: b) = (x ++ y) :: zipapp a b.
Proof. reflexivity. Qed.
Lemma comb_cons m mr (dm : Z) dr : combine (map cm (m :: mr)) (dm :: dr) = (cm m, dm) :: combine (map cm mr) dr.
Proof. reflexivity. Qed.

(** the reads / writes of the header of a compressed level, in whatever order the source does them *)
Ltac header_steps :=
  repeat (first [ rewrite r_getitem_mid | rewrite r_setitem_mid | rewrite r_getitem_2_0 | rewrite r_getitem_2_1
                | rewrite r_setitem_2_0 | rewrite r_setitem_2_1 | rewrite r_getitem_last ]; cbn [rbind]).

Lemma dfs_ok : forall mr m dr dm fuel mp dp ip SS vals t nd,
  (length mr < fuel)%nat -> length dr = length mr -> length SS = S (length mr) ->
  length mp = length ip -> length dp = length ip ->
  rep (S (length mr)) t nd ->
  dfs fuel (mp ++ m :: mr) (dp ++ dm :: dr) (Z.of_nat (length ip + S (length mr)))
      (ip ++ concs (m :: mr) SS) vals t (Z.of_nat (length ip))
  = Val (ip ++ concs (m :: mr) (zipapp SS (fst (emit_segs (combine (map cm (m :: mr)) (dm :: dr)) [nd]))),
         vals ++ snd (emit_segs (combine (map cm (m :: mr)) (dm :: dr)) [nd])).
Proof.
  induction mr as [|m2 mr IH]; intros m dr dm fuel mp dp ip SS vals t nd Hf Hdr HSS Hmp Hdp Hrep;
    (destruct fuel; [cbn in Hf; lia|]); destruct SS as [|s0 SS]; try discriminate;
    apply rep_S in Hrep; destruct Hrep as (d & -> & Hrd);
    cbn [G.tree_to_indices_and_values__recurse];
    rewrite !(r_getitem_at mp m _ _ Hmp); cbn [rbind];
    rewrite comb_cons, emit_segs_one; cbn [fst snd]; rewrite zipapp_cons, !concs_cons.
  - destruct dr; [|discriminate]. destruct SS; [|discriminate].
    cbn [length]. replace (Z.of_nat (length ip) =? Z.of_nat (length ip + 1) - 1) with true by (symmetry; apply Z.eqb_eq; lia).
    cbn [combine map emit_segs fst snd zipapp concs].
    destruct m; cbn [G.Mode_eqb cm children segs_of].
    + rewrite (r_getitem_at dp dm [] _ Hdp). cbn [rbind].
      erewrite leaf_loop; [| exact Hrd | intros; cbn; reflexivity].
      cbn. rewrite map_map. reflexivity.
    + cbn [rbind G.Mode_eqb as_dict].
      pose proof Hrd as (Hnd & Hk & He).
      rewrite (py_sorted_keys (map fst d) nd Hnd Hk).
      cbn [conc].
      destruct (conc_snoc s0 (keys nd)) as (l & x & Eo & Ec).
      rewrite Eo. header_steps.
      erewrite leaf_loop; [| exact Hrd | intros; cbn; reflexivity].
      cbn [rbind]. rewrite Ec, map_map. reflexivity.
  - destruct dr as [|d2 dr]; [discriminate|]. cbn [length] in *.
    replace (Z.of_nat (length ip) =? Z.of_nat (length ip + S (S (length mr))) - 1) with false by (symmetry; apply Z.eqb_neq; lia).
    set (lvr := combine (map cm (m2 :: mr)) (d2 :: dr)) in *.
    assert (Hlvr : length lvr = length (m2 :: mr)).
    { unfold lvr. rewrite combine_length, map_length. cbn [length]. lia. }
    assert (Hchild : forall c SS' vals' t' nd', length SS' = length (m2 :: mr) -> rep (length (m2 :: mr)) t' nd' ->
      dfs fuel (mp ++ m :: m2 :: mr) (dp ++ dm :: d2 :: dr) (Z.of_nat (length ip + S (S (length mr))))
          ((ip ++ [c]) ++ concs (m2 :: mr) SS') vals' t' (Z.of_nat (length ip) + 1)
      = Val ((ip ++ [c]) ++ concs (m2 :: mr) (zipapp SS' (fst (emit_segs lvr [nd']))),
             vals' ++ snd (emit_segs lvr [nd']))).
    { intros c SS' vals' t' nd' HS' Hr'.
      pose proof (IH m2 dr d2 fuel (mp ++ [m]) (dp ++ [dm]) (ip ++ [c]) SS' vals' t' nd') as X.
      rewrite !app_length in X. cbn [length] in X.
      specialize (X ltac:(lia) ltac:(lia) HS' ltac:(lia) ltac:(lia) Hr').
      rewrite <- !app_assoc in X. cbn [app] in X.
      replace (Z.of_nat (length ip + 1 + S (length mr))) with (Z.of_nat (length ip + S (S (length mr)))) in X by (f_equal; lia).
      replace (Z.of_nat (length ip + 1)) with (Z.of_nat (length ip) + 1) in X by lia.
      rewrite <- !app_assoc. cbn [app]. exact X. }
    destruct m; cbn [G.Mode_eqb cm children segs_of].
    + rewrite (r_getitem_at dp dm _ _ Hdp). cbn [rbind].
      change (ip ++ conc G.Mode_dense s0 :: concs (m2 :: mr) SS) with (ip ++ [conc G.Mode_dense s0] ++ concs (m2 :: mr) SS).
      rewrite app_assoc.
      erewrite (child_loop (ip ++ [conc G.Mode_dense s0]) (m2 :: mr) lvr (fun ix vs t => dfs fuel (mp ++ _ :: m2 :: mr) (dp ++ dm :: d2 :: dr) (Z.of_nat (length ip + S (S (length mr)))) ix vs t (Z.of_nat (length ip) + 1)) Hlvr (Hchild _) (length mr) d nd);
        [|reflexivity|exact Hrd|intros; reflexivity|cbn [length] in *; lia].
      cbn [rbind]. rewrite <- app_assoc. reflexivity.
    + cbn [rbind G.Mode_eqb as_dict].
      pose proof Hrd as (Hnd & Hk & He).
      rewrite (py_sorted_keys (map fst d) nd Hnd Hk).
      cbn [conc].
      destruct (conc_snoc s0 (keys nd)) as (l & x & Eo & Ec).
      rewrite Eo. header_steps.
      rewrite Ec.
      match goal with |- context [ip ++ ?c :: concs (m2 :: mr) SS] =>
        change (ip ++ c :: concs (m2 :: mr) SS) with (ip ++ [c] ++ concs (m2 :: mr) SS) end.
      rewrite app_assoc.
      erewrite (child_loop (ip ++ [conc G.Mode_compressed (s0 ++ [keys nd])]) (m2 :: mr) lvr (fun ix vs t => dfs fuel (mp ++ _ :: m2 :: mr) (dp ++ dm :: d2 :: dr) (Z.of_nat (length ip + S (S (length mr)))) ix vs t (Z.of_nat (length ip) + 1)) Hlvr (Hchild _) (length mr) d nd);
        [|reflexivity|exact Hrd|intros; reflexivity|cbn [length] in *; lia].
      cbn [rbind]. rewrite <- app_assoc. reflexivity.
Qed.
