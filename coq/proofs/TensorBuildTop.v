(** C09 top level: for every valid format, dimensions and in-range entry list, [build] succeeds, the
    stored tensor is well formed (canonical), accepted by the validation, and reading it back
    ([to_dok_spec], the inverse-permutation reading) gives exactly the non-zero sums of the supplied
    values.  Axiom-free. *)

From Coq Require Import ZArith List Bool Lia ZifyBool Permutation Arith.
From TV Require Import spec.Storage model.TensorBuild proofs.StorageLemmas proofs.TensorBuildLemmas
  proofs.TensorBuildWf proofs.TensorBuildWalk.
Import ListNotations.
Open Scope Z_scope.

(** * hypotheses of the theorems, as booleans *)

Definition dims_okb (fmt : format) (dims : list Z) : bool :=
  (length dims =? length (fordering fmt))%nat && forallb (fun d => 0 <=? d) dims.

Lemma in_rangeb_spec dims c :
  in_rangeb dims c = true <->
  length c = length dims /\ forall i, (i < length dims)%nat -> 0 <= nth i c 0 < nth i dims 0.
Proof.
  revert c. induction dims as [|d dims IH]; intros [|x c]; cbn [in_rangeb length].
  - split; [intros _; split; [reflexivity|intros; lia]|reflexivity].
  - split; [discriminate|intros [H _]; discriminate].
  - split; [discriminate|intros [H _]; discriminate].
  - rewrite !andb_true_iff, IH. split.
    + intros [[H1 H2] [H3 H4]]. split; [lia|]. intros [|i] Hi; cbn [nth]; [lia|apply H4; lia].
    + intros [H1 H2]. pose proof (H2 O ltac:(lia)) as H0. cbn in H0.
      split; [split; lia|]. split; [lia|]. intros i Hi. apply (H2 (S i)). lia.
Qed.

(** * validation accepts every well-formed tensor *)

Lemma last_nth {A} (l : list A) d : last l d = nth (length l - 1) l d.
Proof.
  induction l as [|a l IH]; [reflexivity|].
  destruct l as [|b l]; [reflexivity|].
  change (last (a :: b :: l) d) with (last (b :: l) d). rewrite IH.
  cbn [length]. replace (S (S (length l)) - 1)%nat with (S (length l)) by lia.
  cbn [nth]. replace (S (length l) - 1)%nat with (length l) by lia. reflexivity.
Qed.

Lemma wf_compressed_validate n d pos crd :
  wf_compressedb n d pos crd = true ->
  (zlen pos =? n + 1) && (nthZ (-1) pos 0 =? 0) && weakly_increasing pos
  && (zlen crd =? last pos (-1)) && forallb (fun x => (0 <=? x) && (x <? d)) crd = true.
Proof.
  unfold wf_compressedb. rewrite !andb_true_iff.
  intros [[[[[H1 H2] H3] H4] H5] H6]. repeat split; try assumption.
  assert (0 <= n) as Hn.
  { destruct pos as [|a pos]; [cbn in H2; lia|]. rewrite zlen_cons in H1. pose proof (zlen_nonneg pos). lia. }
  rewrite last_nth. rewrite nthZ_nonneg in H4 by assumption.
  unfold zlen in H1. replace (length pos - 1)%nat with (Z.to_nat n) by lia. lia.
Qed.

Lemma wf_levels_validate lv : forall n k, wf_levelsb lv n = Some k -> validate_levels lv n = Some k.
Proof.
  induction lv as [|[l d] lv IH]; intros n k H; [exact H|].
  destruct l as [|pos crd]; cbn [wf_levelsb validate_levels] in *.
  - destruct (0 <=? d); [now apply IH|discriminate].
  - destruct (wf_compressedb n d pos crd) eqn:W; [|discriminate].
    rewrite (wf_compressed_validate _ _ _ _ W). now apply IH.
Qed.

Lemma wf_validate (t : tensor Z) : wf_tensorb true t = true -> validate t = true.
Proof.
  intros W. pose proof (wf_tensorb_shape _ _ W) as (L1 & L2 & P & D).
  unfold wf_tensorb in W. apply andb_true_iff in W. destruct W as [_ W].
  unfold validate. apply andb_true_iff. split.
  - unfold validate_shape, all_distinct_range. rewrite !andb_true_iff. repeat split.
    + apply Nat.eqb_eq. lia.
    + apply Nat.eqb_eq. lia.
    + apply forallb_forall. intros d Hd. rewrite Forall_forall in D. specialize (D d Hd). lia.
    + apply forallb_forall. intros k Hk. apply in_seq in Hk. apply existsb_exists.
      exists k. split; [|apply Nat.eqb_refl]. apply (is_permb_In _ P). lia.
    + apply forallb_forall. intros x Hx. apply (is_permb_In _ P) in Hx. apply Nat.ltb_lt. lia.
  - destruct (wf_levelsb _ 1) as [n|] eqn:E; [|discriminate].
    now rewrite (wf_levels_validate _ _ _ E).
Qed.

(** * from_aos on valid input: the permutation succeeds *)

Definition permuted (ord : list nat) (es : list entry) : list entry :=
  map (fun e : entry => (to_level_order ord (fst e), snd e)) es.

Definition level_dims_list (ord : list nat) (dims : list Z) : list Z :=
  map (fun i => nth i dims 0) ord.

Lemma level_dims_of_ok ord dims :
  is_permb ord = true -> length dims = length ord ->
  level_dims_of ord dims = Some (level_dims_list ord dims).
Proof.
  intros P L. apply map_opt_Some. intros i Hi. apply (is_permb_In _ P) in Hi.
  apply nth_error_nth'. lia.
Qed.

Lemma permute_ok ord dims es :
  is_permb ord = true -> length dims = length ord -> all_in_rangeb dims es = true ->
  map_opt (fun e : entry => match permute_coord ord (fst e) with
                            | Some lc => Some (lc, snd e) | None => None end) es
  = Some (permuted ord es).
Proof.
  intros P L R. apply map_opt_Some. intros e He.
  unfold all_in_rangeb in R. rewrite forallb_forall in R. specialize (R e He).
  apply in_rangeb_spec in R. destruct R as [Lc _].
  unfold permute_coord. rewrite (map_opt_Some _ (fun i => nth i (fst e) 0)); [reflexivity|].
  intros i Hi. apply (is_permb_In _ P) in Hi. apply nth_error_nth'. lia.
Qed.

Lemma coord_in_range_perm dims c : forall idx modes,
  length modes = length idx ->
  (forall i, In i idx -> 0 <= nth i c 0 < nth i dims 0) ->
  coord_in_range (combine modes (level_dims_list idx dims)) (to_level_order idx c).
Proof.
  induction idx as [|i idx IH]; intros [|m modes] L H; cbn in L; try discriminate; [exact I|].
  cbn. split; [apply H; now left|]. apply IH; [lia|]. intros; apply H. now right.
Qed.

Lemma root_in_range fmt dims es :
  valid_formatb fmt = true -> dims_okb fmt dims = true -> all_in_rangeb dims es = true ->
  node_in_range (combine (fmodes fmt) (level_dims_list (fordering fmt) dims)) (permuted (fordering fmt) es).
Proof.
  intros V D R. unfold valid_formatb in V. apply andb_true_iff in V. destruct V as [V P].
  apply Nat.eqb_eq in V. unfold dims_okb in D. apply andb_true_iff in D. destruct D as [D _].
  apply Nat.eqb_eq in D.
  unfold node_in_range, permuted. apply Forall_forall. intros e' He'. apply in_map_iff in He'.
  destruct He' as (e & <- & He). cbn [fst].
  unfold all_in_rangeb in R. rewrite forallb_forall in R. specialize (R e He).
  apply in_rangeb_spec in R. destruct R as [_ R].
  apply coord_in_range_perm; [assumption|]. intros i Hi. apply R.
  apply (is_permb_In _ P) in Hi. lia.
Qed.

Lemma level_dims_ok fmt dims :
  dims_okb fmt dims = true ->
  lv_dims_ok (combine (fmodes fmt) (level_dims_list (fordering fmt) dims)).
Proof.
  intros D. unfold dims_okb in D. apply andb_true_iff in D. destruct D as [_ D].
  rewrite forallb_forall in D.
  unfold lv_dims_ok. apply Forall_forall. intros [m d] Hin. apply in_combine_r in Hin.
  unfold level_dims_list in Hin. apply in_map_iff in Hin. destruct Hin as (i & <- & _). cbn [snd].
  destruct (Nat.lt_ge_cases i (length dims)) as [Hi|Hi].
  - specialize (D (nth i dims 0) (nth_In _ _ Hi)). lia.
  - rewrite nth_overflow by lia. lia.
Qed.

Lemma map_snd_combine {A B} (a : list A) (b : list B) :
  length a = length b -> map snd (combine a b) = b.
Proof.
  revert b. induction a as [|x a IH]; intros [|y b] L; cbn in L; try discriminate; [reflexivity|].
  cbn. f_equal. apply IH. lia.
Qed.

Lemma map_fst_combine {A B} (a : list A) (b : list B) :
  length a = length b -> map fst (combine a b) = a.
Proof.
  revert b. induction a as [|x a IH]; intros [|y b] L; cbn in L; try discriminate; [reflexivity|].
  cbn. f_equal. apply IH. lia.
Qed.

(** * the built tensor *)

Definition built (fmt : format) (dims : list Z) (es : list entry) : tensor Z :=
  raw_build fmt dims (level_dims_list (fordering fmt) dims) (permuted (fordering fmt) es).

Section Built.
  Variables (fmt : format) (dims : list Z) (es : list entry).
  Hypothesis V : valid_formatb fmt = true.
  Hypothesis D : dims_okb fmt dims = true.
  Hypothesis R : all_in_rangeb dims es = true.

  Let ord := fordering fmt.
  Let ldims := level_dims_list ord dims.
  Let lv := combine (fmodes fmt) ldims.
  Let root := permuted ord es.

  Lemma fmt_facts :
    length (fmodes fmt) = length ord /\ is_permb ord = true /\ length dims = length ord
    /\ length ldims = length ord.
  Proof.
    unfold valid_formatb in V. apply andb_true_iff in V. destruct V as [V1 P].
    apply Nat.eqb_eq in V1. unfold dims_okb in D. apply andb_true_iff in D. destruct D as [D1 _].
    apply Nat.eqb_eq in D1. repeat split; try assumption.
    unfold ldims, level_dims_list. apply map_length.
  Qed.

  Lemma built_fields :
    exists ls vs, emit lv [root] = (ls, vs) /\ built fmt dims es = mkTensor dims ord ls vs.
  Proof.
    unfold built, raw_build. fold ord ldims lv root.
    destruct (emit lv [root]) as [ls vs] eqn:E. now exists ls, vs.
  Qed.

  Lemma built_wf : wf_tensorb true (built fmt dims es) = true.
  Proof.
    destruct fmt_facts as (L1 & P & L2 & L3).
    destruct built_fields as (ls & vs & E & ->).
    pose proof (emit_wf lv [root] ls vs (level_dims_ok _ _ D)
                  (Forall_cons _ (root_in_range _ _ _ V D R) (Forall_nil _)) E) as [W M].
    assert (map snd lv = ldims) as Ms by (unfold lv; apply map_snd_combine; lia).
    assert (length ls = length ord) as Lls.
    { apply (f_equal (@length _)) in M. rewrite !map_length in M. rewrite M.
      unfold lv. rewrite combine_length. lia. }
    unfold wf_tensorb, wf_shapeb, level_dims. cbn [Storage.dims ordering levels vals].
    rewrite Ms in W. fold (level_dims_list ord dims). fold ldims.
    change (zlen [root]) with 1 in W. rewrite W.
    rewrite !andb_true_iff. repeat split.
    - apply Nat.eqb_eq. lia.
    - apply Nat.eqb_eq. lia.
    - exact P.
    - unfold dims_okb in D. apply andb_true_iff in D. tauto.
    - lia.
  Qed.

  Lemma build_ok : build fmt dims es = Ok (built fmt dims es).
  Proof.
    destruct fmt_facts as (L1 & P & L2 & L3).
    unfold build. rewrite V. cbn [negb]. fold ord.
    rewrite (level_dims_of_ok ord dims P L2).
    rewrite (permute_ok ord dims es P L2 R).
    cbv zeta.
    change (raw_build fmt dims (level_dims_list ord dims) (permuted ord es)) with (built fmt dims es).
    now rewrite (wf_validate _ built_wf).
  Qed.

  Lemma built_format : format_of (built fmt dims es) = fmt /\ Storage.dims (built fmt dims es) = dims.
  Proof.
    destruct fmt_facts as (L1 & P & L2 & L3).
    destruct built_fields as (ls & vs & E & ->).
    pose proof (emit_wf lv [root] ls vs (level_dims_ok _ _ D)
                  (Forall_cons _ (root_in_range _ _ _ V D R) (Forall_nil _)) E) as [_ M].
    split; [|reflexivity]. unfold format_of. cbn [levels ordering]. rewrite M.
    unfold lv. rewrite map_fst_combine by lia. unfold ord. now destruct fmt.
  Qed.

  (** the stored entries, read with the inverse permutation, are the trie reading *)
  Lemma items_spec_built :
    items_spec (built fmt dims es)
    = map (fun cv : list Z * Z => (to_dim_order ord (fst cv), snd cv)) (node_walk lv root).
  Proof.
    destruct fmt_facts as (L1 & P & L2 & L3).
    destruct built_fields as (ls & vs & E & ->).
    unfold items_spec, entries, level_dims. cbn [Storage.dims ordering levels vals].
    fold (level_dims_list ord dims). fold ldims.
    assert (map snd lv = ldims) as Ms by (unfold lv; apply map_snd_combine; lia).
    pose proof (walk_emit lv [root] ls vs (level_dims_ok _ _ D) E O ltac:(cbn; lia)) as We.
    rewrite Ms in We. cbn [nth Z.of_nat] in We. rewrite <- We. rewrite map_map.
    apply map_ext. intros [c q]. reflexivity.
  Qed.
End Built.

(** * sums through the permutation *)

Lemma sum_at_permuted ord es lc :
  is_permb ord = true ->
  Forall (fun e : entry => length (fst e) = length ord) es -> length lc = length ord ->
  sum_at lc (permuted ord es) = sum_at (to_dim_order ord lc) es.
Proof.
  intros P HL Llc. induction HL as [|[c v] es Hc HL IH]; [reflexivity|].
  cbn [permuted map sum_at fst snd]. fold (permuted ord es). rewrite IH. f_equal.
  cbn [fst] in Hc.
  destruct (list_eqb (to_level_order ord c) lc) eqn:E1; destruct (list_eqb c (to_dim_order ord lc)) eqn:E2;
    try reflexivity; exfalso.
  - apply list_eqb_eq in E1. apply list_eqb_neq in E2. apply E2. subst lc.
    now rewrite to_dim_order_to_level_order.
  - apply list_eqb_neq in E1. apply list_eqb_eq in E2. apply E1. subst c.
    now rewrite to_level_order_to_dim_order.
Qed.

(** * dictionaries *)

Lemma dict_set_fresh d k v : ~ In k (map fst d) -> dict_set d k v = d ++ [(k, v)].
Proof.
  induction d as [|[k' v'] d IH]; intros H; [reflexivity|].
  cbn [dict_set]. destruct (list_eqb k' k) eqn:E.
  - apply list_eqb_eq in E. subst. exfalso. apply H. now left.
  - cbn [app]. f_equal. apply IH. intros Hin. apply H. now right.
Qed.

Lemma dict_of_acc l : forall acc,
  NoDup (map fst (acc ++ l)) ->
  fold_left (fun d (e : entry) => dict_set d (fst e) (snd e)) l acc = acc ++ l.
Proof.
  induction l as [|[k v] l IH]; intros acc ND; cbn [fold_left]; [now rewrite app_nil_r|].
  cbn [fst snd]. rewrite dict_set_fresh.
  - rewrite IH; rewrite <- app_assoc; [reflexivity|exact ND].
  - rewrite map_app in ND. cbn [map fst] in ND. apply NoDup_remove_2 in ND.
    intros Hin. apply ND. apply in_or_app. now left.
Qed.

Lemma dict_of_NoDup l : NoDup (map fst l) -> dict_of l = l.
Proof. intros ND. unfold dict_of. now rewrite dict_of_acc. Qed.

Lemma NoDup_map_fst_filter (p : entry -> bool) l : NoDup (map fst l) -> NoDup (map fst (filter p l)).
Proof.
  induction l as [|e l IH]; intros ND; [constructor|].
  cbn [map] in ND. inversion ND as [|? ? Hn ND']; subst. cbn [filter]. destruct (p e).
  - cbn [map]. constructor; [|now apply IH]. intros Hin. apply Hn.
    apply in_map_iff in Hin. destruct Hin as (x & Hx & Hin). apply filter_In in Hin.
    apply in_map_iff. exists x. tauto.
  - now apply IH.
Qed.

Lemma NoDup_map_inj_in {A B} (f : A -> B) l :
  (forall x y, In x l -> In y l -> f x = f y -> x = y) -> NoDup l -> NoDup (map f l).
Proof.
  induction l as [|a l IH]; intros Hinj ND; [constructor|].
  inversion ND; subst. cbn [map]. constructor.
  - intros Hin. apply in_map_iff in Hin. destruct Hin as (x & Hx & Hin).
    assert (x = a) by (apply Hinj; [now right|now left|assumption]). subst. contradiction.
  - apply IH; [|assumption]. intros x y Hx Hy. apply Hinj; now right.
Qed.

(** * the round trip *)

Section Roundtrip.
  Variables (fmt : format) (dims : list Z) (es : list entry).
  Hypothesis V : valid_formatb fmt = true.
  Hypothesis D : dims_okb fmt dims = true.
  Hypothesis R : all_in_rangeb dims es = true.

  Let ord := fordering fmt.
  Let lv := combine (fmodes fmt) (level_dims_list ord dims).
  Let root := permuted ord es.

  Lemma es_lengths : Forall (fun e : entry => length (fst e) = length ord) es.
  Proof.
    destruct (fmt_facts fmt dims V D) as (_ & _ & L2 & _). fold ord in L2.
    apply Forall_forall. intros e He. unfold all_in_rangeb in R. rewrite forallb_forall in R.
    specialize (R e He). apply in_rangeb_spec in R. lia.
  Qed.

  Lemma items_spec_keys_NoDup : NoDup (map fst (items_spec (built fmt dims es))).
  Proof.
    destruct (fmt_facts fmt dims V D) as (L1 & P & L2 & L3). fold ord in L1, P, L2, L3.
    rewrite (items_spec_built fmt dims es V D R). fold ord lv root.
    rewrite map_map. cbn [fst].
    rewrite <- (map_map fst (to_dim_order ord)).
    apply NoDup_map_inj_in; [|apply node_walk_NoDup].
    pose proof (root_in_range fmt dims es V D R) as RR. fold ord lv root in RR.
    assert (length lv = length ord) as Llv by (unfold lv; rewrite combine_length; lia).
    intros a b Ha Hb E. apply in_map_iff in Ha, Hb.
    destruct Ha as ([a' va] & <- & Ha), Hb as ([b' vb] & <- & Hb). cbn [fst] in *.
    apply node_walk_values in Ha; [|now apply node_in_range_lengths].
    apply node_walk_values in Hb; [|now apply node_in_range_lengths].
    destruct Ha as [_ La], Hb as [_ Lb].
    assert (a' = b') as -> by (apply (to_dim_order_inj ord a' b' P); [lia|lia|exact E]).
    reflexivity.
  Qed.

  Lemma to_dok_spec_built :
    to_dok_spec (built fmt dims es)
    = filter nonzero (map (fun cv : list Z * Z => (to_dim_order ord (fst cv), snd cv)) (node_walk lv root)).
  Proof.
    unfold to_dok_spec, to_dok. fold nonzero.
    change (fun e : entry => negb (snd e =? 0)) with nonzero.
    rewrite dict_of_NoDup.
    - now rewrite (items_spec_built fmt dims es V D R).
    - apply NoDup_map_fst_filter, items_spec_keys_NoDup.
  Qed.

  Theorem roundtrip_In c v :
    In (c, v) (to_dok_spec (built fmt dims es)) <-> v = sum_at c es /\ v <> 0.
  Proof.
    destruct (fmt_facts fmt dims V D) as (L1 & P & L2 & L3). fold ord in L1, P, L2, L3.
    pose proof (root_in_range fmt dims es V D R) as RR. fold ord lv root in RR.
    assert (length lv = length ord) as Llv by (unfold lv; rewrite combine_length; lia).
    rewrite to_dok_spec_built. rewrite filter_In, in_map_iff. split.
    - intros [([lc w] & E & Hin) Hnz]. cbn [fst snd] in E. inversion E; subst c w. clear E.
      pose proof (node_walk_values lv root lc v (node_in_range_lengths _ _ RR) Hin) as [Hv Hl].
      unfold nonzero in Hnz. cbn [snd] in Hnz. split; [|lia].
      rewrite Hv. unfold root. apply sum_at_permuted; [assumption|apply es_lengths|lia].
    - intros [Hv Hnz].
      assert (length c = length ord) as Lc.
      { subst v. destruct (sum_at_nonzero_In _ _ Hnz) as [w Hw].
        pose proof es_lengths as EL. rewrite Forall_forall in EL. apply (EL _ Hw). }
      set (lc := to_level_order ord c).
      assert (to_dim_order ord lc = c) as Ec by (now apply to_dim_order_to_level_order).
      assert (sum_at lc root = v) as Hs.
      { unfold root. rewrite sum_at_permuted; [now rewrite Ec|assumption|apply es_lengths|].
        unfold lc. apply to_level_order_length. }
      assert (In (lc, v) (filter nonzero (node_walk lv root))) as Hin.
      { apply node_walk_spec; [assumption|]. split; [now rewrite Hs|assumption]. }
      apply filter_In in Hin. destruct Hin as [Hin Hnz']. split; [|exact Hnz'].
      exists (lc, v). split; [cbn [fst snd]; now rewrite Ec|assumption].
  Qed.

  Theorem roundtrip_NoDup : NoDup (map fst (to_dok_spec (built fmt dims es))).
  Proof.
    unfold to_dok_spec, to_dok.
    rewrite dict_of_NoDup; apply NoDup_map_fst_filter, items_spec_keys_NoDup.
  Qed.
End Roundtrip.
