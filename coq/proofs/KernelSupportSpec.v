(** C01G -- the structural support of the graph ([KernelSupport.gsupp]) implies the structural
    support of the ASSIGNMENT in the sense of property C03 ([Support.supportb], spec/Support.v),
    whenever the graph is accepted by C01's validator [graph_ok_spec]; hence the output of the kernel
    model passes C03's checker [Support.no_phantomb].

    Route: [gsupp] has a witness in the normal form [nf_g] of the graph (a monomial, in-range values
    for its summed indexes, every factor stored); the validator matches that monomial with one of
    the specification (same factors up to order and literal -1, same summed indexes up to order);
    Spec's monomials translate 1:1 to Support's. *)

From Coq Require Import ZArith List Bool Lia ZifyBool String Permutation.
From TV Require Import spec.Storage spec.Support proofs.SupportProofs.
From TV Require Import spec.Spec proofs.SpecSums proofs.SpecLemmas proofs.StorageLemmas proofs.StorageWf
                       model.DesugarSem model.Exhaust proofs.ExhaustProofs
                       model.DesugarSemGraph proofs.DesugarSemGraphProofs
                       model.Kernel proofs.KernelLocate proofs.KernelEncode proofs.KernelExhaust
                       proofs.KernelSound proofs.KernelBucket proofs.KernelSupport proofs.KernelTheorems.
Import ListNotations.
Local Open Scope Z_scope.

(** * valuations built from association lists *)

Lemma bind_pairs_cons rho k v r : bind_pairs rho ((k, v) :: r) = bind_pairs (upd rho k v) r.
Proof. reflexivity. Qed.

Lemma bind_pairs_notin r : forall rho x, ~ In x (map fst r) -> bind_pairs rho r x = rho x.
Proof.
  induction r as [|[k v] r IH]; intros rho x H; [reflexivity|]. rewrite bind_pairs_cons, IH.
  - apply upd_other. intros ->. apply H. now left.
  - intros Hin. apply H. now right.
Qed.

Lemma bind_pairs_in r : forall rho x v, NoDup (map fst r) -> In (x, v) r -> bind_pairs rho r x = v.
Proof.
  induction r as [|[k w] r IH]; intros rho x v ND Hin; [contradiction|].
  cbn [map fst] in ND. inversion ND as [|? ? Hn ND']; subst. rewrite bind_pairs_cons.
  destruct Hin as [E|Hin].
  - inversion E; subst. rewrite bind_pairs_notin by exact Hn. apply upd_same.
  - now apply IH.
Qed.

(** * presence in terms of stored coordinate sets *)

Section Bridge.
Variable cfg : kcfg.
Hypothesis LOK : leaves_okb cfg = true.

Notation ords := (ordsE cfg).

(** the coordinates (dimension order) tensor [n] stores *)
Definition stored_set (n : string) : list (list Z) :=
  match Spec.lookup n (k_ins cfg) with
  | Some t => stored_of 0 t
  | None => []
  end.

Definition fpres (rho : val) (f : Spec.factor Z) : Prop :=
  match f with
  | Spec.FTensor n idx => In (map rho idx) (stored_set n)
  | _ => True
  end.

Lemma fpres_veq rho rho' f : veq rho rho' -> fpres rho f -> fpres rho' f.
Proof.
  intros V. destruct f; cbn; auto. now rewrite (map_ext rho rho' V).
Qed.

Lemma present_stored rho id n idx ms :
  In (id, (n, idx, ms)) (k_leaves cfg) -> present cfg rho id = true ->
  In (map rho (dim_idx (ords n) idx)) (stored_set n).
Proof.
  intros Hin Hp. destruct (leaf_registered cfg LOK _ _ _ _ Hin) as (Hl & t & Ht & W & L & _).
  unfold present, leaf_value, input_of in Hp. rewrite Hl, Ht in Hp.
  destruct (locate (tlevels t) (map rho idx) 0) as [p|] eqn:E; [|discriminate].
  destruct (wf_tensorb_wf_levels _ _ W) as (k & Wl).
  apply (locate_walk _ 1 k 0 (map rho idx) p Wl ltac:(lia)) in E.
  pose proof (wf_tensorb_shape _ _ W) as (_ & _ & P & _).
  unfold stored_set, ordsE. rewrite Ht. rewrite <- (to_dim_order_map rho _ _ P L).
  unfold stored_of, entries. rewrite map_map. apply in_map_iff. exists (map rho idx, p). split; [reflexivity|exact E].
Qed.

(** * a witness in the normal form *)

Definition in_rng (r : list (string * Z)) : Prop :=
  Forall (fun kv => 0 <= snd kv < k_sizes cfg (fst kv)) r.

Definition W (ms : list (nmono Z)) (rho : val) : Prop :=
  exists m r, In m ms /\ map fst r = nsummed m /\ in_rng r
              /\ forall f, In f (nfactors m) -> fpres (bind_pairs rho r) f.

Lemma nf_g_sum (ts : list (graph Z)) : nf_g ords (GSum ts) = flat_map (nf_g ords) ts.
Proof. induction ts as [|t r IH]; [reflexivity|]. cbn [nf_g flat_map] in *. now rewrite IH. Qed.

Lemma isupp_witness rho (e : iexpr Z) :
  incl (iexpr_leaves e) (k_leaves cfg) -> isupp (present cfg rho) e = true ->
  exists m, In m (nf_i ords e) /\ nsummed m = [] /\ forall f, In f (nfactors m) -> fpres rho f.
Proof.
  induction e; intros Hi Hs; cbn [isupp nf_i iexpr_leaves] in *.
  - eexists. split; [now left|]. split; [reflexivity|]. intros f [<-|[]]. exact I.
  - eexists. split; [now left|]. split; [reflexivity|]. intros f [<-|[]]. exact I.
  - eexists. split; [now left|]. split; [reflexivity|]. intros f [<-|[]]. cbn.
    apply (present_stored rho id name idx modes); [apply Hi; now left|exact Hs].
  - apply orb_true_iff in Hs. destruct Hs as [Hs|Hs].
    + destruct IHe1 as (m & Hm & H1 & H2); [intros x Hx; apply Hi; apply in_app_iff; auto|exact Hs|].
      exists m. split; [apply in_app_iff; auto|auto].
    + destruct IHe2 as (m & Hm & H1 & H2); [intros x Hx; apply Hi; apply in_app_iff; auto|exact Hs|].
      exists m. split; [apply in_app_iff; auto|auto].
  - apply andb_true_iff in Hs. destruct Hs as [Hs1 Hs2].
    destruct IHe1 as (ma & Hma & A1 & A2); [intros x Hx; apply Hi; apply in_app_iff; auto|exact Hs1|].
    destruct IHe2 as (mb & Hmb & B1 & B2); [intros x Hx; apply Hi; apply in_app_iff; auto|exact Hs2|].
    exists (nmul ma mb). split; [|split].
    + unfold nprod. apply in_flat_map. exists ma. split; [exact Hma|]. now apply in_map.
    + unfold nmul, nsummed in *. cbn [snd]. now rewrite A1, B1.
    + intros f Hf. unfold nmul, nfactors in *. cbn [fst snd] in Hf. apply in_app_iff in Hf. destruct Hf; auto.
Qed.

Lemma gsupp_witness (g : graph Z) : incl (graph_leaves g) (k_leaves cfg) ->
  forall rho, gsupp cfg g rho = true -> W (nf_g ords g) rho.
Proof.
  induction g using (graph_ind' Z); intros Hi rho Hs.
  - cbn [gsupp nf_g graph_leaves] in *. destruct (isupp_witness rho e Hi Hs) as (m & Hm & H1 & H2).
    exists m, []. split; [exact Hm|]. split; [now rewrite H1|]. split; [constructor|exact H2].
  - cbn [graph_leaves] in Hi. destruct o as [l|]; cbn [gsupp nf_g] in *; [now apply IHg|].
    apply existsb_exists in Hs. destruct Hs as (v & Hv & Hs). apply In_zrange in Hv.
    destruct (IHg Hi _ Hs) as (m & r & Hm & Hk & Hr & Hf).
    exists (add_summed k m), ((k, v) :: r). split; [now apply in_map|]. split; [|split].
    + cbn. now rewrite Hk.
    + constructor; [exact Hv|exact Hr].
    + exact Hf.
  - rewrite gsupp_sum in Hs. apply existsb_exists in Hs. destruct Hs as (t & Ht & Hs).
    rewrite Forall_forall in H. destruct (H t Ht) with (rho := rho) as (m & r & Hm & Hrest); [|exact Hs|].
    + intros x Hx. apply Hi. rewrite graph_leaves_sum. apply in_flat_map. eauto.
    + exists m, r. split; [|exact Hrest]. rewrite nf_g_sum. apply in_flat_map. eauto.
Qed.

(** * across the validator *)

Lemma Forall2_in_r {A B} (R : A -> B -> Prop) l1 l2 y :
  Forall2 R l1 l2 -> In y l2 -> exists x, In x l1 /\ R x y.
Proof.
  induction 1 as [|a b l1 l2 Hab H IH]; intros Hin; [contradiction|].
  destruct Hin as [<-|Hin]; [exists a; split; [now left|exact Hab]|].
  destruct (IH Hin) as (x & Hx & Hr). exists x. split; [now right|exact Hr].
Qed.

Lemma is_m1_fpres rho (f : Spec.factor Z) : is_m1 f = true -> fpres rho f.
Proof. destruct f; cbn; intros; try discriminate; exact I. Qed.

Lemma validator_witness (a : Spec.assignment Z) (g : graph Z) rho :
  graph_ok_spec ords Z.eqb a g = true -> W (nf_g ords g) rho -> W (nf_spec a) rho.
Proof.
  intros Hok (m & r & Hm & Hk & Hr & Hf). unfold graph_ok_spec in Hok.
  destruct (permb_sound _ _ _ _ Hok) as (l2' & Hperm & Hall).
  assert (In (ncanon m) l2') as Hin.
  { eapply Permutation_in; [exact Hperm|]. now apply in_map. }
  destruct (Forall2_in_r _ _ _ _ Hall Hin) as (x & Hx & Heq). apply in_map_iff in Hx.
  destruct Hx as (ms & <- & Hms). unfold nmono_eqb in Heq.
  apply andb_true_iff in Heq. destruct Heq as [Heq H4]. apply andb_true_iff in Heq. destruct Heq as [Heq H3].
  apply andb_true_iff in Heq. destruct Heq as [_ H2].
  apply (permb_factor_sound ZOps Z.eqb (fun x y E => proj1 (Z.eqb_eq x y) E)) in H2.
  apply nodupb_sound in H3. apply permb_string_sound in H4.
  change (nsummed (ncanon ms)) with (nsummed ms) in *. change (nsummed (ncanon m)) with (nsummed m) in *.
  change (nfactors (ncanon ms)) with (filter (fun f => negb (is_m1 f)) (nfactors ms)) in H2.
  change (nfactors (ncanon m)) with (filter (fun f => negb (is_m1 f)) (nfactors m)) in H2.
  assert (NoDup (map fst r)) as NDr.
  { rewrite Hk. eapply Permutation_NoDup; [exact H4|exact H3]. }
  set (tau := bind_pairs rho r).
  exists ms, (map (fun k => (k, tau k)) (nsummed ms)). split; [exact Hms|]. split; [|split].
  - rewrite map_map. cbn [fst]. apply map_id.
  - unfold in_rng. apply Forall_forall. intros kv Hkv. apply in_map_iff in Hkv. destruct Hkv as (k & <- & Hk').
    cbn [fst snd].
    assert (In k (map fst r)) as Hkr by (rewrite Hk; eapply Permutation_in; eauto).
    apply in_map_iff in Hkr. destruct Hkr as ([k' v] & E & Hkv). cbn [fst] in E. subst k'.
    unfold tau. rewrite (bind_pairs_in r rho k v NDr Hkv).
    unfold in_rng in Hr. rewrite Forall_forall in Hr. exact (Hr _ Hkv).
  - assert (veq tau (bind_pairs rho (map (fun k => (k, tau k)) (nsummed ms)))) as V.
    { intros x. destruct (in_dec string_dec x (nsummed ms)) as [Hx|Hx].
      - symmetry. apply bind_pairs_in.
        + rewrite map_map. cbn [fst]. now rewrite map_id.
        + apply in_map_iff. now exists x.
      - rewrite bind_pairs_notin by (rewrite map_map; cbn [fst]; now rewrite map_id).
        unfold tau. apply bind_pairs_notin. rewrite Hk. intros Hin'. apply Hx.
        eapply Permutation_in; [apply Permutation_sym; exact H4|exact Hin']. }
    intros f Hfin. apply (fpres_veq tau _ f V).
    destruct (is_m1 f) eqn:E1; [now apply is_m1_fpres|].
    apply Hf. assert (In f (filter (fun f0 => negb (is_m1 f0)) (nfactors m))) as Hfm.
    { eapply Permutation_in; [exact H2|]. apply filter_In. split; [exact Hfin|now rewrite E1]. }
    apply filter_In in Hfm. tauto.
Qed.

End Bridge.

(** * from Spec's syntax to Support's *)

Fixpoint tr_expr (e : Spec.expr Z) : Support.sexpr :=
  match e with
  | EInt z => SLit z
  | EFloat r => SLit r
  | ETensor n ix => STensor n ix
  | EAdd a b => SAdd (tr_expr a) (tr_expr b)
  | ESub a b => SSub (tr_expr a) (tr_expr b)
  | EMul a b => SMul (tr_expr a) (tr_expr b)
  end.

Definition tr_assignment (a : Spec.assignment Z) : Support.assignment :=
  mkAssignment (tgt_name a) (tgt_idx a) (tr_expr (rhs a)).

Definition trf (f : Spec.factor Z) : Support.factor :=
  match f with
  | Spec.FInt z => FLit z
  | Spec.FFloat r => FLit r
  | Spec.FTensor n ix => FTen n ix
  end.

Definition trm (m : Spec.monomial Z) : Support.mono := (fst m, map trf (snd m)).

Lemma monomials_tr (e : Spec.expr Z) : Support.monomials (tr_expr e) = map trm (Spec.monomials e).
Proof.
  induction e; cbn [tr_expr Support.monomials Spec.monomials]; try reflexivity.
  - now rewrite IHe1, IHe2, map_app.
  - rewrite IHe1, IHe2, map_app, !map_map. f_equal.
  - rewrite IHe1, IHe2. unfold mprod. rewrite map_flat_map, flat_map_map.
    apply flat_map_ext. intros ma. rewrite !map_map. apply map_ext. intros mb.
    unfold trm, mono_mul, mmul. cbn [fst snd]. now rewrite map_app.
Qed.

Lemma mem_str_smem k l : mem_str k l = smem k l.
Proof.
  unfold smem. induction l as [|x l IH]; [reflexivity|]. cbn. now rewrite IH, String.eqb_sym.
Qed.

Lemma dedupe_nodup l : dedupe l = nodup string_dec l.
Proof.
  induction l as [|x l IH]; [reflexivity|]. cbn [dedupe nodup]. rewrite IH, mem_str_smem.
  destruct (in_dec string_dec x l) as [Hin|Hn].
  - apply smem_In in Hin. now rewrite Hin.
  - apply smem_false in Hn. now rewrite Hn.
Qed.

Lemma contracted_tr tidx (m : Spec.monomial Z) :
  Support.contracted tidx (trm m) = Spec.contracted tidx m.
Proof.
  unfold Support.contracted, Spec.contracted, midx, trm. cbn [snd]. rewrite flat_map_map.
  rewrite dedupe_nodup.
  replace (flat_map (fun x => Support.factor_idx (trf x)) (snd m)) with (flat_map Spec.factor_idx (snd m))
    by (apply flat_map_ext; intros f; now destruct f).
  apply filter_ext. intros k. now rewrite mem_str_smem.
Qed.

(** Support's association lists *)
Lemma slookup_app_r (e1 e2 : Support.env) x :
  ~ In x (map fst e1) -> Support.lookup (e1 ++ e2) x = Support.lookup e2 x.
Proof.
  induction e1 as [|[k v] e1 IH]; intros H; [reflexivity|]. cbn [app Support.lookup].
  destruct (String.eqb_spec k x) as [->|N]; [exfalso; apply H; now left|].
  apply IH. intros Hin. apply H. now right.
Qed.

Lemma slookup_app_l (e1 e2 : Support.env) x :
  In x (map fst e1) -> Support.lookup (e1 ++ e2) x = Support.lookup e1 x.
Proof.
  induction e1 as [|[k v] e1 IH]; intros H; [contradiction|]. cbn [app Support.lookup].
  destruct (String.eqb_spec k x) as [->|N]; [reflexivity|].
  apply IH. destruct H as [E|H]; [cbn in E; congruence|exact H].
Qed.

Lemma slookup_in (r : Support.env) x v : NoDup (map fst r) -> In (x, v) r -> Support.lookup r x = v.
Proof.
  induction r as [|[k w] r IH]; intros ND Hin; [contradiction|].
  cbn [map fst] in ND. inversion ND as [|? ? Hn ND']; subst. cbn [Support.lookup].
  destruct Hin as [E|Hin].
  - inversion E; subst. now rewrite String.eqb_refl.
  - destruct (String.eqb_spec k x) as [->|N]; [|now apply IH].
    exfalso. apply Hn. apply in_map_iff. now exists (x, v).
Qed.

Lemma bind_slookup tgt : forall c x, List.length c = List.length tgt -> In x tgt ->
  bind tgt c x = Support.lookup (combine tgt c) x.
Proof.
  induction tgt as [|k t IH]; intros c x L Hin; [contradiction|].
  destruct c as [|v c]; [discriminate|]. cbn [bind combine Support.lookup]. unfold upd.
  rewrite String.eqb_sym. destruct (String.eqb_spec k x) as [->|N]; [reflexivity|].
  apply IH; [cbn in L; lia|]. destruct Hin as [E|Hin]; [congruence|exact Hin].
Qed.

Section Final.
Variable cfg : kcfg.
Hypothesis LOK : leaves_okb cfg = true.
Variable senv : Support.env.
Hypothesis SZ : forall k, Support.lookup senv k = k_sizes cfg k.

Lemma support_from_witness (a : Spec.assignment Z) (c : list Z) :
  List.length c = List.length (tgt_idx a) ->
  W cfg (nf_spec a) (bind (tgt_idx a) c) ->
  supportb (tr_assignment a) (stored_set cfg) senv c = true.
Proof.
  intros Lc (m & r & Hm & Hk & Hr & Hf). unfold nf_spec in Hm. apply in_map_iff in Hm.
  destruct Hm as (m0 & <- & Hm0). unfold nsummed, nfactors in *. cbn [fst snd] in *.
  apply support_spec_full. exists (trm m0), r. cbn [tr_assignment a_rhs a_tidx]. split; [|split].
  - rewrite monomials_tr. now apply in_map.
  - split; [now rewrite contracted_tr|]. unfold in_rng in Hr. eapply Forall_impl; [|exact Hr].
    intros kv H. now rewrite SZ.
  - intros f Hfin. unfold trm in Hfin. cbn [snd] in Hfin. apply in_map_iff in Hfin.
    destruct Hfin as (f0 & <- & Hf0). specialize (Hf f0 Hf0). destruct f0 as [z|q|n ix]; cbn [trf]; try exact I.
    cbn [fpres] in Hf.
    replace (map (Support.lookup (combine (tgt_idx a) c ++ r)) ix)
      with (map (bind_pairs (bind (tgt_idx a) c) r) ix); [exact Hf|].
    apply map_ext_in. intros x Hx.
    assert (NoDup (map fst r)) as NDr.
    { rewrite Hk. unfold Spec.contracted. apply NoDup_filter. apply NoDup_nodup. }
    destruct (in_dec string_dec x (map fst r)) as [Hxr|Hxr].
    + assert (~ In x (tgt_idx a)) as Hnt.
      { rewrite Hk in Hxr. unfold Spec.contracted in Hxr. apply filter_In in Hxr. destruct Hxr as [_ Hn].
        apply negb_true_iff in Hn. now apply smem_false in Hn. }
      apply in_map_iff in Hxr. destruct Hxr as ([x' v] & E & Hxv). cbn [fst] in E. subst x'.
      rewrite (bind_pairs_in r _ x v NDr Hxv).
      rewrite slookup_app_r; [symmetry; now apply slookup_in|].
      intros Hin. apply Hnt. apply in_map_iff in Hin. destruct Hin as ([k w] & E & Hkw). cbn [fst] in E. subst k.
      apply in_combine_l in Hkw. exact Hkw.
    + rewrite bind_pairs_notin by exact Hxr.
      assert (In x (tgt_idx a)) as Hxt.
      { destruct (in_dec string_dec x (tgt_idx a)) as [H|H]; [exact H|]. exfalso. apply Hxr. rewrite Hk.
        unfold Spec.contracted. apply filter_In. split.
        - apply In_nodup_iff. unfold midx. apply in_flat_map. exists (Spec.FTensor n ix). split; [exact Hf0|exact Hx].
        - apply negb_true_iff. now apply smem_false. }
      rewrite slookup_app_l.
      * now apply bind_slookup.
      * assert (map fst (combine (tgt_idx a) c) = tgt_idx a) as -> by (apply combine_map_fst; lia). exact Hxt.
Qed.

End Final.

(** * the output of the kernel model passes C03's checker *)

Lemma enc_levels_modes ms : forall nodes, map level_mode (fst (enc_levels ms nodes)) = ms.
Proof.
  induction ms as [|m ms IH]; intros nodes; [reflexivity|]. cbn [enc_levels].
  specialize (IH (map snd (flat_map kids_of nodes))).
  destruct (enc_levels ms (map snd (flat_map kids_of nodes))) as [lv vs]. cbn [fst] in IH.
  destruct m; cbn [fst map level_mode]; now rewrite IH.
Qed.

Lemma Forall2_app_skip {A B} (P : A -> B -> Prop) (p rest : list A) (L : list B) :
  Forall2 P (p ++ rest) L -> Forall2 P rest (skipn (List.length p) L).
Proof.
  revert L. induction p as [|x p IH]; intros L H; [exact H|].
  destruct L as [|y L]; inversion H; subst. cbn [List.length skipn]. now apply IH.
Qed.

Lemma Forall2_map_r {A B C} (P : A -> C -> Prop) (f : B -> C) l1 l2 :
  Forall2 (fun x k => P x (f k)) l1 l2 -> Forall2 P l1 (map f l2).
Proof. induction 1; cbn; constructor; auto. Qed.

Section Checker.
Variable cfg : kcfg.
Variable senv : Support.env.
Hypothesis SZ : forall k, Support.lookup senv k = k_sizes cfg k.

(** level-order binding = dimension-order binding of the target indexes *)
Lemma bind_level_dim (tgt : list string) (lc : list Z) :
  cfg_ok cfg -> k_oidx cfg = level_names cfg tgt -> NoDup tgt ->
  List.length tgt = List.length (k_oord cfg) -> List.length lc = List.length (k_oord cfg) ->
  veq (bind_from (fun _ => 0) (k_oidx cfg) lc) (bind tgt (to_dim_order (k_oord cfg) lc)).
Proof.
  intros (L1 & L2 & P & _) Eo NDt Lt Ll. set (c := to_dim_order (k_oord cfg) lc).
  assert (List.length c = List.length tgt) as Lc by (unfold c; rewrite to_dim_order_length; lia).
  assert (lc = to_level_order (k_oord cfg) c) as Elc
    by (unfold c; symmetry; now apply to_level_order_to_dim_order).
  rewrite bind_from_pairs, bind_pairs_rev. intros z. symmetry. apply bind_pairs_perm.
  - eapply perm_trans; [apply Permutation_sym, Permutation_rev|].
    rewrite Eo, Elc. unfold level_names, to_level_order. rewrite combine_map.
    replace (combine tgt c) with (map (fun x => (nth x tgt EmptyString, nth x c 0)) (seq 0 (List.length (k_oord cfg)))).
    2:{ rewrite <- combine_map. f_equal; [rewrite <- Lt|rewrite <- Lt, <- Lc]; apply map_nth_seq. }
    apply Permutation_map. now apply is_permb_Permutation.
  - rewrite map_rev. apply Permutation_NoDup with (l := tgt); [|exact NDt].
    rewrite combine_map_fst by lia. apply Permutation_rev.
Qed.

Theorem G_out_no_phantomb (g : graph Z) (a : Spec.assignment Z) :
  k_leaves cfg = graph_leaves g ->
  graph_okb cfg g (tgt_idx a) = true -> support_okb cfg g = true ->
  graph_ok_spec (ordsE cfg) Z.eqb a g = true ->
  no_phantomb (tr_assignment a) (stored_set cfg) senv (G_out cfg g) = true.
Proof.
  intros El Hok Hsup Hval. apply no_phantomb_spec. intros l pos crd Hl p Hp.
  destruct (graph_okb_parts _ _ _ Hok) as (LOK & CFG & Hs & Hw & ND & NDt & Lt & Eo).
  destruct (encode_fields cfg (atrie (G cfg g))) as (Ed & Eor & Elv & _). unfold G_out in *.
  assert (nth_error (k_omodes cfg) l = Some MCompressed) as Hm.
  { rewrite <- (enc_levels_modes (k_omodes cfg) [atrie (G cfg g)]), <- Elv, nth_error_map, Hl. reflexivity. }
  destruct (G_no_phantoms cfg g (tgt_idx a) El Hok Hsup l p Hm Hp) as (rest & Hr & Hsupp).
  assert (twf (olevels cfg) (atrie (G cfg g))) as TW.
  { apply (Ga_twf cfg LOK CFG g 0 [] (fun _ => 0) (wellb_shape cfg LOK CFG g 0 Hw)). rewrite El. apply incl_refl. }
  assert (S l <= List.length (k_omodes cfg))%nat as Hlm.
  { assert (l < List.length (k_omodes cfg))%nat by (apply nth_error_Some; congruence). lia. }
  destruct (stored_prefixes_nodes cfg _ (S l) p CFG TW Hlm Hp) as (Lp & _).
  pose proof CFG as (L1 & L2 & Pm & _).
  apply level_support_spec. exists rest. rewrite Eor. split.
  - unfold level_sizes. cbn [tr_assignment a_tidx].
    replace (map (fun d => Support.lookup senv (nth d (tgt_idx a) EmptyString)) (k_oord cfg))
      with (map (k_sizes cfg) (k_oidx cfg)).
    2:{ rewrite Eo. unfold level_names. rewrite map_map. apply map_ext. intros d. now rewrite SZ. }
    rewrite <- Lp, skipn_map. apply Forall2_map_r. now apply Forall2_app_skip.
  - assert (List.length (p ++ rest) = List.length (k_oord cfg)) as Ll.
    { rewrite (Forall2_length' _ _ _ Hr). exact L1. }
    apply (support_from_witness cfg LOK senv SZ a).
    + rewrite to_dim_order_length. cbn [tr_assignment]. lia.
    + apply (validator_witness cfg a g _ Hval). apply (gsupp_witness cfg LOK g).
      * rewrite El. apply incl_refl.
      * rewrite <- Hsupp. apply (gsupp_veq cfg). intros z. symmetry. now apply bind_level_dim.
Qed.

End Checker.
