(** [index_participants] characterised independently of the set-iteration oracle:
    keys are duplicate-free, and [(T, j)] is a participant of index [k] exactly when some
    occurrence [T(... k at position j ...)] exists in the expression. *)

From Coq Require Import String List ZArith Bool Arith Lia Permutation.
From TV Require Import model.ExprAst proofs.ValidateBase.
Import ListNotations.

(** [T(idx)] occurs in [e] with [k] at position [j], where [pt = (T, j)] *)
Definition occ_at (e : expr) (k : string) (pt : participant) : Prop :=
  exists idx, In (TRef (fst pt) idx) (occurrences e) /\ nth_error idx (snd pt) = Some k.

Lemma occ_at_binary : forall l r k pt,
  (exists idx, In (TRef (fst pt) idx) (occurrences l ++ occurrences r) /\ nth_error idx (snd pt) = Some k)
  <-> occ_at l k pt \/ occ_at r k pt.
Proof.
  intros. unfold occ_at. split.
  - intros [idx [H1 H2]]. apply in_app_iff in H1. destruct H1; [left|right]; eauto.
  - intros [[idx [H1 H2]]|[idx [H1 H2]]]; exists idx; rewrite in_app_iff; auto.
Qed.

(* ------------------------------------------------------------------------------------------ *)
(** * one tensor *)

Lemma aget_nil_aput : forall k x v (m : ipmap),
  aget_nil k (aput x v m) = if String.eqb x k then v else aget_nil k m.
Proof.
  intros. unfold aget_nil. destruct (String.eqb x k) eqn:E.
  - apply String.eqb_eq in E. subst. rewrite aget_aput_same. reflexivity.
  - apply String.eqb_neq in E. rewrite aget_aput_other by assumption. reflexivity.
Qed.

Lemma tensor_ip_get : forall name idx i acc k pt,
  In pt (aget_nil k (tensor_ip name idx i acc)) <->
  In pt (aget_nil k acc) \/ (fst pt = name /\ i <= snd pt /\ nth_error idx (snd pt - i) = Some k).
Proof.
  induction idx as [|x t IH]; intros i acc k pt; simpl.
  - split; [auto|]. intros [H|[_ [_ H]]]; [auto|]. destruct (snd pt - i); discriminate.
  - rewrite IH. rewrite aget_nil_aput. destruct pt as [T j]. simpl.
    destruct (String.eqb x k) eqn:E.
    + apply String.eqb_eq in E. subst x. rewrite punion_In. simpl. split.
      * intros [[H|[H|[]]]|[H1 [H2 H3]]].
        -- auto.
        -- inversion H; subst. right. repeat split; auto. rewrite Nat.sub_diag. reflexivity.
        -- right. repeat split; auto; [lia|].
           replace (j - i) with (S (j - S i)) by lia. exact H3.
      * intros [H|[H1 [H2 H3]]]; [auto|].
        destruct (Nat.eq_dec j i) as [->|Hne].
        -- left. right. left. subst. reflexivity.
        -- right. repeat split; auto; [lia|].
           replace (j - i) with (S (j - S i)) in H3 by lia. exact H3.
    + apply String.eqb_neq in E. split.
      * intros [H|[H1 [H2 H3]]]; [auto|]. right. repeat split; auto; [lia|].
        replace (j - i) with (S (j - S i)) by lia. exact H3.
      * intros [H|[H1 [H2 H3]]]; [auto|].
        destruct (Nat.eq_dec j i) as [->|Hne].
        -- rewrite Nat.sub_diag in H3. simpl in H3. congruence.
        -- right. repeat split; auto; [lia|].
           replace (j - i) with (S (j - S i)) in H3 by lia. exact H3.
Qed.

Lemma tensor_ip_keys : forall name idx i acc k,
  In k (akeys (tensor_ip name idx i acc)) <-> In k (akeys acc) \/ In k idx.
Proof.
  induction idx as [|x t IH]; intros i acc k; simpl.
  - tauto.
  - rewrite IH, akeys_aput_In. split; intros H; intuition (subst; auto).
Qed.

Lemma tensor_ip_NoDup : forall name idx i acc,
  NoDup (akeys acc) -> NoDup (akeys (tensor_ip name idx i acc)).
Proof.
  induction idx as [|x t IH]; intros i acc ND; simpl; [assumption|].
  apply IH. apply akeys_aput_NoDup. assumption.
Qed.

(* ------------------------------------------------------------------------------------------ *)
(** * merging, for any oracle that permutes *)

Section WithOracle.
  Variable ord : path -> list string -> list string.
  Hypothesis ord_perm : forall pth l, Permutation (ord pth l) l.

  Lemma ord_In : forall pth l x, In x (ord pth l) <-> In x l.
  Proof.
    intros. split; apply Permutation_in; [apply ord_perm | apply Permutation_sym, ord_perm].
  Qed.

  Lemma merge_keys_In : forall pth l r k,
    In k (akeys (merge_ip ord pth l r)) <-> In k (akeys l) \/ In k (akeys r).
  Proof.
    intros. unfold merge_ip.
    rewrite (akeys_map_keys (fun k => punion (aget_nil k l) (aget_nil k r))).
    rewrite ord_In, sdedup_In, in_app_iff. tauto.
  Qed.

  Lemma merge_NoDup : forall pth l r, NoDup (akeys (merge_ip ord pth l r)).
  Proof.
    intros. unfold merge_ip.
    rewrite (akeys_map_keys (fun k => punion (aget_nil k l) (aget_nil k r))).
    eapply Permutation_NoDup'; [apply ord_perm | apply sdedup_NoDup].
  Qed.

  Lemma merge_get : forall pth l r k pt,
    In pt (aget_nil k (merge_ip ord pth l r)) <-> In pt (aget_nil k l) \/ In pt (aget_nil k r).
  Proof.
    intros. unfold merge_ip, aget_nil at 1.
    rewrite (aget_map_keys (fun k => punion (aget_nil k l) (aget_nil k r))).
    destruct (smem k (ord pth (sdedup (akeys l ++ akeys r)))) eqn:E.
    - apply punion_In.
    - apply smem_false in E. rewrite ord_In, sdedup_In, in_app_iff in E.
      split; [intros []|]. intros [H|H]; apply aget_nil_In_key in H; tauto.
  Qed.

  (* ---------------------------------------------------------------------------------------- *)
  (** * the whole expression *)

  Lemma ip_NoDup : forall e pth, NoDup (akeys (index_participants ord pth e)).
  Proof.
    destruct e; intros; simpl; try apply merge_NoDup; try constructor.
    apply tensor_ip_NoDup. constructor.
  Qed.

  Lemma ip_get : forall e pth k pt,
    In pt (aget_nil k (index_participants ord pth e)) <-> occ_at e k pt.
  Proof.
    induction e as [v|v|t|l IHl r IHr|l IHl r IHr|l IHl r IHr]; intros pth k pt; simpl;
      try (rewrite merge_get, IHl, IHr; symmetry; apply occ_at_binary).
    - unfold occ_at; simpl. split; [intros [] | intros [? [[] _]]].
    - unfold occ_at; simpl. split; [intros [] | intros [? [[] _]]].
    - rewrite tensor_ip_get. unfold occ_at. simpl. destruct t as [n idx]. simpl. split.
      + intros [[]|[H1 [_ H3]]]. exists idx. rewrite Nat.sub_0_r in H3. subst. auto.
      + intros [idx' [[H|[]] H2]]. inversion H; subst. right.
        rewrite Nat.sub_0_r. repeat split; auto. lia.
  Qed.

  Lemma ip_keys : forall e pth k,
    In k (akeys (index_participants ord pth e)) <-> exists pt, occ_at e k pt.
  Proof.
    induction e as [v|v|t|l IHl r IHr|l IHl r IHr|l IHl r IHr]; intros pth k; simpl;
      try (rewrite merge_keys_In, IHl, IHr; split;
           [ intros [[pt H]|[pt H]]; exists pt; apply occ_at_binary; auto
           | intros [pt H]; apply occ_at_binary in H; destruct H; [left|right]; eauto ]).
    - split; [intros [] | intros [? [? [[] _]]]].
    - split; [intros [] | intros [? [? [[] _]]]].
    - rewrite tensor_ip_keys. destruct t as [n idx]. simpl. split.
      + intros [[]|H]. apply In_nth_error in H. destruct H as [j Hj].
        exists (n, j). exists idx. simpl. auto.
      + intros [pt [idx' [[H|[]] H2]]]. inversion H; subst. right.
        eapply nth_error_In; eauto.
  Qed.

  (** an entry of the dict: its value is the participant set of its key, and is not empty *)
  Lemma ip_entry : forall e pth k ps,
    In (k, ps) (index_participants ord pth e) ->
    ps = aget_nil k (index_participants ord pth e) /\ ps <> [].
  Proof.
    intros e pth k ps H.
    assert (G : aget k (index_participants ord pth e) = Some ps)
      by (apply aget_NoDup_In; [apply ip_NoDup | exact H]).
    assert (Eq : ps = aget_nil k (index_participants ord pth e))
      by (unfold aget_nil; rewrite G; reflexivity).
    split; [exact Eq|].
    assert (K : In k (akeys (index_participants ord pth e))) by (eapply aget_Some_key; eauto).
    apply ip_keys in K. destruct K as [pt Hpt]. apply ip_get with (pth := pth) in Hpt.
    rewrite <- Eq in Hpt. intros ->. contradiction.
  Qed.

  (** the indexes of an expression, as [index_participants] sees them *)
  Lemma ip_keys_indexes : forall e pth k,
    In k (akeys (index_participants ord pth e)) <-> In k (flat_map t_indexes (occurrences e)).
  Proof.
    intros. rewrite ip_keys, in_flat_map. split.
    - intros [[T j] [idx [H1 H2]]]. simpl in *. exists (TRef T idx). split; auto.
      simpl. eapply nth_error_In; eauto.
    - intros [[T idx] [H1 H2]]. simpl in H2. apply In_nth_error in H2. destruct H2 as [j Hj].
      exists (T, j). exists idx. simpl. auto.
  Qed.
End WithOracle.
