(** Relational per-kernel certificate for C04 (evaluate ~ assemble ; compute): DEFINITIONS only.

    tensora emits the three kernels of one problem from ONE generator by omitting statements:
    assemble = evaluate minus the value work (stores through [double*] variables, bucket
    initialisation); compute = evaluate minus allocation / capacity bookkeeping / structure stores /
    field assignments.  [kinds_cert fe fa fc] checks this syntactically on the real IR:

    - [align]: the statement tree of the kind is obtained from the statement tree of evaluate by
      DROPPING statements (a dropped statement may also be matched with an empty block, which is
      what the peephole pass leaves); kept atomic statements are syntactically identical;
    - every kept statement only reads what is provably the same in both runs, every dropped
      statement only changes what the kept ones never read.

    The ROLES of the variables are read off the evaluate kernel: [ip] = variables declared [int32_t*],
    [fp] = declared [double*]; [os]/[v] = the members of [ip]/[fp] that are ever assigned anything
    else than a field of an input tensor parameter (the output's pos/crd arrays, resp. the output
    value pointer and the bucket pointers); [root] = the variable declared from [out->vals]. *)

From Coq Require Import ZArith Bool List String.
From Flocq Require Import Core BinarySingleNaN.
From TV Require Import spec.Num gen.IRAst spec.IRSem proofs.Certs2Base.
Import ListNotations.
Open Scope bool_scope.

(** * Syntactic equality that reflects Leibniz equality (the generated [expr_eqb] compares float
      literals with IEEE equality, which does not) *)

Definition sf_same (x y : SpecFloat.spec_float) : bool :=
  match x, y with
  | SpecFloat.S754_zero a, SpecFloat.S754_zero b => Bool.eqb a b
  | SpecFloat.S754_infinity a, SpecFloat.S754_infinity b => Bool.eqb a b
  | SpecFloat.S754_nan, SpecFloat.S754_nan => true
  | SpecFloat.S754_finite a m e, SpecFloat.S754_finite b m' e' =>
      Bool.eqb a b && Pos.eqb m m' && Z.eqb e e'
  | _, _ => false
  end.

Fixpoint ty_same (a b : ty) {struct a} : bool :=
  match a, b with
  | TBoolean, TBoolean => true
  | TInteger, TInteger => true
  | TFloat, TFloat => true
  | TTensor, TTensor => true
  | TMode, TMode => true
  | TPointer x, TPointer y => ty_same x y
  | TArray x, TArray y => ty_same x y
  | TFixedArray x n, TFixedArray y m => ty_same x y && Z.eqb n m
  | _, _ => false
  end.

Fixpoint expr_same (a b : expr) {struct a} : bool :=
  match a, b with
  | Var x, Var y => String.eqb x y
  | AttributeAccess t x, AttributeAccess u y => expr_same t u && String.eqb x y
  | ArrayIndex t i, ArrayIndex u j => expr_same t u && expr_same i j
  | IntegerLiteral x, IntegerLiteral y => Z.eqb x y
  | FloatLiteral x, FloatLiteral y => sf_same (B2SF x) (B2SF y)
  | BooleanLiteral x, BooleanLiteral y => Bool.eqb x y
  | Add l r, Add l' r' => expr_same l l' && expr_same r r'
  | Subtract l r, Subtract l' r' => expr_same l l' && expr_same r r'
  | Multiply l r, Multiply l' r' => expr_same l l' && expr_same r r'
  | Equal l r, Equal l' r' => expr_same l l' && expr_same r r'
  | NotEqual l r, NotEqual l' r' => expr_same l l' && expr_same r r'
  | GreaterThan l r, GreaterThan l' r' => expr_same l l' && expr_same r r'
  | LessThan l r, LessThan l' r' => expr_same l l' && expr_same r r'
  | GreaterThanOrEqual l r, GreaterThanOrEqual l' r' => expr_same l l' && expr_same r r'
  | LessThanOrEqual l r, LessThanOrEqual l' r' => expr_same l l' && expr_same r r'
  | And l r, And l' r' => expr_same l l' && expr_same r r'
  | Or l r, Or l' r' => expr_same l l' && expr_same r r'
  | Max l r, Max l' r' => expr_same l l' && expr_same r r'
  | Min l r, Min l' r' => expr_same l l' && expr_same r r'
  | BooleanToInteger x, BooleanToInteger y => expr_same x y
  | ArrayAllocate t n, ArrayAllocate u m => ty_same t u && expr_same n m
  | ArrayReallocate o t n, ArrayReallocate p u m => expr_same o p && ty_same t u && expr_same n m
  | _, _ => false
  end.

(** atomic statements only *)
Definition atom_same (a b : stmt) : bool :=
  match a, b with
  | Assignment t v, Assignment u w => expr_same t u && expr_same v w
  | DeclarationAssignment (Declaration x t) v, DeclarationAssignment (Declaration y u) w =>
      expr_same x y && ty_same t u && expr_same v w
  | Return v, Return w => expr_same v w
  | _, _ => false
  end.

Definition is_empty_block (s : stmt) : bool :=
  match s with Block [] _ => true | _ => false end.

(** * Alignment of the evaluate statement tree with the statement tree of a kind, threading a
      phase [P] (used by the compute relation: before / after the value array was allocated) *)

Section ALIGN.
  Variable P : Type.
  Variable peq : P -> P -> bool.
  Variable cok : expr -> bool.                       (* kept control expression *)
  Variable keep_atomic : P -> stmt -> option P.      (* kept atomic statement (same on both sides) *)
  Variable drop_atomic : P -> stmt -> option P.      (* dropped atomic statement *)

  Definition same_phase (a b : option P) : option P :=
    match a, b with
    | Some x, Some y => if peq x y then Some x else None
    | _, _ => None
    end.

  (** a statement that exists only in evaluate *)
  Fixpoint drop (ph : P) (s : stmt) {struct s} : option P :=
    match s with
    | Block ss _ =>
        (fix go (l : list stmt) (ph : P) {struct l} : option P :=
           match l with
           | [] => Some ph
           | x :: r => match drop ph x with Some ph' => go r ph' | None => None end
           end) ss ph
    | Branch _ a b => same_phase (drop ph a) (drop ph b)
    | Loop _ a => same_phase (Some ph) (drop ph a)
    | _ => drop_atomic ph s
    end.

  Definition orelse (a b : option P) : option P := match a with Some _ => a | None => b end.

  Fixpoint align (ph : P) (sE sK : stmt) {struct sE} : option P :=
    orelse
      (match sE, sK with
       | Block ssE _, Block ssK _ =>
           (fix al (l : list stmt) (k : list stmt) (ph : P) {struct l} : option P :=
              match l with
              | [] => match k with [] => Some ph | _ => None end
              | e :: l' =>
                  orelse
                    (match k with
                     | [] => None
                     | k1 :: k' => match align ph e k1 with Some ph' => al l' k' ph' | None => None end
                     end)
                    (match drop ph e with Some ph' => al l' k ph' | None => None end)
              end) ssE ssK ph
       | Branch c a b, Branch c' a' b' =>
           if expr_same c c' && cok c then same_phase (align ph a a') (align ph b b') else None
       | Loop c a, Loop c' a' =>
           if expr_same c c' && cok c then same_phase (Some ph) (align ph a a') else None
       | _, _ => if is_atomic sE && atom_same sE sK then keep_atomic ph sE else None
       end)
      (if is_empty_block sK then drop ph sE else None).
End ALIGN.

(** * Roles *)

Record roles : Type := mkRoles {
  r_out : string;
  r_ins : list string;          (* input tensor parameters *)
  r_ip : list string;           (* declared int32_t*  *)
  r_fp : list string;           (* declared double*   *)
  r_os : list string;           (* subset of ip: output structure arrays *)
  r_v : list string;            (* subset of fp: output value pointers *)
  r_root : string
}.

Fixpoint decls (s : stmt) {struct s} : list (string * ty) :=
  match s with
  | Declaration (Var x) t => [(x, t)]
  | DeclarationAssignment (Declaration (Var x) t) _ => [(x, t)]
  | Block ss _ => flat_map decls ss
  | Branch _ a b => decls a ++ decls b
  | Loop _ a => decls a
  | _ => []
  end.

(** (target variable, right-hand side) of every variable assignment / initialised declaration *)
Fixpoint assigns (s : stmt) {struct s} : list (string * expr) :=
  match s with
  | DeclarationAssignment (Declaration (Var x) _) e => [(x, e)]
  | Assignment (Var x) e => [(x, e)]
  | Block ss _ => flat_map assigns ss
  | Branch _ a b => assigns a ++ assigns b
  | Loop _ a => assigns a
  | _ => []
  end.

Definition is_lit (e : expr) : bool := match e with IntegerLiteral _ => true | _ => false end.

(** [T->indices[k][j]] resp. [T->vals] with [T] among [ts] *)
Definition idx_field (ts : list string) (e : expr) : bool :=
  match e with
  | ArrayIndex (ArrayIndex (AttributeAccess (Var T) a) k) j =>
      mem T ts && String.eqb a "indices" && is_lit k && is_lit j
  | _ => false
  end.

Definition vals_field (ts : list string) (e : expr) : bool :=
  match e with
  | AttributeAccess (Var T) a => mem T ts && String.eqb a "vals"
  | _ => false
  end.

Definition only_from (f : expr -> bool) (asg : list (string * expr)) (x : string) : bool :=
  forallb (fun '(y, e) => negb (String.eqb x y) || f e) asg.

Definition first_or (d : string) (l : list string) : string := match l with x :: _ => x | [] => d end.

Definition roles_of (f : function_definition) : roles :=
  match f with
  | FunctionDefinition _ ps _ body =>
      let pn := param_names ps in
      let out := first_or "" pn in
      let ins := tl pn in
      let ds := decls body in
      let asg := assigns body in
      let ip := map fst (filter (fun '(_, t) => ty_same t (TPointer TInteger)) ds) in
      let fp := map fst (filter (fun '(_, t) => ty_same t (TPointer TFloat)) ds) in
      let os := filter (fun x => negb (only_from (idx_field ins) asg x)) ip in
      let v := filter (fun x => negb (only_from (vals_field ins) asg x)) fp in
      let root := first_or "" (map fst (filter (fun '(_, e) => vals_field [out] e) asg)) in
      mkRoles out ins ip fp os v root
  end.

Definition diff (a b : list string) : list string := filter (fun x => negb (mem x b)) a.

Definition assigned_only_in (fe fk : function_definition) : list string :=
  match fe, fk with
  | FunctionDefinition _ _ _ be, FunctionDefinition _ _ _ bk =>
      diff (map fst (assigns be)) (map fst (assigns bk))
  end.

Definition is_alloc (e : expr) : bool := is_ArrayAllocate e || is_ArrayReallocate e.

Definition impb (a b : bool) : bool := negb a || b.

(** * evaluate ~ assemble *)

Section ASSEMBLE.
  Variable rl : roles.
  Variable DB : list string.   (* variables only the dropped statements assign *)

  Definition params : list string := r_out rl :: r_ins rl.
  Definition rdA (x : string) : bool := negb (mem x DB).

  (** expressions with the same value in both runs: no dropped variable, loads only through
      [int32_t*] variables (float cells may differ), fields of the tensor structs *)
  Fixpoint sexpA (e : expr) {struct e} : bool :=
    match e with
    | Var x => rdA x
    | IntegerLiteral _ | FloatLiteral _ | BooleanLiteral _ => true
    | ArrayIndex (Var p) i => mem p (r_ip rl) && rdA p && sexpA i
    | ArrayIndex (AttributeAccess (Var T) a) i => rdA T && String.eqb a "dimensions" && sexpA i
    | ArrayIndex (ArrayIndex (AttributeAccess (Var T) a) (IntegerLiteral _)) (IntegerLiteral _) =>
        rdA T && String.eqb a "indices"
    | AttributeAccess (Var T) a => rdA T && String.eqb a "vals"
    | Add l r | Subtract l r | Multiply l r | Equal l r | NotEqual l r | GreaterThan l r
    | LessThan l r | GreaterThanOrEqual l r | LessThanOrEqual l r | And l r | Or l r
    | Max l r | Min l r => sexpA l && sexpA r
    | BooleanToInteger x => sexpA x
    | _ => false
    end.

  (** syntactic forms whose value is NULL or a pointer into an int32 (resp. double) block *)
  Definition rhs_int (e : expr) : bool :=
    match e with
    | Var p => mem p (r_ip rl)
    | ArrayIndex (ArrayIndex (AttributeAccess (Var _) a) _) _ => String.eqb a "indices"
    | _ => false
    end.

  Definition rhs_float (e : expr) : bool :=
    match e with
    | Var p => mem p (r_fp rl)
    | Add (Var p) _ => mem p (r_fp rl)
    | AttributeAccess (Var _) a => String.eqb a "vals"
    | _ => false
    end.

  (** typing of an assignment to [x] *)
  Definition ty_rhs (x : string) (e : expr) : bool :=
    match e with
    | ArrayAllocate t _ =>
        impb (mem x (r_ip rl)) (ty_same t TInteger) && impb (mem x (r_fp rl)) (ty_same t TFloat)
    | ArrayReallocate (Var y) t _ =>
        String.eqb x y &&
        impb (mem x (r_ip rl)) (ty_same t TInteger) && impb (mem x (r_fp rl)) (ty_same t TFloat)
    | ArrayReallocate _ _ _ => false
    | _ => impb (mem x (r_ip rl)) (rhs_int e) && impb (mem x (r_fp rl)) (rhs_float e)
    end.

  Definition rhs_sexpA (e : expr) : bool :=
    match e with
    | ArrayAllocate _ n => sexpA n
    | ArrayReallocate o _ n => sexpA o && sexpA n
    | _ => sexpA e
    end.

  Definition keepA (_ : unit) (s : stmt) : option unit :=
    let ok :=
      match s with
      | DeclarationAssignment (Declaration (Var x) _) e
      | Assignment (Var x) e =>
          rdA x && negb (mem x params) && rhs_sexpA e && ty_rhs x e
      | Assignment (ArrayIndex (Var p) i) e =>
          mem p (r_ip rl) && rdA p && sexpA i && sexpA e
      | Assignment (ArrayIndex (ArrayIndex (AttributeAccess (Var T) a) (IntegerLiteral _)) (IntegerLiteral _)) (Var p) =>
          rdA T && String.eqb a "indices" && rdA p && mem p (r_ip rl)
      | Assignment (AttributeAccess (Var T) a) (Var r) =>
          rdA T && String.eqb a "vals" && rdA r && mem r (r_fp rl)
      | Return e => sexpA e
      | _ => false
      end in
    if ok then Some tt else None.

  Definition dropA (_ : unit) (s : stmt) : option unit :=
    let ok :=
      match s with
      | DeclarationAssignment (Declaration (Var x) _) e
      | Assignment (Var x) e =>
          mem x DB && negb (mem x params) && negb (is_alloc e) && ty_rhs x e
      | Assignment (ArrayIndex (Var y) _) e => mem y (r_fp rl) && negb (is_alloc e)
      | _ => false
      end in
    if ok then Some tt else None.

  Definition alignA (sE sA : stmt) : bool :=
    match align unit (fun _ _ => true) sexpA keepA dropA tt sE sA with Some _ => true | None => false end.
End ASSEMBLE.

Definition params_ok (ps : list stmt) : bool :=
  forallb (fun p => match p with Declaration (Var _) (TPointer TTensor) => true | _ => false end) ps
  && negb (Nat.eqb (List.length ps) 0).

Fixpoint nodupb (l : list string) : bool :=
  match l with [] => true | x :: r => negb (mem x r) && nodupb r end.

Definition same_params (ps qs : list stmt) : bool :=
  (fix go (a b : list string) : bool :=
     match a, b with
     | [], [] => true
     | x :: a', y :: b' => String.eqb x y && go a' b'
     | _, _ => false
     end) (param_names ps) (param_names qs)
  && Nat.eqb (List.length ps) (List.length qs).

Definition assemble_cert (fe fa : function_definition) : bool :=
  match fe, fa with
  | FunctionDefinition _ ps rt be, FunctionDefinition _ qs rt' ba =>
      params_ok ps && params_ok qs && same_params ps qs && nodupb (param_names ps)
      && ty_same rt rt'
      && alignA (roles_of fe) (assigned_only_in fe fa) be ba
  end.

(** * evaluate ~ compute (started on assemble's result) *)

Section COMPUTE.
  Variable rl : roles.
  Variable U : list string.    (* scalars only the dropped statements assign (capacities) *)

  Definition ins_p (x : string) : bool := mem x (r_ip rl) && negb (mem x (r_os rl)).
  Definition inv_p (x : string) : bool := mem x (r_fp rl) && negb (mem x (r_v rl)).
  Definition rdC (x : string) : bool :=
    negb (mem x U) && negb (mem x (r_os rl)) && negb (mem x (r_v rl)).

  (** [lv]: loads through the output value pointers allowed (value expressions, after allocation) *)
  Fixpoint sexpC (lv : bool) (e : expr) {struct e} : bool :=
    match e with
    | Var x => rdC x && negb (mem x (r_ip rl)) && negb (mem x (r_fp rl))
    | IntegerLiteral _ | FloatLiteral _ | BooleanLiteral _ => true
    | ArrayIndex (Var p) i =>
        ((rdC p && (ins_p p || inv_p p)) || (lv && mem p (r_v rl))) && sexpC false i
    | ArrayIndex (AttributeAccess (Var T) a) i =>
        mem T (r_out rl :: r_ins rl) && rdC T && String.eqb a "dimensions" && sexpC false i
    | Add l r | Subtract l r | Multiply l r | Equal l r | NotEqual l r | GreaterThan l r
    | LessThan l r | GreaterThanOrEqual l r | LessThanOrEqual l r
    | Max l r | Min l r => sexpC lv l && sexpC lv r
    | And l r | Or l r => negb lv && sexpC lv l && sexpC lv r
    | BooleanToInteger x => sexpC lv x
    | _ => false
    end.

  Definition scalar_var (x : string) : bool :=
    negb (mem x (r_ip rl)) && negb (mem x (r_fp rl)) && negb (mem x (r_out rl :: r_ins rl)).

  (** phases: [false] = the value array of evaluate is not yet allocated, [true] = allocated *)
  (** [d]: the statement is a declaration with initialiser (otherwise a plain assignment) *)
  Definition keepC_var (ph : bool) (x : string) (e : expr) (d : bool) : option bool :=
    if negb (mem x U) && negb (mem x (r_out rl :: r_ins rl)) then
      if mem x (r_os rl) then
        (* unpack of an output structure array: never read afterwards by kept statements *)
        if d && idx_field [r_out rl] e then Some ph else None
      else if mem x (r_v rl) then
        if d && vals_field [r_out rl] e && negb ph && String.eqb x (r_root rl)
        then Some ph
        else if ph && d && negb (String.eqb x (r_root rl)) &&
                match e with
                | Var z => mem z (r_v rl)
                | Add (Var z) i => mem z (r_v rl) && sexpC false i
                | _ => false
                end
        then Some ph else None
      else if ins_p x then
        if d && idx_field (r_ins rl) e then Some ph else None
      else if inv_p x then
        if d && vals_field (r_ins rl) e then Some ph else None
      else if scalar_var x && sexpC false e then Some ph else None
    else None.

  Definition keepC (ph : bool) (s : stmt) : option bool :=
    match s with
    | DeclarationAssignment (Declaration (Var x) _) e => keepC_var ph x e true
    | Assignment (Var x) e => keepC_var ph x e false
    | Assignment (ArrayIndex (Var y) i) e =>
        if ph && mem y (r_v rl) && sexpC false i && sexpC true e then Some ph else None
    | Return e => if sexpC false e then Some ph else None
    | _ => None
    end.

  Definition dropC_var (ph : bool) (x : string) (e : expr) (d : bool) : option bool :=
    if mem x (r_out rl :: r_ins rl) then None else
    match e with
    | ArrayAllocate t _ =>
        if d then None else
        if ty_same t TInteger && mem x (r_os rl) then Some ph
        else if ty_same t TFloat && String.eqb x (r_root rl) && negb ph then Some true
        else None
    | ArrayReallocate (Var y) t _ =>
        if negb (String.eqb x y) || d then None
        else if ty_same t TInteger && mem x (r_os rl) then Some ph
        else if ty_same t TFloat && String.eqb x (r_root rl) && ph then Some true
        else None
    | ArrayReallocate _ _ _ => None
    | _ => if mem x U && scalar_var x then Some ph else None
    end.

  Definition dropC (ph : bool) (s : stmt) : option bool :=
    match s with
    | DeclarationAssignment (Declaration (Var x) _) e => dropC_var ph x e true
    | Assignment (Var x) e => dropC_var ph x e false
    | Assignment (ArrayIndex (Var p) _) e =>
        if mem p (r_os rl) && negb (is_alloc e) then Some ph else None
    | Assignment (ArrayIndex (ArrayIndex (AttributeAccess (Var T) a) (IntegerLiteral _)) (IntegerLiteral _)) (Var p) =>
        if String.eqb T (r_out rl) && String.eqb a "indices" && mem p (r_os rl) then Some ph else None
    | Assignment (AttributeAccess (Var T) a) (Var r) =>
        if String.eqb T (r_out rl) && String.eqb a "vals" && String.eqb r (r_root rl) && ph
        then Some ph else None
    | _ => None
    end.

  Definition alignC (sE sC : stmt) : bool :=
    match align bool Bool.eqb (sexpC false) keepC dropC false sE sC with
    | Some _ => true
    | None => false
    end.
End COMPUTE.

Definition disjointb (a b : list string) : bool := forallb (fun x => negb (mem x b)) a.

Definition compute_cert3 (fe fc : function_definition) : bool :=
  match fe, fc with
  | FunctionDefinition _ ps rt be, FunctionDefinition _ qs rt' bc =>
      let rl := roles_of fe in
      params_ok ps && params_ok qs && same_params ps qs && nodupb (param_names ps)
      && ty_same rt rt'
      && disjointb (r_ip rl) (r_fp rl)
      && forallb (fun x => mem x (r_ip rl)) (r_os rl)
      && forallb (fun x => mem x (r_fp rl)) (r_v rl)
      && mem (r_root rl) (r_v rl)
      && forallb (rdC rl (assigned_only_in fe fc)) (r_out rl :: r_ins rl)
      && alignC rl (assigned_only_in fe fc) be bc
  end.

Definition kinds_cert (fe fa fc : function_definition) : bool :=
  assemble_cert fe fa && compute_cert3 fe fc.
