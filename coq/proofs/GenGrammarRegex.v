(** TIE "grammar" -- the regular expression of [floating_point],
      \d+((\.\d+([Ee][+-]?\d+)?)|((\.\d+)?[Ee][+-]?\d+))      (ASCII digits),
    matched by the backtracking matcher of model/Parsita.v ([rm]: greedy, ordered alternation, first
    success = Python's [re.match]) at a position that starts with a digit, ends exactly where the
    number lexer of model/Parser.v ends a float token, fails exactly where the lexer reads an integer
    token, and the matched text read back alone is that float token ([float_regex_spec]).
    In particular greedy-with-backtracking coincides with the lexer's longest match here. *)

From Coq Require Import String Ascii List NArith ZArith Bool Arith Lia.
From TV Require Import spec.Num model.Parser model.Parsita proofs.ParsitaFacts.
From TV Require gen.GrammarGen proofs.ParserLex proofs.GenGrammarFormat_equiv.
Import ListNotations.

Module GG := TV.gen.GrammarGen.
Notation len := List.length.

(** the regular expression, as the translator reads it (checked against the generated grammar by
    conversion in proofs/GenGrammarExpr_equiv.v) *)
Definition DIG : regex := RSet [("0"%char, "9"%char)].
Definition DOT : regex := RSet [("."%char, "."%char)].
Definition ESET : regex := RSet [("E"%char, "E"%char); ("e"%char, "e"%char)].
Definition SIGN : regex := RSet [("+"%char, "+"%char); ("-"%char, "-"%char)].
Definition EXPO : regex := RSeq ESET (RSeq (ROpt SIGN) (RPlus DIG)).
Definition A1 : regex := RSeq DOT (RSeq (RPlus DIG) (ROpt EXPO)).
Definition A2 : regex := RSeq (ROpt (RSeq DOT (RPlus DIG))) EXPO.
Definition FR : regex := RSeq (RPlus DIG) (RAlt A1 A2).

Notation range_single := TV.proofs.GenGrammarFormat_equiv.range_single.

Lemma in_dot : forall c, in_set [("."%char, "."%char)] c = Ascii.eqb c ".".
Proof. intros. unfold in_set. cbn [existsb]. rewrite range_single. apply orb_false_r. Qed.
Lemma in_eset : forall c, in_set [("E"%char, "E"%char); ("e"%char, "e"%char)] c = is_e c.
Proof. intros. unfold in_set, is_e. cbn [existsb]. rewrite !range_single, orb_false_r. apply orb_comm. Qed.
Lemma in_sign : forall c, in_set [("+"%char, "+"%char); ("-"%char, "-"%char)] c = (Ascii.eqb c "+" || Ascii.eqb c "-").
Proof. intros. unfold in_set. cbn [existsb]. rewrite !range_single, orb_false_r. reflexivity. Qed.

Lemma digit_not_dot : forall c, is_digit c = true -> Ascii.eqb c "." = false.
Proof. intros c D. destruct (Ascii.eqb_spec c ".") as [->|]; [discriminate|reflexivity]. Qed.
Lemma digit_not_e : forall c, is_digit c = true -> is_e c = false.
Proof.
  intros c D. unfold is_e. destruct (Ascii.eqb_spec c "e") as [->|]; [discriminate|].
  destruct (Ascii.eqb_spec c "E") as [->|]; [discriminate|reflexivity].
Qed.
Lemma digit_not_sign : forall c, is_digit c = true -> (Ascii.eqb c "+" || Ascii.eqb c "-") = false.
Proof.
  intros c D. destruct (Ascii.eqb_spec c "+") as [->|]; [discriminate|].
  destruct (Ascii.eqb_spec c "-") as [->|]; [discriminate|reflexivity].
Qed.

(** [\d+] at the end of a pattern *)
Lemma plus_digits : forall s,
  re_match (RPlus DIG) s
  = match take_while is_digit s with ([], _) => None | (_, r3) => Some r3 end.
Proof.
  intros s. unfold DIG. rewrite re_match_plus_set. destruct s as [|d t]; [reflexivity|].
  rewrite in_set_digit. rewrite (take_while_ext _ is_digit t in_set_digit). simpl.
  destruct (is_digit d); [|reflexivity]. destruct (take_while is_digit t); reflexivity.
Qed.

(** the exponent part [Ee][+-]?\d+ is the lexer's [lex_exponent] *)
Lemma EXPO_match : forall s, rm EXPO s (fun s' => Some s') = option_map snd (lex_exponent s).
Proof.
  intros s. unfold EXPO, ESET. rewrite rm_seq, rm_set. destruct s as [|c r1]; [reflexivity|].
  rewrite in_eset. cbn [lex_exponent]. destruct (is_e c); [|reflexivity].
  rewrite rm_seq. unfold ROpt. rewrite rm_alt, rm_eps. unfold SIGN. rewrite rm_set.
  change (rm (RPlus DIG) r1 (fun s' => Some s')) with (re_match (RPlus DIG) r1).
  destruct r1 as [|x r2].
  { rewrite plus_digits. reflexivity. }
  rewrite in_sign.
  change (rm (RPlus DIG) r2 (fun s' => Some s')) with (re_match (RPlus DIG) r2).
  destruct (Ascii.eqb_spec x "+") as [->|NP]; [|destruct (Ascii.eqb_spec x "-") as [->|NM]].
  - cbn [orb]. rewrite !plus_digits. cbn [take_while is_digit ascii_between N_of_ascii N.leb andb].
    destruct (take_while is_digit r2) as [[|e0 ep] r3]; reflexivity.
  - cbn [orb]. rewrite !plus_digits. cbn [take_while].
    change (is_digit "-") with false. cbv iota.
    destruct (take_while is_digit r2) as [[|e0 ep] r3]; reflexivity.
  - cbn [orb]. rewrite plus_digits.
    assert (M : match x :: r2 with
                | "+"%char :: r2' => (false, r2')
                | "-"%char :: r2' => (true, r2')
                | _ => (false, x :: r2)
                end = (false, x :: r2)).
    { destruct x as [[] [] [] [] [] [] [] []]; try reflexivity; exfalso; [apply NP|apply NM]; reflexivity. }
    rewrite M. destruct (take_while is_digit (x :: r2)) as [[|e0 ep] r3]; reflexivity.
Qed.

Lemma EXPO_reject_digit : forall d t, is_digit d = true -> rm EXPO (d :: t) (fun s' => Some s') = None.
Proof.
  intros d t D. unfold EXPO, ESET. rewrite rm_seq, rm_set, in_eset, (digit_not_e d D). reflexivity.
Qed.

(** \.\d+ followed by a continuation that does not start with a digit *)
Lemma dot_digits : forall X (k : list ascii -> option X) s,
  (forall d t, is_digit d = true -> k (d :: t) = None) ->
  rm (RSeq DOT (RPlus DIG)) s k
  = match s with
    | "."%char :: r1 =>
        match take_while is_digit r1 with
        | ([], _) => None
        | (_, r2) => k r2
        end
    | _ => None
    end.
Proof.
  intros X k s Rj. unfold DOT. rewrite rm_seq, rm_set. destruct s as [|c r1]; [reflexivity|].
  rewrite in_dot. destruct (Ascii.eqb_spec c ".") as [->|NE].
  2:{ destruct c as [[] [] [] [] [] [] [] []]; try reflexivity. exfalso. apply NE. reflexivity. }
  unfold RPlus, DIG. rewrite rm_seq, rm_set. destruct r1 as [|d t]; [reflexivity|].
  rewrite in_set_digit. cbn [take_while]. destruct (is_digit d); [|reflexivity].
  rewrite rm_star_set, star_spec_reject.
  - rewrite (take_while_ext _ is_digit t in_set_digit). destruct (take_while is_digit t); reflexivity.
  - intros c0 t0 H. rewrite in_set_digit in H. apply Rj, H.
Qed.

Lemma A1_match : forall r0,
  rm A1 r0 (fun s' => Some s')
  = match r0 with
    | "."%char :: r1 =>
        match take_while is_digit r1 with
        | ([], _) => None
        | (_, r2) => Some (match lex_exponent r2 with Some (_, r3) => r3 | None => r2 end)
        end
    | _ => None
    end.
Proof.
  intros r0. unfold A1, DOT. rewrite rm_seq, rm_set. destruct r0 as [|c r1]; [reflexivity|].
  rewrite in_dot. destruct (Ascii.eqb_spec c ".") as [->|NE].
  2:{ destruct c as [[] [] [] [] [] [] [] []]; try reflexivity. exfalso. apply NE. reflexivity. }
  unfold RPlus at 1, DIG at 1 2. rewrite !rm_seq, rm_set. destruct r1 as [|d t]; [reflexivity|].
  rewrite in_set_digit. cbn [take_while]. destruct (is_digit d); [|reflexivity].
  rewrite rm_star_set.
  rewrite (star_spec_greedy _ t _ (match lex_exponent (snd (take_while is_digit t)) with Some (_, r3) => r3 | None => snd (take_while is_digit t) end)).
  - destruct (take_while is_digit t); reflexivity.
  - rewrite (take_while_ext _ is_digit t in_set_digit). unfold ROpt. rewrite rm_alt, rm_eps, EXPO_match.
    destruct (lex_exponent (snd (take_while is_digit t))) as [[e r3]|]; reflexivity.
Qed.

Lemma A2_match : forall r0,
  rm A2 r0 (fun s' => Some s')
  = match (match r0 with
           | "."%char :: r1 =>
               match take_while is_digit r1 with
               | ([], _) => None
               | (_, r2) => option_map snd (lex_exponent r2)
               end
           | _ => None
           end) with
    | Some x => Some x
    | None => option_map snd (lex_exponent r0)
    end.
Proof.
  intros r0. unfold A2. rewrite rm_seq. unfold ROpt. rewrite rm_alt, rm_eps.
  rewrite dot_digits by (intros; apply EXPO_reject_digit; assumption).
  rewrite !EXPO_match.
  destruct r0 as [|c r1]; [reflexivity|].
  destruct c as [[] [] [] [] [] [] [] []]; try reflexivity.
  destruct (take_while is_digit r1) as [[|f0 fp] r2]; [reflexivity|]. rewrite EXPO_match. reflexivity.
Qed.

Lemma ALT_reject_digit : forall d t, is_digit d = true ->
  rm (RAlt A1 A2) (d :: t) (fun s' => Some s') = None.
Proof.
  intros d t D. rewrite rm_alt, A1_match, A2_match.
  destruct d as [[] [] [] [] [] [] [] []]; cbv in D; try discriminate D; reflexivity.
Qed.

(** the whole expression at a position that starts with a digit: what follows the digits decides *)
Lemma FR_match : forall c r, is_digit c = true ->
  re_match FR (c :: r) = rm (RAlt A1 A2) (snd (take_while is_digit (c :: r))) (fun s' => Some s').
Proof.
  intros c r D. unfold re_match, FR, RPlus, DIG. rewrite !rm_seq, rm_set, in_set_digit, D.
  rewrite rm_star_set, star_spec_reject.
  - rewrite (take_while_ext _ is_digit r in_set_digit). cbn [take_while]. rewrite D.
    destruct (take_while is_digit r); reflexivity.
  - intros d t H. rewrite in_set_digit in H. apply ALT_reject_digit, H.
Qed.

(** N1: the match ends where the lexer's float token ends *)
Lemma FR_lex_number : forall c r, is_digit c = true ->
  re_match FR (c :: r)
  = match lex_number (c :: r) with (TFloat _, r') => Some r' | (_, _) => None end.
Proof.
  intros c r D. rewrite (FR_match c r D). unfold lex_number.
  destruct (take_while is_digit (c :: r)) as [ip r0]. cbn [snd].
  rewrite rm_alt, A1_match, A2_match.
  destruct r0 as [|x r1].
  { reflexivity. }
  destruct (Ascii.eqb_spec x ".") as [->|NE].
  - destruct (take_while is_digit r1) as [[|f0 fp] r2].
    + cbn [lex_exponent is_e Ascii.eqb Bool.eqb orb]. reflexivity.
    + destruct (lex_exponent r2) as [[e r3]|]; reflexivity.
  - destruct x as [[] [] [] [] [] [] [] []]; try (exfalso; apply NE; reflexivity);
      (destruct (lex_exponent (_ :: r1)) as [[e r3]|]; reflexivity).
Qed.

(* ------------------------------------------------------------------------------------------ *)
(** N2: the matched text, lexed alone, is the same float token *)

Lemma take_while_app_stop : forall p a b, forallb p a = true ->
  match b with c :: _ => p c = false | [] => True end ->
  take_while p (a ++ b) = (a, b).
Proof.
  induction a as [|x a IH]; intros b Fa Hb.
  - destruct b as [|c t]; [reflexivity|]. simpl. rewrite Hb. reflexivity.
  - simpl in *. apply andb_true_iff in Fa as [Fx Fa]. rewrite Fx, (IH b Fa Hb). reflexivity.
Qed.

Lemma take_while_stop : forall p s, match snd (take_while p s) with c :: _ => p c = false | [] => True end.
Proof.
  induction s as [|c t IH]; [exact I|]. simpl. destruct (p c) eqn:E; [|exact E].
  destruct (take_while p t). exact IH.
Qed.

Notation take_while_forallb := TV.proofs.GenGrammarFormat_equiv.take_while_forallb.

Lemma lex_exponent_prefix : forall s e r3, lex_exponent s = Some (e, r3) ->
  exists ex, s = ex ++ r3 /\ lex_exponent ex = Some (e, [])
             /\ match ex with c :: _ => is_e c = true | [] => False end.
Proof.
  intros s e r3 H. destruct s as [|c r1]; [discriminate|]. cbn [lex_exponent] in H.
  destruct (is_e c) eqn:Ec; [|discriminate].
  set (sg := match r1 with
             | "+"%char :: r2 => (false, r2)
             | "-"%char :: r2 => (true, r2)
             | _ => (false, r1)
             end) in *.
  destruct sg as [neg r2] eqn:SG.
  pose proof (take_while_app is_digit r2) as TA. pose proof (take_while_forallb is_digit r2) as TF.
  destruct (take_while is_digit r2) as [ep r3'] eqn:TW. cbn [fst snd] in TA, TF.
  destruct ep as [|e0 ep]; [discriminate|]. inversion H; subst e r3'. clear H.
  assert (SGN : exists sgn, r1 = sgn ++ r2 /\
            (forall tl, match sgn ++ tl with
                        | "+"%char :: r2' => (false, r2')
                        | "-"%char :: r2' => (true, r2')
                        | _ => (false, sgn ++ tl)
                        end = (neg, tl) \/ (sgn = [] /\ neg = false))).
  { subst sg. destruct r1 as [|x r1'].
    - inversion SG; subst. exists []. split; [reflexivity|]. intros tl. right. auto.
    - destruct (Ascii.eqb_spec x "+") as [->|NP]; [|destruct (Ascii.eqb_spec x "-") as [->|NM]].
      + inversion SG; subst. exists ["+"%char]. split; [reflexivity|]. intros tl. left. reflexivity.
      + inversion SG; subst. exists ["-"%char]. split; [reflexivity|]. intros tl. left. reflexivity.
      + assert (M : match x :: r1' with
                    | "+"%char :: r2' => (false, r2')
                    | "-"%char :: r2' => (true, r2')
                    | _ => (false, x :: r1')
                    end = (false, x :: r1')).
        { destruct x as [[] [] [] [] [] [] [] []]; try reflexivity; exfalso; [apply NP|apply NM]; reflexivity. }
        rewrite M in SG. inversion SG; subst. exists []. split; [reflexivity|]. intros tl. right. auto. }
  destruct SGN as (sgn & -> & SP).
  exists (c :: sgn ++ e0 :: ep). split; [|split].
  - simpl. rewrite <- app_assoc. rewrite <- TA. reflexivity.
  - cbn [lex_exponent]. rewrite Ec.
    destruct (SP (e0 :: ep)) as [Q|[-> ->]].
    + rewrite Q. rewrite <- (app_nil_r (e0 :: ep)) at 1.
      rewrite (take_while_app_stop is_digit (e0 :: ep) [] TF I). reflexivity.
    + cbn [app]. simpl in TF. apply andb_true_iff in TF as [T0 TF'].
      assert (M : match e0 :: ep with
                  | "+"%char :: r2' => (false, r2')
                  | "-"%char :: r2' => (true, r2')
                  | _ => (false, e0 :: ep)
                  end = (false, e0 :: ep)).
      { pose proof (digit_not_sign e0 T0) as NS. apply orb_false_iff in NS as [N1 N2].
        destruct e0 as [[] [] [] [] [] [] [] []]; try reflexivity; discriminate. }
      rewrite M. rewrite <- (app_nil_r (e0 :: ep)) at 1.
      rewrite (take_while_app_stop is_digit (e0 :: ep) []); [reflexivity| |exact I].
      simpl. rewrite T0, TF'. reflexivity.
  - exact Ec.
Qed.

Lemma e_not_digit : forall c, is_e c = true -> is_digit c = false.
Proof. intros c E. destruct (is_digit c) eqn:D; [|reflexivity]. rewrite (digit_not_e c D) in E. discriminate. Qed.

Lemma e_not_dot : forall c, is_e c = true -> Ascii.eqb c "." = false.
Proof. intros c E. destruct (Ascii.eqb_spec c ".") as [->|]; [discriminate|reflexivity]. Qed.

Lemma lex_number_prefix : forall s d r', lex_number s = (TFloat d, r') ->
  exists pre, s = pre ++ r' /\ lex_number pre = (TFloat d, []).
Proof.
  intros s d r' H. unfold lex_number in H.
  pose proof (take_while_app is_digit s) as TA. pose proof (take_while_forallb is_digit s) as TF.
  pose proof (take_while_stop is_digit s) as TS.
  destruct (take_while is_digit s) as [ip r0] eqn:TW. cbn [fst snd] in TA, TF, TS.
  destruct r0 as [|x r1].
  { cbn in H. discriminate. }
  destruct (Ascii.eqb_spec x ".") as [->|NE].
  - pose proof (take_while_app is_digit r1) as TA1. pose proof (take_while_forallb is_digit r1) as TF1.
    pose proof (take_while_stop is_digit r1) as TS1.
    destruct (take_while is_digit r1) as [fp r2] eqn:TW1. cbn [fst snd] in TA1, TF1, TS1.
    destruct fp as [|f0 fp].
    { cbn in H. discriminate. }
    destruct (lex_exponent r2) as [[e r3]|] eqn:LE.
    + inversion H; subst d r'. clear H.
      destruct (lex_exponent_prefix r2 e r3 LE) as (ex & -> & LEx & Hex).
      exists (ip ++ "."%char :: (f0 :: fp) ++ ex). split.
      * rewrite <- TA, <- TA1. repeat (rewrite <- app_assoc || rewrite <- app_comm_cons). reflexivity.
      * unfold lex_number. rewrite (take_while_app_stop is_digit ip ("."%char :: (f0 :: fp) ++ ex) TF eq_refl).
        destruct ex as [|c0 ext]; [contradiction|].
        rewrite (take_while_app_stop is_digit (f0 :: fp) (c0 :: ext) TF1 (e_not_digit c0 Hex)).
        rewrite LEx. reflexivity.
    + inversion H; subst d r'. clear H.
      exists (ip ++ "."%char :: (f0 :: fp)). split.
      * rewrite <- TA, <- TA1. repeat (rewrite <- app_assoc || rewrite <- app_comm_cons). reflexivity.
      * unfold lex_number. rewrite (take_while_app_stop is_digit ip ("."%char :: (f0 :: fp)) TF eq_refl).
        rewrite <- (app_nil_r (f0 :: fp)) at 1.
        rewrite (take_while_app_stop is_digit (f0 :: fp) [] TF1 I). reflexivity.
  - assert (H' : match lex_exponent (x :: r1) with
                 | Some (e, r3) => (TFloat (mkdec (digits_val ip) e), r3)
                 | None => (TInt (digits_val ip), x :: r1)
                 end = (TFloat d, r')).
    { destruct x as [[] [] [] [] [] [] [] []]; try exact H. exfalso. apply NE. reflexivity. }
    clear H. destruct (lex_exponent (x :: r1)) as [[e r3]|] eqn:LE; [|discriminate].
    inversion H'; subst d r'. clear H'.
    destruct (lex_exponent_prefix (x :: r1) e r3 LE) as (ex & EQ & LEx & Hex).
    destruct ex as [|c0 ext]; [contradiction|].
    exists (ip ++ c0 :: ext). split.
    * rewrite <- TA, EQ. repeat (rewrite <- app_assoc || rewrite <- app_comm_cons). reflexivity.
    * unfold lex_number. rewrite (take_while_app_stop is_digit ip (c0 :: ext) TF (e_not_digit c0 Hex)).
      unfold is_e in Hex. apply orb_true_iff in Hex as [E1|E1]; apply Ascii.eqb_eq in E1; subst c0;
        cbv iota beta; rewrite LEx; reflexivity.
Qed.

(** What the grammar proof uses. *)
Definition float_regex_spec : Prop :=
  forall c r, is_digit c = true ->
    match lex_number (c :: r) with
    | (TFloat d, r') => re_match FR (c :: r) = Some r' /\ GG.spell_dec (consumed (c :: r) r') = Some d
    | (_, _) => re_match FR (c :: r) = None
    end.

Theorem float_regex_ok : float_regex_spec.
Proof.
  intros c r D. rewrite (FR_lex_number c r D).
  destruct (lex_number (c :: r)) as [t r'] eqn:LN. destruct t; try reflexivity.
  split; [reflexivity|].
  destruct (lex_number_prefix _ _ _ LN) as (pre & EQ & LP).
  rewrite EQ, consumed_app. unfold GG.spell_dec. rewrite TV.proofs.GenGrammarFormat_equiv.las_sla.
  destruct pre as [|c0 pre'].
  - cbn in LP. discriminate.
  - simpl in EQ. inversion EQ; subst c0. rewrite D, LP. reflexivity.
Qed.
