(** C10: the lemmas in the exact shape of the statements of props/C10.v, the entry-point
    corollaries, and concrete instances of the hypotheses (Examples). *)

From Coq Require Import String List ZArith Bool Arith Lia Permutation.
From TV Require Import model.ExprAst model.Problem model.Validate
  proofs.ValidateBase proofs.ValidateIP proofs.ValidateCall proofs.ValidateMain proofs.ValidateVars
  proofs.ValidateWf proofs.ProblemSpec.
Import ListNotations.

Definition permuting (ord : path -> list string -> list string) : Prop :=
  forall pth l, Permutation (ord pth l) l.
Definition permutingp (ordp : string -> list participant -> list participant) : Prop :=
  forall k l, Permutation (ordp k l) l.

Lemma kernel_entered_iff_ok : forall ord ordp p c,
  (forall d, call ord ordp p c = KernelEntered d <-> validate ord ordp p c = Ok d) /\
  (forall e, call ord ordp p c = Refused e <-> validate ord ordp p c = Error e).
Proof.
  intros. unfold call. destruct (validate ord ordp p c); split; intros; split; intros H;
    try discriminate; inversion H; reflexivity.
Qed.

Lemma decision_independent : forall ord ord' ordp ordp',
  permuting ord -> permuting ord' -> permutingp ordp -> permutingp ordp' ->
  forall p c,
    assignment_check (p_assignment p) = Ok tt ->
    problem_post_init (p_assignment p) (p_formats p) = Ok tt ->
    (forall n a, In (n, a) (keywords c) -> arg_wf a = true) ->
    tm_init ord p = tm_init ord' p /\
    validate ord ordp p c = validate ord' ordp' p c /\
    call ord ordp p c = call ord' ordp' p c.
Proof.
  intros ord ord' ordp ordp' P1 P2 P3 P4 p c AC PI AW.
  assert (V : validate ord ordp p c = validate ord' ordp' p c)
    by (apply validate_order_independent; auto; split; auto).
  split; [apply tm_init_order_independent; auto|]. split; [exact V|].
  unfold call. rewrite V. reflexivity.
Qed.

Lemma refusal_classes : forall ord ordp,
  permuting ord -> permutingp ordp ->
  forall p c e,
    assignment_check (p_assignment p) = Ok tt ->
    problem_post_init (p_assignment p) (p_formats p) = Ok tt ->
    tm_init ord p = Ok tt ->
    (forall n a, In (n, a) (keywords c) -> arg_wf a = true) ->
    call ord ordp p c = Refused e ->
    is_type_or_value_error e = true.
Proof.
  intros ord ordp P1 P2 p c e AC PI TI AW H.
  apply kernel_entered_iff_ok in H.
  eapply refusal_is_type_or_value_error; eauto. split; auto.
Qed.

(* ------------------------------------------------------------------------------------------ *)
(** * entry points *)

Lemma tensor_method_call_entered : forall ord ordp,
  permuting ord -> permutingp ordp ->
  forall a fs c dims,
    tensor_method_call ord ordp a fs c = KernelEntered dims ->
    exists p, make_problem a fs = Ok p /\ tm_init ord p = Ok tt /\ consistent p c dims.
Proof.
  intros ord ordp P1 P2 a fs c dims H. unfold tensor_method_call in H.
  destruct (assignment_check a); [|discriminate].
  destruct (make_problem a fs) as [p|]; [|discriminate].
  destruct (tm_init ord p) as [[]|] eqn:TI; [|discriminate].
  exists p. split; [reflexivity|]. split; [exact TI|].
  apply (validate_ok_implies_consistent ord ordp P1 P2).
  apply kernel_entered_iff_ok. exact H.
Qed.

Lemma evaluate_entered : forall ord ordp,
  permuting ord -> permutingp ordp ->
  forall a outf inputs dims,
    evaluate ord ordp a outf inputs = KernelEntered dims ->
    exists fs p,
      formats_of_inputs inputs = Ok fs /\
      make_problem a (dict_union [(t_name (a_target a), outf)] fs) = Ok p /\
      tm_init ord p = Ok tt /\
      consistent p (CallArgs [] inputs) dims.
Proof.
  intros ord ordp P1 P2 a outf inputs dims H. unfold evaluate in H.
  destruct (assignment_check a); [|discriminate].
  destruct (formats_of_inputs inputs) as [fs|]; [|discriminate].
  destruct (make_problem a _) as [p|] eqn:MP; [|discriminate].
  destruct (tm_init ord p) as [[]|] eqn:TI; [|discriminate].
  exists fs, p. split; [reflexivity|]. split; [exact MP|]. split; [exact TI|].
  apply (validate_ok_implies_consistent ord ordp P1 P2).
  apply kernel_entered_iff_ok. exact H.
Qed.

(** in [evaluate] the per-argument format checks can never fire: the kernel is generated for
    the formats the arguments have *)
Lemma formats_of_inputs_spec : forall inputs fs,
  formats_of_inputs inputs = Ok fs ->
  akeys fs = akeys inputs /\
  forall n a, In (n, a) inputs -> exists o m r d, a = ATensor o m r d /\ In (n, Format m r) fs.
Proof.
  induction inputs as [|[n a] t IH]; simpl; intros fs H.
  - inversion H. split; [reflexivity | intros ? ? []].
  - destruct a as [o m r d|]; [|discriminate].
    destruct (formats_of_inputs t) as [fs'|] eqn:E; [|discriminate]. inversion H; subst.
    destruct (IH fs' eq_refl) as [K A]. split; [simpl; f_equal; exact K|].
    intros n' a' [Hin|Hin].
    + inversion Hin; subst. exists o, m, r, d. split; [reflexivity | left; reflexivity].
    + destruct (A n' a' Hin) as [o' [m' [r' [d' [E1 E2]]]]]. exists o', m', r', d'. split; [exact E1 | right; exact E2].
Qed.

(* ------------------------------------------------------------------------------------------ *)
(** * every refusal of the entry points is a TypeError, a ValueError or a problem error *)

Definition is_problem_error (e : error) : bool :=
  match e with
  | EMutatingAssignment | EInconsistentDimensions | ENameConflict
  | EUndefinedReference _ | EIncorrectDimensions _ | EUnusedFormat _ | EBroadcastTargetIndex _ => true
  | _ => false
  end.

Definition is_documented_refusal (e : error) : bool :=
  is_type_or_value_error e || is_problem_error e.

Lemma check_variables_Error : forall target vs e,
  (forall n refs, In (n, refs) vs -> refs <> []) ->
  check_variables target vs = Error e -> e = EMutatingAssignment \/ e = EInconsistentDimensions.
Proof.
  induction vs as [|[n refs] rest IH]; simpl; intros e NE H; [discriminate|].
  destruct (String.eqb n target); [inversion H; auto|].
  destruct refs as [|first others]; [exfalso; eapply NE; [left; reflexivity | reflexivity]|].
  destruct (forallb _ others); [|inversion H; auto].
  apply IH; [|exact H]. intros n' refs' Hin. eapply NE. right. exact Hin.
Qed.

Lemma assignment_check_Error : forall a e,
  assignment_check a = Error e -> is_problem_error e = true.
Proof.
  intros a e H. unfold assignment_check in H.
  destruct (check_variables _ _) as [[]|e'] eqn:CV.
  - destruct (existsb _ _); inversion H. reflexivity.
  - inversion H; subst. apply check_variables_Error in CV.
    + destruct CV; subst; reflexivity.
    + intros n refs Hin. apply variables_entry in Hin. tauto.
Qed.

Lemma make_problem_Error : forall a fs e,
  make_problem a fs = Error e -> is_problem_error e = true.
Proof.
  intros a fs e H. unfold make_problem in H.
  destruct (first_unused _ _); [inversion H; reflexivity|].
  unfold problem_ctor, problem_post_init in H.
  destruct (post_init_loop _ _) as [[]|e'] eqn:E; [discriminate|]. inversion H; subst.
  apply post_init_loop_Error in E.
  destruct E as [[? [? [-> _]]]|[? [? [? [-> _]]]]]; reflexivity.
Qed.

Lemma formats_of_inputs_Error : forall inputs e,
  formats_of_inputs inputs = Error e -> is_type_or_value_error e = true.
Proof.
  induction inputs as [|[n a] t IH]; simpl; intros e H; [discriminate|].
  destruct a; [|inversion H; reflexivity].
  destruct (formats_of_inputs t); [discriminate|]. inversion H; subst. apply IH. reflexivity.
Qed.

Lemma prepared_call_refusals : forall ord ordp,
  permuting ord -> permutingp ordp ->
  forall a fs p c e,
    assignment_check a = Ok tt ->
    make_problem a fs = Ok p ->
    (forall n x, In (n, x) (keywords c) -> arg_wf x = true) ->
    match tm_init ord p with Error e0 => Refused e0 | Ok _ => call ord ordp p c end = Refused e ->
    is_documented_refusal e = true.
Proof.
  intros ord ordp P1 P2 a fs p c e AC MP AW H.
  destruct (make_problem_Ok_inv _ _ _ MP) as [_ [PI ->]].
  unfold is_documented_refusal.
  destruct (tm_init ord _) as [[]|e0] eqn:TI.
  - pose proof (refusal_classes ord ordp P1 P2 (Problem a (fill_formats (variable_orders a) fs)) c e AC PI TI AW H) as R.
    rewrite R. reflexivity.
  - inversion H; subst.
    destruct (proj2 (tm_init_spec ord P1 (Problem a (fill_formats (variable_orders a) fs)) PI) _ TI) as [i [-> _]].
    apply orb_true_r.
Qed.

Lemma tensor_method_call_refusals : forall ord ordp,
  permuting ord -> permutingp ordp ->
  forall a fs c e,
    (forall n x, In (n, x) (keywords c) -> arg_wf x = true) ->
    tensor_method_call ord ordp a fs c = Refused e ->
    is_documented_refusal e = true.
Proof.
  intros ord ordp P1 P2 a fs c e AW H. unfold tensor_method_call in H.
  destruct (assignment_check a) as [[]|e0] eqn:AC.
  2:{ inversion H; subst. unfold is_documented_refusal. rewrite (assignment_check_Error _ _ AC). apply orb_true_r. }
  destruct (make_problem a fs) as [p|e0] eqn:MP.
  2:{ inversion H; subst. unfold is_documented_refusal. rewrite (make_problem_Error _ _ _ MP). apply orb_true_r. }
  eapply prepared_call_refusals; eauto.
Qed.

Lemma evaluate_refusals : forall ord ordp,
  permuting ord -> permutingp ordp ->
  forall a outf inputs e,
    (forall n x, In (n, x) inputs -> arg_wf x = true) ->
    evaluate ord ordp a outf inputs = Refused e ->
    is_documented_refusal e = true.
Proof.
  intros ord ordp P1 P2 a outf inputs e AW H. unfold evaluate in H.
  destruct (assignment_check a) as [[]|e0] eqn:AC.
  2:{ inversion H; subst. unfold is_documented_refusal. rewrite (assignment_check_Error _ _ AC). apply orb_true_r. }
  destruct (formats_of_inputs inputs) as [fs|e0] eqn:FI.
  2:{ inversion H; subst. unfold is_documented_refusal. rewrite (formats_of_inputs_Error _ _ FI). reflexivity. }
  destruct (make_problem a _) as [p|e0] eqn:MP.
  2:{ inversion H; subst. unfold is_documented_refusal. rewrite (make_problem_Error _ _ _ MP). apply orb_true_r. }
  eapply (prepared_call_refusals ord ordp P1 P2 a _ p (CallArgs [] inputs)); eauto.
Qed.

Lemma entry_points_refusals : forall ord ordp,
  permuting ord -> permutingp ordp ->
  (forall a fs c e,
     (forall n x, In (n, x) (keywords c) -> arg_wf x = true) ->
     tensor_method_call ord ordp a fs c = Refused e -> is_documented_refusal e = true) /\
  (forall a outf inputs e,
     (forall n x, In (n, x) inputs -> arg_wf x = true) ->
     evaluate ord ordp a outf inputs = Refused e -> is_documented_refusal e = true).
Proof.
  intros ord ordp P1 P2. split.
  - apply tensor_method_call_refusals; assumption.
  - apply evaluate_refusals; assumption.
Qed.

(* ------------------------------------------------------------------------------------------ *)
(** * concrete instances of the hypotheses *)

Open Scope string_scope.

(** A(i,j) = B(i,j) * B(j,i) with dense formats *)
Definition ex_assignment : assignment :=
  Assignment (TRef "A" ["i"; "j"])
             (EMultiply (ETensor (TRef "B" ["i"; "j"])) (ETensor (TRef "B" ["j"; "i"]))).
Definition ex_dd : format := Format [Dense; Dense] [0; 1].
Definition ex_problem : problem := Problem ex_assignment [("A", ex_dd); ("B", ex_dd)].
Definition ex_square : call_args := CallArgs [] [("B", ATensor 2 [Dense; Dense] [0; 1] [3%Z; 3%Z])].
Definition ex_oblong : call_args := CallArgs [] [("B", ATensor 2 [Dense; Dense] [0; 1] [3%Z; 4%Z])].

Example ex_wf :
  assignment_check (p_assignment ex_problem) = Ok tt /\
  problem_post_init (p_assignment ex_problem) (p_formats ex_problem) = Ok tt /\
  make_problem ex_assignment [("B", ex_dd)] = Ok ex_problem /\
  tm_init ord_id ex_problem = Ok tt.
Proof. vm_compute. repeat split. Qed.

Example ex_accepted : validate ord_id ordp_id ex_problem ex_square = Ok [3%Z; 3%Z].
Proof. vm_compute. reflexivity. Qed.

Example ex_refused : call ord_id ordp_id ex_problem ex_oblong = Refused EValueErrorDimensions.
Proof. vm_compute. reflexivity. Qed.

Example ex_args_wf : forall n a, In (n, a) (keywords ex_oblong) -> arg_wf a = true.
Proof. intros n a [H|[]]. inversion H. reflexivity. Qed.

(** the square call is consistent in the sense of the theorem (hypothesis of completeness) *)
Example ex_consistent : consistent ex_problem ex_square [3%Z; 3%Z].
Proof.
  apply (validate_ok_implies_consistent ord_id ordp_id).
  - intros ? ?. apply Permutation_refl.
  - intros ? ?. apply Permutation_refl.
  - exact ex_accepted.
Qed.

(** three participants: a(i) = b(i) + c(i) + d(i); the third one differs *)
Definition ex3_assignment : assignment :=
  Assignment (TRef "a" ["i"])
    (EAdd (EAdd (ETensor (TRef "b" ["i"])) (ETensor (TRef "c" ["i"]))) (ETensor (TRef "d" ["i"]))).
Definition ex_vec (n : Z) : argument := ATensor 1 [Dense] [0] [n].
Example ex3_third_participant :
  tensor_method_call ord_id ordp_id ex3_assignment []
    (CallArgs [] [("b", ex_vec 3); ("c", ex_vec 3); ("d", ex_vec 4)]) = Refused EValueErrorDimensions /\
  tensor_method_call ord_id ordp_id ex3_assignment []
    (CallArgs [] [("b", ex_vec 3); ("c", ex_vec 3); ("d", ex_vec 3)]) = KernelEntered [3%Z].
Proof. vm_compute. split; reflexivity. Qed.
