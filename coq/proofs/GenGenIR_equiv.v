(** TIE target "genir": theorems about the loop generator REGENERATED from
    /repo/src/tensora/iteration_graph/_generate_ir.py (gen/GenerateIR.v), for ALL graphs.
    No hand model of the IR generator exists; what is proved here is about the regenerated function itself.
    design.d/TIE_genir.md *)
From Coq Require Import ZArith Bool List String Ascii Lia Permutation Sorted.
From TV Require Import spec.Num spec.PyBase spec.PyLib model.GraphsIter.
From TV Require Import gen.IRAst gen.Names gen.ExhaustAst gen.Exhaust gen.IterGraphs gen.GlueGen.
From TV Require Import gen.AppendGen gen.GenerateIR.
From TV Require model.Graphs proofs.GraphsInd proofs.GraphsSimplify proofs.GraphsAssign proofs.GraphsMerge proofs.GenGraphs_base proofs.GenGraphs_equiv.
From TV Require proofs.Certs2Base proofs.GenGenIR_sound spec.IRSem.
From TV Require proofs.Certs proofs.GenAppend_decl proofs.GenAppend_equiv proofs.Certs3Defs proofs.Certs2Input.
Import ListNotations.
Open Scope bool_scope.

(** * 1. [sorted(xs, key=..., reverse=True)]: a permutation, sorted by decreasing key, STABLE *)

Section SORT.
  Context {A : Type}.
  Implicit Types (x : Z * A) (l : list (Z * A)).

  Lemma insert_desc_perm x l : Permutation (insert_desc x l) (x :: l).
  Proof.
    induction l as [|y r IH]; cbn; auto.
    destruct (fst y >? fst x)%Z; auto.
    rewrite IH. apply perm_swap.
  Qed.

  Theorem gen_sorted_desc_perm l : Permutation (py_sorted_desc l) l.
  Proof.
    induction l as [|x r IH]; cbn; auto. rewrite insert_desc_perm. auto.
  Qed.

  Definition ge_key (x y : Z * A) : Prop := (fst x >= fst y)%Z.

  Lemma insert_desc_sorted x l : Sorted ge_key l -> Sorted ge_key (insert_desc x l).
  Proof.
    induction l as [|y r IH]; intros S; cbn.
    - repeat constructor.
    - destruct (fst y >? fst x)%Z eqn:E.
      + inversion S as [|? ? S' Hd]; subst. constructor; auto.
        destruct r as [|z r']; cbn.
        * constructor. unfold ge_key. apply Z.gtb_lt in E. lia.
        * destruct (fst z >? fst x)%Z eqn:E2.
          -- inversion Hd; subst. constructor; auto.
          -- constructor. unfold ge_key. apply Z.gtb_lt in E. lia.
      + constructor; auto. constructor. unfold ge_key.
        destruct (Z.gtb_spec (fst y) (fst x)); try discriminate. lia.
  Qed.

  Theorem gen_sorted_desc_sorted l : Sorted ge_key (py_sorted_desc l).
  Proof.
    induction l as [|x r IH]; cbn; [constructor|]. apply insert_desc_sorted; auto.
  Qed.

  (** stability: the elements of any given key appear in their original relative order *)
  Lemma insert_desc_filter k x l :
    Sorted ge_key l ->
    filter (fun y => Z.eqb (fst y) k) (insert_desc x l) = filter (fun y => Z.eqb (fst y) k) (x :: l).
  Proof.
    induction l as [|y r IH]; intros S; cbn; auto.
    inversion S as [|? ? S' Hd]; subst. specialize (IH S').
    destruct (fst y >? fst x)%Z eqn:E; cbn.
    - rewrite IH. cbn. destruct (Z.eqb_spec (fst y) k), (Z.eqb_spec (fst x) k); auto.
      apply Z.gtb_lt in E. lia.
    - reflexivity.
  Qed.

  Theorem gen_sorted_desc_stable k l :
    filter (fun y => Z.eqb (fst y) k) (py_sorted_desc l) = filter (fun y => Z.eqb (fst y) k) l.
  Proof.
    induction l as [|x r IH]; [reflexivity|].
    change (py_sorted_desc (x :: r)) with (insert_desc x (py_sorted_desc r)).
    rewrite insert_desc_filter by apply gen_sorted_desc_sorted. cbn [filter]. rewrite IH. reflexivity.
  Qed.
End SORT.

(** * 2. weakest preconditions in the option monad *)
Definition wp {T} (o : option T) (Q : T -> Prop) : Prop := forall r, o = Some r -> Q r.

Lemma wp_some {T} (v : T) (Q : T -> Prop) : Q v -> wp (Some v) Q.
Proof. intros H r E. injection E as <-. exact H. Qed.
Lemma wp_none {T} (Q : T -> Prop) : wp None Q.
Proof. intros r E. discriminate. Qed.
Lemma wp_bind {A B} (x : option A) (f : A -> option B) (P : A -> Prop) (Q : B -> Prop) :
  wp x P -> (forall v, P v -> wp (f v) Q) -> wp (obind x f) Q.
Proof. intros Hx Hf r E. destruct x as [v|]; cbn in E; [|discriminate]. exact (Hf v (Hx v eq_refl) r E). Qed.
Lemma wp_bind_any {A B} (x : option A) (f : A -> option B) (Q : B -> Prop) :
  (forall v, wp (f v) Q) -> wp (obind x f) Q.
Proof. intros Hf. apply wp_bind with (P := fun _ => True); [intros ? ?; exact I | intros v _; apply Hf]. Qed.
Lemma wp_if {T} (c : bool) (a b : option T) Q : wp a Q -> wp b Q -> wp (if c then a else b) Q.
Proof. destruct c; auto. Qed.
Lemma wp_ofold {A B} (f : B -> A -> option B) (l : list A) (init : B) (I : B -> Prop) :
  (forall acc x, I acc -> wp (f acc x) I) -> I init -> wp (ofold f l init) I.
Proof.
  intros Hf. revert init. induction l as [|x l IH]; intros init Hi r E; cbn in E.
  - injection E as <-. exact Hi.
  - destruct (f init x) as [a|] eqn:Ef; [|discriminate]. exact (IH a (Hf init x Hi a Ef) r E).
Qed.
Lemma wp_conseq {T} (o : option T) (P Q : T -> Prop) : wp o P -> (forall v, P v -> Q v) -> wp o Q.
Proof. intros H HPQ r E. auto. Qed.

(** * 3. the invariant: no allocation form, no field store *)
Definition okS (s : stmt) : bool := Certs.no_alloc s && Certs.no_field_store s.
Definition okE (e : expr) : bool := negb (Certs.is_alloc e).

Class Good (T : Type) := good : T -> Prop.
#[export] Instance good_sb : Good sb := fun b => forallb okS (sb_lines b) = true.
#[export] Instance good_stmt : Good stmt := fun s => okS s = true.
#[export] Instance good_expr : Good expr := fun e => okE e = true.
#[export] Instance good_list {T} `{Good T} : Good (list T) := fun l => Forall good l.
#[export] Instance good_prod {A B} `{Good A} `{Good B} : Good (A * B) := fun p => good (fst p) /\ good (snd p).
#[export] Instance good_option {T} `{Good T} : Good (option T) := fun o => match o with Some x => good x | None => True end.
#[export] Instance good_default {T} : Good T | 100 := fun _ => True.

Lemma wp_bind_good {A B} `{Good A} (x : option A) (f : A -> option B) (Q : B -> Prop) :
  wp x good -> (forall v, good v -> wp (f v) Q) -> wp (obind x f) Q.
Proof. apply wp_bind. Qed.

Lemma forallb_andb {A} (f g : A -> bool) l : forallb f l && forallb g l = forallb (fun x => f x && g x) l.
Proof. induction l as [|x l IH]; cbn; auto. rewrite <- IH. destruct (f x), (g x), (forallb f l), (forallb g l); auto. Qed.

Lemma okS_block l c : okS (Block l c) = forallb okS l.
Proof. unfold okS. cbn [Certs.no_alloc Certs.no_field_store]. apply forallb_andb. Qed.

Lemma good_sb_nil c : good (MkSB [] c).
Proof. reflexivity. Qed.
Lemma good_append_stmt (s : sb) x : good s -> okS x = true -> good (sb_append_stmt s x).
Proof. unfold good, good_sb, sb_append_stmt. cbn. intros H Hx. rewrite forallb_app, H. cbn. rewrite Hx. reflexivity. Qed.
Lemma good_finalize (s : sb) : good s -> okS (sb_finalize s) = true.
Proof. unfold sb_finalize. rewrite okS_block. auto. Qed.
Lemma good_append_sb (s x : sb) : good s -> good x -> good (sb_append_sb s x).
Proof.
  unfold sb_append_sb. intros Hs Hx. destruct (sb_comment x).
  - apply (good_append_stmt s _ Hs). apply good_finalize. exact Hx.
  - unfold good, good_sb in *. cbn. rewrite forallb_app, Hs, Hx. reflexivity.
Qed.
Lemma good_close_branch (o : sb) c (i : sb) : good o -> good i -> good (sb_close_branch o c i).
Proof.
  intros Ho Hi. apply good_append_stmt; auto. unfold okS. cbn [Certs.no_alloc Certs.no_field_store forallb].
  pose proof (okS_block (sb_lines i) None) as E. unfold good, good_sb in Hi. rewrite Hi in E.
  unfold okS in E. cbn [Certs.no_alloc Certs.no_field_store] in E. apply andb_true_iff in E as [E1 E2]. rewrite E1, E2. reflexivity.
Qed.
Lemma good_close_loop (o : sb) c (i : sb) : good o -> good i -> good (sb_close_loop o c i).
Proof.
  intros Ho Hi. apply good_append_stmt; auto. unfold okS. cbn [Certs.no_alloc Certs.no_field_store].
  pose proof (okS_block (sb_lines i) None) as E. unfold good, good_sb in Hi. rewrite Hi in E.
  unfold okS in E. cbn [Certs.no_alloc Certs.no_field_store] in E. exact E.
Qed.
Lemma good_close_block (o : sb) c (i : sb) : good o -> good i -> good (sb_close_block o c i).
Proof. intros Ho Hi. apply good_append_stmt; auto. rewrite okS_block. exact Hi. Qed.

(** * 4. leaves *)
Lemma okE_to_ir e : okE (to_ir e) = true.
Proof. destruct e; reflexivity. Qed.

Lemma good_and_join l : okE (And_join l) = true.
Proof.
  unfold And_join. generalize (map (fun operand => to_expression operand) l) as xs. intros xs.
  assert (G : forall xs a, okE a = true -> okE (fold_left And xs a) = true).
  { induction xs0 as [|x xs0 IH]; cbn; auto. }
  apply G. reflexivity.
Qed.

Lemma wp_min_join (l : list expr) : good l -> wp (Min_join (map (fun x_ => XE x_) l)) good.
Proof.
  intros Hl r E. unfold Min_join in E. rewrite map_map in E. cbn [to_expression] in E. rewrite map_id in E.
  destruct l as [|x l]; cbn in E; [discriminate|]. injection E as <-.
  inversion Hl; subst.
  assert (G : forall xs a, okE a = true -> okE (fold_left Min xs a) = true).
  { induction xs as [|y xs IH]; cbn; auto. }
  apply G. assumption.
Qed.

Lemma good_write_sparse_initialization leaf : good (write_sparse_initialization leaf).
Proof. reflexivity. Qed.

Lemma wp_bucket_write_declarations b rhs : okE rhs = true -> wp (BucketOutput_write_declarations b rhs) good.
Proof.
  intros Hr r E. unfold BucketOutput_write_declarations in E.
  destruct (BucketOutput_dimension_names b); cbn [obind] in E; [|discriminate]. injection E as <-.
  destruct rhs; try discriminate Hr; reflexivity.
Qed.

Lemma wp_next_output_compute o io : wp (Output_next_output o io KernelType_compute) good.
Proof.
  intros r E. destruct o as [a|b]; cbn [Output_next_output] in E.
  - unfold AppendOutput_next_output in E.
    destruct (match io with Some iteration_output => _ | None => false end).
    + injection E as <-. repeat split.
    + destruct (forallb _ _); [|discriminate].
      destruct (BucketOutput_init _ _ _) as [nb|]; cbn [obind] in E; [|discriminate].
      cbn [KernelType_is_compute KernelType_eqb orb] in E.
      match type of E with obind (obind ?x _) _ = _ => destruct x as [d|] eqn:Ed end; cbn [obind] in E; [|discriminate].
      injection E as <-. repeat split. cbn [fst snd]. eapply wp_bucket_write_declarations; [|exact Ed]. reflexivity.
  - injection E as <-. unfold BucketOutput_next_output. destruct io; repeat split.
Qed.

Lemma wp_write_assignment o rhs k : okE rhs = true -> wp (Output_write_assignment o rhs k) good.
Proof.
  intros Hr r E. destruct o as [a|b]; cbn [Output_write_assignment] in E.
  - unfold AppendOutput_write_assignment in E. destruct (negb _); [discriminate|]. injection E as <-.
    destruct rhs; try discriminate Hr; reflexivity.
  - unfold BucketOutput_write_assignment in E.
    repeat match type of E with obind ?x _ = _ => destruct x; cbn [obind] in E; [|discriminate] end.
    injection E as <-. reflexivity.
Qed.

Lemma written_flags_plain o : Forall (fun e => Certs.plain_target e = true) (Output_written_flags o).
Proof.
  unfold Output_written_flags. apply Forall_forall. intros e He. apply in_map_iff in He as ((l & m) & <- & _). reflexivity.
Qed.

Lemma wp_of_good {T} `{Good T} (o : option T) : good o -> wp o good.
Proof. intros Ho r E. subst o. exact Ho. Qed.

Lemma okS_branch_join (l : list (expr * stmt)) :
  good l -> okS (Branch_join (map (fun '(c0_, c1_) => (XE c0_, c1_)) l)) = true.
Proof.
  intros Hl. unfold Branch_join. rewrite <- map_rev.
  assert (Hr : Forall good (rev l)) by (apply Forall_rev; exact Hl).
  revert Hr. generalize (rev l) as xs. intros xs Hxs.
  assert (G : forall acc, okS acc = true ->
              okS (fold_left (fun previous (leaf : exarg * stmt) =>
                                Branch (to_expression (let '(p_, _) := leaf in p_)) (let '(_, p_) := leaf in p_) previous)
                             (map (fun '(c0_, c1_) => (XE c0_, c1_)) xs) acc) = true).
  { induction Hxs as [|[c b] xs [_ Hb] Hxs IH]; intros acc Ha; cbn [map fold_left]; auto.
    apply IH. cbn [fst snd] in Hb. unfold good, good_stmt in Hb.
    unfold okS in *. cbn [Certs.no_alloc Certs.no_field_store].
    apply andb_true_iff in Hb as [B1 B2]. apply andb_true_iff in Ha as [A1 A2]. rewrite B1, B2, A1, A2. reflexivity. }
  apply G. reflexivity.
Qed.

(** * 5. the three registered functions, compute kernels *)
Create HintDb wpdb.
#[export] Hint Resolve wp_next_output_compute wp_min_join : wpdb.

Ltac good_expr_solve :=
  unfold good, good_expr, good_stmt, okS, okE in *;
  first [ reflexivity
        | apply good_and_join
        | apply okS_branch_join; assumption
        | cbn; repeat match goal with H : negb (Certs.is_alloc ?e) = true |- context [Certs.is_alloc ?e] => rewrite (proj1 (negb_true_iff _) H) end; reflexivity
        | match goal with H : negb (Certs.is_alloc ?e) = true |- _ => destruct e; try discriminate H; reflexivity end
        | idtac ].

Ltac good_solve :=
  cbn [fst snd] in *;
  lazymatch goal with
  | |- good (sb_append_stmt _ _) => apply good_append_stmt; [good_solve | good_expr_solve]
  | |- good (sb_append_sb _ _) => apply good_append_sb; good_solve
  | |- good (sb_close_branch _ _ _) => apply good_close_branch; good_solve
  | |- good (sb_close_loop _ _ _) => apply good_close_loop; good_solve
  | |- good (sb_close_block _ _ _) => apply good_close_block; good_solve
  | |- good (MkSB [] _) => reflexivity
  | |- good (write_sparse_initialization _) => reflexivity
  | |- good (_, _) => split; good_solve
  | |- good_prod (_, _) => split; good_solve
  | |- good (Some _) => unfold good, good_option; good_solve
  | |- good (@None _) => exact I
  | |- @good (list _) _ (_ ++ [_])%list => apply Forall_app; split; [assumption | constructor; [good_solve | constructor]]
  | |- @good (list _) _ [] => constructor
  | |- @good (list _) _ _ => first [assumption | solve [apply Forall_forall; intros ? _; good_solve] | idtac]
  | |- @good stmt _ (sb_finalize _) => apply good_finalize; good_solve
  | |- @good expr _ _ => first [assumption | good_expr_solve]
  | |- @good stmt _ _ => first [assumption | good_expr_solve]
  | |- _ => first [ assumption | exact I | solve [repeat split; exact I]
                  | solve [unfold good, good_option, good_prod, good_default;
                           repeat match goal with |- context [match ?x with _ => _ end] => destruct x end;
                           repeat split; exact I]
                  | idtac ]
  end.

Ltac destruct_good :=
  repeat match goal with
         | H : @good (_ * _) _ _ |- _ => destruct H
         | H : good_prod _ |- _ => destruct H
         end; cbn [fst snd] in *.

Ltac wp_go :=
  cbv beta;
  lazymatch goal with
  | |- wp (Some _) _ => apply wp_some; wp_post
  | |- wp None _ => apply wp_none
  | |- wp (match ?x with Some _ => _ | None => _ end) _ => first [apply wp_if | destruct x; destruct_good]; wp_go
  | |- wp (if ?c then _ else _) _ => first [apply wp_if | destruct c; destruct_good]; wp_go
  | |- wp (let '(_, _) := ?p in _) _ => destruct p; destruct_good; wp_go
  | |- wp (ofold _ _ _) _ =>
      apply wp_ofold; [ let acc := fresh "acc" in let x := fresh "x" in let Ha := fresh "Ha" in
                        intros acc x Ha; wp_go
                      | good_solve ]
  | |- wp (obind ?x ?f) _ =>
      apply wp_bind_good;
      [ first [ solve [eauto 3 with wpdb] | wp_go ]
      | let v := fresh "v" in let Hv := fresh "Hv" in intros v Hv; wp_go ]
  | |- wp _ good => first [ solve [eauto 3 with wpdb] | solve [apply wp_of_good; assumption] | solve [intros ? ?; good_solve] | idtac ]
  | |- _ => idtac
  end
with wp_post :=
  lazymatch goal with
  | |- wp _ _ => wp_go
  | |- good _ => destruct_good; good_solve
  | |- _ => idtac
  end.

Lemma terminal_compute self output :
  wp (to_ir_terminal_expression self output KernelType_compute) good.
Proof.
  unfold to_ir_terminal_expression. destruct self; try solve [apply wp_none].
  cbv zeta. cbn [KernelType_is_compute KernelType_eqb orb].
  apply wp_bind_good.
  - apply wp_if; [|apply wp_some; reflexivity].
    apply wp_bind_good; [|intros v Hv; apply wp_some; exact Hv].
    pose proof (written_flags_plain output) as P. revert P. generalize (Output_written_flags output) as fl.
    intros fl P. generalize (good_sb_nil (Some "*** Computation of expression ***"%string)).
    generalize (MkSB [] (Some "*** Computation of expression ***"%string)) as s0.
    induction P as [|e fl He P IH]; intros s0 H0 r E; cbn in E.
    + injection E as <-. exact H0.
    + eapply IH; [|exact E]. apply good_append_stmt; [exact H0|].
      unfold okS. cbn. rewrite He. reflexivity.
  - intros v Hv. apply wp_bind_good.
    + apply wp_bind_good; [apply wp_write_assignment, okE_to_ir|].
      intros v0 Hv0. apply wp_some. good_solve.
    + intros v0 Hv0. apply wp_some. exact Hv0.
Qed.

Lemma sum_compute rec_ self output :
  (forall g o, wp (rec_ g o KernelType_compute) good) ->
  wp (to_ir_sum rec_ self output KernelType_compute) good.
Proof.
  intros IH. unfold to_ir_sum. destruct self; try solve [apply wp_none].
  cbv zeta. cbn [KernelType_is_compute KernelType_eqb orb].
  wp_go.
Qed.

Lemma iteration_compute fuel rec_ self output :
  (forall g o, wp (rec_ g o KernelType_compute) good) ->
  wp (to_ir_iteration_variable fuel rec_ self output KernelType_compute) good.
Proof.
  intros IH. unfold to_ir_iteration_variable. destruct self; try solve [apply wp_none].
  cbv zeta. cbn [KernelType_is_compute KernelType_is_assemble KernelType_eqb orb andb negb obind].
  wp_go.
Qed.

Theorem family_compute fuel n : forall g o, wp (to_ir_iteration_graph fuel n g o KernelType_compute) good.
Proof.
  induction n as [|n IH]; intros g o; cbn [to_ir_iteration_graph]; [apply wp_none|].
  destruct g.
  - apply terminal_compute.
  - apply iteration_compute. intros g' o'. apply IH.
  - apply sum_compute. intros g' o'. apply IH.
Qed.

Lemma wp_decl_compute cap ao : wp (AppendOutput_write_declarations cap ao KernelType_compute) good.
Proof.
  intros d Hd. pose proof (GenAppend_decl.gen_declarations_compute_all cap ao) as S. rewrite Hd in S.
  cbn [option_map] in S. injection S as S. unfold good, good_sb. rewrite S.
  destruct (GenAppend_decl.compressed_ptr_decls_certs (Tensor_id (AppendOutput_output ao)) (Tensor_modes (AppendOutput_output ao)) 0) as (A & B & _).
  unfold okS. rewrite <- forallb_andb, A, B. reflexivity.
Qed.

Lemma wp_cleanup_compute ao : wp (AppendOutput_write_cleanup ao KernelType_compute) good.
Proof. intros c Hc. change (AppendOutput_write_cleanup ao KernelType_compute) with
  (Some (MkSB [] (Some ("Assembling output tensor " ++ Tensor_name (AppendOutput_output ao))%string))) in Hc.
  injection Hc as <-. reflexivity. Qed.

#[export] Hint Resolve wp_decl_compute wp_cleanup_compute family_compute : wpdb.

(** (a) the compute kernel of EVERY definition and EVERY graph, for every fuel and every initial capacity:
    no allocation form, no store into a tensor field *)
Theorem gen_compute_cert_fuel cap fuel d g f :
  generate_ir_fuel cap fuel d g KernelType_compute = Some f -> Certs.compute_cert f = true.
Proof.
  revert f. change (wp (generate_ir_fuel cap fuel d g KernelType_compute) (fun f => Certs.compute_cert f = true)).
  unfold generate_ir_fuel. cbv zeta.
  wp_go.
  unfold Certs.compute_cert. apply (good_finalize _). good_solve.
Qed.

(** the same on the entry point (the fuel the translator supplies, gen/GlueGen.v's KernelType) *)
Theorem gen_compute_cert cap d g f :
  generate_ir cap d g GlueGen.KernelType_compute = Some f -> Certs.compute_cert f = true.
Proof. unfold generate_ir. cbn [conv_kernel_type]. apply gen_compute_cert_fuel. Qed.

(** ... and as the IR generator handed to gen/GlueGen.v's generate_module_tensora *)
Theorem gen_compute_cert_pres cap d g f :
  generate_ir_pres cap d g GlueGen.KernelType_compute = POk f -> Certs.compute_cert f = true.
Proof.
  unfold generate_ir_pres. destruct (generate_ir cap d g GlueGen.KernelType_compute) as [f'|] eqn:E; cbn; [|discriminate].
  intros H. injection H as <-. eapply gen_compute_cert; eauto.
Qed.

(** every fragment the dispatch family returns in a compute kernel (any node, any output, any depth) *)
Theorem gen_family_compute_fragments fuel n g o s :
  to_ir_iteration_graph fuel n g o KernelType_compute = Some s ->
  Certs.no_alloc (sb_finalize s) = true /\ Certs.no_field_store (sb_finalize s) = true.
Proof.
  intros E. pose proof (good_finalize s (family_compute fuel n g o s E)) as H.
  unfold okS in H. apply andb_true_iff in H. exact H.
Qed.

(** (d) an assemble kernel whose output has no compressed layer: an iteration node emits NOTHING (whatever is below) *)
Theorem gen_dense_assemble_emits_nothing fuel rec_ iv nxt o :
  Output_has_sparse_layer o = false ->
  to_ir_iteration_variable fuel rec_ (IgIterationNode iv None nxt) o KernelType_assemble
  = Some (MkSB [] (Some ("*** Iteration over " ++ iv ++ " ***")%string)).
Proof. intros H. unfold to_ir_iteration_variable. cbn. rewrite H. reflexivity. Qed.

Example gen_compute_cert_nonvacuous :
  exists f, generate_ir None
      (MkDefinition (IdTensor "0_a" "a" ["i"] [ExhaustAst.Mode_compressed])
                    [("a", MkFormat [ExhaustAst.Mode_compressed] [0%Z]); ("b", MkFormat [ExhaustAst.Mode_compressed] [0%Z])]
                    [("i", MkTensorDimension "a" 0%Z)])
      (IgIterationNode "i" (Some (ExhaustAst.MkTensorLayer (IdTensor "0_a" "a" ["i"] [ExhaustAst.Mode_compressed]) 0%Z))
         (IgTerminalNode (IdTensor "1_b" "b" ["i"] [ExhaustAst.Mode_compressed])))
      GlueGen.KernelType_compute = Some f.
Proof. eexists. vm_compute. reflexivity. Qed.

(** * 6. alignment: the assemble kernel is the evaluate kernel with statements dropped *)

(** [Sub sE sK]: sK is sE with statements dropped (or replaced by an empty block); what is kept is identical *)
Inductive Sub : stmt -> stmt -> Prop :=
| Sub_refl s : Sub s s
| Sub_block ss c ss' c' : SubL ss ss' -> Sub (Block ss c) (Block ss' c')
| Sub_branch c a b a' b' : Sub a a' -> Sub b b' -> Sub (Branch c a b) (Branch c a' b')
| Sub_loop c a a' : Sub a a' -> Sub (Loop c a) (Loop c a')
| Sub_empty s c : Sub s (Block [] c)
with SubL : list stmt -> list stmt -> Prop :=
| SubL_nil : SubL [] []
| SubL_keep e k l l' : Sub e k -> SubL l l' -> SubL (e :: l) (k :: l')
| SubL_drop e l k : SubL l k -> SubL (e :: l) k.

Lemma SubL_refl l : SubL l l.
Proof. induction l; constructor; auto. apply Sub_refl. Qed.
Lemma SubL_drop_all l : SubL l [].
Proof. induction l; constructor; auto. Qed.
Lemma SubL_app a b c d : SubL a b -> SubL c d -> SubL (a ++ c) (b ++ d).
Proof. induction 1; intros HH; cbn; auto; constructor; auto. Qed.
Lemma SubL_app_left a b x : SubL a b -> SubL (a ++ x) b.
Proof. intros H. rewrite <- (app_nil_r b). apply SubL_app; auto. apply SubL_drop_all. Qed.

(** what [append(x)] contributes *)
Definition app_of (x : sb) : list stmt :=
  match sb_comment x with Some _ => [sb_finalize x] | None => sb_lines x end.
Lemma append_sb_eq s x : sb_append_sb s x = MkSB (sb_lines s ++ app_of x) (sb_comment s).
Proof. unfold sb_append_sb, app_of, sb_append_stmt. destruct (sb_comment x); reflexivity. Qed.

Definition rel_sb (s1 s2 : sb) : Prop := sb_comment s1 = sb_comment s2 /\ SubL (sb_lines s1) (sb_lines s2).

Lemma rel_sb_refl s : rel_sb s s.
Proof. split; auto. apply SubL_refl. Qed.
Lemma rel_sb_app_of x1 x2 : rel_sb x1 x2 -> SubL (app_of x1) (app_of x2).
Proof.
  intros [C L]. unfold app_of, sb_finalize. rewrite <- C. destruct (sb_comment x1); auto.
  constructor; [|constructor]. apply Sub_block. exact L.
Qed.
Lemma rel_append_stmt s1 s2 x1 x2 : rel_sb s1 s2 -> Sub x1 x2 -> rel_sb (sb_append_stmt s1 x1) (sb_append_stmt s2 x2).
Proof. intros [C L] X. split; cbn; auto. apply SubL_app; auto. constructor; auto. constructor. Qed.
Lemma rel_append_sb s1 s2 x1 x2 : rel_sb s1 s2 -> SubL (app_of x1) (app_of x2) -> rel_sb (sb_append_sb s1 x1) (sb_append_sb s2 x2).
Proof. intros [C L] X. rewrite !append_sb_eq. split; cbn; auto. apply SubL_app; auto. Qed.
Lemma rel_append_sb_left s1 s2 x1 : rel_sb s1 s2 -> rel_sb (sb_append_sb s1 x1) s2.
Proof. intros [C L]. rewrite append_sb_eq. split; cbn; auto. apply SubL_app_left; auto. Qed.
Lemma rel_finalize s1 s2 : rel_sb s1 s2 -> Sub (sb_finalize s1) (sb_finalize s2).
Proof. intros [C L]. apply Sub_block. exact L. Qed.
Lemma rel_close_branch o1 o2 c i1 i2 : rel_sb o1 o2 -> rel_sb i1 i2 -> rel_sb (sb_close_branch o1 c i1) (sb_close_branch o2 c i2).
Proof. intros Ho [_ L]. apply rel_append_stmt; auto. apply Sub_branch; [apply Sub_block; exact L | apply Sub_refl]. Qed.
Lemma rel_close_loop o1 o2 c i1 i2 : rel_sb o1 o2 -> rel_sb i1 i2 -> rel_sb (sb_close_loop o1 c i1) (sb_close_loop o2 c i2).
Proof. intros Ho [_ L]. apply rel_append_stmt; auto. apply Sub_loop. apply Sub_block. exact L. Qed.
Lemma rel_close_block o1 o2 c i1 i2 : rel_sb o1 o2 -> rel_sb i1 i2 -> rel_sb (sb_close_block o1 c i1) (sb_close_block o2 c i2).
Proof. intros Ho [_ L]. apply rel_append_stmt; auto. apply Sub_block. exact L. Qed.

(** relational weakest precondition *)
Definition wp2 {A B} (x : option A) (y : option B) (R : A -> B -> Prop) : Prop :=
  forall a b, x = Some a -> y = Some b -> R a b.
Lemma wp2_some {A B} (a : A) (b : B) (R : A -> B -> Prop) : R a b -> wp2 (Some a) (Some b) R.
Proof. intros H ? ? E1 E2. injection E1 as <-. injection E2 as <-. exact H. Qed.
Lemma wp2_bind {A B A' B'} (x : option A) (y : option B) (f : A -> option A') (g : B -> option B') (P : A -> B -> Prop) (Q : A' -> B' -> Prop) :
  wp2 x y P -> (forall a b, P a b -> wp2 (f a) (g b) Q) -> wp2 (obind x f) (obind y g) Q.
Proof.
  intros Hx Hf r s E1 E2. destruct x as [a|]; cbn in E1; [|discriminate]. destruct y as [b|]; cbn in E2; [|discriminate].
  exact (Hf a b (Hx a b eq_refl eq_refl) r s E1 E2).
Qed.
Lemma wp2_same {A} (x : option A) : wp2 x x eq.
Proof. intros a b E1 E2. rewrite E1 in E2. injection E2 as <-. reflexivity. Qed.
Lemma wp2_ofold {A B B'} (f : B -> A -> option B) (g : B' -> A -> option B') (l : list A) i i' (I : B -> B' -> Prop) :
  (forall acc acc' x, I acc acc' -> wp2 (f acc x) (g acc' x) I) -> I i i' -> wp2 (ofold f l i) (ofold g l i') I.
Proof.
  intros H. revert i i'. induction l as [|x l IH]; intros i i' Hi r s E1 E2; cbn in *.
  - injection E1 as <-. injection E2 as <-. exact Hi.
  - destruct (f i x) as [a|] eqn:Ef; [|discriminate]. destruct (g i' x) as [b|] eqn:Eg; [|discriminate].
    exact (IH a b (H i i' x Hi a b Ef Eg) r s E1 E2).
Qed.
Lemma wp2_left {A B A'} (x : option A) (f : A -> option A') (y : option B) (Q : A' -> B -> Prop) :
  (forall a, wp2 (f a) y Q) -> wp2 (obind x f) y Q.
Proof. intros H r s E1 E2. destruct x as [a|]; cbn in E1; [|discriminate]. exact (H a r s E1 E2). Qed.

(** the relation, type directed: identical values, except builders / statements *)
Class Rel (T : Type) := rel : T -> T -> Prop.
#[export] Instance rel_sb_i : Rel sb := rel_sb.
#[export] Instance rel_stmt_i : Rel stmt := Sub.
#[export] Instance rel_prod {A B} `{Rel A} `{Rel B} : Rel (A * B) := fun p q => rel (fst p) (fst q) /\ rel (snd p) (snd q).
#[export] Instance rel_leaves : Rel (list (expr * stmt)) := Forall2 (fun p q => fst p = fst q /\ Sub (snd p) (snd q)).
#[export] Instance rel_default {T} : Rel T | 100 := eq.

Lemma wp2_bind_rel {A A' B'} `{Rel A} (x y : option A) (f : A -> option A') (g : A -> option B') (Q : A' -> B' -> Prop) :
  wp2 x y rel -> (forall a b, rel a b -> wp2 (f a) (g b) Q) -> wp2 (obind x f) (obind y g) Q.
Proof. apply wp2_bind. Qed.

(** ** the builder a registered function returns carries its comment (so it is appended as ONE block) *)
Definition hasc (C : string) (s : sb) : Prop := sb_comment s = Some C.
Lemma comment_append_stmt s x : sb_comment (sb_append_stmt s x) = sb_comment s. Proof. reflexivity. Qed.
Lemma comment_append_sb s x : sb_comment (sb_append_sb s x) = sb_comment s. Proof. rewrite append_sb_eq. reflexivity. Qed.
Lemma comment_close_branch o c i : sb_comment (sb_close_branch o c i) = sb_comment o. Proof. reflexivity. Qed.
Lemma comment_close_loop o c i : sb_comment (sb_close_loop o c i) = sb_comment o. Proof. reflexivity. Qed.
Lemma comment_close_block o c i : sb_comment (sb_close_block o c i) = sb_comment o. Proof. reflexivity. Qed.

Ltac cm_solve :=
  unfold hasc in *;
  rewrite ?comment_append_stmt, ?comment_append_sb, ?comment_close_branch, ?comment_close_loop, ?comment_close_block;
  first [assumption | reflexivity].

Ltac cm_any C :=
  cbv beta;
  lazymatch goal with
  | |- wp (Some _) _ => apply wp_some; cm_solve
  | |- wp None _ => apply wp_none
  | |- wp (match ?x with Some _ => _ | None => _ end) _ => destruct x; cm_any C
  | |- wp (if ?c then _ else _) _ => destruct c; cm_any C
  | |- wp (let '(_, _) := ?p in _) _ => destruct p; cm_any C
  | |- wp (ofold _ _ _) (hasc _) =>
      apply wp_ofold; [ let acc := fresh "acc" in let x := fresh "x" in let Ha := fresh "Ha" in intros acc x Ha; cm_any C | cm_solve ]
  | |- wp (obind ?x ?f) _ =>
      first [ apply (wp_bind x f (hasc C)); [ solve [cm_any C] | let v := fresh "v" in let Hv := fresh "Hv" in intros v Hv; cm_any C ]
            | apply wp_bind_any; let v := fresh "v" in intros v; cm_any C ]
  | |- _ => fail
  end.

Lemma terminal_comment self o k :
  wp (to_ir_terminal_expression self o k) (hasc "*** Computation of expression ***").
Proof.
  unfold to_ir_terminal_expression. destruct self; try solve [apply wp_none]. cbv zeta.
  cm_any "*** Computation of expression ***"%string.
Qed.

Lemma sum_comment rec_ self o k : wp (to_ir_sum rec_ self o k) (hasc "*** Sum ***").
Proof.
  unfold to_ir_sum. destruct self; try solve [apply wp_none]. cbv zeta.
  cm_any "*** Sum ***"%string.
Qed.

Lemma iteration_comment fuel rec_ iv out nxt o k :
  wp (to_ir_iteration_variable fuel rec_ (IgIterationNode iv out nxt) o k) (hasc ("*** Iteration over " ++ iv ++ " ***")).
Proof.
  unfold to_ir_iteration_variable. cbv zeta.
  cm_any ("*** Iteration over " ++ iv ++ " ***")%string.
Qed.

Lemma wp2_refl {A} (x : option A) (R : A -> A -> Prop) : (forall a, R a a) -> wp2 x x R.
Proof. intros H a b E1 E2. rewrite E1 in E2. injection E2 as <-. apply H. Qed.

Lemma Forall2_rev' {A B} (R : A -> B -> Prop) l1 l2 : Forall2 R l1 l2 -> Forall2 R (rev l1) (rev l2).
Proof. induction 1; cbn; auto. apply Forall2_app; auto. Qed.

Lemma sub_branch_join (l1 l2 : list (expr * stmt)) :
  rel l1 l2 ->
  Sub (Branch_join (map (fun '(c0_, c1_) => (XE c0_, c1_)) l1)) (Branch_join (map (fun '(c0_, c1_) => (XE c0_, c1_)) l2)).
Proof.
  intros H. unfold Branch_join. rewrite <- !map_rev. apply Forall2_rev' in H.
  revert H. generalize (rev l1) (rev l2). intros r1 r2 H.
  generalize (Sub_refl (Block [] None)). generalize (Block [] None) at 1 3. generalize (Block [] None).
  induction H as [|[c1 b1] [c2 b2] r1 r2 [Hc Hb] H IH]; intros a2 a1 Ha; cbn [map fold_left]; auto.
  apply IH. cbn [fst snd] in Hc, Hb. subst c2. cbn [to_expression]. apply Sub_branch; auto.
Qed.

Lemma wp2_next_output_EA o io :
  wp2 (Output_next_output o io KernelType_evaluate) (Output_next_output o io KernelType_assemble)
      (fun v w => fst (fst v) = fst (fst w) /\ SubL (app_of (snd (fst v))) (app_of (snd (fst w))) /\ snd v = snd w /\ snd v = MkSB [] None).
Proof.
  intros v w E1 E2. destruct o as [a|b]; cbn [Output_next_output] in E1, E2.
  - unfold AppendOutput_next_output in E1, E2.
    destruct (match io with Some iteration_output => _ | None => false end).
    + injection E1 as <-. injection E2 as <-. cbn. repeat split. constructor.
    + destruct (forallb _ _); [|discriminate].
      destruct (BucketOutput_init _ _ _) as [nb|]; cbn [obind] in E1, E2; [|discriminate].
      cbn [KernelType_is_compute KernelType_eqb orb] in E1, E2. cbn [obind] in E2. injection E2 as <-.
      match type of E1 with obind (obind ?x _) _ = _ => destruct x as [d|] end; cbn [obind] in E1; [|discriminate].
      injection E1 as <-. cbn [fst snd]. repeat split. apply SubL_drop_all.
  - injection E2 as <-. injection E1 as <-. unfold BucketOutput_next_output.
    destruct io; cbn; repeat split; constructor.
Qed.

Create HintDb wp2db.
#[export] Hint Resolve wp2_next_output_EA : wp2db.

Ltac destruct_rel :=
  cbn [fst snd] in *;
  repeat match goal with
         | H : rel _ _ |- _ => unfold rel, rel_prod, rel_default, rel_sb_i, rel_stmt_i in H; cbn [fst snd] in H
         | H : _ /\ _ |- _ => destruct H
         | H : ?a = ?b |- _ => first [subst a | subst b]
         end; cbn [fst snd] in *.

Ltac rel_solve :=
  cbn [fst snd] in *;
  lazymatch goal with
  | |- _ /\ _ => split; rel_solve
  | |- ?a = ?a => reflexivity
  | |- @rel _ _ _ _ => unfold rel, rel_prod, rel_default, rel_sb_i, rel_stmt_i, rel_leaves; rel_solve
  | |- rel_sb (sb_append_stmt _ _) (sb_append_stmt _ _) => apply rel_append_stmt; rel_solve
  | |- rel_sb (sb_append_sb _ _) (sb_append_sb _ _) =>
      apply rel_append_sb; [ rel_solve | first [ assumption | apply SubL_refl | apply rel_sb_app_of; rel_solve ] ]
  | |- rel_sb (sb_close_branch _ _ _) (sb_close_branch _ _ _) => apply rel_close_branch; rel_solve
  | |- rel_sb (sb_close_loop _ _ _) (sb_close_loop _ _ _) => apply rel_close_loop; rel_solve
  | |- rel_sb (sb_close_block _ _ _) (sb_close_block _ _ _) => apply rel_close_block; rel_solve
  | |- rel_sb ?s ?s => apply rel_sb_refl
  | |- rel_sb _ _ => assumption
  | |- Sub (sb_finalize _) (sb_finalize _) => apply rel_finalize; rel_solve
  | |- Sub (Branch_join _) (Branch_join _) => apply sub_branch_join; assumption
  | |- Sub ?s ?s => apply Sub_refl
  | |- Sub _ _ => assumption
  | |- Forall2 _ (_ ++ [_])%list (_ ++ [_])%list => apply Forall2_app; [assumption | constructor; [rel_solve | constructor]]
  | |- Forall2 _ [] [] => constructor
  | |- Forall2 _ _ _ => assumption
  | |- _ => first [assumption | reflexivity | idtac]
  end.

Ltac w2 :=
  cbv beta;
  lazymatch goal with
  | |- wp2 (Some _) (Some _) _ => apply wp2_some; rel_solve
  | |- wp2 None _ _ => intros ? ? ? ?; discriminate
  | |- wp2 ?x ?x (@rel _ _) => apply wp2_refl; intros; rel_solve
  | |- wp2 (match ?x with Some _ => _ | None => _ end) (match ?x with Some _ => _ | None => _ end) _ => destruct x; w2
  | |- wp2 (if ?c then _ else _) (if ?c then _ else _) _ => destruct c; w2
  | |- wp2 (let '(_, _) := ?p in _) (let '(_, _) := ?p in _) _ => destruct p; w2
  | |- wp2 (let '(_, _) := ?p in _) (let '(_, _) := ?q in _) _ => destruct p; destruct q; destruct_rel; w2
  | |- wp2 (ofold _ ?l _) (ofold _ ?l _) _ =>
      apply wp2_ofold; [ let acc := fresh "acc" in let acc' := fresh "acc'" in let x := fresh "x" in let Ha := fresh "Ha" in
                         intros acc acc' x Ha; destruct_rel; w2
                       | rel_solve ]
  | |- wp2 (obind ?x ?f) (obind ?y ?g) _ =>
      first [ eapply wp2_bind; [ solve [eauto 2 with wp2db]
                               | let a := fresh "a" in let b := fresh "b" in let Hab := fresh "Hab" in
                                 intros a b Hab; cbn beta in Hab; destruct_rel; w2 ]
            | apply wp2_bind_rel; [ first [ solve [apply wp2_same] | solve [apply wp2_refl; intros; rel_solve] | w2 ]
                                  | let a := fresh "a" in let b := fresh "b" in let Hab := fresh "Hab" in
                                    intros a b Hab; destruct_rel; w2 ] ]
  | |- _ => idtac
  end.

Lemma sum_EA rec_ self o :
  (forall g o', wp2 (rec_ g o' KernelType_evaluate) (rec_ g o' KernelType_assemble) rel_sb) ->
  wp2 (to_ir_sum rec_ self o KernelType_evaluate) (to_ir_sum rec_ self o KernelType_assemble) rel_sb.
Proof.
  intros IH. destruct (Output_has_sparse_layer o) eqn:Hs.
  - unfold to_ir_sum. destruct self; try solve [intros ? ? ?; discriminate].
    cbv zeta. cbn [KernelType_is_compute KernelType_is_assemble KernelType_eqb orb andb negb]. rewrite Hs. cbn [orb].
    w2.
  - intros r1 r2 E1 E2. pose proof (sum_comment _ _ _ _ _ E1) as C1.
    unfold to_ir_sum in E2. destruct self; try discriminate.
    cbn [KernelType_is_compute KernelType_eqb orb] in E2. rewrite Hs in E2. cbn in E2. injection E2 as <-.
    split; [exact C1 | apply SubL_drop_all].
Qed.

Lemma terminal_EA self o :
  wp2 (to_ir_terminal_expression self o KernelType_evaluate) (to_ir_terminal_expression self o KernelType_assemble) rel_sb.
Proof.
  unfold to_ir_terminal_expression. destruct self; try solve [intros ? ? ?; discriminate].
  cbv zeta. cbn [KernelType_is_compute KernelType_is_assemble KernelType_eqb orb andb negb].
  apply wp2_bind_rel; [apply wp2_refl; intros; apply rel_sb_refl|].
  intros s1 s2 Hs. cbv beta.
  intros r1 r2 E1 E2. cbn [obind] in E2. injection E2 as <-.
  match type of E1 with obind (obind ?x _) _ = _ => destruct x as [t|] end; cbn [obind] in E1; [|discriminate].
  injection E1 as <-. apply rel_append_sb_left. exact Hs.
Qed.

Lemma iteration_EA fuel rec_ iv out nxt o :
  (forall g o', wp2 (rec_ g o' KernelType_evaluate) (rec_ g o' KernelType_assemble) rel_sb) ->
  wp2 (to_ir_iteration_variable fuel rec_ (IgIterationNode iv out nxt) o KernelType_evaluate)
      (to_ir_iteration_variable fuel rec_ (IgIterationNode iv out nxt) o KernelType_assemble) rel_sb.
Proof.
  intros IH. destruct (Output_has_sparse_layer o) eqn:Hs.
  - unfold to_ir_iteration_variable.
    cbv zeta. cbn [KernelType_is_compute KernelType_is_assemble KernelType_eqb orb andb negb]. rewrite Hs. cbn [negb].
    w2.
  - intros r1 r2 E1 E2. pose proof (iteration_comment _ _ _ _ _ _ _ _ E1) as C1.
    unfold to_ir_iteration_variable in E2. destruct (conv_olayer out); cbn [obind] in E2; [|discriminate].
    cbn [KernelType_is_compute KernelType_eqb orb negb andb] in E2. rewrite Hs in E2. cbn in E2. injection E2 as <-.
    split; [exact C1 | apply SubL_drop_all].
Qed.

Theorem family_EA fuel n : forall g o,
  wp2 (to_ir_iteration_graph fuel n g o KernelType_evaluate) (to_ir_iteration_graph fuel n g o KernelType_assemble) rel_sb.
Proof.
  induction n as [|n IH]; intros g o; cbn [to_ir_iteration_graph]; [intros ? ? ?; discriminate|].
  destruct g.
  - apply terminal_EA.
  - apply iteration_EA. intros g' o'. apply IH.
  - apply sum_EA. intros g' o'. apply IH.
Qed.
#[export] Hint Resolve family_EA : wp2db.

(** [aligned fe fk]: same parameters, same return type, the body of fk is the body of fe with statements dropped *)
Definition aligned (fe fk : function_definition) : Prop :=
  match fe, fk with
  | FunctionDefinition _ ps t be, FunctionDefinition _ qs t' bk => ps = qs /\ t = t' /\ Sub be bk
  end.

Lemma decl_EA cap o : AppendOutput_write_declarations cap o KernelType_evaluate = AppendOutput_write_declarations cap o KernelType_assemble.
Proof. reflexivity. Qed.
Lemma cleanup_EA o : AppendOutput_write_cleanup o KernelType_evaluate = AppendOutput_write_cleanup o KernelType_assemble.
Proof. reflexivity. Qed.

Theorem gen_assemble_aligned_fuel cap fuel d g :
  wp2 (generate_ir_fuel cap fuel d g KernelType_evaluate) (generate_ir_fuel cap fuel d g KernelType_assemble) aligned.
Proof.
  unfold generate_ir_fuel. cbv zeta. 
  w2.
  unfold aligned. split; [reflexivity | split; [reflexivity | rel_solve]].
Qed.

(** (c, assemble) on the entry point: for EVERY definition and EVERY graph the assemble kernel is the evaluate kernel with
    statements dropped *)
Theorem gen_assemble_aligned cap d g fe fa :
  generate_ir cap d g GlueGen.KernelType_evaluate = Some fe ->
  generate_ir cap d g GlueGen.KernelType_assemble = Some fa -> aligned fe fa.
Proof. unfold generate_ir. cbn [conv_kernel_type]. apply gen_assemble_aligned_fuel. Qed.

(** * 7. alignment of the compute kernel with the evaluate kernel *)

Lemma ofold_pres {A B C} (f : B -> A -> option B) (g : B -> C) l :
  (forall acc x acc', f acc x = Some acc' -> g acc' = g acc) -> forall i r, ofold f l i = Some r -> g r = g i.
Proof.
  intros H. induction l as [|x l IH]; intros i r E; cbn in E.
  - injection E as <-. reflexivity.
  - destruct (f i x) as [a|] eqn:Ef; [|discriminate]. rewrite (IH a r E). eauto.
Qed.

Ltac inv_opt :=
  repeat match goal with
         | H : Some _ = Some _ |- _ => injection H as H; try subst
         | H : None = Some _ |- _ => discriminate H
         | H : obind ?x _ = Some _ |- _ => let E := fresh "E" in destruct x eqn:E; cbn [obind] in H; [|discriminate H]
         | H : (if ?c then _ else _) = Some _ |- _ => destruct c
         | H : (let '(_, _) := ?p in _) = Some _ |- _ => destruct p
         | H : (_, _) = (_, _) |- _ => injection H as H; try subst
         end.

Lemma decl_comment cap o k r : AppendOutput_write_declarations cap o k = Some r -> sb_comment r = Some "Output initialization"%string.
Proof.
  unfold AppendOutput_write_declarations. cbv zeta. intros E.
  match type of E with obind (ofold ?F ?l ?i) _ = _ => destruct (ofold F l i) as [[s ad]|] eqn:Ef; cbn [obind] in E; [|discriminate];
    assert (C : sb_comment s = Some "Output initialization"%string) end.
  { change s with (fst (s, ad)). erewrite (ofold_pres _ (fun acc => sb_comment (fst acc))); [| |exact Ef]; [reflexivity|].
    intros [s0 ad0] [i m] [s1 ad1] H. cbv beta in H. cbn [fst]. inv_opt; cbn [fst]; subst;
      rewrite ?comment_append_stmt; try reflexivity; try congruence. }
  inv_opt; rewrite ?comment_append_stmt; congruence.
Qed.

Lemma cleanup_comment o k r : AppendOutput_write_cleanup o k = Some r -> sb_comment r <> None.
Proof.
  unfold AppendOutput_write_cleanup. cbv zeta. intros E.
  destruct (KernelType_is_assemble k); [|inv_opt; cbn; congruence].
  cbn [obind] in E.
  match type of E with obind (obind (ofold ?F ?l ?i) _) _ = _ => destruct (ofold F l i) as [[[[ps pd] s] ad]|] eqn:Ef; cbn [obind] in E; [|discriminate];
    assert (C : sb_comment s <> None) end.
  { change s with (snd (fst (ps, pd, s, ad))).
    erewrite (ofold_pres _ (fun acc => sb_comment (snd (fst acc)))); [| |exact Ef]; [cbn; congruence|].
    intros [[[a0 b0] s0] ad0] [i m] [[[a1 b1] s1] ad1] H. cbv beta in H. cbn [fst snd]. inv_opt; cbn [fst snd]; subst;
      rewrite ?comment_append_stmt; try reflexivity; try congruence. }
  inv_opt; rewrite ?comment_append_stmt; congruence.
Qed.

Lemma SubL_drop_prefix p x y : SubL x y -> SubL (p ++ x) y.
Proof. induction p; cbn; auto. intros H. apply SubL_drop. auto. Qed.

Lemma decl_layers_sub cap t : forall modes i ad l ad',
  GenAppend_decl.decl_layers cap t i modes ad = Some (l, ad') ->
  SubL l (GenAppend_decl.compressed_ptr_decls (Tensor_id t) i modes).
Proof.
  induction modes as [|m modes IH]; intros i ad l ad' E; cbn in E.
  - injection E as <- _. constructor.
  - destruct m; cbn.
    + eapply IH; eauto.
    + inv_opt. do 5 apply SubL_drop. apply SubL_keep; [apply Sub_refl|]. eapply IH; eauto.
Qed.

Lemma decl_EC cap o :
  wp2 (AppendOutput_write_declarations cap o KernelType_evaluate) (AppendOutput_write_declarations cap o KernelType_compute)
      (fun a b => SubL (app_of a) (app_of b)).
Proof.
  intros a b Ea Eb. pose proof (decl_comment _ _ _ _ Ea) as Ca. pose proof (decl_comment _ _ _ _ Eb) as Cb.
  unfold app_of. rewrite Ca, Cb. constructor; [|constructor]. apply Sub_block.
  pose proof (GenAppend_decl.gen_declarations_all cap o KernelType_evaluate eq_refl) as SE. cbv zeta in SE. rewrite Ea in SE. cbn [option_map] in SE.
  pose proof (GenAppend_decl.gen_declarations_compute_all cap o) as SC. rewrite Eb in SC. cbn [option_map] in SC. injection SC as ->.
  symmetry in SE. destruct (GenAppend_decl.decl_layers cap (AppendOutput_output o) 0 (Tensor_modes (AppendOutput_output o)) true) as [[l ad]|] eqn:El; cbn [obind] in SE; [|discriminate].
  injection SE as <-. apply SubL_app_left. eapply decl_layers_sub; eauto.
Qed.

Lemma cleanup_EC o :
  wp2 (AppendOutput_write_cleanup o KernelType_evaluate) (AppendOutput_write_cleanup o KernelType_compute)
      (fun a b => SubL (app_of a) (app_of b)).
Proof.
  intros a b Ea Eb. pose proof (cleanup_comment _ _ _ Ea) as Ca.
  rewrite GenAppend_equiv.gen_cleanup_compute in Eb. injection Eb as <-.
  unfold app_of. destruct (sb_comment a); [|congruence]. cbn. constructor; [|constructor]. apply Sub_block. apply SubL_drop_all.
Qed.

Lemma wp2_right_false {A} (x : option A) : wp2 x (Some false) (fun _ b => b = false).
Proof. intros a b _ E. injection E as <-. reflexivity. Qed.
#[export] Hint Resolve wp2_right_false decl_EC cleanup_EC : wp2db.

Ltac w2c :=
  cbv beta iota;
  lazymatch goal with
  | |- wp2 (Some (sb_append_sb ?s _)) (Some ?s') (@rel sb _) => apply wp2_some; first [ solve [rel_solve] | apply rel_append_sb_left; rel_solve ]
  | |- wp2 (Some _) (Some _) _ => apply wp2_some; rel_solve
  | |- wp2 None _ _ => intros ? ? ? ?; discriminate
  | |- wp2 ?x ?x (@rel _ _) => apply wp2_refl; intros; rel_solve
  | |- wp2 (match ?x with Some _ => _ | None => _ end) (match ?x with Some _ => _ | None => _ end) _ => destruct x; w2c
  | |- wp2 (if ?c then _ else _) (if ?c then _ else _) _ => destruct c; w2c
  | |- wp2 (if ?c then _ else _) (Some _) _ => destruct c; w2c
  | |- wp2 (let '(_, _) := ?p in _) (let '(_, _) := ?p in _) _ => destruct p; w2c
  | |- wp2 (let '(_, _) := ?p in _) (let '(_, _) := ?q in _) _ => destruct p; destruct q; destruct_rel; w2c
  | |- wp2 (ofold _ ?l _) (ofold _ ?l _) _ =>
      apply wp2_ofold; [ let acc := fresh "acc" in let acc' := fresh "acc'" in let x := fresh "x" in let Ha := fresh "Ha" in
                         intros acc acc' x Ha; destruct_rel; w2c
                       | rel_solve ]
  | |- wp2 (obind ?x ?f) (obind ?y ?g) _ =>
      first [ eapply wp2_bind; [ solve [eauto 2 with wp2db]
                               | let a := fresh "a" in let b := fresh "b" in let Hab := fresh "Hab" in
                                 intros a b Hab; cbn beta in Hab; destruct_rel; w2c ]
            | apply wp2_bind_rel; [ first [ solve [apply wp2_same] | solve [apply wp2_refl; intros; rel_solve] | w2c ]
                                  | let a := fresh "a" in let b := fresh "b" in let Hab := fresh "Hab" in
                                    intros a b Hab; destruct_rel; w2c ] ]
  | |- wp2 (obind ?x ?f) (Some _) _ => apply wp2_left; intros ?; w2c
  | |- _ => idtac
  end.

Lemma next_output_EC o io : Output_next_output o io KernelType_evaluate = Output_next_output o io KernelType_compute.
Proof. destruct o; reflexivity. Qed.

Lemma terminal_EC self o : to_ir_terminal_expression self o KernelType_evaluate = to_ir_terminal_expression self o KernelType_compute.
Proof. reflexivity. Qed.

Lemma sum_EC rec_ self o :
  (forall g o', wp2 (rec_ g o' KernelType_evaluate) (rec_ g o' KernelType_compute) rel_sb) ->
  wp2 (to_ir_sum rec_ self o KernelType_evaluate) (to_ir_sum rec_ self o KernelType_compute) rel_sb.
Proof.
  intros IH. unfold to_ir_sum. destruct self; try solve [intros ? ? ?; discriminate].
  cbv zeta. cbn [KernelType_is_compute KernelType_is_assemble KernelType_eqb orb andb negb]. rewrite next_output_EC.
  w2c.
Qed.

Lemma iteration_EC fuel rec_ iv out nxt o :
  (forall g o', wp2 (rec_ g o' KernelType_evaluate) (rec_ g o' KernelType_compute) rel_sb) ->
  wp2 (to_ir_iteration_variable fuel rec_ (IgIterationNode iv out nxt) o KernelType_evaluate)
      (to_ir_iteration_variable fuel rec_ (IgIterationNode iv out nxt) o KernelType_compute) rel_sb.
Proof.
  intros IH. unfold to_ir_iteration_variable.
  cbv zeta. cbn [KernelType_is_compute KernelType_is_assemble KernelType_eqb orb andb negb].
  w2c.
Qed.

Theorem family_EC fuel n : forall g o,
  wp2 (to_ir_iteration_graph fuel n g o KernelType_evaluate) (to_ir_iteration_graph fuel n g o KernelType_compute) rel_sb.
Proof.
  induction n as [|n IH]; intros g o; cbn [to_ir_iteration_graph]; [intros ? ? ?; discriminate|].
  destruct g.
  - rewrite terminal_EC. apply wp2_refl. intros; apply rel_sb_refl.
  - apply iteration_EC. intros g' o'. apply IH.
  - apply sum_EC. intros g' o'. apply IH.
Qed.
#[export] Hint Resolve family_EC : wp2db.

Theorem gen_compute_aligned_fuel cap fuel d g :
  wp2 (generate_ir_fuel cap fuel d g KernelType_evaluate) (generate_ir_fuel cap fuel d g KernelType_compute) aligned.
Proof.
  unfold generate_ir_fuel. cbv zeta.
  w2c.
  unfold aligned. split; [reflexivity | split; [reflexivity | rel_solve]].
Qed.

(** (c, compute) on the entry point *)
Theorem gen_compute_aligned cap d g fe fc :
  generate_ir cap d g GlueGen.KernelType_evaluate = Some fe ->
  generate_ir cap d g GlueGen.KernelType_compute = Some fc -> aligned fe fc.
Proof. unfold generate_ir. cbn [conv_kernel_type]. apply gen_compute_aligned_fuel. Qed.

(** [Sub] is not vacuous: it relates only statements of the same shape (or an empty block on the right) *)
Example sub_not_everything : ~ Sub (Return (IntegerLiteral 0)) (Return (IntegerLiteral 1)).
Proof. intros H. inversion H. Qed.

(** * 8. every atom the generator emits is an Assignment, a DeclarationAssignment (Declaration ...) or a Return
      (what Certs3Defs.atom_same needs of a kept statement) -- all kernel kinds *)

Fixpoint wfS (s : stmt) : bool :=
  match s with
  | Assignment _ _ => true
  | DeclarationAssignment (Declaration _ _) _ => true
  | Return _ => true
  | Block l _ => forallb wfS l
  | Branch _ a b => wfS a && wfS b
  | Loop _ a => wfS a
  | _ => false
  end.

Class GoodW (T : Type) := goodw : T -> Prop.
#[export] Instance goodw_sb : GoodW sb := fun b => forallb wfS (sb_lines b) = true.
#[export] Instance goodw_stmt : GoodW stmt := fun s => wfS s = true.
#[export] Instance goodw_list {T} `{GoodW T} : GoodW (list T) := fun l => Forall goodw l.
#[export] Instance goodw_prod {A B} `{GoodW A} `{GoodW B} : GoodW (A * B) := fun p => goodw (fst p) /\ goodw (snd p).
#[export] Instance goodw_option {T} `{GoodW T} : GoodW (option T) := fun o => match o with Some x => goodw x | None => True end.
#[export] Instance goodw_default {T} : GoodW T | 100 := fun _ => True.

Lemma wp_bind_goodw {A B} `{GoodW A} (x : option A) (f : A -> option B) (Q : B -> Prop) :
  wp x goodw -> (forall v, goodw v -> wp (f v) Q) -> wp (obind x f) Q.
Proof. apply wp_bind. Qed.
Lemma wp_of_goodw {T} `{GoodW T} (o : option T) : goodw o -> wp o goodw.
Proof. intros Ho r E. subst o. exact Ho. Qed.

Lemma gw_nil c : goodw (MkSB [] c). Proof. reflexivity. Qed.
Lemma gw_append_stmt (s : sb) x : goodw s -> wfS x = true -> goodw (sb_append_stmt s x).
Proof. unfold goodw, goodw_sb, sb_append_stmt. cbn. intros H Hx. rewrite forallb_app, H. cbn. rewrite Hx. reflexivity. Qed.
Lemma gw_finalize (s : sb) : goodw s -> wfS (sb_finalize s) = true.
Proof. intros H. exact H. Qed.
Lemma gw_append_sb (s x : sb) : goodw s -> goodw x -> goodw (sb_append_sb s x).
Proof.
  unfold sb_append_sb. intros Hs Hx. destruct (sb_comment x).
  - apply (gw_append_stmt s _ Hs). exact Hx.
  - unfold goodw, goodw_sb in *. cbn. rewrite forallb_app, Hs, Hx. reflexivity.
Qed.
Lemma gw_close_branch (o : sb) c (i : sb) : goodw o -> goodw i -> goodw (sb_close_branch o c i).
Proof. intros Ho Hi. apply gw_append_stmt; auto. cbn. unfold goodw, goodw_sb in Hi. rewrite Hi. reflexivity. Qed.
Lemma gw_close_loop (o : sb) c (i : sb) : goodw o -> goodw i -> goodw (sb_close_loop o c i).
Proof. intros Ho Hi. apply gw_append_stmt; auto. Qed.
Lemma gw_close_block (o : sb) c (i : sb) : goodw o -> goodw i -> goodw (sb_close_block o c i).
Proof. intros Ho Hi. apply gw_append_stmt; auto. Qed.

Lemma wfS_branch_join (l : list (expr * stmt)) :
  goodw l -> wfS (Branch_join (map (fun '(c0_, c1_) => (XE c0_, c1_)) l)) = true.
Proof.
  intros Hl. unfold Branch_join. rewrite <- map_rev.
  assert (Hr : Forall goodw (rev l)) by (apply Forall_rev; exact Hl).
  revert Hr. generalize (rev l) as xs. intros xs Hxs.
  assert (G : forall acc, wfS acc = true ->
              wfS (fold_left (fun previous (leaf : exarg * stmt) =>
                                Branch (to_expression (let '(p_, _) := leaf in p_)) (let '(_, p_) := leaf in p_) previous)
                             (map (fun '(c0_, c1_) => (XE c0_, c1_)) xs) acc) = true).
  { induction Hxs as [|[c b] xs [_ Hb] Hxs IH]; intros acc Ha; cbn [map fold_left]; auto.
    apply IH. cbn [fst snd] in Hb. unfold goodw, goodw_stmt in Hb. cbn [wfS]. rewrite Hb, Ha. reflexivity. }
  apply G. reflexivity.
Qed.

Ltac gw_stmt := unfold goodw, goodw_stmt in *; first [ reflexivity | assumption | apply wfS_branch_join; assumption | idtac ].

Ltac gw_solve :=
  cbn [fst snd] in *;
  lazymatch goal with
  | |- goodw (sb_append_stmt _ _) => apply gw_append_stmt; [gw_solve | gw_stmt]
  | |- goodw (sb_append_sb _ _) => apply gw_append_sb; gw_solve
  | |- goodw (sb_close_branch _ _ _) => apply gw_close_branch; gw_solve
  | |- goodw (sb_close_loop _ _ _) => apply gw_close_loop; gw_solve
  | |- goodw (sb_close_block _ _ _) => apply gw_close_block; gw_solve
  | |- goodw (MkSB [] _) => reflexivity
  | |- goodw (write_sparse_initialization _) => reflexivity
  | |- goodw (write_pos_assembly _) => reflexivity
  | |- goodw (_, _) => split; gw_solve
  | |- goodw_prod (_, _) => split; gw_solve
  | |- goodw (Some _) => unfold goodw, goodw_option; gw_solve
  | |- goodw (@None _) => exact I
  | |- @goodw (list _) _ (_ ++ [_])%list => apply Forall_app; split; [assumption | constructor; [gw_solve | constructor]]
  | |- @goodw (list _) _ [] => constructor
  | |- @goodw (list _) _ _ => first [assumption | solve [apply Forall_forall; intros ? _; gw_solve] | idtac]
  | |- @goodw stmt _ (sb_finalize _) => apply gw_finalize; gw_solve
  | |- @goodw stmt _ _ => gw_stmt
  | |- _ => first [ assumption | exact I | solve [repeat split; exact I]
                  | solve [unfold goodw, goodw_option, goodw_prod, goodw_default;
                           repeat match goal with |- context [match ?x with _ => _ end] => destruct x end;
                           repeat split; exact I]
                  | idtac ]
  end.

Ltac destruct_gw :=
  repeat match goal with
         | H : @goodw (_ * _) _ _ |- _ => destruct H
         | H : goodw_prod _ |- _ => destruct H
         end; cbn [fst snd] in *.

Create HintDb wpwdb.

Ltac ww_go :=
  cbv beta;
  lazymatch goal with
  | |- wp (Some _) _ => apply wp_some; ww_post
  | |- wp None _ => apply wp_none
  | |- wp (match ?x with Some _ => _ | None => _ end) _ => first [apply wp_if | destruct x; destruct_gw]; ww_go
  | |- wp (if ?c then _ else _) _ => first [apply wp_if | destruct c; destruct_gw]; ww_go
  | |- wp (let '(_, _) := ?p in _) _ => destruct p; destruct_gw; ww_go
  | |- wp (ofold _ _ _) _ =>
      apply wp_ofold; [ let acc := fresh "acc" in let x := fresh "x" in let Ha := fresh "Ha" in
                        intros acc x Ha; ww_go
                      | gw_solve ]
  | |- wp (obind ?x ?f) _ =>
      apply wp_bind_goodw;
      [ first [ solve [eauto 3 with wpwdb] | ww_go ]
      | let v := fresh "v" in let Hv := fresh "Hv" in intros v Hv; ww_go ]
  | |- wp _ goodw => first [ solve [eauto 3 with wpwdb] | solve [apply wp_of_goodw; assumption] | solve [intros ? ?; gw_solve] | idtac ]
  | |- _ => idtac
  end
with ww_post :=
  lazymatch goal with
  | |- wp _ _ => ww_go
  | |- goodw _ => destruct_gw; gw_solve
  | |- _ => idtac
  end.

(** leaves: what gen/AppendGen.v contributes, every kernel kind *)
Lemma ww_crd_assembly tl : wp (write_crd_assembly tl) goodw.
Proof. unfold write_crd_assembly. cbv zeta. ww_go. Qed.
Lemma ww_pos_allocation tl : wp (write_pos_allocation tl) goodw.
Proof. unfold write_pos_allocation. cbv zeta. ww_go. Qed.

Lemma ww_bucket_declarations b rhs : wp (BucketOutput_write_declarations b rhs) goodw.
Proof. unfold BucketOutput_write_declarations. cbv zeta. ww_go. Qed.
Lemma ww_bucket_assignment b rhs k : wp (BucketOutput_write_assignment b rhs k) goodw.
Proof. unfold BucketOutput_write_assignment. cbv zeta. ww_go. Qed.
#[export] Hint Resolve ww_crd_assembly ww_pos_allocation ww_bucket_declarations ww_bucket_assignment : wpwdb.
Lemma ww_next_output o io k : wp (Output_next_output o io k) goodw.
Proof.
  destruct o as [a|b]; cbn [Output_next_output].
  - unfold AppendOutput_next_output. cbv zeta. ww_go.
  - apply wp_some. unfold BucketOutput_next_output. destruct io; repeat split.
Qed.
Lemma ww_write_assignment o rhs k : wp (Output_write_assignment o rhs k) goodw.
Proof.
  destruct o as [a|b]; cbn [Output_write_assignment]; [|apply ww_bucket_assignment].
  unfold AppendOutput_write_assignment. cbv zeta. ww_go.
Qed.
Lemma ww_declarations cap o k : wp (AppendOutput_write_declarations cap o k) goodw.
Proof. unfold AppendOutput_write_declarations. cbv zeta. ww_go. Qed.
Lemma ww_cleanup o k : wp (AppendOutput_write_cleanup o k) goodw.
Proof. unfold AppendOutput_write_cleanup. cbv zeta. ww_go. Qed.
#[export] Hint Resolve ww_next_output ww_write_assignment ww_declarations ww_cleanup : wpwdb.

Lemma terminal_wf self o k : wp (to_ir_terminal_expression self o k) goodw.
Proof. unfold to_ir_terminal_expression. destruct self; try solve [apply wp_none]. cbv zeta. ww_go. Qed.
Lemma sum_wf rec_ self o k : (forall g o', wp (rec_ g o' k) goodw) -> wp (to_ir_sum rec_ self o k) goodw.
Proof. intros IH. unfold to_ir_sum. destruct self; try solve [apply wp_none]. cbv zeta. ww_go. Qed.
Lemma iteration_wf fuel rec_ self o k : (forall g o', wp (rec_ g o' k) goodw) -> wp (to_ir_iteration_variable fuel rec_ self o k) goodw.
Proof. intros IH. unfold to_ir_iteration_variable. destruct self; try solve [apply wp_none]. cbv zeta. ww_go. Qed.
Theorem family_wf fuel k n : forall g o, wp (to_ir_iteration_graph fuel n g o k) goodw.
Proof.
  induction n as [|n IH]; intros g o; cbn [to_ir_iteration_graph]; [apply wp_none|].
  destruct g; [apply terminal_wf | apply iteration_wf; intros; apply IH | apply sum_wf; intros; apply IH].
Qed.
#[export] Hint Resolve family_wf : wpwdb.

Definition fd_body (f : function_definition) : stmt := match f with FunctionDefinition _ _ _ b => b end.
Definition fd_params (f : function_definition) : list stmt := match f with FunctionDefinition _ ps _ _ => ps end.

Definition param_form (p : stmt) : bool := match p with Declaration (Var _) (TPointer TTensor) => true | _ => false end.

Theorem gen_atoms_wf_fuel cap fuel d g k :
  wp (generate_ir_fuel cap fuel d g k) (fun f => wfS (fd_body f) = true /\ forallb param_form (fd_params f) = true).
Proof.
  unfold generate_ir_fuel. cbv zeta. ww_go.
  cbn [fd_body fd_params]. split.
  - apply (gw_finalize _). gw_solve.
  - apply forallb_forall. intros p Hp. apply in_map_iff in Hp as (n & <- & _). reflexivity.
Qed.

(** * 9. the bridge: [Sub sE sK] + well-formed atoms  =>  Certs3Defs.align with trivial side conditions succeeds *)
Import Certs3Defs.

Lemma ty_same_refl t : ty_same t t = true.
Proof. induction t; cbn; auto. rewrite IHt, Z.eqb_refl. reflexivity. Qed.
Lemma sf_same_refl x : sf_same x x = true.
Proof. destruct x; cbn; rewrite ?Bool.eqb_reflx, ?Pos.eqb_refl, ?Z.eqb_refl; reflexivity. Qed.
Lemma expr_same_refl e : expr_same e e = true.
Proof.
  induction e; cbn; rewrite ?IHe, ?IHe1, ?IHe2, ?IHe3, ?String.eqb_refl, ?Z.eqb_refl, ?Bool.eqb_reflx, ?sf_same_refl, ?ty_same_refl; reflexivity.
Qed.

Definition align0 : stmt -> stmt -> option unit :=
  align unit (fun _ _ => true) (fun _ => true) (fun _ _ => Some tt) (fun _ _ => Some tt) tt.
Definition drop0 : stmt -> option unit :=
  drop unit (fun _ _ => true) (fun _ _ => Some tt) tt.

Lemma drop0_total : forall s, drop0 s = Some tt.
Proof.
  unfold drop0. fix IH 1. intros s. destruct s; try reflexivity.
  - cbn [drop]. induction statements as [|x r IHr]; [reflexivity|].
    rewrite (IH x). exact IHr.
  - cbn [drop]. rewrite (IH s1), (IH s2). reflexivity.
  - cbn [drop]. rewrite (IH s). reflexivity.
Qed.

(** the list alignment inside [align] on blocks *)
Fixpoint alL (l k : list stmt) {struct l} : option unit :=
  match l with
  | [] => match k with [] => Some tt | _ => None end
  | e :: l' =>
      orelse unit
        (match k with
         | [] => None
         | k1 :: k' => match align0 e k1 with Some _ => alL l' k' | None => None end
         end)
        (match drop0 e with Some _ => alL l' k | None => None end)
  end.

Lemma align0_block l c k c' :
  align0 (Block l c) (Block k c') = orelse unit (alL l k) (if is_empty_block (Block k c') then drop0 (Block l c) else None).
Proof.
  unfold align0 at 1. cbn [align].
  match goal with |- orelse _ (?F l k tt) _ = _ => assert (H : forall l k, F l k tt = alL l k) end.
  { clear. match goal with |- forall l k, ?F l k tt = _ => set (al := F) end.
    induction l as [|e l IH]; intros k; [destruct k; reflexivity|].
    change (al (e :: l) k tt) with
      (orelse unit
         (match k with
          | [] => None
          | k1 :: k' => match align unit (fun _ _ => true) (fun _ => true) (fun _ _ => Some tt) (fun _ _ => Some tt) tt e k1 with
                        | Some ph' => al l k' ph' | None => None end
          end)
         (match drop unit (fun _ _ => true) (fun _ _ => Some tt) tt e with Some ph' => al l k ph' | None => None end)).
    cbn [alL]. unfold align0, drop0.
    destruct k as [|k1 k'].
    - destruct (drop unit _ _ tt e) as [[]|]; [rewrite IH|]; reflexivity.
    - destruct (align unit _ _ _ _ tt e k1) as [[]|]; destruct (drop unit _ _ tt e) as [[]|]; rewrite ?IH; reflexivity. }
  rewrite H. reflexivity.
Qed.

Lemma orelse_some (b : option unit) : orelse unit (Some tt) b = Some tt. Proof. reflexivity. Qed.
Lemma opt_unit (o : option unit) : o = Some tt \/ o = None. Proof. destruct o as [[]|]; auto. Qed.

Lemma align0_refl : forall s, wfS s = true -> align0 s s = Some tt.
Proof.
  fix IH 1. intros s W. destruct s; try discriminate W.
  - unfold align0. cbn. rewrite !expr_same_refl. reflexivity.
  - destruct s; try discriminate W. unfold align0. cbn. rewrite !expr_same_refl, ty_same_refl. reflexivity.
  - rewrite align0_block. cbn [wfS] in W.
    assert (A : alL statements statements = Some tt).
    { induction statements as [|x r IHr]; [reflexivity|]. cbn [forallb] in W. apply andb_true_iff in W as [Wx Wr].
      cbn [alL]. rewrite (IH x Wx), (IHr Wr). reflexivity. }
    rewrite A. reflexivity.
  - cbn [wfS] in W. apply andb_true_iff in W as [W1 W2]. unfold align0. cbn [align]. rewrite expr_same_refl. cbn [andb].
    fold (align0 s1 s1). fold (align0 s2 s2). rewrite (IH s1 W1), (IH s2 W2). reflexivity.
  - cbn [wfS] in W. unfold align0. cbn [align]. rewrite expr_same_refl. cbn [andb].
    fold (align0 s s). rewrite (IH s W). reflexivity.
  - unfold align0. cbn. rewrite expr_same_refl. reflexivity.
Qed.

Scheme Sub_mind := Induction for Sub Sort Prop
  with SubL_mind := Induction for SubL Sort Prop.

Theorem sub_align0 : forall sE sK, Sub sE sK -> wfS sE = true -> align0 sE sK = Some tt.
Proof.
  apply (Sub_mind (fun sE sK _ => wfS sE = true -> align0 sE sK = Some tt)
                  (fun l k _ => forallb wfS l = true -> alL l k = Some tt)).
  - intros s W. apply align0_refl; auto.
  - intros ss c ss' c' _ IH W. rewrite align0_block. rewrite (IH W). reflexivity.
  - intros c a b a' b' _ IHa _ IHb W. cbn [wfS] in W. apply andb_true_iff in W as [W1 W2].
    unfold align0. cbn [align]. rewrite expr_same_refl. cbn [andb].
    fold (align0 a a'). fold (align0 b b'). rewrite (IHa W1), (IHb W2). reflexivity.
  - intros c a a' _ IHa W. cbn [wfS] in W. unfold align0. cbn [align]. rewrite expr_same_refl. cbn [andb].
    fold (align0 a a'). rewrite (IHa W). reflexivity.
  - intros s c W. unfold align0.
    destruct s; cbn [align is_empty_block]; fold drop0;
      try (rewrite drop0_total; match goal with |- orelse _ ?x _ = _ => destruct (opt_unit x) as [-> | ->]; reflexivity end).
  - intros _. reflexivity.
  - intros e k l l' _ IHe _ IHl W. cbn [forallb] in W. apply andb_true_iff in W as [We Wl].
    cbn [alL]. rewrite (IHe We), (IHl Wl). reflexivity.
  - intros e l k _ IHl W. cbn [forallb] in W. apply andb_true_iff in W as [We Wl].
    cbn [alL]. rewrite drop0_total, (IHl Wl).
    match goal with |- orelse _ ?x _ = _ => destruct (opt_unit x) as [-> | ->]; reflexivity end.
Qed.

(** the ALIGNMENT conjunct of assemble_cert / compute_cert3, with the role / taint side conditions made trivial, plus the
    conjuncts about parameters and return type that do not depend on roles *)
Definition aligned0 (fe fk : function_definition) : bool :=
  match fe, fk with
  | FunctionDefinition _ ps rt be, FunctionDefinition _ qs rt' bk =>
      forallb param_form ps && forallb param_form qs && same_params ps qs && ty_same rt rt'
      && match align0 be bk with Some _ => true | None => false end
  end.

Lemma same_params_refl ps : same_params ps ps = true.
Proof.
  unfold same_params. rewrite Nat.eqb_refl, andb_true_r.
  induction (Certs2Base.param_names ps) as [|x r IH]; [reflexivity|]. rewrite String.eqb_refl. exact IH.
Qed.

Lemma aligned_aligned0 fe fk :
  aligned fe fk -> wfS (fd_body fe) = true -> forallb param_form (fd_params fe) = true -> aligned0 fe fk = true.
Proof.
  destruct fe as [n ps t be], fk as [n' qs t' bk]. cbn [aligned fd_body fd_params aligned0].
  intros (<- & <- & S) W P. rewrite P, same_params_refl, ty_same_refl, (sub_align0 _ _ S W). reflexivity.
Qed.

Theorem gen_assemble_aligned0 cap d g fe fa :
  generate_ir cap d g GlueGen.KernelType_evaluate = Some fe ->
  generate_ir cap d g GlueGen.KernelType_assemble = Some fa -> aligned0 fe fa = true.
Proof.
  intros Ee Ea. pose proof (gen_assemble_aligned _ _ _ _ _ Ee Ea) as A.
  unfold generate_ir in Ee. destruct (gen_atoms_wf_fuel _ _ _ _ _ _ Ee) as [W P]. apply aligned_aligned0; auto.
Qed.

Theorem gen_compute_aligned0 cap d g fe fc :
  generate_ir cap d g GlueGen.KernelType_evaluate = Some fe ->
  generate_ir cap d g GlueGen.KernelType_compute = Some fc -> aligned0 fe fc = true.
Proof.
  intros Ee Ec. pose proof (gen_compute_aligned _ _ _ _ _ Ee Ec) as A.
  unfold generate_ir in Ee. destruct (gen_atoms_wf_fuel _ _ _ _ _ _ Ee) as [W P]. apply aligned_aligned0; auto.
Qed.

(** every kernel kind: the atoms *)
Theorem gen_atoms_wf cap d g k f :
  generate_ir cap d g k = Some f -> wfS (fd_body f) = true /\ forallb param_form (fd_params f) = true.
Proof. unfold generate_ir. apply gen_atoms_wf_fuel. Qed.

(** * 10. (b) input_safe_cert: NOT proved.  What is established: the statement "for all d, g" is FALSE as it stands --
      a graph whose node carries an output layer of an INPUT tensor (never produced by to_iteration_graphs, whose
      merge_assignment attaches layers of the target only; AppendOutput.next_output compares the layer NUMBER, not the tensor)
      makes the generator re-allocate and store into that input's arrays.  The true statement needs the boolean hypothesis
      [graph_outputs_of d g] below. *)
Fixpoint graph_outputs_of_t (t : id_expr) (g : ig_graph) : bool :=
  match g with
  | IgTerminalNode _ => true
  | IgIterationNode _ None n => graph_outputs_of_t t n
  | IgIterationNode _ (Some (ExhaustAst.MkTensorLayer t' _)) n => id_expr_eqb t' t && graph_outputs_of_t t n
  | IgSumNode _ ts => forallb (graph_outputs_of_t t) ts
  end.
Definition graph_outputs_of (d : IgDefinition) (g : ig_graph) : bool := graph_outputs_of_t (IgDefinition_output_variable d) g.

(** the output tensor is the FIRST parameter (input_safe_cert seeds the taint with all parameters but the first) *)
Definition output_first (d : IgDefinition) : bool :=
  match IgDefinition_formats d, IgDefinition_output_variable d with
  | (n, _) :: _, IdTensor _ name _ _ => String.eqb n name
  | _, _ => false
  end.

(** THE STATEMENT THAT REMAINS (not proved).  [names_ok] must exclude identifier collisions between the variables
    the kernel declares (index variables, cursors, capacities, the output's arrays, buckets) and the input tensors /
    the arrays unpacked from them; the three witnesses below show that none of the three hypotheses can be dropped. *)
Definition gen_input_safe_full (names_ok : IgDefinition -> ig_graph -> Prop) : Prop := forall cap d g k f,
  graph_outputs_of d g = true -> output_first d = true -> names_ok d g ->
  generate_ir cap d g k = Some f -> Certs2Input.input_safe_cert f = true.

Definition ex_tb := IdTensor "1_b" "b" ["i"] [ExhaustAst.Mode_compressed].
Definition ex_ta := IdTensor "0_a" "a" ["i"] [ExhaustAst.Mode_compressed].
Definition ex_d := MkDefinition ex_ta [("a", MkFormat [ExhaustAst.Mode_compressed] [0%Z]); ("b", MkFormat [ExhaustAst.Mode_compressed] [0%Z])]
                                [("i", MkTensorDimension "a" 0%Z)].
Definition ex_g_foreign := IgIterationNode "i" (Some (ExhaustAst.MkTensorLayer ex_tb 0%Z)) (IgTerminalNode ex_tb).
Definition ex_g := IgIterationNode "i" (Some (ExhaustAst.MkTensorLayer ex_ta 0%Z)) (IgTerminalNode ex_tb).

Theorem gen_input_safe_unrestricted_fails :
  exists f, generate_ir None ex_d ex_g_foreign GlueGen.KernelType_evaluate = Some f
            /\ Certs2Input.input_safe_cert f = false /\ graph_outputs_of ex_d ex_g_foreign = false.
Proof. eexists. split; [vm_compute; reflexivity|]. split; vm_compute; reflexivity. Qed.

Example gen_input_safe_instance :
  exists f, generate_ir None ex_d ex_g GlueGen.KernelType_evaluate = Some f
            /\ Certs2Input.input_safe_cert f = true /\ graph_outputs_of ex_d ex_g = true.
Proof. eexists. split; [vm_compute; reflexivity|]. split; vm_compute; reflexivity. Qed.

(** two more hypotheses [gen_input_safe_full] cannot do without *)
Definition ex_d_out_second := MkDefinition ex_ta [("b", MkFormat [ExhaustAst.Mode_compressed] [0%Z]); ("a", MkFormat [ExhaustAst.Mode_compressed] [0%Z])]
                                [("i", MkTensorDimension "a" 0%Z)].
Theorem gen_input_safe_needs_output_first :
  exists f, generate_ir None ex_d_out_second ex_g GlueGen.KernelType_evaluate = Some f
            /\ Certs2Input.input_safe_cert f = false /\ graph_outputs_of ex_d_out_second ex_g = true /\ output_first ex_d_out_second = false.
Proof. eexists. split; [vm_compute; reflexivity|]. repeat split; vm_compute; reflexivity. Qed.

(* the index variable is called like the value array unpacked from the input b *)
Definition ex_tb3 := IdTensor "1_b" "b" ["b_vals"] [ExhaustAst.Mode_compressed].
Definition ex_ta3 := IdTensor "0_a" "a" ["b_vals"] [ExhaustAst.Mode_compressed].
Definition ex_d3 := MkDefinition ex_ta3 [("a", MkFormat [ExhaustAst.Mode_compressed] [0%Z]); ("b", MkFormat [ExhaustAst.Mode_compressed] [0%Z])]
                                 [("b_vals", MkTensorDimension "a" 0%Z)].
Definition ex_g3 := IgIterationNode "b_vals" (Some (ExhaustAst.MkTensorLayer ex_ta3 0%Z)) (IgTerminalNode ex_tb3).
Theorem gen_input_safe_needs_distinct_names :
  exists f, generate_ir None ex_d3 ex_g3 GlueGen.KernelType_evaluate = Some f
            /\ Certs2Input.input_safe_cert f = false /\ graph_outputs_of ex_d3 ex_g3 = true /\ output_first ex_d3 = true.
Proof. eexists. split; [vm_compute; reflexivity|]. repeat split; vm_compute; reflexivity. Qed.

(** * 11. the graphs the library produces carry output layers of the TARGET tensor only *)
Module GM := TV.model.Graphs.
Module GS := TV.proofs.GraphsSimplify.
Module GB := TV.proofs.GenGraphs_base.

Section OUTS.
  Variable Q : GM.olayer -> Prop.
  Definition oq (o : option GM.olayer) : Prop := match o with Some tl => Q tl | None => True end.
  Fixpoint outs (g : GM.graph) : Prop :=
    match g with
    | GM.TerminalNode _ => True
    | GM.IterationNode _ o n => oq o /\ outs n
    | GM.SumNode _ ts => (fix all (l : list GM.graph) : Prop := match l with [] => True | t :: r => outs t /\ all r end) ts
    end.

  Lemma outs_sum nm ts : outs (GM.SumNode nm ts) <-> Forall outs ts.
  Proof.
    cbn [outs]. induction ts as [|t r IH]; split; intros H; auto.
    - destruct H as [A B]. constructor; auto. apply IH; auto.
    - inversion H; subst. split; auto. apply IH; auto.
  Qed.

  Lemma outs_chain ixs e : outs (GM.chain_graph ixs (GM.TerminalNode e)).
  Proof. induction ixs; cbn; auto. Qed.

  Lemma map_inode_outs i o x : oq o -> Forall outs x -> Forall outs (map (GM.IterationNode i o) x).
  Proof. intros Ho Hx. apply Forall_forall. intros g Hg. apply in_map_iff in Hg as [g' [<- Hg']].
    rewrite Forall_forall in Hx. cbn. auto. Qed.

  Lemma merge_with_outs mk : forall l r, outs l -> outs r -> Forall outs (GM.merge_with mk l r).
  Proof.
    induction l as [le | li lo ln IHl | ln lts _] using GraphsInd.graph_ind2;
      induction r as [re | ri ro rn IHr | rn rts _] using GraphsInd.graph_ind2; intros Hl Hr;
      try (cbn; repeat constructor; fail).
    - rewrite GB.m_merge_TI. destruct Hr as [Ho Hn]. apply map_inode_outs; auto.
    - rewrite GB.m_merge_IT. destruct Hl as [Ho Hn]. apply map_inode_outs; auto; apply IHl; cbn [outs]; auto.
    - rewrite GB.m_merge_II. destruct Hl as [Hlo Hln]. destruct Hr as [Hro Hrn].
      destruct (String.eqb li ri); [apply map_inode_outs; auto|].
      apply Forall_app. split.
      + destruct (negb _); [apply map_inode_outs; auto; apply IHl; cbn [outs]; auto | constructor].
      + destruct (negb _); [apply map_inode_outs; auto; apply IHr; cbn [outs]; auto | constructor].
  Qed.

  Lemma next_terms_outs nx : outs nx -> Forall outs (GM.next_terms_of nx).
  Proof. destruct nx; cbn [GM.next_terms_of]; intros H; [constructor; [exact H | constructor] | constructor; [exact H | constructor] | apply outs_sum in H; auto]. Qed.

  Lemma finish_outs name l : Forall outs l -> outs (GS.finish name l).
  Proof. intros H. unfold GS.finish. destruct l as [|a [|b r]]; try (apply outs_sum; auto). inversion H; auto. Qed.

  Lemma simplify_outs : forall fuel name ts g, GM.simplify_fuel fuel name ts = Some g -> Forall outs ts -> outs g.
  Proof.
    induction fuel as [|f IH]; intros name ts g H HF; [discriminate|].
    rewrite GS.simplify_fuel_S in H.
    destruct (GM.sequence (map (GS.inode_of f name) (snd (GM.split_terms ts [] [])))) as [inodes|] eqn:Eseq; [|discriminate].
    injection H as <-.
    pose proof (GS.split_terms_groups ts) as GO. rewrite Forall_forall in GO.
    apply GS.sequence_Forall2 in Eseq.
    apply finish_outs. apply Forall_app. split.
    - destruct (fst (GM.split_terms ts [] [])); cbn; repeat constructor.
    - revert GO Eseq. generalize (snd (GM.split_terms ts [] [])) as groups. intros groups GO Eseq.
      revert GO. induction Eseq as [|[i vs] x gs xs Hx _ IHs]; intros GO; [constructor|]. constructor.
      + destruct (GO (i, vs) (or_introl eq_refl)) as [Hvs Hin]. cbn [fst snd] in *.
        unfold GS.inode_of in Hx. destruct vs as [|[o n0] rest]; [congruence|].
        destruct (GM.simplify_fuel f name _) as [n'|] eqn:En; [|discriminate]. injection Hx as <-.
        rewrite Forall_forall in HF.
        assert (Hv : forall o' nx, In (o', nx) ((o, n0) :: rest) -> oq o' /\ outs nx).
        { intros o' nx Hv. exact (HF _ (Hin o' nx Hv)). }
        split; [exact (proj1 (Hv o n0 (or_introl eq_refl)))|].
        apply (IH name _ n' En). apply Forall_forall. intros t Ht. apply in_flat_map in Ht as [[o' nx] [Hv' Ht]]. cbn [snd] in Ht.
        pose proof (next_terms_outs nx (proj2 (Hv o' nx Hv'))) as A. rewrite Forall_forall in A. auto.
      + apply IHs. intros g Hg. apply GO. now right.
  Qed.

  Lemma simplify_add_outs name ts : Forall outs ts -> outs (GM.simplify_add name ts).
  Proof. intros H. destruct (GS.simplify_add_spec name ts) as [g [Eg <-]]. eapply simplify_outs; eauto. Qed.

  Lemma sum_terms_outs l r : outs l -> outs r -> Forall outs (GM.sum_terms l r).
  Proof.
    intros Hl Hr. destruct l as [le|li lo ln|ln lt]; destruct r as [re|ri ro rn|rn rt]; cbn [GM.sum_terms];
      try (repeat constructor; auto; fail);
      try apply outs_sum in Hl; try apply outs_sum in Hr;
      try (apply Forall_app; split; auto); try (constructor; auto); repeat constructor; auto.
  Qed.
End OUTS.

Section OUTS2.
  Variable Q : GM.olayer -> Prop.
  Notation outs := (outs Q).

  Lemma expr_graphs_outs : forall e fs c gs, GM.expr_graphs e fs c = GM.ROk gs -> Forall outs gs.
  Proof.
    induction e as [v|h|t|l IHl r IHr|l IHl r IHr|i x IH]; intros fs c gs H; cbn [GM.expr_graphs] in H.
    - injection H as <-. repeat constructor.
    - injection H as <-. repeat constructor.
    - unfold GM.tensor_graphs in H.
      destruct (GM.lookup (GM.d_name t) fs); [|discriminate]. destruct (GM.identify t fs); [|discriminate].
      destruct (negb _); [discriminate|]. destruct (GM.sequence _); [|discriminate]. injection H as <-.
      apply Forall_forall. intros g Hg. apply in_map_iff in Hg as [ixs [<- _]]. apply outs_chain.
    - destruct (negb (GM.contains_contraction l || GM.contains_contraction r)).
      + apply Forall_forall. intros g Hg.
        destruct (GraphsMerge.for_both_ok _ _ _ _ _ H g Hg) as [ls [rs [lg [rg [El [Er [Hl [Hr Hb]]]]]]]].
        pose proof (IHl _ _ _ El) as A. pose proof (IHr _ _ _ Er) as B. rewrite Forall_forall in A, B.
        pose proof (merge_with_outs Q GM.IAdd lg rg (A _ Hl) (B _ Hr)) as C. rewrite Forall_forall in C. auto.
      + apply Forall_forall. intros g Hg.
        destruct (GraphsMerge.for_both_ok _ _ _ _ _ H g Hg) as [ls [rs [lg [rg [El [Er [Hl [Hr Hb]]]]]]]].
        pose proof (IHl _ _ _ El) as A. pose proof (IHr _ _ _ Er) as B. rewrite Forall_forall in A, B.
        destruct Hb as [<-|[]]. apply simplify_add_outs. apply sum_terms_outs; auto.
    - apply Forall_forall. intros g Hg.
      destruct (GraphsMerge.for_both_ok _ _ _ _ _ H g Hg) as [ls [rs [lg [rg [El [Er [Hl [Hr Hb]]]]]]]].
      pose proof (IHl _ _ _ El) as A. pose proof (IHr _ _ _ Er) as B. rewrite Forall_forall in A, B.
      pose proof (merge_with_outs Q GM.IMultiply lg rg (A _ Hl) (B _ Hr)) as C. rewrite Forall_forall in C. auto.
    - eapply IH; eauto.
  Qed.

  Lemma merge_assignment_outs : forall e, outs e ->
    forall tgt, Forall (fun t => Q (snd t)) tgt -> Forall outs (GM.merge_assignment e tgt).
  Proof.
    induction e as [x | ei eo en IHe | name terms IHterms] using GraphsInd.graph_ind2; intros He;
      induction tgt as [|[ti tl] ts IHt]; intros HQ;
      try (rewrite GraphsAssign.ma_nil; constructor; [exact He | constructor]).
    - inversion HQ; subst. rewrite GraphsAssign.ma_T. apply map_inode_outs; auto.
    - inversion HQ as [|? ? Hq HQ']; subst. cbn [snd] in Hq. destruct He as [Heo Hen].
      rewrite GraphsAssign.ma_I.
      destruct (String.eqb ti ei); [apply map_inode_outs; auto|].
      apply Forall_app. split.
      + destruct (negb _); [apply map_inode_outs; auto | constructor].
      + destruct (negb _ && negb _); [apply map_inode_outs; auto | constructor].
    - rewrite GraphsAssign.ma_S. apply Forall_forall. intros g Hg.
      apply in_map_iff in Hg as [merged [<- Hm]].
      apply GraphsAssign.product_Forall2 in Hm.
      apply simplify_add_outs. apply outs_sum in He.
      rewrite Forall_forall in IHterms, He.
      assert (G : forall l, (forall t, In t l -> In t terms) ->
                forall mg, Forall2 (fun x ls => In x ls) mg (map (fun x => GM.merge_assignment x ((ti, tl) :: ts)) l) ->
                Forall outs mg).
      { induction l as [|t r IHl]; intros Hsub mg F2; inversion F2; subst; constructor.
        - assert (Ht : In t terms) by (apply Hsub; now left).
          pose proof (IHterms t Ht (He t Ht) ((ti, tl) :: ts) HQ) as P. rewrite Forall_forall in P. auto.
        - apply IHl; [intros; apply Hsub; now right | assumption]. }
      apply (G terms (fun t H => H) merged Hm).
  Qed.
End OUTS2.

Lemma target_chain_tensor tr : forall order c, GM.target_chain tr order = Some c -> Forall (fun t => GM.ol_tensor (snd t) = tr) c.
Proof.
  unfold GM.target_chain. induction order as [|o r IH]; intros c H; cbn in H.
  - injection H as <-. constructor.
  - destruct (nth_error (GM.t_indexes tr) o); [|discriminate].
    destruct (GM.sequence _) as [xs|] eqn:E; [|discriminate]. injection H as <-.
    constructor; [reflexivity | apply IH; reflexivity].
Qed.

Lemma sequence_In {A} : forall (l : list (option A)) xs x, GM.sequence l = Some xs -> In x xs -> In (Some x) l.
Proof.
  induction l as [|[a|] l IH]; intros xs x H Hx; cbn in H; try discriminate.
  - injection H as <-. contradiction.
  - destruct (GM.sequence l) as [ys|] eqn:E; [|discriminate]. injection H as <-.
    destruct Hx as [<-|Hx]; [now left | right; eapply IH; eauto].
Qed.

(** every graph of today's enumeration carries output layers of the identified TARGET tensor only *)
Theorem src_graphs_outputs a fs gs tr :
  GenGraphs_equiv.to_iteration_graphs_src a fs = GM.ROk gs -> GM.identify (GM.a_target a) fs = Some tr ->
  Forall (outs (fun tl => GM.ol_tensor tl = tr)) gs.
Proof.
  intros H Hid. unfold GenGraphs_equiv.to_iteration_graphs_src, GM.target_chains in H. rewrite Hid in H.
  destruct (GM.lookup (GM.d_name (GM.a_target a)) fs) as [f|]; [|discriminate].
  destruct (negb _); [discriminate|].
  destruct (GM.sequence (map (GM.target_chain tr) (GM.legal_iteration_orders f))) as [cs|] eqn:ES; [|discriminate].
  match type of H with match filter ?p cs with _ => _ end = _ => set (sup := filter p cs) in *; assert (Hsup : incl sup cs) by (intros x Hx; apply filter_In in Hx; tauto) end.
  assert (Hcs : forall c, In c cs -> Forall (fun t => GM.ol_tensor (snd t) = tr) c).
  { intros c Hc. pose proof (sequence_In _ _ _ ES Hc) as Hin. apply in_map_iff in Hin as [o [Eo _]]. eapply target_chain_tensor; eauto. }
  destruct sup as [|s0 ss] eqn:Esup; [injection H as <-; constructor|]. rewrite <- Esup in *.
  destruct (GM.expr_graphs (GM.a_expr a) fs 1) as [es| |] eqn:Ee; try discriminate. injection H as <-.
  pose proof (expr_graphs_outs (fun tl => GM.ol_tensor tl = tr) _ _ _ _ Ee) as He. rewrite Forall_forall in He.
  apply Forall_forall. intros g Hg. apply in_flat_map in Hg as [tgt [Ht Hg]]. apply in_flat_map in Hg as [e [Hein Hg]].
  pose proof (merge_assignment_outs (fun tl => GM.ol_tensor tl = tr) e (He e Hein) tgt (Hcs tgt (Hsup tgt Ht))) as P.
  rewrite Forall_forall in P. auto.
Qed.

(** ... carried to the regenerated types: the hypothesis of [gen_input_safe_full] holds for them *)
Lemma list_eqb_refl {A} (e : A -> A -> bool) : (forall x, e x x = true) -> forall l, list_eqb e l l = true.
Proof. intros He. induction l as [|x l IH]; cbn; auto. rewrite He, IH. reflexivity. Qed.
Lemma up_tref_eqb_refl t : id_expr_eqb (GB.up_tref t) (GB.up_tref t) = true.
Proof.
  unfold GB.up_tref. cbn [id_expr_eqb]. rewrite !String.eqb_refl, !list_eqb_refl; auto.
  - intros []; reflexivity.
  - apply String.eqb_refl.
Qed.

Lemma outs_up fval tr : forall g, outs (fun tl => GM.ol_tensor tl = tr) g ->
  graph_outputs_of_t (GB.up_tref tr) (GB.up_graph fval g) = true.
Proof.
  induction g as [e | i o n IH | nm ts IH] using GraphsInd.graph_ind2; intros H.
  - reflexivity.
  - destruct H as [Ho Hn]. cbn [GB.up_graph graph_outputs_of_t]. destruct o as [tl|]; cbn [option_map]; [|auto].
    cbn in Ho. subst tr. unfold GB.up_ol. rewrite up_tref_eqb_refl. cbn. auto.
  - apply outs_sum in H. cbn [GB.up_graph graph_outputs_of_t]. apply forallb_forall. intros x Hx.
    apply in_map_iff in Hx as [t [<- Ht]]. rewrite Forall_forall in IH, H. auto.
Qed.

Theorem gen_library_graphs_outputs fval a fs gs tr :
  GenGraphs_equiv.to_iteration_graphs_src a fs = GM.ROk gs -> GM.identify (GM.a_target a) fs = Some tr ->
  Forall (fun g => graph_outputs_of_t (GB.up_tref tr) (GB.up_graph fval g) = true) gs.
Proof.
  intros H Hid. pose proof (src_graphs_outputs _ _ _ _ H Hid) as P. rewrite Forall_forall in P |- *.
  intros g Hg. apply outs_up. auto.
Qed.

(** for a Definition built as generate_module_tensora builds it (output_variable = to_identifiable(target) = up_tref tr by
    GenGlue_equiv.gen_to_identifiable_identify), whatever its formats and dimensions *)
Corollary gen_library_graphs_outputs_definition fval a fs gs tr fmts dims :
  GenGraphs_equiv.to_iteration_graphs_src a fs = GM.ROk gs -> GM.identify (GM.a_target a) fs = Some tr ->
  Forall (fun g => graph_outputs_of (MkDefinition (GB.up_tref tr) fmts dims) (GB.up_graph fval g) = true) gs.
Proof. intros H Hid. exact (gen_library_graphs_outputs fval a fs gs tr H Hid). Qed.

(** * 12. (b) inputs untouched: [safe_stmt T body] for an explicit taint set T *)
Module CI := TV.proofs.Certs2Input.
Module CB := TV.proofs.Certs2Base.
Local Open Scope string_scope.

(** does the string contain an underscore? *)
Fixpoint contains_us (s : string) : bool :=
  match s with EmptyString => false | String c r => if Ascii.eqb c "_"%char then true else contains_us r end.
Lemma us_app a b : contains_us (a ++ String "_"%char b) = true.
Proof. induction a as [|c a IH]; cbn; [reflexivity|]. destruct (Ascii.eqb c "_"%char); auto. Qed.

Section SAFE.
  Variable T : list string.
  Variable outT : Tensor.
  Variable ov : id_expr.
  Hypothesis Hov : conv_tensor ov = Some outT.
  (* what names_ok provides *)
  Hypothesis Hout : CB.mem (Tensor_name outT) T = false.
  Hypothesis Hpre_out : forall r, CB.mem (Tensor_name outT ++ String "_"%char r) T = false.
  Hypothesis Hpre_p : forall r, contains_us r = true -> CB.mem (String "p" (String "_"%char r)) T = false.
  Hypothesis Hpre_i : forall r, contains_us r = true -> CB.mem (String "i" (String "_"%char r)) T = false.
  Hypothesis Hpre_b : forall r, CB.mem (String "b"%char (String "u"%char (String "c"%char (String "k"%char (String "e"%char (String "t"%char (String "_"%char r))))))) T = false.
  Hypothesis Hpre_w : forall r, CB.mem (String "w"%char (String "r"%char (String "i"%char (String "t"%char (String "t"%char (String "e"%char (String "n"%char (String "_"%char r)))))))) T = false.
  Hypothesis Hidx : forall i, In i (Tensor_indexes outT) -> CB.mem i T = false.

  Definition okI : stmt -> bool := CI.safe_stmt T.
  Definition cleanE (e : expr) : bool := negb (CI.may_input T e).

  Class GoodI (X : Type) := goodi : X -> Prop.
  #[local] Instance goodi_sb : GoodI sb := fun b => forallb okI (sb_lines b) = true.
  #[local] Instance goodi_stmt : GoodI stmt := fun s => okI s = true.
  #[local] Instance goodi_expr : GoodI expr := fun e => cleanE e = true /\ CI.rhs_ok T e = true.
  #[local] Instance goodi_out : GoodI Output := fun o => Output_output o = outT.
  #[local] Instance goodi_graph : GoodI ig_graph := fun g => graph_outputs_of_t ov g = true.
  #[local] Instance goodi_list {X} `{GoodI X} : GoodI (list X) := fun l => Forall goodi l.
  #[local] Instance goodi_prod {A B} `{GoodI A} `{GoodI B} : GoodI (A * B) := fun p => goodi (fst p) /\ goodi (snd p).
  #[local] Instance goodi_option {X} `{GoodI X} : GoodI (option X) := fun o => match o with Some x => goodi x | None => True end.
  #[local] Instance goodi_default {X} : GoodI X | 100 := fun _ => True.

  Lemma wp_bind_goodi {A B} `{GoodI A} (x : option A) (f : A -> option B) (Q : B -> Prop) :
    wp x goodi -> (forall v, goodi v -> wp (f v) Q) -> wp (obind x f) Q.
  Proof. apply wp_bind. Qed.
  Lemma wp_of_goodi {X} `{GoodI X} (o : option X) : goodi o -> wp o goodi.
  Proof. intros Ho r E. subst o. exact Ho. Qed.

  Lemma gi_append_stmt (s : sb) x : goodi s -> okI x = true -> goodi (sb_append_stmt s x).
  Proof. unfold goodi, goodi_sb, sb_append_stmt. cbn. intros H Hx. rewrite forallb_app, H. cbn. rewrite Hx. reflexivity. Qed.
  Lemma gi_finalize (s : sb) : goodi s -> okI (sb_finalize s) = true.
  Proof. intros H. exact H. Qed.
  Lemma gi_append_sb (s x : sb) : goodi s -> goodi x -> goodi (sb_append_sb s x).
  Proof.
    unfold sb_append_sb. intros Hs Hx. destruct (sb_comment x).
    - apply (gi_append_stmt s _ Hs). exact Hx.
    - unfold goodi, goodi_sb in *. cbn. rewrite forallb_app, Hs, Hx. reflexivity.
  Qed.
  Lemma gi_close_branch (o : sb) c (i : sb) : goodi o -> goodi i -> goodi (sb_close_branch o c i).
  Proof. intros Ho Hi. apply gi_append_stmt; auto. unfold okI. cbn. unfold goodi, goodi_sb, okI in Hi. rewrite Hi. reflexivity. Qed.
  Lemma gi_close_loop (o : sb) c (i : sb) : goodi o -> goodi i -> goodi (sb_close_loop o c i).
  Proof. intros Ho Hi. apply gi_append_stmt; auto. Qed.
  Lemma gi_close_block (o : sb) c (i : sb) : goodi o -> goodi i -> goodi (sb_close_block o c i).
  Proof. intros Ho Hi. apply gi_append_stmt; auto. Qed.

  Lemma mem_same x : negb (CB.mem x T) || CB.mem x T = true.
  Proof. destruct (CB.mem x T); reflexivity. Qed.

  (* a statement given explicitly: compute, then use the name facts *)
  Ltac gi_stmt :=
    unfold goodi, goodi_stmt, goodi_expr, okI, cleanE in *;
    repeat match goal with H : _ /\ _ |- _ => destruct H end;
    try (split; [|try reflexivity]);
    first [ reflexivity
          | assumption
          | cbn; repeat match goal with H : _ = outT |- _ => rewrite !H end;
            repeat match goal with H : CB.mem _ T = false |- _ => rewrite !H end;
            rewrite ?Hpre_out, ?Hpre_b, ?Hpre_w, ?Hout, ?mem_same; rewrite ?Hpre_p, ?Hpre_i by (first [apply us_app | reflexivity]); cbn;
            repeat match goal with H : negb (CI.may_input T ?e) = true |- context [CI.may_input T ?e] => rewrite (proj1 (negb_true_iff _) H) end;
            cbn; rewrite ?Hpre_out, ?Hpre_b, ?Hpre_w, ?Hout, ?mem_same; rewrite ?Hpre_p, ?Hpre_i by (first [apply us_app | reflexivity]); reflexivity
          | match goal with |- context [Variable_declare ?v _] => is_var v; destruct v; reflexivity end
          | match goal with
            | H : negb (CI.may_input T ?e) = true, R : CI.rhs_ok T ?e = true |- _ =>
                is_var e; destruct e; cbn in H, R |- *;
                rewrite ?Hpre_out, ?Hpre_b, ?Hpre_w, ?Hout, ?mem_same; rewrite ?Hpre_p, ?Hpre_i by (first [apply us_app | reflexivity]);
                try rewrite (proj1 (negb_true_iff _) H); try rewrite R; try rewrite H; reflexivity
            end
          | idtac ].

  Lemma gi_sparse_init leaf : goodi (write_sparse_initialization leaf).
  Proof. unfold goodi, goodi_sb, okI. cbn. rewrite ?Hpre_p by (first [apply us_app | reflexivity]). reflexivity. Qed.

  Lemma wp_ofold_all {A B} (P : A -> Prop) (f : B -> A -> option B) (l : list A) (init : B) (I : B -> Prop) :
    Forall P l -> (forall acc x, P x -> I acc -> wp (f acc x) I) -> I init -> wp (ofold f l init) I.
  Proof.
    intros Hl Hf. revert init. induction Hl as [|x l Hx Hl IH]; intros init Hi r E; cbn in E.
    - injection E as <-. exact Hi.
    - destruct (f init x) as [a|] eqn:Ef; [|discriminate]. exact (IH a (Hf init x Hx Hi a Ef) r E).
  Qed.
  Lemma wp_ofold_goodi {A B} `{GoodI A} (f : B -> A -> option B) (l : list A) (init : B) (I : B -> Prop) :
    goodi l -> (forall acc x, goodi x -> I acc -> wp (f acc x) I) -> I init -> wp (ofold f l init) I.
  Proof. apply wp_ofold_all. Qed.

  Ltac gi_solve :=
    cbn [fst snd] in *;
    lazymatch goal with
    | |- goodi (sb_append_stmt _ _) => apply gi_append_stmt; [gi_solve | gi_stmt]
    | |- goodi (sb_append_sb _ _) => apply gi_append_sb; gi_solve
    | |- goodi (sb_close_branch _ _ _) => apply gi_close_branch; gi_solve
    | |- goodi (sb_close_loop _ _ _) => apply gi_close_loop; gi_solve
    | |- goodi (sb_close_block _ _ _) => apply gi_close_block; gi_solve
    | |- goodi (MkSB [] _) => reflexivity
    | |- goodi (write_sparse_initialization _) => apply gi_sparse_init
    | |- goodi (_, _) => split; gi_solve
    | |- goodi_prod (_, _) => split; gi_solve
    | |- goodi (Some _) => unfold goodi, goodi_option; gi_solve
    | |- goodi (@None _) => exact I
    | |- @goodi (list _) _ (_ ++ [_])%list => apply Forall_app; split; [assumption | constructor; [gi_solve | constructor]]
    | |- @goodi (list _) _ [] => constructor
    | |- @goodi (list _) _ _ => first [assumption | solve [apply Forall_forall; intros ? _; gi_solve] | idtac]
    | |- @goodi stmt _ (sb_finalize _) => apply gi_finalize; gi_solve
    | |- @goodi stmt _ _ => gi_stmt
    | |- @goodi expr _ _ => gi_stmt
    | |- _ => first [ assumption | exact I | solve [repeat split; exact I]
                    | solve [unfold goodi, goodi_option, goodi_prod, goodi_default;
                             repeat match goal with |- context [match ?x with _ => _ end] => destruct x end;
                             repeat split; exact I]
                    | idtac ]
    end.

  Ltac destruct_gi :=
    repeat match goal with
           | H : @goodi (_ * _) _ _ |- _ => destruct H
           | H : goodi_prod _ |- _ => destruct H
           end; cbn [fst snd] in *.

  Ltac wi_go db :=
    cbv beta;
    lazymatch goal with
    | |- wp (Some _) _ => apply wp_some; wi_post db
    | |- wp None _ => apply wp_none
    | |- wp (match ?x with Some _ => _ | None => _ end) _ => first [apply wp_if | destruct x; destruct_gi]; wi_go db
    | |- wp (if ?c then _ else _) _ => first [apply wp_if | destruct c; destruct_gi]; wi_go db
    | |- wp (let '(_, _) := ?p in _) _ => destruct p; destruct_gi; wi_go db
    | |- wp (ofold _ _ _) _ =>
        apply wp_ofold_goodi; [ gi_solve
                              | let acc := fresh "acc" in let x := fresh "x" in let Hx := fresh "Hx" in let Ha := fresh "Ha" in
                                intros acc x Hx Ha; wi_go db
                              | gi_solve ]
    | |- wp (obind ?x ?f) _ =>
        apply wp_bind_goodi;
        [ first [ solve [db] | wi_go db ]
        | let v := fresh "v" in let Hv := fresh "Hv" in intros v Hv; wi_go db ]
    | |- wp _ goodi => first [ solve [db] | solve [apply wp_of_goodi; assumption] | solve [intros ? ?; gi_solve] | idtac ]
    | |- _ => idtac
    end
  with wi_post db :=
    lazymatch goal with
    | |- wp _ _ => wi_go db
    | |- goodi _ => destruct_gi; gi_solve
    | |- _ => idtac
    end.

  (** leaves of gen/AppendGen.v *)
  Ltac db0 := fail.
  Lemma wi_crd_assembly tl : TensorLayer_tensor tl = outT -> wp (write_crd_assembly tl) goodi.
  Proof.
    intros E. unfold write_crd_assembly. cbv zeta. rewrite E.
    apply wp_bind with (P := fun i => CB.mem i T = false).
    { intros i Hi. apply Hidx. unfold py_getitem in Hi. repeat match type of Hi with (if ?c then _ else _) = _ => destruct c end;
        try discriminate; eapply nth_error_In; eauto. }
    intros i Hi. wi_go db0.
  Qed.

  Lemma wi_pos_allocation tl : TensorLayer_tensor tl = outT -> wp (write_pos_allocation tl) goodi.
  Proof.
    intros E. unfold write_pos_allocation. cbv zeta.
    apply wp_bind_any. intros [dd br]. cbv beta iota.
    destruct (Z.eqb _ _); cbn [obind]; cbv beta iota; wi_go db0.
  Qed.
  Lemma wi_pos_assembly tl : TensorLayer_tensor tl = outT -> goodi (write_pos_assembly tl).
  Proof. intros E. unfold write_pos_assembly. cbv zeta. gi_solve. Qed.
  Lemma wi_bucket_declarations b l r : BucketOutput_output b = outT -> cleanE l = true -> wp (BucketOutput_write_declarations b (Add l r)) goodi.
  Proof.
    intros E Hr. unfold BucketOutput_write_declarations. cbv zeta.
    apply wp_bind_any. intros dn. wi_go db0.
  Qed.
  Lemma wi_bucket_assignment b rhs k : BucketOutput_output b = outT -> wp (BucketOutput_write_assignment b rhs k) goodi.
  Proof. intros E. unfold BucketOutput_write_assignment. cbv zeta. repeat (apply wp_bind_any; intros ?). apply wp_some. gi_solve. Qed.

  Lemma wi_next_output o io k : goodi o -> wp (Output_next_output o io k) goodi.
  Proof.
    intros Ho. destruct o as [a|b]; cbn [Output_next_output]; unfold goodi, goodi_out in Ho; cbn [Output_output] in Ho.
    - unfold AppendOutput_next_output. cbv zeta.
      destruct (match io with Some iteration_output => _ | None => false end).
      + apply wp_some. repeat split. exact Ho.
      + destruct (forallb _ _); [|apply wp_none].
        apply wp_bind with (P := fun nb => BucketOutput_output nb = outT).
        { intros nb Hnb. unfold BucketOutput_init in Hnb. cbv zeta in Hnb.
          destruct (ofold _ _ _); cbn [obind] in Hnb; [|discriminate]. injection Hnb as <-. exact Ho. }
        intros nb Hnb. destruct (KernelType_is_compute k).
        * apply wp_bind_goodi.
          { apply wp_bind_goodi; [|intros v Hv; apply wp_some; exact Hv].
            unfold Expression_plus. cbn [to_expression]. apply wi_bucket_declarations; auto.
            unfold cleanE. cbn. rewrite Ho. rewrite Hpre_out. reflexivity. }
          intros v Hv. apply wp_some. repeat split; auto.
        * cbn [obind]. apply wp_some. repeat split; auto.
    - apply wp_some. unfold BucketOutput_next_output. destruct io; repeat split; exact Ho.
  Qed.
  Lemma cleanE_to_ir e : cleanE (to_ir e) = true.
  Proof. unfold cleanE. induction e; cbn; auto. Qed.
  Lemma wi_write_assignment o e k : goodi o -> wp (Output_write_assignment o (to_ir e) k) goodi.
  Proof.
    intros Ho. pose proof (cleanE_to_ir e) as Hc. destruct o as [a|b]; cbn [Output_write_assignment]; unfold goodi, goodi_out in Ho; cbn [Output_output] in Ho;
      [|apply wi_bucket_assignment; exact Ho].
    unfold AppendOutput_write_assignment. cbv zeta. destruct (negb _); [apply wp_none|]. apply wp_some.
    apply gi_append_stmt; [reflexivity|]. unfold okI.
    assert (R : CI.rhs_ok T (to_ir e) = true) by (destruct e; reflexivity).
    unfold cleanE in Hc. apply negb_true_iff in Hc.
    cbn -[CI.rhs_ok CI.may_input to_ir]. rewrite R, Hc. cbn. rewrite Ho, Hpre_out. reflexivity.
  Qed.


  (** goal 1: exhausting a tensor keeps the output layers; generate_subgraphs only returns exhausted graphs *)
  Lemma exhaust_ok : forall g r, graph_outputs_of_t ov g = true -> graph_outputs_of_t ov (ig_exhaust_tensor g r) = true.
  Proof.
    fix IH 1. intros g r H. destruct g as [e | iv o n | nm ts]; cbn [ig_exhaust_tensor graph_outputs_of_t] in *.
    - reflexivity.
    - destruct o as [[t l]|]; [apply andb_true_iff in H as [A B]; rewrite A; cbn; apply IH; exact B | apply IH; exact H].
    - assert (F : forallb (graph_outputs_of_t ov) (map (fun t => ig_exhaust_tensor t r) ts) = true).
      { induction ts as [|t ts IHts]; [reflexivity|]. cbn [forallb map] in *. apply andb_true_iff in H as [A B].
        rewrite (IH t r A), (IHts B). reflexivity. }
      destruct (map _ ts) as [|a [|b rest]]; [reflexivity | cbn in F; rewrite andb_true_r in F; exact F | exact F].
  Qed.

  Definition dgood (d : list (list string * ig_graph)) : Prop := Forall (fun kv => graph_outputs_of_t ov (snd kv) = true) d.
  Lemma dgood_set d k v : dgood d -> graph_outputs_of_t ov v = true -> dgood (dict_set sfs_eqb k v d).
  Proof.
    intros Hd Hv. induction Hd as [|[k' v'] d Hv' Hd IH]; cbn.
    - constructor; [exact Hv | constructor].
    - destruct (sfs_eqb k k'); constructor; auto.
  Qed.
  Lemma dgood_update d e : dgood d -> dgood e -> dgood (dict_update sfs_eqb d e).
  Proof.
    unfold dict_update. intros Hd He. revert d Hd. induction He as [|[k v] e Hv He IH]; intros d Hd; cbn; auto.
    apply IH. apply dgood_set; auto.
  Qed.
  Lemma wp_py_while {S} (body : S -> option (S * bool)) (I : S -> Prop) fuel :
    (forall s, I s -> wp (body s) (fun r => I (fst r))) -> forall init, I init -> wp (py_while fuel body init) I.
  Proof.
    intros Hb. induction fuel as [|f IH]; intros init Hi r E; cbn in E; [discriminate|].
    destruct (body init) as [[s' b]|] eqn:Eb; [|discriminate]. pose proof (Hb init Hi _ Eb) as Hs. cbn in Hs.
    destruct b; [injection E as <-; exact Hs | exact (IH s' Hs r E)].
  Qed.

  Lemma wi_generate_subgraphs fuel g : goodi g -> wp (generate_subgraphs fuel g) goodi.
  Proof.
    intros Hg. unfold generate_subgraphs. cbv zeta.
    apply wp_bind_any. intros dims.
    apply wp_bind with (P := fun st : (list (list string * ig_graph)) * (list (list string * ig_graph)) => dgood (fst st) /\ dgood (snd st)).
    - apply wp_py_while.
      + intros [old all] [Hold Hall]. cbn [fst snd] in *.
        apply wp_bind with (P := fun r : (list (list string * ig_graph)) * (list (list string * ig_graph)) * bool => dgood (fst (fst r)) /\ dgood (snd (fst r))).
        * apply wp_bind with (P := dgood).
          { apply (wp_ofold_all (fun kv : list string * ig_graph => graph_outputs_of_t ov (snd kv) = true)); [exact Hold| |constructor].
            intros ng [sl og] Hog Hng. cbn [snd] in Hog. cbv beta iota.
            apply wp_bind with (P := dgood); [|intros v Hv; apply wp_some; exact Hv].
            apply wp_ofold; [|exact Hng]. intros acc x Ha. apply wp_bind_any. intros t2. apply wp_some.
            apply dgood_set; auto. apply exhaust_ok. exact Hog. }
          intros ng Hng. cbv beta. destruct (Z.eqb _ _); apply wp_some; cbn [fst snd]; split; auto. apply dgood_update; auto.
        * intros [[a b] c] [Ha Hb]. apply wp_some. cbn [fst snd] in *. split; auto.
      + cbn [fst snd]. split; (constructor; [exact Hg | constructor]).
    - intros [old all] [Hold Hall]. cbn [fst snd] in *. cbv beta iota.
      apply wp_bind with (P := fun keyed : list (Z * ig_graph) => Forall (fun p => graph_outputs_of_t ov (snd p) = true) keyed).
      + intros keyed Hk.
        assert (Hs : Forall (fun g0 : ig_graph => graph_outputs_of_t ov g0 = true) (map snd all)).
        { apply Forall_forall. intros g0 Hin. apply in_map_iff in Hin as [[k v] [<- Hkv]]. unfold dgood in Hall. rewrite Forall_forall in Hall. exact (Hall _ Hkv). }
        revert keyed Hk Hs. generalize (map snd all). induction l as [|x l IHl]; intros keyed Hk Hs; cbn in Hk.
        * injection Hk as <-. constructor.
        * destruct (ig_compressed_dimensions x); cbn [obind] in Hk; [|discriminate].
          destruct (omap _ l) as [ys|] eqn:Ey; [|discriminate]. injection Hk as <-. inversion Hs; subst.
          constructor; [assumption | apply IHl; auto].
      + intros keyed Hk. apply wp_some. unfold goodi, goodi_list.
        apply Forall_forall. intros g0 Hin. apply in_map_iff in Hin as [[k v] [<- Hkv]].
        pose proof (Permutation_in _ (gen_sorted_desc_perm keyed) Hkv) as Hin'.
        rewrite Forall_forall in Hk. exact (Hk _ Hin').
  Qed.

  (** goal 2: the dispatch family *)
  Lemma list_eqb_eq {A} (e : A -> A -> bool) : (forall x y, e x y = true -> x = y) -> forall l l', list_eqb e l l' = true -> l = l'.
  Proof.
    intros He. induction l as [|x l IH]; destruct l' as [|y l']; cbn; intros H; try discriminate; auto.
    apply andb_true_iff in H as [HA HB]. f_equal; auto.
  Qed.
  Lemma tensor_eqb_conv t : id_expr_eqb t ov = true -> conv_tensor t = Some outT.
  Proof.
    intros H. rewrite <- Hov. destruct t; destruct ov; cbn in H; try discriminate.
    apply andb_true_iff in H as [H H4]. apply andb_true_iff in H as [H H3]. apply andb_true_iff in H as [H1 H2].
    apply String.eqb_eq in H1. apply String.eqb_eq in H2.
    apply (list_eqb_eq String.eqb) in H3; [|intros x y E; apply String.eqb_eq; exact E].
    apply (list_eqb_eq ExhaustAst.Mode_eqb) in H4; [|intros [] []; cbn; congruence].
    subst. reflexivity.
  Qed.

  Lemma wp_bind_some {A B} (v : A) (f : A -> option B) Q : wp (f v) Q -> wp (obind (Some v) f) Q.
  Proof. intros H. exact H. Qed.
  Lemma wp_bind_none {A B} (f : A -> option B) Q : wp (obind None f) Q.
  Proof. apply wp_none. Qed.

  Lemma rhs_and_join l : CI.rhs_ok T (And_join l) = true.
  Proof.
    unfold And_join. generalize (map (fun operand => to_expression operand) l) as xs. intros xs.
    assert (G : forall xs a, CI.rhs_ok T a = true -> CI.rhs_ok T (fold_left And xs a) = true).
    { induction xs0 as [|x xs0 IH]; cbn; auto. }
    apply G. reflexivity.
  Qed.
  Lemma cleanE_and_join l : cleanE (And_join l) = true.
  Proof.
    unfold And_join. generalize (map (fun operand => to_expression operand) l) as xs. intros xs.
    assert (G : forall xs a, cleanE a = true -> cleanE (fold_left And xs a) = true).
    { induction xs0 as [|x xs0 IH]; cbn; auto. }
    apply G. reflexivity.
  Qed.
  Lemma wi_min_join (l : list expr) : goodi l -> wp (Min_join (map (fun x_ => XE x_) l)) goodi.
  Proof.
    intros Hl r E. unfold Min_join in E. rewrite map_map in E. cbn [to_expression] in E. rewrite map_id in E.
    destruct l as [|x l]; cbn in E; [discriminate|]. injection E as <-. inversion Hl as [|? ? [Hc Hr] _]; subst.
    assert (G : forall xs a, cleanE a = true /\ CI.rhs_ok T a = true -> cleanE (fold_left Min xs a) = true /\ CI.rhs_ok T (fold_left Min xs a) = true).
    { induction xs as [|y xs IH]; intros a Ha; cbn [fold_left]; [exact Ha|]. apply IH. split; reflexivity. }
    apply G. split; assumption.
  Qed.
  Lemma okI_branch_join (l : list (expr * stmt)) :
    goodi l -> okI (Branch_join (map (fun '(c0_, c1_) => (XE c0_, c1_)) l)) = true.
  Proof.
    intros Hl. unfold Branch_join. rewrite <- map_rev.
    assert (Hr : Forall goodi (rev l)) by (apply Forall_rev; exact Hl).
    revert Hr. generalize (rev l) as xs. intros xs Hxs.
    assert (G : forall acc, okI acc = true ->
                okI (fold_left (fun previous (leaf : exarg * stmt) =>
                                  Branch (to_expression (let '(p_, _) := leaf in p_)) (let '(_, p_) := leaf in p_) previous)
                               (map (fun '(c0_, c1_) => (XE c0_, c1_)) xs) acc) = true).
    { induction Hxs as [|[c b] xs [_ Hb] Hxs IH]; intros acc Ha; cbn [map fold_left]; auto.
      apply IH. cbn [fst snd] in Hb. unfold goodi, goodi_stmt in Hb. unfold okI in *. cbn [CI.safe_stmt]. rewrite Hb, Ha. reflexivity. }
    apply G. reflexivity.
  Qed.
  Lemma wi_ig_next g : goodi g -> wp (ig_next g) goodi.
  Proof. intros H r E. destruct g; try discriminate. injection E as <-. unfold goodi, goodi_graph in *. cbn in H.
    destruct output as [[t l]|]; [apply andb_true_iff in H; tauto | exact H]. Qed.
  Lemma sum_terms_good nm ts : goodi (IgSumNode nm ts) -> goodi ts.
  Proof. unfold goodi at 1, goodi_graph. cbn. intros H. apply Forall_forall. intros t Ht. rewrite forallb_forall in H. exact (H t Ht). Qed.

  Lemma fold_mul_clean xs : forall a, CI.may_input T a = false -> CI.may_input T (fold_left Multiply xs a) = false.
  Proof. induction xs as [|x xs IH]; cbn; auto. Qed.
  Lemma fold_mul_rhs xs : forall a, CI.rhs_ok T a = true -> CI.rhs_ok T (fold_left Multiply xs a) = true.
  Proof. induction xs as [|x xs IH]; cbn; auto. Qed.

  Ltac gi_stmt2 :=
    first [ apply cleanE_and_join | (split; [apply cleanE_and_join | apply rhs_and_join]) | apply okI_branch_join; assumption
          | solve [gi_stmt]
          | solve [match goal with |- context [default_array_size ?c] => destruct c end; gi_stmt]
          | solve [unfold goodi, goodi_expr, cleanE; try split; unfold Expression_plus, Multiply_join;
                   cbn [to_expression CI.may_input CI.rhs_ok negb];
                   rewrite ?fold_mul_clean, ?fold_mul_rhs by reflexivity; reflexivity]
          | gi_stmt ].

  Ltac gi_solve2 :=
    cbn [fst snd] in *;
    lazymatch goal with
    | |- goodi (sb_append_stmt _ _) => apply gi_append_stmt; [gi_solve2 | gi_stmt2]
    | |- goodi (sb_append_sb _ _) => apply gi_append_sb; gi_solve2
    | |- goodi (sb_close_branch _ _ _) => apply gi_close_branch; gi_solve2
    | |- goodi (sb_close_loop _ _ _) => apply gi_close_loop; gi_solve2
    | |- goodi (sb_close_block _ _ _) => apply gi_close_block; gi_solve2
    | |- goodi (MkSB [] _) => reflexivity
    | |- goodi (write_sparse_initialization _) => apply gi_sparse_init
    | |- goodi (write_pos_assembly _) => apply wi_pos_assembly; assumption
    | |- goodi (_, _) => split; gi_solve2
    | |- goodi_prod (_, _) => split; gi_solve2
    | |- goodi (Some _) => unfold goodi, goodi_option; gi_solve2
    | |- goodi (@None _) => exact I
    | |- @goodi (list _) _ (_ ++ [_])%list => apply Forall_app; split; [assumption | constructor; [gi_solve2 | constructor]]
    | |- @goodi (list _) _ [] => constructor
    | |- @goodi (list _) _ _ => first [assumption | solve [apply Forall_forall; intros ? _; gi_solve2] | idtac]
    | |- @goodi stmt _ (sb_finalize _) => apply gi_finalize; gi_solve2
    | |- @goodi stmt _ _ => gi_stmt2
    | |- @goodi expr _ _ => gi_stmt2
    | |- goodi_expr _ => gi_stmt2
    | |- goodi_stmt _ => first [apply gi_finalize; gi_solve2 | gi_stmt2]
    | |- _ => first [ assumption | exact I | solve [repeat split; exact I]
                    | solve [unfold goodi, goodi_option, goodi_prod, goodi_default;
                             repeat match goal with |- context [match ?x with _ => _ end] => destruct x end;
                             repeat split; exact I]
                    | idtac ]
    end.

  Ltac wj_go db :=
    cbv beta iota;
    lazymatch goal with
    | |- wp (Some _) _ => apply wp_some; wj_post db
    | |- wp None _ => apply wp_none
    | |- wp (obind (Some _) _) _ => apply wp_bind_some; wj_go db
    | |- wp (obind None _) _ => apply wp_bind_none
    | |- wp (match ?x with Some _ => _ | None => _ end) _ => first [apply wp_if | destruct x; destruct_gi]; wj_go db
    | |- wp (if ?c then _ else _) _ => first [apply wp_if | destruct c; destruct_gi]; wj_go db
    | |- wp (let '(_, _) := ?p in _) _ => destruct p; destruct_gi; wj_go db
    | |- wp (ofold _ _ _) _ =>
        apply wp_ofold_goodi; [ gi_solve2
                              | let acc := fresh "acc" in let x := fresh "x" in let Hx := fresh "Hx" in let Ha := fresh "Ha" in
                                intros acc x Hx Ha; wj_go db
                              | gi_solve2 ]
    | |- wp (obind ?x ?f) _ =>
        first [ apply wp_bind_goodi;
                [ solve [first [ solve [db] | wj_go db ]]
                | let v := fresh "v" in let Hv := fresh "Hv" in intros v Hv; wj_go db ]
              | apply wp_bind_any; let v := fresh "v" in intros v; wj_go db ]
    | |- wp _ goodi => first [ solve [db] | solve [apply wp_of_goodi; assumption] | solve [intros ? ?; gi_solve2] | idtac ]
    | |- _ => idtac
    end
  with wj_post db :=
    lazymatch goal with
    | |- wp _ _ => wj_go db
    | |- goodi _ => destruct_gi; gi_solve2
    | |- _ => idtac
    end.

  Ltac dbf := eauto 4 using wi_next_output, wi_write_assignment, wi_crd_assembly, wi_pos_allocation, wi_min_join, wi_ig_next, wi_generate_subgraphs.

  Lemma sum_safe rec_ self o k :
    (forall g o', goodi g -> goodi o' -> wp (rec_ g o' k) goodi) -> goodi self -> goodi o ->
    wp (to_ir_sum rec_ self o k) goodi.
  Proof.
    intros IH Hs Ho. unfold to_ir_sum. destruct self; try solve [apply wp_none].
    pose proof (sum_terms_good _ _ Hs) as Ht. cbv zeta. wj_go dbf.
  Qed.

  Lemma flags_are_vars o : Forall (fun e => exists x, e = Var x) (Output_written_flags o).
  Proof. unfold Output_written_flags. apply Forall_forall. intros e He. apply in_map_iff in He as ((l & m) & <- & _). eexists. reflexivity. Qed.

  Lemma terminal_safe self o k : goodi o -> wp (to_ir_terminal_expression self o k) goodi.
  Proof.
    intros Ho. unfold to_ir_terminal_expression. destruct self; try solve [apply wp_none]. cbv zeta.
    apply wp_bind_goodi.
    - apply wp_if; [|apply wp_some; reflexivity].
      apply wp_bind_goodi; [|intros v Hv; apply wp_some; exact Hv].
      pose proof (flags_are_vars o) as P. revert P. generalize (Output_written_flags o) as fl.
      intros fl P. assert (H0 : goodi (MkSB [] (Some "*** Computation of expression ***"%string))) by reflexivity.
      revert H0. generalize (MkSB [] (Some "*** Computation of expression ***"%string)) as s0.
      induction P as [|e fl [x ->] P IH]; intros s0 H0 r E; cbn in E.
      + injection E as <-. exact H0.
      + eapply IH; [|exact E]. apply gi_append_stmt; [exact H0|]. reflexivity.
    - intros v Hv. wj_go dbf.
  Qed.

  Lemma iteration_safe fuel rec_ self o k :
    (forall g o', goodi g -> goodi o' -> wp (rec_ g o' k) goodi) -> goodi self -> goodi o ->
    wp (to_ir_iteration_variable fuel rec_ self o k) goodi.
  Proof.
    intros IH Hs Ho. unfold to_ir_iteration_variable. destruct self as [|iv out nxt|]; try solve [apply wp_none].
    cbv zeta.
    apply wp_bind with (P := fun so : option TensorLayer => forall tl, so = Some tl -> TensorLayer_tensor tl = outT).
    { intros so E tl ->. unfold goodi, goodi_graph in Hs. cbn in Hs. destruct out as [[t l]|]; cbn in E; [|discriminate].
      apply andb_true_iff in Hs as [Ht _]. rewrite (tensor_eqb_conv _ Ht) in E. cbn in E. injection E as <-. reflexivity. }
    intros so Hso. destruct so as [tl|]; [pose proof (Hso tl eq_refl) as Htl|]; clear Hso.
    - wj_go dbf.
    - wj_go dbf.
  Qed.

  Theorem family_safe fuel k n : forall g o, goodi g -> goodi o -> wp (to_ir_iteration_graph fuel n g o k) goodi.
  Proof.
    induction n as [|n IH]; intros g o Hg Ho; cbn [to_ir_iteration_graph]; [apply wp_none|].
    destruct g; [apply terminal_safe; auto | apply iteration_safe; auto | apply sum_safe; auto].
  Qed.

  (** goal 3: the output declarations and the cleanup *)
  Lemma wi_declarations cap a k : AppendOutput_output a = outT -> wp (AppendOutput_write_declarations cap a k) goodi.
  Proof.
    intros E. unfold AppendOutput_write_declarations. cbv zeta.
    wj_go dbf.
  Qed.

  Lemma wi_cleanup a k : AppendOutput_output a = outT -> wp (AppendOutput_write_cleanup a k) goodi.
  Proof.
    intros E. unfold AppendOutput_write_cleanup. cbv zeta.
    wj_go dbf.
    all: match goal with |- ?G => idtac G end.
  Qed.

  (** goal 4 (inside the section): the whole kernel, for an explicit T *)
  Variable d : IgDefinition.
  Hypothesis Hd : IgDefinition_output_variable d = ov.
  Hypothesis Hdims : forall i td, In (i, td) (IgDefinition_indexes d) ->
    negb (CB.mem (GlueGen.TensorDimension_name td) T) || CB.mem (i ++ "_dim") T = true.
  Hypothesis Hunpack : forall n fmt, In (n, fmt) (IgDefinition_formats d) ->
    CB.mem n T = false \/
    ((forall i m, In (i, m) (py_enumerate (conv_format_modes fmt)) ->
        CB.mem (n ++ String "_"%char (show_Z i ++ "_pos")) T = true /\ CB.mem (n ++ String "_"%char (show_Z i ++ "_crd")) T = true)
     /\ CB.mem (n ++ "_vals") T = true).
  Hypothesis Hparams : forall n, In n (tl (map fst (IgDefinition_formats d))) -> In n T.

  Lemma Forall_In_self {A} (l : list A) : Forall (fun x => In x l) l.
  Proof. apply Forall_forall. auto. Qed.

  Theorem gen_safe_T cap fuel g k : goodi g ->
    wp (generate_ir_fuel cap fuel d g k) (fun f => match f with FunctionDefinition _ ps _ body =>
         (forall x, In x (CB.param_names (tl ps)) -> In x T) /\ CI.safe_stmt T body = true end).
  Proof.
    intros Hg. unfold generate_ir_fuel. cbv zeta.
    apply wp_bind_goodi.
    { apply (wp_ofold_all (fun x => In x (IgDefinition_indexes d))); [apply Forall_In_self| |reflexivity].
      intros acc [i td] Hin Ha. cbv beta iota. apply wp_some. apply gi_append_stmt; [exact Ha|].
      unfold okI. cbn. exact (Hdims i td Hin). }
    intros s1 Hs1. cbv beta.
    apply wp_bind_goodi.
    { apply (wp_ofold_all (fun x => In x (IgDefinition_formats d))); [apply Forall_In_self| |reflexivity].
      intros acc [n fmt] Hin Ha. cbv beta iota.
      pose proof (Hunpack n fmt Hin) as Hu.
      apply wp_bind_goodi.
      - apply (wp_ofold_all (fun x => In x (py_enumerate (conv_format_modes fmt)))); [apply Forall_In_self| |exact Ha].
        intros acc2 [i m] Him Ha2. cbv beta iota.
        destruct (Mode_eqb m Mode_dense); [apply wp_bind_some; apply wp_some; exact Ha2|].
        destruct (Mode_eqb m Mode_compressed); [|repeat (apply wp_bind_some); apply wp_some; exact Ha2].
        repeat (apply wp_bind_some). apply wp_some.
        apply gi_append_stmt; [apply gi_append_stmt; [exact Ha2|]|]; unfold okI; cbn;
          (destruct Hu as [Hu | [Hu _]]; [rewrite Hu; reflexivity | rewrite (proj1 (Hu i m Him)) || rewrite (proj2 (Hu i m Him)); apply orb_true_r]).
      - intros s2 Hs2. apply wp_some. apply gi_append_stmt; [exact Hs2|]. unfold okI. cbn.
        destruct Hu as [Hu | [_ Hu]]; [rewrite Hu; reflexivity | rewrite Hu; apply orb_true_r]. }
    intros s2 Hs2. cbv beta.
    rewrite Hd, Hov. apply wp_bind_some.
    apply wp_bind_goodi; [apply wi_declarations; reflexivity|]. intros dcl Hdcl.
    apply wp_bind_goodi; [apply family_safe; [exact Hg | reflexivity]|]. intros body Hbody.
    apply wp_bind_goodi; [apply wi_cleanup; reflexivity|]. intros cl Hcl.
    apply wp_some. split.
    - intros x Hx. apply Hparams.
      revert Hx. generalize (map fst (IgDefinition_formats d)). intros l. destruct l as [|a l]; cbn; [auto|].
      induction l as [|b l IH]; cbn; [auto|]. intros [<-|H]; [now left | right; auto].
    - apply (gi_finalize _). gi_solve2.
  Qed.
End SAFE.

(** the closure-free route, stated on whole kernels: safe for an explicit T + the inputs in T  =>  the conclusion of CERT_input *)
Definition gen_input_safe_semantic (T : list string) (f : function_definition) : Prop :=
  match f with
  | FunctionDefinition name ps rt body =>
      (forall x, In x (CB.param_names (tl ps)) -> In x T) /\ CI.safe_stmt T body = true
  end.

Local Open Scope string_scope.
(** * 13. names_ok as a boolean, and the final theorem *)
Lemma prefix_app pre r : String.prefix pre (pre ++ r) = true.
Proof. induction pre as [|a pre IH]; cbn; [destruct r; reflexivity|]. destruct (Ascii.ascii_dec a a); [exact IH | congruence]. Qed.

Lemma no_prefix pre T : forallb (fun x => negb (String.prefix pre x)) T = true -> forall r, CB.mem (pre ++ r) T = false.
Proof.
  intros H r. destruct (CB.mem (pre ++ r) T) eqn:E; [|reflexivity].
  apply CB.mem_In in E. rewrite forallb_forall in H. specialize (H _ E). rewrite prefix_app in H. discriminate.
Qed.

Definition drop2 (x : string) : string := match x with String _ (String _ r) => r | _ => EmptyString end.
(** a name [c1 c2 r] whose rest [r] contains an underscore is not in T (p_<ref>_<l>, i_<ref>_<l>, i_bucket_...; while i_dim, p_dim may be) *)
Lemma no_prefix2 (c1 c2 : ascii) T :
  forallb (fun x => negb (String.prefix (String c1 (String c2 EmptyString)) x) || negb (contains_us (drop2 x))) T = true ->
  forall r, contains_us r = true -> CB.mem (String c1 (String c2 r)) T = false.
Proof.
  intros H r Hr. destruct (CB.mem (String c1 (String c2 r)) T) eqn:E; [|reflexivity].
  apply CB.mem_In in E. rewrite forallb_forall in H. specialize (H _ E).
  change (String c1 (String c2 r)) with ((String c1 (String c2 EmptyString)) ++ r)%string in H at 1.
  rewrite prefix_app in H. cbn [drop2] in H. rewrite Hr in H. discriminate.
Qed.

Definition names_ok_T (T : list string) (d : IgDefinition) : bool :=
  match conv_tensor (IgDefinition_output_variable d) with
  | None => false
  | Some outT =>
      let out := Tensor_name outT in
      negb (CB.mem out T)
      && forallb (fun x => negb (String.prefix (out ++ "_") x)) T
      && forallb (fun x => negb (String.prefix "p_" x) || negb (contains_us (drop2 x))) T
      && forallb (fun x => negb (String.prefix "i_" x) || negb (contains_us (drop2 x))) T
      && forallb (fun x => negb (String.prefix "bucket_" x)) T
      && forallb (fun x => negb (String.prefix "written_" x)) T
      && forallb (fun i => negb (CB.mem i T)) (Tensor_indexes outT)
      && forallb (fun '(i, td) => negb (CB.mem (GlueGen.TensorDimension_name td) T) || CB.mem (i ++ "_dim") T) (IgDefinition_indexes d)
      && forallb (fun '(n, fmt) =>
                    negb (CB.mem n T)
                    || (forallb (fun '(i, m) => CB.mem (n ++ String "_"%char (show_Z i ++ "_pos")) T
                                              && CB.mem (n ++ String "_"%char (show_Z i ++ "_crd")) T)
                                (py_enumerate (conv_format_modes fmt))
                        && CB.mem (n ++ "_vals") T))
                 (IgDefinition_formats d)
      && forallb (fun n => CB.mem n T) (tl (map fst (IgDefinition_formats d)))
  end.

Lemma str_assoc a b c : ((a ++ b) ++ c)%string = (a ++ (b ++ c))%string.
Proof. induction a as [|x a IH]; cbn; [reflexivity | rewrite IH; reflexivity]. Qed.

Theorem gen_safe_names_ok T cap d g k f :
  names_ok_T T d = true -> graph_outputs_of d g = true ->
  generate_ir cap d g k = Some f -> gen_input_safe_semantic T f.
Proof.
  unfold names_ok_T, graph_outputs_of. destruct (conv_tensor (IgDefinition_output_variable d)) as [outT|] eqn:Hov; [|discriminate].
  intros N Hg E.
  apply andb_true_iff in N as [N N10]. apply andb_true_iff in N as [N N9]. apply andb_true_iff in N as [N N8].
  apply andb_true_iff in N as [N N7]. apply andb_true_iff in N as [N N6]. apply andb_true_iff in N as [N N5].
  apply andb_true_iff in N as [N N4]. apply andb_true_iff in N as [N N3]. apply andb_true_iff in N as [N1 N2].
  unfold generate_ir in E.
  refine (gen_safe_T T outT (IgDefinition_output_variable d) Hov _ _ _ _ _ _ _ d eq_refl _ _ _ cap _ g _ Hg f E).
  - apply negb_true_iff. exact N1.
  - intros r. change (Tensor_name outT ++ String "_"%char r) with (Tensor_name outT ++ ("_" ++ r)). rewrite <- str_assoc. apply no_prefix. exact N2.
  - intros r Hr. apply (no_prefix2 "p"%char "_"%char); assumption.
  - intros r Hr. apply (no_prefix2 "i"%char "_"%char); assumption.
  - intros r. apply (no_prefix "bucket_"). exact N5.
  - intros r. apply (no_prefix "written_"). exact N6.
  - intros i Hi. rewrite forallb_forall in N7. apply negb_true_iff. exact (N7 i Hi).
  - intros i td Hin. rewrite forallb_forall in N8. exact (N8 (i, td) Hin).
  - intros n fmt Hin. rewrite forallb_forall in N9. specialize (N9 (n, fmt) Hin). cbn beta iota in N9.
    apply orb_true_iff in N9 as [A|A]; [left; apply negb_true_iff; exact A|right].
    apply andb_true_iff in A as [A B]. split; [|exact B].
    intros i m Him. rewrite forallb_forall in A. specialize (A (i, m) Him). cbn beta iota in A. apply andb_true_iff in A. exact A.
  - intros n Hn. rewrite forallb_forall in N10. apply CB.mem_In. exact (N10 n Hn).
Qed.

(** the explicit taint set: the inputs, the arrays unpacked from them, the dimensions sized by them *)
Definition T1 (d : IgDefinition) : list string :=
  let out := match conv_tensor (IgDefinition_output_variable d) with Some o => Tensor_name o | None => "" end in
  let ins := filter (fun nf : string * IterGraphs.Format => negb (String.eqb (fst nf) out)) (IgDefinition_formats d) in
  (map fst ins
  ++ flat_map (fun nf : string * IterGraphs.Format => let n := fst nf in
                 (flat_map (fun im : Z * Mode => [(n ++ String "_"%char (show_Z (fst im) ++ "_pos"))%string; (n ++ String "_"%char (show_Z (fst im) ++ "_crd"))%string])
                          (py_enumerate (conv_format_modes (snd nf))) ++ [(n ++ "_vals")%string])%list) ins
  ++ flat_map (fun itd : string * GlueGen.TensorDimension =>
                 if CB.mem (GlueGen.TensorDimension_name (snd itd)) (map fst ins) then [(fst itd ++ "_dim")%string] else []) (IgDefinition_indexes d))%list.

Definition names_ok (d : IgDefinition) (g : ig_graph) : bool := names_ok_T (T1 d) d.

Example names_ok_ordinary : names_ok ex_d ex_g = true.
Proof. vm_compute. reflexivity. Qed.

(* K-C08-3: pos() = bucket(j) * c(j), bucket:s -- the bucket name bucket_0_pos IS the pos array of the input `bucket` *)
Definition ex_d_k3 := MkDefinition (IdTensor "0_pos" "pos" [] [])
  [("pos", MkFormat [] []); ("bucket", MkFormat [ExhaustAst.Mode_compressed] [0%Z]); ("c", MkFormat [ExhaustAst.Mode_dense] [0%Z])]
  [("j", MkTensorDimension "bucket" 0%Z)].
Example names_ok_k_c08_3 : forall g, names_ok ex_d_k3 g = false.
Proof. intros g. vm_compute. reflexivity. Qed.
Example names_ok_distinct_names_witness : names_ok ex_d3 ex_g3 = false.
Proof. vm_compute. reflexivity. Qed.

(** (b) THE SEMANTIC CONCLUSION of CERT_input for ALL graphs and ALL kinds, under the boolean hypotheses *)
Theorem gen_inputs_untouched cap d g k f :
  names_ok d g = true -> graph_outputs_of d g = true -> generate_ir cap d g k = Some f ->
  forall fuel args st, CI.out_clean st args ->
    match IRSem.call fuel f args st with
    | IRSem.Fail x => x <> Num.EWriteInput
    | IRSem.Returned st' _ _ => CI.out_clean st' args
    | _ => True
    end.
Proof.
  intros N G E. pose proof (gen_safe_names_ok (T1 d) cap d g k f N G E) as S.
  destruct f as [name ps rt body]. destruct S as [P S]. apply (GenGenIR_sound.input_safe_sound_T (T1 d)); assumption.
Qed.

(** * 14. fuel: what is NOT proved, stated; and non-trivial instances *)
(** [ig_fuel g] is enough: more fuel never changes the answer (so a [None] is an exception of the source, not lack of fuel).
    NOT PROVED (argument in design.d/TIE_genir.md); a visible hypothesis for whoever needs it. *)
Definition fuel_sufficient (d : IgDefinition) (g : ig_graph) : Prop :=
  forall cap k m, (ig_fuel g <= m)%nat -> generate_ir_fuel cap m d g k = generate_ir_fuel cap (ig_fuel g) d g k.

(* a(i) = b(i,j) * c(j), a: s, b: ds, c: s *)
Definition ex_tb2 := IdTensor "1_b" "b" ["i";"j"] [ExhaustAst.Mode_dense; ExhaustAst.Mode_compressed].
Definition ex_tc2 := IdTensor "2_c" "c" ["j"] [ExhaustAst.Mode_compressed].
Definition ex_ta2 := IdTensor "0_a" "a" ["i"] [ExhaustAst.Mode_compressed].
Definition ex_d_mv := MkDefinition ex_ta2
  [("a", MkFormat [ExhaustAst.Mode_compressed] [0%Z]); ("b", MkFormat [ExhaustAst.Mode_dense; ExhaustAst.Mode_compressed] [0%Z;1%Z]); ("c", MkFormat [ExhaustAst.Mode_compressed] [0%Z])]
  [("i", MkTensorDimension "a" 0%Z); ("j", MkTensorDimension "b" 1%Z)].
Definition ex_g_mv := IgIterationNode "i" (Some (ExhaustAst.MkTensorLayer ex_ta2 0%Z)) (IgIterationNode "j" None (IgTerminalNode (IdMultiply ex_tb2 ex_tc2))).

(** fuel matters (2 is not enough, 3 is) and [ig_fuel] (= 7 here) is enough; the hypotheses of the theorems above hold *)
Example fuel_example :
  ig_fuel ex_g_mv = 7%nat
  /\ generate_ir_fuel None 2 ex_d_mv ex_g_mv KernelType_evaluate = None
  /\ (exists f, generate_ir_fuel None 3 ex_d_mv ex_g_mv KernelType_evaluate = Some f
                /\ generate_ir None ex_d_mv ex_g_mv GlueGen.KernelType_evaluate = Some f
                /\ generate_ir_fuel None 20 ex_d_mv ex_g_mv KernelType_evaluate = Some f)
  /\ names_ok ex_d_mv ex_g_mv = true /\ graph_outputs_of ex_d_mv ex_g_mv = true.
Proof.
  split; [reflexivity|]. split; [vm_compute; reflexivity|]. split; [|split; vm_compute; reflexivity].
  eexists. split; [vm_compute; reflexivity|]. split; vm_compute; reflexivity.
Qed.

(** * 15. names_ok for well-formed definitions: three conjuncts hold by construction of [T1] *)
Definition struct_ok (d : IgDefinition) : bool :=
  match conv_tensor (IgDefinition_output_variable d), IgDefinition_formats d with
  | Some outT, (k0, _) :: rest =>
      String.eqb k0 (Tensor_name outT) && negb (CB.mem (Tensor_name outT) (map fst rest))
      && forallb (fun itd : string * GlueGen.TensorDimension => CB.mem (GlueGen.TensorDimension_name (snd itd)) (map fst (IgDefinition_formats d)))
                 (IgDefinition_indexes d)
  | _, _ => false
  end.

(** the hygiene proper: the output's name, the reserved prefixes and the output's index names against the generated set *)
Definition hygienic (d : IgDefinition) : bool :=
  match conv_tensor (IgDefinition_output_variable d) with
  | None => false
  | Some outT =>
      let out := Tensor_name outT in let T := T1 d in
      negb (CB.mem out T)
      && forallb (fun x => negb (String.prefix (out ++ "_") x)) T
      && forallb (fun x => negb (String.prefix "p_" x) || negb (contains_us (drop2 x))) T
      && forallb (fun x => negb (String.prefix "i_" x) || negb (contains_us (drop2 x))) T
      && forallb (fun x => negb (String.prefix "bucket_" x)) T
      && forallb (fun x => negb (String.prefix "written_" x)) T
      && forallb (fun i => negb (CB.mem i T)) (Tensor_indexes outT)
  end.

Lemma mem_app x a b : CB.mem x (a ++ b)%list = CB.mem x a || CB.mem x b.
Proof. unfold CB.mem. apply existsb_app. Qed.

Theorem names_ok_struct d g : struct_ok d = true -> names_ok d g = hygienic d.
Proof.
  unfold struct_ok, names_ok, names_ok_T, hygienic.
  destruct (conv_tensor (IgDefinition_output_variable d)) as [outT|] eqn:Hov; [|discriminate].
  destruct (IgDefinition_formats d) as [|[k0 f0] rest] eqn:Hf; [discriminate|].
  intros S. apply andb_true_iff in S as [S S3]. apply andb_true_iff in S as [S1 S2].
  apply String.eqb_eq in S1. subst k0. apply negb_true_iff in S2.
  set (out := Tensor_name outT) in *.
  set (T := T1 d).
  destruct (CB.mem out T) eqn:Hout; [reflexivity|]. cbn [negb andb].
  (* the inputs *)
  assert (Hins : filter (fun nf : string * IterGraphs.Format => negb (String.eqb (fst nf) out)) (IgDefinition_formats d) = rest).
  { rewrite Hf. cbn [filter fst]. rewrite String.eqb_refl. cbn [negb].
    clear -S2. induction rest as [|[n f] rest IH]; [reflexivity|]. cbn [map fst CB.mem existsb] in S2. unfold CB.mem in S2. cbn in S2.
    apply orb_false_iff in S2 as [A B]. cbn [filter fst]. rewrite String.eqb_sym, A. cbn [negb]. f_equal. apply IH. exact B. }
  assert (HT : T = (map fst rest
      ++ flat_map (fun nf : string * IterGraphs.Format => let n := fst nf in
           (flat_map (fun im : Z * Mode => [(n ++ String "_"%char (show_Z (fst im) ++ "_pos"))%string; (n ++ String "_"%char (show_Z (fst im) ++ "_crd"))%string])
                     (py_enumerate (conv_format_modes (snd nf))) ++ [(n ++ "_vals")%string])%list) rest
      ++ flat_map (fun itd : string * GlueGen.TensorDimension =>
           if CB.mem (GlueGen.TensorDimension_name (snd itd)) (map fst rest) then [(fst itd ++ "_dim")%string] else []) (IgDefinition_indexes d))%list).
  { unfold T, T1. rewrite Hov. fold out. rewrite Hins. reflexivity. }
  assert (C10 : forallb (fun n => CB.mem n T) (tl (map fst ((out, f0) :: rest))) = true).
  { cbn [map tl]. apply forallb_forall. intros n Hn. rewrite HT, mem_app. apply orb_true_iff. left. apply CB.mem_In. exact Hn. }
  assert (C9 : forallb (fun '(n, fmt) =>
                    negb (CB.mem n T)
                    || (forallb (fun '(i, m) => CB.mem (n ++ String "_"%char (show_Z i ++ "_pos")) T
                                              && CB.mem (n ++ String "_"%char (show_Z i ++ "_crd")) T)
                                (py_enumerate (conv_format_modes fmt))
                        && CB.mem (n ++ "_vals") T)) ((out, f0) :: rest) = true).
  { cbn [forallb]. rewrite Hout. cbn [negb orb andb]. apply forallb_forall. intros [n fmt] Hin. apply orb_true_iff. right.
    assert (HB : forall x, In x (flat_map (fun im : Z * Mode => [(n ++ String "_"%char (show_Z (fst im) ++ "_pos"))%string; (n ++ String "_"%char (show_Z (fst im) ++ "_crd"))%string])
                     (py_enumerate (conv_format_modes fmt)) ++ [(n ++ "_vals")%string])%list -> CB.mem x T = true).
    { intros x Hx. rewrite HT, !mem_app. apply orb_true_iff. right. apply orb_true_iff. left. apply CB.mem_In.
      apply in_flat_map. exists (n, fmt). split; [exact Hin | exact Hx]. }
    apply andb_true_iff. split.
    - apply forallb_forall. intros [i m] Him. apply andb_true_iff. split; apply HB; apply in_or_app; left;
        apply in_flat_map; exists (i, m); (split; [exact Him | cbn; auto]).
    - apply HB. apply in_or_app. right. left. reflexivity. }
  assert (C8 : forallb (fun '(i, td) => negb (CB.mem (GlueGen.TensorDimension_name td) T) || CB.mem (i ++ "_dim") T) (IgDefinition_indexes d) = true).
  { apply forallb_forall. intros [i td] Hin. rewrite forallb_forall in S3. specialize (S3 (i, td) Hin). cbn [snd map fst] in S3.
    unfold CB.mem in S3. cbn [existsb] in S3. apply orb_true_iff in S3 as [E|E].
    - apply String.eqb_eq in E. rewrite E. fold out. rewrite Hout. reflexivity.
    - apply orb_true_iff. right. rewrite HT, !mem_app. apply orb_true_iff. right. apply orb_true_iff. right.
      apply CB.mem_In. apply in_flat_map. exists (i, td). split; [exact Hin|]. cbn [fst snd]. unfold CB.mem. rewrite E. left. reflexivity. }
  fold T. rewrite C8, C9, C10. rewrite !andb_true_r. reflexivity.
Qed.

Example hygienic_ordinary : struct_ok ex_d_mv = true /\ hygienic ex_d_mv = true.
Proof. split; vm_compute; reflexivity. Qed.
Example hygienic_k_c08_3 : struct_ok ex_d_k3 = true /\ hygienic ex_d_k3 = false.
Proof. split; vm_compute; reflexivity. Qed.

(* a() = b(i): the index i is sized by the input b, so i_dim is tainted -- and that is fine *)
Definition ex_d_s := MkDefinition (IdTensor "0_a" "a" [] []) [("a", MkFormat [] []); ("b", MkFormat [ExhaustAst.Mode_compressed] [0%Z])]
                                  [("i", MkTensorDimension "b" 0%Z)].
Definition ex_g_s := IgIterationNode "i" None (IgTerminalNode (IdTensor "1_b" "b" ["i"] [ExhaustAst.Mode_compressed])).
Example names_ok_tainted_dim :
  In "i_dim" (T1 ex_d_s) /\ names_ok ex_d_s ex_g_s = true /\ graph_outputs_of ex_d_s ex_g_s = true
  /\ exists f, generate_ir None ex_d_s ex_g_s GlueGen.KernelType_evaluate = Some f.
Proof. split; [vm_compute; tauto|]. split; [vm_compute; reflexivity|]. split; [vm_compute; reflexivity|]. eexists. vm_compute. reflexivity. Qed.

(** * 16. fuel: a [Some] answer is the answer for every larger fuel *)
Definition ole {A} (x y : option A) : Prop := forall a, x = Some a -> y = Some a.
Lemma ole_refl {A} (x : option A) : ole x x. Proof. intros a H; exact H. Qed.
Lemma ole_bind {A B} (x y : option A) (f g : A -> option B) :
  ole x y -> (forall a, ole (f a) (g a)) -> ole (obind x f) (obind y g).
Proof. intros Hx Hf b E. destruct x as [a|]; cbn in E; [|discriminate]. rewrite (Hx a eq_refl). cbn. apply Hf. exact E. Qed.
Lemma ole_ofold {A B} (f g : B -> A -> option B) : (forall acc x, ole (f acc x) (g acc x)) -> forall l i, ole (ofold f l i) (ofold g l i).
Proof.
  intros H. induction l as [|x l IH]; intros i r E; cbn in *; [exact E|].
  destruct (f i x) as [a|] eqn:Ef; [|discriminate]. rewrite (H i x a Ef). apply IH. exact E.
Qed.
Lemma ole_py_while {S} (b : S -> option (S * bool)) : forall n n', (n <= n')%nat -> forall s, ole (py_while n b s) (py_while n' b s).
Proof.
  induction n as [|n IH]; intros n' Hn s r E; cbn in E; [discriminate|].
  destruct n' as [|n']; [lia|]. cbn. destruct (b s) as [[s' [|]]|]; try discriminate; [exact E|]. apply (IH n'); [lia | exact E].
Qed.

Lemma subgraphs_mono fuel fuel' g : (fuel <= fuel')%nat -> ole (generate_subgraphs fuel g) (generate_subgraphs fuel' g).
Proof.
  intros H. unfold generate_subgraphs. cbv zeta. apply ole_bind; [apply ole_refl|]. intros dims.
  apply ole_bind; [apply ole_py_while; exact H | intros a; apply ole_refl].
Qed.

Ltac ol db :=
  cbv beta;
  first
  [ match goal with |- ole ?x ?y => constr_eq x y; apply ole_refl end
  | lazymatch goal with
    | |- ole (obind _ _) (obind _ _) => apply ole_bind; [ol db | let a := fresh "a" in intros a; ol db]
    | |- ole (ofold _ ?l _) (ofold _ _ _) => apply ole_ofold; let acc := fresh "acc" in let x := fresh "x" in intros acc x; ol db
    | |- ole (match ?x with Some _ => _ | None => _ end) _ => destruct x; ol db
    | |- ole (if ?c then _ else _) _ => destruct c; ol db
    | |- ole (let '(_, _) := ?p in _) _ => destruct p; ol db
    | |- _ => first [ solve [db] | idtac ]
    end ].

Lemma iteration_mono fuel fuel' rec_ rec_' self o k :
  (fuel <= fuel')%nat -> (forall g o' , ole (rec_ g o' k) (rec_' g o' k)) ->
  ole (to_ir_iteration_variable fuel rec_ self o k) (to_ir_iteration_variable fuel' rec_' self o k).
Proof.
  intros Hf Hr. unfold to_ir_iteration_variable. destruct self as [e|iv out nxt|nm ts]; [intros a E; discriminate E| |intros a E; discriminate E]. cbv zeta.
  ol ltac:(eauto using subgraphs_mono).
Qed.

Lemma sum_mono rec_ rec_' self o k :
  (forall g o', ole (rec_ g o' k) (rec_' g o' k)) -> ole (to_ir_sum rec_ self o k) (to_ir_sum rec_' self o k).
Proof.
  intros Hr. unfold to_ir_sum. destruct self as [e|iv out nxt|nm ts]; [intros a E; discriminate E|intros a E; discriminate E|]. cbv zeta.
  ol ltac:(eauto).
Qed.

Theorem family_mono fuel fuel' k : (fuel <= fuel')%nat -> forall n n', (n <= n')%nat -> forall g o,
  ole (to_ir_iteration_graph fuel n g o k) (to_ir_iteration_graph fuel' n' g o k).
Proof.
  intros Hf. induction n as [|n IH]; intros n' Hn g o; [intros a E; discriminate E|].
  destruct n' as [|n']; [lia|]. cbn [to_ir_iteration_graph]. destruct g.
  - apply ole_refl.
  - apply iteration_mono; [exact Hf|]. intros g' o'. apply IH. lia.
  - apply sum_mono. intros g' o'. apply IH. lia.
Qed.

Theorem generate_ir_fuel_mono cap d g k m m' : (m <= m')%nat -> ole (generate_ir_fuel cap m d g k) (generate_ir_fuel cap m' d g k).
Proof.
  intros H. unfold generate_ir_fuel. cbv zeta.
  ol ltac:(eauto using family_mono).
Qed.

(** the [Some] half of [fuel_sufficient]: an answer obtained with the fuel [ig_fuel g] is the answer for every larger fuel *)
Theorem fuel_stable cap d g k f :
  generate_ir_fuel cap (ig_fuel g) d g k = Some f -> forall m, (ig_fuel g <= m)%nat -> generate_ir_fuel cap m d g k = Some f.
Proof. intros E m H. exact (generate_ir_fuel_mono cap d g k _ _ H f E). Qed.

(** * 17. input safety for the graphs the library produces: the only hypotheses left are two booleans on the DEFINITION *)
Theorem gen_inputs_untouched_library fval a fs gs tr fmts dims g cap k f :
  GenGraphs_equiv.to_iteration_graphs_src a fs = GM.ROk gs -> GM.identify (GM.a_target a) fs = Some tr -> In g gs ->
  struct_ok (MkDefinition (GB.up_tref tr) fmts dims) = true -> hygienic (MkDefinition (GB.up_tref tr) fmts dims) = true ->
  generate_ir cap (MkDefinition (GB.up_tref tr) fmts dims) (GB.up_graph fval g) k = Some f ->
  forall fuel args st, CI.out_clean st args ->
    match IRSem.call fuel f args st with
    | IRSem.Fail x => x <> Num.EWriteInput
    | IRSem.Returned st' _ _ => CI.out_clean st' args
    | _ => True
    end.
Proof.
  intros Hsrc Hid Hin Hs Hh E.
  pose proof (gen_library_graphs_outputs_definition fval a fs gs tr fmts dims Hsrc Hid) as G.
  rewrite Forall_forall in G. specialize (G g Hin).
  apply (gen_inputs_untouched cap (MkDefinition (GB.up_tref tr) fmts dims) (GB.up_graph fval g) k f); [rewrite (names_ok_struct _ (GB.up_graph fval g) Hs); exact Hh | exact G | exact E].
Qed.
