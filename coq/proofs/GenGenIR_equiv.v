(** TIE target "genir": theorems about the loop generator REGENERATED from
    /repo/src/tensora/iteration_graph/_generate_ir.py (gen/GenerateIR.v), for ALL graphs.
    No hand model of the IR generator exists; what is proved here is about the regenerated function itself.
    design.d/TIE_genir.md *)
From Coq Require Import ZArith Bool List String Lia Permutation Sorted.
From TV Require Import spec.Num spec.PyBase spec.PyLib model.GraphsIter.
From TV Require Import gen.IRAst gen.Names gen.ExhaustAst gen.Exhaust gen.IterGraphs gen.GlueGen.
From TV Require Import gen.AppendGen gen.GenerateIR.
From TV Require proofs.Certs proofs.GenAppend_decl.
Import ListNotations.
Open Scope bool_scope.

(** * 1. [sorted(xs, key=..., reverse=True)]: a permutation, sorted by decreasing key, STABLE *)

Section SORT.
  Context {A : Type}.
  Implicit Types (x : Z * A) (l : list (Z * A)).

  Lemma insert_desc_perm x l : Permutation (insert_desc x l) (x :: l).
  Proof.
    induction l as [|y r IH]; cbn; auto.
    destruct (fst y >? fst x)%Z; auto.
    rewrite IH. apply perm_swap.
  Qed.

  Theorem gen_sorted_desc_perm l : Permutation (py_sorted_desc l) l.
  Proof.
    induction l as [|x r IH]; cbn; auto. rewrite insert_desc_perm. auto.
  Qed.

  Definition ge_key (x y : Z * A) : Prop := (fst x >= fst y)%Z.

  Lemma insert_desc_sorted x l : Sorted ge_key l -> Sorted ge_key (insert_desc x l).
  Proof.
    induction l as [|y r IH]; intros S; cbn.
    - repeat constructor.
    - destruct (fst y >? fst x)%Z eqn:E.
      + inversion S as [|? ? S' Hd]; subst. constructor; auto.
        destruct r as [|z r']; cbn.
        * constructor. unfold ge_key. apply Z.gtb_lt in E. lia.
        * destruct (fst z >? fst x)%Z eqn:E2.
          -- inversion Hd; subst. constructor; auto.
          -- constructor. unfold ge_key. apply Z.gtb_lt in E. lia.
      + constructor; auto. constructor. unfold ge_key.
        destruct (Z.gtb_spec (fst y) (fst x)); try discriminate. lia.
  Qed.

  Theorem gen_sorted_desc_sorted l : Sorted ge_key (py_sorted_desc l).
  Proof.
    induction l as [|x r IH]; cbn; [constructor|]. apply insert_desc_sorted; auto.
  Qed.

  (** stability: the elements of any given key appear in their original relative order *)
  Lemma insert_desc_filter k x l :
    Sorted ge_key l ->
    filter (fun y => Z.eqb (fst y) k) (insert_desc x l) = filter (fun y => Z.eqb (fst y) k) (x :: l).
  Proof.
    induction l as [|y r IH]; intros S; cbn; auto.
    inversion S as [|? ? S' Hd]; subst. specialize (IH S').
    destruct (fst y >? fst x)%Z eqn:E; cbn.
    - rewrite IH. cbn. destruct (Z.eqb_spec (fst y) k), (Z.eqb_spec (fst x) k); auto.
      apply Z.gtb_lt in E. lia.
    - reflexivity.
  Qed.

  Theorem gen_sorted_desc_stable k l :
    filter (fun y => Z.eqb (fst y) k) (py_sorted_desc l) = filter (fun y => Z.eqb (fst y) k) l.
  Proof.
    induction l as [|x r IH]; [reflexivity|].
    change (py_sorted_desc (x :: r)) with (insert_desc x (py_sorted_desc r)).
    rewrite insert_desc_filter by apply gen_sorted_desc_sorted. cbn [filter]. rewrite IH. reflexivity.
  Qed.
End SORT.

(** * 2. weakest preconditions in the option monad *)
Definition wp {T} (o : option T) (Q : T -> Prop) : Prop := forall r, o = Some r -> Q r.

Lemma wp_some {T} (v : T) (Q : T -> Prop) : Q v -> wp (Some v) Q.
Proof. intros H r E. injection E as <-. exact H. Qed.
Lemma wp_none {T} (Q : T -> Prop) : wp None Q.
Proof. intros r E. discriminate. Qed.
Lemma wp_bind {A B} (x : option A) (f : A -> option B) (P : A -> Prop) (Q : B -> Prop) :
  wp x P -> (forall v, P v -> wp (f v) Q) -> wp (obind x f) Q.
Proof. intros Hx Hf r E. destruct x as [v|]; cbn in E; [|discriminate]. exact (Hf v (Hx v eq_refl) r E). Qed.
Lemma wp_bind_any {A B} (x : option A) (f : A -> option B) (Q : B -> Prop) :
  (forall v, wp (f v) Q) -> wp (obind x f) Q.
Proof. intros Hf. apply wp_bind with (P := fun _ => True); [intros ? ?; exact I | intros v _; apply Hf]. Qed.
Lemma wp_if {T} (c : bool) (a b : option T) Q : wp a Q -> wp b Q -> wp (if c then a else b) Q.
Proof. destruct c; auto. Qed.
Lemma wp_ofold {A B} (f : B -> A -> option B) (l : list A) (init : B) (I : B -> Prop) :
  (forall acc x, I acc -> wp (f acc x) I) -> I init -> wp (ofold f l init) I.
Proof.
  intros Hf. revert init. induction l as [|x l IH]; intros init Hi r E; cbn in E.
  - injection E as <-. exact Hi.
  - destruct (f init x) as [a|] eqn:Ef; [|discriminate]. exact (IH a (Hf init x Hi a Ef) r E).
Qed.
Lemma wp_conseq {T} (o : option T) (P Q : T -> Prop) : wp o P -> (forall v, P v -> Q v) -> wp o Q.
Proof. intros H HPQ r E. auto. Qed.

(** * 3. the invariant: no allocation form, no field store *)
Definition okS (s : stmt) : bool := Certs.no_alloc s && Certs.no_field_store s.
Definition okE (e : expr) : bool := negb (Certs.is_alloc e).

Class Good (T : Type) := good : T -> Prop.
#[export] Instance good_sb : Good sb := fun b => forallb okS (sb_lines b) = true.
#[export] Instance good_stmt : Good stmt := fun s => okS s = true.
#[export] Instance good_expr : Good expr := fun e => okE e = true.
#[export] Instance good_list {T} `{Good T} : Good (list T) := fun l => Forall good l.
#[export] Instance good_prod {A B} `{Good A} `{Good B} : Good (A * B) := fun p => good (fst p) /\ good (snd p).
#[export] Instance good_option {T} `{Good T} : Good (option T) := fun o => match o with Some x => good x | None => True end.
#[export] Instance good_default {T} : Good T | 100 := fun _ => True.

Lemma wp_bind_good {A B} `{Good A} (x : option A) (f : A -> option B) (Q : B -> Prop) :
  wp x good -> (forall v, good v -> wp (f v) Q) -> wp (obind x f) Q.
Proof. apply wp_bind. Qed.

Lemma forallb_andb {A} (f g : A -> bool) l : forallb f l && forallb g l = forallb (fun x => f x && g x) l.
Proof. induction l as [|x l IH]; cbn; auto. rewrite <- IH. destruct (f x), (g x), (forallb f l), (forallb g l); auto. Qed.

Lemma okS_block l c : okS (Block l c) = forallb okS l.
Proof. unfold okS. cbn [Certs.no_alloc Certs.no_field_store]. apply forallb_andb. Qed.

Lemma good_sb_nil c : good (MkSB [] c).
Proof. reflexivity. Qed.
Lemma good_append_stmt (s : sb) x : good s -> okS x = true -> good (sb_append_stmt s x).
Proof. unfold good, good_sb, sb_append_stmt. cbn. intros H Hx. rewrite forallb_app, H. cbn. rewrite Hx. reflexivity. Qed.
Lemma good_finalize (s : sb) : good s -> okS (sb_finalize s) = true.
Proof. unfold sb_finalize. rewrite okS_block. auto. Qed.
Lemma good_append_sb (s x : sb) : good s -> good x -> good (sb_append_sb s x).
Proof.
  unfold sb_append_sb. intros Hs Hx. destruct (sb_comment x).
  - apply (good_append_stmt s _ Hs). apply good_finalize. exact Hx.
  - unfold good, good_sb in *. cbn. rewrite forallb_app, Hs, Hx. reflexivity.
Qed.
Lemma good_close_branch (o : sb) c (i : sb) : good o -> good i -> good (sb_close_branch o c i).
Proof.
  intros Ho Hi. apply good_append_stmt; auto. unfold okS. cbn [Certs.no_alloc Certs.no_field_store forallb].
  pose proof (okS_block (sb_lines i) None) as E. unfold good, good_sb in Hi. rewrite Hi in E.
  unfold okS in E. cbn [Certs.no_alloc Certs.no_field_store] in E. apply andb_true_iff in E as [E1 E2]. rewrite E1, E2. reflexivity.
Qed.
Lemma good_close_loop (o : sb) c (i : sb) : good o -> good i -> good (sb_close_loop o c i).
Proof.
  intros Ho Hi. apply good_append_stmt; auto. unfold okS. cbn [Certs.no_alloc Certs.no_field_store].
  pose proof (okS_block (sb_lines i) None) as E. unfold good, good_sb in Hi. rewrite Hi in E.
  unfold okS in E. cbn [Certs.no_alloc Certs.no_field_store] in E. exact E.
Qed.
Lemma good_close_block (o : sb) c (i : sb) : good o -> good i -> good (sb_close_block o c i).
Proof. intros Ho Hi. apply good_append_stmt; auto. rewrite okS_block. exact Hi. Qed.

(** * 4. leaves *)
Lemma okE_to_ir e : okE (to_ir e) = true.
Proof. destruct e; reflexivity. Qed.

Lemma good_and_join l : okE (And_join l) = true.
Proof.
  unfold And_join. generalize (map (fun operand => to_expression operand) l) as xs. intros xs.
  assert (G : forall xs a, okE a = true -> okE (fold_left And xs a) = true).
  { induction xs0 as [|x xs0 IH]; cbn; auto. }
  apply G. reflexivity.
Qed.

Lemma wp_min_join (l : list expr) : good l -> wp (Min_join (map (fun x_ => XE x_) l)) good.
Proof.
  intros Hl r E. unfold Min_join in E. rewrite map_map in E. cbn [to_expression] in E. rewrite map_id in E.
  destruct l as [|x l]; cbn in E; [discriminate|]. injection E as <-.
  inversion Hl; subst.
  assert (G : forall xs a, okE a = true -> okE (fold_left Min xs a) = true).
  { induction xs as [|y xs IH]; cbn; auto. }
  apply G. assumption.
Qed.

Lemma good_write_sparse_initialization leaf : good (write_sparse_initialization leaf).
Proof. reflexivity. Qed.

Lemma wp_bucket_write_declarations b rhs : okE rhs = true -> wp (BucketOutput_write_declarations b rhs) good.
Proof.
  intros Hr r E. unfold BucketOutput_write_declarations in E.
  destruct (BucketOutput_dimension_names b); cbn [obind] in E; [|discriminate]. injection E as <-.
  destruct rhs; try discriminate Hr; reflexivity.
Qed.

Lemma wp_next_output_compute o io : wp (Output_next_output o io KernelType_compute) good.
Proof.
  intros r E. destruct o as [a|b]; cbn [Output_next_output] in E.
  - unfold AppendOutput_next_output in E.
    destruct (match io with Some iteration_output => _ | None => false end).
    + injection E as <-. repeat split.
    + destruct (forallb _ _); [|discriminate].
      destruct (BucketOutput_init _ _ _) as [nb|]; cbn [obind] in E; [|discriminate].
      cbn [KernelType_is_compute KernelType_eqb orb] in E.
      match type of E with obind (obind ?x _) _ = _ => destruct x as [d|] eqn:Ed end; cbn [obind] in E; [|discriminate].
      injection E as <-. repeat split. cbn [fst snd]. eapply wp_bucket_write_declarations; [|exact Ed]. reflexivity.
  - injection E as <-. unfold BucketOutput_next_output. destruct io; repeat split.
Qed.

Lemma wp_write_assignment o rhs k : okE rhs = true -> wp (Output_write_assignment o rhs k) good.
Proof.
  intros Hr r E. destruct o as [a|b]; cbn [Output_write_assignment] in E.
  - unfold AppendOutput_write_assignment in E. destruct (negb _); [discriminate|]. injection E as <-.
    destruct rhs; try discriminate Hr; reflexivity.
  - unfold BucketOutput_write_assignment in E.
    repeat match type of E with obind ?x _ = _ => destruct x; cbn [obind] in E; [|discriminate] end.
    injection E as <-. reflexivity.
Qed.

Lemma written_flags_plain o : Forall (fun e => Certs.plain_target e = true) (Output_written_flags o).
Proof.
  unfold Output_written_flags. apply Forall_forall. intros e He. apply in_map_iff in He as ((l & m) & <- & _). reflexivity.
Qed.

Lemma wp_of_good {T} `{Good T} (o : option T) : good o -> wp o good.
Proof. intros Ho r E. subst o. exact Ho. Qed.

Lemma okS_branch_join (l : list (expr * stmt)) :
  good l -> okS (Branch_join (map (fun '(c0_, c1_) => (XE c0_, c1_)) l)) = true.
Proof.
  intros Hl. unfold Branch_join. rewrite <- map_rev.
  assert (Hr : Forall good (rev l)) by (apply Forall_rev; exact Hl).
  revert Hr. generalize (rev l) as xs. intros xs Hxs.
  assert (G : forall acc, okS acc = true ->
              okS (fold_left (fun previous (leaf : exarg * stmt) =>
                                Branch (to_expression (let '(p_, _) := leaf in p_)) (let '(_, p_) := leaf in p_) previous)
                             (map (fun '(c0_, c1_) => (XE c0_, c1_)) xs) acc) = true).
  { induction Hxs as [|[c b] xs [_ Hb] Hxs IH]; intros acc Ha; cbn [map fold_left]; auto.
    apply IH. cbn [fst snd] in Hb. unfold good, good_stmt in Hb.
    unfold okS in *. cbn [Certs.no_alloc Certs.no_field_store].
    apply andb_true_iff in Hb as [B1 B2]. apply andb_true_iff in Ha as [A1 A2]. rewrite B1, B2, A1, A2. reflexivity. }
  apply G. reflexivity.
Qed.

(** * 5. the three registered functions, compute kernels *)
Create HintDb wpdb.
#[export] Hint Resolve wp_next_output_compute wp_min_join : wpdb.

Ltac good_expr_solve :=
  unfold good, good_expr, good_stmt, okS, okE in *;
  first [ reflexivity
        | apply good_and_join
        | apply okS_branch_join; assumption
        | cbn; repeat match goal with H : negb (Certs.is_alloc ?e) = true |- context [Certs.is_alloc ?e] => rewrite (proj1 (negb_true_iff _) H) end; reflexivity
        | match goal with H : negb (Certs.is_alloc ?e) = true |- _ => destruct e; try discriminate H; reflexivity end
        | idtac ].

Ltac good_solve :=
  cbn [fst snd] in *;
  lazymatch goal with
  | |- good (sb_append_stmt _ _) => apply good_append_stmt; [good_solve | good_expr_solve]
  | |- good (sb_append_sb _ _) => apply good_append_sb; good_solve
  | |- good (sb_close_branch _ _ _) => apply good_close_branch; good_solve
  | |- good (sb_close_loop _ _ _) => apply good_close_loop; good_solve
  | |- good (sb_close_block _ _ _) => apply good_close_block; good_solve
  | |- good (MkSB [] _) => reflexivity
  | |- good (write_sparse_initialization _) => reflexivity
  | |- good (_, _) => split; good_solve
  | |- good_prod (_, _) => split; good_solve
  | |- good (Some _) => unfold good, good_option; good_solve
  | |- good (@None _) => exact I
  | |- @good (list _) _ (_ ++ [_])%list => apply Forall_app; split; [assumption | constructor; [good_solve | constructor]]
  | |- @good (list _) _ [] => constructor
  | |- @good (list _) _ _ => first [assumption | solve [apply Forall_forall; intros ? _; good_solve] | idtac]
  | |- @good stmt _ (sb_finalize _) => apply good_finalize; good_solve
  | |- @good expr _ _ => first [assumption | good_expr_solve]
  | |- @good stmt _ _ => first [assumption | good_expr_solve]
  | |- _ => first [ assumption | exact I | solve [repeat split; exact I]
                  | solve [unfold good, good_option, good_prod, good_default;
                           repeat match goal with |- context [match ?x with _ => _ end] => destruct x end;
                           repeat split; exact I]
                  | idtac ]
  end.

Ltac destruct_good :=
  repeat match goal with
         | H : @good (_ * _) _ _ |- _ => destruct H
         | H : good_prod _ |- _ => destruct H
         end; cbn [fst snd] in *.

Ltac wp_go :=
  cbv beta;
  lazymatch goal with
  | |- wp (Some _) _ => apply wp_some; wp_post
  | |- wp None _ => apply wp_none
  | |- wp (match ?x with Some _ => _ | None => _ end) _ => first [apply wp_if | destruct x; destruct_good]; wp_go
  | |- wp (if ?c then _ else _) _ => first [apply wp_if | destruct c; destruct_good]; wp_go
  | |- wp (let '(_, _) := ?p in _) _ => destruct p; destruct_good; wp_go
  | |- wp (ofold _ _ _) _ =>
      apply wp_ofold; [ let acc := fresh "acc" in let x := fresh "x" in let Ha := fresh "Ha" in
                        intros acc x Ha; wp_go
                      | good_solve ]
  | |- wp (obind ?x ?f) _ =>
      apply wp_bind_good;
      [ first [ solve [eauto 3 with wpdb] | wp_go ]
      | let v := fresh "v" in let Hv := fresh "Hv" in intros v Hv; wp_go ]
  | |- wp _ good => first [ solve [eauto 3 with wpdb] | solve [apply wp_of_good; assumption] | solve [intros ? ?; good_solve] | idtac ]
  | |- _ => idtac
  end
with wp_post :=
  lazymatch goal with
  | |- wp _ _ => wp_go
  | |- good _ => destruct_good; good_solve
  | |- _ => idtac
  end.

Lemma terminal_compute self output :
  wp (to_ir_terminal_expression self output KernelType_compute) good.
Proof.
  unfold to_ir_terminal_expression. destruct self; try solve [apply wp_none].
  cbv zeta. cbn [KernelType_is_compute KernelType_eqb orb].
  apply wp_bind_good.
  - apply wp_if; [|apply wp_some; reflexivity].
    apply wp_bind_good; [|intros v Hv; apply wp_some; exact Hv].
    pose proof (written_flags_plain output) as P. revert P. generalize (Output_written_flags output) as fl.
    intros fl P. generalize (good_sb_nil (Some "*** Computation of expression ***"%string)).
    generalize (MkSB [] (Some "*** Computation of expression ***"%string)) as s0.
    induction P as [|e fl He P IH]; intros s0 H0 r E; cbn in E.
    + injection E as <-. exact H0.
    + eapply IH; [|exact E]. apply good_append_stmt; [exact H0|].
      unfold okS. cbn. rewrite He. reflexivity.
  - intros v Hv. apply wp_bind_good.
    + apply wp_bind_good; [apply wp_write_assignment, okE_to_ir|].
      intros v0 Hv0. apply wp_some. good_solve.
    + intros v0 Hv0. apply wp_some. exact Hv0.
Qed.

Lemma sum_compute rec_ self output :
  (forall g o, wp (rec_ g o KernelType_compute) good) ->
  wp (to_ir_sum rec_ self output KernelType_compute) good.
Proof.
  intros IH. unfold to_ir_sum. destruct self; try solve [apply wp_none].
  cbv zeta. cbn [KernelType_is_compute KernelType_eqb orb].
  wp_go.
Qed.

Lemma iteration_compute fuel rec_ self output :
  (forall g o, wp (rec_ g o KernelType_compute) good) ->
  wp (to_ir_iteration_variable fuel rec_ self output KernelType_compute) good.
Proof.
  intros IH. unfold to_ir_iteration_variable. destruct self; try solve [apply wp_none].
  cbv zeta. cbn [KernelType_is_compute KernelType_is_assemble KernelType_eqb orb andb negb obind].
  wp_go.
Qed.

Theorem family_compute fuel n : forall g o, wp (to_ir_iteration_graph fuel n g o KernelType_compute) good.
Proof.
  induction n as [|n IH]; intros g o; cbn [to_ir_iteration_graph]; [apply wp_none|].
  destruct g.
  - apply terminal_compute.
  - apply iteration_compute. intros g' o'. apply IH.
  - apply sum_compute. intros g' o'. apply IH.
Qed.

Lemma wp_decl_compute cap ao : wp (AppendOutput_write_declarations cap ao KernelType_compute) good.
Proof.
  intros d Hd. pose proof (GenAppend_decl.gen_declarations_compute_all cap ao) as S. rewrite Hd in S.
  cbn [option_map] in S. injection S as S. unfold good, good_sb. rewrite S.
  destruct (GenAppend_decl.compressed_ptr_decls_certs (Tensor_id (AppendOutput_output ao)) (Tensor_modes (AppendOutput_output ao)) 0) as (A & B & _).
  unfold okS. rewrite <- forallb_andb, A, B. reflexivity.
Qed.

Lemma wp_cleanup_compute ao : wp (AppendOutput_write_cleanup ao KernelType_compute) good.
Proof. intros c Hc. change (AppendOutput_write_cleanup ao KernelType_compute) with
  (Some (MkSB [] (Some ("Assembling output tensor " ++ Tensor_name (AppendOutput_output ao))%string))) in Hc.
  injection Hc as <-. reflexivity. Qed.

#[export] Hint Resolve wp_decl_compute wp_cleanup_compute family_compute : wpdb.

(** (a) the compute kernel of EVERY definition and EVERY graph, for every fuel and every initial capacity:
    no allocation form, no store into a tensor field *)
Theorem gen_compute_cert_fuel cap fuel d g f :
  generate_ir_fuel cap fuel d g KernelType_compute = Some f -> Certs.compute_cert f = true.
Proof.
  revert f. change (wp (generate_ir_fuel cap fuel d g KernelType_compute) (fun f => Certs.compute_cert f = true)).
  unfold generate_ir_fuel. cbv zeta.
  wp_go.
  unfold Certs.compute_cert. apply (good_finalize _). good_solve.
Qed.

(** the same on the entry point (the fuel the translator supplies, gen/GlueGen.v's KernelType) *)
Theorem gen_compute_cert cap d g f :
  generate_ir cap d g GlueGen.KernelType_compute = Some f -> Certs.compute_cert f = true.
Proof. unfold generate_ir. cbn [conv_kernel_type]. apply gen_compute_cert_fuel. Qed.

(** ... and as the IR generator handed to gen/GlueGen.v's generate_module_tensora *)
Theorem gen_compute_cert_pres cap d g f :
  generate_ir_pres cap d g GlueGen.KernelType_compute = POk f -> Certs.compute_cert f = true.
Proof.
  unfold generate_ir_pres. destruct (generate_ir cap d g GlueGen.KernelType_compute) as [f'|] eqn:E; cbn; [|discriminate].
  intros H. injection H as <-. eapply gen_compute_cert; eauto.
Qed.

(** every fragment the dispatch family returns in a compute kernel (any node, any output, any depth) *)
Theorem gen_family_compute_fragments fuel n g o s :
  to_ir_iteration_graph fuel n g o KernelType_compute = Some s ->
  Certs.no_alloc (sb_finalize s) = true /\ Certs.no_field_store (sb_finalize s) = true.
Proof.
  intros E. pose proof (good_finalize s (family_compute fuel n g o s E)) as H.
  unfold okS in H. apply andb_true_iff in H. exact H.
Qed.

(** (d) an assemble kernel whose output has no compressed layer: an iteration node emits NOTHING (whatever is below) *)
Theorem gen_dense_assemble_emits_nothing fuel rec_ iv nxt o :
  Output_has_sparse_layer o = false ->
  to_ir_iteration_variable fuel rec_ (IgIterationNode iv None nxt) o KernelType_assemble
  = Some (MkSB [] (Some ("*** Iteration over " ++ iv ++ " ***")%string)).
Proof. intros H. unfold to_ir_iteration_variable. cbn. rewrite H. reflexivity. Qed.

Example gen_compute_cert_nonvacuous :
  exists f, generate_ir None
      (MkDefinition (IdTensor "0_a" "a" ["i"] [ExhaustAst.Mode_compressed])
                    [("a", MkFormat [ExhaustAst.Mode_compressed] [0%Z]); ("b", MkFormat [ExhaustAst.Mode_compressed] [0%Z])]
                    [("i", MkTensorDimension "a" 0%Z)])
      (IgIterationNode "i" (Some (ExhaustAst.MkTensorLayer (IdTensor "0_a" "a" ["i"] [ExhaustAst.Mode_compressed]) 0%Z))
         (IgTerminalNode (IdTensor "1_b" "b" ["i"] [ExhaustAst.Mode_compressed])))
      GlueGen.KernelType_compute = Some f.
Proof. eexists. vm_compute. reflexivity. Qed.
