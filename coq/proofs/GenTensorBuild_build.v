(** TIE "tensorbuild": the regenerated construction pipeline (gen/TensorBuildGen.v, from
    /repo/src/tensora/tensor.py) against model/TensorBuild.v. *)
From Coq Require Import ZArith List Bool Lia.
From TV Require Import spec.PyBase spec.PyLib spec.Storage model.TensorBuild model.TensorBuildPy
  proofs.TensorBuildLemmas proofs.TensorBuildTop proofs.TensorBuildMain proofs.GenTensorBuild_lib proofs.GenTensorBuild_tree proofs.GenTensorBuild_emit.
From TV Require gen.TensorBuildGen.
Module G := TensorBuildGen.
Import ListNotations.
Open Scope Z_scope.

Definition gm (m : mode) : G.Mode :=
  match m with MDense => G.Mode_dense | MCompressed => G.Mode_compressed end.

Lemma cm_gm ms : map cm (map gm ms) = ms.
Proof. induction ms as [|[] ms IH]; cbn; now rewrite ?IH. Qed.

(** the Format object denoted by a format of the hand model *)
Definition gfmt (f : format) : G.Format :=
  G.mkFormat (map gm (fmodes f)) (map Z.of_nat (fordering f)).

(** [indices] as handed to taco_structure_to_cffi *)
Definition indices_of (ls : list level) : list (list (list Z)) :=
  map (fun l => match l with LDense => [] | LCompressed pos crd => [pos; crd] end) ls.

Lemma indices_of_levels ms : forall ds ss, length ds = length ms -> length ss = length ms ->
  indices_of (levels_of (combine ms ds) ss) = concs (map gm ms) ss.
Proof.
  induction ms as [|m ms IH]; intros [|d ds] [|s ss] Hd Hs; try discriminate; [reflexivity|].
  cbn. rewrite IH by (cbn in *; lia). destruct m; reflexivity.
Qed.

Lemma zipapp_nil_l {X} (b : list (list X)) : zipapp (repeat [] (length b)) b = b.
Proof. induction b; cbn; [reflexivity|]. now rewrite IHb. Qed.

Notation arrays := (G.tree_to_indices_and_values Z 0 Z.add Z.eqb).

Lemma init_loop (f : list (list (list Z)) -> G.Mode * Z -> R (list (list (list Z)))) :
  (forall acc m d, f acc (m, d) = Val (acc ++ [conc m []])) ->
  forall ms ds acc, length ds = length ms ->
  rfold_zip_strict f ms ds acc = Val (acc ++ concs ms (repeat [] (length ms))).
Proof.
  intros Hf. induction ms as [|m ms IH]; intros [|d ds] acc H; try discriminate; cbn.
  - now rewrite app_nil_r.
  - rewrite Hf. cbn. rewrite IH by (cbn in H; lia). rewrite <- app_assoc. reflexivity.
Qed.

(** tree_to_indices_and_values on the trie of [les] gives the arrays of [emit] *)
Lemma arrays_ok ms ds les ot fuel :
  length ds = length ms -> (length ms <= fuel)%nat -> treeinv (length ms) ot les ->
  arrays fuel ot (map gm ms) ds
  = Val (indices_of (fst (emit (combine ms ds) [les])), snd (emit (combine ms ds) [les])).
Proof.
  intros Hd Hf Hinv. rewrite emit_emit_segs. cbn [fst snd].
  rewrite indices_of_levels; [|assumption|now rewrite emit_segs_length, combine_length, Hd, Nat.min_id].
  unfold G.tree_to_indices_and_values. cbv zeta.
  erewrite init_loop; [| intros acc [] d; reflexivity | now rewrite map_length].
  cbn [rbind app]. rewrite map_length.
  destruct ms as [|m mr]; destruct ds as [|dm dr]; try discriminate.
  - cbn [length Z.of_nat Z.eqb]. destruct ot as [t|]; cbn in Hinv.
    + destruct Hinv as [_ ->]. reflexivity.
    + subst les. reflexivity.
  - replace (Z.of_nat (length (dm :: dr)) =? 0) with false by (symmetry; apply Z.eqb_neq; cbn [length]; lia).
    assert (Hrep : exists t, rep (S (length mr)) t les /\
                   match ot with Some t' => t' = t | None => t = PDict [] end).
    { destruct ot as [t|]; cbn in Hinv.
      - exists t. split; [apply Hinv|reflexivity].
      - subst les. exists (PDict []). split; [|reflexivity]. apply rep_S. exists []. split; [reflexivity|apply repd_nil]. }
    destruct Hrep as (t & Hrep & Ht).
    pose proof (dfs_ok (map gm mr) (gm m) dr dm fuel [] [] [] (repeat [] (S (length mr))) [] t les) as X.
    rewrite !map_length in X. cbn [length app] in X.
    specialize (X ltac:(cbn in *; lia) ltac:(cbn in *; lia) ltac:(now rewrite repeat_length) eq_refl eq_refl Hrep).
    change (gm m :: map gm mr) with (map gm (m :: mr)) in X. rewrite cm_gm in X.
    assert (Hz : forall b : list (list (list Z)), length b = S (length mr) -> zipapp (repeat [] (S (length mr))) b = b).
    { intros b Hb. rewrite <- Hb. apply zipapp_nil_l. }
    rewrite Hz in X by (rewrite emit_segs_length, combine_length; cbn [length] in *; lia).
    cbn [length map]. cbn [Nat.add map] in X. change (Z.of_nat 0) with 0 in X.
    destruct ot as [t'|]; subst; cbn [rbind]; cbn [length] in X; rewrite X; reflexivity.
Qed.

(** ** from_aos up to the call of taco_structure_to_cffi *)
Lemma rbind_Val_r {A} (r : R A) : rbind r (fun x => Val x) = r.
Proof. destruct r; reflexivity. Qed.

Lemma rmap_of_opt {A B} (f : A -> R B) (g : A -> option B) l :
  (forall x, f x = of_opt (g x)) -> rmap f l = of_opt (map_opt g l).
Proof.
  intros H. induction l as [|a l IH]; cbn; [reflexivity|]. rewrite H, IH.
  destruct (g a); cbn; [|reflexivity]. destruct (map_opt g l); reflexivity.
Qed.

Lemma rmap_getitem {A} (l : list A) ord :
  rmap (fun i => r_getitem l i) (map Z.of_nat ord) = of_opt (map_opt (fun i => nth_error l i) ord).
Proof.
  induction ord as [|i ord IH]; cbn; [reflexivity|]. rewrite r_getitem_nat, IH.
  destruct (nth_error l i); cbn; [|reflexivity]. destruct (map_opt _ ord); reflexivity.
Qed.

Lemma map_opt_pairs ord (es : list entry) :
  map_opt (fun e : entry => match permute_coord ord (fst e) with Some lc => Some (lc, snd e) | None => None end) es
  = match map_opt (permute_coord ord) (map fst es) with
    | Some lcs => Some (combine lcs (map snd es))
    | None => None
    end.
Proof.
  induction es as [|[c v] es IH]; cbn; [reflexivity|]. rewrite IH.
  destruct (permute_coord ord c); [|reflexivity]. destruct (map_opt (permute_coord ord) (map fst es)); reflexivity.
Qed.

Lemma map_opt_Forall {A B} (f : A -> option B) (P : B -> Prop) l r :
  (forall a b, f a = Some b -> P b) -> map_opt f l = Some r -> Forall P r.
Proof.
  intros H. revert r. induction l as [|a l IH]; cbn; intros r E.
  - inversion E. constructor.
  - destruct (f a) eqn:Ea; [|discriminate]. destruct (map_opt f l); [|discriminate].
    inversion E; subst. constructor; eauto.
Qed.

Definition permute_entry (ord : list nat) (e : entry) : option entry :=
  match permute_coord ord (fst e) with Some lc => Some (lc, snd e) | None => None end.

Theorem gen_from_aos_raw fmt dims (es : list entry) fuel :
  valid_formatb fmt = true -> (length (fmodes fmt) <= fuel)%nat ->
  G.from_aos Z 0 Z.add Z.eqb fuel (map fst es) (map snd es) dims (gfmt fmt)
  = match level_dims_of (fordering fmt) dims, map_opt (permute_entry (fordering fmt)) es with
    | Some ldims, Some les =>
        let t := raw_build fmt dims ldims les in
        G.taco_structure_to_cffi Z 0 Z.add Z.eqb (indices_of (levels t)) (vals t)
          (map G.Mode_c_int (map gm (fmodes fmt))) dims (map Z.of_nat (fordering fmt))
    | _, _ => Exc
    end.
Proof.
  intros Hv Hf. unfold valid_formatb in Hv. apply andb_true_iff in Hv. destruct Hv as [Hlen _].
  apply Nat.eqb_eq in Hlen.
  unfold G.from_aos, gfmt. cbn [G.Format_modes G.Format_ordering]. cbv zeta.
  rewrite rmap_getitem. unfold level_dims_of.
  destruct (map_opt (fun i => nth_error dims i) (fordering fmt)) as [ldims|] eqn:El; cbn [of_opt rbind]; [|reflexivity].
  rewrite (rmap_of_opt _ (permute_coord (fordering fmt))) by (intros c; apply rmap_getitem).
  unfold permute_entry. rewrite map_opt_pairs.
  destruct (map_opt (permute_coord (fordering fmt)) (map fst es)) as [lcs|] eqn:Ec; cbn [of_opt rbind]; [|reflexivity].
  assert (Hl : length lcs = length (map snd es)).
  { apply map_opt_length in Ec. now rewrite Ec, !map_length. }
  remember (combine lcs (map snd es)) as les eqn:Eles.
  assert (E1 : lcs = map fst les) by (subst les; now rewrite TensorBuildTop.map_fst_combine).
  assert (E2 : map snd es = map snd les) by (subst les; now rewrite TensorBuildTop.map_snd_combine).
  clear Eles.
  assert (Hd : Forall (fun e : entry => length (fst e) = length (fmodes fmt)) les).
  { apply Forall_forall. intros e He. rewrite Hlen.
    assert (In (fst e) lcs) by (rewrite E1; now apply in_map).
    assert (HF : Forall (fun lc => length lc = length (fordering fmt)) lcs).
    { eapply map_opt_Forall; [|exact Ec]. intros a b Hab. unfold permute_coord in Hab.
      now apply map_opt_length in Hab. }
    rewrite Forall_forall in HF. now apply HF. }
  rewrite E1, E2.
  destruct (ctt_ok (length (fmodes fmt)) fuel les Hf Hd) as (ot & Et & Hinv).
  rewrite Et. cbn [rbind].
  rewrite (arrays_ok (fmodes fmt) ldims les ot fuel); [|apply map_opt_length in El; lia|assumption|assumption].
  cbn [rbind]. unfold raw_build.
  unfold node in *.
  match goal with |- context [emit ?a ?b] => destruct (emit a b) as [ls vs] end.
  cbn [fst snd levels vals]. apply rbind_Val_r.
Qed.

(** ** against [build] *)
Lemma build_Ok_raw fmt dims es t :
  build fmt dims es = Ok t ->
  exists ldims les, level_dims_of (fordering fmt) dims = Some ldims
    /\ map_opt (permute_entry (fordering fmt)) es = Some les
    /\ t = raw_build fmt dims ldims les /\ validate t = true /\ valid_formatb fmt = true.
Proof.
  unfold build. destruct (valid_formatb fmt) eqn:Hv; cbn [negb]; [|discriminate].
  destruct (level_dims_of (fordering fmt) dims) as [ldims|]; [|discriminate].
  match goal with |- context [map_opt ?f es] => change f with (permute_entry (fordering fmt)) end.
  match goal with |- context [match ?x with Some _ => _ | None => Err EIndex end] => destruct x as [les|] eqn:Eles end; [|intros X; discriminate X].
  destruct (validate (raw_build fmt dims ldims les)) eqn:Hval; [|intros X; discriminate X].
  intros E. inversion E; subst. exists ldims, les. repeat split; auto.
Qed.

(** whenever the hand model builds [t], the regenerated from_aos hands exactly the arrays of [t]
    (with the mode ints, the dimensions and the ordering) to taco_structure_to_cffi *)
Theorem gen_from_aos_of_build fmt dims (es : list entry) fuel t :
  (length (fmodes fmt) <= fuel)%nat -> build fmt dims es = Ok t ->
  G.from_aos Z 0 Z.add Z.eqb fuel (map fst es) (map snd es) dims (gfmt fmt)
  = G.taco_structure_to_cffi Z 0 Z.add Z.eqb (indices_of (levels t)) (vals t)
      (map G.Mode_c_int (map gm (fmodes fmt))) dims (map Z.of_nat (fordering fmt)).
Proof.
  intros Hf Hb. destruct (build_Ok_raw _ _ _ _ Hb) as (ldims & les & E1 & E2 & -> & _ & Hv).
  rewrite (gen_from_aos_raw fmt dims es fuel Hv Hf), E1, E2. reflexivity.
Qed.

(** an IndexError of the hand model (dimensions or a coordinate shorter than the ordering needs)
    is an exception of the regenerated function *)
Theorem gen_from_aos_index_error fmt dims (es : list entry) fuel :
  (length (fmodes fmt) <= fuel)%nat -> build fmt dims es = Err EIndex ->
  G.from_aos Z 0 Z.add Z.eqb fuel (map fst es) (map snd es) dims (gfmt fmt) = Exc.
Proof.
  intros Hf Hb. unfold build in Hb. destruct (valid_formatb fmt) eqn:Hv; cbn [negb] in Hb; [|discriminate].
  rewrite (gen_from_aos_raw fmt dims es fuel Hv Hf).
  destruct (level_dims_of (fordering fmt) dims) as [ldims|]; [|reflexivity].
  match type of Hb with context [match ?x with Some _ => _ | None => Err EIndex end] =>
    destruct x as [les|] eqn:Eles end.
  - exfalso. match type of Hb with context [if ?c then _ else _] => destruct c end; discriminate.
  - unfold permute_entry, entry in *. rewrite Eles. reflexivity.
Qed.

(** from_dok is from_aos on the keys and values *)
Theorem gen_from_dok_is_from_aos fuel (d : list entry) dims f :
  G.from_dok Z 0 Z.add Z.eqb fuel d dims f = G.from_aos Z 0 Z.add Z.eqb fuel (map fst d) (map snd d) dims f.
Proof. reflexivity. Qed.

(** C09_roundtrip and C09_build_wf, restated with the regenerated from_aos: for every valid format,
    in-range input, the arrays that the regenerated function hands to taco_structure_to_cffi are those
    of a tensor [t] that is canonical, passes the model of the validation, and reads back as the
    summed input. *)
Theorem gen_roundtrip fmt dims es fuel :
  valid_formatb fmt = true -> dims_okb fmt dims = true -> all_in_rangeb dims es = true ->
  (length (fmodes fmt) <= fuel)%nat ->
  exists t,
    G.from_aos Z 0 Z.add Z.eqb fuel (map fst es) (map snd es) dims (gfmt fmt)
    = G.taco_structure_to_cffi Z 0 Z.add Z.eqb (indices_of (levels t)) (vals t)
        (map G.Mode_c_int (map gm (fmodes fmt))) dims (map Z.of_nat (fordering fmt))
    /\ build fmt dims es = Ok t
    /\ (forall c v, In (c, v) (to_dok_spec t) <-> v = sum_at c es /\ v <> 0)
    /\ NoDup (map fst (to_dok_spec t))
    /\ format_of t = fmt /\ Storage.dims t = dims
    /\ wf_tensorb true t = true /\ validate t = true.
Proof.
  intros Hv Hd Hr Hf.
  destruct (TensorBuildMain.main_roundtrip fmt dims es Hv Hd Hr) as (t & Hb & H1 & H2 & H3 & H4).
  destruct (TensorBuildMain.main_build_wf fmt dims es Hv Hd Hr) as (t' & Hb' & Hwf & Hval).
  rewrite Hb in Hb'. inversion Hb'; subst t'.
  exists t. split; [now apply gen_from_aos_of_build|]. split; [assumption|].
  split; [exact H1|]. split; [exact H2|]. split; [exact H3|]. split; [exact H4|]. split; assumption.
Qed.

