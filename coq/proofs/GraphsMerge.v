(** merge_add / merge_multiply / to_iteration_graphs_expression: every yielded expression graph
    carries no output layer and iterates no index variable twice on a path; well-formed requests
    never hit a failing lookup. *)
From Coq Require Import List String Bool Arith Lia Permutation.
From TV Require Import model.Graphs model.OutputOrder proofs.GraphsInd proofs.GraphsOrders proofs.GraphsSimplify.
Import ListNotations.
Open Scope list_scope.

Definition Tn : string -> bool := fun _ => false.

Definition egood (g : graph) : Prop := goodb Tn 0 g = true /\ nodup_paths g = true.

(** ** unfolding equations of merge_with *)
Lemma mw_TT : forall mk le re, merge_with mk (TerminalNode le) (TerminalNode re) = [TerminalNode (mk le re)].
Proof. reflexivity. Qed.
Lemma mw_IT : forall mk li lo ln re,
  merge_with mk (IterationNode li lo ln) (TerminalNode re)
  = map (IterationNode li lo) (merge_with mk ln (TerminalNode re)).
Proof. reflexivity. Qed.
Lemma mw_TI : forall mk le ri ro rn,
  merge_with mk (TerminalNode le) (IterationNode ri ro rn)
  = map (IterationNode ri ro) (merge_with mk (TerminalNode le) rn).
Proof. reflexivity. Qed.
Lemma mw_II : forall mk li lo ln ri ro rn,
  merge_with mk (IterationNode li lo ln) (IterationNode ri ro rn)
  = if String.eqb li ri then map (IterationNode li lo) (merge_with mk ln rn)
    else (if negb (mem li (later_indexes rn))
          then map (IterationNode li lo) (merge_with mk ln (IterationNode ri ro rn)) else [])
         ++ (if negb (mem ri (later_indexes ln))
             then map (IterationNode ri ro) (merge_with mk (IterationNode li lo ln) rn) else []).
Proof. reflexivity. Qed.
Lemma mw_S_ : forall mk nm ts r, merge_with mk (SumNode nm ts) r = [].
Proof. intros. destruct r; reflexivity. Qed.
Lemma mw__S : forall mk l nm ts, merge_with mk l (SumNode nm ts) = [].
Proof. intros. destruct l; reflexivity. Qed.

Lemma goodb_Tn_iter : forall i o n, goodb Tn 0 (IterationNode i o n) = true <-> o = None /\ goodb Tn 0 n = true.
Proof.
  intros i o n. simpl. unfold Tn at 1. destruct o; simpl; split; intros H.
  - discriminate.
  - destruct H; discriminate.
  - split; [reflexivity | exact H].
  - tauto.
Qed.

Lemma nodup_iter : forall i o n,
  nodup_paths (IterationNode i o n) = true <-> ~ In i (later_indexes n) /\ nodup_paths n = true.
Proof.
  intros. simpl. rewrite andb_true_iff, negb_true_iff, mem_false. tauto.
Qed.

Lemma merge_with_inv : forall mk l r g,
  In g (merge_with mk l r) ->
  incl (later_indexes g) (later_indexes l ++ later_indexes r)
  /\ (goodb Tn 0 l = true -> goodb Tn 0 r = true -> goodb Tn 0 g = true)
  /\ (nodup_paths l = true -> nodup_paths r = true -> nodup_paths g = true).
Proof.
  intros mk l. induction l as [le|li lo ln IHl|nm ts]; intros r.
  - induction r as [re|ri ro rn IHr|nm ts]; intros g H.
    + rewrite mw_TT in H. destruct H as [<-|[]]. simpl. repeat split; auto. intros x [].
    + rewrite mw_TI in H. apply in_map_iff in H as [g' [<- Hg']].
      destruct (IHr _ Hg') as [I [G N]]. repeat split.
      * simpl in *. intros x [<-|Hx]; [now left | right; now apply I].
      * intros _ Hr. apply goodb_Tn_iter in Hr as [-> Hr]. apply goodb_Tn_iter. split; [reflexivity|]. now apply G.
      * intros _ Hr. apply nodup_iter in Hr as [Hr1 Hr2]. apply nodup_iter. split; [|now apply N].
        intros Hx. apply I in Hx. simpl in Hx. contradiction.
    + rewrite mw__S in H. contradiction.
  - induction r as [re|ri ro rn IHr|nm ts]; intros g H.
    + rewrite mw_IT in H. apply in_map_iff in H as [g' [<- Hg']].
      destruct (IHl _ _ Hg') as [I [G N]]. repeat split.
      * simpl in *. rewrite app_nil_r in *. intros x [<-|Hx]; [now left | right; now apply I].
      * intros Hl Hr. apply goodb_Tn_iter in Hl as [-> Hl]. apply goodb_Tn_iter. split; [reflexivity|]. now apply G.
      * intros Hl Hr. apply nodup_iter in Hl as [Hl1 Hl2]. apply nodup_iter. split; [|now apply N].
        intros Hx. apply I in Hx. simpl in Hx. rewrite app_nil_r in Hx. contradiction.
    + rewrite mw_II in H. destruct (String.eqb li ri) eqn:E.
      * apply String.eqb_eq in E. subst ri.
        apply in_map_iff in H as [g' [<- Hg']]. destruct (IHl _ _ Hg') as [I [G N]]. repeat split.
        -- simpl. intros x [<-|Hx]; [now left|]. apply I in Hx. right.
           apply in_or_app. apply in_app_or in Hx as [Hx|Hx]; [now left | right; now right].
        -- intros Hl Hr. apply goodb_Tn_iter in Hl as [-> Hl]. apply goodb_Tn_iter in Hr as [-> Hr].
           apply goodb_Tn_iter. split; [reflexivity|]. now apply G.
        -- intros Hl Hr. apply nodup_iter in Hl as [Hl1 Hl2]. apply nodup_iter in Hr as [Hr1 Hr2].
           apply nodup_iter. split; [|now apply N].
           intros Hx. apply I in Hx. apply in_app_or in Hx as [Hx|Hx]; contradiction.
      * apply String.eqb_neq in E. apply in_app_or in H as [H|H].
        -- destruct (mem li (later_indexes rn)) eqn:M; simpl in H; [contradiction|].
           apply mem_false in M.
           apply in_map_iff in H as [g' [<- Hg']]. destruct (IHl _ _ Hg') as [I [G N]]. repeat split.
           ++ simpl. intros x [<-|Hx]; [now left|]. apply I in Hx. right. exact Hx.
           ++ intros Hl Hr. apply goodb_Tn_iter in Hl as [-> Hl].
              apply goodb_Tn_iter. split; [reflexivity|]. now apply G.
           ++ intros Hl Hr. apply nodup_iter in Hl as [Hl1 Hl2].
              apply nodup_iter. split; [|now apply N].
              intros Hx. apply I in Hx. apply in_app_or in Hx as [Hx|Hx]; [contradiction|].
              simpl in Hx. destruct Hx as [Hx|Hx]; [now apply E | contradiction].
        -- destruct (mem ri (later_indexes ln)) eqn:M; simpl in H; [contradiction|].
           apply mem_false in M.
           apply in_map_iff in H as [g' [<- Hg']]. destruct (IHr _ Hg') as [I [G N]]. repeat split.
           ++ simpl. intros x [<-|Hx].
              ** right. apply in_or_app. right. now left.
              ** apply I in Hx. simpl in Hx. destruct Hx as [Hx|Hx]; [now left|]. right.
                 apply in_or_app. apply in_app_or in Hx as [Hx|Hx]; [now left | right; now right].
           ++ intros Hl Hr. apply goodb_Tn_iter in Hr as [-> Hr].
              apply goodb_Tn_iter. split; [reflexivity|]. now apply G.
           ++ intros Hl Hr. apply nodup_iter in Hr as [Hr1 Hr2].
              apply nodup_iter. split; [|now apply N].
              intros Hx. apply I in Hx. simpl in Hx. destruct Hx as [Hx|Hx]; [now apply E|].
              apply in_app_or in Hx as [Hx|Hx]; contradiction.
    + rewrite mw__S in H. contradiction.
  - intros g H. rewrite mw_S_ in H. contradiction.
Qed.

Lemma merge_with_egood : forall mk l r g, egood l -> egood r -> In g (merge_with mk l r) -> egood g.
Proof.
  intros mk l r g [L1 L2] [R1 R2] H. destruct (merge_with_inv _ _ _ _ H) as [_ [G N]]. split; auto.
Qed.

(** ** tensor chains *)
Lemma nodupb_NoDup : forall l, nodupb l = true <-> NoDup l.
Proof.
  induction l as [|x l IH]; simpl.
  - split; [constructor | reflexivity].
  - rewrite andb_true_iff, negb_true_iff, mem_false, IH. split.
    + intros [A B]. now constructor.
    + intros H. inversion H; auto.
Qed.

Lemma chain_indexes_spec : forall ivs order ixs,
  chain_indexes ivs order = Some ixs -> Forall2 (fun o x => nth_error ivs o = Some x) order ixs.
Proof.
  intros ivs order. induction order as [|o r IH]; intros ixs H; simpl in H.
  - inversion H. constructor.
  - destruct (nth_error ivs o) eqn:E; [|discriminate].
    destruct (chain_indexes ivs r) eqn:E2; [|discriminate]. inversion H; subst. constructor; auto.
Qed.

Lemma chain_indexes_nodup : forall ivs order ixs,
  chain_indexes ivs order = Some ixs -> NoDup order -> NoDup ivs -> NoDup ixs.
Proof.
  intros ivs order ixs H. apply chain_indexes_spec in H. induction H as [|o x r xs Hx H IH]; intros No Ni.
  - constructor.
  - inversion No; subst. constructor; [|now apply IH].
    intros Hin. assert (exists o', In o' r /\ nth_error ivs o' = Some x) as [o' [Ho' E]].
    { clear -H Hin. induction H as [|a b l l' Hab H IH]; [contradiction|].
      destruct Hin as [<-|Hin]; [exists a; split; [now left | assumption]|].
      destruct (IH Hin) as [o' [A B]]. exists o'. split; [now right | assumption]. }
    assert (o = o').
    { eapply NoDup_nth_error; [exact Ni | | congruence].
      apply nth_error_Some. congruence. }
    subst. contradiction.
Qed.

Lemma chain_indexes_some : forall ivs order,
  (forall o, In o order -> o < List.length ivs) -> chain_indexes ivs order <> None.
Proof.
  intros ivs order. induction order as [|o r IH]; intros H; simpl.
  - discriminate.
  - assert (o < List.length ivs) by (apply H; now left).
    apply nth_error_Some in H0. destruct (nth_error ivs o); [|contradiction].
    assert (chain_indexes ivs r <> None) by (apply IH; intros; apply H; now right).
    destruct (chain_indexes ivs r); [discriminate | contradiction].
Qed.

Lemma chain_indexes_length : forall ivs order ixs,
  chain_indexes ivs order = Some ixs -> List.length ixs = List.length order.
Proof.
  intros ivs order ixs H. apply chain_indexes_spec in H. induction H; simpl; auto.
Qed.

Lemma permute_is_chain : forall ixs ord, permute_indexes ixs ord = chain_indexes ixs ord.
Proof. intros ixs ord. induction ord as [|o r IH]; simpl; [reflexivity | now rewrite IH]. Qed.

Lemma later_chain : forall ixs e, later_indexes (chain_graph ixs (TerminalNode e)) = ixs.
Proof. induction ixs as [|i r IH]; intros e; simpl; [reflexivity | now rewrite IH]. Qed.

Lemma chain_egood : forall ixs e, NoDup ixs -> egood (chain_graph ixs (TerminalNode e)).
Proof.
  induction ixs as [|i r IH]; intros e H.
  - split; reflexivity.
  - inversion H; subst. destruct (IH e H3) as [G N]. split.
    + simpl chain_graph. apply goodb_Tn_iter. split; [reflexivity | exact G].
    + simpl chain_graph. apply nodup_iter. rewrite later_chain. split; assumption.
Qed.

Lemma sequence_spec : forall A (l : list (option A)) l',
  sequence l = Some l' -> Forall2 (fun o x => o = Some x) l l'.
Proof.
  induction l as [|[x|] l IH]; intros l' H; simpl in H.
  - inversion H. constructor.
  - destruct (sequence l) eqn:E; [|discriminate]. inversion H; subst. constructor; auto.
  - discriminate.
Qed.

Lemma identify_spec : forall t fs tr,
  identify t fs = Some tr ->
  exists f, lookup (d_name t) fs = Some f
            /\ chain_indexes (d_indexes t) (f_ordering f) = Some (t_indexes tr)
            /\ t_modes tr = f_modes f.
Proof.
  intros t fs tr H. unfold identify in H. destruct (lookup (d_name t) fs) as [f|]; [|discriminate].
  rewrite permute_is_chain in H.
  destruct (chain_indexes (d_indexes t) (f_ordering f)) eqn:E; [|discriminate].
  inversion H; subst. exists f. simpl. auto.
Qed.

Lemma tensor_graphs_egood : forall t fs gs, tensor_graphs t fs = ROk gs -> Forall egood gs.
Proof.
  intros t fs gs H. unfold tensor_graphs in H.
  destruct (lookup (d_name t) fs) as [f|] eqn:EL; [|discriminate].
  destruct (identify t fs) as [tr|] eqn:EI; [|discriminate].
  destruct (nodupb (t_indexes tr)) eqn:ND; simpl in H; [|discriminate].
  destruct (sequence (map (chain_indexes (t_indexes tr)) (legal_iteration_orders f))) as [chains|] eqn:ES; [|discriminate].
  inversion H; subst gs. clear H. apply Forall_forall. intros g Hg.
  apply in_map_iff in Hg as [ixs [<- Hx]]. apply chain_egood.
  apply sequence_Forall2 in ES.
  assert (exists o, In o (legal_iteration_orders f) /\ chain_indexes (t_indexes tr) o = Some ixs) as [o [Ho E]].
  { clear -ES Hx. induction ES as [|a b l l' Hab H IH]; [contradiction|].
    destruct Hx as [<-|Hx]; [exists a; split; [now left | assumption]|].
    destruct (IH Hx) as [o [A B]]. exists o. split; [now right | assumption]. }
  eapply chain_indexes_nodup; [exact E | eapply legal_orders_nodup; exact Ho | now apply nodupb_NoDup].
Qed.

(** ** for_both *)
Lemma for_both_ok : forall A (L R : res (list A)) body out,
  for_both L R body = ROk out ->
  forall g, In g out -> exists ls rs l r, L = ROk ls /\ R = ROk rs /\ In l ls /\ In r rs /\ In g (body l r).
Proof.
  intros A L R body out H g Hg. unfold for_both in H.
  destruct L as [ls| |]; try discriminate. destruct ls as [|l0 ls'].
  - inversion H; subst. contradiction.
  - destruct R as [rs| |]; try discriminate. injection H as <-.
    change (In g (flat_map (fun l => flat_map (fun r => body l r) rs) (l0 :: ls'))) in Hg.
    apply in_flat_map in Hg as [l [Hl Hg]]. apply in_flat_map in Hg as [r [Hr Hg]].
    exists (l0 :: ls'), rs, l, r. auto.
Qed.

Lemma for_both_not_ill : forall A (L R : res (list A)) body,
  L <> RIllFormed -> R <> RIllFormed -> for_both L R body <> RIllFormed.
Proof.
  intros A L R body HL HR. unfold for_both.
  destruct L as [[|l0 ls]| |]; try discriminate; try contradiction.
  destruct R; try discriminate; contradiction.
Qed.

Lemma sum_terms_forall : forall (P : graph -> bool) l r,
  P l = true -> P r = true ->
  (forall nm ts, P (SumNode nm ts) = forallb P ts) ->
  forallb P (sum_terms l r) = true.
Proof.
  intros P l r Hl Hr HS. unfold sum_terms.
  destruct l as [le|li lo ln|ln lt]; destruct r as [re|ri ro rn|rn rt];
    simpl; rewrite ?forallb_app; simpl;
    rewrite ?HS in *; rewrite ?Hl, ?Hr; reflexivity.
Qed.

Lemma expr_graphs_egood : forall e fs c gs, expr_graphs e fs c = ROk gs -> Forall egood gs.
Proof.
  induction e as [v|h|t|l IHl r IHr|l IHl r IHr|i x IH]; intros fs c gs H; simpl in H.
  - inversion H. repeat constructor.
  - inversion H. repeat constructor.
  - eapply tensor_graphs_egood; eauto.
  - destruct (negb (contains_contraction l || contains_contraction r)).
    + apply Forall_forall. intros g Hg.
      destruct (for_both_ok _ _ _ _ _ H g Hg) as [ls [rs [lg [rg [EL [ER [Hl [Hr Hb]]]]]]]].
      apply IHl in EL. apply IHr in ER. rewrite Forall_forall in EL, ER.
      eapply merge_with_egood; [apply EL, Hl | apply ER, Hr | exact Hb].
    + apply Forall_forall. intros g Hg.
      destruct (for_both_ok _ _ _ _ _ H g Hg) as [ls [rs [lg [rg [EL [ER [Hl [Hr Hb]]]]]]]].
      apply IHl in EL. apply IHr in ER. rewrite Forall_forall in EL, ER.
      destruct Hb as [<-|[]]. destruct (EL _ Hl) as [L1 L2]. destruct (ER _ Hr) as [R1 R2]. split.
      * apply simplify_add_goodb. apply sum_terms_forall; auto.
      * apply simplify_add_nodup. apply sum_terms_forall; auto.
  - apply Forall_forall. intros g Hg.
    destruct (for_both_ok _ _ _ _ _ H g Hg) as [ls [rs [lg [rg [EL [ER [Hl [Hr Hb]]]]]]]].
    apply IHl in EL. apply IHr in ER. rewrite Forall_forall in EL, ER.
    eapply merge_with_egood; [apply EL, Hl | apply ER, Hr | exact Hb].
  - eapply IH; eauto.
Qed.

(** ** well-formed requests never hit a failing lookup *)
Lemma is_perm_of_range_bound : forall ordering o,
  is_perm_of_range ordering = true -> In o ordering -> o < List.length ordering.
Proof.
  intros ordering o H Ho. unfold is_perm_of_range in H. apply andb_true_iff in H as [_ H].
  rewrite forallb_forall in H. apply H in Ho. now apply Nat.ltb_lt in Ho.
Qed.

Lemma wf_tensor_identify : forall fs t,
  wf_tensor fs t = true ->
  exists f tr, lookup (d_name t) fs = Some f /\ identify t fs = Some tr
               /\ List.length (t_indexes tr) = List.length (f_modes f) /\ t_modes tr = f_modes f.
Proof.
  intros fs t H. unfold wf_tensor in H. destruct (lookup (d_name t) fs) as [f|] eqn:EL; [|discriminate].
  apply andb_true_iff in H as [H H3]. apply andb_true_iff in H as [H1 H2].
  apply Nat.eqb_eq in H1, H2.
  assert (chain_indexes (d_indexes t) (f_ordering f) <> None) as HC.
  { apply chain_indexes_some. intros o Ho. rewrite <- H2. eapply is_perm_of_range_bound; eauto. }
  destruct (chain_indexes (d_indexes t) (f_ordering f)) as [ivs|] eqn:EC; [|contradiction].
  exists f, (mkT (d_id t) (d_name t) ivs (f_modes f)). repeat split.
  - unfold identify. rewrite EL, permute_is_chain, EC. reflexivity.
  - simpl. apply chain_indexes_length in EC. lia.
Qed.

Lemma sequence_map_some : forall A B (F : A -> option B) l,
  (forall x, In x l -> F x <> None) -> exists l', sequence (map F l) = Some l'.
Proof.
  intros A B F l H. pose proof (sequence_all_some _ _ F l H).
  destruct (sequence (map F l)); [eauto | contradiction].
Qed.

Lemma tensor_graphs_wf : forall fs t, wf_tensor fs t = true -> tensor_graphs t fs <> RIllFormed.
Proof.
  intros fs t H. destruct (wf_tensor_identify _ _ H) as [f [tr [EL [EI [Hlen Hm]]]]].
  unfold tensor_graphs. rewrite EL, EI. destruct (negb (nodupb (t_indexes tr))); [discriminate|].
  destruct (sequence_map_some _ _ (chain_indexes (t_indexes tr)) (legal_iteration_orders f)) as [l' E].
  - intros o Ho. apply chain_indexes_some. intros x Hx. rewrite Hlen. eapply legal_orders_bound; eauto.
  - rewrite E. discriminate.
Qed.

Lemma expr_graphs_wf : forall e fs c, wf_expr fs e = true -> expr_graphs e fs c <> RIllFormed.
Proof.
  induction e as [v|h|t|l IHl r IHr|l IHl r IHr|i x IH]; intros fs c H; simpl in *.
  - discriminate.
  - discriminate.
  - now apply tensor_graphs_wf.
  - apply andb_true_iff in H as [H1 H2].
    destruct (negb (contains_contraction l || contains_contraction r)); apply for_both_not_ill; auto.
  - apply andb_true_iff in H as [H1 H2]. apply for_both_not_ill; auto.
  - auto.
Qed.
