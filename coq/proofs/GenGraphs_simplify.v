(** * TIE "graphs": the regenerated simplify_add is the model's (discharges [simplify_hyp]). *)
From Coq Require Import ZArith List Bool String Lia Arith ZifyBool.
From TV Require Import spec.Num spec.PyBase spec.PyLib model.GraphsIter.
From TV Require Import gen.ExhaustAst gen.Exhaust gen.Desugar.
From TV Require model.Graphs.
From TV Require Import proofs.GraphsInd.
From TV Require proofs.GraphsSimplify.
From TV Require Import gen.IterGraphs proofs.GenGraphs_base.
Import ListNotations.
Open Scope list_scope.

Module S := TV.proofs.GraphsSimplify.

Section Simplify.
  Variable fval : string -> F.
  Notation up := (up_graph fval).

  Definition node_of (i : string) (v : option M.olayer * M.graph) : ig_graph :=
    IgIterationNode i (option_map up_ol (fst v)) (up (snd v)).
  Definition upT (es : list M.iexpr) : list ig_graph :=
    map (fun e => IgTerminalNode (up_iexpr fval e)) es.
  Definition upG (gs : list S.grp) : pydict string (list ig_graph) :=
    map (fun g => (fst g, map (node_of (fst g)) (snd g))) gs.

  Lemma dd_append_up : forall i v gs,
    dd_append String.eqb i (node_of i v) (upG gs) = upG (M.group_insert i v gs).
  Proof.
    induction gs as [|[j vs] r IH]; [reflexivity|].
    cbn [upG map fst snd dd_append M.group_insert] in *.
    destruct (String.eqb i j) eqn:E.
    - apply String.eqb_eq in E. subst j. cbn [map fst snd]. now rewrite map_app.
    - cbn [map fst snd]. f_equal. apply IH.
  Qed.

  (** the loop that splits the terms, from three computed facts about its body *)
  Section Split.
    Variable sstep : list ig_graph * pydict string (list ig_graph) -> ig_graph
                     -> list ig_graph * pydict string (list ig_graph).
    Hypothesis sstep_T : forall tn inn e,
      sstep (tn, inn) (IgTerminalNode e) = (tn ++ [IgTerminalNode e], inn).
    Hypothesis sstep_I : forall tn inn i o n,
      sstep (tn, inn) (IgIterationNode i o n) = (tn, dd_append String.eqb i (IgIterationNode i o n) inn).
    Hypothesis sstep_S : forall tn inn nm ts, sstep (tn, inn) (IgSumNode nm ts) = (tn, inn).

    Lemma split_equiv : forall ts T G,
      fold_left sstep (map up ts) (upT T, upG G)
      = (upT (fst (M.split_terms ts T G)), upG (snd (M.split_terms ts T G))).
    Proof.
      induction ts as [|t r IH]; intros T G; [reflexivity|].
      cbn [map fold_left]. destruct t as [e | i o n | nm ts']; cbn [up_graph M.split_terms].
      - rewrite sstep_T.
        replace (upT T ++ [IgTerminalNode (up_iexpr fval e)]) with (upT (T ++ [e]))
          by (unfold upT; now rewrite map_app).
        apply IH.
      - rewrite sstep_I. change (IgIterationNode i (option_map up_ol o) (up n)) with (node_of i (o, n)).
        rewrite dd_append_up. apply IH.
      - rewrite sstep_S. apply IH.
    Qed.
  End Split.

  (** the loop that collects the next terms of a group *)
  Definition next_terms_gen (n : ig_graph) : list ig_graph :=
    match n with IgSumNode _ mts => mts | _ => [n] end.

  Lemma next_terms_up : forall n, next_terms_gen (up n) = map up (M.next_terms_of n).
  Proof. destruct n; reflexivity. Qed.

  Section NextTerms.
    Variable nstep : list ig_graph -> ig_graph -> pres (list ig_graph).
    Hypothesis nstep_I : forall acc i o n,
      nstep acc (IgIterationNode i o n) = POk (acc ++ next_terms_gen n).

    Lemma next_terms_equiv : forall i vs acc,
      r_fold nstep (map (node_of i) vs) (map up acc)
      = POk (map up (acc ++ flat_map (fun v => M.next_terms_of (snd v)) vs)).
    Proof.
      induction vs as [|v r IH]; intros acc; [cbn; now rewrite app_nil_r|].
      cbn [map flat_map]. rewrite r_fold_cons. unfold node_of at 1. rewrite nstep_I, next_terms_up.
      rewrite <- map_app, IH, app_assoc. reflexivity.
    Qed.
  End NextTerms.

  Lemma reduce_up : forall es e,
    fold_left IdAdd (map (up_iexpr fval) es) (up_iexpr fval e) = up_iexpr fval (M.reduce_add e es).
  Proof.
    unfold M.reduce_add. induction es as [|x r IH]; intros e; [reflexivity|]. cbn [map fold_left].
    change (IdAdd (up_iexpr fval e) (up_iexpr fval x)) with (up_iexpr fval (M.IAdd e x)). apply IH.
  Qed.

  Lemma get_expressions : forall T,
    r_map (fun term => ig_graph_get_expression term) (upT T) = POk (map (up_iexpr fval) T).
  Proof.
    intros T. unfold upT. rewrite r_map_map. now apply r_map_ok.
  Qed.

  Lemma finish_up : forall name combined,
    match map up combined with
    | [single] => POk single
    | _ => POk (IgSumNode sum_name (map up combined))
    end = POk (up (S.finish name combined)).
  Proof. intros name [|a [|b r]]; reflexivity. Qed.

  (** the loop over the groups *)
  Section Groups.
    Variable f : nat.
    Variable name : nat.
    Hypothesis IHf : forall ts g,
      M.simplify_fuel f name ts = Some g -> simplify_add f (IgSumNode sum_name (map up ts)) = POk (up g).
    Variable gstep : list ig_graph -> list ig_graph -> pres (list ig_graph).
    Variable nstep : list ig_graph -> ig_graph -> pres (list ig_graph).
    Hypothesis nstep_I : forall acc i o n,
      nstep acc (IgIterationNode i o n) = POk (acc ++ next_terms_gen n).
    Hypothesis gstep_spec : forall combined terms,
      gstep combined terms
      = r_bind (r_of_opt "IndexError" (py_getitem terms 0%Z)) (fun head =>
        r_bind (r_fold nstep terms []) (fun next_terms =>
        r_bind (simplify_add f (IgSumNode sum_name next_terms)) (fun v =>
        r_bind (ig_graph_replace_next head v) (fun v' => POk (combined ++ [v']))))).

    Lemma groups_equiv : forall groups acc inodes,
      M.sequence (map (S.inode_of f name) groups) = Some inodes ->
      r_fold gstep (map snd (upG groups)) (map up acc) = POk (map up (acc ++ inodes)).
    Proof.
      induction groups as [|[i vs] r IH]; intros acc inodes H.
      - cbn in H. injection H as <-. cbn. now rewrite app_nil_r.
      - cbn [map M.sequence] in H.
        destruct (S.inode_of f name (i, vs)) as [x|] eqn:Ex; [|discriminate].
        destruct (M.sequence (map (S.inode_of f name) r)) as [xs|] eqn:Er; [|discriminate].
        injection H as <-.
        cbn [upG map fst snd]. rewrite r_fold_cons, gstep_spec.
        unfold S.inode_of in Ex. destruct vs as [|[o n0] rest]; [discriminate|].
        destruct (M.simplify_fuel f name (flat_map (fun v => M.next_terms_of (snd v)) ((o, n0) :: rest)))
          as [n'|] eqn:En; [|discriminate].
        injection Ex as <-.
        cbn [map]. unfold node_of at 1. cbn [py_getitem Z.leb Z.compare Z.to_nat nth_error r_of_opt r_bind fst snd].
        change (IgIterationNode i (option_map up_ol o) (up n0) :: map (node_of i) rest)
          with (map (node_of i) ((o, n0) :: rest)).
        pose proof (next_terms_equiv nstep nstep_I i ((o, n0) :: rest) []) as NT.
        cbn [map app] in NT. cbn [map]. rewrite NT. cbn [r_bind].
        rewrite (IHf _ _ En). cbn [r_bind ig_graph_replace_next].
        change (IgIterationNode i (option_map up_ol o) (up n')) with (up (M.IterationNode i o n')).
        replace (map up acc ++ [up (M.IterationNode i o n')]) with (map up (acc ++ [M.IterationNode i o n']))
          by (now rewrite map_app).
        fold (upG r). rewrite (IH _ _ eq_refl), <- app_assoc. reflexivity.
    Qed.
  End Groups.

  (** same fuel on both sides *)
  Lemma simplify_same_fuel : forall f name ts g,
    M.simplify_fuel f name ts = Some g ->
    simplify_add f (IgSumNode sum_name (map up ts)) = POk (up g).
  Proof.
    induction f as [|f IHf]; intros name ts g H; [discriminate|].
    rewrite S.simplify_fuel_S in H.
    destruct (M.sequence (map (S.inode_of f name) (snd (M.split_terms ts [] [])))) as [inodes|] eqn:Eseq;
      [|discriminate].
    injection H as <-.
    cbn [simplify_add ig_graph_get_terms ig_graph_get_name r_bind].
    match goal with |- context [fold_left ?st (map up ts) _] => set (sstep := st) end.
    pose proof (split_equiv sstep) as SE.
    specialize (SE ltac:(intros; reflexivity) ltac:(intros; reflexivity) ltac:(intros; reflexivity) ts [] []).
    cbn [upT upG map] in SE.
    match type of SE with ?L = _ =>
      match goal with |- context [fold_left sstep (map up ts) ?init] =>
        change (fold_left sstep (map up ts) init) with L end end.
    rewrite SE. clear SE sstep. unfold S.grp in *.
    destruct (M.split_terms ts [] []) as [T G] eqn:Esp. cbn [fst snd] in *.
    cbv beta iota.
    (* the terminals *)
    assert (ET : (if (Z.of_nat (List.length (upT T)) >? 0)%Z
                  then r_bind (r_bind (r_bind (r_map (fun term => ig_graph_get_expression term) (upT T))
                                  (fun v => POk (py_reduce IdAdd v))) (fun v => r_of_opt "TypeError" v))
                         (fun expression => POk ([] ++ [IgTerminalNode expression]))
                  else POk []) = POk (map up (S.tnodes_of T))).
    { rewrite get_expressions. destruct T as [|e es]; [reflexivity|].
      cbn [upT map List.length]. replace (Z.of_nat (S (List.length (map (fun e0 => IgTerminalNode (up_iexpr fval e0)) es))) >? 0)%Z with true by lia.
      cbn [r_bind py_reduce r_of_opt]. rewrite reduce_up. reflexivity. }
    match goal with |- r_bind ?X _ = _ => replace X with (POk (map up (S.tnodes_of T))) end.
    cbn [r_bind].
    match goal with |- context [r_fold ?gs (map snd (upG G)) _] => set (gstep := gs) end.
    assert (GS : exists nstep, (forall acc i o n, nstep acc (IgIterationNode i o n) = POk (acc ++ next_terms_gen n))
      /\ forall combined terms, gstep combined terms
         = r_bind (r_of_opt "IndexError" (py_getitem terms 0%Z)) (fun head =>
           r_bind (r_fold nstep terms []) (fun next_terms =>
           r_bind (simplify_add f (IgSumNode sum_name next_terms)) (fun v =>
           r_bind (ig_graph_replace_next head v) (fun v' => POk (combined ++ [v'])))))).
    { eexists. split.
      2:{ intros combined terms. unfold gstep.
          destruct (r_of_opt "IndexError" (py_getitem terms 0%Z)) as [head|e]; [|reflexivity].
          cbn [r_bind].
          match goal with |- r_bind (r_fold ?ns terms []) _ = r_bind (r_fold ?ev terms []) _ => unify ev ns end.
          destruct (r_fold _ terms []) as [nt|e]; [|reflexivity]. cbn [r_bind].
          destruct (simplify_add f (IgSumNode sum_name nt)) as [v|e]; [|reflexivity]. cbn [r_bind].
          destruct (ig_graph_replace_next head v); reflexivity. }
      intros acc i o n. destruct n; reflexivity. }
    destruct GS as [nstep [NS GSp]].
    rewrite (groups_equiv f name (fun ts0 g0 => IHf name ts0 g0) gstep nstep NS GSp G _ _ Eseq).
    cbn [r_bind]. apply finish_up.
  Qed.
End Simplify.

(** ** the model's result does not depend on the fuel, once it is enough *)
Lemma sequence_map_mono : forall A B (F F' : A -> option B) l xs,
  (forall a x, F a = Some x -> F' a = Some x) ->
  M.sequence (map F l) = Some xs -> M.sequence (map F' l) = Some xs.
Proof.
  induction l as [|a r IH]; intros xs HF H; [exact H|].
  cbn [map M.sequence] in *.
  destruct (F a) as [x|] eqn:Ea; [|discriminate]. rewrite (HF _ _ Ea).
  destruct (M.sequence (map F r)) as [ys|] eqn:Er; [|discriminate].
  now rewrite (IH ys HF eq_refl).
Qed.

Lemma simplify_fuel_mono : forall f name ts g,
  M.simplify_fuel f name ts = Some g -> M.simplify_fuel (S f) name ts = Some g.
Proof.
  induction f as [|f IH]; intros name ts g H; [discriminate|].
  rewrite S.simplify_fuel_S in *.
  destruct (M.sequence (map (S.inode_of f name) (snd (M.split_terms ts [] [])))) as [inodes|] eqn:E; [|discriminate].
  rewrite (sequence_map_mono _ _ (S.inode_of f name) (S.inode_of (S f) name) _ inodes); [exact H | | exact E].
  intros [i vs] x Hx. unfold S.inode_of in *. destruct vs as [|[o n0] rest]; [discriminate|].
  destruct (M.simplify_fuel f name _) as [n'|] eqn:En; [|discriminate].
  now rewrite (IH _ _ _ En).
Qed.

Lemma simplify_fuel_mono_le : forall f f' name ts g,
  (f <= f')%nat -> M.simplify_fuel f name ts = Some g -> M.simplify_fuel f' name ts = Some g.
Proof. intros f f' name ts g Hle. induction Hle; intros H; [exact H|]. apply simplify_fuel_mono. auto. Qed.

Lemma height_le_size : forall fval g, (M.height g <= ig_graph_size (up_graph fval g))%nat.
Proof.
  intros fval. induction g as [e | i o n IH | nm ts IH] using graph_ind2; cbn [M.height up_graph ig_graph_size].
  - lia.
  - lia.
  - induction IH as [|t r Ht _ IHr]; cbn [map fold_right] in *; lia.
Qed.

Theorem simplify_hyp_holds : forall fval, simplify_hyp fval.
Proof.
  intros fval name ts.
  destruct (S.simplify_add_spec name ts) as [g [E <-]].
  apply simplify_same_fuel with (name := name).
  eapply simplify_fuel_mono_le; [|exact E].
  pose proof (height_le_size fval (M.SumNode name ts)) as H.
  cbn [M.height up_graph] in H. fold (M.height_list ts) in H.
  change (fold_right (fun t acc => Nat.max (M.height t) acc) 0%nat ts) with (M.height_list ts) in H.
  lia.
Qed.
