(** Relational kernel-kind certificate: generic machinery.

    - reflection of the syntactic equality tests of Certs3Defs.v;
    - [align_sound]: the DROP SIMULATION principle.  If the statement tree [sK] is aligned with
      [sE] (obtained by dropping statements), every kept atomic statement preserves a relation
      [R] between the two runs, every kept control expression has the same value in [R]-related
      states, and every dropped atomic statement preserves [R] against the unchanged other state,
      then a normal run of [sE] is matched by a run of [sK] with the same fuel that ends normally
      in a related state (or fails with an error from the allowed set [OKF]). *)

From Coq Require Import ZArith Bool List String Lia.
From Flocq Require Import Core BinarySingleNaN.
From TV Require Import spec.Num gen.IRAst spec.IRSem proofs.Certs2Base proofs.Certs3Defs.
Import ListNotations.
Open Scope Z_scope.

Arguments same_phase : simpl never.
Arguments orelse : simpl never.

(** * Reflection *)

Lemma sf_same_eq x y : sf_same x y = true -> x = y.
Proof.
  destruct x, y; simpl; try discriminate; intros H.
  - apply Bool.eqb_prop in H. now subst.
  - apply Bool.eqb_prop in H. now subst.
  - reflexivity.
  - apply andb_prop in H. destruct H as [H H3]. apply andb_prop in H. destruct H as [H1 H2].
    apply Bool.eqb_prop in H1. apply Pos.eqb_eq in H2. apply Z.eqb_eq in H3. now subst.
Qed.

Lemma ty_same_eq a : forall b, ty_same a b = true -> a = b.
Proof.
  induction a; destruct b; simpl; try discriminate; intros H; auto.
  - f_equal; auto.
  - f_equal; auto.
  - apply andb_prop in H. destruct H as [H1 H2]. apply Z.eqb_eq in H2. subst. f_equal; auto.
Qed.

Ltac split_andb :=
  repeat match goal with
         | H : _ && _ = true |- _ => apply andb_prop in H; destruct H
         end.

Lemma expr_same_eq a : forall b, expr_same a b = true -> a = b.
Proof.
  induction a; destruct b; simpl; try discriminate; intros H; split_andb;
    repeat match goal with
           | H : String.eqb _ _ = true |- _ => apply String.eqb_eq in H; subst
           | H : Z.eqb _ _ = true |- _ => apply Z.eqb_eq in H; subst
           | H : Bool.eqb _ _ = true |- _ => apply Bool.eqb_prop in H; subst
           | H : ty_same _ _ = true |- _ => apply ty_same_eq in H; subst
           | IH : forall b, expr_same ?a b = true -> ?a = b, H : expr_same ?a _ = true |- _ =>
               apply IH in H; subst
           end; try reflexivity.
  apply sf_same_eq in H. apply B2SF_inj in H. now subst.
Qed.

Lemma atom_same_eq a b : atom_same a b = true -> a = b.
Proof.
  destruct a as [| t v | d v | | | | v |]; try (destruct d);
    destruct b as [| u w | d' w | | | | w |]; try (destruct d'); simpl; try discriminate; intros H.
  - split_andb. apply expr_same_eq in H. apply expr_same_eq in H0. now subst.
  - split_andb.
    apply expr_same_eq in H. apply expr_same_eq in H0. apply ty_same_eq in H1. now subst.
  - apply expr_same_eq in H. now subst.
Qed.

(** * Blocks as list runs *)

Fixpoint exec_list (n : nat) (l : list stmt) (st : state) (tr : list event) : outcome :=
  match l with
  | [] => Normal st tr
  | s1 :: r =>
      match exec n s1 st with
      | Normal st' t1 => exec_list n r st' (tr ++ t1)
      | Returned st' v t1 => Returned st' v (tr ++ t1)
      | Fail x => Fail x
      | OutOfFuel => OutOfFuel
      end
  end.

Lemma exec_block n ss c st : exec (S n) (Block ss c) st = exec_list n ss st [].
Proof.
  simpl. generalize (@nil event) as tr. revert st.
  induction ss as [|s r IH]; intros st tr; [reflexivity|].
  simpl. destruct (exec n s st); auto.
Qed.

Section SIM.
  Variable P : Type.
  Variable peq : P -> P -> bool.
  Variable cok : expr -> bool.
  Variable keep_atomic : P -> stmt -> option P.
  Variable drop_atomic : P -> stmt -> option P.
  Hypothesis peq_eq : forall a b, peq a b = true -> a = b.

  Variable R : P -> state -> state -> Prop.
  Variable OKF : err -> Prop.

  Hypothesis R_tick : forall p a b, R p a b -> R p (tick a) (tick b).
  Hypothesis R_tickE : forall p a b, R p a b -> R p (tick a) b.
  Hypothesis H_cond : forall p c a b v t, cok c = true -> R p a b -> eval a c = Ok (v, t) ->
    exists t', eval b c = Ok (v, t').

  Definition osimK (p : P) (oE oK : outcome) : Prop :=
    match oE with
    | Normal a' _ =>
        match oK with Normal b' _ => R p a' b' | Fail x => OKF x | _ => False end
    | Returned a' v _ =>
        match oK with Returned b' w _ => (exists q, R q a' b') /\ v = w | Fail x => OKF x | _ => False end
    | _ => True
    end.

  Definition odrop (p : P) (oE : outcome) (b : state) : Prop :=
    match oE with
    | Normal a' _ => R p a' b
    | Returned _ _ _ => False
    | _ => True
    end.

  Hypothesis H_keep : forall p p' s a b, is_atomic s = true -> keep_atomic p s = Some p' ->
    R p a b -> osimK p' (exec 1 s a) (exec 1 s b).
  Hypothesis H_drop : forall p p' s a b, is_atomic s = true -> drop_atomic p s = Some p' ->
    R p a b -> odrop p' (exec 1 s a) b.

  Notation drop := (drop P peq drop_atomic).
  Notation align := (align P peq cok keep_atomic drop_atomic).

  Fixpoint drop_list (l : list stmt) (ph : P) : option P :=
    match l with
    | [] => Some ph
    | x :: r => match drop ph x with Some ph' => drop_list r ph' | None => None end
    end.

  Lemma drop_block ss c ph : drop ph (Block ss c) = drop_list ss ph.
  Proof.
    simpl. revert ph. induction ss as [|x r IH]; intros ph; [reflexivity|].
    simpl. destruct (drop ph x); auto.
  Qed.

  Lemma same_phase_inv a b p : same_phase P peq a b = Some p -> a = Some p /\ b = Some p.
  Proof.
    unfold same_phase. destruct a as [x|], b as [y|]; try discriminate.
    destruct (peq x y) eqn:Q; try discriminate. apply peq_eq in Q. intros H. inv H. auto.
  Qed.

  Lemma drop_sound n : forall s p p' a b, drop p s = Some p' -> R p a b -> odrop p' (exec n s a) b.
  Proof.
    induction n as [|n IH]; intros s p p' a b K Rs; [exact I|].
    destruct (is_atomic s) eqn:A.
    { rewrite exec_atomic by exact A. destruct s; try discriminate A; simpl in K; eapply H_drop; eauto. }
    destruct s as [| | | ss c | c s1 s2 | c s | |]; try discriminate A.
    - rewrite exec_block. rewrite drop_block in K.
      generalize (@nil event) as tr. revert p a K Rs.
      induction ss as [|x r IHl]; intros p a K Rs tr; simpl in *.
      + inv K. exact Rs.
      + destruct (drop p x) as [ph'|] eqn:D; try discriminate.
        pose proof (IH x p ph' a b D Rs) as H1.
        destruct (exec n x a) as [a' t1|a' v t1|x0|]; simpl in *; auto; try contradiction.
        eapply IHl; eauto.
    - simpl in K. apply same_phase_inv in K. destruct K as [Ka Kb]. simpl.
      destruct (eval a c) as [[v t1]|x]; simpl; auto.
      destruct (as_bool v) as [[|]|x]; simpl; auto.
      + pose proof (IH s1 p p' a b Ka Rs) as H. destruct (exec n s1 a); simpl in *; auto.
      + pose proof (IH s2 p p' a b Kb Rs) as H. destruct (exec n s2 a); simpl in *; auto.
    - pose proof K as K0. simpl in K. apply same_phase_inv in K. destruct K as [Kp Kb]. inv Kp. simpl.
      destruct (eval a c) as [[v t1]|x]; simpl; auto.
      destruct (as_bool v) as [[|]|x]; simpl; auto.
      pose proof (IH s p' p' a b Kb Rs) as H.
      destruct (exec n s a) as [a' t2|a' r t2|x|]; simpl in *; auto.
      pose proof (IH (Loop c s) p' p' (tick a') b K0 (R_tickE _ _ _ H)) as H2.
      destruct (exec n (Loop c s) (tick a')); simpl in *; auto.
  Qed.

  Fixpoint al_list (l k : list stmt) (ph : P) {struct l} : option P :=
    match l with
    | [] => match k with [] => Some ph | _ => None end
    | e :: l' =>
        orelse P
          (match k with
           | [] => None
           | k1 :: k' => match align ph e k1 with Some ph' => al_list l' k' ph' | None => None end
           end)
          (match drop ph e with Some ph' => al_list l' k ph' | None => None end)
    end.

  Definition align_main (ph : P) (sE sK : stmt) : option P :=
    match sE, sK with
    | Block ssE _, Block ssK _ => al_list ssE ssK ph
    | Branch c a b, Branch c' a' b' =>
        if expr_same c c' && cok c then same_phase P peq (align ph a a') (align ph b b') else None
    | Loop c a, Loop c' a' =>
        if expr_same c c' && cok c then same_phase P peq (Some ph) (align ph a a') else None
    | _, _ => if is_atomic sE && atom_same sE sK then keep_atomic ph sE else None
    end.

  Lemma align_unfold ph sE sK :
    align ph sE sK = orelse P (align_main ph sE sK) (if is_empty_block sK then drop ph sE else None).
  Proof.
    destruct sE; reflexivity.
  Qed.

  Lemma align_main_atomic p sE sK p' : is_atomic sE = true -> align_main p sE sK = Some p' ->
    sK = sE /\ keep_atomic p sE = Some p'.
  Proof.
    intros A K. destruct sE; try discriminate A; unfold align_main in K; cbn [is_atomic andb] in K;
      match type of K with (if ?X then _ else _) = _ => destruct X eqn:Q; try discriminate end;
      apply atom_same_eq in Q; auto.
  Qed.

  Lemma orelse_inv (x y : option P) p : orelse P x y = Some p -> x = Some p \/ y = Some p.
  Proof. destruct x; simpl; auto. Qed.

  Lemma osimK_fail_E p x o : osimK p (Fail x) o.
  Proof. exact I. Qed.

  Lemma osimK_fail_K p y o : OKF y -> osimK p o (Fail y).
  Proof. destruct o; simpl; auto. Qed.

  Theorem align_sound n : forall sE sK p p' a b, align p sE sK = Some p' -> R p a b ->
    osimK p' (exec n sE a) (exec n sK b).
  Proof.
    induction n as [|n IH]; intros sE sK p p' a b K Rs; [exact I|].
    pose proof K as K0.
    rewrite align_unfold in K. apply orelse_inv in K. destruct K as [K|K].
    2:{ destruct sK as [| | | [|] c | | | |]; simpl in K; try discriminate.
        pose proof (drop_sound (S n) sE p p' a b K Rs) as H.
        rewrite (exec_block n [] c b).
        destruct (exec (S n) sE a); simpl in H |- *; auto. }
    destruct sE as [nm t | tgt val | tgt val | ssE c | c s1 s2 | c s | e | e].
    1-3,7-8:
      (match goal with |- osimK _ (exec _ ?s _) _ => assert (AT : is_atomic s = true) by reflexivity end;
       destruct (align_main_atomic _ _ _ _ AT K) as [-> K1];
       rewrite (exec_atomic n _ a AT), (exec_atomic n _ b AT); eapply H_keep; eauto).
    - (* Block *)
      destruct sK as [| | | ssK c' | | | |]; simpl in K; try discriminate.
      rewrite !exec_block.
      clear K0.
      enough (G : forall l k p a b trK trE, al_list l k p = Some p' -> R p a b ->
                  osimK p' (exec_list n l a trE) (exec_list n k b trK)) by (eapply G; eauto).
      clear ssE ssK p a b K Rs. intros ssE.
      induction ssE as [|e l IHl]; intros k p a b trK trE K Rs; simpl in K.
      + destruct k; try discriminate. inv K. simpl. exact Rs.
      + apply orelse_inv in K. destruct K as [K|K].
        * destruct k as [|k1 k']; try discriminate.
          destruct (align p e k1) as [ph'|] eqn:A1; try discriminate.
          pose proof (IH e k1 p ph' a b A1 Rs) as H1. simpl.
          destruct (exec n e a) as [a' t1|a' v t1|x|]; simpl in *; auto.
          -- destruct (exec n k1 b) as [b' t2|b' w t2|y|]; simpl in *; try tauto.
             ++ eapply IHl; eauto.
             ++ apply osimK_fail_K; auto.
          -- destruct (exec n k1 b) as [b' t2|b' w t2|y|]; simpl in *; try tauto.
        * destruct (drop p e) as [ph'|] eqn:D; try discriminate.
          pose proof (drop_sound n e p ph' a b D Rs) as H1. simpl.
          destruct (exec n e a) as [a' t1|a' v t1|x|]; simpl in *; auto; try tauto.
          eapply IHl; eauto.
    - (* Branch *)
      destruct sK as [| | | | c' a' b' | | |]; simpl in K; try discriminate.
      destruct (expr_same c c' && cok c) eqn:Q; try discriminate.
      apply andb_prop in Q. destruct Q as [Q1 Q2]. apply expr_same_eq in Q1. subst c'.
      apply same_phase_inv in K. destruct K as [Ka Kb]. simpl.
      destruct (eval a c) as [[v t1]|x] eqn:Ev; simpl; auto.
      destruct (H_cond _ _ _ _ _ _ Q2 Rs Ev) as [t' Ev']. rewrite Ev'.
      destruct (as_bool v) as [[|]|x]; simpl; auto.
      + pose proof (IH s1 a' p p' a b Ka Rs) as H.
        destruct (exec n s1 a), (exec n a' b); simpl in *; auto.
      + pose proof (IH s2 b' p p' a b Kb Rs) as H.
        destruct (exec n s2 a), (exec n b' b); simpl in *; auto.
    - (* Loop *)
      destruct sK as [| | | | | c' s' | |]; simpl in K; try discriminate.
      destruct (expr_same c c' && cok c) eqn:Q; try discriminate.
      apply andb_prop in Q. destruct Q as [Q1 Q2]. apply expr_same_eq in Q1. subst c'.
      apply same_phase_inv in K. destruct K as [Kp Kb]. inv Kp. simpl.
      destruct (eval a c) as [[v t1]|x] eqn:Ev; simpl; auto.
      destruct (H_cond _ _ _ _ _ _ Q2 Rs Ev) as [t' Ev']. rewrite Ev'.
      destruct (as_bool v) as [[|]|x]; simpl; auto.
      pose proof (IH s s' p' p' a b Kb Rs) as H.
      destruct (exec n s a) as [a1 t2|a1 r t2|x|], (exec n s' b) as [b1 t3|b1 r3 t3|y|];
        simpl in H |- *; auto; try tauto; try (apply osimK_fail_K; assumption).
      pose proof (IH (Loop c s) (Loop c s') p' p' (tick a1) (tick b1) K0 (R_tick _ _ _ H)) as H2.
      destruct (exec n (Loop c s) (tick a1)), (exec n (Loop c s') (tick b1)); simpl in *; auto.
  Qed.
End SIM.
