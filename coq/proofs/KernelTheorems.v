(** C01G -- the theorems about the kernel model G in closed form (boolean side conditions). *)

From Coq Require Import ZArith List Bool Lia ZifyBool String.
From TV Require Import spec.Storage spec.Spec proofs.SpecSums proofs.SpecLemmas proofs.StorageLemmas proofs.StorageWf
                       model.DesugarSem model.Exhaust proofs.ExhaustProofs
                       model.DesugarSemGraph proofs.DesugarSemGraphProofs
                       model.Kernel proofs.KernelLocate proofs.KernelEncode proofs.KernelExhaust
                       proofs.KernelSound proofs.KernelSupport proofs.KernelBucket proofs.KernelSane.
Import ListNotations.
Local Open Scope Z_scope.

(** * decidable side conditions *)

Definition cfg_okb (cfg : kcfg) : bool :=
  Nat.eqb (List.length (k_oidx cfg)) (List.length (k_oord cfg))
  && Nat.eqb (List.length (k_omodes cfg)) (List.length (k_oord cfg))
  && is_permb (k_oord cfg)
  && forallb (fun k => 0 <=? k_sizes cfg k) (k_oidx cfg).

Lemma cfg_okb_spec cfg : cfg_okb cfg = true -> cfg_ok cfg.
Proof.
  unfold cfg_okb, cfg_ok. rewrite !andb_true_iff, !Nat.eqb_eq, forallb_forall, Forall_forall.
  intros (((H1 & H2) & H3) & H4). repeat split; auto. intros x Hx. specialize (H4 x Hx). lia.
Qed.

(** [tgt]: the target index names in DIMENSION order; level [l] of the output stores dimension
    [nth l (k_oord cfg)], so its index is [nth (nth l oord) tgt]. *)
Definition level_names (cfg : kcfg) (tgt : list string) : list string :=
  map (fun d => nth d tgt EmptyString) (k_oord cfg).

(** side conditions on (inputs, graph, output description):
    - every tensor leaf of the graph names a stored input that is a well-formed stored tensor
      ([wf_tensorb]) of the declared order and modes; leaf ids are distinct;
    - the output description is consistent (lengths, ordering is a permutation, sizes >= 0), the
      target indexes are distinct;
    - scoping: no index is iterated twice on a path, and a compressed layer of a tensor is iterated
      after all earlier layers of that tensor;
    - output discipline ([wellb], what the generator accepts): layers are appended in order by
      the node iterating their index, or the remaining layers are all dense and are filled through
      a bucket, below which output nodes iterate distinct remaining output indexes, contractions
      iterate other indexes and every terminal sits below all of them. *)
Definition graph_okb (cfg : kcfg) (g : graph Z) (tgt : list string) : bool :=
  leaves_okb cfg && cfg_okb cfg && scopedb [] g && wellb cfg g 0
  && nodupb (k_oidx cfg) && nodupb tgt
  && Nat.eqb (List.length tgt) (List.length (k_oord cfg))
  && list_eqb String.eqb (k_oidx cfg) (level_names cfg tgt).

(** graphs whose output layers are all appended by the outermost nodes (no bucket with dense
    layers); only reported by the correspondence, the theorems do not need it *)
Definition in_fragment (cfg : kcfg) (g : graph Z) : bool := chainb cfg g 0.

Definition in_box (cfg : kcfg) (tgt : list string) (c : list Z) : Prop :=
  Forall2 (fun ci x => 0 <= ci < k_sizes cfg x) c tgt.

Lemma strs_eqb_eq a b : list_eqb String.eqb a b = true -> a = b.
Proof. apply list_eqb_eq. intros x y H. now apply String.eqb_eq. Qed.

Lemma graph_okb_parts cfg g tgt :
  graph_okb cfg g tgt = true ->
  leaves_okb cfg = true /\ cfg_ok cfg /\ scopedb [] g = true /\ wellb cfg g 0 = true
  /\ NoDup (k_oidx cfg) /\ NoDup tgt /\ List.length tgt = List.length (k_oord cfg)
  /\ k_oidx cfg = level_names cfg tgt.
Proof.
  unfold graph_okb. rewrite !andb_true_iff.
  intros (((((((H1 & H2) & H3) & H4) & H5) & H6) & H7) & H8).
  split; [exact H1|]. split; [now apply cfg_okb_spec|]. split; [exact H3|]. split; [exact H4|].
  split; [now apply nodupb_sound|]. split; [now apply nodupb_sound|]. split; [now apply Nat.eqb_eq|].
  now apply strs_eqb_eq.
Qed.

(** * the theorems *)

(** G computes the loop-nest denotation of the graph *)
Theorem G_computes_denotation (cfg : kcfg) (g : graph Z) (tgt : list string) :
  k_leaves cfg = graph_leaves g ->
  graph_okb cfg g tgt = true ->
  forall c, in_box cfg tgt c ->
    abs_tensor (O := ZOps) (G_out cfg g) c
    = gdenote (O := ZOps) (envE cfg) (k_sizes cfg) (ordsE cfg) g (bind tgt c).
Proof.
  intros El Hok c Hc. destruct (graph_okb_parts _ _ _ Hok) as (LOK & CFG & Hs & Hw & ND & NDt & Lt & Eo).
  apply (G_computes_gen cfg LOK CFG g tgt c); auto. rewrite El. apply incl_refl.
Qed.

(** with the graph validator of C01: G computes the specification of the assignment *)
Theorem G_computes_spec (cfg : kcfg) (g : graph Z) (a : assignment Z) :
  k_leaves cfg = graph_leaves g ->
  graph_okb cfg g (tgt_idx a) = true ->
  graph_ok_spec (ordsE cfg) Z.eqb a g = true ->
  forall c, in_box cfg (tgt_idx a) c ->
    abs_tensor (O := ZOps) (G_out cfg g) c = spec (O := ZOps) a (envE cfg) (k_sizes cfg) c.
Proof.
  intros El Hok Hg c Hc. rewrite (G_computes_denotation cfg g (tgt_idx a) El Hok c Hc).
  apply (graph_spec_validator_sound ZOps ZOps_ok (envE cfg) (k_sizes cfg) (ordsE cfg) Z.eqb); [|exact Hg].
  intros x y H. now apply Z.eqb_eq.
Qed.

(** the output of G is a well-formed stored tensor, with exactly one value per leaf position *)
Theorem G_output_wf (cfg : kcfg) (g : graph Z) (tgt : list string) :
  k_leaves cfg = graph_leaves g -> graph_okb cfg g tgt = true ->
  wf_tensorb true (G_out cfg g) = true /\ wf_tensorb false (G_out cfg g) = true.
Proof.
  intros El Hok. destruct (graph_okb_parts _ _ _ Hok) as (LOK & CFG & _ & Hw & _).
  assert (wf_tensorb true (G_out cfg g) = true) as W.
  { unfold G_out. apply encode_wf; [exact CFG|].
    apply (Ga_twf cfg LOK CFG g 0 [] (fun _ => 0) (wellb_shape cfg LOK CFG g 0 Hw)). rewrite El. apply incl_refl. }
  split; [exact W|]. unfold wf_tensorb in *. apply andb_true_iff in W. destruct W as [W1 W2].
  rewrite W1. cbn [andb]. destruct (wf_levelsb _ 1); [|discriminate]. lia.
Qed.

(** further decidable conditions used by the no-phantom theorem: no index twice in one leaf, input
    dimensions = sizes of their indexes, every index of a terminal's leaves is iterated above it *)
Definition support_okb (cfg : kcfg) (g : graph Z) : bool := leaves_extrab cfg && closedb [] g.

(** no phantom coordinates: a prefix stored by a compressed level of the output has structural
    support in the graph, for some in-range completion of the remaining output levels *)
Theorem G_no_phantoms (cfg : kcfg) (g : graph Z) (tgt : list string) :
  k_leaves cfg = graph_leaves g ->
  graph_okb cfg g tgt = true -> support_okb cfg g = true ->
  forall (l : nat) (p : list Z),
    nth_error (k_omodes cfg) l = Some MCompressed ->
    In p (stored_prefixes (G_out cfg g) (S l)) ->
    exists rest, Forall2 (fun c x => 0 <= c < k_sizes cfg x) (p ++ rest) (k_oidx cfg)
                 /\ gsupp cfg g (bind_from (fun _ => 0) (k_oidx cfg) (p ++ rest)) = true.
Proof.
  intros El Hok Hsup l p Hm Hin.
  destruct (graph_okb_parts _ _ _ Hok) as (LOK & CFG & Hs & Hw & ND & NDt & Lt & Eo).
  unfold support_okb in Hsup. apply andb_true_iff in Hsup. destruct Hsup as [LEX Hcl].
  apply (G_no_phantoms_level_gen cfg LOK LEX CFG g l p); auto. rewrite El. apply incl_refl.
Qed.

(** the sanity bit of the model is true: no live leaf is ever read where it cannot be located *)
Theorem G_sane_bit (cfg : kcfg) (g : graph Z) (tgt : list string) :
  k_leaves cfg = graph_leaves g ->
  graph_okb cfg g tgt = true -> support_okb cfg g = true -> snd (G cfg g) = true.
Proof.
  intros El Hok Hsup. destruct (graph_okb_parts _ _ _ Hok) as (LOK & CFG & Hs & Hw & _).
  unfold support_okb in Hsup. apply andb_true_iff in Hsup. destruct Hsup as [LEX Hcl].
  apply (G_sane cfg LOK LEX g); auto. rewrite El. apply incl_refl.
Qed.

(** support is necessary for a non-zero value *)
Theorem G_support_necessary (cfg : kcfg) (g : graph Z) (rho : val) :
  leaves_okb cfg = true -> k_leaves cfg = graph_leaves g ->
  gsupp cfg g rho = false ->
  gdenote (O := ZOps) (envE cfg) (k_sizes cfg) (ordsE cfg) g rho = 0.
Proof.
  intros LOK El Hn. apply (gsupp_zero cfg LOK g); [rewrite El; apply incl_refl|exact Hn].
Qed.

(** evaluated by the correspondence on every swept case: do the side conditions of the theorems
    hold for the real graph / inputs, and is the graph in the proved fragment? *)
Definition kcase_side (ct : kcase * list string) : bool * bool :=
  let (c, tgt) := ct in
  (graph_okb (cfg_of c) (c_graph c) tgt && support_okb (cfg_of c) (c_graph c), in_fragment (cfg_of c) (c_graph c)).
