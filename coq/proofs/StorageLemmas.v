(** Shared facts about the definitions of spec/Storage.v (owned by C09, reusable by anyone):
    list/index plumbing ([zlen], [nthZ], [zrange]), [is_permb] is exactly "permutation of 0..n-1",
    [to_dim_order] inverts the permutation into level order, [walk] and its prefix accumulator.
    Axiom-free. *)

From Coq Require Import ZArith List Bool Lia ZifyBool Permutation Arith.
From TV Require Import spec.Storage.
Import ListNotations.
Open Scope Z_scope.

(** * zlen / nthZ / zrange *)

Lemma zlen_nil {A} : zlen (@nil A) = 0.
Proof. reflexivity. Qed.

Lemma zlen_cons {A} (a : A) l : zlen (a :: l) = 1 + zlen l.
Proof. unfold zlen. cbn [length]. lia. Qed.

Lemma zlen_app {A} (l l' : list A) : zlen (l ++ l') = zlen l + zlen l'.
Proof. unfold zlen. rewrite app_length. lia. Qed.

Lemma zlen_map {A B} (f : A -> B) l : zlen (map f l) = zlen l.
Proof. unfold zlen. now rewrite map_length. Qed.

Lemma zlen_nonneg {A} (l : list A) : 0 <= zlen l.
Proof. unfold zlen. lia. Qed.

Lemma zlen_eq_length {A B} (l : list A) (l' : list B) : zlen l = zlen l' <-> length l = length l'.
Proof. unfold zlen. lia. Qed.

Lemma nthZ_of_nat {A} (d : A) l (i : nat) : nthZ d l (Z.of_nat i) = nth i l d.
Proof.
  unfold nthZ. destruct (Z.of_nat i <? 0) eqn:E; [lia|]. now rewrite Nat2Z.id.
Qed.

Lemma nthZ_nonneg {A} (d : A) l i : 0 <= i -> nthZ d l i = nth (Z.to_nat i) l d.
Proof. intros. unfold nthZ. destruct (i <? 0) eqn:E; [lia|reflexivity]. Qed.

Lemma zrange_length n : length (zrange n) = Z.to_nat n.
Proof. unfold zrange. now rewrite map_length, seq_length. Qed.

Lemma zlen_zrange n : 0 <= n -> zlen (zrange n) = n.
Proof. intros. unfold zlen. rewrite zrange_length. lia. Qed.

Lemma In_zrange i n : In i (zrange n) <-> 0 <= i < n.
Proof.
  unfold zrange. rewrite in_map_iff. split.
  - intros (k & <- & Hk). apply in_seq in Hk. lia.
  - intros H. exists (Z.to_nat i). split; [lia|]. apply in_seq. lia.
Qed.

Lemma zrange_of_nat (n : nat) : zrange (Z.of_nat n) = map Z.of_nat (seq 0 n).
Proof. unfold zrange. now rewrite Nat2Z.id. Qed.

Lemma zrange_nonpos n : n <= 0 -> zrange n = [].
Proof. intros. unfold zrange. replace (Z.to_nat n) with O by lia. reflexivity. Qed.

Lemma NoDup_zrange n : NoDup (zrange n).
Proof.
  unfold zrange. apply FinFun.Injective_map_NoDup.
  - intros a b H. lia.
  - apply seq_NoDup.
Qed.

Lemma zrange2_shift lo hi : zrange2 lo hi = map (fun i => lo + i) (zrange (hi - lo)).
Proof. reflexivity. Qed.

Lemma In_zrange2 i lo hi : In i (zrange2 lo hi) <-> lo <= i < hi.
Proof.
  unfold zrange2. rewrite in_map_iff. split.
  - intros (k & <- & Hk). apply In_zrange in Hk. lia.
  - intros H. exists (i - lo). split; [lia|]. apply In_zrange. lia.
Qed.

(** [map (nth _ l) [0..length l)] is [l] *)
Lemma map_nth_seq {A} (d : A) (l : list A) : map (fun i => nth i l d) (seq 0 (length l)) = l.
Proof.
  induction l as [|a l IH]; [reflexivity|].
  cbn [length seq map nth]. f_equal. rewrite <- seq_shift, map_map. exact IH.
Qed.

Lemma map_nthZ_zrange {A} (d : A) (l : list A) : map (fun i => nthZ d l i) (zrange (zlen l)) = l.
Proof.
  unfold zlen. rewrite zrange_of_nat, map_map.
  erewrite map_ext; [apply map_nth_seq|]. intros i. apply nthZ_of_nat.
Qed.

(** * generic list plumbing *)

Lemma map_flat_map {A B C} (f : B -> C) (g : A -> list B) l :
  map f (flat_map g l) = flat_map (fun x => map f (g x)) l.
Proof.
  induction l as [|a l IH]; [reflexivity|]. cbn [flat_map]. now rewrite map_app, IH.
Qed.

Lemma flat_map_map {A B C} (f : A -> B) (g : B -> list C) l :
  flat_map g (map f l) = flat_map (fun x => g (f x)) l.
Proof.
  induction l as [|a l IH]; [reflexivity|]. cbn [map flat_map]. now rewrite IH.
Qed.

Lemma flat_map_ext_in {A B} (f g : A -> list B) l :
  (forall a, In a l -> f a = g a) -> flat_map f l = flat_map g l.
Proof.
  induction l as [|a l IH]; intros H; [reflexivity|]. cbn [flat_map].
  rewrite H by (left; reflexivity). f_equal. apply IH. intros; apply H. now right.
Qed.

Lemma flat_map_flat_map {A B C} (f : A -> list B) (g : B -> list C) l :
  flat_map g (flat_map f l) = flat_map (fun x => flat_map g (f x)) l.
Proof.
  induction l as [|a l IH]; [reflexivity|]. cbn [flat_map]. now rewrite flat_map_app, IH.
Qed.

Lemma nth_map_lt {A B} (f : A -> B) l i d d' :
  (i < length l)%nat -> nth i (map f l) d = f (nth i l d').
Proof.
  revert i. induction l as [|a l IH]; intros [|i] H; cbn [length map nth] in *; try lia; auto.
  apply IH. lia.
Qed.

(** * [is_permb] *)

Lemma is_permb_aux_spec l n :
  is_permb_aux l n = true <-> (forall k, (k < n)%nat -> In k l).
Proof.
  induction n as [|n IH]; cbn [is_permb_aux].
  - split; [intros _ k Hk; lia|reflexivity].
  - rewrite andb_true_iff, IH, existsb_exists. split.
    + intros [(x & Hx & E) H] k Hk. apply Nat.eqb_eq in E. subst x.
      destruct (Nat.eq_dec k n) as [->|]; [assumption|]. apply H. lia.
    + intros H. split.
      * exists n. split; [apply H; lia|apply Nat.eqb_refl].
      * intros k Hk. apply H. lia.
Qed.

Lemma is_permb_Permutation l : is_permb l = true <-> Permutation (seq 0 (length l)) l.
Proof.
  unfold is_permb. rewrite is_permb_aux_spec. split.
  - intros H. apply NoDup_Permutation_bis.
    + apply seq_NoDup.
    + rewrite seq_length. lia.
    + intros k Hk. apply in_seq in Hk. apply H. lia.
  - intros P k Hk. eapply Permutation_in; [exact P|]. apply in_seq. lia.
Qed.

Lemma is_permb_NoDup l : is_permb l = true -> NoDup l.
Proof.
  intros H. apply is_permb_Permutation in H. eapply Permutation_NoDup; [exact H|apply seq_NoDup].
Qed.

Lemma is_permb_In l : is_permb l = true -> forall x, In x l <-> (x < length l)%nat.
Proof.
  intros H x. apply is_permb_Permutation in H. split.
  - intros Hx. apply Permutation_sym in H. eapply Permutation_in in Hx; [|exact H].
    apply in_seq in Hx. lia.
  - intros Hx. eapply Permutation_in; [exact H|]. apply in_seq. lia.
Qed.

Lemma is_permb_nth_lt l i : is_permb l = true -> (i < length l)%nat -> (nth i l O < length l)%nat.
Proof. intros H Hi. apply (is_permb_In l H). now apply nth_In. Qed.

(** * [index_of] *)

Lemma index_of_In d l :
  In d l -> (index_of d l < length l)%nat /\ nth (index_of d l) l O = d.
Proof.
  induction l as [|x l IH]; intros H; [destruct H|].
  cbn [index_of length]. destruct (Nat.eqb x d) eqn:E.
  - apply Nat.eqb_eq in E. split; [lia|exact E].
  - destruct H as [->|H]; [rewrite Nat.eqb_refl in E; discriminate|].
    destruct (IH H) as [H1 H2]. split; [lia|exact H2].
Qed.

Lemma index_of_nth i l : NoDup l -> (i < length l)%nat -> index_of (nth i l O) l = i.
Proof.
  revert i. induction l as [|x l IH]; intros i ND Hi; [cbn in Hi; lia|].
  inversion ND as [|? ? Hx ND']; subst. destruct i as [|i]; cbn [nth index_of].
  - now rewrite Nat.eqb_refl.
  - cbn [length] in Hi. destruct (Nat.eqb x (nth i l O)) eqn:E.
    + apply Nat.eqb_eq in E. exfalso. apply Hx. rewrite E. apply nth_In. lia.
    + f_equal. apply IH; [assumption|lia].
Qed.

(** * [to_dim_order] and the permutation into level order *)

(** level-order coordinate of a dimension-order coordinate: level [l] holds dimension [ordering[l]]
    (what tensora's from_aos computes) *)
Definition to_level_order (ord : list nat) (c : list Z) : list Z := map (fun i => nth i c 0) ord.

Lemma to_dim_order_length ord lc : length (to_dim_order ord lc) = length ord.
Proof. unfold to_dim_order. now rewrite map_length, seq_length. Qed.

Lemma to_level_order_length ord c : length (to_level_order ord c) = length ord.
Proof. unfold to_level_order. now rewrite map_length. Qed.

Lemma to_level_order_nth ord c l :
  (l < length ord)%nat -> nth l (to_level_order ord c) 0 = nth (nth l ord O) c 0.
Proof.
  intros H. unfold to_level_order. now rewrite (nth_map_lt _ _ _ _ O).
Qed.

Lemma to_dim_order_to_level_order ord c :
  is_permb ord = true -> length c = length ord ->
  to_dim_order ord (to_level_order ord c) = c.
Proof.
  intros P L. unfold to_dim_order. rewrite <- L.
  rewrite <- (map_nth_seq 0 c) at 2. apply map_ext_in. intros d Hd. apply in_seq in Hd.
  assert (In d ord) as Hin by (apply (is_permb_In ord P); lia).
  destruct (index_of_In d ord Hin) as [H1 H2].
  unfold to_level_order.
  rewrite (nth_map_lt _ _ _ _ O) by exact H1. now rewrite H2.
Qed.

Lemma to_level_order_to_dim_order ord lc :
  is_permb ord = true -> length lc = length ord ->
  to_level_order ord (to_dim_order ord lc) = lc.
Proof.
  intros P L. apply (nth_ext _ _ 0 0).
  - now rewrite to_level_order_length.
  - intros i Hi. rewrite to_level_order_length in Hi.
    rewrite to_level_order_nth by exact Hi.
    unfold to_dim_order.
    assert (nth i ord O < length ord)%nat as Hlt by (apply is_permb_nth_lt; assumption).
    rewrite (nth_map_lt _ _ _ _ O) by (rewrite seq_length; exact Hlt).
    rewrite seq_nth by exact Hlt. cbn [plus].
    rewrite index_of_nth; [|apply is_permb_NoDup; assumption|assumption].
    apply nth_indep. lia.
Qed.

Lemma to_dim_order_inj ord a b :
  is_permb ord = true -> length a = length ord -> length b = length ord ->
  to_dim_order ord a = to_dim_order ord b -> a = b.
Proof.
  intros P La Lb E.
  rewrite <- (to_level_order_to_dim_order ord a P La), <- (to_level_order_to_dim_order ord b P Lb).
  now rewrite E.
Qed.

Lemma to_level_order_inj ord a b :
  is_permb ord = true -> length a = length ord -> length b = length ord ->
  to_level_order ord a = to_level_order ord b -> a = b.
Proof.
  intros P La Lb E.
  rewrite <- (to_dim_order_to_level_order ord a P La), <- (to_dim_order_to_level_order ord b P Lb).
  now rewrite E.
Qed.


(** * [walk] *)

Lemma walk_prefix lv : forall p prefix,
  walk lv p prefix = map (fun cq => (rev prefix ++ fst cq, snd cq)) (walk lv p []).
Proof.
  induction lv as [|[l d] lv IH]; intros p prefix.
  - cbn. now rewrite app_nil_r.
  - destruct l as [|pos crd]; cbn [walk]; rewrite map_flat_map; apply flat_map_ext; intros i.
    + rewrite (IH _ (i :: prefix)), (IH _ [i]), map_map. apply map_ext. intros [c q].
      cbn [fst snd rev app]. now rewrite <- app_assoc.
    + rewrite (IH _ (_ :: prefix)), (IH _ [_]), map_map. apply map_ext. intros [c q].
      cbn [fst snd rev app]. now rewrite <- app_assoc.
Qed.

(** every coordinate produced by [walk] has one component per level *)
Lemma walk_length lv : forall p prefix c q,
  In (c, q) (walk lv p prefix) -> length c = (length prefix + length lv)%nat.
Proof.
  induction lv as [|[l d] lv IH]; intros p prefix c q H.
  - cbn in H. destruct H as [H|[]]. inversion H; subst. rewrite rev_length. cbn. lia.
  - destruct l as [|pos crd]; cbn [walk] in H; apply in_flat_map in H; destruct H as (i & _ & H);
      apply IH in H; cbn [length] in *; lia.
Qed.

(** * [wf_tensorb]: what it gives about the shape *)

Lemma wf_tensorb_shape {V} strict (t : tensor V) :
  wf_tensorb strict t = true ->
  length (dims t) = length (ordering t) /\ length (levels t) = length (ordering t)
  /\ is_permb (ordering t) = true /\ Forall (fun d => 0 <= d) (dims t).
Proof.
  unfold wf_tensorb, wf_shapeb. intros H.
  apply andb_true_iff in H. destruct H as [H _].
  repeat (apply andb_true_iff in H; destruct H as [H ?]).
  repeat split.
  - now apply Nat.eqb_eq.
  - now apply Nat.eqb_eq.
  - assumption.
  - apply Forall_forall. intros d Hd.
    match goal with F : forallb _ _ = true |- _ => rewrite forallb_forall in F; specialize (F d Hd) end.
    lia.
Qed.

(** * [weakly_increasing] / [strictly_increasing] as properties *)

Lemma weakly_increasing_cons a l :
  weakly_increasing (a :: l) = true <-> (forall x, In x l -> a <= x) /\ weakly_increasing l = true.
Proof.
  revert a. induction l as [|b l IH]; intros a.
  - cbn. split; [intros _; split; [intros x []|reflexivity]|reflexivity].
  - change (weakly_increasing (a :: b :: l)) with ((a <=? b) && weakly_increasing (b :: l)).
    rewrite andb_true_iff. split.
    + intros [H1 H2]. split; [|exact H2]. intros x [<-|Hx]; [lia|].
      apply IH in H2. destruct H2 as [H2 _]. specialize (H2 x Hx). lia.
    + intros [H1 H2]. split; [|exact H2]. specialize (H1 b (or_introl eq_refl)). lia.
Qed.

Lemma weakly_increasing_nth l : forall i j,
  weakly_increasing l = true -> (i <= j)%nat -> (j < length l)%nat -> nth i l 0 <= nth j l 0.
Proof.
  induction l as [|a l IH]; intros i j W Hij Hj; [cbn in Hj; lia|].
  apply weakly_increasing_cons in W. destruct W as [W1 W2].
  destruct i as [|i]; destruct j as [|j]; cbn [nth]; try lia.
  - apply W1. apply nth_In. cbn in Hj. lia.
  - apply IH; [assumption|lia|cbn in Hj; lia].
Qed.

Lemma strictly_increasing_cons a l :
  strictly_increasing (a :: l) = true <-> (forall x, In x l -> a < x) /\ strictly_increasing l = true.
Proof.
  revert a. induction l as [|b l IH]; intros a.
  - cbn. split; [intros _; split; [intros x []|reflexivity]|reflexivity].
  - change (strictly_increasing (a :: b :: l)) with ((a <? b) && strictly_increasing (b :: l)).
    rewrite andb_true_iff. split.
    + intros [H1 H2]. split; [|exact H2]. intros x [<-|Hx]; [lia|].
      apply IH in H2. destruct H2 as [H2 _]. specialize (H2 x Hx). lia.
    + intros [H1 H2]. split; [|exact H2]. specialize (H1 b (or_introl eq_refl)). lia.
Qed.

Lemma strictly_increasing_NoDup l : strictly_increasing l = true -> NoDup l.
Proof.
  induction l as [|a l IH]; intros H; [constructor|].
  apply strictly_increasing_cons in H. destruct H as [H1 H2]. constructor; [|now apply IH].
  intros Hin. specialize (H1 a Hin). lia.
Qed.

(** * the coordinates listed by [walk] over well-formed levels: no duplicates, in range *)

Definition cons_hd (i : Z) (cq : list Z * Z) : list Z * Z := (i :: fst cq, snd cq).

Lemma NoDup_app_disjoint {A} (a b : list A) :
  NoDup a -> NoDup b -> (forall x, In x a -> ~ In x b) -> NoDup (a ++ b).
Proof.
  induction a as [|x a IH]; intros Ha Hb H; [exact Hb|].
  inversion Ha; subst. cbn. constructor.
  - rewrite in_app_iff. intros [?|?]; [contradiction|]. eapply H; [left; reflexivity|assumption].
  - apply IH; auto. intros y Hy. apply H. now right.
Qed.

Lemma NoDup_flat_map_cons_hd {I} (h : I -> Z) (G : I -> list (list Z * Z)) idx :
  NoDup (map h idx) -> (forall i, In i idx -> NoDup (map fst (G i))) ->
  NoDup (map fst (flat_map (fun i => map (cons_hd (h i)) (G i)) idx)).
Proof.
  induction idx as [|i idx IH]; intros Hi HG; [constructor|].
  cbn [map] in Hi. inversion Hi as [|? ? Hn Hi']; subst. cbn [flat_map]. rewrite map_app.
  apply NoDup_app_disjoint.
  - rewrite map_map. cbn [cons_hd fst].
    rewrite <- (map_map fst (cons (h i))). apply FinFun.Injective_map_NoDup; [|apply HG; now left].
    intros a b E. now inversion E.
  - apply IH; [assumption|]. intros j Hj. apply HG. now right.
  - intros c Hc Hc'. rewrite map_map in Hc. apply in_map_iff in Hc. destruct Hc as (cv & <- & _).
    apply in_map_iff in Hc'. destruct Hc' as (cv' & E & Hin).
    apply in_flat_map in Hin. destruct Hin as (i' & Hi'' & Hin).
    apply in_map_iff in Hin. destruct Hin as (cv'' & <- & _). cbn in E. inversion E as [[E1 E2]].
    apply Hn. rewrite <- E1. now apply in_map.
Qed.

Fixpoint coord_within (lv : list (level * Z)) (c : list Z) : Prop :=
  match lv, c with
  | [], [] => True
  | (_, d) :: r, x :: c' => 0 <= x < d /\ coord_within r c'
  | _, _ => False
  end.

Lemma walk_cons_hd lv p i :
  walk lv p [i] = map (cons_hd i) (walk lv p []).
Proof. rewrite walk_prefix. apply map_ext. intros [c q]. reflexivity. Qed.

Lemma walk_wf lv : forall n k p,
  wf_levelsb lv n = Some k -> 0 <= p < n ->
  NoDup (map fst (walk lv p []))
  /\ forall c q, In (c, q) (walk lv p []) -> 0 <= q < k /\ coord_within lv c.
Proof.
  induction lv as [|[l d] lv IH]; intros n k p W Hp.
  - cbn in W. inversion W; subst. cbn. split; [constructor; [intros []|constructor]|].
    intros c q [H|[]]. inversion H; subst. split; [lia|exact I].
  - destruct l as [|pos crd]; cbn [wf_levelsb] in W.
    + destruct (0 <=? d) eqn:Ed; [|discriminate].
      assert (forall i, In i (zrange d) -> 0 <= p * d + i < n * d) as Hr.
      { intros i Hi. apply In_zrange in Hi. nia. }
      cbn [walk]. split.
      * erewrite flat_map_ext_in; [|intros i _; apply walk_cons_hd].
        apply (NoDup_flat_map_cons_hd (fun i => i) (fun i => walk lv (p * d + i) [])).
        -- rewrite map_id. apply NoDup_zrange.
        -- intros i Hi. apply (IH _ _ _ W (Hr i Hi)).
      * intros c q Hin. apply in_flat_map in Hin. destruct Hin as (i & Hi & Hin).
        rewrite walk_cons_hd in Hin. apply in_map_iff in Hin. destruct Hin as ([c' q'] & E & Hin).
        inversion E; subst. destruct (IH _ _ _ W (Hr i Hi)) as [_ H]. destruct (H _ _ Hin) as [H1 H2].
        split; [exact H1|]. cbn. split; [apply In_zrange in Hi; lia|exact H2].
    + destruct (wf_compressedb n d pos crd) eqn:Wc; [|discriminate].
      unfold wf_compressedb in Wc. rewrite !andb_true_iff in Wc.
      destruct Wc as [[[[[W1 W2] W3] W4] W5] W6].
      assert (length pos = Z.to_nat (n + 1)) as Lp by (unfold zlen in W1; lia).
      assert (nthZ 0 pos p = nth (Z.to_nat p) pos 0) as Ep by (apply nthZ_nonneg; lia).
      assert (nthZ 0 pos (p + 1) = nth (Z.to_nat (p + 1)) pos 0) as Ep1 by (apply nthZ_nonneg; lia).
      assert (nth 0 pos 0 = 0) as P0.
      { rewrite nthZ_nonneg in W2 by lia. rewrite (nth_indep _ 0 (-1)) by lia. cbn in W2. lia. }
      assert (nth (Z.to_nat n) pos 0 = zlen crd) as Pn.
      { rewrite nthZ_nonneg in W4 by lia. rewrite (nth_indep _ 0 (-1)) by lia. lia. }
      assert (0 <= nthZ 0 pos p) as Lo.
      { rewrite Ep. pose proof (weakly_increasing_nth pos O (Z.to_nat p) W3 ltac:(lia) ltac:(lia)). lia. }
      assert (nthZ 0 pos (p + 1) <= zlen crd) as Hi.
      { rewrite Ep1.
        pose proof (weakly_increasing_nth pos (Z.to_nat (p + 1)) (Z.to_nat n) W3 ltac:(lia) ltac:(lia)). lia. }
      assert (forall q, In q (zrange2 (nthZ 0 pos p) (nthZ 0 pos (p + 1))) -> 0 <= q < zlen crd) as Hq.
      { intros q Hin. apply In_zrange2 in Hin. lia. }
      assert (forall q, 0 <= q < zlen crd -> 0 <= nthZ (-1) crd q < d) as Hc.
      { intros q Hq'. rewrite forallb_forall in W6. rewrite nthZ_nonneg by lia.
        assert (In (nth (Z.to_nat q) crd (-1)) crd) as Hin by (apply nth_In; unfold zlen in Hq'; lia).
        specialize (W6 _ Hin). lia. }
      cbn [walk]. split.
      * erewrite flat_map_ext_in; [|intros q _; apply walk_cons_hd].
        apply (NoDup_flat_map_cons_hd (fun q => nthZ (-1) crd q) (fun q => walk lv q [])).
        -- rewrite forallb_forall in W5. specialize (W5 p ltac:(apply In_zrange; lia)).
           unfold segment in W5. now apply strictly_increasing_NoDup.
        -- intros q Hin. apply (IH _ _ _ W (Hq q Hin)).
      * intros c q0 Hin. apply in_flat_map in Hin. destruct Hin as (q & Hqi & Hin).
        rewrite walk_cons_hd in Hin. apply in_map_iff in Hin. destruct Hin as ([c' q'] & E & Hin).
        inversion E; subst. destruct (IH _ _ _ W (Hq q Hqi)) as [_ H]. destruct (H _ _ Hin) as [H1 H2].
        split; [exact H1|]. cbn. split; [apply Hc; now apply Hq|exact H2].
Qed.

Lemma coord_within_nth lv c :
  coord_within lv c ->
  length c = length lv /\ forall l, (l < length lv)%nat -> 0 <= nth l c (-1) < nth l (map snd lv) 0.
Proof.
  revert c. induction lv as [|[lvl d] lv IH]; intros [|x c] H; cbn in H; try contradiction.
  - split; [reflexivity|]. intros l Hl. cbn in Hl. lia.
  - destruct H as [H1 H2]. destruct (IH _ H2) as [L N]. split; [cbn; lia|].
    intros [|l] Hl; cbn [nth map snd]; [exact H1|]. apply N. cbn in Hl. lia.
Qed.

Lemma combine_map_snd {A B} (a : list A) (b : list B) :
  length a = length b -> map snd (combine a b) = b.
Proof.
  revert b. induction a as [|x a IH]; intros [|y b] L; cbn in L; try discriminate; [reflexivity|].
  cbn. f_equal. apply IH. lia.
Qed.

Lemma combine_map_fst {A B} (a : list A) (b : list B) :
  length a = length b -> map fst (combine a b) = a.
Proof.
  revert b. induction a as [|x a IH]; intros [|y b] L; cbn in L; try discriminate; [reflexivity|].
  cbn. f_equal. apply IH. lia.
Qed.

(** The stored entries of a well-formed tensor: every coordinate once, all within the dimensions. *)
Theorem wf_entries {V} (dflt : V) strict (t : tensor V) :
  wf_tensorb strict t = true ->
  NoDup (map fst (entries dflt t))
  /\ forall c v, In (c, v) (entries dflt t) ->
       length c = length (dims t)
       /\ forall i, (i < length (dims t))%nat -> 0 <= nth i c 0 < nth i (dims t) 0.
Proof.
  intros W. pose proof (wf_tensorb_shape _ _ W) as (L1 & L2 & P & Dm).
  unfold wf_tensorb in W. apply andb_true_iff in W. destruct W as [_ W].
  destruct (wf_levelsb (combine (levels t) (level_dims t)) 1) as [k|] eqn:E; [|discriminate].
  destruct (walk_wf _ _ _ 0 E ltac:(lia)) as [ND HW].
  set (lv := combine (levels t) (level_dims t)) in *.
  assert (length (level_dims t) = length (ordering t)) as Lld by (unfold level_dims; apply map_length).
  assert (length lv = length (ordering t)) as Llv by (unfold lv; rewrite combine_length; lia).
  assert (map snd lv = level_dims t) as Ms.
  { unfold lv. apply combine_map_snd. lia. }
  unfold entries. fold lv. split.
  - rewrite map_map.
    assert (map (fun x : list Z * Z => fst (let '(lc, p) := x in (to_dim_order (ordering t) lc, nthZ dflt (vals t) p)))
                (walk lv 0 [])
            = map (to_dim_order (ordering t)) (map fst (walk lv 0 []))) as ->.
    { rewrite map_map. apply map_ext. intros [c q]. reflexivity. }
    assert (forall a, In a (map fst (walk lv 0 [])) -> length a = length (ordering t)) as La.
    { intros a Ha. apply in_map_iff in Ha. destruct Ha as ([c q] & <- & Hin). cbn [fst].
      apply walk_length in Hin. cbn in Hin. lia. }
    revert ND La. generalize (map fst (walk lv 0 [])). intros l ND La.
    induction ND as [|a l Hn ND IH]; [constructor|]. cbn [map]. constructor.
    + intros Hin. apply in_map_iff in Hin. destruct Hin as (b & Eb & Hb).
      assert (b = a).
      { apply (to_dim_order_inj (ordering t)); [assumption| | |exact Eb]; apply La; [now right|now left]. }
      subst. contradiction.
    + apply IH. intros b Hb. apply La. now right.
  - intros c v Hin. apply in_map_iff in Hin. destruct Hin as ([lc q] & E' & Hin).
    inversion E'; subst c v. clear E'.
    destruct (HW _ _ Hin) as [_ Hc]. apply coord_within_nth in Hc. destruct Hc as [Lc Nc].
    split; [rewrite to_dim_order_length; lia|].
    intros i Hi. unfold to_dim_order.
    rewrite (nth_map_lt _ _ _ _ O) by (rewrite seq_length; lia).
    rewrite seq_nth by lia. cbn [plus].
    assert (In i (ordering t)) as Hio by (apply (is_permb_In _ P); lia).
    destruct (index_of_In i (ordering t) Hio) as [I1 I2].
    specialize (Nc (index_of i (ordering t)) ltac:(lia)).
    rewrite Ms in Nc. unfold level_dims in Nc.
    rewrite (nth_map_lt _ _ _ _ O) in Nc by exact I1. rewrite I2 in Nc. exact Nc.
Qed.
