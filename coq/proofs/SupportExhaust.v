(** The written-flag guard is sound for structural support (C03 mechanism "terminal raises every
    enclosing layer's flag unless its expression exhausted to literal 0"):

    if, after exhausting any list of tensor occurrences [refs] in any order, the expression is not
    [Integer(0)], then the ORIGINAL expression has boolean support when exactly the non-exhausted
    occurrences are present (literals present).  So a terminal can only raise the flags where some
    additive term has all its factors present.  Closed under the global context. *)

From Coq Require Import ZArith List Bool String Lia.
From TV Require Import model.ExhaustGuard.
Import ListNotations.
Open Scope Z_scope.

Fixpoint tensors (e : iexpr) : list string :=
  match e with
  | IZero | ILit _ _ => []
  | ITen id => [id]
  | IAdd l r | IMul l r => tensors l ++ tensors r
  end.

Definition wfz (e : iexpr) : Prop := e = IZero \/ zfree e = true.

Lemma exhaust_unchanged ref e : snd (exhaust ref e) = true -> fst (exhaust ref e) = e.
Proof.
  induction e as [| | id |l IHl r IHr|l IHl r IHr]; cbn; try reflexivity.
  - destruct (String.eqb id ref); [discriminate|reflexivity].
  - destruct (exhaust ref l) as [l' ul], (exhaust ref r) as [r' ur]. cbn in *.
    destruct (ul && ur); [reflexivity|].
    destruct (is_izero l'); [discriminate|]. destruct (is_izero r'); discriminate.
  - destruct (exhaust ref l) as [l' ul], (exhaust ref r) as [r' ur]. cbn in *.
    destruct (ul && ur); [reflexivity|].
    destruct (is_izero l' || is_izero r'); discriminate.
Qed.

(** removing occurrences can only shrink the support *)
Lemma exhaust_isupp P ref e : isupp P (fst (exhaust ref e)) = true -> isupp P e = true.
Proof.
  induction e as [| | id |l IHl r IHr|l IHl r IHr]; cbn; try (intros H; exact H).
  - destruct (String.eqb id ref); cbn; [discriminate|auto].
  - destruct (exhaust ref l) as [l' ul], (exhaust ref r) as [r' ur]. cbn in *.
    destruct (ul && ur); cbn; [auto|].
    destruct (is_izero l'); cbn.
    { intros H. rewrite (IHr H). apply orb_true_r. }
    destruct (is_izero r'); cbn.
    { intros H. rewrite (IHl H). reflexivity. }
    intros H. apply orb_true_iff in H. destruct H as [H|H]; [rewrite (IHl H)|rewrite (IHr H), orb_true_r]; reflexivity.
  - destruct (exhaust ref l) as [l' ul], (exhaust ref r) as [r' ur]. cbn in *.
    destruct (ul && ur); cbn; [auto|].
    destruct (is_izero l' || is_izero r'); cbn; [discriminate|].
    intros H. apply andb_true_iff in H. destruct H as [H1 H2]. now rewrite (IHl H1), (IHr H2).
Qed.

Lemma zfree_not_IZero e : zfree e = true -> e <> IZero.
Proof. destruct e; cbn; congruence. Qed.

Lemma is_izero_zfree e : zfree e = true -> is_izero e = true -> exists b, e = ILit true 0 /\ b = true.
Proof. destruct e as [|[|] [| |]| | |]; cbn; try discriminate; intros; eexists; eauto. Qed.

(** the result is [IZero] or contains none *)
Lemma exhaust_wfz ref e : zfree e = true -> wfz (fst (exhaust ref e)).
Proof.
  induction e as [| | id |l IHl r IHr|l IHl r IHr]; cbn; intros Z; try discriminate.
  - right. reflexivity.
  - destruct (String.eqb id ref); cbn; [left; reflexivity|right; reflexivity].
  - apply andb_true_iff in Z. destruct Z as [Zl Zr].
    specialize (IHl Zl). specialize (IHr Zr).
    destruct (exhaust ref l) as [l' ul], (exhaust ref r) as [r' ur]. cbn in *.
    destruct (ul && ur); cbn; [right; cbn; now rewrite Zl, Zr|].
    destruct (is_izero l') eqn:El; cbn; [exact IHr|].
    destruct (is_izero r') eqn:Er; cbn; [exact IHl|].
    right. cbn. destruct IHl as [->|Hl]; [discriminate|]. destruct IHr as [->|Hr]; [discriminate|].
    now rewrite Hl, Hr.
  - apply andb_true_iff in Z. destruct Z as [Zl Zr].
    specialize (IHl Zl). specialize (IHr Zr).
    destruct (exhaust ref l) as [l' ul], (exhaust ref r) as [r' ur]. cbn in *.
    destruct (ul && ur); cbn; [right; cbn; now rewrite Zl, Zr|].
    destruct (is_izero l') eqn:El; cbn; [left; reflexivity|].
    destruct (is_izero r') eqn:Er; cbn; [left; reflexivity|].
    right. cbn. destruct IHl as [->|Hl]; [discriminate|]. destruct IHr as [->|Hr]; [discriminate|].
    now rewrite Hl, Hr.
Qed.

(** exhaustion removes every occurrence of [ref] and introduces no tensor *)
Lemma exhaust_tensors ref e id :
  In id (tensors (fst (exhaust ref e))) -> In id (tensors e) /\ id <> ref.
Proof.
  induction e as [| | id' |l IHl r IHr|l IHl r IHr]; cbn; try (intros []).
  - destruct (String.eqb id' ref) eqn:E; cbn; [intros []|].
    intros [<-|[]]. split; [now left|]. intros ->. now rewrite String.eqb_refl in E.
  - destruct (exhaust ref l) as [l' ul] eqn:EL, (exhaust ref r) as [r' ur] eqn:ER. cbn in *.
    destruct (ul && ur) eqn:U; cbn.
    + apply andb_true_iff in U. destruct U as [-> ->].
      pose proof (exhaust_unchanged ref l) as Ul. pose proof (exhaust_unchanged ref r) as Ur.
      rewrite EL in Ul. rewrite ER in Ur. cbn in Ul, Ur. rewrite (Ul eq_refl) in IHl. rewrite (Ur eq_refl) in IHr.
      intros H. apply in_app_or in H. destruct H as [H|H].
      * destruct (IHl H). split; [apply in_or_app; now left|assumption].
      * destruct (IHr H). split; [apply in_or_app; now right|assumption].
    + destruct (is_izero l'); cbn.
      { intros H. destruct (IHr H). split; [apply in_or_app; now right|assumption]. }
      destruct (is_izero r'); cbn.
      { intros H. destruct (IHl H). split; [apply in_or_app; now left|assumption]. }
      intros H. apply in_app_or in H. destruct H as [H|H].
      * destruct (IHl H). split; [apply in_or_app; now left|assumption].
      * destruct (IHr H). split; [apply in_or_app; now right|assumption].
  - destruct (exhaust ref l) as [l' ul] eqn:EL, (exhaust ref r) as [r' ur] eqn:ER. cbn in *.
    destruct (ul && ur) eqn:U; cbn.
    + apply andb_true_iff in U. destruct U as [-> ->].
      pose proof (exhaust_unchanged ref l) as Ul. pose proof (exhaust_unchanged ref r) as Ur.
      rewrite EL in Ul. rewrite ER in Ur. cbn in Ul, Ur. rewrite (Ul eq_refl) in IHl. rewrite (Ur eq_refl) in IHr.
      intros H. apply in_app_or in H. destruct H as [H|H].
      * destruct (IHl H). split; [apply in_or_app; now left|assumption].
      * destruct (IHr H). split; [apply in_or_app; now right|assumption].
    + destruct (is_izero l' || is_izero r'); cbn; [intros []|].
      intros H. apply in_app_or in H. destruct H as [H|H].
      * destruct (IHl H). split; [apply in_or_app; now left|assumption].
      * destruct (IHr H). split; [apply in_or_app; now right|assumption].
Qed.

Lemma zfree_all_present P e :
  zfree e = true -> (forall id, In id (tensors e) -> P id = true) -> isupp P e = true.
Proof.
  induction e as [| | id |l IHl r IHr|l IHl r IHr]; cbn; intros Z H; try discriminate; try reflexivity.
  - apply H. now left.
  - apply andb_true_iff in Z. destruct Z as [Zl Zr].
    rewrite IHl; [reflexivity|exact Zl|]. intros id Hid. apply H. apply in_or_app. now left.
  - apply andb_true_iff in Z. destruct Z as [Zl Zr].
    rewrite IHl, IHr; try assumption; try reflexivity; intros id Hid; apply H; apply in_or_app; [now right|now left].
Qed.

Lemma mem_id_In k l : mem_id k l = true <-> In k l.
Proof.
  induction l as [|x l IH]; cbn; [split; [discriminate|tauto]|].
  rewrite orb_true_iff, IH, String.eqb_eq. tauto.
Qed.

Lemma exhaust_IZero ref : fst (exhaust ref IZero) = IZero.
Proof. reflexivity. Qed.

Lemma exhaust_all_inv refs : forall e,
  wfz e ->
  wfz (exhaust_all refs e)
  /\ (forall P, isupp P (exhaust_all refs e) = true -> isupp P e = true)
  /\ (forall id, In id (tensors (exhaust_all refs e)) -> In id (tensors e) /\ ~ In id refs).
Proof.
  induction refs as [|r refs IH]; intros e W; cbn [exhaust_all fold_left].
  - repeat split; auto.
  - assert (wfz (fst (exhaust r e))) as W'.
    { destruct W as [->|Z]; [left; reflexivity|now apply exhaust_wfz]. }
    destruct (IH _ W') as (A & B & C). fold (exhaust_all refs (fst (exhaust r e))) in *.
    split; [exact A|]. split.
    + intros P H. apply (exhaust_isupp P r). now apply B.
    + intros id H. destruct (C id H) as [H1 H2]. destruct (exhaust_tensors r e id H1) as [H3 H4].
      split; [exact H3|]. intros [->|Hin]; [now apply H4|now apply H2].
Qed.

(** The guard is sound: flags are raised only where the original expression has support with
    exactly the non-exhausted occurrences present. *)
Theorem guard_sound (refs : list string) (e : iexpr) :
  zfree e = true ->
  raises_flags (exhaust_all refs e) = true ->
  isupp (fun id => negb (mem_id id refs)) e = true.
Proof.
  intros Z G. destruct (exhaust_all_inv refs e (or_intror Z)) as (A & B & C).
  apply B. unfold raises_flags in G. apply negb_true_iff in G.
  destruct A as [E|Zn]; [rewrite E in G; discriminate|].
  apply zfree_all_present; [exact Zn|].
  intros id H. destruct (C id H) as [_ Hn]. apply negb_true_iff.
  destruct (mem_id id refs) eqn:M; [|reflexivity]. apply mem_id_In in M. contradiction.
Qed.

(** Exhausting a factor of a product kills the product: the flags stay down. *)
Lemma exhaust_kills_product ref e :
  raises_flags (fst (exhaust ref (IMul (ITen ref) e))) = false
  /\ raises_flags (fst (exhaust ref (IMul e (ITen ref)))) = false.
Proof.
  unfold raises_flags. split; cbn; rewrite String.eqb_refl; destruct (exhaust ref e) as [e' u]; cbn.
  - reflexivity.
  - rewrite andb_false_r, orb_true_r. reflexivity.
Qed.

Example guard_example :
  let e := IAdd (IMul (ITen "b") (ITen "c")) (IMul (ILit true 0) (ITen "d")) in
  map (fun refs => raises_flags (exhaust_all refs e)) [[]; ["b"]; ["d"]; ["b"; "d"]; ["c"; "d"]]%string
  = [true; true; true; false; false].
Proof. vm_compute. reflexivity. Qed.
